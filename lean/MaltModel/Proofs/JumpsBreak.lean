import MaltModel.Proofs.JumpsCommon
/-
Semantic preservation of the break lowering `brkS/brkB/brkH` (Conv/JumpsSem.lean): forward simulation,
proved by one induction on fuel over four mutually dependent statements (statement, block, guarded
`while`, guarded `for` iterations).
-/
namespace Malt.Sem.Jumps
open Malt.Sem

/-- The hidden (generated) names of the break / continue lowering: the range of `gen`. -/
def Hid (gen : Gen) : Name → Prop := fun x => ∃ q, x = gen q

theorem Hid.gen (gen : Gen) (q : List Nat) : Hid gen (gen q) := ⟨q, rfl⟩

/-- Generated flags of paths shorter than `d`, other than the current one, keep their values. -/
def Frame (gen : Gen) (d : Nat) (pc : List Nat) (σ' σ1' : St) : Prop :=
  ∀ q : List Nat, q.length < d → q ≠ pc → σ1'.env (gen q) = σ'.env (gen q)

theorem Frame.refl (gen : Gen) (d : Nat) (pc : List Nat) (σ : St) : Frame gen d pc σ σ := fun _ _ _ => rfl

theorem Frame.trans {gen : Gen} {d : Nat} {pc : List Nat} {a b c : St}
    (h1 : Frame gen d pc a b) (h2 : Frame gen d pc b c) : Frame gen d pc a c :=
  fun q hq hne => by rw [h2 q hq hne, h1 q hq hne]

theorem Frame.mono {gen : Gen} {d d' : Nat} {pc : List Nat} {a b : St}
    (h : Frame gen d' pc a b) (hd : d ≤ d') : Frame gen d pc a b :=
  fun q hq hne => h q (Nat.lt_of_lt_of_le hq hd) hne

theorem Frame.of_env {gen : Gen} {d : Nat} {pc : List Nat} {a b : St} (h : b.env = a.env) : Frame gen d pc a b :=
  fun q _ _ => by rw [h]

theorem Frame.of_sameHidden {gen : Gen} {d : Nat} {pc : List Nat} {a b : St}
    (h : SameHidden (Hid gen) a b) : Frame gen d pc a b :=
  fun q _ _ => h _ (Hid.gen gen q)

/-- Post-condition of the break lowering for the current flag `cur`. -/
def BPost (cur : Name) (hit : Bool) (o o' : Out) (σ' σ1' : St) : Prop :=
  (o = .brk → hit = true ∧ o' = .cont ∧ σ1'.env cur = some (.int 1)) ∧
  (o ≠ .brk → o' = o ∧ (σ1'.env cur = σ'.env cur ∨ Out.fatal o)) ∧
  (hit = false → σ1'.env cur = σ'.env cur)

/-- An unchanged statement with outcome `o ≠ brk`. -/
theorem BPost.same {cur : Name} {o : Out} {σ' σ1' : St} (ho : o ≠ .brk) (h : σ1'.env cur = σ'.env cur) :
    BPost cur false o o σ' σ1' :=
  ⟨fun hb => absurd hb ho, fun _ => ⟨rfl, Or.inl h⟩, fun _ => h⟩

/-! ### syntactic facts -/

mutual
theorem brkS_jumpFree (gen : Gen) (cur : Name) : ∀ (p : List Nat) (s : Stmt), jumpFreeS s = true →
    (brkS gen cur p s).2 = false
  | p, .brk, h => by simp [jumpFreeS] at h
  | p, .cont, h => by simp [jumpFreeS] at h
  | p, .ret e, h => by simp [jumpFreeS] at h
  | p, .assign x e, _ => by simp [brkS]
  | p, .expr e, _ => by simp [brkS]
  | p, .pass, _ => by simp [brkS]
  | p, .raise t, _ => by simp [brkS]
  | p, .ifS c t e, h => by
      simp only [jumpFreeS, Bool.and_eq_true] at h
      simp [brkS, brkB_jumpFree gen cur _ t h.1, brkB_jumpFree gen cur _ e h.2]
  | p, .whileS c b, h => by simp only [brkS]; split <;> rfl
  | p, .forS x it ex b, h => by simp only [brkS]; split <;> rfl
  | p, .tryS b hs f, h => by
      simp only [jumpFreeS, Bool.and_eq_true] at h
      simp [brkS, brkB_jumpFree gen cur _ b h.1.1, brkH_jumpFree gen cur _ hs h.1.2, brkB_jumpFree gen cur _ f h.2]
  | p, .withS t b, h => by
      simp only [jumpFreeS] at h
      simp [brkS, brkB_jumpFree gen cur _ b h]
theorem brkB_jumpFree (gen : Gen) (cur : Name) : ∀ (p : List Nat) (b : List Stmt), jumpFreeB b = true →
    (brkB gen cur p b).2 = false
  | p, [], _ => by simp [brkB]
  | p, s :: rest, h => by
      simp only [jumpFreeB, Bool.and_eq_true] at h
      simp [brkB, brkS_jumpFree gen cur _ s h.1, brkB_jumpFree gen cur _ rest h.2]
theorem brkH_jumpFree (gen : Gen) (cur : Name) : ∀ (p : List Nat) (hs : List (Nat × List Stmt)), jumpFreeH hs = true →
    (brkH gen cur p hs).2 = false
  | p, [], _ => by simp [brkH]
  | p, (t, b) :: hs, h => by
      simp only [jumpFreeH, Bool.and_eq_true] at h
      simp [brkH, brkB_jumpFree gen cur _ b h.1, brkH_jumpFree gen cur _ hs h.2]
end

/-- The handler selected in the lowered handler list is the lowering of the selected handler. -/
theorem brkH_find (gen : Gen) (cur : Name) (ex : Exc) : ∀ (p : List Nat) (hs : List (Nat × Block)) (hb : Block),
    findHandler hs ex = some hb →
    ∃ j, findHandler (brkH gen cur p hs).1 ex = some (brkB gen cur (j :: p) hb).1 ∧
      ((brkH gen cur p hs).2 = false → (brkB gen cur (j :: p) hb).2 = false) := by
  intro p hs hb h
  cases ex with
  | user t =>
    simp only [findHandler] at h ⊢
    induction hs with
    | nil => simp at h
    | cons ph hs ih =>
      obtain ⟨t', b⟩ := ph
      simp only [List.find?] at h
      simp only [brkH, List.find?]
      by_cases ht : (t' == t) = true
      · simp only [ht] at h ⊢
        simp at h; subst h
        refine ⟨hs.length, by simp, ?_⟩
        intro hf; simp only [Bool.or_eq_false_iff] at hf; exact hf.1
      · simp only [ht] at h ⊢
        obtain ⟨j, h1, h2⟩ := ih h
        refine ⟨j, h1, ?_⟩
        intro hf; simp only [Bool.or_eq_false_iff] at hf; exact h2 hf.2
  | nameError x => simp [findHandler] at h
  | typeError => simp [findHandler] at h

theorem brkH_find_none (gen : Gen) (cur : Name) (ex : Exc) : ∀ (p : List Nat) (hs : List (Nat × Block)),
    findHandler hs ex = none → findHandler (brkH gen cur p hs).1 ex = none := by
  intro p hs h
  cases ex with
  | user t =>
    simp only [findHandler] at h ⊢
    induction hs with
    | nil => simp [brkH]
    | cons ph hs ih =>
      obtain ⟨t', b⟩ := ph
      simp only [List.find?] at h
      simp only [brkH, List.find?]
      by_cases ht : (t' == t) = true
      · simp [ht] at h
      · simp only [ht] at h ⊢
        exact ih h
  | nameError x => simp [findHandler]
  | typeError => simp [findHandler]

/-! ### the simulation statements -/

section
variable (gen : Gen) (X : Ext)

def BSimS (n : Nat) : Prop :=
  ∀ (s : Stmt) (pc p : List Nat) (σ σ' : St) (o : Out) (σ1 : St),
    CleanS (Hid gen) s → finOKS s = true → noExtraS s = true → pc.length < p.length →
    Agree (Hid gen) σ σ' → exec X n s σ = some (o, σ1) →
    ∃ m σ1' o', execB X m (brkS gen (gen pc) p s).1 σ' = some (o', σ1') ∧ Agree (Hid gen) σ1 σ1' ∧
      BPost (gen pc) (brkS gen (gen pc) p s).2 o o' σ' σ1' ∧ Frame gen p.length pc σ' σ1'

def BSimB (n : Nat) : Prop :=
  ∀ (b : Block) (pc p : List Nat) (σ σ' : St) (o : Out) (σ1 : St),
    CleanB (Hid gen) b → finOKB b = true → noExtraB b = true → pc.length ≤ p.length →
    Agree (Hid gen) σ σ' → execB X n b σ = some (o, σ1) →
    ∃ m σ1' o', execB X m (brkB gen (gen pc) p b).1 σ' = some (o', σ1') ∧ Agree (Hid gen) σ1 σ1' ∧
      BPost (gen pc) (brkB gen (gen pc) p b).2 o o' σ' σ1' ∧ Frame gen (p.length + 1) pc σ' σ1'

/-- The lowered `while` (after the flag initialisation, if any). -/
def brkWhile (p : List Nat) (c : Expr) (b : Block) : Stmt :=
  .whileS (if (brkB gen (gen p) p b).2 then guardE (gen p) c else c) (brkB gen (gen p) p b).1

def BSimW (n : Nat) : Prop :=
  ∀ (c : Expr) (b : Block) (p : List Nat) (σ σ' : St) (o : Out) (σ1 : St),
    CleanE (Hid gen) c → CleanB (Hid gen) b → finOKB b = true → noExtraB b = true →
    Agree (Hid gen) σ σ' → ((brkB gen (gen p) p b).2 = true → σ'.env (gen p) = some (.int 0)) →
    exec X n (.whileS c b) σ = some (o, σ1) →
    ∃ m σ1', exec X m (brkWhile gen p c b) σ' = some (o, σ1') ∧ Agree (Hid gen) σ1 σ1' ∧
      (∀ q : List Nat, q.length < p.length → σ1'.env (gen q) = σ'.env (gen q))

def brkForExtra (p : List Nat) (b : Block) : Option Expr :=
  if (brkB gen (gen p) p b).2 then some (.not (.var (gen p))) else none

def brkForBody (p : List Nat) (b : Block) : Block :=
  if (brkB gen (gen p) p b).2 then .expr (.var (gen p)) :: (brkB gen (gen p) p b).1 else (brkB gen (gen p) p b).1

def BSimF (n : Nat) : Prop :=
  ∀ (x : Name) (b : Block) (p : List Nat) (items : List Val) (σ σ' : St) (o : Out) (σ1 : St),
    ¬ Hid gen x → CleanB (Hid gen) b → finOKB b = true → noExtraB b = true →
    Agree (Hid gen) σ σ' → ((brkB gen (gen p) p b).2 = true → σ'.env (gen p) = some (.int 0)) →
    execFor X n x none b items σ = some (o, σ1) →
    ∃ m σ1', execFor X m x (brkForExtra gen p b) (brkForBody gen p b) items σ' = some (o, σ1') ∧
      Agree (Hid gen) σ1 σ1' ∧
      (∀ q : List Nat, q.length < p.length → σ1'.env (gen q) = σ'.env (gen q))

end

/-! ### combining post-conditions -/

theorem BPost.mono {cur : Name} {h h' : Bool} {o o' : Out} {σ' σ1' : St}
    (hp : BPost cur h o o' σ' σ1') (hh : h = true → h' = true) : BPost cur h' o o' σ' σ1' := by
  refine ⟨fun hb => ?_, hp.2.1, fun hf => ?_⟩
  · obtain ⟨h1, h2, h3⟩ := hp.1 hb; exact ⟨hh h1, h2, h3⟩
  · apply hp.2.2
    cases h with
    | false => rfl
    | true => rw [hh rfl] at hf; cases hf

theorem BPost.seq {cur : Name} {h1 h2 : Bool} {o o' : Out} {σ' σs' σ1' : St}
    (hp1 : BPost cur h1 .normal .normal σ' σs') (hp2 : BPost cur h2 o o' σs' σ1') :
    BPost cur (h1 || h2) o o' σ' σ1' := by
  have hs : h1 = false → σs'.env cur = σ'.env cur := hp1.2.2
  have hs' : σs'.env cur = σ'.env cur := by
    rcases (hp1.2.1 (by simp)).2 with h | h
    · exact h
    · exact absurd h (by simp [Out.fatal])
  refine ⟨fun hb => ?_, fun hb => ?_, fun hf => ?_⟩
  · obtain ⟨a, b, c⟩ := hp2.1 hb; exact ⟨by simp [a], b, c⟩
  · obtain ⟨a, b⟩ := hp2.2.1 hb
    refine ⟨a, ?_⟩
    rcases b with b | b
    · exact Or.inl (by rw [b, hs'])
    · exact Or.inr b
  · simp only [Bool.or_eq_false_iff] at hf
    rw [hp2.2.2 hf.2, hs']

theorem BPost.out_ne_normal {cur : Name} {h : Bool} {o o' : Out} {σ' σ1' : St}
    (hp : BPost cur h o o' σ' σ1') (ho : o ≠ .normal) : o' ≠ .normal := by
  by_cases hb : o = .brk
  · rw [(hp.1 hb).2.1]; simp
  · rw [(hp.2.1 hb).1]; exact ho

section
variable (gen : Gen) (X : Ext)

theorem bsimB_step (n : Nat) (hS : BSimS gen X n) (hB : BSimB gen X n) : BSimB gen X (n+1) := by
  intro b pc p σ σ' o σ1 hc hf hne hpc hag h
  cases b with
  | nil =>
    simp [execB] at h; obtain ⟨rfl, rfl⟩ := h
    exact ⟨1, σ', .normal, by simp [brkB, execB], hag, BPost.same (by simp) rfl, Frame.refl _ _ _ _⟩
  | cons s rest =>
    simp only [CleanB] at hc
    simp only [finOKB, noExtraB, Bool.and_eq_true] at hf hne
    obtain ⟨os, σs, hs, hcase⟩ := execB_cons_inv h
    obtain ⟨m1, σs', os', hx1, hag1, hpost1, hfr1⟩ :=
      hS s pc (rest.length :: p) σ σ' os σs hc.1 hf.1 hne.1 (by simp; omega) hag hs
    simp only [List.length_cons] at hfr1
    simp only [brkB]
    rcases hcase with ⟨hn, hr⟩ | ⟨hn, hr⟩
    · subst hn
      have hos' : os' = .normal := (hpost1.2.1 (by simp)).1
      subst hos'
      obtain ⟨m2, σ1', o', hx2, hag2, hpost2, hfr2⟩ := hB rest pc p σs σs' o σ1 hc.2 hf.2 hne.2 hpc hag1 hr
      exact ⟨m1 + m2, σ1', o', execB_append hx1 hx2, hag2, BPost.seq hpost1 hpost2, hfr1.trans hfr2⟩
    · simp at hr; obtain ⟨rfl, rfl⟩ := hr
      exact ⟨m1, σs', os', execB_append_abrupt _ hx1 (hpost1.out_ne_normal hn), hag1,
        hpost1.mono (by intro h; simp [h]), hfr1⟩

end

section
variable (gen : Gen) (X : Ext)

theorem bsimW_step (n : Nat) (hB : BSimB gen X n) (hW : BSimW gen X n) : BSimW gen X (n+1) := by
  intro c b p σ σ' o σ1 hcc hcb hfb hnb hag hflag h
  rcases hr : evalE X c σ with ⟨r, τ⟩
  obtain ⟨τ', hr', hag', henv⟩ := evalE_agree' hcc hag hr
  have htest : evalE X (if (brkB gen (gen p) p b).2 then guardE (gen p) c else c) σ' = (r, τ') := by
    by_cases hu : (brkB gen (gen p) p b).2 = true
    · rw [if_pos hu, evalE_guard_false X c (hflag hu)]; exact hr'
    · rw [if_neg hu]; exact hr'
  cases r with
  | error ex =>
    rw [exec_while_err hr] at h; simp at h; obtain ⟨rfl, rfl⟩ := h
    exact ⟨1, τ', exec_while_err htest, hag', fun q _ => by rw [henv]⟩
  | ok v =>
    cases hv : truthy v with
    | false =>
      rw [exec_while_false hr hv] at h; simp at h; obtain ⟨rfl, rfl⟩ := h
      exact ⟨1, τ', exec_while_false htest hv, hag', fun q _ => by rw [henv]⟩
    | true =>
      cases hb : execB X n b τ with
      | none => rw [exec_while_none hr hv hb] at h; simp at h
      | some rb =>
        obtain ⟨ob, τ1⟩ := rb
        rw [exec_while_step hr hv hb] at h
        obtain ⟨m1, τ1', ob', hx1, hag1, hpost1, hfr1⟩ :=
          hB b p p τ τ' ob τ1 hcb hfb hnb (Nat.le_refl _) hag' hb
        have hframe : ∀ q : List Nat, q.length < p.length → τ1'.env (gen q) = σ'.env (gen q) := by
          intro q hq
          rw [hfr1 q (by omega) (by intro he; subst he; omega), henv]
        have hcontinue : (ob = .normal ∨ ob = .cont) → exec X n (.whileS c b) τ1 = some (o, σ1) →
            ∃ m σ1', exec X m (brkWhile gen p c b) σ' = some (o, σ1') ∧ Agree (Hid gen) σ1 σ1' ∧
              (∀ q : List Nat, q.length < p.length → σ1'.env (gen q) = σ'.env (gen q)) := by
          intro hob hw
          have hne : ob ≠ .brk := by rcases hob with h | h <;> simp [h]
          obtain ⟨hob', hfl⟩ := hpost1.2.1 hne
          have hflag1 : (brkB gen (gen p) p b).2 = true → τ1'.env (gen p) = some (.int 0) := by
            intro hu
            rcases hfl with hfl | hfl
            · rw [hfl, henv]; exact hflag hu
            · rcases hob with h | h <;> simp [h, Out.fatal] at hfl
          obtain ⟨m2, σ1', hx2, hag2, hfr2⟩ := hW c b p τ1 τ1' o σ1 hcc hcb hfb hnb hag1 hflag1 hw
          refine ⟨max m1 m2 + 1, σ1', ?_, hag2, fun q hq => by rw [hfr2 q hq, hframe q hq]⟩
          simp only [brkWhile]
          rw [exec_while_step htest hv (execB_mono X hx1 (Nat.le_max_left _ _))]
          subst hob'
          rcases hob with h | h <;> subst h <;> exact exec_mono X hx2 (Nat.le_max_right _ _)
        cases ob with
        | normal => exact hcontinue (Or.inl rfl) h
        | cont => exact hcontinue (Or.inr rfl) h
        | brk =>
          simp at h; obtain ⟨rfl, rfl⟩ := h
          obtain ⟨hu, hob', hone⟩ := hpost1.1 rfl
          subst hob'
          refine ⟨m1 + 2, τ1', ?_, hag1, hframe⟩
          simp only [brkWhile]
          rw [exec_while_step htest hv (execB_mono X hx1 (Nat.le_succ _))]
          simp only [hu, if_true]
          exact exec_while_false (evalE_guard_true X c hone) (by simp [truthy])
        | ret rv =>
          simp at h; obtain ⟨rfl, rfl⟩ := h
          obtain ⟨hob', _⟩ := hpost1.2.1 (by simp)
          subst hob'
          refine ⟨m1 + 1, τ1', ?_, hag1, hframe⟩
          simp only [brkWhile]
          rw [exec_while_step htest hv hx1]
        | exc ex =>
          simp at h; obtain ⟨rfl, rfl⟩ := h
          obtain ⟨hob', _⟩ := hpost1.2.1 (by simp)
          subst hob'
          refine ⟨m1 + 1, τ1', ?_, hag1, hframe⟩
          simp only [brkWhile]
          rw [exec_while_step htest hv hx1]

end

section
variable (gen : Gen) (X : Ext)

theorem bsimF_step (n : Nat) (hB : BSimB gen X n) (hF : BSimF gen X n) : BSimF gen X (n+1) := by
  intro x b p items σ σ' o σ1 hx hcb hfb hnb hag hflag h
  cases items with
  | nil =>
    simp [execFor] at h; obtain ⟨rfl, rfl⟩ := h
    exact ⟨1, σ', by simp [execFor], hag, fun _ _ => rfl⟩
  | cons v items =>
    cases hb : execB X n b (σ.set x v) with
    | none => rw [execFor_cons_none hb] at h; simp at h
    | some rb =>
      obtain ⟨ob, τ1⟩ := rb
      rw [execFor_cons hb] at h
      have hxne : ∀ q : List Nat, gen q ≠ x := fun q he => hx ⟨q, he.symm⟩
      have hflag0 : (brkB gen (gen p) p b).2 = true → (σ'.set x v).env (gen p) = some (.int 0) := by
        intro hu; rw [St.set_env_ne _ _ (hxne p)]; exact hflag hu
      obtain ⟨m1, τ1', ob', hx1, hag1, hpost1, hfr1⟩ :=
        hB b p p _ _ ob τ1 hcb hfb hnb (Nat.le_refl _) (hag.set x v) hb
      have hframe : ∀ q : List Nat, q.length < p.length → τ1'.env (gen q) = σ'.env (gen q) := by
        intro q hq
        rw [hfr1 q (by omega) (by intro he; subst he; omega), St.set_env_ne _ _ (hxne q)]
      have hbody : execB X (m1 + 1) (brkForBody gen p b) (σ'.set x v) = some (ob', τ1') := by
        unfold brkForBody
        split
        · rename_i hu
          cases m1 with
          | zero => simp [execB] at hx1
          | succ m1 =>
            have he : exec X (m1 + 1) (.expr (.var (gen p))) (σ'.set x v) = some (.normal, σ'.set x v) := by
              simp [exec, evalE, hflag0 hu]
            rw [execB_cons_normal he]; exact hx1
        · exact execB_mono X hx1 (Nat.le_succ _)
      have hcontinue : (ob = .normal ∨ ob = .cont) → execFor X n x none b items τ1 = some (o, σ1) →
          ∃ m σ1', execFor X m x (brkForExtra gen p b) (brkForBody gen p b) (v :: items) σ' = some (o, σ1') ∧
            Agree (Hid gen) σ1 σ1' ∧
            (∀ q : List Nat, q.length < p.length → σ1'.env (gen q) = σ'.env (gen q)) := by
        intro hob hw
        have hne : ob ≠ .brk := by rcases hob with h | h <;> simp [h]
        obtain ⟨hob', hfl⟩ := hpost1.2.1 hne
        have hflag1 : (brkB gen (gen p) p b).2 = true → τ1'.env (gen p) = some (.int 0) := by
          intro hu
          rcases hfl with hfl | hfl
          · rw [hfl]; exact hflag0 hu
          · rcases hob with h | h <;> simp [h, Out.fatal] at hfl
        obtain ⟨m2, σ1', hx2, hag2, hfr2⟩ := hF x b p items τ1 τ1' o σ1 hx hcb hfb hnb hag1 hflag1 hw
        refine ⟨max (m1 + 1) m2 + 1, σ1', ?_, hag2, fun q hq => by rw [hfr2 q hq, hframe q hq]⟩
        rw [execFor_cons (execB_mono X hbody (Nat.le_max_left _ _))]
        subst hob'
        have hnext : forNext X (max (m1 + 1) m2) x (brkForExtra gen p b) (brkForBody gen p b) items τ1'
            = some (o, σ1') := by
          unfold brkForExtra
          split
          · rename_i hu
            simp only [forNext, evalE_notvar_false X (hflag1 hu), truthy_one, if_true]
            have := execFor_mono X hx2 (Nat.le_max_right (m1 + 1) m2)
            unfold brkForExtra at this; rw [if_pos hu] at this
            simpa using this
          · rename_i hu
            simp only [forNext]
            have := execFor_mono X hx2 (Nat.le_max_right (m1 + 1) m2)
            unfold brkForExtra at this; rw [if_neg hu] at this
            exact this
        rcases hob with h | h <;> subst h <;> exact hnext
      cases ob with
      | normal => exact hcontinue (Or.inl rfl) h
      | cont => exact hcontinue (Or.inr rfl) h
      | brk =>
        simp at h; obtain ⟨rfl, rfl⟩ := h
        obtain ⟨hu, hob', hone⟩ := hpost1.1 rfl
        subst hob'
        refine ⟨m1 + 2, τ1', ?_, hag1, hframe⟩
        rw [execFor_cons hbody]
        simp only [brkForExtra, hu, if_true, forNext, evalE_notvar_true X hone, truthy_zero]
        simp
      | ret rv =>
        simp at h; obtain ⟨rfl, rfl⟩ := h
        obtain ⟨hob', _⟩ := hpost1.2.1 (by simp)
        subst hob'
        exact ⟨m1 + 2, τ1', by rw [execFor_cons hbody], hag1, hframe⟩
      | exc ex =>
        simp at h; obtain ⟨rfl, rfl⟩ := h
        obtain ⟨hob', _⟩ := hpost1.2.1 (by simp)
        subst hob'
        exact ⟨m1 + 2, τ1', by rw [execFor_cons hbody], hag1, hframe⟩

end

theorem BPost.rebase {cur : Name} {h : Bool} {o o' : Out} {σ' τ' σ1' : St}
    (hp : BPost cur h o o' τ' σ1') (he : τ'.env cur = σ'.env cur) : BPost cur h o o' σ' σ1' := by
  refine ⟨hp.1, fun hb => ?_, fun hf => ?_⟩
  · obtain ⟨a, b⟩ := hp.2.1 hb; exact ⟨a, by rw [← he]; exact b⟩
  · rw [← he]; exact hp.2.2 hf

section
variable (gen : Gen) (X : Ext)

/-- The handler step of a lowered `try`. -/
theorem bsim_afterH (n : Nat) (hB : BSimB gen X n) (pc p : List Nat) (hs : List (Nat × Block))
    (hch : CleanH (Hid gen) hs) (hfh : finOKH hs = true) (hnh : noExtraH hs = true) (hpc : pc.length < p.length)
    {hitb : Bool} {ob ob' oa : Out} {σ' τ τ' τa : St}
    (hag : Agree (Hid gen) τ τ') (hp : BPost (gen pc) hitb ob ob' σ' τ') (hfr : Frame gen p.length pc σ' τ')
    (ha : afterH X n hs (ob, τ) = some (oa, τa)) :
    ∃ m τa' oa', afterH X m (brkH gen (gen pc) (1 :: p) hs).1 (ob', τ') = some (oa', τa') ∧
      Agree (Hid gen) τa τa' ∧
      BPost (gen pc) (hitb || (brkH gen (gen pc) (1 :: p) hs).2) oa oa' σ' τa' ∧
      Frame gen p.length pc σ' τa' := by
  have hpass : ∀ ob'', ob'' = ob' → (∀ ex, ob' ≠ .exc ex) → (oa, τa) = (ob, τ) →
      ∃ m τa' oa', afterH X m (brkH gen (gen pc) (1 :: p) hs).1 (ob', τ') = some (oa', τa') ∧
      Agree (Hid gen) τa τa' ∧
      BPost (gen pc) (hitb || (brkH gen (gen pc) (1 :: p) hs).2) oa oa' σ' τa' ∧
      Frame gen p.length pc σ' τa' := by
    intro _ _ hne heq
    simp at heq; obtain ⟨rfl, rfl⟩ := heq
    refine ⟨1, τ', ob', ?_, hag, hp.mono (by intro h; simp [h]), hfr⟩
    cases ob' with
    | exc ex => exact absurd rfl (hne ex)
    | _ => simp [afterH]
  cases ob with
  | exc ex =>
    obtain ⟨hob', hfl⟩ := hp.2.1 (by simp)
    subst hob'
    simp only [afterH] at ha
    cases hf : findHandler hs ex with
    | none =>
      rw [hf] at ha; simp at ha; obtain ⟨rfl, rfl⟩ := ha
      refine ⟨1, τ', .exc ex, ?_, hag, hp.mono (by intro h; simp [h]), hfr⟩
      simp [afterH, brkH_find_none gen (gen pc) ex (1 :: p) hs hf]
    | some hbk =>
      rw [hf] at ha; simp only at ha
      obtain ⟨j, hfind, hhit⟩ := brkH_find gen (gen pc) ex (1 :: p) hs hbk hf
      have hcur : τ'.env (gen pc) = σ'.env (gen pc) := by
        rcases hfl with hfl | hfl
        · exact hfl
        · rw [findHandler_fatal hfl] at hf; cases hf
      obtain ⟨m2, τa', oa', hx2, hag2, hp2, hfr2⟩ :=
        hB hbk pc (j :: 1 :: p) τ τ' oa τa (CleanH_find hch hf) (finOKH_find hfh hf) (noExtraH_find hnh hf)
          (by simp; omega) hag ha
      refine ⟨m2, τa', oa', ?_, hag2, (hp2.rebase hcur).mono ?_, hfr.trans (hfr2.mono (by simp; omega))⟩
      · simp only [afterH, hfind]; exact hx2
      · intro h
        cases hh : (brkH gen (gen pc) (1 :: p) hs).2 with
        | true => simp
        | false => rw [hhit hh] at h; cases h
  | normal =>
    simp [afterH] at ha
    exact hpass _ rfl (by intro ex; rw [(hp.2.1 (by simp)).1]; simp) (by simp [ha])
  | cont =>
    simp [afterH] at ha
    exact hpass _ rfl (by intro ex; rw [(hp.2.1 (by simp)).1]; simp) (by simp [ha])
  | ret v =>
    simp [afterH] at ha
    exact hpass _ rfl (by intro ex; rw [(hp.2.1 (by simp)).1]; simp) (by simp [ha])
  | brk =>
    simp [afterH] at ha
    exact hpass _ rfl (by intro ex; rw [(hp.1 rfl).2.1]; simp) (by simp [ha])

/-- The `finally` step of a lowered `try`. -/
theorem bsim_finish (n : Nat) (hB : BSimB gen X n) (pc p : List Nat) (fin : Block)
    (hcf : CleanB (Hid gen) fin) (hff : finOKB fin = true) (hnf : noExtraB fin = true)
    (hjf : escFreeB fin = true) (hpc : pc.length < p.length)
    {hit : Bool} {oa oa' o : Out} {σ' τa τa' σ1 : St}
    (hq : quietB fin = true ∨ hit = false)
    (hag : Agree (Hid gen) τa τa') (hp : BPost (gen pc) hit oa oa' σ' τa') (hfr : Frame gen p.length pc σ' τa')
    (hfin : finish X n fin (oa, τa) = some (o, σ1)) :
    ∃ m σ1' o', finish X m (brkB gen (gen pc) (2 :: p) fin).1 (oa', τa') = some (o', σ1') ∧
      Agree (Hid gen) σ1 σ1' ∧
      BPost (gen pc) (hit || (brkB gen (gen pc) (2 :: p) fin).2) o o' σ' σ1' ∧
      Frame gen p.length pc σ' σ1' := by
  obtain ⟨of, σf, hf, hcase⟩ := finish_some hfin
  obtain ⟨m, σf', of', hxf, hagf, hpf, hfrf⟩ := hB fin pc (2 :: p) τa τa' of σf hcf hff hnf (by simp; omega) hag hf
  have hhitf : (brkB gen (gen pc) (2 :: p) fin).2 = false := by
    rw [brkB_hit]
    simp only [escFreeB, Bool.and_eq_true, Bool.not_eq_true'] at hjf
    exact hjf.1.1
  have hcurf : σf'.env (gen pc) = τa'.env (gen pc) := hpf.2.2 hhitf
  have hofb : of ≠ .brk := by
    rcases escFreeB_outcome X hjf hf with h | ⟨e, h⟩ <;> simp [h]
  obtain ⟨hof', _⟩ := hpf.2.1 hofb
  rw [hof'] at hxf
  have hfr' : Frame gen p.length pc σ' σf' := hfr.trans (hfrf.mono (by simp; omega))
  rw [hhitf, Bool.or_false]
  rcases hcase with ⟨hn, heq⟩ | ⟨hn, heq⟩
  · subst hn; simp at heq; obtain ⟨rfl, rfl⟩ := heq
    refine ⟨m, σf', oa', finish_of_normal hxf, hagf, ?_, hfr'⟩
    refine ⟨fun hb => ?_, fun hb => ?_, fun hh => ?_⟩
    · obtain ⟨a, b, c⟩ := hp.1 hb; exact ⟨a, b, by rw [hcurf]; exact c⟩
    · obtain ⟨a, b⟩ := hp.2.1 hb; exact ⟨a, by rw [hcurf]; exact b⟩
    · rw [hcurf]; exact hp.2.2 hh
  · simp at heq; obtain ⟨rfl, rfl⟩ := heq
    refine ⟨m, σf', _, finish_of_abrupt hxf hn, hagf, ?_, hfr'⟩
    refine ⟨fun hb => absurd hb hofb, fun _ => ⟨rfl, ?_⟩, fun hh => ?_⟩
    · rcases hq with hq | hq
      · rcases quietB_outcome X hq hf with h | h
        · exact absurd h hn
        · exact Or.inr h
      · exact Or.inl (by rw [hcurf]; exact hp.2.2 hq)
    · rw [hcurf]; exact hp.2.2 hh

end

section
variable (gen : Gen) (X : Ext)

/-- Statements the break lowering leaves alone: simulated by non-interference. -/
theorem bsim_atomic (s : Stmt) (pc p : List Nat) (n : Nat) (σ σ' : St) (o : Out) (σ1 : St)
    (hlow : brkS gen (gen pc) p s = ([s], false)) (hc : CleanS (Hid gen) s) (hag : Agree (Hid gen) σ σ')
    (h : exec X n s σ = some (o, σ1)) (ho : o ≠ .brk) :
    ∃ m σ1' o', execB X m (brkS gen (gen pc) p s).1 σ' = some (o', σ1') ∧ Agree (Hid gen) σ1 σ1' ∧
      BPost (gen pc) (brkS gen (gen pc) p s).2 o o' σ' σ1' ∧ Frame gen p.length pc σ' σ1' := by
  obtain ⟨σ1', hx, hag1, hh⟩ := exec_agree X (Hid gen) hc hag h
  rw [hlow]
  exact ⟨n + 1, σ1', o, execB_singleton hx, hag1, BPost.same ho (hh _ (Hid.gen gen pc)), Frame.of_sameHidden hh⟩

theorem bsimS_step (inj : ∀ p q : List Nat, gen p = gen q → p = q) (n : Nat)
    (hB : BSimB gen X n) (hW : BSimW gen X (n+1)) (hF : BSimF gen X n) : BSimS gen X (n+1) := by
  intro s pc p σ σ' o σ1 hc hf hne hpc hag h
  cases s with
  | brk =>
    simp [exec] at h; obtain ⟨rfl, rfl⟩ := h
    refine ⟨3, σ'.set (gen pc) (.int 1), .cont, ?_, hag.setHidden (Hid.gen gen pc) _, ?_, ?_⟩
    · simp [brkS, execB, exec, evalE, cTrue]
    · exact ⟨fun _ => ⟨rfl, rfl, by simp⟩, fun hb => absurd rfl hb, fun hh => by simp [brkS] at hh⟩
    · intro q _ hq
      exact St.set_env_ne _ _ (fun he => hq (inj _ _ he))
  | cont =>
    simp [exec] at h
    exact bsim_atomic gen X .cont pc p (n+1) σ σ' o σ1 (by simp [brkS]) hc hag (by simp [exec, h]) (by simp [← h.1])
  | pass =>
    have h' := h
    simp [exec] at h
    exact bsim_atomic gen X .pass pc p (n+1) σ σ' o σ1 (by simp [brkS]) hc hag h' (by simp [← h.1])
  | raise t =>
    have h' := h
    simp [exec] at h
    exact bsim_atomic gen X (.raise t) pc p (n+1) σ σ' o σ1 (by simp [brkS]) hc hag h' (by simp [← h.1])
  | assign x e =>
    have h' := h
    simp only [exec] at h
    have ho : o ≠ .brk := by split at h <;> simp at h <;> simp [← h.1]
    exact bsim_atomic gen X (.assign x e) pc p (n+1) σ σ' o σ1 (by simp [brkS]) hc hag h' ho
  | expr e =>
    have h' := h
    simp only [exec] at h
    have ho : o ≠ .brk := by split at h <;> simp at h <;> simp [← h.1]
    exact bsim_atomic gen X (.expr e) pc p (n+1) σ σ' o σ1 (by simp [brkS]) hc hag h' ho
  | ret e =>
    have h' := h
    have ho : o ≠ .brk := by
      cases e with
      | none => simp [exec] at h; simp [← h.1]
      | some e => simp only [exec] at h; split at h <;> simp at h <;> simp [← h.1]
    exact bsim_atomic gen X (.ret e) pc p (n+1) σ σ' o σ1 (by simp [brkS]) hc hag h' ho
  | ifS c t e =>
    simp only [CleanS] at hc
    simp only [finOKS, noExtraS, Bool.and_eq_true] at hf hne
    simp only [exec] at h
    rcases hr : evalE X c σ with ⟨r, τ⟩
    obtain ⟨τ', hr', hag', henv⟩ := evalE_agree' hc.1 hag hr
    rw [hr] at h
    simp only [brkS]
    cases r with
    | error ex =>
      simp at h; obtain ⟨rfl, rfl⟩ := h
      refine ⟨2, τ', .exc ex, ?_, hag', ?_, Frame.of_env henv⟩
      · simp [execB, exec, hr']
      · exact (BPost.same (by simp) (by rw [henv])).mono (by simp)
    | ok v =>
      simp only at h
      by_cases hv : truthy v = true
      · rw [if_pos hv] at h
        obtain ⟨m, σ1', o', hx, hag1, hp1, hfr1⟩ := hB t pc (0 :: p) τ τ' o σ1 hc.2.1 hf.1 hne.1 (by simp; omega) hag' h
        refine ⟨m + 2, σ1', o', ?_, hag1, ?_, ?_⟩
        · apply execB_singleton (n := m + 1)
          simp only [exec, hr', if_pos hv]
          exact hx
        · exact (hp1.rebase (by rw [henv])).mono (by intro h; simp [h])
        · exact (Frame.of_env henv).trans (hfr1.mono (by simp; omega))
      · rw [if_neg hv] at h
        obtain ⟨m, σ1', o', hx, hag1, hp1, hfr1⟩ := hB e pc (1 :: p) τ τ' o σ1 hc.2.2 hf.2 hne.2 (by simp; omega) hag' h
        refine ⟨m + 2, σ1', o', ?_, hag1, ?_, ?_⟩
        · apply execB_singleton (n := m + 1)
          simp only [exec, hr', if_neg hv]
          exact hx
        · exact (hp1.rebase (by rw [henv])).mono (by intro h; simp [h])
        · exact (Frame.of_env henv).trans (hfr1.mono (by simp; omega))
  | whileS c b =>
    simp only [CleanS] at hc
    simp only [finOKS, noExtraS] at hf hne
    obtain ⟨hob, hoc⟩ := exec_while_out X h
    have hpne : p ≠ pc := by intro he; subst he; omega
    have hhit : (brkS gen (gen pc) p (.whileS c b)).2 = false := by simp only [brkS]; split <;> rfl
    rw [hhit]
    by_cases hu : (brkB gen (gen p) p b).2 = true
    · -- break used: flag initialisation, guarded loop
      have hag0 : Agree (Hid gen) σ (σ'.set (gen p) (.int 0)) := hag.setHidden (Hid.gen gen p) _
      obtain ⟨m, σ1', hx, hag1, hfr⟩ :=
        hW c b p σ (σ'.set (gen p) (.int 0)) o σ1 hc.1 hc.2 hf hne hag0 (fun _ => by simp) h
      have hcur : σ1'.env (gen pc) = σ'.env (gen pc) := by
        rw [hfr pc hpc, St.set_env_ne _ _ (fun he => hpne (inj _ _ he).symm)]
      refine ⟨m + 2, σ1', o, ?_, hag1, BPost.same hob hcur, ?_⟩
      · simp only [brkS, hu, if_true]
        have ha : exec X (m + 1) (.assign (gen p) cFalse) σ' = some (.normal, σ'.set (gen p) (.int 0)) := by
          simp [exec, evalE, cFalse]
        rw [execB_cons_normal ha]
        have := execB_singleton hx
        simpa [brkWhile, hu] using this
      · intro q hq _
        rw [hfr q hq, St.set_env_ne _ _ (fun he => by have := inj _ _ he; subst this; omega)]
    · have hu' : (brkB gen (gen p) p b).2 = false := by simpa using hu
      obtain ⟨m, σ1', hx, hag1, hfr⟩ :=
        hW c b p σ σ' o σ1 hc.1 hc.2 hf hne hag (fun h => by rw [hu'] at h; cases h) h
      refine ⟨m + 1, σ1', o, ?_, hag1, BPost.same hob (hfr pc hpc), fun q hq _ => hfr q hq⟩
      simp only [brkS, hu', Bool.false_eq_true, if_false]
      have := execB_singleton hx
      simpa [brkWhile, hu'] using this
  | forS x it extra b =>
    simp only [CleanS] at hc
    obtain ⟨hx, hcit, _, hcb⟩ := hc
    simp only [finOKS] at hf
    simp only [noExtraS, Bool.and_eq_true, Option.isNone_iff_eq_none] at hne
    obtain ⟨hex, hnb⟩ := hne
    subst hex
    obtain ⟨hob, hoc⟩ := exec_for_out X h
    have hpne : p ≠ pc := by intro he; subst he; omega
    have hxne : ∀ q : List Nat, gen q ≠ x := fun q he => hx ⟨q, he.symm⟩
    -- the lowered statement list, uniformly
    have hlow : (brkS gen (gen pc) p (.forS x it none b)) =
        ((if (brkB gen (gen p) p b).2 then [.assign (gen p) cFalse] else []) ++
          [.forS x it (brkForExtra gen p b) (brkForBody gen p b)], false) := by
      simp only [brkS, brkForExtra, brkForBody]
      split <;> simp
    rw [hlow]
    -- the state in which the loop starts
    have hstart : ∃ σ0 m0, execB X m0 (if (brkB gen (gen p) p b).2 then [Stmt.assign (gen p) cFalse] else []) σ'
          = some (.normal, σ0) ∧ Agree (Hid gen) σ σ0 ∧
          ((brkB gen (gen p) p b).2 = true → σ0.env (gen p) = some (.int 0)) ∧
          (∀ q : List Nat, q ≠ p → σ0.env (gen q) = σ'.env (gen q)) := by
      by_cases hu : (brkB gen (gen p) p b).2 = true
      · refine ⟨σ'.set (gen p) (.int 0), 2, ?_, hag.setHidden (Hid.gen gen p) _, fun _ => by simp, ?_⟩
        · simp [hu, execB, exec, evalE, cFalse]
        · intro q hq; exact St.set_env_ne _ _ (fun he => hq (inj _ _ he))
      · exact ⟨σ', 1, by simp [hu, execB], hag, fun h => absurd h hu, fun _ _ => rfl⟩
    obtain ⟨σ0, m0, hx0, hag0, hflag0, hfr0⟩ := hstart
    -- the loop itself
    have hloop : ∃ m σ1', exec X m (.forS x it (brkForExtra gen p b) (brkForBody gen p b)) σ0 = some (o, σ1') ∧
        Agree (Hid gen) σ1 σ1' ∧ (∀ q : List Nat, q.length < p.length → σ1'.env (gen q) = σ0.env (gen q)) := by
      simp only [exec] at h
      rcases hr : evalE X it σ with ⟨r, τ⟩
      obtain ⟨τ', hr', hag', henv⟩ := evalE_agree' hcit hag0 hr
      rw [hr] at h
      cases r with
      | error ex =>
        simp at h; obtain ⟨rfl, rfl⟩ := h
        exact ⟨1, τ', by simp [exec, hr'], hag', fun q _ => by rw [henv]⟩
      | ok v =>
        simp only at h
        cases hit : iterItems v with
        | error ex =>
          rw [hit] at h; simp at h; obtain ⟨rfl, rfl⟩ := h
          exact ⟨1, τ', by simp [exec, hr', hit], hag', fun q _ => by rw [henv]⟩
        | ok items =>
          rw [hit] at h; simp only at h
          have hflag' : (brkB gen (gen p) p b).2 = true → τ'.env (gen p) = some (.int 0) := by
            intro hu; rw [henv]; exact hflag0 hu
          obtain ⟨m, σ1', hxf, hag1, hfr1⟩ := hF x b p items τ τ' o σ1 hx hcb hf hnb hag' hflag' h
          refine ⟨m + 1, σ1', ?_, hag1, fun q hq => by rw [hfr1 q hq, henv]⟩
          simp only [exec, hr', hit]
          by_cases hu : (brkB gen (gen p) p b).2 = true
          · have he : brkForExtra gen p b = some (.not (.var (gen p))) := by simp [brkForExtra, hu]
            rw [he] at hxf ⊢
            simp only [evalE_notvar_false X (hflag' hu), truthy_one, if_true]
            exact hxf
          · have he : brkForExtra gen p b = none := by simp [brkForExtra, hu]
            rw [he] at hxf ⊢
            exact hxf
    obtain ⟨m, σ1', hxl, hag1, hfr1⟩ := hloop
    have hcur : σ1'.env (gen pc) = σ'.env (gen pc) := by
      rw [hfr1 pc hpc, hfr0 pc (fun he => hpne he.symm)]
    refine ⟨m0 + (m + 1), σ1', o, execB_append hx0 (execB_singleton hxl), hag1, BPost.same hob hcur, ?_⟩
    intro q hq _
    rw [hfr1 q hq, hfr0 q (by intro he; subst he; omega)]
  | tryS body hs fin =>
    simp only [CleanS] at hc
    obtain ⟨hcb, hch, hcf⟩ := hc
    simp only [finOKS, noExtraS, Bool.and_eq_true] at hf hne
    obtain ⟨⟨⟨⟨hfb, hfh⟩, hff⟩, hjf⟩, hq⟩ := hf
    obtain ⟨⟨hnb, hnh⟩, hnf⟩ := hne
    obtain ⟨⟨ob, τ⟩, ⟨oa, τa⟩, hb, ha, hfin⟩ := exec_try_inv h
    obtain ⟨m1, τ', ob', hx1, hag1, hp1, hfr1⟩ := hB body pc (0 :: p) σ σ' ob τ hcb hfb hnb (by simp; omega) hag hb
    obtain ⟨m2, τa', oa', hx2, hag2, hp2, hfr2⟩ :=
      bsim_afterH gen X n hB pc p hs hch hfh hnh hpc hag1 hp1 (hfr1.mono (by simp; omega)) ha
    have hq' : quietB fin = true ∨
        ((brkB gen (gen pc) (0 :: p) body).2 || (brkH gen (gen pc) (1 :: p) hs).2) = false := by
      simp only [Bool.or_eq_true, Bool.and_eq_true] at hq
      rcases hq with hq | hq
      · exact Or.inl hq
      · exact Or.inr (by simp [brkB_jumpFree gen (gen pc) _ body hq.1, brkH_jumpFree gen (gen pc) _ hs hq.2])
    obtain ⟨m3, σ1', o', hx3, hag3, hp3, hfr3⟩ :=
      bsim_finish gen X n hB pc p fin hcf hff hnf hjf hpc hq' hag2 hp2 hfr2 hfin
    refine ⟨max m1 (max m2 m3) + 1 + 1, σ1', o', ?_, hag3, ?_, hfr3⟩
    · simp only [brkS]
      exact execB_singleton (exec_try_of X hx1 hx2 hx3)
    · simpa [brkS] using hp3
  | withS tag body =>
    simp only [CleanS] at hc
    simp only [finOKS, noExtraS] at hf hne
    simp only [exec] at h
    cases hb : execB X n body (σ.push (.enter tag)) with
    | none => simp [hb] at h
    | some rb =>
      obtain ⟨ob, τ⟩ := rb
      rw [hb] at h
      simp at h; obtain ⟨rfl, rfl⟩ := h
      obtain ⟨m, τ', ob', hx, hag1, hp1, hfr1⟩ :=
        hB body pc (0 :: p) _ _ ob τ hc hf hne (by simp; omega) (hag.push (.enter tag)) hb
      refine ⟨m + 2, τ'.push (.exit tag), ob', ?_, hag1.push _, ?_, ?_⟩
      · simp only [brkS]
        apply execB_singleton (n := m + 1)
        simp only [exec, hx]
      · simpa [brkS, BPost] using hp1
      · intro q hq hne'
        have := hfr1 q (by simp; omega) hne'
        simpa using this

end

section
variable (gen : Gen) (X : Ext)

theorem bsim_all (inj : ∀ p q : List Nat, gen p = gen q → p = q) :
    ∀ n, BSimS gen X n ∧ BSimB gen X n ∧ BSimW gen X n ∧ BSimF gen X n := by
  intro n
  induction n with
  | zero =>
    refine ⟨?_, ?_, ?_, ?_⟩
    · intro s pc p σ σ' o σ1 _ _ _ _ _ h; simp [exec] at h
    · intro b pc p σ σ' o σ1 _ _ _ _ _ h; simp [execB] at h
    · intro c b p σ σ' o σ1 _ _ _ _ _ _ h; simp [exec] at h
    · intro x b p items σ σ' o σ1 _ _ _ _ _ _ h; simp [execFor] at h
  | succ n ih =>
    obtain ⟨hS, hB, hW, hF⟩ := ih
    have hW1 := bsimW_step gen X n hB hW
    exact ⟨bsimS_step gen X inj n hB hW1 hF, bsimB_step gen X n hS hB, hW1, bsimF_step gen X n hB hF⟩

/-- What a `break` outcome becomes (only possible for an ill-formed body: `break` outside a loop). -/
def brkOut : Out → Out
  | .brk => .cont
  | o => o

/-- Break lowering preserves the behaviour of a function body. -/
theorem lowerBreak_correct (inj : ∀ p q : List Nat, gen p = gen q → p = q) (body : Block)
    (hclean : CleanB (Hid gen) body) (hfrag : finOKB body = true) (hne : noExtraB body = true)
    (n : Nat) (σ : St) (o : Out) (σ1 : St) (h : execB X n body σ = some (o, σ1)) :
    ∃ m σ1', execB X m (lowerBreak gen body) σ = some (brkOut o, σ1') ∧ Agree (Hid gen) σ1 σ1' := by
  obtain ⟨m, σ1', o', hx, hag, hp, _⟩ :=
    (bsim_all gen X inj n).2.1 body [] [0] σ σ o σ1 hclean hfrag hne (by simp) (Agree.refl _ σ) h
  refine ⟨m, σ1', ?_, hag⟩
  have : o' = brkOut o := by
    by_cases hb : o = .brk
    · subst hb; exact (hp.1 rfl).2.1
    · rw [(hp.2.1 hb).1]; cases o <;> simp_all [brkOut]
  rw [← this]; exact hx

end

end Malt.Sem.Jumps
