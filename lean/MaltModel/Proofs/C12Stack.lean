import MaltModel.Rt.Errors
import MaltModel.Proofs.C12SrcMap
/-!
Helper development for C12 (stack part): the scan of `_stack_trace_inside_mapped_code` on a traceback
of the shape  A ++ site :: B  (B not mapped), the call-chain model and its traceback.
-/
namespace Malt.Errors

/-- (file, function, line) of a listed frame. -/
abbrev Loc3 := String × Option String × Nat

def FrameInfo.loc (fi : FrameInfo) : Loc3 := (fi.file, fi.fn, fi.line)
def Frame.loc (f : Frame) : Loc3 := (f.file, some f.fn, f.line)
def Origin.loc (o : Origin) : Loc3 := (o.file, o.fn, o.line)

theorem markAllow_map_loc (acc : List FrameInfo) : (markAllow acc).map FrameInfo.loc = acc.map FrameInfo.loc := by
  induction acc with
  | nil => rfl
  | cons x r ih =>
    cases r with
    | nil => simp [markAllow, FrameInfo.loc]
    | cons y r => simp only [markAllow, List.map_cons] at *; rw [ih]

theorem markAllow_not_converted (acc : List FrameInfo) (h : ∀ fi ∈ acc, fi.converted = false) :
    ∀ fi ∈ markAllow acc, fi.converted = false := by
  induction acc with
  | nil => simp [markAllow]
  | cons x r ih =>
    cases r with
    | nil => simp [markAllow]
    | cons y r =>
      intro fi hfi
      simp only [markAllow, List.mem_cons] at hfi
      rcases hfi with rfl | hfi
      · exact h _ (by simp)
      · exact ih (fun fi hfi => h fi (List.mem_cons_of_mem _ hfi)) fi (by simpa [markAllow] using hfi)

/-- On frames the map does not know, the scan is `elide`. -/
theorem scan_unmapped (m : SourceMap) (conv : String) (B rest : List Frame) (acc : List FrameInfo)
    (hB : ∀ f ∈ B, get m ⟨f.file, f.line⟩ = none) :
    scan m conv (B ++ rest) acc = scan m conv rest (elide conv B acc) := by
  induction B generalizing acc with
  | nil => rfl
  | cons f B ih =>
    have hf := hB f (by simp)
    have hB' : ∀ f ∈ B, get m ⟨f.file, f.line⟩ = none := fun g hg => hB g (List.mem_cons_of_mem _ hg)
    simp only [List.cons_append, scan, hf, elide]
    split
    · exact ih _ hB'
    · exact ih _ hB'

/-- The translated stack of a traceback whose innermost mapped frame is `site`. -/
theorem stackInside_site (m : SourceMap) (conv : String) (A B : List Frame) (site : Frame) (o : Origin)
    (hsite : get m ⟨site.file, site.line⟩ = some o)
    (hB : ∀ f ∈ B, get m ⟨f.file, f.line⟩ = none) :
    stackInsideMappedCode (A ++ site :: B) m conv = elide conv B.reverse [] ++ [FrameInfo.ofOrigin o] := by
  unfold stackInsideMappedCode
  have : (A ++ site :: B).reverse = B.reverse ++ (site :: A.reverse) := by simp
  rw [this, scan_unmapped m conv B.reverse _ [] (fun f hf => hB f (List.mem_reverse.mp hf))]
  simp [scan, hsite]

/-- No frame is mapped: the whole traceback is summarised. -/
theorem stackInside_unmapped (m : SourceMap) (conv : String) (B : List Frame)
    (hB : ∀ f ∈ B, get m ⟨f.file, f.line⟩ = none) :
    stackInsideMappedCode B m conv = elide conv B.reverse [] := by
  unfold stackInsideMappedCode
  have := scan_unmapped m conv B.reverse [] [] (fun f hf => hB f (List.mem_reverse.mp hf))
  simpa [scan] using this

theorem elide_map_loc (conv : String) (B : List Frame) (acc : List FrameInfo) :
    (elide conv B acc).map FrameInfo.loc
      = acc.map FrameInfo.loc ++ (B.filter (fun f => !Gen.Errors.converterFrameTest f.file conv)).map Frame.loc := by
  induction B generalizing acc with
  | nil => simp [elide]
  | cons f B ih =>
    simp only [elide]
    split
    · rename_i h
      rw [ih, markAllow_map_loc]; simp [h]
    · rename_i h
      rw [ih]; simp [h, FrameInfo.plain, FrameInfo.loc, Frame.loc]

theorem elide_not_converted (conv : String) (B : List Frame) (acc : List FrameInfo)
    (h : ∀ fi ∈ acc, fi.converted = false) : ∀ fi ∈ elide conv B acc, fi.converted = false := by
  induction B generalizing acc with
  | nil => simpa [elide] using h
  | cons f B ih =>
    simp only [elide]
    split
    · exact ih _ (markAllow_not_converted acc h)
    · apply ih
      intro fi hfi
      rcases List.mem_append.mp hfi with hfi | hfi
      · exact h fi hfi
      · simp at hfi; subst hfi; rfl

theorem get_none_of_keys {m : SourceMap} {G : String} (hk : ∀ k o, (k, o) ∈ m → k.file = G)
    {file : String} (line : Nat) (hf : file ≠ G) : get m ⟨file, line⟩ = none := by
  cases hg : get m ⟨file, line⟩ with
  | none => rfl
  | some o => exact absurd (hk _ _ (mem_of_get hg)) hf

/-! ## Call chains -/

/-- One separately converted function on the call path, as it appears in the traceback of the converted run. -/
structure ConvLevel where
  /-- file the conversion was loaded from -/
  genFile : String
  /-- its source map -/
  map : SourceMap
  /-- frames of this conversion above the site frame (function entry, enclosing `if_body`/`loop_body`
      closures, the operators that call them): arbitrary -/
  pre : List Frame
  /-- the innermost frame of this conversion: it executes the generated line of the call site
      (or, in the last level, of the failing statement) -/
  site : Frame
  /-- frames between the site and the next converted function: operator / builtin-overload / api.py machinery -/
  post : List Frame
  /-- what the source map says about the site's generated line -/
  siteOrigin : Origin
  /-- the frame executing the same statement when the function runs unconverted -/
  orig : Frame
  /-- further frames of the unconverted run inside this function, above `orig`
      (the enclosing function when the statement sits in a nested def or lambda) -/
  outer : List Frame

/-- The traceback from the first frame of the first level down to the raise; `T` = everything below
the last converted function (unconverted callees, builtins calling back, machinery). -/
def tbFrom : List ConvLevel → List Frame → List Frame
  | [], T => T
  | l :: ls, T => l.pre ++ l.site :: (l.post ++ tbFrom ls T)

/-- The exception travels outward through the `converted_call` of every level, innermost first;
each runs `_attach_error_metadata` with the traceback from its callee's first frame. -/
def runChain (api msg : String) : List ConvLevel → List Frame → Option Metadata
  | [], _ => none
  | [l], T => Metadata.init (tbFrom [l] T) none msg l.map api
  | l :: l' :: ls, T =>
    match runChain api msg (l' :: ls) T with
    | none => none
    | some c => Metadata.init (tbFrom (l :: l' :: ls) T) (some c) msg l.map api

/-- Frames below the site of the innermost converted function. -/
def lastBelow : List ConvLevel → List Frame → List Frame
  | [], T => T
  | [l], T => l.post ++ T
  | _ :: l' :: ls, T => lastBelow (l' :: ls) T

/-- The source map knows the site's generated line. -/
def SiteMapped (l : ConvLevel) : Prop := get l.map ⟨l.site.file, l.site.line⟩ = some l.siteOrigin

/-- Keys of a source map are lines of the file it was made for (what `C12_srcmap_partial` concludes). -/
def KeysInGen (l : ConvLevel) : Prop := ∀ k o, (k, o) ∈ l.map → k.file = l.genFile

/-- No frame below the site of a converted function lies in that function's generated file
(fails exactly when the same conversion is entered again further down: recursion). -/
def BelowForeign : List ConvLevel → List Frame → Prop
  | [], _ => True
  | l :: ls, T => (∀ f ∈ l.post ++ tbFrom ls T, f.file ≠ l.genFile) ∧ BelowForeign ls T

instance (l : ConvLevel) : Decidable (SiteMapped l) := by unfold SiteMapped; infer_instance

theorem keysInGen_iff (l : ConvLevel) : KeysInGen l ↔ (l.map.all fun p => decide (p.1.file = l.genFile)) = true := by
  unfold KeysInGen
  rw [List.all_eq_true]
  constructor
  · intro h p hp; obtain ⟨k, o⟩ := p; simpa using h k o hp
  · intro h k o hko; simpa using h (k, o) hko

instance (l : ConvLevel) : Decidable (KeysInGen l) := decidable_of_iff _ (keysInGen_iff l).symm

instance instDecidableBelowForeign : (L : List ConvLevel) → (T : List Frame) → Decidable (BelowForeign L T)
  | [], _ => isTrue trivial
  | l :: ls, T =>
    have := instDecidableBelowForeign ls T
    by unfold BelowForeign; infer_instance

/-- The translated frames of the part below the innermost converted site. -/
def innerInfos (api : String) (B : List Frame) : List FrameInfo := elide api B.reverse []

theorem lastBelow_cons_cons (l l' : ConvLevel) (ls : List ConvLevel) (T : List Frame) :
    lastBelow (l :: l' :: ls) T = lastBelow (l' :: ls) T := rfl

theorem runChain_eq (api msg : String) (L : List ConvLevel) (T : List Frame) (hne : L ≠ [])
    (hS : ∀ l ∈ L, SiteMapped l) (hK : ∀ l ∈ L, KeysInGen l) (hB : BelowForeign L T) :
    runChain api msg L T =
      some ⟨innerInfos api (lastBelow L T) ++ L.reverse.map (fun l => FrameInfo.ofOrigin l.siteOrigin), msg⟩ := by
  induction L with
  | nil => exact absurd rfl hne
  | cons l ls ih =>
    have hSl := hS l (by simp)
    have hKl := hK l (by simp)
    obtain ⟨hBl, hBls⟩ := hB
    have hunm : ∀ f ∈ l.post ++ tbFrom ls T, get l.map ⟨f.file, f.line⟩ = none :=
      fun f hf => get_none_of_keys hKl f.line (hBl f hf)
    have hts : stackInsideMappedCode (tbFrom (l :: ls) T) l.map api
        = elide api (l.post ++ tbFrom ls T).reverse [] ++ [FrameInfo.ofOrigin l.siteOrigin] := by
      simp only [tbFrom]
      exact stackInside_site l.map api l.pre _ l.site l.siteOrigin hSl hunm
    cases ls with
    | nil =>
      simp only [tbFrom] at hts
      simp [runChain, Metadata.init, tbFrom, hts, lastBelow, innerInfos]
    | cons l' ls' =>
      have ih' := ih (by simp) (fun x hx => hS x (List.mem_cons_of_mem _ hx))
        (fun x hx => hK x (List.mem_cons_of_mem _ hx)) hBls
      simp only [runChain, ih', Metadata.init, hts, lastBelow_cons_cons]
      simp

/-- (file, function, line) of the listed frames lying in the user file `U`, innermost first. -/
def userLocs (U : String) (st : List FrameInfo) : List Loc3 :=
  (st.map FrameInfo.loc).filter (fun p => decide (p.1 = U))

/-- User frames of the traceback of the *unconverted* run, outermost first: per converted function the
frames it contributes (`outer`, then the frame executing the statement), then the unconverted tail. -/
def origTraceback (U : String) (L : List ConvLevel) (T : List Frame) : List Frame :=
  L.flatMap (fun l => l.outer ++ [l.orig]) ++ T.filter (fun f => decide (f.file = U))

/-- The source map's origin for the site names the file, line and function of the frame that executes
the same statement unconverted (origin inheritance + `OriginResolver`; the function part fails for
lambdas, which the resolver does not track). -/
def SiteResolved (U : String) (l : ConvLevel) : Prop :=
  l.orig.file = U ∧ l.siteOrigin.file = l.orig.file ∧ l.siteOrigin.line = l.orig.line ∧ l.siteOrigin.fn = some l.orig.fn

instance (U : String) (l : ConvLevel) : Decidable (SiteResolved U l) := by unfold SiteResolved; infer_instance

/-! ## The `*` / `**` markers -/

/-- The documented meaning of the markers, outermost frame first: a frame outside `api.py` is listed,
and it is marked allow-listed (`**`) exactly when its caller is an `api.py` frame (`_call_unconverted`). -/
def markSpec (conv : String) : Bool → List Frame → List FrameInfo
  | _, [] => []
  | callerIsApi, f :: rest =>
    if Gen.Errors.converterFrameTest f.file conv then markSpec conv true rest
    else { FrameInfo.plain f with allowlisted := callerIsApi } :: markSpec conv false rest

def markHead : List FrameInfo → List FrameInfo
  | [] => []
  | x :: r => { x with converted := false, allowlisted := true } :: r

theorem markAllow_append_singleton (l : List FrameInfo) (x : FrameInfo) :
    markAllow (l ++ [x]) = l ++ [{ x with converted := false, allowlisted := true }] := by
  induction l with
  | nil => rfl
  | cons y r ih =>
    cases r with
    | nil => simp [markAllow]
    | cons z r' =>
      simp only [List.cons_append] at ih ⊢
      simp only [markAllow]
      rw [ih]

theorem markAllow_reverse (l : List FrameInfo) : markAllow l.reverse = (markHead l).reverse := by
  cases l with
  | nil => rfl
  | cons x r => simp [markHead, markAllow_append_singleton]

theorem elide_append (conv : String) (X Y : List Frame) (acc : List FrameInfo) :
    elide conv (X ++ Y) acc = elide conv Y (elide conv X acc) := by
  induction X generalizing acc with
  | nil => rfl
  | cons f X ih =>
    simp only [List.cons_append, elide]
    split <;> exact ih _

theorem markHead_markSpec (conv : String) (b : Bool) (B : List Frame) :
    markHead (markSpec conv b B) = markSpec conv true B := by
  induction B generalizing b with
  | nil => rfl
  | cons f B ih =>
    simp only [markSpec]
    split
    · exact ih true
    · simp [markHead, FrameInfo.plain]

theorem elide_eq_markSpec (conv : String) (B : List Frame) :
    elide conv B.reverse [] = (markSpec conv false B).reverse := by
  induction B with
  | nil => rfl
  | cons f B ih =>
    rw [List.reverse_cons, elide_append, ih]
    simp only [elide, markSpec]
    split
    · rw [markAllow_reverse, markHead_markSpec]
    · -- f is listed as the outermost frame; what about B's head?  it was called by f, not by api
      simp [FrameInfo.plain]

end Malt.Errors
