import MaltModel.Proofs.C04Mono
import MaltModel.Proofs.C04Calls
import MaltModel.Conv.IfExp
import MaltModel.Conv.Logical
import MaltModel.Conv.Variables
/-
The three expression passes satisfy the hook conditions of Proofs/C04Mono.lean: none of them can ADD an
offender of the checker (`offB (pass g) ⊆ offB g`).
-/
namespace Malt.C04
open Malt.Py Malt.Conv Malt.Conv.NoNative

/-! ### a position can only relax the verdict -/
theorem offE_pos_sub (cfg : Cfg) (sc : List String) (w : Bool) :
    ∀ (e : Expr) (pos : Pos), offE cfg sc w pos e ⊆ offE cfg sc w .normal e
  | .call i f as ks, pos => by
      simp only [offE]
      refine app_mono (app_mono (app_mono ?_ (List.Subset.refl _)) (List.Subset.refl _)) (List.Subset.refl _)
      by_cases hn : callOk cfg sc w .normal f as ks = true
      · have : callOk cfg sc w pos f as ks = true := by
          simp only [callOk, packOk, Bool.or_false, Bool.or_eq_true] at hn ⊢
          exact Or.inl hn
        simp [hn, this]
      · simp only [hn]
        split <;> simp
  | .binop i op l r, pos => by
      simp only [offE]
      have hk : kidPos .normal op = .normal := by simp [kidPos]
      rw [hk]
      exact app_mono (offE_pos_sub cfg sc w l _) (offE_pos_sub cfg sc w r _)
  | .name .., _ => by simp [offE]
  | .const .., _ => by simp [offE]
  | .noneMarker, _ => by simp [offE]
  | .boolop .., _ => by simp [offE]
  | .unary .., _ => by simp [offE]
  | .ifexp .., _ => by simp [offE]
  | .compare .., _ => by simp [offE]
  | .attr .., _ => by simp [offE]
  | .subscript .., _ => by simp [offE]
  | .keyword .., _ => by simp [offE]
  | .lambda .., _ => by simp [offE]
  | .seq .., _ => by simp [offE]
  | .starred .., _ => by simp [offE]
  | .namedexpr .., _ => by simp [offE]
  | .comp .., _ => by simp [offE]
  | .comprehension .., _ => by simp [offE]
  | .arguments .., _ => by simp [offE]
  | .arg .., _ => by simp [offE]
  | .withitem .., _ => by simp [offE]
  | .other .., _ => by simp [offE]

/-! ### calls to generated `ag__.<op>` operators -/
def genOp (op : String) : Bool :=
  let q := (calleeQn (ag op)).getD ""
  startsWith q "ag__." && (argPositions q).isEmpty && q != "ag__.if_stmt" && q != "ag__.while_stmt" &&
    q != "ag__.for_stmt" && q != "ag__.FunctionScope" && q != "ag__.ld"

theorem calleeQn_ag (op : String) : calleeQn (ag op) = some ("ag__" ++ "." ++ op) := by simp [ag, nm, calleeQn]

section gen
variable {op : String} (hg : genOp op = true)
include hg

theorem gen_q : ∃ q, calleeQn (ag op) = some q ∧ startsWith q "ag__." = true ∧ argPositions q = [] ∧
    q ≠ "ag__.if_stmt" ∧ q ≠ "ag__.while_stmt" ∧ q ≠ "ag__.for_stmt" ∧ q ≠ "ag__.FunctionScope" ∧ q ≠ "ag__.ld" := by
  refine ⟨_, calleeQn_ag op, ?_⟩
  simp only [genOp, calleeQn_ag, Option.getD_some, Bool.and_eq_true, bne_iff_ne, ne_eq, List.isEmpty_iff] at hg
  obtain ⟨⟨⟨⟨⟨⟨h1, h2⟩, h3⟩, h4⟩, h5⟩, h6⟩, h7⟩ := hg
  exact ⟨h1, h2, h3, h4, h5, h6, h7⟩

theorem offE_agCall (cfg : Cfg) (sc : List String) (w : Bool) (pos : Pos) (args : List Expr) :
    offE cfg sc w pos (.call 0 (ag op) args []) = offEs cfg sc w [] args := by
  obtain ⟨q, hq, hs, hp, _⟩ := gen_q hg
  have h0 : offE cfg sc w .normal (ag op) = [] := by simp [ag, nm, offE]
  have hok : callOk cfg sc w pos (ag op) args [] = true := by simp [callOk, hq, allowedCallee, hs]
  simp only [offE, hok, if_true, h0, hq, Option.getD_some, hp, offEs, List.nil_append, List.append_nil]

theorem calleeQn_agCall (args kws : List Expr) : calleeQn (.call 0 (ag op) args kws) = none := by
  obtain ⟨q, hq, _, _, _, _, _, _, hld⟩ := gen_q hg
  match args, kws with
  | [x], [] => simp [calleeQn, hq, hld]
  | [], _ => simp [calleeQn]
  | _ :: _ :: _, _ => simp [calleeQn]
  | [_], _ :: _ => simp [calleeQn]

theorem ldName_agCall (args kws : List Expr) : ldName (.call 0 (ag op) args kws) = none := by
  obtain ⟨q, hq, _, _, _, _, _, _, hld⟩ := gen_q hg
  match args, kws with
  | [x], [] => simp [ldName, hq, hld]
  | [], _ => simp [ldName]
  | _ :: _ :: _, _ => simp [ldName]
  | [_], _ :: _ => simp [ldName]

theorem isScopeCall_agCall (args kws : List Expr) : isScopeCall (.call 0 (ag op) args kws) = false := by
  obtain ⟨q, hq, _, _, _, _, _, hfs, _⟩ := gen_q hg
  simp [isScopeCall, hq, hfs]

theorem roles_agCall (i : Nat) (args kws : List Expr) : bodyRoleNames (.expr i (.call 0 (ag op) args kws)) = [] := by
  obtain ⟨q, hq, _, _, h1, h2, h3, _, _⟩ := gen_q hg
  simp [bodyRoleNames, hq, h1, h2, h3]

end gen

theorem offE_thunk (cfg : Cfg) (sc : List String) (w : Bool) (pos : Pos) (e : Expr) :
    offE cfg sc w pos (thunk e) = offE cfg sc w .normal e := by
  simp [thunk, noArgs, offE, offEs, offE_tmplArg]

/-! ### conditional_expressions -/
theorem genOp_if_exp : genOp "if_exp" = true := by decide

theorem monoIfExp (cfg : Cfg) (r : Nat → String) : MonoHooks cfg (IfExp.hooks r) where
  pre := by intro e; rfl
  callee := by
    intro e
    cases e <;> simp only [IfExp.hooks, IfExp.post]
    simp [IfExp.rewrite, calleeQn_agCall genOp_if_exp, calleeQn]
  ldname := by
    intro e
    cases e <;> simp only [IfExp.hooks, IfExp.post]
    simp [IfExp.rewrite, ldName_agCall genOp_if_exp, ldName]
  slice := by
    intro e
    cases e <;> simp only [IfExp.hooks, IfExp.post]
    simp [IfExp.rewrite, sliceKind]
  off := by
    intro sc w pos e
    cases e <;> simp only [IfExp.hooks, IfExp.post] <;> try exact List.Subset.refl _
    rename_i i t b e1
    simp only [IfExp.rewrite, offE_agCall genOp_if_exp, offEs, headPos, List.tail, offE_tmplArg, offE_thunk, offE,
      List.append_nil]
    intro o ho
    exact List.mem_cons_of_mem _ (by simpa [List.append_assoc] using ho)
  scope := by
    intro e
    cases e <;> simp only [IfExp.hooks, IfExp.post]
    unfold IfExp.rewrite; rw [isScopeCall_agCall genOp_if_exp]; rfl
  roles := by
    intro i e
    cases e <;> simp only [IfExp.hooks, IfExp.post]
    unfold IfExp.rewrite; rw [roles_agCall genOp_if_exp]; rfl
  scopeitem := by
    intro e
    cases e <;> simp only [IfExp.hooks, IfExp.post]
    simp [IfExp.rewrite, scopeName]

/-- the default statement hooks add nothing -/
theorem monoSDefault (cfg : Cfg) (h : Hooks) : MonoSHooks cfg h {} where
  pre_off := by intro sc roles t s r hh; simp at hh
  post_off := by intro sc roles t s; simp [offB]
  pre_roles := by intro s r hh; simp at hh
  post_roles := by intro s; simp [blockRoles]
  pre_ne := by intro s r hh; simp at hh
  post_ne := by intro s; simp

/-! ### logical_expressions -/
/-- all name tests of the checker are trivial on this node -/
structure TrivialNames (x : Expr) : Prop where
  callee : calleeQn x = none
  ldname : ldName x = none
  slice : sliceKind x = .sub
  scope : isScopeCall x = false
  roles : ∀ i, bodyRoleNames (.expr i x) = []
  scopeitem : scopeName x = []

theorem trivial_agCall {op : String} (hg : genOp op = true) (args kws : List Expr) :
    TrivialNames (.call 0 (ag op) args kws) :=
  ⟨calleeQn_agCall hg _ _, ldName_agCall hg _ _, rfl, isScopeCall_agCall hg _ _, fun i => roles_agCall hg i _ _, rfl⟩

theorem trivial_compare (i : Nat) (l : Expr) (ops : List String) (rs : List Expr) : TrivialNames (.compare i l ops rs) :=
  ⟨rfl, rfl, rfl, rfl, fun _ => rfl, rfl⟩
theorem trivial_boolop (i : Nat) (b : Bool) (vs : List Expr) : TrivialNames (.boolop i b vs) :=
  ⟨rfl, rfl, rfl, rfl, fun _ => rfl, rfl⟩
theorem trivial_unary (i : Nat) (op : String) (e : Expr) : TrivialNames (.unary i op e) :=
  ⟨rfl, rfl, rfl, rfl, fun _ => rfl, rfl⟩
theorem trivial_none : TrivialNames .noneMarker := ⟨rfl, rfl, rfl, rfl, fun _ => rfl, rfl⟩

theorem overloadOf_gen {eqOn : Bool} {op f : String} (h : Logical.overloadOf eqOn op = some f) : genOp f = true := by
  unfold Logical.overloadOf at h
  repeat (split at h; (simp at h; subst h; decide))
  simp at h

theorem genOp_and : genOp "and_" = true := by decide
theorem genOp_or : genOp "or_" = true := by decide

/-- at least two operands — what `ast.parse` guarantees for a BoolOp -/
def goodBoolOp : Expr → Bool
  | .boolop _ _ vs => decide (2 ≤ vs.length)
  | _ => true

theorem trivial_binCmp (eqOn : Bool) (op : String) (l r : Expr) : TrivialNames (Logical.binCmp eqOn op l r) := by
  unfold Logical.binCmp
  cases h : Logical.overloadOf eqOn op with
  | some f => exact trivial_agCall (overloadOf_gen h) _ _
  | none => exact trivial_compare _ _ _ _

theorem trivial_chain (eqOn : Bool) : ∀ (ops : List String) (rs : List Expr) (acc : Option Expr) (left t : Expr),
    (∀ a, acc = some a → TrivialNames a) → Logical.chain eqOn acc left ops rs = some t → TrivialNames t
  | [], _, acc, left, t, ha, h => by simp [Logical.chain] at h; exact ha t h
  | _ :: _, [], acc, left, t, ha, h => by simp [Logical.chain] at h; exact ha t h
  | op :: ops, r :: rs, acc, left, t, ha, h => by
      simp only [Logical.chain] at h
      refine trivial_chain eqOn ops rs _ r t ?_ h
      intro a hs
      simp only [Option.some.injEq] at hs
      subst hs
      cases acc with
      | none => exact trivial_binCmp eqOn op left r
      | some _ => exact trivial_agCall genOp_and _ _

theorem trivial_logical_post (eqOn : Bool) (e : Expr) (hgood : goodBoolOp e = true) (hne : Logical.post eqOn e ≠ e) :
    TrivialNames (Logical.post eqOn e) ∧ TrivialNames e := by
  cases e with
  | boolop i isAnd vs =>
      refine ⟨?_, trivial_boolop _ _ _⟩
      simp only [goodBoolOp, decide_eq_true_eq] at hgood
      match vs, hgood with
      | x :: y :: rest, _ =>
          simp only [Logical.post, Logical.foldBool, Logical.fn2]
          cases isAnd
          · exact trivial_agCall genOp_or _ _
          · exact trivial_agCall genOp_and _ _
  | compare i l ops rs =>
      refine ⟨?_, trivial_compare _ _ _ _⟩
      simp only [Logical.post]
      cases hc : Logical.chain eqOn none l ops rs with
      | none => exact trivial_none
      | some t => exact trivial_chain eqOn ops rs none l t (by intro a h; cases h) hc
  | unary i op e1 =>
      refine ⟨?_, trivial_unary _ _ _⟩
      simp only [Logical.post] at hne ⊢
      cases ho : Logical.overloadOf eqOn op with
      | some f => exact trivial_agCall (overloadOf_gen ho) _ _
      | none => simp [ho] at hne
  | _ => simp [Logical.post] at hne

theorem overload_none_eqop {eqOn : Bool} {op : String} (h : Logical.overloadOf eqOn op = none) :
    (eqOn && isEqOp op) = false := by
  unfold Logical.overloadOf at h
  repeat (split at h; simp at h)
  rename_i h1 h2 h3 h4 h5
  cases eqOn <;> simp_all [isEqOp]

theorem offE_fn2 (cfg : Cfg) (sc : List String) (w : Bool) (pos : Pos) {f : String} (hg : genOp f = true) (a b : Expr) :
    offE cfg sc w pos (Logical.fn2 f a b) = offE cfg sc w .normal a ++ offE cfg sc w .normal b := by
  simp [Logical.fn2, offE_agCall hg, offEs, headPos, offE_tmplArg]

theorem offE_fn1 (cfg : Cfg) (sc : List String) (w : Bool) (pos : Pos) {f : String} (hg : genOp f = true) (a : Expr) :
    offE cfg sc w pos (Logical.fn1 f a) = offE cfg sc w .normal a := by
  simp [Logical.fn1, offE_agCall hg, offEs, headPos, offE_tmplArg]

theorem foldBool_off (cfg : Cfg) (sc : List String) (w : Bool) {f : String} (hg : genOp f = true) :
    ∀ (vs : List Expr) (pos : Pos), offE cfg sc w pos (Logical.foldBool f vs) ⊆ offEs cfg sc w [] vs
  | [], _ => by simp [Logical.foldBool, offE]
  | [x], pos => by
      simp only [Logical.foldBool, offEs, headPos, List.append_nil]
      exact offE_pos_sub cfg sc w x pos
  | x :: y :: rest, pos => by
      have ih := foldBool_off cfg sc w hg (y :: rest) .normal
      simp only [Logical.foldBool]
      rw [offE_fn2 cfg sc w pos hg, offE_thunk, offE_thunk]
      simp only [offEs, headPos, List.tail] at ih ⊢
      exact app_mono (List.Subset.refl _) ih

theorem binCmp_off (cfg : Cfg) (sc : List String) (w : Bool) (pos : Pos) (op : String) (l r : Expr) :
    offE cfg sc w pos (Logical.binCmp cfg.eqOn op l r) ⊆ offE cfg sc w .normal l ++ offE cfg sc w .normal r := by
  unfold Logical.binCmp
  cases h : Logical.overloadOf cfg.eqOn op with
  | some f => simp only []; rw [offE_fn2 cfg sc w pos (overloadOf_gen h)]; exact List.Subset.refl _
  | none =>
      have hc : compareOk cfg [op] = true := by simp [compareOk, overload_none_eqop h]
      simp only [offE, hc, if_true, List.nil_append, offEs, headPos, offE_tmplArg, List.append_nil]
      exact List.Subset.refl _

theorem chain_off (cfg : Cfg) (sc : List String) (w : Bool) (T : List Off) :
    ∀ (ops : List String) (rs : List Expr) (acc : Option Expr) (left t : Expr),
      (∀ a, acc = some a → ∀ pos, offE cfg sc w pos a ⊆ T) → offE cfg sc w .normal left ⊆ T →
      offEs cfg sc w [] rs ⊆ T → Logical.chain cfg.eqOn acc left ops rs = some t → ∀ pos, offE cfg sc w pos t ⊆ T
  | [], _, acc, left, t, ha, _, _, h => by simp [Logical.chain] at h; exact ha t h
  | _ :: _, [], acc, left, t, ha, _, _, h => by simp [Logical.chain] at h; exact ha t h
  | op :: ops, r :: rs, acc, left, t, ha, hl, hr, h => by
      simp only [Logical.chain] at h
      simp only [offEs, headPos, List.tail] at hr
      have hr1 : offE cfg sc w .normal r ⊆ T := fun o ho => hr (List.mem_append_left _ ho)
      have hr2 : offEs cfg sc w [] rs ⊆ T := fun o ho => hr (List.mem_append_right _ ho)
      have hb : ∀ pos, offE cfg sc w pos (Logical.binCmp cfg.eqOn op left r) ⊆ T := fun pos =>
        List.Subset.trans (binCmp_off cfg sc w pos op left r) (List.append_subset.mpr ⟨hl, hr1⟩)
      refine chain_off cfg sc w T ops rs _ r t ?_ hr1 hr2 h
      intro a hs pos
      simp only [Option.some.injEq] at hs
      subst hs
      cases acc with
      | none => exact hb pos
      | some a0 =>
          simp only []
          rw [offE_fn2 cfg sc w pos genOp_and, offE_thunk, offE_thunk]
          exact List.append_subset.mpr ⟨ha a0 rfl .normal, hb .normal⟩

theorem logical_post_off (cfg : Cfg) (sc : List String) (w : Bool) (pos : Pos) (e : Expr) :
    offE cfg sc w pos (Logical.post cfg.eqOn e) ⊆ offE cfg sc w pos e := by
  cases e with
  | boolop i isAnd vs =>
      simp only [Logical.post, offE]
      intro o ho
      refine List.mem_cons_of_mem _ ?_
      cases isAnd
      · exact foldBool_off cfg sc w genOp_or vs pos ho
      · exact foldBool_off cfg sc w genOp_and vs pos ho
  | compare i l ops rs =>
      simp only [Logical.post]
      cases hc : Logical.chain cfg.eqOn none l ops rs with
      | none => simp [offE]
      | some t =>
          simp only [Option.getD]
          refine chain_off cfg sc w _ ops rs none l t (by intro a h; cases h) ?_ ?_ hc pos
          · simp only [offE]; intro o ho
            exact List.mem_append_left _ (List.mem_append_right _ ho)
          · simp only [offE]; intro o ho
            exact List.mem_append_right _ ho
  | unary i op e1 =>
      simp only [Logical.post]
      cases ho : Logical.overloadOf cfg.eqOn op with
      | some f =>
          simp only []
          rw [offE_fn1 cfg sc w pos (overloadOf_gen ho)]
          simp only [offE]; intro o h; exact List.mem_append_right _ h
      | none => exact List.Subset.refl _
  | _ => exact List.Subset.refl _

theorem monoLogical (cfg : Cfg) : MonoHooks cfg (guard (Logical.hooks cfg.eqOn) goodBoolOp) where
  pre := by intro e; rfl
  callee := by
    intro e
    simp only [guard, Logical.hooks]
    split
    · rename_i hg
      by_cases hne : Logical.post cfg.eqOn e = e
      · rw [hne]
      · have := trivial_logical_post cfg.eqOn e hg hne; rw [this.1.callee, this.2.callee]
    · rfl
  ldname := by
    intro e
    simp only [guard, Logical.hooks]
    split
    · rename_i hg
      by_cases hne : Logical.post cfg.eqOn e = e
      · rw [hne]
      · have := trivial_logical_post cfg.eqOn e hg hne; rw [this.1.ldname, this.2.ldname]
    · rfl
  slice := by
    intro e
    simp only [guard, Logical.hooks]
    split
    · rename_i hg
      by_cases hne : Logical.post cfg.eqOn e = e
      · rw [hne]
      · have := trivial_logical_post cfg.eqOn e hg hne; rw [this.1.slice, this.2.slice]
    · rfl
  off := by
    intro sc w pos e
    simp only [guard, Logical.hooks]
    split
    · exact logical_post_off cfg sc w pos e
    · exact List.Subset.refl _
  scope := by
    intro e
    simp only [guard, Logical.hooks]
    split
    · rename_i hg
      by_cases hne : Logical.post cfg.eqOn e = e
      · rw [hne]
      · have := trivial_logical_post cfg.eqOn e hg hne; rw [this.1.scope, this.2.scope]
    · rfl
  roles := by
    intro i e
    simp only [guard, Logical.hooks]
    split
    · rename_i hg
      by_cases hne : Logical.post cfg.eqOn e = e
      · rw [hne]
      · have := trivial_logical_post cfg.eqOn e hg hne; rw [this.1.roles, this.2.roles]
    · rfl
  scopeitem := by
    intro e
    simp only [guard, Logical.hooks]
    split
    · rename_i hg
      by_cases hne : Logical.post cfg.eqOn e = e
      · rw [hne]
      · have := trivial_logical_post cfg.eqOn e hg hne; rw [this.1.scopeitem, this.2.scopeitem]
    · rfl

theorem goodBoolOp_kids (h : Hooks) (e : Expr) : goodBoolOp (kidsE h e) = goodBoolOp e := by
  cases e <;> simp [kidsE, goodBoolOp]
  rename_i i b vs
  have : ∀ (es : List Expr), (kidsEs h es).length = es.length := by
    intro es; induction es with
    | nil => simp [kidsEs]
    | cons x xs ih => simp [kidsEs, ih]
  rw [this]

/-! ### variables -/
theorem offE_ld (cfg : Cfg) (sc : List String) (w : Bool) (pos : Pos) (e : Expr) :
    offE cfg sc w pos (Variables.ld e) = offE cfg sc w .normal e := by
  have hq : calleeQn (ag "ld") = some "ag__.ld" := by decide
  have hs : startsWith "ag__.ld" "ag__." = true := by decide
  have hp : argPositions "ag__.ld" = [] := by decide
  have h0 : offE cfg sc w .normal (ag "ld") = [] := by simp [ag, nm, offE]
  have hok : callOk cfg sc w pos (ag "ld") [tmplArg e] [] = true := by simp [callOk, hq, allowedCallee, hs]
  simp only [Variables.ld, offE, hok, if_true, h0, hq, Option.getD_some, hp, offEs, headPos, offE_tmplArg,
    List.nil_append, List.append_nil]

theorem monoVariables (cfg : Cfg) (o : Nat → Bool) : MonoHooks cfg (Variables.hooks o) where
  pre := by intro e; rfl
  callee := by
    intro e
    simp only [Variables.hooks, Variables.postE]
    split
    · split
      · have hq : calleeQn (ag "ld") = some "ag__.ld" := by decide
        simp [Variables.ld, tmplArg, tmplArgCtx, hasCtx, adjustCtx, calleeQn, hq]
      · rfl
    · rfl
  ldname := by
    intro e
    simp only [Variables.hooks, Variables.postE]
    split
    · split
      · have hq : calleeQn (ag "ld") = some "ag__.ld" := by decide
        simp [Variables.ld, tmplArg, tmplArgCtx, hasCtx, adjustCtx, ldName, hq]
      · rfl
    · rfl
  slice := by
    intro e
    simp only [Variables.hooks, Variables.postE]
    split
    · split <;> simp [Variables.ld, sliceKind]
    · rfl
  off := by
    intro sc w pos e
    simp only [Variables.hooks, Variables.postE]
    split
    · split
      · rw [offE_ld]; simp [offE]
      · exact List.Subset.refl _
    · exact List.Subset.refl _
  scope := by
    intro e
    simp only [Variables.hooks, Variables.postE]
    split
    · split
      · have hq : calleeQn (ag "ld") = some "ag__.ld" := by decide
        simp [Variables.ld, isScopeCall, hq]
      · rfl
    · rfl
  roles := by
    intro i e
    simp only [Variables.hooks, Variables.postE]
    split
    · split
      · have hq : calleeQn (ag "ld") = some "ag__.ld" := by decide
        simp [Variables.ld, bodyRoleNames, hq]
      · rfl
    · rfl
  scopeitem := by
    intro e
    simp only [Variables.hooks, Variables.postE]
    split
    · split <;> simp [Variables.ld, scopeName]
    · rfl

theorem undefAssigns_off (cfg : Cfg) (sc roles : List String) :
    ∀ (ts : List Expr) (t : Bool), offB cfg sc roles t (Variables.undefAssigns ts) = []
  | [], _ => by simp [Variables.undefAssigns, offB]
  | x :: ts, t => by
      simp only [Variables.undefAssigns, offB_append, undefAssigns_off cfg sc roles ts t, List.append_nil]
      cases x <;> simp only [Variables.undefAssign, offB] <;> try rfl

theorem undefAssigns_roles : ∀ (ts : List Expr), blockRoles (Variables.undefAssigns ts) = []
  | [] => by simp [Variables.undefAssigns, blockRoles]
  | x :: ts => by
      simp only [Variables.undefAssigns, blockRoles_append, undefAssigns_roles ts, List.append_nil]
      cases x <;> simp [Variables.undefAssign, blockRoles, bodyRoleNames]

theorem offEs_filter (cfg : Cfg) (sc : List String) (w : Bool) (q : Expr → Bool) :
    ∀ (es : List Expr), offEs cfg sc w [] (es.filter q) ⊆ offEs cfg sc w [] es
  | [] => by simp
  | e :: es => by
      have ih := offEs_filter cfg sc w q es
      by_cases hq : q e = true
      · simp only [List.filter, hq, offEs, headPos, List.tail]; exact app_mono (List.Subset.refl _) ih
      · simp only [List.filter, hq, offEs, headPos, List.tail]
        intro o ho; exact List.mem_append_right _ (ih ho)

theorem undefAssigns_ne : ∀ (ts : List Expr), ts.isEmpty = false → (∀ x ∈ ts, Variables.isName x = true) →
    (Variables.undefAssigns ts).isEmpty = false
  | [], h, _ => by simp at h
  | x :: ts, _, hn => by
      have := hn x (List.mem_cons_self ..)
      cases x <;> simp [Variables.isName] at this
      simp [Variables.undefAssigns, Variables.undefAssign]

theorem monoSVariables (cfg : Cfg) (o : Nat → Bool) : MonoSHooks cfg (Variables.hooks o) (Variables.shooks o) where
  pre_off := by
    intro sc roles t s r hh
    cases s <;> simp [Variables.shooks, Variables.preS] at hh
    rename_i i tg op v
    cases tg <;> simp at hh
    rename_i j nme c
    subst hh
    have hv := offE_mapE (monoVariables cfg o) sc false v .normal
    simp only [offB, offS, offEs, offE, headPos, offE_ld, List.nil_append, List.append_nil]
    exact hv
  post_off := by
    intro sc roles t s
    cases s <;> simp only [Variables.shooks, Variables.postS] <;> try (simp [offB])
    rename_i i ts
    split
    · simp [offB]
    · rw [offB_append, undefAssigns_off]
      split
      · simp [offB]
      · simp only [offB, offS, List.nil_append, List.append_nil]
        exact offEs_filter cfg sc false _ ts
  pre_roles := by
    intro s r hh
    cases s <;> simp [Variables.shooks, Variables.preS] at hh
    rename_i i tg op v
    cases tg <;> simp at hh
    subst hh
    simp [blockRoles, bodyRoleNames]
  post_roles := by
    intro s
    cases s <;> simp only [Variables.shooks, Variables.postS] <;> try (simp [blockRoles])
    rename_i i ts
    split
    · simp [blockRoles, bodyRoleNames]
    · rw [blockRoles_append, undefAssigns_roles]
      split <;> simp [blockRoles, bodyRoleNames]
  pre_ne := by
    intro s r hh
    cases s <;> simp [Variables.shooks, Variables.preS] at hh
    rename_i i tg op v
    cases tg <;> simp at hh
    subst hh
    rfl
  post_ne := by
    intro s
    cases s <;> simp only [Variables.shooks, Variables.postS] <;> try rfl
    rename_i i ts
    split
    · rfl
    · rename_i hne
      have h1 := undefAssigns_ne (ts.filter Variables.isName) (by simpa using hne)
        (by intro x hx; exact (List.mem_filter.mp hx).2)
      cases hu : Variables.undefAssigns (ts.filter Variables.isName) with
      | nil => simp [hu] at h1
      | cons a r => simp

end Malt.C04
