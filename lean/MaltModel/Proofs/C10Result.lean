import MaltModel.Proofs.C10Basic
/-!
C10, part 1: an invariant that needs no hypothesis on the request history.

Every factory that sits in a bucket, is carried by a thread, or was returned, is the conversion
`T v o sig` of exactly the code value `v` and options `o` it is filed under / was requested for,
computed against the namespace view `sig` of *some* requester of an equal code object.
-/
namespace Malt.Cache

section
variable {Opts Factory : Type} [BEq Opts] [Hashable Opts]

/-! ### Step characterisation shared by all invariant proofs -/

@[simp] theorem applyEff_threads (s : State Opts Factory) (t : Tid) (e : Eff Opts Factory) :
    (applyEff s t e).threads = s.threads := by
  cases e <;> rfl

theorem stepThread_none {T : Code → Opts → Nat → Option Factory} {s : State Opts Factory} {t : Tid}
    (h : s.threads[t]? = none) : stepThread T s t = s := by
  simp [stepThread, h]

theorem stepThread_nil {T : Code → Opts → Nat → Option Factory} {s : State Opts Factory} {t : Tid}
    {th : Thread Opts Factory} (h : s.threads[t]? = some th) (h2 : th.todo = []) :
    stepThread T s t = s := by
  simp [stepThread, h, h2]

theorem stepThread_cons {T : Code → Opts → Nat → Option Factory} {s : State Opts Factory} {t : Tid}
    {th : Thread Opts Factory} {r : Request Opts} {rest : List (Request Opts)}
    (h : s.threads[t]? = some th) (h2 : th.todo = r :: rest) :
    stepThread T s t =
      { applyEff s t (action T s t r th.pc).1 with
        threads := s.threads.set t (applyNext th r (action T s t r th.pc).2) } := by
  simp [stepThread, h, h2]

theorem lt_of_getElem?_some {α : Type} {l : List α} {i : Nat} {a : α} (h : l[i]? = some a) :
    i < l.length := by
  rcases Nat.lt_or_ge i l.length with hlt | hge
  · exact hlt
  · rw [List.getElem?_eq_none hge] at h; cases h

/-- Threads after a step of `t`. -/
theorem threads_set_get {α : Type} {l : List α} {t t' : Nat} {a b : α} (h : l[t]? = some a) :
    (l.set t b)[t']? = if t' = t then some b else l[t']? := by
  have hlt := lt_of_getElem?_some h
  by_cases ht : t' = t
  · subst ht; simp [hlt]
  · have : ¬ t = t' := fun h => ht h.symm
    simp [List.getElem?_set, this, ht]

theorem mem_set_of {α : Type} {l : List α} {t : Nat} {b x : α} (h : x ∈ l.set t b) : x ∈ l ∨ x = b := by
  rcases List.mem_or_eq_of_mem_set h with h | h
  · exact Or.inl h
  · exact Or.inr h

/-- The heap only grows: a bucket object keeps its (ghost) code value for ever. -/
def HeapExt (s s' : State Opts Factory) : Prop :=
  ∀ (b v : Nat) (bk : List (Opts × Factory)), s.heap[b]? = some (v, bk) → ∃ bk', s'.heap[b]? = some (v, bk')

theorem applyEff_heapExt (s : State Opts Factory) (t : Tid) (e : Eff Opts Factory) :
    HeapExt s (applyEff s t e) := by
  intro b v bk h
  cases e with
  | nop => exact ⟨bk, h⟩
  | create c =>
    refine ⟨bk, ?_⟩
    show (s.heap ++ [(c.val, [])])[b]? = some (v, bk)
    rw [List.getElem?_append_left (lt_of_getElem?_some h)]; exact h
  | store b' o f =>
    show ∃ bk', (hstore b' o f s.heap)[b]? = some (v, bk')
    rw [hstore_get]
    by_cases hb : b = b'
    · subst hb; simp [h]
    · simp [hb, h]
  | acquire => exact ⟨bk, h⟩
  | release => exact ⟨bk, h⟩
  | logx c o => exact ⟨bk, h⟩

end

section
variable {Opts Factory : Type} [BEq Opts] [Hashable Opts] [LawfulBEq Opts]
variable (T : Code → Opts → Nat → Option Factory) (P : List (Request Opts))

/-- `f` is the conversion of code value `v` under options `o`, computed against the namespace view of
some requester (in the history `P`) of an equal code object with equal options. -/
def Served (v : Nat) (o : Opts) (f : Factory) : Prop :=
  ∃ r0 ∈ P, r0.code.val = v ∧ r0.opts = o ∧ T r0.code o r0.env.sig = some f

def PcG (s : State Opts Factory) (r : Request Opts) : Pc Factory → Prop
  | .has2 _ b => ∃ bk, s.heap[b]? = some (r.code.val, bk)
  | .get2 _ b => ∃ bk, s.heap[b]? = some (r.code.val, bk)
  | .st2 f b => (∃ bk, s.heap[b]? = some (r.code.val, bk)) ∧ Served T P r.code.val r.opts f
  | .st1 f => Served T P r.code.val r.opts f
  | .st1c f => Served T P r.code.val r.opts f
  | .inst f _ => Served T P r.code.val r.opts f
  | .rel (some f) _ => Served T P r.code.val r.opts f
  | _ => True

structure G (s : State Opts Factory) : Prop where
  todo : ∀ th ∈ s.threads, ∀ r ∈ th.todo, r ∈ P
  outer : ∀ e ∈ s.outer, ∃ bk, s.heap[e.2]? = some (e.1.val, bk)
  heap : ∀ (b v : Nat) (bk : List (Opts × Factory)), s.heap[b]? = some (v, bk) → ∀ e ∈ bk, Served T P v e.1 e.2
  pc : ∀ (t : Tid) (th : Thread Opts Factory) (r : Request Opts) (rest : List (Request Opts)),
    s.threads[t]? = some th → th.todo = r :: rest → PcG T P s r th.pc
  res : ∀ th ∈ s.threads, ∀ e ∈ th.results, ∀ f, e.2 = some f → Served T P e.1.code.val e.1.opts f
  resP : ∀ th ∈ s.threads, ∀ e ∈ th.results, e.1 ∈ P

variable {T P}

theorem PcG_mono {s s' : State Opts Factory} (h : HeapExt s s') {r : Request Opts} {pc : Pc Factory}
    (hp : PcG T P s r pc) : PcG T P s' r pc := by
  cases pc with
  | has2 lk b => obtain ⟨bk, hb⟩ := hp; exact h _ _ _ hb
  | get2 lk b => obtain ⟨bk, hb⟩ := hp; exact h _ _ _ hb
  | st2 f b => obtain ⟨⟨bk, hb⟩, hs⟩ := hp; exact ⟨h _ _ _ hb, hs⟩
  | rel res own => cases res <;> exact hp
  | _ => exact hp

theorem bucketAt_of {s : State Opts Factory} {b v : Nat} {bk : List (Opts × Factory)}
    (h : s.heap[b]? = some (v, bk)) : bucketAt s b = bk := by
  simp [bucketAt, h]

/-- What the acting thread does is justified by the invariant. -/
theorem action_G {s : State Opts Factory} (g : G T P s) {t : Tid} {th : Thread Opts Factory}
    {r : Request Opts} {rest : List (Request Opts)}
    (hth : s.threads[t]? = some th) (htodo : th.todo = r :: rest) :
    (∀ pc', (action T s t r th.pc).2 = .goto pc' → PcG T P (applyEff s t (action T s t r th.pc).1) r pc') ∧
    (∀ f, (action T s t r th.pc).2 = .finish (some f) → Served T P r.code.val r.opts f) ∧
    (∀ b o f, (action T s t r th.pc).1 = .store b o f →
        o = r.opts ∧ Served T P r.code.val o f ∧ ∃ bk, s.heap[b]? = some (r.code.val, bk)) := by
  have hpc := g.pc t th r rest hth htodo
  have hrP : r ∈ P := g.todo th (List.mem_of_getElem? hth) r (by rw [htodo]; exact List.mem_cons_self)
  cases hp : th.pc with
  | idle => simp [action, PcG]
  | has1 lk =>
    simp only [action]
    cases ho : ofind r.code s.outer with
    | none => cases lk <;> simp [miss, PcG]
    | some b =>
      obtain ⟨k, hm, hv⟩ := ofind_mem ho
      obtain ⟨bk, hb⟩ := g.outer _ hm
      simp only [hv] at hb
      refine ⟨?_, by simp, by simp⟩
      intro pc' h
      simp only [Next.goto.injEq] at h
      subst h
      exact ⟨bk, hb⟩
  | has2 lk b =>
    simp only [action]
    split <;> cases lk <;> simp [miss, PcG]
  | get1 lk =>
    simp only [action]
    cases ho : ofind r.code s.outer with
    | none => simp [PcG]
    | some b =>
      obtain ⟨k, hm, hv⟩ := ofind_mem ho
      obtain ⟨bk, hb⟩ := g.outer _ hm
      simp only [hv] at hb
      refine ⟨?_, by simp, by simp⟩
      intro pc' h
      simp only [Next.goto.injEq] at h
      subst h
      exact ⟨bk, hb⟩
  | get1c lk =>
    simp only [action]
    refine ⟨?_, by simp, by simp⟩
    intro pc' h
    simp only [Next.goto.injEq] at h
    subst h
    exact ⟨[], by simp [applyEff]⟩
  | get2 lk b =>
    rw [hp] at hpc
    obtain ⟨bk, hb⟩ := hpc
    simp only [action, bucketAt_of hb]
    cases hf : bfind r.opts bk with
    | none => cases lk <;> simp [PcG]
    | some f =>
      have hs : Served T P r.code.val r.opts f := g.heap _ _ _ hb _ (bfind_mem hf)
      cases lk <;> simp [PcG, hs]
  | acq =>
    simp only [action]
    cases hl : s.lock with
    | none => simp [PcG]
    | some hn =>
      obtain ⟨h, n⟩ := hn
      by_cases hh : h = t <;> simp [hh, PcG]
  | xform =>
    simp only [action]
    cases hT : T r.code r.opts r.env.sig with
    | none => simp [PcG]
    | some f =>
      refine ⟨?_, by simp, by simp⟩
      intro pc' h
      simp only [Next.goto.injEq] at h
      subst h
      exact ⟨r, hrP, rfl, rfl, hT⟩
  | st1 f =>
    rw [hp] at hpc
    simp only [action]
    cases ho : ofind r.code s.outer with
    | none => simpa [PcG] using hpc
    | some b =>
      obtain ⟨k, hm, hv⟩ := ofind_mem ho
      obtain ⟨bk, hb⟩ := g.outer _ hm
      simp only [hv] at hb
      refine ⟨?_, by simp, by simp⟩
      intro pc' h
      simp only [Next.goto.injEq] at h
      subst h
      exact ⟨⟨bk, hb⟩, hpc⟩
  | st1c f =>
    rw [hp] at hpc
    simp only [action]
    refine ⟨?_, by simp, by simp⟩
    intro pc' h
    simp only [Next.goto.injEq] at h
    subst h
    exact ⟨⟨[], by simp [applyEff]⟩, hpc⟩
  | st2 f b =>
    rw [hp] at hpc
    obtain ⟨⟨bk, hb⟩, hs⟩ := hpc
    simp only [action]
    refine ⟨?_, by simp, ?_⟩
    · intro pc' h
      simp only [Next.goto.injEq] at h
      subst h
      exact hs
    · intro b' o f' h
      simp only [Eff.store.injEq] at h
      obtain ⟨rfl, rfl, rfl⟩ := h
      exact ⟨rfl, hs, bk, hb⟩
  | rel res own =>
    rw [hp] at hpc
    simp only [action]
    cases res with
    | none => simp
    | some f => simpa [PcG] using hpc
  | inst f own =>
    rw [hp] at hpc
    simp only [action]
    simpa [PcG] using hpc

theorem G_init (progs : List (List (Request Opts))) (hP : ∀ p ∈ progs, ∀ r ∈ p, r ∈ P) :
    G T P (init progs : State Opts Factory) := by
  refine ⟨?_, ?_, ?_, ?_, ?_, ?_⟩
  · intro th hth r hr
    simp only [init, List.mem_map] at hth
    obtain ⟨p, hp, rfl⟩ := hth
    exact hP p hp r hr
  · intro e he; simp [init] at he
  · intro b v bk h; simp [init] at h
  · intro t th r rest hth htodo
    simp only [init, List.getElem?_map, Option.map_eq_some_iff] at hth
    obtain ⟨p, _, rfl⟩ := hth
    simp [PcG]
  · intro th hth e he
    simp only [init, List.mem_map] at hth
    obtain ⟨p, hp, rfl⟩ := hth
    simp at he
  · intro th hth e he
    simp only [init, List.mem_map] at hth
    obtain ⟨p, hp, rfl⟩ := hth
    simp at he

theorem G_stepThread {s : State Opts Factory} (g : G T P s) (t : Tid) : G T P (stepThread T s t) := by
  cases hth : s.threads[t]? with
  | none => rw [stepThread_none hth]; exact g
  | some th =>
    cases htodo : th.todo with
    | nil => rw [stepThread_nil hth htodo]; exact g
    | cons r rest =>
      rw [stepThread_cons hth htodo]
      obtain ⟨hgoto, hfin, hst⟩ := action_G g hth htodo
      generalize ha : action T s t r th.pc = a at hgoto hfin hst
      obtain ⟨eff, nxt⟩ := a
      simp only at hgoto hfin hst ⊢
      have hext : HeapExt s (applyEff s t eff) := applyEff_heapExt s t eff
      have hrP : r ∈ P := g.todo th (List.mem_of_getElem? hth) r (by rw [htodo]; exact List.mem_cons_self)
      refine ⟨?_, ?_, ?_, ?_, ?_, ?_⟩
      · -- todo
        intro th' hth' r' hr'
        rcases mem_set_of hth' with h | h
        · exact g.todo th' h r' hr'
        · subst h
          have hsub : ∀ x ∈ (applyNext th r nxt).todo, x ∈ th.todo := by
            intro x hx
            cases nxt with
            | goto pc => exact hx
            | finish res => exact List.mem_of_mem_tail hx
            | blocked => exact hx
          exact g.todo th (List.mem_of_getElem? hth) r' (hsub r' hr')
      · -- outer
        intro e he
        cases eff with
        | create c =>
          rcases mem_oset he with h | ⟨h2, hv⟩
          · obtain ⟨bk, hb⟩ := g.outer e h
            exact hext _ _ _ hb
          · refine ⟨[], ?_⟩
            show (s.heap ++ [(c.val, [])])[e.2]? = some (e.1.val, [])
            rw [h2, hv]; simp
        | nop => exact g.outer e he
        | store b o f => obtain ⟨bk, hb⟩ := g.outer e he; exact hext _ _ _ hb
        | acquire => exact g.outer e he
        | release => exact g.outer e he
        | logx c o => exact g.outer e he
      · -- heap
        intro b v bk hb e he
        cases eff with
        | create c =>
          have hb' : (s.heap ++ [(c.val, [])])[b]? = some (v, bk) := hb
          by_cases hlt : b < s.heap.length
          · rw [List.getElem?_append_left hlt] at hb'
            exact g.heap b v bk hb' e he
          · have hge : s.heap.length ≤ b := Nat.le_of_not_lt hlt
            rw [List.getElem?_append_right hge] at hb'
            have : bk = [] := by
              cases hx : b - s.heap.length with
              | zero => simp [hx] at hb'; exact hb'.2
              | succ n => simp [hx] at hb'
            subst this; simp at he
        | store b' o f =>
          have hb' : (hstore b' o f s.heap)[b]? = some (v, bk) := hb
          rw [hstore_get] at hb'
          by_cases hbb : b = b'
          · subst hbb
            simp only [if_true, Option.map_eq_some_iff] at hb'
            obtain ⟨⟨v0, bk0⟩, h0, h1⟩ := hb'
            simp only [Prod.mk.injEq] at h1
            obtain ⟨rfl, rfl⟩ := h1
            obtain ⟨ho, hs, bk1, hbk1⟩ := hst b o f rfl
            rw [h0] at hbk1
            simp only [Option.some.injEq, Prod.mk.injEq] at hbk1
            obtain ⟨hv, _⟩ := hbk1
            obtain ⟨k, g'⟩ := e
            rcases mem_bset he with h | ⟨rfl, rfl⟩
            · exact g.heap b v0 bk0 h0 _ h
            · rw [hv]; exact hs
          · simp only [hbb, if_false] at hb'
            exact g.heap b v bk hb' e he
        | nop => exact g.heap b v bk hb e he
        | acquire => exact g.heap b v bk hb e he
        | release => exact g.heap b v bk hb e he
        | logx c o => exact g.heap b v bk hb e he
      · -- pc
        intro t' th' r' rest' hth' htodo'
        simp only at hth'
        rw [threads_set_get hth] at hth'
        by_cases htt : t' = t
        · simp only [htt, if_true, Option.some.injEq] at hth'
          subst hth'
          cases nxt with
          | goto pc' =>
            have : r' = r := by
              have : th.todo = r' :: rest' := htodo'
              rw [htodo] at this; simp at this; exact this.1.symm
            subst this
            exact hgoto pc' rfl
          | finish res => simp [applyNext, PcG]
          | blocked =>
            have : r' = r := by
              have : th.todo = r' :: rest' := htodo'
              rw [htodo] at this; simp at this; exact this.1.symm
            subst this
            exact PcG_mono hext (g.pc t th r' rest hth htodo)
        · simp only [htt, if_false] at hth'
          exact PcG_mono hext (g.pc t' th' r' rest' hth' htodo')
      · -- results
        intro th' hth' e he f hf
        rcases mem_set_of hth' with h | h
        · exact g.res th' h e he f hf
        · subst h
          cases nxt with
          | goto pc => exact g.res th (List.mem_of_getElem? hth) e he f hf
          | blocked => exact g.res th (List.mem_of_getElem? hth) e he f hf
          | finish res =>
            simp only [applyNext, List.mem_append, List.mem_singleton] at he
            rcases he with he | rfl
            · exact g.res th (List.mem_of_getElem? hth) e he f hf
            · simp only at hf
              subst hf
              exact hfin f rfl
      · -- results belong to the history
        intro th' hth' e he
        rcases mem_set_of hth' with h | h
        · exact g.resP th' h e he
        · subst h
          cases nxt with
          | goto pc => exact g.resP th (List.mem_of_getElem? hth) e he
          | blocked => exact g.resP th (List.mem_of_getElem? hth) e he
          | finish res =>
            simp only [applyNext, List.mem_append, List.mem_singleton] at he
            rcases he with he | rfl
            · exact g.resP th (List.mem_of_getElem? hth) e he
            · exact hrP

theorem G_step {s : State Opts Factory} (g : G T P s) (l : Label) : G T P (step T s l) := by
  cases l with
  | thr t => exact G_stepThread g t
  | gc c =>
    simp only [step]
    split
    · exact g
    · refine ⟨g.todo, ?_, g.heap, g.pc, g.res, g.resP⟩
      intro e he
      exact g.outer e (mem_ogc.mp he).1

theorem G_run {s : State Opts Factory} (g : G T P s) (sched : List Label) : G T P (run T s sched) := by
  induction sched generalizing s with
  | nil => exact g
  | cons l ls ih => exact ih (G_step g l)

end

end Malt.Cache
