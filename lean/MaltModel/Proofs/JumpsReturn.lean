import MaltModel.Proofs.JumpsCommon
/-
Semantic preservation of the return lowering `retS/retB/retH` (Conv/JumpsSem.lean): forward simulation by
induction on fuel.  `dr` (do_return) and `rv` (retval_) are the two generated names.
-/
namespace Malt.Sem.Jumps
open Malt.Sem

/-- The hidden names of the return lowering. -/
def HidR (dr rv : Name) : Name → Prop := fun x => x = dr ∨ x = rv

/-- Post-condition of the return lowering. -/
def RPost (dr rv : Name) (hit : Bool) (o o' : Out) (σ' σ1' : St) : Prop :=
  (∀ v, o = .ret v → hit = true ∧ o' = .normal ∧ σ1'.env dr = some (.int 1) ∧ σ1'.env rv = some v) ∧
  ((∀ v, o ≠ .ret v) → o' = o ∧ ((σ1'.env dr = σ'.env dr ∧ σ1'.env rv = σ'.env rv) ∨ Out.fatal o)) ∧
  (hit = false → σ1'.env dr = σ'.env dr ∧ σ1'.env rv = σ'.env rv)

theorem RPost.same {dr rv : Name} {o : Out} {σ' σ1' : St} (ho : ∀ v, o ≠ .ret v)
    (h : σ1'.env dr = σ'.env dr ∧ σ1'.env rv = σ'.env rv) : RPost dr rv false o o σ' σ1' :=
  ⟨fun v hb => absurd hb (ho v), fun _ => ⟨rfl, Or.inl h⟩, fun _ => h⟩

theorem RPost.mono {dr rv : Name} {h h' : Bool} {o o' : Out} {σ' σ1' : St}
    (hp : RPost dr rv h o o' σ' σ1') (hh : h = true → h' = true) : RPost dr rv h' o o' σ' σ1' := by
  refine ⟨fun v hb => ?_, hp.2.1, fun hf => ?_⟩
  · obtain ⟨h1, h2, h3⟩ := hp.1 v hb; exact ⟨hh h1, h2, h3⟩
  · apply hp.2.2
    cases h with
    | false => rfl
    | true => rw [hh rfl] at hf; cases hf

theorem RPost.rebase {dr rv : Name} {h : Bool} {o o' : Out} {σ' τ' σ1' : St}
    (hp : RPost dr rv h o o' τ' σ1') (he : τ'.env dr = σ'.env dr ∧ τ'.env rv = σ'.env rv) :
    RPost dr rv h o o' σ' σ1' := by
  refine ⟨hp.1, fun hb => ?_, fun hf => ?_⟩
  · obtain ⟨a, b⟩ := hp.2.1 hb; exact ⟨a, by rw [← he.1, ← he.2]; exact b⟩
  · rw [← he.1, ← he.2]; exact hp.2.2 hf

theorem RPost.normal_cur {dr rv : Name} {h : Bool} {o o' : Out} {σ' σs' : St}
    (hp : RPost dr rv h o o' σ' σs') (ho : o = .normal ∨ o = .cont ∨ o = .brk) :
    o' = o ∧ σs'.env dr = σ'.env dr ∧ σs'.env rv = σ'.env rv := by
  obtain ⟨a, b⟩ := hp.2.1 (by intro v; rcases ho with h | h | h <;> simp [h])
  refine ⟨a, ?_⟩
  rcases b with b | b
  · exact b
  · rcases ho with h | h | h <;> simp [h, Out.fatal] at b

theorem RPost.seq {dr rv : Name} {h1 h2 : Bool} {o o' o1 : Out} {σ' σs' σ1' : St}
    (hp1 : RPost dr rv h1 o1 o1 σ' σs') (ho1 : o1 = .normal ∨ o1 = .cont ∨ o1 = .brk)
    (hp2 : RPost dr rv h2 o o' σs' σ1') :
    RPost dr rv (h1 || h2) o o' σ' σ1' :=
  (hp2.rebase (hp1.normal_cur ho1).2).mono (by intro h; simp [h])

/-! ### syntactic facts -/

mutual
theorem retS_jumpFree (dr rv : Name) : ∀ (u : Bool) (s : Stmt), jumpFreeS s = true → (retS dr rv u s).2 = false
  | u, .brk, h => by simp [jumpFreeS] at h
  | u, .cont, h => by simp [jumpFreeS] at h
  | u, .ret e, h => by simp [jumpFreeS] at h
  | u, .assign x e, _ => by simp [retS]
  | u, .expr e, _ => by simp [retS]
  | u, .pass, _ => by simp [retS]
  | u, .raise t, _ => by simp [retS]
  | u, .ifS c t e, h => by
      simp only [jumpFreeS, Bool.and_eq_true] at h
      simp [retS, retB_jumpFree dr rv false false t h.1, retB_jumpFree dr rv false false e h.2]
  | u, .whileS c b, h => by
      simp only [jumpFreeS] at h
      simp [retS, retB_jumpFree dr rv false false b h]
  | u, .forS x it ex b, h => by
      simp only [jumpFreeS] at h
      simp [retS, retB_jumpFree dr rv false false b h]
  | u, .tryS b hs f, h => by
      simp only [jumpFreeS, Bool.and_eq_true] at h
      simp [retS, retB_jumpFree dr rv false false b h.1.1, retH_jumpFree dr rv hs h.1.2,
        retB_jumpFree dr rv false false f h.2]
  | u, .withS t b, h => by
      simp only [jumpFreeS] at h
      simp [retS, retB_jumpFree dr rv false false b h]
theorem retB_jumpFree (dr rv : Name) : ∀ (g u : Bool) (b : List Stmt), jumpFreeB b = true →
    (retB dr rv g u b).2 = false
  | g, u, [], _ => by simp [retB]
  | g, u, s :: rest, h => by
      simp only [jumpFreeB, Bool.and_eq_true] at h
      simp [retB, retS_jumpFree dr rv _ s h.1, retB_jumpFree dr rv _ _ rest h.2]
theorem retH_jumpFree (dr rv : Name) : ∀ (hs : List (Nat × List Stmt)), jumpFreeH hs = true →
    (retH dr rv hs).2 = false
  | [], _ => by simp [retH]
  | (t, b) :: hs, h => by
      simp only [jumpFreeH, Bool.and_eq_true] at h
      simp [retH, retB_jumpFree dr rv false false b h.1, retH_jumpFree dr rv hs h.2]
end

theorem retH_find (dr rv : Name) (ex : Exc) : ∀ (hs : List (Nat × Block)) (hb : Block),
    findHandler hs ex = some hb →
    findHandler (retH dr rv hs).1 ex = some (retB dr rv false false hb).1 ∧
      ((retH dr rv hs).2 = false → (retB dr rv false false hb).2 = false) := by
  intro hs hb h
  cases ex with
  | user t =>
    simp only [findHandler] at h ⊢
    induction hs with
    | nil => simp at h
    | cons ph hs ih =>
      obtain ⟨t', b⟩ := ph
      simp only [List.find?] at h
      simp only [retH, List.find?]
      by_cases ht : (t' == t) = true
      · simp only [ht] at h ⊢
        simp at h; subst h
        refine ⟨by simp, ?_⟩
        intro hf; simp only [Bool.or_eq_false_iff] at hf; exact hf.1
      · simp only [ht] at h ⊢
        obtain ⟨h1, h2⟩ := ih h
        refine ⟨h1, ?_⟩
        intro hf; simp only [Bool.or_eq_false_iff] at hf; exact h2 hf.2
  | nameError x => simp [findHandler] at h
  | typeError => simp [findHandler] at h

theorem retH_find_none (dr rv : Name) (ex : Exc) : ∀ (hs : List (Nat × Block)),
    findHandler hs ex = none → findHandler (retH dr rv hs).1 ex = none := by
  intro hs h
  cases ex with
  | user t =>
    simp only [findHandler] at h ⊢
    induction hs with
    | nil => simp [retH]
    | cons ph hs ih =>
      obtain ⟨t', b⟩ := ph
      simp only [List.find?] at h
      simp only [retH, List.find?]
      by_cases ht : (t' == t) = true
      · simp [ht] at h
      · simp only [ht] at h ⊢
        exact ih h
  | nameError x => simp [findHandler]
  | typeError => simp [findHandler]

/-- With `do_return` set, a guarded rest-of-block does nothing. -/
theorem retB_guard_skip (X : Ext) (dr rv : Name) (u : Bool) (rest : Block) {σ : St}
    (h : σ.env dr = some (.int 1)) :
    execB X 3 (retB dr rv true u rest).1 σ = some (.normal, σ) := by
  cases rest with
  | nil => simp [retB, execB]
  | cons s rest =>
    simp only [retB, if_true]
    exact execB_singleton (exec_ifNot_true X _ 0 h)

/-! ### the simulation statements -/

section
variable (dr rv : Name) (X : Ext)

def RSimS (n : Nat) : Prop :=
  ∀ (s : Stmt) (u : Bool) (σ σ' : St) (o : Out) (σ1 : St),
    CleanS (HidR dr rv) s → finOKS s = true →
    Agree (HidR dr rv) σ σ' → ((u = true ∨ (retS dr rv u s).2 = true) → σ'.env dr = some (.int 0)) →
    exec X n s σ = some (o, σ1) →
    ∃ m σ1' o', execB X m (retS dr rv u s).1 σ' = some (o', σ1') ∧ Agree (HidR dr rv) σ1 σ1' ∧
      RPost dr rv (retS dr rv u s).2 o o' σ' σ1'

def RSimB (n : Nat) : Prop :=
  ∀ (b : Block) (g u : Bool) (σ σ' : St) (o : Out) (σ1 : St),
    CleanB (HidR dr rv) b → finOKB b = true →
    Agree (HidR dr rv) σ σ' →
    ((g = true ∨ u = true ∨ (retB dr rv g u b).2 = true) → σ'.env dr = some (.int 0)) →
    execB X n b σ = some (o, σ1) →
    ∃ m σ1' o', execB X m (retB dr rv g u b).1 σ' = some (o', σ1') ∧ Agree (HidR dr rv) σ1 σ1' ∧
      RPost dr rv (retB dr rv g u b).2 o o' σ' σ1'

def RSimW (n : Nat) : Prop :=
  ∀ (c : Expr) (b : Block) (u : Bool) (σ σ' : St) (o : Out) (σ1 : St),
    CleanE (HidR dr rv) c → CleanB (HidR dr rv) b → finOKB b = true →
    Agree (HidR dr rv) σ σ' →
    ((u = true ∨ (retB dr rv false false b).2 = true) → σ'.env dr = some (.int 0)) →
    exec X n (.whileS c b) σ = some (o, σ1) →
    ∃ m σ1' o', exec X m (.whileS (retTest dr (u || (retB dr rv false false b).2) c)
        (retB dr rv false false b).1) σ' = some (o', σ1') ∧
      Agree (HidR dr rv) σ1 σ1' ∧ RPost dr rv (retB dr rv false false b).2 o o' σ' σ1'

def RSimF (n : Nat) : Prop :=
  ∀ (x : Name) (ex : Option Expr) (b : Block) (u : Bool) (items : List Val) (σ σ' : St) (o : Out) (σ1 : St),
    ¬ HidR dr rv x → CleanO (HidR dr rv) ex → CleanB (HidR dr rv) b → finOKB b = true →
    Agree (HidR dr rv) σ σ' →
    ((u = true ∨ (retB dr rv false false b).2 = true) → σ'.env dr = some (.int 0)) →
    execFor X n x ex b items σ = some (o, σ1) →
    ∃ m σ1' o', execFor X m x (retExtra dr (u || (retB dr rv false false b).2) ex)
        (retB dr rv false false b).1 items σ' = some (o', σ1') ∧
      Agree (HidR dr rv) σ1 σ1' ∧ RPost dr rv (retB dr rv false false b).2 o o' σ' σ1'

end

section
variable (dr rv : Name) (X : Ext)

theorem rsimB_step (n : Nat) (hS : RSimS dr rv X n) (hB : RSimB dr rv X n) : RSimB dr rv X (n+1) := by
  intro b g u σ σ' o σ1 hc hf hag hpre h
  cases b with
  | nil =>
    simp [execB] at h; obtain ⟨rfl, rfl⟩ := h
    exact ⟨1, σ', .normal, by simp [retB, execB], hag, RPost.same (by simp) ⟨rfl, rfl⟩⟩
  | cons s rest =>
    simp only [CleanB] at hc
    simp only [finOKB, Bool.and_eq_true] at hf
    obtain ⟨os, σs, hs, hcase⟩ := execB_cons_inv h
    have hhit : (retB dr rv g u (s :: rest)).2 =
        ((retS dr rv u s).2 || (retB dr rv (retS dr rv u s).2 (u || (retS dr rv u s).2) rest).2) := by
      simp [retB]
    have hpreS : (u = true ∨ (retS dr rv u s).2 = true) → σ'.env dr = some (.int 0) := by
      intro hh; apply hpre
      rcases hh with hh | hh
      · exact Or.inr (Or.inl hh)
      · right; right; rw [hhit, hh]; rfl
    obtain ⟨m1, σs', os', hx1, hag1, hp1⟩ := hS s u σ σ' os σs hc.1 hf.1 hag hpreS hs
    have hinner : ∃ m σ1' o', execB X m ((retS dr rv u s).1 ++
          (retB dr rv (retS dr rv u s).2 (u || (retS dr rv u s).2) rest).1) σ' = some (o', σ1') ∧
        Agree (HidR dr rv) σ1 σ1' ∧ RPost dr rv (retB dr rv g u (s :: rest)).2 o o' σ' σ1' := by
      rw [hhit]
      rcases hcase with ⟨hn, hr⟩ | ⟨hn, hr⟩
      · subst hn
        obtain ⟨hos', hcur⟩ := hp1.normal_cur (Or.inl rfl)
        subst hos'
        have hpreR : ((retS dr rv u s).2 = true ∨ (u || (retS dr rv u s).2) = true ∨
            (retB dr rv (retS dr rv u s).2 (u || (retS dr rv u s).2) rest).2 = true) →
            σs'.env dr = some (.int 0) := by
          intro hh
          rw [hcur.1]; apply hpre
          rcases hh with hh | hh | hh
          · right; right; rw [hhit, hh]; rfl
          · simp only [Bool.or_eq_true] at hh
            rcases hh with hh | hh
            · exact Or.inr (Or.inl hh)
            · right; right; rw [hhit, hh]; rfl
          · right; right; rw [hhit, hh]; simp
        obtain ⟨m2, σ1', o', hx2, hag2, hp2⟩ := hB rest _ _ σs σs' o σ1 hc.2 hf.2 hag1 hpreR hr
        exact ⟨m1 + m2, σ1', o', execB_append hx1 hx2, hag2, RPost.seq hp1 (Or.inl rfl) hp2⟩
      · simp at hr; obtain ⟨rfl, rfl⟩ := hr
        by_cases hor : ∃ v, o = .ret v
        · obtain ⟨v, rfl⟩ := hor
          obtain ⟨hh, hos', hone, hval⟩ := hp1.1 v rfl
          subst hos'
          rw [hh]
          refine ⟨m1 + 3, σs', .normal, execB_append hx1 (retB_guard_skip X dr rv _ rest hone), hag1, ?_⟩
          refine ⟨fun w hw => ?_, fun hne => absurd rfl (hne v), fun hf => by simp at hf⟩
          simp at hw; subst hw
          exact ⟨by simp, rfl, hone, hval⟩
        · have hor' : ∀ v, o ≠ .ret v := fun v hv => hor ⟨v, hv⟩
          have hos' : os' = o := (hp1.2.1 hor').1
          subst hos'
          exact ⟨m1, σs', os', execB_append_abrupt _ hx1 hn, hag1, hp1.mono (by intro h; simp [h])⟩
    obtain ⟨m, σ1', o', hx, hag', hp'⟩ := hinner
    by_cases hg : g = true
    · subst hg
      refine ⟨m + 2, σ1', o', ?_, hag', hp'⟩
      simp only [retB, if_true]
      apply execB_singleton (n := m + 1)
      rw [exec_ifNot_false X _ m (hpre (Or.inl rfl))]
      exact hx
    · have hg' : g = false := by simpa using hg
      subst hg'
      refine ⟨m, σ1', o', ?_, hag', hp'⟩
      simpa [retB] using hx

end

section
variable (dr rv : Name) (X : Ext)

/-- An outcome that is not a return, with both generated names unchanged. -/
theorem RPost.unchanged {dr rv : Name} {hit : Bool} {o : Out} {σ' σ1' : St} (ho : ∀ v, o ≠ .ret v)
    (h : σ1'.env dr = σ'.env dr ∧ σ1'.env rv = σ'.env rv) : RPost dr rv hit o o σ' σ1' :=
  ⟨fun v hb => absurd hb (ho v), fun _ => ⟨rfl, Or.inl h⟩, fun _ => h⟩

theorem rsimW_step (n : Nat) (hB : RSimB dr rv X n) (hW : RSimW dr rv X n) : RSimW dr rv X (n+1) := by
  intro c b u σ σ' o σ1 hcc hcb hfb hag hpre h
  rcases hr : evalE X c σ with ⟨r, τ⟩
  obtain ⟨τ', hr', hag', henv⟩ := evalE_agree' hcc hag hr
  have hext : (u || (retB dr rv false false b).2) = true → σ'.env dr = some (.int 0) := by
    intro hh; apply hpre; simpa using hh
  have htest : evalE X (retTest dr (u || (retB dr rv false false b).2) c) σ' = (r, τ') := by
    unfold retTest
    split
    · rename_i hh; rw [evalE_guard_false X c (hext hh)]; exact hr'
    · exact hr'
  have hsame : τ'.env dr = σ'.env dr ∧ τ'.env rv = σ'.env rv := by rw [henv]; exact ⟨rfl, rfl⟩
  cases r with
  | error ex =>
    rw [exec_while_err hr] at h; simp at h; obtain ⟨rfl, rfl⟩ := h
    exact ⟨1, τ', _, exec_while_err htest, hag', RPost.unchanged (by simp) hsame⟩
  | ok v =>
    cases hv : truthy v with
    | false =>
      rw [exec_while_false hr hv] at h; simp at h; obtain ⟨rfl, rfl⟩ := h
      exact ⟨1, τ', _, exec_while_false htest hv, hag', RPost.unchanged (by simp) hsame⟩
    | true =>
      cases hb : execB X n b τ with
      | none => rw [exec_while_none hr hv hb] at h; simp at h
      | some rb =>
        obtain ⟨ob, τ1⟩ := rb
        rw [exec_while_step hr hv hb] at h
        obtain ⟨m1, τ1', ob', hx1, hag1, hp1⟩ :=
          hB b false false τ τ' ob τ1 hcb hfb hag'
            (by intro hh; rcases hh with hh | hh | hh
                · cases hh
                · cases hh
                · rw [henv]; exact hpre (Or.inr hh)) hb
        have hcontinue : (ob = .normal ∨ ob = .cont) → exec X n (.whileS c b) τ1 = some (o, σ1) →
            ∃ m σ1' o', exec X m (.whileS (retTest dr (u || (retB dr rv false false b).2) c)
                (retB dr rv false false b).1) σ' = some (o', σ1') ∧
              Agree (HidR dr rv) σ1 σ1' ∧ RPost dr rv (retB dr rv false false b).2 o o' σ' σ1' := by
          intro hob hw
          obtain ⟨hob', hcur⟩ := hp1.normal_cur (by rcases hob with h | h <;> simp [h])
          subst hob'
          have hcur' : τ1'.env dr = σ'.env dr ∧ τ1'.env rv = σ'.env rv := by
            rw [hcur.1, hcur.2]; exact hsame
          obtain ⟨m2, σ1', o', hx2, hag2, hp2⟩ := hW c b u τ1 τ1' o σ1 hcc hcb hfb hag1
            (by intro hh; rw [hcur'.1]; exact hpre hh) hw
          refine ⟨max m1 m2 + 1, σ1', o', ?_, hag2, hp2.rebase hcur'⟩
          rw [exec_while_step htest hv (execB_mono X hx1 (Nat.le_max_left _ _))]
          rcases hob with h | h <;> subst h <;> exact exec_mono X hx2 (Nat.le_max_right _ _)
        cases ob with
        | normal => exact hcontinue (Or.inl rfl) h
        | cont => exact hcontinue (Or.inr rfl) h
        | brk =>
          simp at h; obtain ⟨rfl, rfl⟩ := h
          obtain ⟨hob', hcur⟩ := hp1.normal_cur (Or.inr (Or.inr rfl))
          subst hob'
          refine ⟨m1 + 1, τ1', .normal, by rw [exec_while_step htest hv hx1], hag1, ?_⟩
          exact RPost.unchanged (by simp) (by rw [hcur.1, hcur.2]; exact hsame)
        | ret w =>
          simp at h; obtain ⟨rfl, rfl⟩ := h
          obtain ⟨hh, hob', hone, hval⟩ := hp1.1 w rfl
          subst hob'
          refine ⟨m1 + 2, τ1', .normal, ?_, hag1, ?_⟩
          · rw [exec_while_step htest hv (execB_mono X hx1 (Nat.le_succ _))]
            simp only [retTest, hh, Bool.or_true, if_true]
            exact exec_while_false (evalE_guard_true X c hone) (by simp)
          · refine ⟨fun w' hw' => ?_, fun hne => absurd rfl (hne w), fun hf => by rw [hh] at hf; cases hf⟩
            simp at hw'; subst hw'
            exact ⟨hh, rfl, hone, hval⟩
        | exc e =>
          simp at h; obtain ⟨rfl, rfl⟩ := h
          obtain ⟨hob', _⟩ := hp1.2.1 (by simp)
          subst hob'
          exact ⟨m1 + 1, τ1', _, by rw [exec_while_step htest hv hx1], hag1, hp1.rebase hsame⟩

end

section
variable (dr rv : Name) (X : Ext)

/-- The (re-)evaluation of the extra loop test and the remaining iterations. -/
theorem rsim_forNext (n : Nat) (hF : RSimF dr rv X n)
    (x : Name) (ex : Option Expr) (b : Block) (u : Bool) (items : List Val) {τ τ' σ1 : St} {o : Out}
    (hx : ¬ HidR dr rv x) (hcex : CleanO (HidR dr rv) ex) (hcb : CleanB (HidR dr rv) b) (hfb : finOKB b = true)
    (hag : Agree (HidR dr rv) τ τ')
    (hpre : (u = true ∨ (retB dr rv false false b).2 = true) → τ'.env dr = some (.int 0))
    (h : forNext X n x ex b items τ = some (o, σ1)) :
    ∃ m σ1' o', forNext X m x (retExtra dr (u || (retB dr rv false false b).2) ex)
        (retB dr rv false false b).1 items τ' = some (o', σ1') ∧
      Agree (HidR dr rv) σ1 σ1' ∧ RPost dr rv (retB dr rv false false b).2 o o' τ' σ1' := by
  have hext : (u || (retB dr rv false false b).2) = true → τ'.env dr = some (.int 0) := by
    intro hh; apply hpre; simpa using hh
  cases ex with
  | none =>
    simp only [forNext] at h
    obtain ⟨m, σ1', o', hxf, hag1, hp1⟩ := hF x none b u items τ τ' o σ1 hx hcex hcb hfb hag hpre h
    refine ⟨m, σ1', o', ?_, hag1, hp1⟩
    by_cases hh : (u || (retB dr rv false false b).2) = true
    · have he : retExtra dr (u || (retB dr rv false false b).2) none = some (.not (.var dr)) := by
        simp [retExtra, hh]
      rw [he] at hxf ⊢
      simp only [forNext, evalE_notvar_false X (hext hh), truthy_one, if_true]
      exact hxf
    · have he : retExtra dr (u || (retB dr rv false false b).2) none = none := by
        simp [retExtra, hh]
      rw [he] at hxf ⊢
      exact hxf
  | some t =>
    simp only [CleanO] at hcex
    simp only [forNext] at h
    rcases hr2 : evalE X t τ with ⟨r2, υ⟩
    obtain ⟨υ', hr2', hag2, henv2⟩ := evalE_agree' hcex hag hr2
    rw [hr2] at h
    have hsame : υ'.env dr = τ'.env dr ∧ υ'.env rv = τ'.env rv := by rw [henv2]; exact ⟨rfl, rfl⟩
    have htest : ∃ t', retExtra dr (u || (retB dr rv false false b).2) (some t) = some t' ∧
        evalE X t' τ' = (r2, υ') := by
      by_cases hh : (u || (retB dr rv false false b).2) = true
      · exact ⟨guardE dr t, by simp [retExtra, hh], by rw [evalE_guard_false X t (hext hh)]; exact hr2'⟩
      · exact ⟨t, by simp [retExtra, hh], hr2'⟩
    obtain ⟨t', he, hte⟩ := htest
    cases r2 with
    | error e =>
      simp at h; obtain ⟨rfl, rfl⟩ := h
      refine ⟨0, υ', _, ?_, hag2, RPost.unchanged (by simp) hsame⟩
      rw [he]; simp [forNext, hte]
    | ok tv =>
      simp only at h
      by_cases htv : truthy tv = true
      · rw [if_pos htv] at h
        obtain ⟨m, σ1', o', hxf, hag1, hp1⟩ :=
          hF x (some t) b u items υ υ' o σ1 hx (by simpa [CleanO] using hcex) hcb hfb hag2
            (by intro hh; rw [henv2]; exact hpre hh) h
        refine ⟨m, σ1', o', ?_, hag1, hp1.rebase hsame⟩
        rw [he] at hxf ⊢
        simp only [forNext, hte, if_pos htv]
        exact hxf
      · rw [if_neg htv] at h
        simp at h; obtain ⟨rfl, rfl⟩ := h
        refine ⟨0, υ', _, ?_, hag2, RPost.unchanged (by simp) hsame⟩
        rw [he]; simp [forNext, hte, htv]

/-- With `do_return` set, the extended extra test ends the loop. -/
theorem forNext_retExtra_stop (n : Nat) (x : Name) (ex : Option Expr) (b : Block) (items : List Val) {τ : St}
    (h : τ.env dr = some (.int 1)) :
    forNext X n x (retExtra dr true ex) b items τ = some (.normal, τ) := by
  cases ex with
  | none => simp [retExtra, forNext, evalE_notvar_true X h]
  | some t => simp [retExtra, forNext, evalE_guard_true X t h]

theorem rsimF_step (n : Nat) (hB : RSimB dr rv X n) (hF : RSimF dr rv X n) : RSimF dr rv X (n+1) := by
  intro x ex b u items σ σ' o σ1 hx hcex hcb hfb hag hpre h
  cases items with
  | nil =>
    simp [execFor] at h; obtain ⟨rfl, rfl⟩ := h
    exact ⟨1, σ', .normal, by simp [execFor], hag, RPost.unchanged (by simp) ⟨rfl, rfl⟩⟩
  | cons v items =>
    cases hb : execB X n b (σ.set x v) with
    | none => rw [execFor_cons_none hb] at h; simp at h
    | some rb =>
      obtain ⟨ob, τ1⟩ := rb
      rw [execFor_cons hb] at h
      have hxdr : dr ≠ x := fun he => hx (Or.inl he.symm)
      have hxrv : rv ≠ x := fun he => hx (Or.inr he.symm)
      have hsame0 : (σ'.set x v).env dr = σ'.env dr ∧ (σ'.set x v).env rv = σ'.env rv :=
        ⟨St.set_env_ne _ _ hxdr, St.set_env_ne _ _ hxrv⟩
      obtain ⟨m1, τ1', ob', hx1, hag1, hp1⟩ :=
        hB b false false _ _ ob τ1 hcb hfb (hag.set x v)
          (by intro hh; rcases hh with hh | hh | hh
              · cases hh
              · cases hh
              · rw [hsame0.1]; exact hpre (Or.inr hh)) hb
      have hcontinue : (ob = .normal ∨ ob = .cont) → forNext X n x ex b items τ1 = some (o, σ1) →
          ∃ m σ1' o', execFor X m x (retExtra dr (u || (retB dr rv false false b).2) ex)
              (retB dr rv false false b).1 (v :: items) σ' = some (o', σ1') ∧
            Agree (HidR dr rv) σ1 σ1' ∧ RPost dr rv (retB dr rv false false b).2 o o' σ' σ1' := by
        intro hob hw
        obtain ⟨hob', hcur⟩ := hp1.normal_cur (by rcases hob with h | h <;> simp [h])
        subst hob'
        have hcur' : τ1'.env dr = σ'.env dr ∧ τ1'.env rv = σ'.env rv := by
          rw [hcur.1, hcur.2]; exact hsame0
        obtain ⟨m2, σ1', o', hx2, hag2, hp2⟩ :=
          rsim_forNext dr rv X n hF x ex b u items hx hcex hcb hfb hag1
            (by intro hh; rw [hcur'.1]; exact hpre hh) hw
        refine ⟨max m1 m2 + 1, σ1', o', ?_, hag2, hp2.rebase hcur'⟩
        rw [execFor_cons (execB_mono X hx1 (Nat.le_max_left _ _))]
        rcases hob with h | h <;> subst h <;> exact forNext_mono X hx2 (Nat.le_max_right _ _)
      cases ob with
      | normal => exact hcontinue (Or.inl rfl) h
      | cont => exact hcontinue (Or.inr rfl) h
      | brk =>
        simp at h; obtain ⟨rfl, rfl⟩ := h
        obtain ⟨hob', hcur⟩ := hp1.normal_cur (Or.inr (Or.inr rfl))
        subst hob'
        refine ⟨m1 + 1, τ1', .normal, by rw [execFor_cons hx1], hag1, ?_⟩
        exact RPost.unchanged (by simp) (by rw [hcur.1, hcur.2]; exact hsame0)
      | ret w =>
        simp at h; obtain ⟨rfl, rfl⟩ := h
        obtain ⟨hh, hob', hone, hval⟩ := hp1.1 w rfl
        subst hob'
        refine ⟨m1 + 1, τ1', .normal, ?_, hag1, ?_⟩
        · rw [execFor_cons hx1]
          simp only [hh, Bool.or_true]
          exact forNext_retExtra_stop dr X m1 x ex _ items hone
        · refine ⟨fun w' hw' => ?_, fun hne => absurd rfl (hne w), fun hf => by rw [hh] at hf; cases hf⟩
          simp at hw'; subst hw'
          exact ⟨hh, rfl, hone, hval⟩
      | exc e =>
        simp at h; obtain ⟨rfl, rfl⟩ := h
        obtain ⟨hob', _⟩ := hp1.2.1 (by simp)
        subst hob'
        exact ⟨m1 + 1, τ1', _, by rw [execFor_cons hx1], hag1, hp1.rebase hsame0⟩

end

section
variable (dr rv : Name) (X : Ext)

/-- The handler step of a lowered `try`. -/
theorem rsim_afterH (n : Nat) (hB : RSimB dr rv X n) (hs : List (Nat × Block))
    (hch : CleanH (HidR dr rv) hs) (hfh : finOKH hs = true)
    {hitb : Bool} {ob ob' oa : Out} {σ' τ τ' τa : St}
    (hpre : (retH dr rv hs).2 = true → σ'.env dr = some (.int 0))
    (hag : Agree (HidR dr rv) τ τ') (hp : RPost dr rv hitb ob ob' σ' τ')
    (ha : afterH X n hs (ob, τ) = some (oa, τa)) :
    ∃ m τa' oa', afterH X m (retH dr rv hs).1 (ob', τ') = some (oa', τa') ∧
      Agree (HidR dr rv) τa τa' ∧ RPost dr rv (hitb || (retH dr rv hs).2) oa oa' σ' τa' := by
  have hpass : (∀ ex, ob' ≠ .exc ex) → (oa, τa) = (ob, τ) →
      ∃ m τa' oa', afterH X m (retH dr rv hs).1 (ob', τ') = some (oa', τa') ∧
      Agree (HidR dr rv) τa τa' ∧ RPost dr rv (hitb || (retH dr rv hs).2) oa oa' σ' τa' := by
    intro hne heq
    simp at heq; obtain ⟨rfl, rfl⟩ := heq
    refine ⟨1, τ', ob', ?_, hag, hp.mono (by intro h; simp [h])⟩
    cases ob' with
    | exc ex => exact absurd rfl (hne ex)
    | _ => simp [afterH]
  cases ob with
  | exc ex =>
    obtain ⟨hob', hfl⟩ := hp.2.1 (by simp)
    subst hob'
    simp only [afterH] at ha
    cases hf : findHandler hs ex with
    | none =>
      rw [hf] at ha; simp at ha; obtain ⟨rfl, rfl⟩ := ha
      refine ⟨1, τ', .exc ex, ?_, hag, hp.mono (by intro h; simp [h])⟩
      simp [afterH, retH_find_none dr rv ex hs hf]
    | some hbk =>
      rw [hf] at ha; simp only at ha
      obtain ⟨hfind, hhit⟩ := retH_find dr rv ex hs hbk hf
      have hcur : τ'.env dr = σ'.env dr ∧ τ'.env rv = σ'.env rv := by
        rcases hfl with hfl | hfl
        · exact hfl
        · rw [findHandler_fatal hfl] at hf; cases hf
      have hhit' : (retB dr rv false false hbk).2 = true → (retH dr rv hs).2 = true := by
        intro h
        cases hh : (retH dr rv hs).2 with
        | true => rfl
        | false => rw [hhit hh] at h; cases h
      obtain ⟨m2, τa', oa', hx2, hag2, hp2⟩ :=
        hB hbk false false τ τ' oa τa (CleanH_find hch hf) (finOKH_find hfh hf) hag
          (by intro h; rcases h with h | h | h
              · cases h
              · cases h
              · rw [hcur.1]; exact hpre (hhit' h)) ha
      refine ⟨m2, τa', oa', ?_, hag2, (hp2.rebase hcur).mono ?_⟩
      · simp only [afterH, hfind]; exact hx2
      · intro h; simp [hhit' h]
  | normal =>
    simp [afterH] at ha
    exact hpass (by intro ex; rw [(hp.2.1 (by simp)).1]; simp) (by simp [ha])
  | brk =>
    simp [afterH] at ha
    exact hpass (by intro ex; rw [(hp.2.1 (by simp)).1]; simp) (by simp [ha])
  | cont =>
    simp [afterH] at ha
    exact hpass (by intro ex; rw [(hp.2.1 (by simp)).1]; simp) (by simp [ha])
  | ret v =>
    simp [afterH] at ha
    exact hpass (by intro ex; rw [(hp.1 v rfl).2.1]; simp) (by simp [ha])

/-- The `finally` step of a lowered `try`. -/
theorem rsim_finish (n : Nat) (hB : RSimB dr rv X n) (fin : Block)
    (hcf : CleanB (HidR dr rv) fin) (hff : finOKB fin = true) (hjf : escFreeB fin = true)
    {hit : Bool} {oa oa' o : Out} {σ' τa τa' σ1 : St}
    (hq : quietB fin = true ∨ hit = false)
    (hag : Agree (HidR dr rv) τa τa') (hp : RPost dr rv hit oa oa' σ' τa')
    (hfin : finish X n fin (oa, τa) = some (o, σ1)) :
    ∃ m σ1' o', finish X m (retB dr rv false false fin).1 (oa', τa') = some (o', σ1') ∧
      Agree (HidR dr rv) σ1 σ1' ∧ RPost dr rv (hit || (retB dr rv false false fin).2) o o' σ' σ1' := by
  obtain ⟨of, σf, hf, hcase⟩ := finish_some hfin
  have hhitf : (retB dr rv false false fin).2 = false := by
    rw [retB_hit]
    simp only [escFreeB, Bool.and_eq_true, Bool.not_eq_true'] at hjf
    exact hjf.2
  obtain ⟨m, σf', of', hxf, hagf, hpf⟩ :=
    hB fin false false τa τa' of σf hcf hff hag
      (by intro h; rcases h with h | h | h
          · cases h
          · cases h
          · rw [hhitf] at h; cases h) hf
  have hcurf : σf'.env dr = τa'.env dr ∧ σf'.env rv = τa'.env rv := hpf.2.2 hhitf
  have hofr : ∀ v, of ≠ .ret v := by
    intro v
    rcases escFreeB_outcome X hjf hf with h | ⟨e, h⟩ <;> simp [h]
  obtain ⟨hof', _⟩ := hpf.2.1 hofr
  rw [hof'] at hxf
  rw [hhitf, Bool.or_false]
  rcases hcase with ⟨hn, heq⟩ | ⟨hn, heq⟩
  · subst hn; simp at heq; obtain ⟨rfl, rfl⟩ := heq
    refine ⟨m, σf', oa', finish_of_normal hxf, hagf, ?_⟩
    refine ⟨fun v hb => ?_, fun hb => ?_, fun hh => ?_⟩
    · obtain ⟨a, b, c, d⟩ := hp.1 v hb; exact ⟨a, b, by rw [hcurf.1]; exact c, by rw [hcurf.2]; exact d⟩
    · obtain ⟨a, b⟩ := hp.2.1 hb; exact ⟨a, by rw [hcurf.1, hcurf.2]; exact b⟩
    · rw [hcurf.1, hcurf.2]; exact hp.2.2 hh
  · simp at heq; obtain ⟨rfl, rfl⟩ := heq
    refine ⟨m, σf', _, finish_of_abrupt hxf hn, hagf, ?_⟩
    refine ⟨fun v hb => absurd hb (hofr v), fun _ => ⟨rfl, ?_⟩, fun hh => ?_⟩
    · rcases hq with hq | hq
      · rcases quietB_outcome X hq hf with h | h
        · exact absurd h hn
        · exact Or.inr h
      · exact Or.inl (by rw [hcurf.1, hcurf.2]; exact hp.2.2 hq)
    · rw [hcurf.1, hcurf.2]; exact hp.2.2 hh

theorem rsim_atomic (s : Stmt) (u : Bool) (n : Nat) (σ σ' : St) (o : Out) (σ1 : St)
    (hlow : retS dr rv u s = ([s], false)) (hc : CleanS (HidR dr rv) s) (hag : Agree (HidR dr rv) σ σ')
    (h : exec X n s σ = some (o, σ1)) (ho : ∀ v, o ≠ .ret v) :
    ∃ m σ1' o', execB X m (retS dr rv u s).1 σ' = some (o', σ1') ∧ Agree (HidR dr rv) σ1 σ1' ∧
      RPost dr rv (retS dr rv u s).2 o o' σ' σ1' := by
  obtain ⟨σ1', hx, hag1, hh⟩ := exec_agree X (HidR dr rv) hc hag h
  rw [hlow]
  exact ⟨n + 1, σ1', o, execB_singleton hx, hag1, RPost.same ho ⟨hh _ (Or.inl rfl), hh _ (Or.inr rfl)⟩⟩

theorem rsimS_step (hne : dr ≠ rv) (n : Nat)
    (hB : RSimB dr rv X n) (hW : RSimW dr rv X (n+1)) (hF : RSimF dr rv X n) : RSimS dr rv X (n+1) := by
  intro s u σ σ' o σ1 hc hf hag hpre h
  cases s with
  | ret e =>
    simp only [CleanS] at hc
    have hag0 : Agree (HidR dr rv) σ (σ'.set dr (.int 1)) := hag.setHidden (Or.inl rfl) _
    have hlow : retS dr rv u (.ret e) = ([.assign dr cTrue, .assign rv (e.getD cNone)], true) := by
      simp [retS]
    rw [hlow]
    have hdr : exec X 1 (.assign dr cTrue) σ' = some (.normal, σ'.set dr (.int 1)) := by
      simp [exec, evalE, cTrue]
    cases e with
    | none =>
      simp [exec] at h; obtain ⟨rfl, rfl⟩ := h
      refine ⟨3, (σ'.set dr (.int 1)).set rv .none, .normal, ?_, (hag0.setHidden (Or.inr rfl) _), ?_⟩
      · simp [execB, exec, evalE, cTrue, cNone]
      · refine ⟨fun v hv => ?_, fun hn => absurd rfl (hn .none), fun hh => by cases hh⟩
        simp at hv; subst hv
        exact ⟨rfl, rfl, by rw [St.set_env_ne _ _ hne]; simp, by simp⟩
    | some e =>
      simp only [CleanO] at hc
      simp only [exec] at h
      rcases hr : evalE X e σ with ⟨r, τ⟩
      obtain ⟨τ', hr', hag', henv⟩ := evalE_agree' hc hag0 hr
      rw [hr] at h
      cases r with
      | error ex =>
        simp at h; obtain ⟨rfl, rfl⟩ := h
        refine ⟨3, τ', .exc ex, ?_, hag', ?_⟩
        · simp [execB, exec, evalE, cTrue, hr']
        · exact ⟨fun v hv => (by cases hv), fun _ => ⟨rfl, Or.inr (evalE_err_fatal X e σ _ _ hr)⟩,
            fun hh => by cases hh⟩
      | ok v =>
        simp at h; obtain ⟨rfl, rfl⟩ := h
        refine ⟨3, τ'.set rv v, .normal, ?_, hag'.setHidden (Or.inr rfl) _, ?_⟩
        · simp [execB, exec, evalE, cTrue, hr']
        · refine ⟨fun w hw => ?_, fun hn => absurd rfl (hn v), fun hh => by cases hh⟩
          simp at hw; subst hw
          exact ⟨rfl, rfl, by rw [St.set_env_ne _ _ hne, henv]; simp, by simp⟩
  | brk =>
    have h' := h
    simp [exec] at h
    exact rsim_atomic dr rv X .brk u (n+1) σ σ' o σ1 (by simp [retS]) hc hag h' (by simp [← h.1])
  | cont =>
    have h' := h
    simp [exec] at h
    exact rsim_atomic dr rv X .cont u (n+1) σ σ' o σ1 (by simp [retS]) hc hag h' (by simp [← h.1])
  | pass =>
    have h' := h
    simp [exec] at h
    exact rsim_atomic dr rv X .pass u (n+1) σ σ' o σ1 (by simp [retS]) hc hag h' (by simp [← h.1])
  | raise t =>
    have h' := h
    simp [exec] at h
    exact rsim_atomic dr rv X (.raise t) u (n+1) σ σ' o σ1 (by simp [retS]) hc hag h' (by simp [← h.1])
  | assign x e =>
    have h' := h
    simp only [exec] at h
    have ho : ∀ v, o ≠ .ret v := by intro v; split at h <;> simp at h <;> simp [← h.1]
    exact rsim_atomic dr rv X (.assign x e) u (n+1) σ σ' o σ1 (by simp [retS]) hc hag h' ho
  | expr e =>
    have h' := h
    simp only [exec] at h
    have ho : ∀ v, o ≠ .ret v := by intro v; split at h <;> simp at h <;> simp [← h.1]
    exact rsim_atomic dr rv X (.expr e) u (n+1) σ σ' o σ1 (by simp [retS]) hc hag h' ho
  | ifS c t e =>
    simp only [CleanS] at hc
    simp only [finOKS, Bool.and_eq_true] at hf
    simp only [exec] at h
    rcases hr : evalE X c σ with ⟨r, τ⟩
    obtain ⟨τ', hr', hag', henv⟩ := evalE_agree' hc.1 hag hr
    rw [hr] at h
    have hhit : (retS dr rv u (.ifS c t e)).2 =
        ((retB dr rv false false t).2 || (retB dr rv false false e).2) := by simp [retS]
    have hsame : τ'.env dr = σ'.env dr ∧ τ'.env rv = σ'.env rv := by rw [henv]; exact ⟨rfl, rfl⟩
    simp only [retS]
    cases r with
    | error ex =>
      simp at h; obtain ⟨rfl, rfl⟩ := h
      refine ⟨2, τ', .exc ex, ?_, hag', RPost.unchanged (by simp) hsame⟩
      simp [execB, exec, hr']
    | ok v =>
      simp only at h
      by_cases hv : truthy v = true
      · rw [if_pos hv] at h
        obtain ⟨m, σ1', o', hx, hag1, hp1⟩ :=
          hB t false false τ τ' o σ1 hc.2.1 hf.1 hag'
            (by intro hh; rcases hh with hh | hh | hh
                · cases hh
                · cases hh
                · rw [henv]; apply hpre; right; rw [hhit, hh]; rfl) h
        refine ⟨m + 2, σ1', o', ?_, hag1, (hp1.rebase hsame).mono (by intro h; simp [h])⟩
        apply execB_singleton (n := m + 1)
        simp only [exec, hr', if_pos hv]
        exact hx
      · rw [if_neg hv] at h
        obtain ⟨m, σ1', o', hx, hag1, hp1⟩ :=
          hB e false false τ τ' o σ1 hc.2.2 hf.2 hag'
            (by intro hh; rcases hh with hh | hh | hh
                · cases hh
                · cases hh
                · rw [henv]; apply hpre; right; rw [hhit, hh]; simp) h
        refine ⟨m + 2, σ1', o', ?_, hag1, (hp1.rebase hsame).mono (by intro h; simp [h])⟩
        apply execB_singleton (n := m + 1)
        simp only [exec, hr', if_neg hv]
        exact hx
  | whileS c b =>
    simp only [CleanS] at hc
    simp only [finOKS] at hf
    have hlow : retS dr rv u (.whileS c b) =
        ([.whileS (retTest dr (u || (retB dr rv false false b).2) c) (retB dr rv false false b).1],
          (retB dr rv false false b).2) := by simp [retS]
    rw [hlow]
    obtain ⟨m, σ1', o', hx, hag1, hp1⟩ := hW c b u σ σ' o σ1 hc.1 hc.2 hf hag
      (by intro hh; apply hpre; rw [hlow]; exact hh) h
    exact ⟨m + 1, σ1', o', execB_singleton hx, hag1, hp1⟩
  | forS x it extra b =>
    simp only [CleanS] at hc
    obtain ⟨hx, hcit, hcex, hcb⟩ := hc
    simp only [finOKS] at hf
    have hlow : retS dr rv u (.forS x it extra b) =
        ([.forS x it (retExtra dr (u || (retB dr rv false false b).2) extra) (retB dr rv false false b).1],
          (retB dr rv false false b).2) := by simp [retS]
    rw [hlow]
    have hpre' : (u = true ∨ (retB dr rv false false b).2 = true) → σ'.env dr = some (.int 0) := by
      intro hh; apply hpre; rw [hlow]; exact hh
    rw [exec_for_eq] at h
    rcases hr : evalE X it σ with ⟨r, τ⟩
    obtain ⟨τ', hr', hag', henv⟩ := evalE_agree' hcit hag hr
    rw [hr] at h
    have hsame : τ'.env dr = σ'.env dr ∧ τ'.env rv = σ'.env rv := by rw [henv]; exact ⟨rfl, rfl⟩
    cases r with
    | error ex =>
      simp at h; obtain ⟨rfl, rfl⟩ := h
      refine ⟨2, τ', .exc ex, ?_, hag', RPost.unchanged (by simp) hsame⟩
      apply execB_singleton (n := 1)
      rw [exec_for_eq, hr']
    | ok v =>
      simp only at h
      cases hit : iterItems v with
      | error ex =>
        rw [hit] at h; simp at h; obtain ⟨rfl, rfl⟩ := h
        refine ⟨2, τ', .exc ex, ?_, hag', RPost.unchanged (by simp) hsame⟩
        apply execB_singleton (n := 1)
        rw [exec_for_eq, hr']; simp [hit]
      | ok items =>
        rw [hit] at h; simp only at h
        obtain ⟨m, σ1', o', hxn, hag1, hp1⟩ :=
          rsim_forNext dr rv X n hF x extra b u items hx hcex hcb hf hag'
            (by intro hh; rw [henv]; exact hpre' hh) h
        refine ⟨m + 2, σ1', o', ?_, hag1, hp1.rebase hsame⟩
        apply execB_singleton (n := m + 1)
        rw [exec_for_eq, hr']; simp only [hit]
        exact hxn
  | tryS body hs fin =>
    simp only [CleanS] at hc
    obtain ⟨hcb, hch, hcf⟩ := hc
    simp only [finOKS, Bool.and_eq_true] at hf
    obtain ⟨⟨⟨⟨hfb, hfh⟩, hff⟩, hjf⟩, hq⟩ := hf
    have hhit : (retS dr rv u (.tryS body hs fin)).2 =
        ((retB dr rv false false body).2 || (retH dr rv hs).2 || (retB dr rv false false fin).2) := by
      simp [retS]
    obtain ⟨⟨ob, τ⟩, ⟨oa, τa⟩, hb, ha, hfin⟩ := exec_try_inv h
    obtain ⟨m1, τ', ob', hx1, hag1, hp1⟩ :=
      hB body false false σ σ' ob τ hcb hfb hag
        (by intro hh; rcases hh with hh | hh | hh
            · cases hh
            · cases hh
            · apply hpre; right; rw [hhit, hh]; rfl) hb
    obtain ⟨m2, τa', oa', hx2, hag2, hp2⟩ :=
      rsim_afterH dr rv X n hB hs hch hfh
        (by intro hh; apply hpre; right; rw [hhit, hh]; simp) hag1 hp1 ha
    have hq' : quietB fin = true ∨
        ((retB dr rv false false body).2 || (retH dr rv hs).2) = false := by
      simp only [Bool.or_eq_true, Bool.and_eq_true] at hq
      rcases hq with hq | hq
      · exact Or.inl hq
      · exact Or.inr (by simp [retB_jumpFree dr rv _ _ body hq.1, retH_jumpFree dr rv hs hq.2])
    obtain ⟨m3, σ1', o', hx3, hag3, hp3⟩ :=
      rsim_finish dr rv X n hB fin hcf hff hjf hq' hag2 hp2 hfin
    refine ⟨max m1 (max m2 m3) + 1 + 1, σ1', o', ?_, hag3, ?_⟩
    · simp only [retS]
      exact execB_singleton (exec_try_of X hx1 hx2 hx3)
    · rw [hhit]; exact hp3
  | withS tag body =>
    simp only [CleanS] at hc
    simp only [finOKS] at hf
    simp only [exec] at h
    cases hb : execB X n body (σ.push (.enter tag)) with
    | none => simp [hb] at h
    | some rb =>
      obtain ⟨ob, τ⟩ := rb
      rw [hb] at h
      simp at h; obtain ⟨rfl, rfl⟩ := h
      obtain ⟨m, τ', ob', hx, hag1, hp1⟩ :=
        hB body false false _ _ ob τ hc hf (hag.push (.enter tag))
          (by intro hh; rcases hh with hh | hh | hh
              · cases hh
              · cases hh
              · simp only [St.push_env]; apply hpre; right; simpa [retS] using hh) hb
      refine ⟨m + 2, τ'.push (.exit tag), ob', ?_, hag1.push _, ?_⟩
      · simp only [retS]
        apply execB_singleton (n := m + 1)
        simp only [exec, hx]
      · simpa [retS, RPost] using hp1

theorem rsim_all (hne : dr ≠ rv) :
    ∀ n, RSimS dr rv X n ∧ RSimB dr rv X n ∧ RSimW dr rv X n ∧ RSimF dr rv X n := by
  intro n
  induction n with
  | zero =>
    refine ⟨?_, ?_, ?_, ?_⟩
    · intro s u σ σ' o σ1 _ _ _ _ h; simp [exec] at h
    · intro b g u σ σ' o σ1 _ _ _ _ h; simp [execB] at h
    · intro c b u σ σ' o σ1 _ _ _ _ _ h; simp [exec] at h
    · intro x ex b u items σ σ' o σ1 _ _ _ _ _ _ h; simp [execFor] at h
  | succ n ih =>
    obtain ⟨hS, hB, hW, hF⟩ := ih
    have hW1 := rsimW_step dr rv X n hB hW
    exact ⟨rsimS_step dr rv X hne n hB hW1 hF, rsimB_step dr rv X n hS hB, hW1, rsimF_step dr rv X n hB hF⟩

end

/-- What the caller of a function sees: falling off the end returns `None`. -/
def fnResult : Out → Out
  | .normal => .ret .none
  | o => o

section
variable (dr rv : Name) (X : Ext)

/-- Return lowering preserves the behaviour of a function body, as seen by the caller. -/
theorem lowerReturn_correct (hne : dr ≠ rv) (body : Block)
    (hclean : CleanB (HidR dr rv) body) (hfrag : finOKB body = true)
    (n : Nat) (σ : St) (o : Out) (σ1 : St) (h : execB X n body σ = some (o, σ1)) :
    ∃ m σ1' o', execB X m (lowerReturn dr rv body) σ = some (o', σ1') ∧ fnResult o' = fnResult o ∧
      Agree (HidR dr rv) σ1 σ1' := by
  by_cases hu : (retB dr rv false false body).2 = true
  · -- a return occurs: initialisation, lowered body, final return
    let σ0 := (σ.set dr (.int 0)).set rv .none
    have hag0 : Agree (HidR dr rv) σ σ0 :=
      ((Agree.refl _ σ).setHidden (Or.inl rfl) _).setHidden (Or.inr rfl) _
    have hdr0 : σ0.env dr = some (.int 0) := by
      show ((σ.set dr (.int 0)).set rv .none).env dr = _
      rw [St.set_env_ne _ _ hne]; simp
    have hrv0 : σ0.env rv = some .none := by
      show ((σ.set dr (.int 0)).set rv .none).env rv = _
      simp
    obtain ⟨m, σ1', o', hx, hag, hp⟩ :=
      (rsim_all dr rv X hne n).2.1 body false false σ σ0 o σ1 hclean hfrag hag0 (fun _ => hdr0) h
    have hinit : execB X 3 [.assign dr cFalse, .assign rv cNone] σ = some (.normal, σ0) := by
      simp [execB, exec, evalE, cFalse, cNone, σ0]
    have hlow : lowerReturn dr rv body =
        [.assign dr cFalse, .assign rv cNone] ++ ((retB dr rv false false body).1 ++ [.ret (some (.var rv))]) := by
      simp [lowerReturn, hu]
    rw [hlow]
    by_cases hor : ∃ v, o = .ret v
    · obtain ⟨v, rfl⟩ := hor
      obtain ⟨_, ho', _, hval⟩ := hp.1 v rfl
      subst ho'
      have hfinal : execB X 2 [.ret (some (.var rv))] σ1' = some (.ret v, σ1') := by
        simp [execB, exec, evalE, hval]
      exact ⟨3 + (m + 2), σ1', .ret v, execB_append hinit (execB_append hx hfinal), rfl, hag⟩
    · have hor' : ∀ v, o ≠ .ret v := fun v hv => hor ⟨v, hv⟩
      obtain ⟨ho', hcur⟩ := hp.2.1 hor'
      subst ho'
      by_cases hn : o' = .normal
      · subst hn
        have hval : σ1'.env rv = some .none := by
          rcases hcur with hcur | hcur
          · rw [hcur.2]; exact hrv0
          · exact absurd hcur (by simp [Out.fatal])
        have hfinal : execB X 2 [.ret (some (.var rv))] σ1' = some (.ret .none, σ1') := by
          simp [execB, exec, evalE, hval]
        exact ⟨3 + (m + 2), σ1', .ret .none, execB_append hinit (execB_append hx hfinal), rfl, hag⟩
      · exact ⟨3 + m, σ1', o', execB_append hinit (execB_append_abrupt _ hx hn), rfl, hag⟩
  · have hu' : (retB dr rv false false body).2 = false := by simpa using hu
    obtain ⟨m, σ1', o', hx, hag, hp⟩ :=
      (rsim_all dr rv X hne n).2.1 body false false σ σ o σ1 hclean hfrag (Agree.refl _ σ)
        (by intro hh; rcases hh with hh | hh | hh
            · cases hh
            · cases hh
            · rw [hu'] at hh; cases hh) h
    have hor' : ∀ v, o ≠ .ret v := by
      intro v hv
      have := (hp.1 v hv).1
      rw [hu'] at this; cases this
    refine ⟨m, σ1', o', ?_, by rw [(hp.2.1 hor').1], hag⟩
    simpa [lowerReturn, hu'] using hx

end

end Malt.Sem.Jumps
