import MaltModel.Func.Wrapper
import MaltModel.Proofs.FuncSim
import MaltModel.Proofs.FuncCheck
/-!
Proofs for the function wrapper (`Func/Wrapper.lean`).

Part A — the return-value placeholder.  The lowered body initialises `retval_` and never reads it; the final
`return fscope.ret(retval_, …)` maps the placeholder to `None`.  At the level of `Malt.Sem` (where the jump-lowering
model writes `retval_ = None`): running the body from a state where `retval_` is *unbound* instead gives the same
outcome, log and variables, and `retval_` is either the same or still unbound where the other run has `None`.

Part B — `execN` never unbinds a bound slot of the current frame (so `retval_`, initialised by the wrapper, is
never unbound when `fscope.ret` reads it); splitting the hypotheses of `control_flow_correct` along `++`.
-/
namespace Malt.Func
open Malt.Sem

/-! ## Part A -/

/-- Equal except possibly at `x`, where the right state may be unbound while the left one holds `None`. -/
def SentRel (x : Name) (σ τ : St) : Prop :=
  (∀ y, y ≠ x → σ.env y = τ.env y) ∧ σ.log = τ.log ∧
  (σ.env x = τ.env x ∨ (σ.env x = some .none ∧ τ.env x = none)) ∧ σ.env x ≠ none

theorem SentRel.of_env {x : Name} {σ τ σ₁ τ₁ : St} (h : SentRel x σ τ) (h1 : σ₁.env = σ.env) (h2 : τ₁.env = τ.env)
    (hl : σ₁.log = τ₁.log) : SentRel x σ₁ τ₁ := by
  refine ⟨fun y hy => by rw [h1, h2]; exact h.1 y hy, hl, ?_, ?_⟩
  · rw [h1, h2]; exact h.2.2.1
  · rw [h1]; exact h.2.2.2

theorem SentRel.set {x : Name} {σ τ : St} (h : SentRel x σ τ) (y : Name) (v : Val) : SentRel x (σ.set y v) (τ.set y v) := by
  refine ⟨fun z hz => ?_, h.2.1, ?_, ?_⟩
  · by_cases hzy : z = y
    · simp [St.set, hzy]
    · simp only [St.set, hzy, if_false]; exact h.1 z hz
  · by_cases hxy : x = y
    · left; simp [St.set, hxy]
    · simp only [St.set, hxy, if_false]; exact h.2.2.1
  · by_cases hxy : x = y
    · simp [St.set, hxy]
    · simp only [St.set, hxy, if_false]; exact h.2.2.2

theorem SentRel.push {x : Name} {σ τ : St} (h : SentRel x σ τ) (e : Event) : SentRel x (σ.push e) (τ.push e) :=
  ⟨h.1, by simp [St.push, h.2.1], h.2.2.1, h.2.2.2⟩

theorem sent_eval (X : Ext) {x : Name} {e : Expr} {σ τ : St} (hx : x ∉ vars e) (h : SentRel x σ τ)
    {r : Except Exc Val} {σ₁ : St} (he : evalE X e σ = (r, σ₁)) :
    ∃ τ₁, evalE X e τ = (r, τ₁) ∧ SentRel x σ₁ τ₁ := by
  have hc := evalE_congr X e σ τ (fun y hy => h.1 y (fun hyx => hx (hyx ▸ hy))) h.2.1
  have e1 := evalE_env X e σ
  have e2 := evalE_env X e τ
  rw [he] at hc e1
  refine ⟨(evalE X e τ).2, ?_, h.of_env e1 e2 hc.2⟩
  exact Prod.ext (by simpa using hc.1.symm) rfl

theorem notin_left {x : Name} {a b : List Name} (h : x ∉ a ++ b) : x ∉ a := fun hh => h (List.mem_append.mpr (Or.inl hh))
theorem notin_right {x : Name} {a b : List Name} (h : x ∉ a ++ b) : x ∉ b := fun hh => h (List.mem_append.mpr (Or.inr hh))

theorem reads_find : ∀ (hs : List (Nat × List AStmt)) (t : Nat) (b : List AStmt), findA hs t = some b → readsB b ⊆ readsH hs
  | [], t, b, h => by simp [findA] at h
  | (t', b') :: r, t, b, h => by
      rw [findA_cons] at h
      cases ht : t' == t with
      | true =>
        simp only [ht, if_true, Option.some.injEq] at h; subst h
        simp only [readsH]; exact List.subset_append_left _ _
      | false =>
        simp only [ht, Bool.false_eq_true, if_false] at h
        simp only [readsH]
        exact fun y hy => List.mem_append.mpr (Or.inr (reads_find r t b h hy))

def SS (X : Ext) (x : Name) (n : Nat) : Prop :=
  ∀ (s : AStmt) (σ τ : St) (o : Out) (σ₁ : St), x ∉ readsS s → SentRel x σ τ → exec X n (eraseS s) σ = some (o, σ₁) →
    ∃ τ₁, exec X n (eraseS s) τ = some (o, τ₁) ∧ SentRel x σ₁ τ₁

def SBk (X : Ext) (x : Name) (n : Nat) : Prop :=
  ∀ (b : ABlock) (σ τ : St) (o : Out) (σ₁ : St), x ∉ readsB b → SentRel x σ τ → execB X n (eraseB b) σ = some (o, σ₁) →
    ∃ τ₁, execB X n (eraseB b) τ = some (o, τ₁) ∧ SentRel x σ₁ τ₁

def SFo (X : Ext) (x : Name) (n : Nat) : Prop :=
  ∀ (y : Name) (extra : Option Expr) (b : ABlock) (items : List Val) (σ τ : St) (o : Out) (σ₁ : St),
    x ∉ varsO extra → x ∉ readsB b → SentRel x σ τ → execFor X n y extra (eraseB b) items σ = some (o, σ₁) →
    ∃ τ₁, execFor X n y extra (eraseB b) items τ = some (o, τ₁) ∧ SentRel x σ₁ τ₁

theorem sS_step (X : Ext) (x : Name) (n : Nat) (hS : SS X x n) (hB : SBk X x n) (hF : SFo X x n) : SS X x (n+1) := by
  intro s σ τ o σ₁ hx hr h
  cases s with
  | assign i y e =>
    simp only [readsS] at hx
    simp only [eraseS, exec] at h ⊢
    rcases he : evalE X e σ with ⟨r, σ'⟩
    rw [he] at h
    obtain ⟨τ', ht, hr'⟩ := sent_eval X hx hr he
    rw [ht]
    cases r with
    | error ex => simp only [Option.some.injEq, Prod.mk.injEq] at h; obtain ⟨rfl, rfl⟩ := h; exact ⟨τ', rfl, hr'⟩
    | ok v => simp only [Option.some.injEq, Prod.mk.injEq] at h; obtain ⟨rfl, rfl⟩ := h; exact ⟨τ'.set y v, rfl, hr'.set y v⟩
  | expr i e =>
    simp only [readsS] at hx
    simp only [eraseS, exec] at h ⊢
    rcases he : evalE X e σ with ⟨r, σ'⟩
    rw [he] at h
    obtain ⟨τ', ht, hr'⟩ := sent_eval X hx hr he
    rw [ht]
    cases r <;> (simp only [Option.some.injEq, Prod.mk.injEq] at h; obtain ⟨rfl, rfl⟩ := h; exact ⟨τ', rfl, hr'⟩)
  | pass i => simp only [eraseS, exec, Option.some.injEq, Prod.mk.injEq] at h ⊢; obtain ⟨rfl, rfl⟩ := h; exact ⟨τ, ⟨rfl, rfl⟩, hr⟩
  | raise i t => simp only [eraseS, exec, Option.some.injEq, Prod.mk.injEq] at h ⊢; obtain ⟨rfl, rfl⟩ := h; exact ⟨τ, ⟨rfl, rfl⟩, hr⟩
  | ret i e =>
    cases e with
    | none => simp only [eraseS, exec, Option.some.injEq, Prod.mk.injEq] at h ⊢; obtain ⟨rfl, rfl⟩ := h; exact ⟨τ, ⟨rfl, rfl⟩, hr⟩
    | some e =>
      simp only [readsS, varsO] at hx
      simp only [eraseS, exec] at h ⊢
      rcases he : evalE X e σ with ⟨r, σ'⟩
      rw [he] at h
      obtain ⟨τ', ht, hr'⟩ := sent_eval X hx hr he
      rw [ht]
      cases r <;> (simp only [Option.some.injEq, Prod.mk.injEq] at h; obtain ⟨rfl, rfl⟩ := h; exact ⟨τ', rfl, hr'⟩)
  | ifS i c t e =>
    simp only [readsS] at hx
    simp only [eraseS, exec] at h ⊢
    rcases he : evalE X c σ with ⟨r, σ'⟩
    rw [he] at h
    obtain ⟨τ', ht, hr'⟩ := sent_eval X (notin_left hx) hr he
    rw [ht]
    cases r with
    | error ex => simp only [Option.some.injEq, Prod.mk.injEq] at h; obtain ⟨rfl, rfl⟩ := h; exact ⟨τ', rfl, hr'⟩
    | ok v =>
      simp only at h ⊢
      by_cases hv : truthy v = true
      · rw [if_pos hv] at h ⊢; exact hB t σ' τ' o σ₁ (notin_left (notin_right hx)) hr' h
      · rw [if_neg hv] at h ⊢; exact hB e σ' τ' o σ₁ (notin_right (notin_right hx)) hr' h
  | whileS i c b =>
    have hx0 := hx
    simp only [readsS] at hx
    simp only [eraseS, exec] at h ⊢
    rcases he : evalE X c σ with ⟨r, σ'⟩
    rw [he] at h
    obtain ⟨τ', ht, hr'⟩ := sent_eval X (notin_left hx) hr he
    rw [ht]
    cases r with
    | error ex => simp only [Option.some.injEq, Prod.mk.injEq] at h; obtain ⟨rfl, rfl⟩ := h; exact ⟨τ', rfl, hr'⟩
    | ok v =>
      simp only at h ⊢
      by_cases hv : (!truthy v) = true
      · rw [if_pos hv] at h ⊢
        simp only [Option.some.injEq, Prod.mk.injEq] at h; obtain ⟨rfl, rfl⟩ := h; exact ⟨τ', rfl, hr'⟩
      · rw [if_neg hv] at h ⊢
        cases hb : execB X n (eraseB b) σ' with
        | none => simp [hb] at h
        | some rb =>
          obtain ⟨ob, σb⟩ := rb
          rw [hb] at h
          obtain ⟨τb, htb, hrb⟩ := hB b σ' τ' ob σb (notin_right hx) hr' hb
          rw [htb]
          have again : exec X n (.whileS c (eraseB b)) σb = some (o, σ₁) →
              ∃ τ₁, exec X n (.whileS c (eraseB b)) τb = some (o, τ₁) ∧ SentRel x σ₁ τ₁ :=
            fun hh => hS (.whileS i c b) σb τb o σ₁ hx0 hrb (by simpa [eraseS] using hh)
          cases ob with
          | normal => simp only at h ⊢; obtain ⟨τ₁, h1, h2⟩ := again h; exact ⟨τ₁, by simpa [eraseS] using h1, h2⟩
          | cont => simp only at h ⊢; obtain ⟨τ₁, h1, h2⟩ := again h; exact ⟨τ₁, by simpa [eraseS] using h1, h2⟩
          | brk => simp only [Option.some.injEq, Prod.mk.injEq] at h ⊢; obtain ⟨rfl, rfl⟩ := h; exact ⟨τb, ⟨rfl, rfl⟩, hrb⟩
          | ret v' => simp only [Option.some.injEq, Prod.mk.injEq] at h ⊢; obtain ⟨rfl, rfl⟩ := h; exact ⟨τb, ⟨rfl, rfl⟩, hrb⟩
          | exc e' => simp only [Option.some.injEq, Prod.mk.injEq] at h ⊢; obtain ⟨rfl, rfl⟩ := h; exact ⟨τb, ⟨rfl, rfl⟩, hrb⟩
  | forS i y it extra b =>
    simp only [readsS] at hx
    simp only [eraseS, exec] at h ⊢
    rcases he : evalE X it σ with ⟨r, σ'⟩
    rw [he] at h
    obtain ⟨τ', ht, hr'⟩ := sent_eval X (notin_left hx) hr he
    rw [ht]
    cases r with
    | error ex => simp only [Option.some.injEq, Prod.mk.injEq] at h; obtain ⟨rfl, rfl⟩ := h; exact ⟨τ', rfl, hr'⟩
    | ok v =>
      simp only at h ⊢
      cases hi : iterItems v with
      | error ex => rw [hi] at h; simp only [Option.some.injEq, Prod.mk.injEq] at h ⊢; obtain ⟨rfl, rfl⟩ := h; exact ⟨τ', ⟨rfl, rfl⟩, hr'⟩
      | ok items =>
        rw [hi] at h; simp only at h ⊢
        have hxe := notin_left (notin_right hx)
        have hxb := notin_right (notin_right hx)
        cases extra with
        | none => simp only at h ⊢; exact hF y none b items σ' τ' o σ₁ hxe hxb hr' h
        | some t =>
          simp only at h ⊢
          rcases het : evalE X t σ' with ⟨rt, σ''⟩
          rw [het] at h
          obtain ⟨τ'', ht2, hr''⟩ := sent_eval X (by simpa [varsO] using hxe) hr' het
          rw [ht2]
          cases rt with
          | error ex => simp only [Option.some.injEq, Prod.mk.injEq] at h ⊢; obtain ⟨rfl, rfl⟩ := h; exact ⟨τ'', ⟨rfl, rfl⟩, hr''⟩
          | ok tv =>
            simp only at h ⊢
            by_cases htv : truthy tv = true
            · rw [if_pos htv] at h ⊢; exact hF y (some t) b items σ'' τ'' o σ₁ hxe hxb hr'' h
            · rw [if_neg htv] at h ⊢
              simp only [Option.some.injEq, Prod.mk.injEq] at h ⊢; obtain ⟨rfl, rfl⟩ := h; exact ⟨τ'', ⟨rfl, rfl⟩, hr''⟩
  | withS i tag b =>
    simp only [readsS] at hx
    simp only [eraseS, exec] at h ⊢
    cases hb : execB X n (eraseB b) (σ.push (.enter tag)) with
    | none => simp [hb] at h
    | some rb =>
      obtain ⟨ob, σb⟩ := rb
      rw [hb] at h
      obtain ⟨τb, htb, hrb⟩ := hB b _ _ ob σb hx (hr.push (.enter tag)) hb
      rw [htb]
      simp only [Option.some.injEq, Prod.mk.injEq] at h ⊢; obtain ⟨rfl, rfl⟩ := h
      exact ⟨_, ⟨rfl, rfl⟩, hrb.push _⟩
  | tryS i b hs f =>
    simp only [readsS] at hx
    simp only [eraseS] at h ⊢
    rw [exec_tryS] at h ⊢
    cases hb : execB X n (eraseB b) σ with
    | none => simp [hb] at h
    | some rb =>
      obtain ⟨ob, σb⟩ := rb
      rw [hb] at h
      obtain ⟨τb, htb, hrb⟩ := hB b σ τ ob σb (notin_left hx) hr hb
      rw [htb]
      simp only [Option.bind_some] at h ⊢
      -- handler step
      have stepA : ∀ ra, afterHS X n (eraseH hs) (ob, σb) = some ra →
          ∃ τa, afterHS X n (eraseH hs) (ob, τb) = some (ra.1, τa) ∧ SentRel x ra.2 τa := by
        intro ra ha
        cases ob with
        | exc ex =>
          cases ex with
          | user t =>
            cases hfa : findA hs t with
            | none =>
              have hfe : findHandler (eraseH hs) (.user t) = none := by rw [findHandler_erase, hfa]; rfl
              simp only [afterHS, hfe, Option.some.injEq] at ha ⊢; subst ha; exact ⟨τb, rfl, hrb⟩
            | some hbk =>
              have hfe : findHandler (eraseH hs) (.user t) = some (eraseB hbk) := by rw [findHandler_erase, hfa]; rfl
              simp only [afterHS, hfe] at ha ⊢
              obtain ⟨oh, σh⟩ := ra
              have hxh : x ∉ readsB hbk := fun hh => notin_left (notin_right hx) (reads_find hs t hbk hfa hh)
              exact hB hbk σb τb oh σh hxh hrb ha
          | nameError y => simp only [afterHS, findHandler, Option.some.injEq] at ha ⊢; subst ha; exact ⟨τb, rfl, hrb⟩
          | typeError => simp only [afterHS, findHandler, Option.some.injEq] at ha ⊢; subst ha; exact ⟨τb, rfl, hrb⟩
        | normal => simp only [afterHS, Option.some.injEq] at ha ⊢; subst ha; exact ⟨τb, rfl, hrb⟩
        | brk => simp only [afterHS, Option.some.injEq] at ha ⊢; subst ha; exact ⟨τb, rfl, hrb⟩
        | cont => simp only [afterHS, Option.some.injEq] at ha ⊢; subst ha; exact ⟨τb, rfl, hrb⟩
        | ret v => simp only [afterHS, Option.some.injEq] at ha ⊢; subst ha; exact ⟨τb, rfl, hrb⟩
      cases ha : afterHS X n (eraseH hs) (ob, σb) with
      | none => simp [ha] at h
      | some ra =>
        rw [ha] at h
        obtain ⟨τa, hta, hra⟩ := stepA ra ha
        rw [hta]
        simp only [Option.bind_some] at h ⊢
        obtain ⟨o2, σ2⟩ := ra
        obtain ⟨of, σf, hfin, hcase⟩ := finishS_some h
        obtain ⟨τf, htf, hrf⟩ := hB f σ2 τa of σf (notin_right (notin_right hx)) hra hfin
        rcases hcase with ⟨rfl, heq⟩ | ⟨hne, heq⟩
        · simp only [Prod.mk.injEq] at heq; obtain ⟨rfl, rfl⟩ := heq
          exact ⟨τf, by simp [finishS, htf], hrf⟩
        · simp only [Prod.mk.injEq] at heq; obtain ⟨rfl, rfl⟩ := heq
          refine ⟨τf, ?_, hrf⟩
          simp only [finishS, htf]
          cases o <;> simp_all

theorem sB_step (X : Ext) (x : Name) (n : Nat) (hS : SS X x n) (hB : SBk X x n) : SBk X x (n+1) := by
  intro b σ τ o σ₁ hx hr h
  cases b with
  | nil => simp only [eraseB, execB, Option.some.injEq, Prod.mk.injEq] at h ⊢; obtain ⟨rfl, rfl⟩ := h; exact ⟨τ, ⟨rfl, rfl⟩, hr⟩
  | cons s rest =>
    simp only [readsB] at hx
    simp only [eraseB, execB] at h ⊢
    cases hs : exec X n (eraseS s) σ with
    | none => simp [hs] at h
    | some rs =>
      obtain ⟨o₁, σ₂⟩ := rs
      rw [hs] at h
      obtain ⟨τ₂, ht, hr₂⟩ := hS s σ τ o₁ σ₂ (notin_left hx) hr hs
      rw [ht]
      cases o₁ with
      | normal => simp only at h ⊢; exact hB rest σ₂ τ₂ o σ₁ (notin_right hx) hr₂ h
      | brk => simp only [Option.some.injEq, Prod.mk.injEq] at h ⊢; obtain ⟨rfl, rfl⟩ := h; exact ⟨τ₂, ⟨rfl, rfl⟩, hr₂⟩
      | cont => simp only [Option.some.injEq, Prod.mk.injEq] at h ⊢; obtain ⟨rfl, rfl⟩ := h; exact ⟨τ₂, ⟨rfl, rfl⟩, hr₂⟩
      | ret v => simp only [Option.some.injEq, Prod.mk.injEq] at h ⊢; obtain ⟨rfl, rfl⟩ := h; exact ⟨τ₂, ⟨rfl, rfl⟩, hr₂⟩
      | exc e => simp only [Option.some.injEq, Prod.mk.injEq] at h ⊢; obtain ⟨rfl, rfl⟩ := h; exact ⟨τ₂, ⟨rfl, rfl⟩, hr₂⟩

theorem sF_step (X : Ext) (x : Name) (n : Nat) (hB : SBk X x n) (hF : SFo X x n) : SFo X x (n+1) := by
  intro y extra b items σ τ o σ₁ hxe hxb hr h
  cases items with
  | nil => simp only [execFor, Option.some.injEq, Prod.mk.injEq] at h ⊢; obtain ⟨rfl, rfl⟩ := h; exact ⟨τ, ⟨rfl, rfl⟩, hr⟩
  | cons v items =>
    cases extra with
    | none =>
      simp only [execFor] at h ⊢
      cases hb : execB X n (eraseB b) (σ.set y v) with
      | none => simp [hb] at h
      | some rb =>
        obtain ⟨ob, σb⟩ := rb
        rw [hb] at h
        obtain ⟨τb, htb, hrb⟩ := hB b _ _ ob σb hxb (hr.set y v) hb
        rw [htb]
        cases ob with
        | brk => simp only [Option.some.injEq, Prod.mk.injEq] at h ⊢; obtain ⟨rfl, rfl⟩ := h; exact ⟨τb, ⟨rfl, rfl⟩, hrb⟩
        | normal => simp only [BEq.rfl, Bool.true_or, if_true] at h ⊢; exact hF y none b items σb τb o σ₁ hxe hxb hrb h
        | cont => simp only [BEq.rfl, Bool.or_true, if_true] at h ⊢; exact hF y none b items σb τb o σ₁ hxe hxb hrb h
        | ret v' =>
          simp only [show (Out.ret v' == Out.normal) = false from rfl, show (Out.ret v' == Out.cont) = false from rfl,
            Bool.or_self, Bool.false_eq_true, if_false, Option.some.injEq, Prod.mk.injEq] at h ⊢
          obtain ⟨rfl, rfl⟩ := h; exact ⟨τb, ⟨rfl, rfl⟩, hrb⟩
        | exc e' =>
          simp only [show (Out.exc e' == Out.normal) = false from rfl, show (Out.exc e' == Out.cont) = false from rfl,
            Bool.or_self, Bool.false_eq_true, if_false, Option.some.injEq, Prod.mk.injEq] at h ⊢
          obtain ⟨rfl, rfl⟩ := h; exact ⟨τb, ⟨rfl, rfl⟩, hrb⟩
    | some t =>
      simp only [execFor] at h ⊢
      cases hb : execB X n (eraseB b) (σ.set y v) with
      | none => simp [hb] at h
      | some rb =>
        obtain ⟨ob, σb⟩ := rb
        rw [hb] at h
        obtain ⟨τb, htb, hrb⟩ := hB b _ _ ob σb hxb (hr.set y v) hb
        rw [htb]
        have next : (match evalE X t σb with
              | (.ok tv, σ'') => if truthy tv then execFor X n y (some t) (eraseB b) items σ'' else some (.normal, σ'')
              | (.error ex, σ'') => some (.exc ex, σ'')) = some (o, σ₁) →
            ∃ τ₁, (match evalE X t τb with
              | (.ok tv, τ'') => if truthy tv then execFor X n y (some t) (eraseB b) items τ'' else some (.normal, τ'')
              | (.error ex, τ'') => some (.exc ex, τ'')) = some (o, τ₁) ∧ SentRel x σ₁ τ₁ := by
          intro hh
          rcases het : evalE X t σb with ⟨rt, σ''⟩
          rw [het] at hh
          obtain ⟨τ'', ht2, hr''⟩ := sent_eval X (by simpa [varsO] using hxe) hrb het
          rw [ht2]
          cases rt with
          | error ex => simp only [Option.some.injEq, Prod.mk.injEq] at hh ⊢; obtain ⟨rfl, rfl⟩ := hh; exact ⟨τ'', ⟨rfl, rfl⟩, hr''⟩
          | ok tv =>
            simp only at hh ⊢
            by_cases htv : truthy tv = true
            · rw [if_pos htv] at hh ⊢; exact hF y (some t) b items σ'' τ'' o σ₁ hxe hxb hr'' hh
            · rw [if_neg htv] at hh ⊢
              simp only [Option.some.injEq, Prod.mk.injEq] at hh ⊢; obtain ⟨rfl, rfl⟩ := hh; exact ⟨τ'', ⟨rfl, rfl⟩, hr''⟩
        cases ob with
        | brk => simp only [Option.some.injEq, Prod.mk.injEq] at h ⊢; obtain ⟨rfl, rfl⟩ := h; exact ⟨τb, ⟨rfl, rfl⟩, hrb⟩
        | normal => simp only [BEq.rfl, Bool.true_or, if_true] at h ⊢; exact next h
        | cont => simp only [BEq.rfl, Bool.or_true, if_true] at h ⊢; exact next h
        | ret v' =>
          simp only [show (Out.ret v' == Out.normal) = false from rfl, show (Out.ret v' == Out.cont) = false from rfl,
            Bool.or_self, Bool.false_eq_true, if_false, Option.some.injEq, Prod.mk.injEq] at h ⊢
          obtain ⟨rfl, rfl⟩ := h; exact ⟨τb, ⟨rfl, rfl⟩, hrb⟩
        | exc e' =>
          simp only [show (Out.exc e' == Out.normal) = false from rfl, show (Out.exc e' == Out.cont) = false from rfl,
            Bool.or_self, Bool.false_eq_true, if_false, Option.some.injEq, Prod.mk.injEq] at h ⊢
          obtain ⟨rfl, rfl⟩ := h; exact ⟨τb, ⟨rfl, rfl⟩, hrb⟩

theorem sent_all (X : Ext) (x : Name) : ∀ n, SS X x n ∧ SBk X x n ∧ SFo X x n := by
  intro n
  induction n with
  | zero =>
    refine ⟨?_, ?_, ?_⟩
    · intro s σ τ o σ₁ _ _ h; simp [exec] at h
    · intro b σ τ o σ₁ _ _ h; simp [execB] at h
    · intro y extra b items σ τ o σ₁ _ _ _ h; simp [execFor] at h
  | succ n ih =>
    obtain ⟨hS, hB, hF⟩ := ih
    exact ⟨sS_step X x n hS hB hF, sB_step X x n hS hB, sF_step X x n hB hF⟩

/-! ## Part B -/

/-- `execN` never unbinds a bound slot of the current frame. -/
def NU (X : Ext) (x : Name) (n : Nat) : Prop :=
  (∀ s σ o τ, execN X n s σ = some (o, τ) → σ.env x ≠ .unbound → τ.env x ≠ .unbound) ∧
  (∀ b σ o τ, execNB X n b σ = some (o, τ) → σ.env x ≠ .unbound → τ.env x ≠ .unbound) ∧
  (∀ y extra body decl items σ o τ, execNFor X n y extra body decl items σ = some (o, τ) →
      σ.env x ≠ .unbound → τ.env x ≠ .unbound)

theorem withFrame_nu {X : Ext} {x : Name} {n : Nat} {L : List Name} {σ : TSt} {body : TBlock} {o : Out} {τ : TSt}
    (ihB : ∀ b σ o τ, execNB X n b σ = some (o, τ) → σ.env x ≠ .unbound → τ.env x ≠ .unbound)
    (h : withFrame L σ (execNB X n body (mask L σ)) = some (o, τ)) (hb : σ.env x ≠ .unbound) : τ.env x ≠ .unbound := by
  obtain ⟨o', ν, hrun, heq⟩ := withFrame_some h
  simp only [Prod.mk.injEq] at heq
  obtain ⟨_, rfl⟩ := heq
  simp only [restore]
  by_cases hL : L.contains x = true
  · simp only [hL, if_true]; exact hb
  · simp only [hL, if_false, Bool.false_eq_true]
    exact ihB body _ o' ν hrun (by simp only [mask, hL, Bool.false_eq_true, if_false]; exact hb)

theorem evalT_nu (X : Ext) (e : Expr) (σ : TSt) {r : Except Exc Val} {σ' : TSt} (h : evalT X e σ = (r, σ')) :
    σ'.env = σ.env := by
  have := evalT_env X e σ
  rw [h] at this; exact this

theorem nu_all (X : Ext) (x : Name) : ∀ n, NU X x n := by
  intro n
  induction n with
  | zero =>
    refine ⟨?_, ?_, ?_⟩
    · intro s σ o τ h; simp [execN] at h
    · intro b σ o τ h; simp [execNB] at h
    · intro y extra body decl items σ o τ h; simp [execNFor] at h
  | succ n ih =>
    obtain ⟨ihS, ihB, ihF⟩ := ih
    refine ⟨?_, ?_, ?_⟩
    · intro s σ o τ h hb
      cases s with
      | assign y e =>
        simp only [execN] at h
        rcases he : evalT X e σ with ⟨r, σ'⟩
        rw [he] at h
        have henv := evalT_nu X e σ he
        cases r with
        | error ex => simp only [Option.some.injEq, Prod.mk.injEq] at h; obtain ⟨_, rfl⟩ := h; rw [henv]; exact hb
        | ok v =>
          simp only [Option.some.injEq, Prod.mk.injEq] at h; obtain ⟨_, rfl⟩ := h
          by_cases hxy : x = y
          · simp [TSt.set, TSt.setSlot, hxy]
          · simp only [TSt.set, TSt.setSlot, hxy, if_false]; rw [henv]; exact hb
      | expr e =>
        simp only [execN] at h
        rcases he : evalT X e σ with ⟨r, σ'⟩
        rw [he] at h
        have henv := evalT_nu X e σ he
        cases r <;> (simp only [Option.some.injEq, Prod.mk.injEq] at h; obtain ⟨_, rfl⟩ := h; rw [henv]; exact hb)
      | pass => simp only [execN, Option.some.injEq, Prod.mk.injEq] at h; obtain ⟨_, rfl⟩ := h; exact hb
      | raise t => simp only [execN, Option.some.injEq, Prod.mk.injEq] at h; obtain ⟨_, rfl⟩ := h; exact hb
      | ret e =>
        cases e with
        | none => simp only [execN, Option.some.injEq, Prod.mk.injEq] at h; obtain ⟨_, rfl⟩ := h; exact hb
        | some e =>
          simp only [execN] at h
          rcases he : evalT X e σ with ⟨r, σ'⟩
          rw [he] at h
          have henv := evalT_nu X e σ he
          cases r <;> (simp only [Option.some.injEq, Prod.mk.injEq] at h; obtain ⟨_, rfl⟩ := h; rw [henv]; exact hb)
      | undefAssign y =>
        simp only [execN, Option.some.injEq, Prod.mk.injEq] at h; obtain ⟨_, rfl⟩ := h
        by_cases hxy : x = y
        · simp [TSt.setSlot, hxy]
        · simp only [TSt.setSlot, hxy, if_false]; exact hb
      | ifF c body orelse decl nouts =>
        simp only [execN] at h
        rcases he : evalT X c σ with ⟨r, σ'⟩
        rw [he] at h
        have henv := evalT_nu X c σ he
        cases r with
        | error ex => simp only [Option.some.injEq, Prod.mk.injEq] at h; obtain ⟨_, rfl⟩ := h; rw [henv]; exact hb
        | ok v =>
          simp only at h
          by_cases hv : truthy v = true
          · rw [if_pos hv] at h; exact withFrame_nu ihB h (by rw [henv]; exact hb)
          · rw [if_neg hv] at h; exact withFrame_nu ihB h (by rw [henv]; exact hb)
      | whileF c body decl =>
        simp only [execN] at h
        rcases he : evalT X c σ with ⟨r, σ'⟩
        rw [he] at h
        have henv := evalT_nu X c σ he
        have hb' : σ'.env x ≠ .unbound := by rw [henv]; exact hb
        cases r with
        | error ex => simp only [Option.some.injEq, Prod.mk.injEq] at h; obtain ⟨_, rfl⟩ := h; exact hb'
        | ok v =>
          simp only at h
          by_cases hv : (!truthy v) = true
          · rw [if_pos hv] at h; simp only [Option.some.injEq, Prod.mk.injEq] at h; obtain ⟨_, rfl⟩ := h; exact hb'
          · rw [if_neg hv] at h
            cases hw : withFrame (localsOf body decl) σ' (execNB X n body (mask (localsOf body decl) σ')) with
            | none => simp [hw] at h
            | some rb =>
              obtain ⟨ob, σ''⟩ := rb
              rw [hw] at h
              have hb'' := withFrame_nu ihB hw hb'
              cases ob with
              | normal => simp only at h; exact ihS _ _ _ _ h hb''
              | _ => simp only [Option.some.injEq, Prod.mk.injEq] at h; obtain ⟨_, rfl⟩ := h; exact hb''
      | forF y it extra body decl =>
        simp only [execN] at h
        rcases he : evalT X it σ with ⟨r, σ'⟩
        rw [he] at h
        have henv := evalT_nu X it σ he
        have hb' : σ'.env x ≠ .unbound := by rw [henv]; exact hb
        cases r with
        | error ex => simp only [Option.some.injEq, Prod.mk.injEq] at h; obtain ⟨_, rfl⟩ := h; exact hb'
        | ok v =>
          simp only at h
          cases hi : iterItems v with
          | error ex => rw [hi] at h; simp only [Option.some.injEq, Prod.mk.injEq] at h; obtain ⟨_, rfl⟩ := h; exact hb'
          | ok items =>
            rw [hi] at h; simp only at h
            cases extra with
            | none => simp only at h; exact ihF _ _ _ _ _ _ _ _ h hb'
            | some t =>
              simp only at h
              rcases het : evalT X t σ' with ⟨rt, σ''⟩
              rw [het] at h
              have henv2 := evalT_nu X t σ' het
              have hb'' : σ''.env x ≠ .unbound := by rw [henv2]; exact hb'
              cases rt with
              | error ex => simp only [Option.some.injEq, Prod.mk.injEq] at h; obtain ⟨_, rfl⟩ := h; exact hb''
              | ok tv =>
                simp only at h
                by_cases htv : truthy tv = true
                · rw [if_pos htv] at h; exact ihF _ _ _ _ _ _ _ _ h hb''
                · rw [if_neg htv] at h; simp only [Option.some.injEq, Prod.mk.injEq] at h; obtain ⟨_, rfl⟩ := h; exact hb''
      | withT tag body =>
        simp only [execN] at h
        cases hbd : execNB X n body (σ.push (.enter tag)) with
        | none => simp [hbd] at h
        | some rb =>
          obtain ⟨ob, σb⟩ := rb
          rw [hbd] at h
          simp only [Option.some.injEq, Prod.mk.injEq] at h; obtain ⟨_, rfl⟩ := h
          exact ihB body _ ob σb hbd hb
      | tryT body hs fin =>
        rw [execN_try] at h
        cases hbd : execNB X n body σ with
        | none => simp [hbd] at h
        | some rb =>
          obtain ⟨ob, σb⟩ := rb
          rw [hbd] at h
          simp only [Option.bind_some] at h
          have hb1 := ihB body σ ob σb hbd hb
          cases ha : afterHN X n hs (ob, σb) with
          | none => simp [ha] at h
          | some ra =>
            rw [ha] at h
            simp only [Option.bind_some] at h
            obtain ⟨o2, σ2⟩ := ra
            have hb2 : σ2.env x ≠ .unbound := by
              cases ob with
              | exc ex =>
                simp only [afterHN] at ha
                cases hf : findHandlerT hs ex with
                | none => rw [hf] at ha; simp only [Option.some.injEq, Prod.mk.injEq] at ha; obtain ⟨_, rfl⟩ := ha; exact hb1
                | some hbk => rw [hf] at ha; exact ihB hbk σb o2 σ2 ha hb1
              | _ => simp only [afterHN, Option.some.injEq, Prod.mk.injEq] at ha; obtain ⟨_, rfl⟩ := ha; exact hb1
            obtain ⟨of, σf, hfin, hcase⟩ := finishN_some h
            have hb3 := ihB fin σ2 of σf hfin hb2
            rcases hcase with ⟨_, heq⟩ | ⟨_, heq⟩ <;> (simp only [Prod.mk.injEq] at heq; obtain ⟨_, rfl⟩ := heq; exact hb3)
    · intro b σ o τ h hb
      cases b with
      | nil => simp only [execNB, Option.some.injEq, Prod.mk.injEq] at h; obtain ⟨_, rfl⟩ := h; exact hb
      | cons s rest =>
        simp only [execNB] at h
        cases hs : execN X n s σ with
        | none => simp [hs] at h
        | some rs =>
          obtain ⟨o₁, σ₁⟩ := rs
          rw [hs] at h
          have hb1 := ihS s σ o₁ σ₁ hs hb
          cases o₁ with
          | normal => simp only at h; exact ihB rest σ₁ o τ h hb1
          | _ => simp only [Option.some.injEq, Prod.mk.injEq] at h; obtain ⟨_, rfl⟩ := h; exact hb1
    · intro y extra body decl items σ o τ h hb
      cases items with
      | nil => simp only [execNFor, Option.some.injEq, Prod.mk.injEq] at h; obtain ⟨_, rfl⟩ := h; exact hb
      | cons v items =>
        simp only [execNFor] at h
        cases hw : withFrame (localsFor y body decl) σ
            (execNB X n (.assign y (.const v) :: body) (mask (localsFor y body decl) σ)) with
        | none => simp [hw] at h
        | some rb =>
          obtain ⟨ob, σ'⟩ := rb
          rw [hw] at h
          have hb' := withFrame_nu ihB hw hb
          cases ob with
          | normal =>
            simp only at h
            cases extra with
            | none => simp only at h; exact ihF _ _ _ _ _ _ _ _ h hb'
            | some t =>
              simp only at h
              rcases het : evalT X t σ' with ⟨rt, σ''⟩
              rw [het] at h
              have henv2 := evalT_nu X t σ' het
              have hb'' : σ''.env x ≠ .unbound := by rw [henv2]; exact hb'
              cases rt with
              | error ex => simp only [Option.some.injEq, Prod.mk.injEq] at h; obtain ⟨_, rfl⟩ := h; exact hb''
              | ok tv =>
                simp only at h
                by_cases htv : truthy tv = true
                · rw [if_pos htv] at h; exact ihF _ _ _ _ _ _ _ _ h hb''
                · rw [if_neg htv] at h; simp only [Option.some.injEq, Prod.mk.injEq] at h; obtain ⟨_, rfl⟩ := h; exact hb''
          | _ => simp only [Option.some.injEq, Prod.mk.injEq] at h; obtain ⟨_, rfl⟩ := h; exact hb'

/-! ### splitting the hypotheses along `++` -/
theorem blockIn_append (a b : ABlock) (O : List Name) : blockIn (a ++ b) O = blockIn a (blockIn b O) := by
  cases a <;> rfl

theorem LiveB_append (K : ExcCtx) : ∀ (a b : ABlock) (O : List Name), LiveB K (a ++ b) O →
    LiveB K a (blockIn b O) ∧ LiveB K b O
  | [], b, O, h => ⟨by simp [LiveB], h⟩
  | s :: r, b, O, h => by
      simp only [List.cons_append, LiveB] at h
      obtain ⟨h1, h2⟩ := LiveB_append K r b O h.2.2
      simp only [LiveB]
      exact ⟨⟨h.1, by rw [← blockIn_append]; exact h.2.1, h1⟩, h2⟩

theorem DeclB_append : ∀ (a b : ABlock), DeclB (a ++ b) → DeclB a ∧ DeclB b
  | [], b, h => ⟨by simp [DeclB], h⟩
  | s :: r, b, h => by
      simp only [List.cons_append, DeclB] at h
      obtain ⟨h1, h2⟩ := DeclB_append r b h.2
      simp only [DeclB]
      exact ⟨⟨h.1, h1⟩, h2⟩

theorem DefB_append : ∀ (D : List Name) (a b : ABlock), DefB D (a ++ b) → DefB D a ∧ DefB (D ++ asgB a) b
  | D, [], b, h => ⟨by simp [DefB], by simpa [asgB] using h⟩
  | D, s :: r, b, h => by
      simp only [List.cons_append, DefB] at h
      obtain ⟨h1, h2⟩ := DefB_append _ r b h.2
      simp only [DefB]
      exact ⟨⟨h.1, h1⟩, by simpa [asgB, List.append_assoc] using h2⟩

theorem eraseB_append : ∀ (a b : ABlock), eraseB (a ++ b) = eraseB a ++ eraseB b
  | [], b => rfl
  | s :: r, b => by simp [eraseB, eraseB_append r b]

/-- Decomposition of a source block run. -/
theorem execB_append_inv (X : Ext) : ∀ (a : Block) (m : Nat) (μ : St) (b : Block) (r : Out × St),
    execB X m (a ++ b) μ = some r →
    ∃ o₁ ν, execB X m a μ = some (o₁, ν) ∧
      ((o₁ = .normal ∧ ∃ m₂, execB X m₂ b ν = some r) ∨ (o₁ ≠ .normal ∧ r = (o₁, ν)))
  | [], m, μ, b, r, h => by
      cases m with
      | zero => simp [execB] at h
      | succ k => exact ⟨.normal, μ, by simp [execB], Or.inl ⟨rfl, k+1, by simpa using h⟩⟩
  | s :: a, m, μ, b, r, h => by
      cases m with
      | zero => simp [execB] at h
      | succ k =>
        simp only [List.cons_append, execB] at h ⊢
        cases hs : exec X k s μ with
        | none => rw [hs] at h; simp at h
        | some rs =>
          rw [hs] at h
          obtain ⟨o, μ₁⟩ := rs
          cases o with
          | normal =>
            simp only at h ⊢
            exact execB_append_inv X a k μ₁ b r h
          | _ =>
            simp only [Option.some.injEq] at h ⊢
            exact ⟨_, μ₁, rfl, Or.inr ⟨by simp, h.symm⟩⟩

theorem blockIn_cons (s : AStmt) (r : ABlock) (O : List Name) : blockIn (s :: r) O = s.info.liveIn := rfl

/-- Running `x = <constant>` at the head of a source block. -/
theorem execB_assign_const (X : Ext) {n : Nat} {x : Name} {v : Val} {rest : Block} {σ : St} {r : Out × St}
    (h : execB X n (.assign x (.const v) :: rest) σ = some r) : ∃ k, execB X k rest (σ.set x v) = some r := by
  cases n with
  | zero => simp [execB] at h
  | succ k =>
    cases k with
    | zero => simp [execB, exec] at h
    | succ k' =>
      simp only [execB, exec, evalE] at h
      exact ⟨k' + 1, h⟩

/-- Running a final `return x` of a source block. -/
theorem execB_ret_var (X : Ext) {n : Nat} {x : Name} {σ : St} {r : Out × St}
    (h : execB X n [.ret (some (.var x))] σ = some r) :
    r = (match σ.env x with | some v => .ret v | none => .exc (.nameError x), σ) := by
  cases n with
  | zero => simp [execB] at h
  | succ k =>
    cases k with
    | zero => simp [execB, exec] at h
    | succ k' =>
      simp only [execB, exec, evalE] at h
      cases hv : σ.env x with
      | none => rw [hv] at h; simp only [Option.some.injEq] at h; exact h.symm
      | some v => rw [hv] at h; simp only [Option.some.injEq] at h; exact h.symm

/-! ## The wrapper theorems -/

/-- The conversion-status stack is restored whatever happens inside (`__exit__` undoes `__enter__`). -/
theorem Wrapper.exit_enter (w : Wrapper) (stk : CtxStack) : w.exit (w.enter stk) = stk := by
  cases hu : w.userRequested <;> simp [Wrapper.exit, Wrapper.enter, hu]

theorem result_exc (w : Wrapper) (e : Exc) (τ : TSt) : w.result (.exc e) τ = .exc e := by
  simp [Wrapper.result, exitSwallows]

/-- Shape (a): the source has no `return`; the block inside the `with` is the functionalised body. -/
theorem wrapper_plain (X : Ext) (w : Wrapper) (hw : w.retVars = none) (q : ABlock) (D : List Name)
    (hyp : FuncHyp D q []) (hnr : noRetB q = true)
    (σ : St) (σ' : TSt) (hag : Agree (blockIn q []) σ σ') (hb : BoundSub σ D) (stk : CtxStack)
    (n : Nat) (o : Out) (σ₁ : St) (h : execB X n (eraseB q) σ = some (o, σ₁)) :
    ∃ m τ, callW X m w (funcB q) σ' stk = some (fnOutcome o, τ, stk) ∧ τ.log = σ₁.log := by
  obtain ⟨⟨m, τ, hx, hout⟩, hnj, _, _⟩ :=
    (sim_all X n).2.1 q ExcCtx.top D [] σ σ' o σ₁ hyp.live hyp.decl hyp.defd hyp.jump hag hb h
  refine ⟨m, τ, ?_, hout.1⟩
  simp only [callW, Wrapper.inner, hw, hx, Wrapper.exit_enter]
  rcases hnj hnr with rfl | ⟨e, rfl⟩
  · simp [Wrapper.result, hw, fnOutcome]
  · simp [result_exc, fnOutcome]

/-- The source state after `do_return = False; retval_ = None`, with `retval_` unbound instead (the state the
functionalised body is compared against). -/
def retSrcInit (dr rv : Name) (σ : St) : St :=
  { env := fun y => if y = rv then none else ((σ.set dr (.int 0)).set rv .none).env y, log := σ.log }

/-- The target state after `do_return = False; retval_ = UndefinedReturnValue()`. -/
def retTgtInit (dr rv : Name) (σ' : TSt) : TSt := (σ'.set dr (.int 0)).setSlot rv .undef

/-- Everything the two wrapper theorems for shape (b) need, extracted from the hypotheses and the source run. -/
theorem ret_setup (X : Ext) (dr rv : Name) (i₁ i₂ i₃ : Info) (mid : ABlock) (D : List Name)
    (hyp : FuncHyp D (retShape dr rv i₁ i₂ i₃ mid) []) (hrv : rv ∉ readsB mid)
    (σ : St) (σ' : TSt) (hag : Agree i₁.liveIn σ σ') (hb : BoundSub σ D)
    (n : Nat) (o : Out) (σ₁ : St) (h : execB X n (eraseB (retShape dr rv i₁ i₂ i₃ mid)) σ = some (o, σ₁)) :
    LiveB ExcCtx.top mid i₃.liveIn ∧ DeclB mid ∧ DefB (D ++ [dr] ++ [rv]) mid ∧ rv ∈ i₃.liveIn ∧
    Agree (blockIn mid i₃.liveIn) (retSrcInit dr rv σ) (retTgtInit dr rv σ') ∧
    BoundSub (retSrcInit dr rv σ) (D ++ [dr] ++ [rv]) ∧
    ∃ k om σm σmu, execB X k (eraseB mid) (retSrcInit dr rv σ) = some (om, σmu) ∧ SentRel rv σm σmu ∧
      (om = .normal → o = (match σm.env rv with | some v => .ret v | none => .exc (.nameError rv)) ∧ σ₁ = σm) ∧
      (om ≠ .normal → o = om ∧ σ₁ = σm) := by
  -- the hypotheses, taken apart
  have hl := hyp.live
  have hd := hyp.decl
  have hf := hyp.defd
  simp only [retShape, LiveConsistent, LiveB, LiveS, DeclB, DeclS, DefB, DefS, AStmt.info, asgS, blockIn_cons, vars,
    ExcCtx.top, true_and] at hl hd hf
  obtain ⟨⟨_, hl1, _⟩, hs12, ⟨_, hl2, _⟩, hs2r, hlrest⟩ := hl
  obtain ⟨hlmid, hlret⟩ := LiveB_append _ mid _ _ hlrest
  obtain ⟨hdmid, _⟩ := DeclB_append mid _ hd
  obtain ⟨hfmid, _⟩ := DefB_append _ mid _ hf
  simp only [LiveB, LiveS, AStmt.info, varsO, vars] at hlret
  have hrvlive : rv ∈ i₃.liveIn := hlret.1.1 (by simp)
  -- the source run, taken apart
  simp only [retShape, eraseB, eraseS] at h
  obtain ⟨k1, h1⟩ := execB_assign_const X h
  obtain ⟨k2, h2⟩ := execB_assign_const X h1
  rw [eraseB_append] at h2
  obtain ⟨om, σm, hmid, halt⟩ := execB_append_inv X (eraseB mid) _ _ _ _ h2
  have hrel : SentRel rv ((σ.set dr (.int 0)).set rv .none) (retSrcInit dr rv σ) := by
    refine ⟨fun y hy => by simp [retSrcInit, hy], rfl, Or.inr ⟨by simp [St.set], by simp [retSrcInit]⟩, by simp [St.set]⟩
  obtain ⟨σmu, hmidu, hrelm⟩ := (sent_all X rv _).2.1 mid _ _ om σm hrv hrel hmid
  have hag2 : Agree (blockIn mid i₃.liveIn) (retSrcInit dr rv σ) (retTgtInit dr rv σ') := by
    refine ⟨fun y hy => ?_, by simp [retSrcInit, retTgtInit, TSt.setSlot, TSt.set, hag.2]⟩
    have hyM : y ∈ blockIn (mid ++ [AStmt.ret i₃ (some (Expr.var rv))]) [] := by
      rw [blockIn_append]; simpa [blockIn_cons, AStmt.info] using hy
    by_cases hyr : y = rv
    · simp [retSrcInit, retTgtInit, TSt.setSlot, hyr, Slot.toOpt]
    · by_cases hyd : y = dr
      · subst hyd
        simp [retSrcInit, retTgtInit, TSt.setSlot, TSt.set, St.set, hyr, Slot.toOpt]
      · have h2' : y ∈ i₂.liveIn := hl2 (List.mem_filter.mpr ⟨hs2r hyM, by simpa using hyr⟩)
        have h1' : y ∈ i₁.liveIn := hl1 (List.mem_filter.mpr ⟨hs12 h2', by simpa using hyd⟩)
        have := hag.1 y h1'
        simpa [retSrcInit, retTgtInit, TSt.setSlot, TSt.set, St.set, hyr, hyd] using this
  have hb2 : BoundSub (retSrcInit dr rv σ) (D ++ [dr] ++ [rv]) := by
    intro y hy
    by_cases hyr : y = rv
    · simp [hyr]
    · by_cases hyd : y = dr
      · simp [hyd]
      · have : σ.env y ≠ none := by simpa [retSrcInit, St.set, hyr, hyd] using hy
        exact List.mem_append.mpr (Or.inl (List.mem_append.mpr (Or.inl (hb y this))))
  refine ⟨hlmid, hdmid, hfmid, hrvlive, hag2, hb2, _, om, σm, σmu, hmidu, hrelm, ?_, ?_⟩
  · intro hn
    rcases halt with ⟨_, m₂, hret⟩ | ⟨hne', _⟩
    · have := execB_ret_var X (by simpa [eraseB, eraseS] using hret)
      simp only [Prod.mk.injEq] at this
      exact this
    · exact absurd hn hne'
  · intro hn
    rcases halt with ⟨hn', _⟩ | ⟨_, heq⟩
    · exact absurd hn' hn
    · simp only [Prod.mk.injEq] at heq; exact heq

/-- What `fscope.ret(retval_, do_return)` gives, from the relation of the final states: the source's
`return retval_`. -/
theorem fscopeRet_agree (rv : Name) (L : List Name) (hrvlive : rv ∈ L) (σm σmu : St) (τ : TSt)
    (hrelm : SentRel rv σm σmu) (hag : Agree L σmu τ) (hnu : τ.env rv ≠ .unbound) :
    fscopeRet rv (τ.env rv) = (match σm.env rv with | some v => .ret v | none => .exc (.nameError rv)) := by
  have hagm := hag.1 rv hrvlive
  cases hsv : σm.env rv with
  | none => exact absurd hsv hrelm.2.2.2
  | some v =>
    cases hslot : τ.env rv with
    | unbound => exact absurd hslot hnu
    | undef =>
      rw [hslot] at hagm
      simp only [Slot.toOpt] at hagm
      rcases hrelm.2.2.1 with heq | ⟨hn, _⟩
      · rw [hsv, ← hagm] at heq; cases heq
      · rw [hsv] at hn; simp only [Option.some.injEq] at hn; subst hn; rfl
    | val u =>
      rw [hslot] at hagm
      simp only [Slot.toOpt] at hagm
      rcases hrelm.2.2.1 with heq | ⟨_, hn⟩
      · rw [hsv, ← hagm] at heq; simp only [Option.some.injEq] at heq; subst heq; rfl
      · rw [← hagm] at hn; cases hn

/-- Shape (b): `do_return = False; retval_ = UndefinedReturnValue(); mid; return fscope.ret(retval_, do_return)`
against the `Malt.Sem` program `do_return = False; retval_ = None; mid; return retval_` of the jump-lowering model. -/
theorem wrapper_ret (X : Ext) (w : Wrapper) (dr rv : Name) (hw : w.retVars = some (dr, rv))
    (i₁ i₂ i₃ : Info) (mid : ABlock) (D : List Name)
    (hyp : FuncHyp D (retShape dr rv i₁ i₂ i₃ mid) []) (hnr : noRetB mid = true) (hrv : rv ∉ readsB mid)
    (σ : St) (σ' : TSt) (hag : Agree i₁.liveIn σ σ') (hb : BoundSub σ D) (stk : CtxStack)
    (n : Nat) (o : Out) (σ₁ : St) (h : execB X n (eraseB (retShape dr rv i₁ i₂ i₃ mid)) σ = some (o, σ₁)) :
    ∃ m τ, callW X m w (funcB mid) σ' stk = some (fnOutcome o, τ, stk) ∧ τ.log = σ₁.log := by
  obtain ⟨hlmid, hdmid, hfmid, hrvlive, hag2, hb2, k, om, σm, σmu, hmidu, hrelm, hsN, hsE⟩ :=
    ret_setup X dr rv i₁ i₂ i₃ mid D hyp hrv σ σ' hag hb n o σ₁ h
  obtain ⟨⟨m, τm, hx, hout⟩, hnj, _, _⟩ :=
    (sim_all X _).2.1 mid ExcCtx.top (D ++ [dr] ++ [rv]) i₃.liveIn _ _ om σmu hlmid hdmid hfmid
      (noRet_retTopB mid hnr) hag2 hb2 hmidu
  -- `retval_` is not unbound at the end
  have hnu : τm.env rv ≠ .unbound :=
    (nu_all X rv m).2.1 _ (retTgtInit dr rv σ') om τm hx (by simp [retTgtInit, TSt.setSlot])
  have hrun : execNB X (m + 2) (w.inner (funcB mid)) σ' = some (om, τm) := by
    obtain ⟨j, rfl⟩ : ∃ j, m = j + 1 := ⟨m - 1, by have := execNB_pos X hx; omega⟩
    simp only [Wrapper.inner, hw, execNB, execN, evalT, evalE]
    exact hx
  refine ⟨m + 2, τm, ?_, ?_⟩
  · simp only [callW, hrun, Wrapper.exit_enter]
    rcases hnj hnr with rfl | ⟨e, rfl⟩
    · -- the body ended normally: the source returns the value of `retval_`
      obtain ⟨ho, _⟩ := hsN rfl
      have hr := fscopeRet_agree rv i₃.liveIn hrvlive σm σmu τm hrelm (hout.2.1 rfl) hnu
      subst ho
      simp only [Wrapper.result, hw, hr]
      cases σm.env rv <;> rfl
    · -- the body raised: the exception passes the `with`
      obtain ⟨rfl, _⟩ := hsE (by simp)
      simp [result_exc, fnOutcome]
  · -- logs
    have hlog : σ₁.log = σm.log := by
      by_cases hn : om = .normal
      · rw [(hsN hn).2]
      · rw [(hsE hn).2]
    rw [hout.1, ← hrelm.2.1, hlog]

/-! ## The two shapes together, and annotation of a lowered `Malt.Sem` body -/

theorem annotB_append (A : Ann) : ∀ (a : Block) (k : Nat) (b : Block),
    annotB A k (a ++ b) = (match annotB A k a, annotB A (k + a.length) b with
      | some a', some b' => some (a' ++ b')
      | _, _ => none)
  | [], k, b => by
      simp only [List.nil_append, annotB, List.length_nil, Nat.add_zero]
      cases annotB A k b <;> rfl
  | s :: a, k, b => by
      simp only [List.cons_append, annotB, List.length_cons]
      rw [annotB_append A a (k+1) b]
      have : k + 1 + a.length = k + (a.length + 1) := by omega
      rw [this]
      cases annotS (fun p => A (k :: p)) s <;> cases annotB A (k+1) a <;>
        cases annotB A (k + (a.length + 1)) b <;> rfl

/-- `annotL` is `annotB ann 0` on the lowered program, shape kept. -/
theorem annotL_prog (ann : Ann) (s : SrcLowered) (q : ABlock) (hq : annotB ann 0 s.prog = some q) :
    ∃ l, annotL ann s = some l ∧ l.prog = q := by
  cases s with
  | plain p => exact ⟨.plain q, by simp [annotL, SrcLowered.prog] at hq ⊢; simp [hq], rfl⟩
  | rets dr rv r =>
    simp only [SrcLowered.prog, annotB, annotS] at hq
    rw [annotB_append] at hq
    cases hm : annotB ann 2 r with
    | none => simp [hm] at hq
    | some mid =>
      simp only [hm, annotB, annotS, Option.some.injEq] at hq
      exact ⟨.rets dr rv (ann [0]) (ann [1]) (ann [2 + r.length]) mid, by simp [annotL, hm], by
        simp only [Lowered.prog, retShape]; exact hq⟩

theorem annotL_erase (ann : Ann) (s : SrcLowered) (l : Lowered) (h : annotL ann s = some l) :
    eraseB l.prog = s.prog := by
  cases s with
  | plain p =>
    simp only [annotL, Option.map_eq_some_iff] at h
    obtain ⟨q, hq, rfl⟩ := h
    exact annotB_erase p ann 0 q hq
  | rets dr rv r =>
    simp only [annotL, Option.map_eq_some_iff] at h
    obtain ⟨mid, hq, rfl⟩ := h
    simp only [Lowered.prog, retShape, eraseB, eraseS, eraseB_append, SrcLowered.prog, annotB_erase r ann 2 mid hq]

/-- **Both shapes**: calling the converted function made from a lowered body gives what the caller of the lowered
source body sees — result (falling off the end is `None`) and effect log — and restores the status stack. -/
theorem wrapper_both (X : Ext) (l : Lowered) (hwf : l.wf = true) (name : String) (ur : Bool) (D : List Name)
    (hyp : FuncHyp D l.prog [])
    (σ : St) (σ' : TSt) (hag : Agree (blockIn l.prog []) σ σ') (hb : BoundSub σ D) (stk : CtxStack)
    (n : Nat) (o : Out) (σ₁ : St) (h : execB X n (eraseB l.prog) σ = some (o, σ₁)) :
    ∃ m τ, callConverted X m l name ur σ' stk = some (fnOutcome o, τ, stk) ∧ τ.log = σ₁.log := by
  cases l with
  | plain q =>
    exact wrapper_plain X _ rfl q D hyp hwf σ σ' hag hb stk n o σ₁ h
  | rets dr rv i₁ i₂ i₃ mid =>
    simp only [Lowered.wf, Bool.and_eq_true, Bool.not_eq_true', List.contains_eq_mem, decide_eq_false_iff_not] at hwf
    exact wrapper_ret X _ dr rv rfl i₁ i₂ i₃ mid D hyp hwf.1 hwf.2 σ σ' hag hb stk n o σ₁ h

end Malt.Func
