import MaltModel.Rt.Builtins
/-!
General lemmas about Python call binding (`bind`, `accepts`, `firstErr`) and about the staged
evaluation of `forward`, used by `Props/C14.lean`.  Nothing here is specific to one builtin.
-/
namespace Malt.Builtins
open Malt.Gen.Builtins

variable {α : Type}

/-! ### `bind` versus `accepts`/`envOf` -/

theorem bind_ok {sig : Signature} {c : CallShape α} {env : Env α} (h : bind sig c = .ok env) :
    accepts sig c = true ∧ env = envOf sig c := by
  unfold bind at h
  split at h
  · rename_i ha
    exact ⟨ha, by injection h with h; exact h.symm⟩
  · cases h

theorem bind_of_accepts {sig : Signature} {c : CallShape α} (h : accepts sig c = true) :
    bind sig c = .ok (envOf sig c) := by
  simp [bind, h]

theorem bind_ok_iff {sig : Signature} {c : CallShape α} {env : Env α} :
    bind sig c = .ok env ↔ (accepts sig c = true ∧ env = envOf sig c) := by
  constructor
  · exact bind_ok
  · rintro ⟨h, rfl⟩; exact bind_of_accepts h

theorem bind_error_of_not_accepts {sig : Signature} {c : CallShape α} (h : accepts sig c = false) :
    ∃ e, bind sig c = .error e := by
  simp [bind, h]

/-! ### components of `accepts` -/

theorem accepts_parts {sig : Signature} {c : CallShape α} (h : accepts sig c = true) :
    (hasVarPos sig = true ∨ c.pos.length ≤ nPos sig) ∧ keysNodup c.kw = true ∧
    (∀ kv ∈ c.kw, kwAdmissible sig c.pos.length kv.1 = true) ∧
    (∀ p ∈ sig, satisfied sig c p = true) := by
  simp only [accepts, Bool.and_eq_true, Bool.or_eq_true, decide_eq_true_eq, List.all_eq_true] at h
  exact ⟨h.1.1.1, h.1.1.2, h.1.2, h.2⟩

theorem accepts_of_parts {sig : Signature} {c : CallShape α}
    (h1 : hasVarPos sig = true ∨ c.pos.length ≤ nPos sig) (h2 : keysNodup c.kw = true)
    (h3 : ∀ kv ∈ c.kw, kwAdmissible sig c.pos.length kv.1 = true)
    (h4 : ∀ p ∈ sig, satisfied sig c p = true) : accepts sig c = true := by
  simp only [accepts, Bool.and_eq_true, Bool.or_eq_true, decide_eq_true_eq, List.all_eq_true]
  exact ⟨⟨⟨h1, h2⟩, h3⟩, h4⟩

/-- Too many positional arguments are rejected unless there is a `*args`. -/
theorem accepts_pos_le {sig : Signature} {c : CallShape α} (h : accepts sig c = true)
    (hv : hasVarPos sig = false) : c.pos.length ≤ nPos sig := by
  rcases (accepts_parts h).1 with h' | h'
  · rw [hv] at h'; cases h'
  · exact h'

/-! ### keywords -/

theorem kwTarget_mem {sig : Signature} {k : String} (h : kwTarget sig k = true) :
    k ∈ (sig.filter isKw).map (·.name) := by
  simp only [kwTarget, List.any_eq_true, Bool.and_eq_true, beq_iff_eq] at h
  obtain ⟨p, hp, hk, rfl⟩ := h
  exact List.mem_map.mpr ⟨p, List.mem_filter.mpr ⟨hp, hk⟩, rfl⟩

/-- Names a keyword may still use when `n` positional arguments were given (no `**kwargs`). -/
def freeKwNames (sig : Signature) (n : Nat) : List String :=
  ((sig.filter isKw).map (·.name)).filter (fun k => !posFilled sig n k)

/-- Without `**kwargs`, every keyword of an accepted call names a keyword-capable parameter that
is not already filled positionally. -/
theorem accepts_keys {sig : Signature} {c : CallShape α} (h : accepts sig c = true)
    (hv : hasVarKw sig = false) : ∀ kv ∈ c.kw, kv.1 ∈ freeKwNames sig c.pos.length := by
  intro kv hkv
  have ha := (accepts_parts h).2.2.1 kv hkv
  unfold kwAdmissible at ha
  split at ha
  · rename_i ht
    refine List.mem_filter.mpr ⟨kwTarget_mem ht, ?_⟩
    simpa using ha
  · rw [hv] at ha; cases ha

theorem keys_nil {β : Type} {kw : List (String × β)} (h : ∀ kv ∈ kw, kv.1 ∈ ([] : List String)) : kw = [] := by
  cases kw with
  | nil => rfl
  | cons kv r => exact absurd (h kv (List.mem_cons_self ..)) (by simp)

theorem keys_one {β : Type} {kw : List (String × β)} {s : String} (hn : keysNodup kw = true)
    (h : ∀ kv ∈ kw, kv.1 ∈ [s]) : kw = [] ∨ ∃ v, kw = [(s, v)] := by
  match kw, hn, h with
  | [], _, _ => exact .inl rfl
  | [(k, v)], _, h =>
    have : k = s := by simpa using h (k, v) (List.mem_cons_self ..)
    exact .inr ⟨v, by rw [this]⟩
  | (k, v) :: (k', v') :: r, hn, h =>
    have h1 : k = s := by simpa using h (k, v) (List.mem_cons_self ..)
    have h2 : k' = s := by simpa using h (k', v') (List.mem_cons_of_mem _ (List.mem_cons_self ..))
    subst h1 h2
    simp [keysNodup, hasKey] at hn

theorem keys_two {β : Type} {kw : List (String × β)} {s t : String} (hn : keysNodup kw = true)
    (h : ∀ kv ∈ kw, kv.1 ∈ [s, t]) :
    kw = [] ∨ (∃ v, kw = [(s, v)]) ∨ (∃ v, kw = [(t, v)]) ∨
    (∃ v w, kw = [(s, v), (t, w)]) ∨ (∃ v w, kw = [(t, v), (s, w)]) := by
  match kw, hn, h with
  | [], _, _ => exact .inl rfl
  | [(k, v)], _, h =>
    have : k = s ∨ k = t := by simpa using h (k, v) (List.mem_cons_self ..)
    rcases this with rfl | rfl
    · exact .inr (.inl ⟨v, rfl⟩)
    · exact .inr (.inr (.inl ⟨v, rfl⟩))
  | [(k, v), (k', v')], hn, h =>
    have h1 : k = s ∨ k = t := by simpa using h (k, v) (List.mem_cons_self ..)
    have h2 : k' = s ∨ k' = t := by
      simpa using h (k', v') (List.mem_cons_of_mem _ (List.mem_cons_self ..))
    rcases h1 with rfl | rfl <;> rcases h2 with rfl | rfl
    · simp [keysNodup, hasKey] at hn
    · exact .inr (.inr (.inr (.inl ⟨v, v', rfl⟩)))
    · exact .inr (.inr (.inr (.inr ⟨v, v', rfl⟩)))
    · simp [keysNodup, hasKey] at hn
  | (k, v) :: (k', v') :: (k'', v'') :: r, hn, h =>
    have h1 : k = s ∨ k = t := by simpa using h (k, v) (List.mem_cons_self ..)
    have h2 : k' = s ∨ k' = t := by
      simpa using h (k', v') (List.mem_cons_of_mem _ (List.mem_cons_self ..))
    have h3 : k'' = s ∨ k'' = t := by
      simpa using h (k'', v'') (List.mem_cons_of_mem _ (List.mem_cons_of_mem _ (List.mem_cons_self ..)))
    simp only [keysNodup, hasKey, List.any_cons, Bool.and_eq_true, Bool.not_eq_true', Bool.or_eq_false_iff,
      beq_eq_false_iff_ne, ne_eq] at hn
    rcases h1 with rfl | rfl <;> rcases h2 with rfl | rfl <;> rcases h3 with rfl | rfl <;> simp_all

/-! ### `firstErr` agrees with `accepts` (the CPython-order scan finds an error iff the
declarative condition fails) -/

private theorem kwErrs_none_iff (sig : Signature) (npos : Nat) (allKeys : List String) :
    ∀ (kw : List (String × Val α)) (seen : List String),
      kwErrs sig npos allKeys kw seen = none ↔
        (keysNodup kw = true ∧ (∀ kv ∈ kw, kwAdmissible sig npos kv.1 = true) ∧
         (∀ kv ∈ kw, kv.1 ∉ seen)) := by
  intro kw
  induction kw with
  | nil => intro seen; simp [kwErrs, keysNodup]
  | cons kv r ih =>
    intro seen
    have hkey : hasKey kv.1 r = false ↔ ∀ x ∈ r, x.1 ≠ kv.1 := by
      simp [hasKey]
    unfold kwErrs
    cases ht : kwTarget sig kv.1 <;> cases hv : hasVarKw sig <;> cases hp : posFilled sig npos kv.1 <;>
      by_cases hs : kv.1 ∈ seen <;>
      simp [hs, ih, keysNodup, kwAdmissible, ht, hv, hp, hkey] <;> (try split) <;> (try simp_all) <;> (try grind)

/-- The CPython-order error scan reports no error exactly for the accepted calls. -/
theorem firstErr_none_iff (sig : Signature) (c : CallShape α) :
    firstErr sig c = none ↔ accepts sig c = true := by
  unfold firstErr
  cases hk : kwErrs sig c.pos.length (c.kw.map (·.1)) c.kw [] with
  | some e =>
    simp only [reduceCtorEq, false_iff]
    intro ha
    have hp := accepts_parts ha
    have := (kwErrs_none_iff sig c.pos.length (c.kw.map (·.1)) c.kw []).mpr ⟨hp.2.1, hp.2.2.1, by simp⟩
    rw [this] at hk; cases hk
  | none =>
    have hkk := (kwErrs_none_iff sig c.pos.length (c.kw.map (·.1)) c.kw []).mp hk
    simp only
    by_cases hpos : (hasVarPos sig || decide (c.pos.length ≤ nPos sig)) = true
    · simp only [hpos, Bool.not_true, Bool.false_eq_true, if_false]
      cases hf : sig.find? (fun p => !satisfied sig c p) with
      | some p =>
        simp only [reduceCtorEq, false_iff]
        intro ha
        have hs := (accepts_parts ha).2.2.2 p (List.mem_of_find?_eq_some hf)
        have := List.find?_some hf
        simp [hs] at this
      | none =>
        simp only [true_iff]
        simp only [Bool.or_eq_true, decide_eq_true_eq] at hpos
        refine accepts_of_parts hpos hkk.1 hkk.2.1 ?_
        intro p hp
        have := List.find?_eq_none.mp hf p hp
        simpa using this
    · simp only [hpos]
      simp only [Bool.not_eq_true] at hpos
      simp only [Bool.not_false, if_true, reduceCtorEq, false_iff]
      intro ha
      have := (accepts_parts ha).1
      simp only [Bool.or_eq_false_iff, decide_eq_false_iff_not] at hpos
      rcases this with h | h
      · rw [hpos.1] at h; cases h
      · exact hpos.2 h

/-- A rejected call gets one of the four TypeErrors from the scan (the `getD` default in `bind` is never used). -/
theorem bind_error_is_firstErr (sig : Signature) (c : CallShape α) (e : BindErr)
    (h : bind sig c = .error e) : firstErr sig c = some e := by
  unfold bind at h
  split at h
  · cases h
  · rename_i ha
    cases hf : firstErr sig c with
    | none => exact absurd ((firstErr_none_iff sig c).mp hf) ha
    | some e' =>
      rw [hf] at h
      simp only [Option.getD_some] at h
      injection h with h
      rw [h]

/-! ### signatures of the form `(*args, **kwargs)` accept everything with distinct keywords -/

theorem accepts_star_dstar (n m : String) (c : CallShape α) :
    accepts [⟨n, .varPos, none⟩, ⟨m, .varKw, none⟩] c = keysNodup c.kw := by
  have : ∀ kv ∈ c.kw, kwAdmissible [⟨n, .varPos, none⟩, ⟨m, .varKw, none⟩] c.pos.length kv.1 = true := by
    intro kv _
    simp [kwAdmissible, kwTarget, isKw, hasVarKw]
  have h2 : c.kw.all (fun kv => kwAdmissible [⟨n, .varPos, none⟩, ⟨m, .varKw, none⟩] c.pos.length kv.1) = true :=
    List.all_eq_true.mpr this
  simp [accepts, hasVarPos, h2, satisfied]

theorem envOf_star_dstar (n m : String) (c : CallShape α) :
    envOf [⟨n, .varPos, none⟩, ⟨m, .varKw, none⟩] c = [(n, .star c.pos), (m, .dstar c.kw)] := by
  have : c.kw.filter (fun kv => !kwTarget [⟨n, .varPos, none⟩, ⟨m, .varKw, none⟩] kv.1) = c.kw := by
    apply List.filter_eq_self.mpr
    intro kv _
    simp [kwTarget, isKw]
  simp [envOf, boundOf, this, nPos, posParams, isPos]

/-! ### staged evaluation of `forward` -/

theorem forward_unfold (truthy : α → Bool) (b on : String) (ov : Overload) (c : CallShape α)
    (h1 : overloadName b = some on) (h2 : findOverload on = some ov) :
    forward truthy b c = callOverload truthy ov c := by
  simp [forward, h1, h2]

theorem callOverload_eq (truthy : α → Bool) (ov : Overload) (c c1 c2 : CallShape α) (env env1 : Env α)
    (h : Helper) (br : Branch)
    (hb : bind ov.params c = .ok env) (hk : kwAllowed ov env = true)
    (he : evalCall env ov.call = some c1) (hh : findHelper ov.call.callee = some h)
    (hb1 : bind h.params c1 = .ok env1) (hp : pickBranch truthy env1 h.branches = some br)
    (he2 : evalCall env1 br.call = some c2) :
    callOverload truthy ov c = .ok ⟨br.call.callee, c2, ov.ret == .value && br.ret == .value⟩ := by
  simp [callOverload, hb, hk, he, hh, hb1, hp, he2]

theorem pickBranch_mem (truthy : α → Bool) (env : Env α) :
    ∀ (brs : List Branch) (br : Branch), pickBranch truthy env brs = some br → br ∈ brs := by
  intro brs
  induction brs with
  | nil => intro br h; cases h
  | cons b r ih =>
    intro br h
    unfold pickBranch at h
    split at h
    · injection h with h; rw [← h]; exact List.mem_cons_self ..
    · exact List.mem_cons_of_mem _ (ih br h)
    · cases h

/-- Whatever the arguments, a successful overload call ends in one of the extracted branches of
the helper its forwarding call names. -/
theorem callOverload_ok (truthy : α → Bool) (ov : Overload) (c : CallShape α) (r : Fwd α)
    (h : callOverload truthy ov c = .ok r) :
    ∃ hl br, findHelper ov.call.callee = some hl ∧ br ∈ hl.branches ∧ r.callee = br.call.callee ∧
      r.tail = (ov.ret == .value && br.ret == .value) := by
  unfold callOverload at h
  split at h
  · cases h
  · split at h
    · cases h
    · split at h
      · cases h
      · split at h
        · cases h
        · rename_i hl hh
          split at h
          · cases h
          · split at h
            · cases h
            · rename_i br hbr
              split at h
              · cases h
              · injection h with h
                subst h
                exact ⟨hl, br, hh, pickBranch_mem truthy _ _ _ hbr, rfl, rfl⟩

/-! ### `envEquiv` is reflexive -/

section
variable [DecidableEq α]

theorem valEquiv_refl (truthy : α → Bool) (b p : String) (v : Val α) : valEquiv truthy b p v v = true := by
  simp [valEquiv]

theorem boundEquiv_refl (truthy : α → Bool) (b p : String) (x : Bound α) : boundEquiv truthy b p x x = true := by
  cases x <;> simp [boundEquiv, valEquiv_refl]

theorem envEquiv_refl (truthy : α → Bool) (b : String) (e : Env α) : envEquiv truthy b e e = true := by
  induction e with
  | nil => rfl
  | cons x r ih => simp [envEquiv, boundEquiv_refl, ih]

theorem envEquiv_of_eq (truthy : α → Bool) (b : String) {e e' : Env α} (h : e = e') :
    envEquiv truthy b e e' = true := by
  subst h; exact envEquiv_refl truthy b e
end

/-! ### closure of the generated tables (a complete finite check) -/

/-- `b` has a table entry naming a defined overload whose helper is defined, non-empty, and
calls `b` in every branch, returning its result (or `b` is `print`). -/
def closedFor (b : String) : Bool :=
  match overloadName b with
  | some on =>
    match findOverload on with
    | some ov =>
      match findHelper ov.call.callee with
      | some h => !h.branches.isEmpty && h.branches.all (fun br =>
          br.call.callee == b && ((ov.ret == .value && br.ret == .value) || b == "print"))
      | none => false
    | none => false
  | none => false

theorem closedFor_all : ∀ b ∈ supportedBuiltins, closedFor b = true := by decide

theorem closedFor_elim {b : String} (h : closedFor b = true) :
    ∃ on ov hl, overloadName b = some on ∧ findOverload on = some ov ∧
      findHelper ov.call.callee = some hl ∧ hl.branches ≠ [] ∧
      ∀ br ∈ hl.branches, br.call.callee = b ∧
        ((ov.ret == .value && br.ret == .value) = true ∨ b = "print") := by
  unfold closedFor at h
  split at h
  · rename_i on h1
    split at h
    · rename_i ov h2
      split at h
      · rename_i hl h3
        simp only [Bool.and_eq_true, Bool.not_eq_true', List.all_eq_true, Bool.or_eq_true, beq_iff_eq] at h
        refine ⟨on, ov, hl, h1, h2, h3, ?_, ?_⟩
        · intro hn; rw [hn] at h; simp at h
        · intro br hbr
          have := h.2 br hbr
          exact ⟨this.1, by simpa using this.2⟩
      · cases h
    · cases h
  · cases h

/-! ### keyword order is irrelevant to binding -/

theorem keysNodup_iff {β : Type} (kw : List (String × β)) : keysNodup kw = true ↔ (kw.map (·.1)).Nodup := by
  induction kw with
  | nil => simp [keysNodup]
  | cons kv r ih =>
    simp only [keysNodup, Bool.and_eq_true, Bool.not_eq_true', ih, List.map_cons, List.nodup_cons, List.mem_map, not_exists, not_and]
    constructor
    · rintro ⟨h1, h2⟩
      refine ⟨?_, h2⟩
      intro x hx heq
      simp only [hasKey, List.any_eq_false, beq_iff_eq] at h1
      exact h1 x hx heq
    · rintro ⟨h1, h2⟩
      refine ⟨?_, h2⟩
      simp only [hasKey, List.any_eq_false, beq_iff_eq]
      intro x hx heq
      exact h1 x hx heq

theorem hasKey_perm {β : Type} (k : String) {kw kw' : List (String × β)} (h : kw.Perm kw') : hasKey k kw = hasKey k kw' := by
  simp only [hasKey]
  exact h.any_eq

theorem lookup_perm {β : Type} (k : String) {kw kw' : List (String × β)} (h : kw.Perm kw')
    (hn : (kw.map (·.1)).Nodup) : kw.lookup k = kw'.lookup k := by
  induction h with
  | nil => rfl
  | cons x _ ih =>
    rcases x with ⟨a, b⟩
    simp only [List.map_cons, List.nodup_cons] at hn
    simp only [List.lookup_cons]
    split
    · rfl
    · exact ih hn.2
  | swap x y l =>
    rcases x with ⟨a, b⟩; rcases y with ⟨c, d⟩
    simp only [List.map_cons, List.nodup_cons, List.mem_cons, not_or] at hn
    simp only [List.lookup_cons]
    by_cases h1 : k == c <;> by_cases h2 : k == a <;> simp [h1, h2]
    simp only [beq_iff_eq] at h1 h2
    exact absurd (h1.symm.trans h2) hn.1.1
  | trans h1 _ ih1 ih2 =>
    rw [ih1 hn, ih2 ((h1.map _).nodup_iff.mp hn)]

/-- Keyword order does not matter to acceptance. -/
theorem accepts_kw_perm (sig : Signature) (pos : List (Val α)) {kw kw' : List (String × Val α)} (h : kw.Perm kw') :
    accepts sig ⟨pos, kw⟩ = accepts sig ⟨pos, kw'⟩ := by
  have h1 : keysNodup kw = keysNodup kw' := by
    rw [Bool.eq_iff_iff, keysNodup_iff, keysNodup_iff]
    exact (h.map _).nodup_iff
  have h2 : kw.all (fun kv => kwAdmissible sig pos.length kv.1) = kw'.all (fun kv => kwAdmissible sig pos.length kv.1) := h.all_eq
  have h3 : sig.all (satisfied sig ⟨pos, kw⟩) = sig.all (satisfied sig ⟨pos, kw'⟩) := by
    congr 1
    funext p
    simp only [satisfied, filled, hasKey_perm p.name h]
  simp only [accepts, h1, h2, h3]

/-- Without `**kwargs`, keyword order does not matter to what the parameters are bound to. -/
theorem envOf_kw_perm (sig : Signature) (hv : hasVarKw sig = false) (pos : List (Val α)) {kw kw' : List (String × Val α)}
    (h : kw.Perm kw') (hn : keysNodup kw = true) : envOf sig ⟨pos, kw⟩ = envOf sig ⟨pos, kw'⟩ := by
  have hn' := (keysNodup_iff kw).mp hn
  simp only [envOf]
  apply List.map_congr_left
  intro p hp
  congr 1
  have hk : p.kind ≠ .varKw := by
    intro hk
    have : hasVarKw sig = true := by
      simp only [hasVarKw, List.any_eq_true]
      exact ⟨p, hp, by simp [hk]⟩
    rw [hv] at this; cases this
  unfold boundOf
  cases hkind : p.kind <;> simp_all [lookup_perm p.name h hn']

theorem false_of_eq_true_false {b : Bool} (h : b = true) (h' : b = false) : False := by
  rw [h] at h'; cases h'

end Malt.Builtins
