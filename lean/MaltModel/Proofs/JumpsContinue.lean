import MaltModel.Proofs.JumpsBreak
/-
Semantic preservation of the continue lowering `cntS/cntB/cntH` (Conv/JumpsSem.lean): forward simulation by
induction on fuel.  The guard state machine (`create_guard_current/next`) appears as the `guard` argument of
`cntB`: a statement that contains a `continue` of the current loop (`hit`) makes the rest of its block
conditional on the flag.
-/
namespace Malt.Sem.Jumps
open Malt.Sem

/-- Post-condition of the continue lowering for the current loop's flag `cur`. -/
def CPost (cur : Name) (hit : Bool) (o o' : Out) (σ' σ1' : St) : Prop :=
  (o = .cont → hit = true ∧ o' = .normal ∧ σ1'.env cur = some (.int 1)) ∧
  (o ≠ .cont → o' = o ∧ (σ1'.env cur = σ'.env cur ∨ Out.fatal o)) ∧
  (hit = false → σ1'.env cur = σ'.env cur)

theorem CPost.same {cur : Name} {o : Out} {σ' σ1' : St} (ho : o ≠ .cont) (h : σ1'.env cur = σ'.env cur) :
    CPost cur false o o σ' σ1' :=
  ⟨fun hb => absurd hb ho, fun _ => ⟨rfl, Or.inl h⟩, fun _ => h⟩

theorem CPost.mono {cur : Name} {h h' : Bool} {o o' : Out} {σ' σ1' : St}
    (hp : CPost cur h o o' σ' σ1') (hh : h = true → h' = true) : CPost cur h' o o' σ' σ1' := by
  refine ⟨fun hb => ?_, hp.2.1, fun hf => ?_⟩
  · obtain ⟨h1, h2, h3⟩ := hp.1 hb; exact ⟨hh h1, h2, h3⟩
  · apply hp.2.2
    cases h with
    | false => rfl
    | true => rw [hh rfl] at hf; cases hf

theorem CPost.rebase {cur : Name} {h : Bool} {o o' : Out} {σ' τ' σ1' : St}
    (hp : CPost cur h o o' τ' σ1') (he : τ'.env cur = σ'.env cur) : CPost cur h o o' σ' σ1' := by
  refine ⟨hp.1, fun hb => ?_, fun hf => ?_⟩
  · obtain ⟨a, b⟩ := hp.2.1 hb; exact ⟨a, by rw [← he]; exact b⟩
  · rw [← he]; exact hp.2.2 hf

/-- After a statement that ended normally the flag is unchanged. -/
theorem CPost.normal_cur {cur : Name} {h : Bool} {o' : Out} {σ' σs' : St}
    (hp : CPost cur h .normal o' σ' σs') : o' = .normal ∧ σs'.env cur = σ'.env cur := by
  obtain ⟨a, b⟩ := hp.2.1 (by simp)
  refine ⟨a, ?_⟩
  rcases b with b | b
  · exact b
  · exact absurd b (by simp [Out.fatal])

theorem CPost.seq {cur : Name} {h1 h2 : Bool} {o o' : Out} {σ' σs' σ1' : St}
    (hp1 : CPost cur h1 .normal .normal σ' σs') (hp2 : CPost cur h2 o o' σs' σ1') :
    CPost cur (h1 || h2) o o' σ' σ1' := by
  have hs' : σs'.env cur = σ'.env cur := hp1.normal_cur.2
  exact (hp2.rebase hs').mono (by intro h; simp [h])

/-! ### syntactic facts -/

mutual
theorem cntS_jumpFree (gen : Gen) (cur : Name) : ∀ (p : List Nat) (s : Stmt), jumpFreeS s = true →
    (cntS gen cur p s).2 = false
  | p, .brk, h => by simp [jumpFreeS] at h
  | p, .cont, h => by simp [jumpFreeS] at h
  | p, .ret e, h => by simp [jumpFreeS] at h
  | p, .assign x e, _ => by simp [cntS]
  | p, .expr e, _ => by simp [cntS]
  | p, .pass, _ => by simp [cntS]
  | p, .raise t, _ => by simp [cntS]
  | p, .ifS c t e, h => by
      simp only [jumpFreeS, Bool.and_eq_true] at h
      simp [cntS, cntB_jumpFree gen cur _ false t h.1, cntB_jumpFree gen cur _ false e h.2]
  | p, .whileS c b, h => by simp [cntS]
  | p, .forS x it ex b, h => by simp [cntS]
  | p, .tryS b hs f, h => by
      simp only [jumpFreeS, Bool.and_eq_true] at h
      simp [cntS, cntB_jumpFree gen cur _ false b h.1.1, cntH_jumpFree gen cur _ hs h.1.2,
        cntB_jumpFree gen cur _ false f h.2]
  | p, .withS t b, h => by
      simp only [jumpFreeS] at h
      simp [cntS, cntB_jumpFree gen cur _ false b h]
theorem cntB_jumpFree (gen : Gen) (cur : Name) : ∀ (p : List Nat) (g : Bool) (b : List Stmt), jumpFreeB b = true →
    (cntB gen cur p g b).2 = false
  | p, g, [], _ => by simp [cntB]
  | p, g, s :: rest, h => by
      simp only [jumpFreeB, Bool.and_eq_true] at h
      simp [cntB, cntS_jumpFree gen cur _ s h.1, cntB_jumpFree gen cur _ _ rest h.2]
theorem cntH_jumpFree (gen : Gen) (cur : Name) : ∀ (p : List Nat) (hs : List (Nat × List Stmt)), jumpFreeH hs = true →
    (cntH gen cur p hs).2 = false
  | p, [], _ => by simp [cntH]
  | p, (t, b) :: hs, h => by
      simp only [jumpFreeH, Bool.and_eq_true] at h
      simp [cntH, cntB_jumpFree gen cur _ false b h.1, cntH_jumpFree gen cur _ hs h.2]
end

theorem cntH_find (gen : Gen) (cur : Name) (ex : Exc) : ∀ (p : List Nat) (hs : List (Nat × Block)) (hb : Block),
    findHandler hs ex = some hb →
    ∃ j, findHandler (cntH gen cur p hs).1 ex = some (cntB gen cur (j :: p) false hb).1 ∧
      ((cntH gen cur p hs).2 = false → (cntB gen cur (j :: p) false hb).2 = false) := by
  intro p hs hb h
  cases ex with
  | user t =>
    simp only [findHandler] at h ⊢
    induction hs with
    | nil => simp at h
    | cons ph hs ih =>
      obtain ⟨t', b⟩ := ph
      simp only [List.find?] at h
      simp only [cntH, List.find?]
      by_cases ht : (t' == t) = true
      · simp only [ht] at h ⊢
        simp at h; subst h
        refine ⟨hs.length, by simp, ?_⟩
        intro hf; simp only [Bool.or_eq_false_iff] at hf; exact hf.1
      · simp only [ht] at h ⊢
        obtain ⟨j, h1, h2⟩ := ih h
        refine ⟨j, h1, ?_⟩
        intro hf; simp only [Bool.or_eq_false_iff] at hf; exact h2 hf.2
  | nameError x => simp [findHandler] at h
  | typeError => simp [findHandler] at h

theorem cntH_find_none (gen : Gen) (cur : Name) (ex : Exc) : ∀ (p : List Nat) (hs : List (Nat × Block)),
    findHandler hs ex = none → findHandler (cntH gen cur p hs).1 ex = none := by
  intro p hs h
  cases ex with
  | user t =>
    simp only [findHandler] at h ⊢
    induction hs with
    | nil => simp [cntH]
    | cons ph hs ih =>
      obtain ⟨t', b⟩ := ph
      simp only [List.find?] at h
      simp only [cntH, List.find?]
      by_cases ht : (t' == t) = true
      · simp [ht] at h
      · simp only [ht] at h ⊢
        exact ih h
  | nameError x => simp [findHandler]
  | typeError => simp [findHandler]

/-- With the flag set, a guarded rest-of-block does nothing. -/
theorem cntB_guard_skip (gen : Gen) (X : Ext) (cur : Name) (p : List Nat) (rest : Block) {σ : St}
    (h : σ.env cur = some (.int 1)) :
    execB X 3 (cntB gen cur p true rest).1 σ = some (.normal, σ) := by
  cases rest with
  | nil => simp [cntB, execB]
  | cons s rest =>
    simp only [cntB, if_true]
    exact execB_singleton (exec_ifNot_true X _ 0 h)

/-! ### the simulation statements -/

section
variable (gen : Gen) (X : Ext)

def CSimS (n : Nat) : Prop :=
  ∀ (s : Stmt) (pc p : List Nat) (σ σ' : St) (o : Out) (σ1 : St),
    CleanS (Hid gen) s → finOKS s = true → pc.length < p.length →
    Agree (Hid gen) σ σ' → ((cntS gen (gen pc) p s).2 = true → σ'.env (gen pc) = some (.int 0)) →
    exec X n s σ = some (o, σ1) →
    ∃ m σ1' o', execB X m (cntS gen (gen pc) p s).1 σ' = some (o', σ1') ∧ Agree (Hid gen) σ1 σ1' ∧
      CPost (gen pc) (cntS gen (gen pc) p s).2 o o' σ' σ1' ∧ Frame gen p.length pc σ' σ1'

def CSimB (n : Nat) : Prop :=
  ∀ (b : Block) (pc p : List Nat) (g : Bool) (σ σ' : St) (o : Out) (σ1 : St),
    CleanB (Hid gen) b → finOKB b = true → pc.length ≤ p.length →
    Agree (Hid gen) σ σ' →
    ((g = true ∨ (cntB gen (gen pc) p g b).2 = true) → σ'.env (gen pc) = some (.int 0)) →
    execB X n b σ = some (o, σ1) →
    ∃ m σ1' o', execB X m (cntB gen (gen pc) p g b).1 σ' = some (o', σ1') ∧ Agree (Hid gen) σ1 σ1' ∧
      CPost (gen pc) (cntB gen (gen pc) p g b).2 o o' σ' σ1' ∧ Frame gen (p.length + 1) pc σ' σ1'

/-- The body of a lowered loop. -/
def cntBody (p : List Nat) (b : Block) : Block :=
  if (cntB gen (gen p) p false b).2 then .assign (gen p) cFalse :: (cntB gen (gen p) p false b).1
  else (cntB gen (gen p) p false b).1

def CSimW (n : Nat) : Prop :=
  ∀ (c : Expr) (b : Block) (p : List Nat) (σ σ' : St) (o : Out) (σ1 : St),
    CleanE (Hid gen) c → CleanB (Hid gen) b → finOKB b = true →
    Agree (Hid gen) σ σ' →
    exec X n (.whileS c b) σ = some (o, σ1) →
    ∃ m σ1', exec X m (.whileS c (cntBody gen p b)) σ' = some (o, σ1') ∧ Agree (Hid gen) σ1 σ1' ∧
      (∀ q : List Nat, q.length < p.length → σ1'.env (gen q) = σ'.env (gen q))

def CSimF (n : Nat) : Prop :=
  ∀ (x : Name) (ex : Option Expr) (b : Block) (p : List Nat) (items : List Val) (σ σ' : St) (o : Out) (σ1 : St),
    ¬ Hid gen x → CleanO (Hid gen) ex → CleanB (Hid gen) b → finOKB b = true →
    Agree (Hid gen) σ σ' →
    execFor X n x ex b items σ = some (o, σ1) →
    ∃ m σ1', execFor X m x ex (cntBody gen p b) items σ' = some (o, σ1') ∧
      Agree (Hid gen) σ1 σ1' ∧
      (∀ q : List Nat, q.length < p.length → σ1'.env (gen q) = σ'.env (gen q))

end

section
variable (gen : Gen) (X : Ext)

theorem csimB_step (n : Nat) (hS : CSimS gen X n) (hB : CSimB gen X n) : CSimB gen X (n+1) := by
  intro b pc p g σ σ' o σ1 hc hf hpc hag hpre h
  cases b with
  | nil =>
    simp [execB] at h; obtain ⟨rfl, rfl⟩ := h
    exact ⟨1, σ', .normal, by simp [cntB, execB], hag, CPost.same (by simp) rfl, Frame.refl _ _ _ _⟩
  | cons s rest =>
    simp only [CleanB] at hc
    simp only [finOKB, Bool.and_eq_true] at hf
    obtain ⟨os, σs, hs, hcase⟩ := execB_cons_inv h
    have hhit : (cntB gen (gen pc) p g (s :: rest)).2 =
        ((cntS gen (gen pc) (rest.length :: p) s).2 ||
          (cntB gen (gen pc) p (cntS gen (gen pc) (rest.length :: p) s).2 rest).2) := by
      simp [cntB]
    have hpreS : (cntS gen (gen pc) (rest.length :: p) s).2 = true → σ'.env (gen pc) = some (.int 0) :=
      fun hh => hpre (Or.inr (by rw [hhit, hh]; rfl))
    obtain ⟨m1, σs', os', hx1, hag1, hp1, hfr1⟩ :=
      hS s pc (rest.length :: p) σ σ' os σs hc.1 hf.1 (by simp; omega) hag hpreS hs
    simp only [List.length_cons] at hfr1
    have hinner : ∃ m σ1' o', execB X m ((cntS gen (gen pc) (rest.length :: p) s).1 ++
          (cntB gen (gen pc) p (cntS gen (gen pc) (rest.length :: p) s).2 rest).1) σ' = some (o', σ1') ∧
        Agree (Hid gen) σ1 σ1' ∧
        CPost (gen pc) (cntB gen (gen pc) p g (s :: rest)).2 o o' σ' σ1' ∧
        Frame gen (p.length + 1) pc σ' σ1' := by
      rw [hhit]
      rcases hcase with ⟨hn, hr⟩ | ⟨hn, hr⟩
      · subst hn
        obtain ⟨hos', hcur⟩ := hp1.normal_cur
        subst hos'
        have hpreR : ((cntS gen (gen pc) (rest.length :: p) s).2 = true ∨
            (cntB gen (gen pc) p (cntS gen (gen pc) (rest.length :: p) s).2 rest).2 = true) →
            σs'.env (gen pc) = some (.int 0) := by
          intro hh
          rw [hcur]; apply hpre; right; rw [hhit]
          rcases hh with hh | hh <;> simp [hh]
        obtain ⟨m2, σ1', o', hx2, hag2, hp2, hfr2⟩ :=
          hB rest pc p _ σs σs' o σ1 hc.2 hf.2 hpc hag1 hpreR hr
        exact ⟨m1 + m2, σ1', o', execB_append hx1 hx2, hag2, CPost.seq hp1 hp2, hfr1.trans hfr2⟩
      · simp at hr; obtain ⟨rfl, rfl⟩ := hr
        by_cases hoc : o = .cont
        · subst hoc
          obtain ⟨hh, hos', hone⟩ := hp1.1 rfl
          subst hos'
          rw [hh]
          refine ⟨m1 + 3, σs', .normal, execB_append hx1 (cntB_guard_skip gen X (gen pc) p rest hone), hag1, ?_, hfr1⟩
          exact ⟨fun _ => ⟨by simp, rfl, hone⟩, fun hne => absurd rfl hne, fun hf => by simp at hf⟩
        · have hos' : os' = o := (hp1.2.1 hoc).1
          subst hos'
          exact ⟨m1, σs', os', execB_append_abrupt _ hx1 hn, hag1, hp1.mono (by intro h; simp [h]), hfr1⟩
    obtain ⟨m, σ1', o', hx, hag', hp', hfr'⟩ := hinner
    by_cases hg : g = true
    · subst hg
      refine ⟨m + 2, σ1', o', ?_, hag', hp', hfr'⟩
      simp only [cntB, if_true]
      apply execB_singleton (n := m + 1)
      rw [exec_ifNot_false X _ m (hpre (Or.inl rfl))]
      exact hx
    · have hg' : g = false := by simpa using hg
      subst hg'
      refine ⟨m, σ1', o', ?_, hag', hp', hfr'⟩
      simpa [cntB] using hx

end

section
variable (gen : Gen) (X : Ext)

/-- One execution of a lowered loop body. -/
theorem csim_body (inj : ∀ p q : List Nat, gen p = gen q → p = q) (n : Nat) (hB : CSimB gen X n)
    (b : Block) (p : List Nat) (hcb : CleanB (Hid gen) b) (hfb : finOKB b = true)
    {τ τ' τ1 : St} {ob : Out} (hag : Agree (Hid gen) τ τ') (hb : execB X n b τ = some (ob, τ1)) :
    ∃ m τ1' ob', execB X m (cntBody gen p b) τ' = some (ob', τ1') ∧ Agree (Hid gen) τ1 τ1' ∧
      (ob = .cont → ob' = .normal) ∧ (ob ≠ .cont → ob' = ob) ∧
      (∀ q : List Nat, q.length < p.length → τ1'.env (gen q) = τ'.env (gen q)) := by
  by_cases hu : (cntB gen (gen p) p false b).2 = true
  · obtain ⟨m, τ1', ob', hx, hag1, hp1, hfr1⟩ :=
      hB b p p false τ (τ'.set (gen p) (.int 0)) ob τ1 hcb hfb (Nat.le_refl _)
        (hag.setHidden (Hid.gen gen p) _) (fun _ => by simp) hb
    refine ⟨m + 1, τ1', ob', ?_, hag1, fun h => (hp1.1 h).2.1, fun h => (hp1.2.1 h).1, ?_⟩
    · simp only [cntBody, hu, if_true]
      have ha : exec X m (.assign (gen p) cFalse) τ' = some (.normal, τ'.set (gen p) (.int 0)) := by
        cases m with
        | zero => simp [execB] at hx
        | succ m => simp [exec, evalE, cFalse]
      rw [execB_cons_normal ha]; exact hx
    · intro q hq
      rw [hfr1 q (by omega) (by intro he; subst he; omega),
        St.set_env_ne _ _ (fun he => by have := inj _ _ he; subst this; omega)]
  · have hu' : (cntB gen (gen p) p false b).2 = false := by simpa using hu
    obtain ⟨m, τ1', ob', hx, hag1, hp1, hfr1⟩ :=
      hB b p p false τ τ' ob τ1 hcb hfb (Nat.le_refl _) hag
        (by intro h; rcases h with h | h <;> simp_all) hb
    refine ⟨m, τ1', ob', ?_, hag1, fun h => (hp1.1 h).2.1, fun h => (hp1.2.1 h).1, ?_⟩
    · simpa [cntBody, hu'] using hx
    · intro q hq
      exact hfr1 q (by omega) (by intro he; subst he; omega)

theorem csimW_step (inj : ∀ p q : List Nat, gen p = gen q → p = q) (n : Nat)
    (hB : CSimB gen X n) (hW : CSimW gen X n) : CSimW gen X (n+1) := by
  intro c b p σ σ' o σ1 hcc hcb hfb hag h
  rcases hr : evalE X c σ with ⟨r, τ⟩
  obtain ⟨τ', hr', hag', henv⟩ := evalE_agree' hcc hag hr
  cases r with
  | error ex =>
    rw [exec_while_err hr] at h; simp at h; obtain ⟨rfl, rfl⟩ := h
    exact ⟨1, τ', exec_while_err hr', hag', fun q _ => by rw [henv]⟩
  | ok v =>
    cases hv : truthy v with
    | false =>
      rw [exec_while_false hr hv] at h; simp at h; obtain ⟨rfl, rfl⟩ := h
      exact ⟨1, τ', exec_while_false hr' hv, hag', fun q _ => by rw [henv]⟩
    | true =>
      cases hb : execB X n b τ with
      | none => rw [exec_while_none hr hv hb] at h; simp at h
      | some rb =>
        obtain ⟨ob, τ1⟩ := rb
        rw [exec_while_step hr hv hb] at h
        obtain ⟨m1, τ1', ob', hx1, hag1, hc1, hc2, hfr1⟩ := csim_body gen X inj n hB b p hcb hfb hag' hb
        have hframe : ∀ q : List Nat, q.length < p.length → τ1'.env (gen q) = σ'.env (gen q) := by
          intro q hq; rw [hfr1 q hq, henv]
        have hcontinue : (ob' = .normal) → exec X n (.whileS c b) τ1 = some (o, σ1) →
            ∃ m σ1', exec X m (.whileS c (cntBody gen p b)) σ' = some (o, σ1') ∧ Agree (Hid gen) σ1 σ1' ∧
              (∀ q : List Nat, q.length < p.length → σ1'.env (gen q) = σ'.env (gen q)) := by
          intro hob hw
          subst hob
          obtain ⟨m2, σ1', hx2, hag2, hfr2⟩ := hW c b p τ1 τ1' o σ1 hcc hcb hfb hag1 hw
          refine ⟨max m1 m2 + 1, σ1', ?_, hag2, fun q hq => by rw [hfr2 q hq, hframe q hq]⟩
          rw [exec_while_step hr' hv (execB_mono X hx1 (Nat.le_max_left _ _))]
          exact exec_mono X hx2 (Nat.le_max_right _ _)
        cases ob with
        | normal => exact hcontinue (hc2 (by simp)) h
        | cont => exact hcontinue (hc1 rfl) h
        | brk =>
          simp at h; obtain ⟨rfl, rfl⟩ := h
          have := hc2 (by simp); subst this
          exact ⟨m1 + 1, τ1', by rw [exec_while_step hr' hv hx1], hag1, hframe⟩
        | ret rv =>
          simp at h; obtain ⟨rfl, rfl⟩ := h
          have := hc2 (by simp); subst this
          exact ⟨m1 + 1, τ1', by rw [exec_while_step hr' hv hx1], hag1, hframe⟩
        | exc ex =>
          simp at h; obtain ⟨rfl, rfl⟩ := h
          have := hc2 (by simp); subst this
          exact ⟨m1 + 1, τ1', by rw [exec_while_step hr' hv hx1], hag1, hframe⟩

theorem csimF_step (inj : ∀ p q : List Nat, gen p = gen q → p = q) (n : Nat)
    (hB : CSimB gen X n) (hF : CSimF gen X n) : CSimF gen X (n+1) := by
  intro x ex b p items σ σ' o σ1 hx hcex hcb hfb hag h
  cases items with
  | nil =>
    simp [execFor] at h; obtain ⟨rfl, rfl⟩ := h
    exact ⟨1, σ', by simp [execFor], hag, fun _ _ => rfl⟩
  | cons v items =>
    cases hb : execB X n b (σ.set x v) with
    | none => rw [execFor_cons_none hb] at h; simp at h
    | some rb =>
      obtain ⟨ob, τ1⟩ := rb
      rw [execFor_cons hb] at h
      have hxne : ∀ q : List Nat, gen q ≠ x := fun q he => hx ⟨q, he.symm⟩
      obtain ⟨m1, τ1', ob', hx1, hag1, hc1, hc2, hfr1⟩ :=
        csim_body gen X inj n hB b p hcb hfb (hag.set x v) hb
      have hframe : ∀ q : List Nat, q.length < p.length → τ1'.env (gen q) = σ'.env (gen q) := by
        intro q hq; rw [hfr1 q hq, St.set_env_ne _ _ (hxne q)]
      have hcontinue : (ob' = .normal) → forNext X n x ex b items τ1 = some (o, σ1) →
          ∃ m σ1', execFor X m x ex (cntBody gen p b) (v :: items) σ' = some (o, σ1') ∧
            Agree (Hid gen) σ1 σ1' ∧
            (∀ q : List Nat, q.length < p.length → σ1'.env (gen q) = σ'.env (gen q)) := by
        intro hob hw
        subst hob
        have hnext : ∃ m2 σ1', forNext X m2 x ex (cntBody gen p b) items τ1' = some (o, σ1') ∧
            Agree (Hid gen) σ1 σ1' ∧
            (∀ q : List Nat, q.length < p.length → σ1'.env (gen q) = τ1'.env (gen q)) := by
          cases ex with
          | none =>
            simp only [forNext] at hw ⊢
            exact hF x none b p items τ1 τ1' o σ1 hx hcex hcb hfb hag1 hw
          | some t =>
            simp only [CleanO] at hcex
            simp only [forNext] at hw ⊢
            rcases hr2 : evalE X t τ1 with ⟨r2, υ⟩
            obtain ⟨υ', hr2', hag2, henv2⟩ := evalE_agree' hcex hag1 hr2
            rw [hr2] at hw
            cases r2 with
            | error e =>
              simp at hw; obtain ⟨rfl, rfl⟩ := hw
              exact ⟨0, υ', by simp [hr2'], hag2, fun q _ => by rw [henv2]⟩
            | ok tv =>
              simp only at hw
              by_cases htv : truthy tv = true
              · rw [if_pos htv] at hw
                obtain ⟨m2, σ1', hx2, hag3, hfr3⟩ :=
                  hF x (some t) b p items υ υ' o σ1 hx (by simpa [CleanO] using hcex) hcb hfb hag2 hw
                exact ⟨m2, σ1', by simp [hr2', htv, hx2], hag3, fun q hq => by rw [hfr3 q hq, henv2]⟩
              · rw [if_neg htv] at hw
                simp at hw; obtain ⟨rfl, rfl⟩ := hw
                exact ⟨0, υ', by simp [hr2', htv], hag2, fun q _ => by rw [henv2]⟩
        obtain ⟨m2, σ1', hx2, hag2, hfr2⟩ := hnext
        refine ⟨max m1 m2 + 1, σ1', ?_, hag2, fun q hq => by rw [hfr2 q hq, hframe q hq]⟩
        rw [execFor_cons (execB_mono X hx1 (Nat.le_max_left _ _))]
        exact forNext_mono X hx2 (Nat.le_max_right _ _)
      cases ob with
      | normal => exact hcontinue (hc2 (by simp)) h
      | cont => exact hcontinue (hc1 rfl) h
      | brk =>
        simp at h; obtain ⟨rfl, rfl⟩ := h
        have := hc2 (by simp); subst this
        exact ⟨m1 + 1, τ1', by rw [execFor_cons hx1], hag1, hframe⟩
      | ret rv =>
        simp at h; obtain ⟨rfl, rfl⟩ := h
        have := hc2 (by simp); subst this
        exact ⟨m1 + 1, τ1', by rw [execFor_cons hx1], hag1, hframe⟩
      | exc e =>
        simp at h; obtain ⟨rfl, rfl⟩ := h
        have := hc2 (by simp); subst this
        exact ⟨m1 + 1, τ1', by rw [execFor_cons hx1], hag1, hframe⟩

end

section
variable (gen : Gen) (X : Ext)

/-- The handler step of a lowered `try`. -/
theorem csim_afterH (n : Nat) (hB : CSimB gen X n) (pc p : List Nat) (hs : List (Nat × Block))
    (hch : CleanH (Hid gen) hs) (hfh : finOKH hs = true) (hpc : pc.length < p.length)
    {hitb : Bool} {ob ob' oa : Out} {σ' τ τ' τa : St}
    (hpre : (cntH gen (gen pc) (1 :: p) hs).2 = true → σ'.env (gen pc) = some (.int 0))
    (hag : Agree (Hid gen) τ τ') (hp : CPost (gen pc) hitb ob ob' σ' τ') (hfr : Frame gen p.length pc σ' τ')
    (ha : afterH X n hs (ob, τ) = some (oa, τa)) :
    ∃ m τa' oa', afterH X m (cntH gen (gen pc) (1 :: p) hs).1 (ob', τ') = some (oa', τa') ∧
      Agree (Hid gen) τa τa' ∧
      CPost (gen pc) (hitb || (cntH gen (gen pc) (1 :: p) hs).2) oa oa' σ' τa' ∧
      Frame gen p.length pc σ' τa' := by
  have hpass : (∀ ex, ob' ≠ .exc ex) → (oa, τa) = (ob, τ) →
      ∃ m τa' oa', afterH X m (cntH gen (gen pc) (1 :: p) hs).1 (ob', τ') = some (oa', τa') ∧
      Agree (Hid gen) τa τa' ∧
      CPost (gen pc) (hitb || (cntH gen (gen pc) (1 :: p) hs).2) oa oa' σ' τa' ∧
      Frame gen p.length pc σ' τa' := by
    intro hne heq
    simp at heq; obtain ⟨rfl, rfl⟩ := heq
    refine ⟨1, τ', ob', ?_, hag, hp.mono (by intro h; simp [h]), hfr⟩
    cases ob' with
    | exc ex => exact absurd rfl (hne ex)
    | _ => simp [afterH]
  cases ob with
  | exc ex =>
    obtain ⟨hob', hfl⟩ := hp.2.1 (by simp)
    subst hob'
    simp only [afterH] at ha
    cases hf : findHandler hs ex with
    | none =>
      rw [hf] at ha; simp at ha; obtain ⟨rfl, rfl⟩ := ha
      refine ⟨1, τ', .exc ex, ?_, hag, hp.mono (by intro h; simp [h]), hfr⟩
      simp [afterH, cntH_find_none gen (gen pc) ex (1 :: p) hs hf]
    | some hbk =>
      rw [hf] at ha; simp only at ha
      obtain ⟨j, hfind, hhit⟩ := cntH_find gen (gen pc) ex (1 :: p) hs hbk hf
      have hcur : τ'.env (gen pc) = σ'.env (gen pc) := by
        rcases hfl with hfl | hfl
        · exact hfl
        · rw [findHandler_fatal hfl] at hf; cases hf
      have hhit' : (cntB gen (gen pc) (j :: 1 :: p) false hbk).2 = true →
          (cntH gen (gen pc) (1 :: p) hs).2 = true := by
        intro h
        cases hh : (cntH gen (gen pc) (1 :: p) hs).2 with
        | true => rfl
        | false => rw [hhit hh] at h; cases h
      obtain ⟨m2, τa', oa', hx2, hag2, hp2, hfr2⟩ :=
        hB hbk pc (j :: 1 :: p) false τ τ' oa τa (CleanH_find hch hf) (finOKH_find hfh hf)
          (by simp; omega) hag
          (by intro h; rcases h with h | h
              · cases h
              · rw [hcur]; exact hpre (hhit' h)) ha
      refine ⟨m2, τa', oa', ?_, hag2, (hp2.rebase hcur).mono ?_, hfr.trans (hfr2.mono (by simp; omega))⟩
      · simp only [afterH, hfind]; exact hx2
      · intro h; simp [hhit' h]
  | normal =>
    simp [afterH] at ha
    exact hpass (by intro ex; rw [(hp.2.1 (by simp)).1]; simp) (by simp [ha])
  | brk =>
    simp [afterH] at ha
    exact hpass (by intro ex; rw [(hp.2.1 (by simp)).1]; simp) (by simp [ha])
  | ret v =>
    simp [afterH] at ha
    exact hpass (by intro ex; rw [(hp.2.1 (by simp)).1]; simp) (by simp [ha])
  | cont =>
    simp [afterH] at ha
    exact hpass (by intro ex; rw [(hp.1 rfl).2.1]; simp) (by simp [ha])

/-- The `finally` step of a lowered `try`. -/
theorem csim_finish (n : Nat) (hB : CSimB gen X n) (pc p : List Nat) (fin : Block)
    (hcf : CleanB (Hid gen) fin) (hff : finOKB fin = true)
    (hjf : escFreeB fin = true) (hpc : pc.length < p.length)
    {hit : Bool} {oa oa' o : Out} {σ' τa τa' σ1 : St}
    (hq : quietB fin = true ∨ hit = false)
    (hag : Agree (Hid gen) τa τa') (hp : CPost (gen pc) hit oa oa' σ' τa') (hfr : Frame gen p.length pc σ' τa')
    (hfin : finish X n fin (oa, τa) = some (o, σ1)) :
    ∃ m σ1' o', finish X m (cntB gen (gen pc) (2 :: p) false fin).1 (oa', τa') = some (o', σ1') ∧
      Agree (Hid gen) σ1 σ1' ∧
      CPost (gen pc) (hit || (cntB gen (gen pc) (2 :: p) false fin).2) o o' σ' σ1' ∧
      Frame gen p.length pc σ' σ1' := by
  obtain ⟨of, σf, hf, hcase⟩ := finish_some hfin
  have hhitf : (cntB gen (gen pc) (2 :: p) false fin).2 = false := by
    rw [cntB_hit]
    simp only [escFreeB, Bool.and_eq_true, Bool.not_eq_true'] at hjf
    exact hjf.1.2
  obtain ⟨m, σf', of', hxf, hagf, hpf, hfrf⟩ :=
    hB fin pc (2 :: p) false τa τa' of σf hcf hff (by simp; omega) hag
      (by intro h; rcases h with h | h
          · cases h
          · rw [hhitf] at h; cases h) hf
  have hcurf : σf'.env (gen pc) = τa'.env (gen pc) := hpf.2.2 hhitf
  have hofc : of ≠ .cont := by
    rcases escFreeB_outcome X hjf hf with h | ⟨e, h⟩ <;> simp [h]
  obtain ⟨hof', _⟩ := hpf.2.1 hofc
  rw [hof'] at hxf
  have hfr' : Frame gen p.length pc σ' σf' := hfr.trans (hfrf.mono (by simp; omega))
  rw [hhitf, Bool.or_false]
  rcases hcase with ⟨hn, heq⟩ | ⟨hn, heq⟩
  · subst hn; simp at heq; obtain ⟨rfl, rfl⟩ := heq
    refine ⟨m, σf', oa', finish_of_normal hxf, hagf, ?_, hfr'⟩
    refine ⟨fun hb => ?_, fun hb => ?_, fun hh => ?_⟩
    · obtain ⟨a, b, c⟩ := hp.1 hb; exact ⟨a, b, by rw [hcurf]; exact c⟩
    · obtain ⟨a, b⟩ := hp.2.1 hb; exact ⟨a, by rw [hcurf]; exact b⟩
    · rw [hcurf]; exact hp.2.2 hh
  · simp at heq; obtain ⟨rfl, rfl⟩ := heq
    have hoa' : ∃ m', finish X m' (cntB gen (gen pc) (2 :: p) false fin).1 (oa', τa') = some (o, σf') :=
      ⟨m, finish_of_abrupt hxf hn⟩
    obtain ⟨m', hx'⟩ := hoa'
    refine ⟨m', σf', _, hx', hagf, ?_, hfr'⟩
    refine ⟨fun hb => absurd hb hofc, fun _ => ⟨rfl, ?_⟩, fun hh => ?_⟩
    · rcases hq with hq | hq
      · rcases quietB_outcome X hq hf with h | h
        · exact absurd h hn
        · exact Or.inr h
      · exact Or.inl (by rw [hcurf]; exact hp.2.2 hq)
    · rw [hcurf]; exact hp.2.2 hh

end

section
variable (gen : Gen) (X : Ext)

theorem csim_atomic (s : Stmt) (pc p : List Nat) (n : Nat) (σ σ' : St) (o : Out) (σ1 : St)
    (hlow : cntS gen (gen pc) p s = ([s], false)) (hc : CleanS (Hid gen) s) (hag : Agree (Hid gen) σ σ')
    (h : exec X n s σ = some (o, σ1)) (ho : o ≠ .cont) :
    ∃ m σ1' o', execB X m (cntS gen (gen pc) p s).1 σ' = some (o', σ1') ∧ Agree (Hid gen) σ1 σ1' ∧
      CPost (gen pc) (cntS gen (gen pc) p s).2 o o' σ' σ1' ∧ Frame gen p.length pc σ' σ1' := by
  obtain ⟨σ1', hx, hag1, hh⟩ := exec_agree X (Hid gen) hc hag h
  rw [hlow]
  exact ⟨n + 1, σ1', o, execB_singleton hx, hag1, CPost.same ho (hh _ (Hid.gen gen pc)), Frame.of_sameHidden hh⟩

theorem csimS_step (inj : ∀ p q : List Nat, gen p = gen q → p = q) (n : Nat)
    (hB : CSimB gen X n) (hW : CSimW gen X (n+1)) (hF : CSimF gen X n) : CSimS gen X (n+1) := by
  intro s pc p σ σ' o σ1 hc hf hpc hag hpre h
  cases s with
  | cont =>
    simp [exec] at h; obtain ⟨rfl, rfl⟩ := h
    refine ⟨2, σ'.set (gen pc) (.int 1), .normal, ?_, hag.setHidden (Hid.gen gen pc) _, ?_, ?_⟩
    · simp [cntS, execB, exec, evalE, cTrue]
    · exact ⟨fun _ => ⟨rfl, rfl, by simp⟩, fun hb => absurd rfl hb, fun hh => by simp [cntS] at hh⟩
    · intro q _ hq
      exact St.set_env_ne _ _ (fun he => hq (inj _ _ he))
  | brk =>
    have h' := h
    simp [exec] at h
    exact csim_atomic gen X .brk pc p (n+1) σ σ' o σ1 (by simp [cntS]) hc hag h' (by simp [← h.1])
  | pass =>
    have h' := h
    simp [exec] at h
    exact csim_atomic gen X .pass pc p (n+1) σ σ' o σ1 (by simp [cntS]) hc hag h' (by simp [← h.1])
  | raise t =>
    have h' := h
    simp [exec] at h
    exact csim_atomic gen X (.raise t) pc p (n+1) σ σ' o σ1 (by simp [cntS]) hc hag h' (by simp [← h.1])
  | assign x e =>
    have h' := h
    simp only [exec] at h
    have ho : o ≠ .cont := by split at h <;> simp at h <;> simp [← h.1]
    exact csim_atomic gen X (.assign x e) pc p (n+1) σ σ' o σ1 (by simp [cntS]) hc hag h' ho
  | expr e =>
    have h' := h
    simp only [exec] at h
    have ho : o ≠ .cont := by split at h <;> simp at h <;> simp [← h.1]
    exact csim_atomic gen X (.expr e) pc p (n+1) σ σ' o σ1 (by simp [cntS]) hc hag h' ho
  | ret e =>
    have h' := h
    have ho : o ≠ .cont := by
      cases e with
      | none => simp [exec] at h; simp [← h.1]
      | some e => simp only [exec] at h; split at h <;> simp at h <;> simp [← h.1]
    exact csim_atomic gen X (.ret e) pc p (n+1) σ σ' o σ1 (by simp [cntS]) hc hag h' ho
  | ifS c t e =>
    simp only [CleanS] at hc
    simp only [finOKS, Bool.and_eq_true] at hf
    simp only [exec] at h
    rcases hr : evalE X c σ with ⟨r, τ⟩
    obtain ⟨τ', hr', hag', henv⟩ := evalE_agree' hc.1 hag hr
    rw [hr] at h
    have hhit : (cntS gen (gen pc) p (.ifS c t e)).2 =
        ((cntB gen (gen pc) (0 :: p) false t).2 || (cntB gen (gen pc) (1 :: p) false e).2) := by simp [cntS]
    simp only [cntS]
    cases r with
    | error ex =>
      simp at h; obtain ⟨rfl, rfl⟩ := h
      refine ⟨2, τ', .exc ex, ?_, hag', ?_, Frame.of_env henv⟩
      · simp [execB, exec, hr']
      · exact (CPost.same (by simp) (by rw [henv])).mono (by simp)
    | ok v =>
      simp only at h
      by_cases hv : truthy v = true
      · rw [if_pos hv] at h
        obtain ⟨m, σ1', o', hx, hag1, hp1, hfr1⟩ :=
          hB t pc (0 :: p) false τ τ' o σ1 hc.2.1 hf.1 (by simp; omega) hag'
            (by intro hh; rcases hh with hh | hh
                · cases hh
                · rw [henv]; apply hpre; rw [hhit, hh]; rfl) h
        refine ⟨m + 2, σ1', o', ?_, hag1, ?_, ?_⟩
        · apply execB_singleton (n := m + 1)
          simp only [exec, hr', if_pos hv]
          exact hx
        · exact (hp1.rebase (by rw [henv])).mono (by intro h; simp [h])
        · exact (Frame.of_env henv).trans (hfr1.mono (by simp; omega))
      · rw [if_neg hv] at h
        obtain ⟨m, σ1', o', hx, hag1, hp1, hfr1⟩ :=
          hB e pc (1 :: p) false τ τ' o σ1 hc.2.2 hf.2 (by simp; omega) hag'
            (by intro hh; rcases hh with hh | hh
                · cases hh
                · rw [henv]; apply hpre; rw [hhit, hh]; simp) h
        refine ⟨m + 2, σ1', o', ?_, hag1, ?_, ?_⟩
        · apply execB_singleton (n := m + 1)
          simp only [exec, hr', if_neg hv]
          exact hx
        · exact (hp1.rebase (by rw [henv])).mono (by intro h; simp [h])
        · exact (Frame.of_env henv).trans (hfr1.mono (by simp; omega))
  | whileS c b =>
    simp only [CleanS] at hc
    simp only [finOKS] at hf
    obtain ⟨hob, hoc⟩ := exec_while_out X h
    obtain ⟨m, σ1', hx, hag1, hfr⟩ := hW c b p σ σ' o σ1 hc.1 hc.2 hf hag h
    have hlow : cntS gen (gen pc) p (.whileS c b) = ([.whileS c (cntBody gen p b)], false) := by
      simp [cntS, cntBody]
    rw [hlow]
    exact ⟨m + 1, σ1', o, execB_singleton hx, hag1, CPost.same hoc (hfr pc hpc), fun q hq _ => hfr q hq⟩
  | forS x it extra b =>
    simp only [CleanS] at hc
    obtain ⟨hx, hcit, hcex, hcb⟩ := hc
    simp only [finOKS] at hf
    obtain ⟨hob, hoc⟩ := exec_for_out X h
    have hlow : cntS gen (gen pc) p (.forS x it extra b) = ([.forS x it extra (cntBody gen p b)], false) := by
      simp [cntS, cntBody]
    rw [hlow]
    have hloop : ∃ m σ1', exec X m (.forS x it extra (cntBody gen p b)) σ' = some (o, σ1') ∧
        Agree (Hid gen) σ1 σ1' ∧ (∀ q : List Nat, q.length < p.length → σ1'.env (gen q) = σ'.env (gen q)) := by
      simp only [exec] at h
      rcases hr : evalE X it σ with ⟨r, τ⟩
      obtain ⟨τ', hr', hag', henv⟩ := evalE_agree' hcit hag hr
      rw [hr] at h
      cases r with
      | error ex =>
        simp at h; obtain ⟨rfl, rfl⟩ := h
        exact ⟨1, τ', by simp [exec, hr'], hag', fun q _ => by rw [henv]⟩
      | ok v =>
        simp only at h
        cases hit : iterItems v with
        | error ex =>
          rw [hit] at h; simp at h; obtain ⟨rfl, rfl⟩ := h
          exact ⟨1, τ', by simp [exec, hr', hit], hag', fun q _ => by rw [henv]⟩
        | ok items =>
          rw [hit] at h; simp only at h
          cases extra with
          | none =>
            simp only at h
            obtain ⟨m, σ1', hxf, hag1, hfr1⟩ := hF x none b p items τ τ' o σ1 hx hcex hcb hf hag' h
            exact ⟨m + 1, σ1', by simp only [exec, hr', hit]; exact hxf, hag1, fun q hq => by rw [hfr1 q hq, henv]⟩
          | some t =>
            simp only [CleanO] at hcex
            simp only at h
            rcases hr2 : evalE X t τ with ⟨r2, υ⟩
            obtain ⟨υ', hr2', hag2, henv2⟩ := evalE_agree' hcex hag' hr2
            rw [hr2] at h
            cases r2 with
            | error e =>
              simp at h; obtain ⟨rfl, rfl⟩ := h
              exact ⟨1, υ', by simp [exec, hr', hit, hr2'], hag2, fun q _ => by rw [henv2, henv]⟩
            | ok tv =>
              simp only at h
              by_cases htv : truthy tv = true
              · rw [if_pos htv] at h
                obtain ⟨m, σ1', hxf, hag1, hfr1⟩ :=
                  hF x (some t) b p items υ υ' o σ1 hx (by simpa [CleanO] using hcex) hcb hf hag2 h
                exact ⟨m + 1, σ1', by simp only [exec, hr', hit, hr2', if_pos htv]; exact hxf, hag1,
                  fun q hq => by rw [hfr1 q hq, henv2, henv]⟩
              · rw [if_neg htv] at h
                simp at h; obtain ⟨rfl, rfl⟩ := h
                exact ⟨1, υ', by simp [exec, hr', hit, hr2', htv], hag2, fun q _ => by rw [henv2, henv]⟩
    obtain ⟨m, σ1', hxl, hag1, hfr1⟩ := hloop
    exact ⟨m + 1, σ1', o, execB_singleton hxl, hag1, CPost.same hoc (hfr1 pc hpc), fun q hq _ => hfr1 q hq⟩
  | tryS body hs fin =>
    simp only [CleanS] at hc
    obtain ⟨hcb, hch, hcf⟩ := hc
    simp only [finOKS, Bool.and_eq_true] at hf
    obtain ⟨⟨⟨⟨hfb, hfh⟩, hff⟩, hjf⟩, hq⟩ := hf
    have hhit : (cntS gen (gen pc) p (.tryS body hs fin)).2 =
        ((cntB gen (gen pc) (0 :: p) false body).2 || (cntH gen (gen pc) (1 :: p) hs).2 ||
          (cntB gen (gen pc) (2 :: p) false fin).2) := by simp [cntS]
    obtain ⟨⟨ob, τ⟩, ⟨oa, τa⟩, hb, ha, hfin⟩ := exec_try_inv h
    obtain ⟨m1, τ', ob', hx1, hag1, hp1, hfr1⟩ :=
      hB body pc (0 :: p) false σ σ' ob τ hcb hfb (by simp; omega) hag
        (by intro hh; rcases hh with hh | hh
            · cases hh
            · apply hpre; rw [hhit, hh]; rfl) hb
    obtain ⟨m2, τa', oa', hx2, hag2, hp2, hfr2⟩ :=
      csim_afterH gen X n hB pc p hs hch hfh hpc
        (by intro hh; apply hpre; rw [hhit, hh]; simp) hag1 hp1 (hfr1.mono (by simp; omega)) ha
    have hq' : quietB fin = true ∨
        ((cntB gen (gen pc) (0 :: p) false body).2 || (cntH gen (gen pc) (1 :: p) hs).2) = false := by
      simp only [Bool.or_eq_true, Bool.and_eq_true] at hq
      rcases hq with hq | hq
      · exact Or.inl hq
      · exact Or.inr (by simp [cntB_jumpFree gen (gen pc) _ _ body hq.1, cntH_jumpFree gen (gen pc) _ hs hq.2])
    obtain ⟨m3, σ1', o', hx3, hag3, hp3, hfr3⟩ :=
      csim_finish gen X n hB pc p fin hcf hff hjf hpc hq' hag2 hp2 hfr2 hfin
    refine ⟨max m1 (max m2 m3) + 1 + 1, σ1', o', ?_, hag3, ?_, hfr3⟩
    · simp only [cntS]
      exact execB_singleton (exec_try_of X hx1 hx2 hx3)
    · rw [hhit]; exact hp3
  | withS tag body =>
    simp only [CleanS] at hc
    simp only [finOKS] at hf
    simp only [exec] at h
    cases hb : execB X n body (σ.push (.enter tag)) with
    | none => simp [hb] at h
    | some rb =>
      obtain ⟨ob, τ⟩ := rb
      rw [hb] at h
      simp at h; obtain ⟨rfl, rfl⟩ := h
      obtain ⟨m, τ', ob', hx, hag1, hp1, hfr1⟩ :=
        hB body pc (0 :: p) false _ _ ob τ hc hf (by simp; omega) (hag.push (.enter tag))
          (by intro hh; rcases hh with hh | hh
              · cases hh
              · simp only [St.push_env]; apply hpre; simpa [cntS] using hh) hb
      refine ⟨m + 2, τ'.push (.exit tag), ob', ?_, hag1.push _, ?_, ?_⟩
      · simp only [cntS]
        apply execB_singleton (n := m + 1)
        simp only [exec, hx]
      · simpa [cntS, CPost] using hp1
      · intro q hq hne'
        have := hfr1 q (by simp; omega) hne'
        simpa using this

theorem csim_all (inj : ∀ p q : List Nat, gen p = gen q → p = q) :
    ∀ n, CSimS gen X n ∧ CSimB gen X n ∧ CSimW gen X n ∧ CSimF gen X n := by
  intro n
  induction n with
  | zero =>
    refine ⟨?_, ?_, ?_, ?_⟩
    · intro s pc p σ σ' o σ1 _ _ _ _ _ h; simp [exec] at h
    · intro b pc p g σ σ' o σ1 _ _ _ _ _ h; simp [execB] at h
    · intro c b p σ σ' o σ1 _ _ _ _ h; simp [exec] at h
    · intro x ex b p items σ σ' o σ1 _ _ _ _ _ h; simp [execFor] at h
  | succ n ih =>
    obtain ⟨hS, hB, hW, hF⟩ := ih
    have hW1 := csimW_step gen X inj n hB hW
    exact ⟨csimS_step gen X inj n hB hW1 hF, csimB_step gen X n hS hB, hW1, csimF_step gen X inj n hB hF⟩

/-- What a `continue` outcome becomes (only possible for an ill-formed body: `continue` outside a loop). -/
def cntOut : Out → Out
  | .cont => .normal
  | o => o

/-- Continue lowering preserves the behaviour of a function body. -/
theorem lowerContinue_correct (inj : ∀ p q : List Nat, gen p = gen q → p = q) (body : Block)
    (hclean : CleanB (Hid gen) body) (hfrag : finOKB body = true)
    (n : Nat) (σ : St) (o : Out) (σ1 : St) (h : execB X n body σ = some (o, σ1))
    (hwf : (cntB gen (gen []) [0] false body).2 = true → σ.env (gen []) = some (.int 0)) :
    ∃ m σ1', execB X m (lowerContinue gen body) σ = some (cntOut o, σ1') ∧ Agree (Hid gen) σ1 σ1' := by
  obtain ⟨m, σ1', o', hx, hag, hp, _⟩ :=
    (csim_all gen X inj n).2.1 body [] [0] false σ σ o σ1 hclean hfrag (by simp) (Agree.refl _ σ)
      (by intro hh; rcases hh with hh | hh
          · cases hh
          · exact hwf hh) h
  refine ⟨m, σ1', ?_, hag⟩
  have : o' = cntOut o := by
    by_cases hb : o = .cont
    · subst hb; exact (hp.1 rfl).2.1
    · rw [(hp.2.1 hb).1]; cases o <;> simp_all [cntOut]
  rw [← this]; exact hx

end

end Malt.Sem.Jumps
