import MaltModel.Conv.BlockVars
/-! Lemmas about `Conv.BlockVars`: the sort puts outputs before input-only variables, `nouts` counts the
outputs, the state variables are duplicate free, the pre-assigned (`undefined`) symbols are simple. -/
namespace Malt.Conv.BlockVars

theorem mem_dedup {x : String} : ∀ {l : List String}, x ∈ dedup l ↔ x ∈ l
  | [] => by simp [dedup]
  | a :: l => by
      unfold dedup
      by_cases h : l.contains a = true
      · rw [if_pos h]
        have ha : a ∈ l := by simpa using h
        rw [mem_dedup (l := l)]
        constructor
        · exact List.mem_cons_of_mem _
        · intro hx
          rcases List.mem_cons.mp hx with rfl | hx
          · exact ha
          · exact hx
      · rw [if_neg h]
        simp only [List.mem_cons, mem_dedup (l := l)]

theorem nodup_dedup : ∀ (l : List String), (dedup l).Nodup
  | [] => by simp [dedup]
  | a :: l => by
      unfold dedup
      by_cases h : l.contains a = true
      · rw [if_pos h]; exact nodup_dedup l
      · rw [if_neg h]
        have ha : a ∉ l := by simpa using h
        exact List.nodup_cons.mpr ⟨fun hm => ha (mem_dedup.mp hm), nodup_dedup l⟩

theorem insertSorted_perm (le : String → String → Bool) (a : String) :
    ∀ l, (insertSorted le a l).Perm (a :: l)
  | [] => by simp [insertSorted]
  | b :: l => by
      unfold insertSorted
      by_cases h : le a b = true
      · rw [if_pos h]
      · rw [if_neg h]
        exact ((insertSorted_perm le a l).cons b).trans (List.Perm.swap a b l)

theorem sortBy_perm (le : String → String → Bool) : ∀ l, (sortBy le l).Perm l
  | [] => by simp [sortBy]
  | a :: l => by
      unfold sortBy
      exact (insertSorted_perm le a _).trans ((sortBy_perm le l).cons a)

/-- Outputs before input-only variables: no input-only variable precedes a variable that is not. -/
def KeyMono (io : List String) (l : List String) : Prop :=
  l.Pairwise fun a b => io.contains a = true → io.contains b = true

theorem keyLe_mono {io : List String} {a b : String} (h : keyLe io a b = true) :
    io.contains a = true → io.contains b = true := by
  intro ha
  unfold keyLe at h
  simp only [ha] at h
  cases hb : io.contains b <;> simp_all

theorem not_keyLe_mono {io : List String} {a b : String} (h : ¬ keyLe io a b = true) :
    io.contains b = true → io.contains a = true := by
  intro hb
  cases ha : io.contains a
  · exfalso; apply h; unfold keyLe; rw [ha, hb]; rfl
  · rfl

theorem insertSorted_keyMono {io : List String} (a : String) :
    ∀ l, KeyMono io l → KeyMono io (insertSorted (keyLe io) a l)
  | [], _ => by simp [insertSorted, KeyMono]
  | b :: l, h => by
      unfold insertSorted
      have hb := List.pairwise_cons.mp h
      by_cases hle : keyLe io a b = true
      · rw [if_pos hle]
        refine List.pairwise_cons.mpr ⟨?_, h⟩
        intro x hx ha
        rcases List.mem_cons.mp hx with rfl | hx
        · exact keyLe_mono hle ha
        · exact hb.1 x hx (keyLe_mono hle ha)
      · rw [if_neg hle]
        refine List.pairwise_cons.mpr ⟨?_, insertSorted_keyMono a l hb.2⟩
        intro x hx hbb
        rcases List.mem_cons.mp ((insertSorted_perm (keyLe io) a l).mem_iff.mp hx) with rfl | hx
        · exact not_keyLe_mono hle hbb
        · exact hb.1 x hx hbb

theorem sortBy_keyMono (io : List String) : ∀ l, KeyMono io (sortBy (keyLe io) l)
  | [] => by simp [sortBy, KeyMono]
  | a :: l => by unfold sortBy; exact insertSorted_keyMono a _ (sortBy_keyMono io l)

theorem keyMono_split {io : List String} : ∀ {l : List String}, KeyMono io l →
    l = l.filter (fun v => !io.contains v) ++ l.filter (fun v => io.contains v)
  | [], _ => by simp
  | a :: l, h => by
      have ha := List.pairwise_cons.mp h
      have ih := keyMono_split ha.2
      cases hc : io.contains a
      · simp only [List.filter_cons, hc, Bool.not_false, if_true, Bool.false_eq_true, if_false, List.cons_append]
        rw [← ih]
      · have hall : ∀ x ∈ l, io.contains x = true := fun x hx => ha.1 x hx hc
        have h1 : l.filter (fun v => !io.contains v) = [] := by
          apply List.filter_eq_nil_iff.mpr
          intro x hx; rw [hall x hx]; simp
        have h2 : l.filter (fun v => io.contains v) = l := by
          apply List.filter_eq_self.mpr
          intro x hx; exact hall x hx
        simp only [List.filter_cons, hc, Bool.not_true, Bool.false_eq_true, if_false, if_true, h1, h2,
          List.nil_append]

end Malt.Conv.BlockVars

namespace Malt.Conv.BlockVars

theorem contains_filter_eq {p : String → Bool} {l : List String} {x : String} (hx : x ∈ l) :
    (l.filter p).contains x = p x := by
  rw [Bool.eq_iff_iff]
  simp [List.mem_filter, hx]

theorem blockVars_nouts (m li lo di g n : List String) :
    (blockVars m li lo di g n).nouts ≤ (blockVars m li lo di g n).scopeVars.length ∧
    (∀ v ∈ (blockVars m li lo di g n).scopeVars.take (blockVars m li lo di g n).nouts,
        (blockVars m li lo di g n).inputOnly.contains v = false) ∧
    (∀ v ∈ (blockVars m li lo di g n).scopeVars.drop (blockVars m li lo di g n).nouts,
        (blockVars m li lo di g n).inputOnly.contains v = true) := by
  simp only [blockVars]
  generalize hbasic : basicVars (dedup m) li lo (n ++ g) = basic
  generalize hcomp : compositeVars (dedup m) li = comp
  generalize hio : basic.filter (fun v => li.contains v && !lo.contains v) = io
  generalize hsv : sortBy (keyLe io) (basic ++ comp) = sv
  have hsplit := keyMono_split (hsv ▸ sortBy_keyMono io (basic ++ comp))
  have hperm : sv.Perm (basic ++ comp) := hsv ▸ sortBy_perm _ _
  have hB : (sv.filter (fun v => io.contains v)).length = io.length := by
    rw [(hperm.filter _).length_eq, List.filter_append]
    have h1 : comp.filter (fun v => io.contains v) = [] := by
      apply List.filter_eq_nil_iff.mpr
      intro x hx hc
      have hxio : x ∈ io := by simpa using hc
      rw [← hio] at hxio
      have hxb : x ∈ basic := (List.mem_filter.mp hxio).1
      rw [← hbasic] at hxb
      rw [← hcomp] at hx
      have c1 := (List.mem_filter.mp hxb).2
      have c2 := (List.mem_filter.mp hx).2
      simp only [Bool.and_eq_true, Bool.not_eq_true'] at c1 c2
      rw [c1.1] at c2
      exact absurd c2.1 (by simp)
    have h2 : basic.filter (fun v => io.contains v) = io := by
      rw [← hio]
      exact List.filter_congr (fun x hx => contains_filter_eq hx)
    rw [h1, h2, List.append_nil]
  have hlen : sv.length = (sv.filter (fun v => !io.contains v)).length + io.length := by
    conv => lhs; rw [hsplit]
    rw [List.length_append, hB]
  have hn : sv.length - io.length = (sv.filter (fun v => !io.contains v)).length := by omega
  rw [hn]
  have hAp : ∀ v ∈ sv.filter (fun v => !io.contains v), io.contains v = false := by
    intro v hv
    simpa using (List.mem_filter.mp hv).2
  have hBp : ∀ v ∈ sv.filter (fun v => io.contains v), io.contains v = true :=
    fun v hv => (List.mem_filter.mp hv).2
  generalize sv.filter (fun v => !io.contains v) = A at hsplit hAp hlen ⊢
  generalize sv.filter (fun v => io.contains v) = B at hsplit hBp
  subst hsplit
  refine ⟨by simp, ?_, ?_⟩
  · intro v hv
    rw [List.take_left' rfl] at hv
    exact hAp v hv
  · intro v hv
    rw [List.drop_left' rfl] at hv
    exact hBp v hv

theorem blockVars_nodup (m li lo di g n : List String) : (blockVars m li lo di g n).scopeVars.Nodup := by
  simp only [blockVars]
  rw [(sortBy_perm _ _).nodup_iff, List.nodup_append]
  refine ⟨(nodup_dedup m).sublist List.filter_sublist, (nodup_dedup m).sublist List.filter_sublist, ?_⟩
  intro a ha b hb hab
  subst hab
  have c1 := (List.mem_filter.mp ha).2
  have c2 := (List.mem_filter.mp hb).2
  simp only [Bool.and_eq_true, Bool.not_eq_true'] at c1 c2
  rw [c1.1] at c2
  exact absurd c2.1 (by simp)

theorem blockVars_undefined_simple (m li lo di g n : List String) :
    ∀ v ∈ (blockVars m li lo di g n).undefined, isComposite v = false := by
  intro v hv
  simp only [blockVars] at hv
  have := (List.mem_filter.mp hv).2
  simp only [Bool.and_eq_true, Bool.not_eq_true'] at this
  exact this.2

end Malt.Conv.BlockVars

namespace Malt.Conv.BlockVars

theorem mem_scopeVars (m li lo di g n : List String) (v : String) :
    v ∈ (blockVars m li lo di g n).scopeVars ↔
      v ∈ basicVars (dedup m) li lo (n ++ g) ∨ v ∈ compositeVars (dedup m) li := by
  simp only [blockVars]
  rw [(sortBy_perm _ _).mem_iff, List.mem_append]

/-- Among the state variables, `inputOnly` are exactly the non-outputs. -/
theorem inputOnly_iff (m li lo di g n : List String) (v : String) (hv : v ∈ (blockVars m li lo di g n).scopeVars) :
    (blockVars m li lo di g n).inputOnly.contains v = !isOutput li lo v := by
  rw [mem_scopeVars] at hv
  simp only [blockVars]
  rw [Bool.eq_iff_iff]
  simp only [List.contains_eq_mem, decide_eq_true_eq, List.mem_filter, Bool.and_eq_true, Bool.not_eq_true', isOutput,
    Bool.or_eq_false_iff, Bool.not_eq_false', decide_eq_false_iff_not]
  constructor
  · rintro ⟨hb, hin, hout⟩
    have hs := (List.mem_filter.mp hb).2
    simp only [Bool.and_eq_true, Bool.not_eq_true'] at hs
    exact ⟨⟨hs.1, hin⟩, hout⟩
  · rintro ⟨⟨hc, hin⟩, hout⟩
    rcases hv with hb | hcomp
    · exact ⟨hb, hin, hout⟩
    · have := (List.mem_filter.mp hcomp).2
      simp [hc] at this

/-- Outputs first, exactly: position `i` of the state tuple is below `nouts` iff the variable there is an output. -/
theorem blockVars_outputs_first (m li lo di g n : List String) (i : Nat) (v : String)
    (hi : (blockVars m li lo di g n).scopeVars[i]? = some v) :
    (i < (blockVars m li lo di g n).nouts ↔ isOutput li lo v = true) := by
  obtain ⟨_, htake, hdrop⟩ := blockVars_nouts m li lo di g n
  have hmem : v ∈ (blockVars m li lo di g n).scopeVars := List.mem_of_getElem? hi
  have hio := inputOnly_iff m li lo di g n v hmem
  constructor
  · intro hlt
    have hvt : v ∈ (blockVars m li lo di g n).scopeVars.take (blockVars m li lo di g n).nouts := by
      apply List.mem_of_getElem? (i := i)
      rw [List.getElem?_take]
      simp [hlt, hi]
    have := htake v hvt
    rw [hio] at this
    simpa using this
  · intro hout
    apply Decidable.byContradiction
    intro hge
    have hvd : v ∈ (blockVars m li lo di g n).scopeVars.drop (blockVars m li lo di g n).nouts := by
      apply List.mem_of_getElem? (i := i - (blockVars m li lo di g n).nouts)
      rw [List.getElem?_drop]
      have : (blockVars m li lo di g n).nouts + (i - (blockVars m li lo di g n).nouts) = i := by omega
      rw [this, hi]
    have := hdrop v hvd
    rw [hio, hout] at this
    simp at this

/-- A simple output that is neither live in nor live out is a name the enclosing function declares `global`/`nonlocal`. -/
theorem output_not_live_is_outer (m li lo di g n : List String) (v : String)
    (hv : v ∈ (blockVars m li lo di g n).scopeVars) (hs : isComposite v = false)
    (hin : li.contains v = false) (hout : lo.contains v = false) : (n ++ g).contains v = true := by
  rw [mem_scopeVars] at hv
  rcases hv with hb | hc
  · have := (List.mem_filter.mp hb).2
    have hin' : v ∉ li := by simpa using hin
    have hout' : v ∉ lo := by simpa using hout
    simp only [hs, Bool.not_false, Bool.true_and, Bool.or_eq_true, List.contains_eq_mem, decide_eq_true_eq] at this
    rcases this with (h | h) | h
    · exact absurd h hin'
    · exact absurd h hout'
    · simpa using h
  · have := (List.mem_filter.mp hc).2
    simp [hs] at this

end Malt.Conv.BlockVars
