import MaltModel.Proofs.C05Frame
/-!
# C05: the builder's `owners` bookkeeping is lexical containment

`ownSpec act s`: the CFG nodes of statement `s` in creation order, each with the list of enclosing
if/while/for/try/except statements (`act` = those enclosing `s` itself) — a direct recursive definition of "the statements
that lexically contain the node".  Theorem: that is exactly what `GraphBuilder.owners` records (`begin_statement` /
`end_statement` discipline), hence what `stmt_prev`/`stmt_next` are computed from.
-/
namespace Malt.Cfg
open Malt.Py

/-! effects of the builder steps on `owners` / `activeStmts` -/

/-- `b'` records the same statements and the owners of `b` followed by `l`. -/
structure OwnStep (b b' : B) (l : List (NodeId × List Nat)) : Prop where
  owners : b'.owners = b.owners ++ l
  active : b'.activeStmts = b.activeStmts

theorem OwnStep.refl (b : B) : OwnStep b b [] := ⟨by simp, rfl⟩

theorem OwnStep.trans {a b c : B} {l1 l2 : List (NodeId × List Nat)} (h1 : OwnStep a b l1) (h2 : OwnStep b c l2) :
    OwnStep a c (l1 ++ l2) :=
  ⟨by rw [h2.owners, h1.owners, List.append_assoc], by rw [h2.active, h1.active]⟩

theorem OwnStep.of_eq {b b' : B} (h1 : b'.owners = b.owners) (h2 : b'.activeStmts = b.activeStmts) : OwnStep b b' [] :=
  ⟨by simp [h1], h2⟩

theorem own_addNewNode (b : B) (n : Nat) : OwnStep b (b.addNewNode n) [(n, b.activeStmts)] := by
  refine ⟨?_, by simp [B.addNewNode, B.pushNode]⟩
  simp [B.addNewNode, B.pushNode, B.connect]

theorem own_addOrdinaryNode (b : B) (n : Nat) : OwnStep b (b.addOrdinaryNode n) [(n, b.activeStmts)] := by
  have := own_addNewNode b n
  exact ⟨by simpa [B.addOrdinaryNode] using this.owners, by simpa [B.addOrdinaryNode] using this.active⟩

theorem own_addOrdinaryNodes (ns : List Nat) : ∀ b : B, OwnStep b (addOrdinaryNodes b ns) (tagAll ns b.activeStmts) := by
  induction ns with
  | nil => intro b; exact OwnStep.refl b
  | cons n ns ih =>
    intro b
    have h1 := own_addOrdinaryNode b n
    have h2 := ih (b.addOrdinaryNode n)
    rw [h1.active] at h2
    exact OwnStep.trans h1 h2

theorem own_addJumpNode (b : B) (n : Nat) (gs : List Nat) : OwnStep b (b.addJumpNode n gs) [(n, b.activeStmts)] := by
  have := own_addNewNode b n
  exact ⟨by simpa [B.addJumpNode] using this.owners, by simpa [B.addJumpNode] using this.active⟩

theorem own_addExitNode (b : B) (n sec : Nat) (gs : List Nat) : OwnStep b (b.addExitNode n sec gs) [(n, b.activeStmts)] := by
  have := own_addJumpNode b n gs
  unfold B.addExitNode
  split
  · exact ⟨this.owners, this.active⟩
  · exact ⟨this.owners, this.active⟩

theorem own_addContinueNode (b : B) (n sec : Nat) (gs : List Nat) : OwnStep b (b.addContinueNode n sec gs) [(n, b.activeStmts)] := by
  have := own_addJumpNode b n gs
  unfold B.addContinueNode
  split
  · exact ⟨this.owners, this.active⟩
  · exact ⟨this.owners, this.active⟩

theorem own_guardFold (gs : List Nat) : ∀ acc : B × List Nat, OwnStep acc.1 (gs.foldl B.guardStep acc).1 [] := by
  induction gs with
  | nil => intro acc; exact OwnStep.refl _
  | cons g gs ih =>
    intro acc
    have h1 : OwnStep acc.1 (B.guardStep acc g).1 [] := by
      unfold B.guardStep; split <;> exact OwnStep.of_eq rfl rfl
    simpa using OwnStep.trans h1 (ih _)

theorem own_connectJump (b : B) (n : Nat) : OwnStep b (b.connectJump n).1 [] := by
  unfold B.connectJump
  split
  · exact OwnStep.refl b
  · rename_i gs _
    have := own_guardFold gs (b, [n])
    exact ⟨this.owners, this.active⟩

theorem own_foldl {α} (f : B → α → B) (hf : ∀ b x, OwnStep b (f b x) []) : ∀ (l : List α) (b : B), OwnStep b (l.foldl f b) [] := by
  intro l
  induction l with
  | nil => intro b; exact OwnStep.refl b
  | cons x l ih => intro b; simpa using OwnStep.trans (hf b x) (ih _)

theorem own_exitSection (b : B) (i : Nat) : OwnStep b (b.exitSection i) [] := by
  unfold B.exitSection
  split
  · exact OwnStep.of_eq rfl rfl
  · rename_i ex _
    have := own_foldl B.exitStep (fun b e => by
      have h := own_connectJump b e
      exact ⟨h.owners, h.active⟩) ex b
    exact ⟨this.owners, this.active⟩

theorem own_enterSection (b : B) (i : Nat) : OwnStep b (b.enterSection i) [] :=
  OwnStep.of_eq (by simp [B.enterSection]) (by simp [B.enterSection])

theorem own_enterLoopSection (b : B) (i entry : Nat) : OwnStep b (b.enterLoopSection i entry) [(entry, b.activeStmts)] := by
  have := own_addOrdinaryNode ((b.check (ahas i b.sectionEntry || ahas i b.continues) "assert: loop section entered twice").putContinues i []) entry
  exact ⟨by simpa [B.enterLoopSection] using this.owners, by simpa [B.enterLoopSection] using this.active⟩

theorem own_exitLoopSection (b : B) (i : Nat) : OwnStep b (b.exitLoopSection i) [] := by
  unfold B.exitLoopSection
  split
  · rename_i entry cs _ _
    have := own_foldl (B.reentryStep entry) (fun b c => by
      have h := own_connectJump b c
      exact ⟨h.owners, h.active⟩) cs (b.connect b.leafSet entry)
    exact ⟨this.owners, this.active⟩
  · exact OwnStep.of_eq rfl rfl

theorem own_enterCondSection (b : B) (i : Nat) : OwnStep b (b.enterCondSection i) [] :=
  OwnStep.of_eq (by simp [B.enterCondSection]) (by simp [B.enterCondSection])

theorem own_newCondBranch (b : B) (i : Nat) : OwnStep b (b.newCondBranch i) [] := by
  unfold B.newCondBranch
  split
  · exact OwnStep.of_eq rfl rfl
  · split <;> exact OwnStep.of_eq rfl rfl

theorem own_exitCondSection (b : B) (i : Nat) : OwnStep b (b.exitCondSection i) [] := by
  unfold B.exitCondSection
  split
  · exact OwnStep.of_eq rfl rfl
  · rename_i splits _
    have := own_foldl B.unionStep (fun b r => OwnStep.of_eq rfl rfl) splits b
    exact ⟨by simpa using this.owners, by simpa using this.active⟩

theorem own_enterExceptSection (b : B) (i : Nat) : OwnStep b (b.enterExceptSection i) [] := by
  unfold B.enterExceptSection
  split <;> exact OwnStep.of_eq rfl rfl

theorem own_enterFinallySection (b : B) (i : Nat) : OwnStep b (b.enterFinallySection i) [] := OwnStep.of_eq rfl rfl

theorem own_exitFinallySection (b : B) (i : Nat) : OwnStep b (b.exitFinallySection i) [] := by
  unfold B.exitFinallySection
  split
  · rename_i beg _ direct _ _
    cases direct
    · exact OwnStep.of_eq (by simp [B.closeFinally]) (by simp [B.closeFinally])
    · exact OwnStep.of_eq (by simp [B.closeFinally]) (by simp [B.closeFinally])
  · exact OwnStep.of_eq rfl rfl


/-! statements -/

theorem filter_ne_snoc (act : List Nat) (i : Nat) (h : i ∉ act) : (act ++ [i]).filter (· != i) = act := by
  rw [List.filter_append]
  have h1 : act.filter (· != i) = act := by
    apply List.filter_eq_self.mpr
    intro x hx
    simp only [bne_iff_ne, ne_eq]
    exact fun e => h (e ▸ hx)
  simp [h1]

/-- `begin_statement(i)` … body steps … `end_statement(i)` -/
theorem own_bracket {b b1 : B} {l : List (NodeId × List Nat)} (i : Nat) (hi : i ∉ b.activeStmts)
    (h : OwnStep (b.beginStatement i) b1 l) : OwnStep b (b1.endStatement i) l := by
  refine ⟨by simpa [B.endStatement] using h.owners, ?_⟩
  have ha : b1.activeStmts = b.activeStmts ++ [i] := by rw [h.active]; rfl
  show ((b1.check _ _).setActive (b1.activeStmts.filter (· != i))).activeStmts = _
  simp only [B.setActive]
  rw [ha, filter_ne_snoc _ _ hi]

theorem basicExprs_own (σ : List Scope) : ∀ (items : List Expr) (b : B) (a : Acc),
    OwnStep b (basicExprs σ items b a).1 (tagAll (withItemNodes items) b.activeStmts)
  | [], b, _ => OwnStep.refl b
  | e :: es, b, a => by
    have h1 : OwnStep b (basicExpr σ e b a).1 (tagAll (e.kidLams ++ [e.id]) b.activeStmts) := by
      have s1 := own_addOrdinaryNodes e.kidLams b
      have s2 := own_addOrdinaryNode (addOrdinaryNodes b e.kidLams) e.id
      rw [s1.active] at s2
      have := OwnStep.trans s1 s2
      simpa [tagAll, basicExpr] using this
    have h2 := basicExprs_own σ es (basicExpr σ e b a).1 (basicExpr σ e b a).2
    rw [h1.active] at h2
    have := OwnStep.trans h1 h2
    simpa [tagAll, basicExprs, withItemNodes, List.append_assoc] using this

theorem own_optSection (rep : Option Nat) (pre post : Nat → B → B) (visit : Nat → B → Acc → B × Acc) (r : B × Acc)
    (l : List (NodeId × List Nat))
    (hpre : ∀ k b, OwnStep b (pre k b) []) (hpost : ∀ k b, OwnStep b (post k b) [])
    (hnone : rep = none → l = [])
    (hvisit : ∀ k b a, rep = some k → b.activeStmts = r.1.activeStmts → OwnStep b (visit k b a).1 l) :
    OwnStep r.1 (optSection rep pre post visit r).1 l := by
  cases rep with
  | none => rw [hnone rfl]; exact OwnStep.refl _
  | some k =>
    simp only [optSection]
    have h1 := hpre k r.1
    have h2 := hvisit k (pre k r.1) r.2 rfl h1.active
    have h3 := hpost k (visit k (pre k r.1) r.2).1
    simpa using OwnStep.trans (OwnStep.trans h1 h2) h3


/-- jump targets exist: `return`/`raise` are inside a function, `break`/`continue` (when allowed) inside a loop -/
structure OwnPre (σ : List Scope) (inLoop : Bool) : Prop where
  fn : ∃ F, (enclosingFinally .fn σ).1 = some F
  loop : inLoop = true → ∃ L, (enclosingFinally .loop σ).1 = some L

theorem OwnPre.loop_scope {σ : List Scope} {inLoop : Bool} (h : OwnPre σ inLoop) (i : Nat) : OwnPre (Scope.loop i :: σ) true :=
  ⟨h.fn, fun _ => ⟨i, rfl⟩⟩

theorem OwnPre.try_scope {σ : List Scope} {inLoop : Bool} (h : OwnPre σ inLoop) (i : Nat) (f : Bool) (hs : List Nat) :
    OwnPre (Scope.try_ i f hs :: σ) inLoop :=
  ⟨h.fn, h.loop⟩

theorem own_processExit (σ : List Scope) (b : B) (n : Nat) (stop : Stop) (v : Bool) (t : Nat)
    (h : (enclosingFinally stop σ).1 = some t) : OwnStep b (processExit σ b n stop v) [(n, b.activeStmts)] := by
  unfold processExit
  split
  · rename_i h'; rw [h'] at h; cases h
  · rename_i target guards _
    have := own_addExitNode b n target guards
    split
    · exact ⟨this.owners, this.active⟩
    · exact this

theorem own_processContinue (σ : List Scope) (b : B) (n : Nat) (t : Nat)
    (h : (enclosingFinally .loop σ).1 = some t) : OwnStep b (processContinue σ b n) [(n, b.activeStmts)] := by
  unfold processContinue
  split
  · rename_i h'; rw [h'] at h; cases h
  · exact own_addContinueNode b n _ _

theorem own_simple (b : B) (lams : List Nat) (n : Nat) :
    OwnStep b ((addOrdinaryNodes b lams).addOrdinaryNode n) (tagAll (lams ++ [n]) b.activeStmts) := by
  have s1 := own_addOrdinaryNodes lams b
  have s2 := own_addOrdinaryNode (addOrdinaryNodes b lams) n
  rw [s1.active] at s2
  simpa [tagAll] using OwnStep.trans s1 s2

theorem disj_snoc {l act : List Nat} {i : Nat} (h1 : ∀ k, k ∈ l → k ∉ act) (h2 : i ∉ l) : ∀ k, k ∈ l → k ∉ act ++ [i] := by
  intro k hk h
  rcases List.mem_append.mp h with h | h
  · exact h1 k hk h
  · simp only [List.mem_singleton] at h; exact h2 (h ▸ hk)

mutual
theorem own_visitStmt : ∀ (s : Stmt) (σ : List Scope) (b : B) (a : Acc) (inLoop : Bool), s.supported inLoop = true →
    OwnPre σ inLoop → (ownerIds s).Nodup → (∀ k, k ∈ ownerIds s → k ∉ b.activeStmts) →
    OwnStep b (visitStmt σ s b a).1 (ownSpec b.activeStmts s)
  | .functionDef i name args body decs rets isAsync, σ, b, a, inLoop, hs, _, _, _ => by
    simp only [Stmt.supported, Bool.not_eq_true'] at hs
    subst hs
    simp only [visitStmt, Bool.false_eq_true, if_false, ownSpec]
    exact own_addOrdinaryNode b i
  | .classDef i name bases kws body decs, σ, b, a, inLoop, _, _, _, _ => by
    simp only [visitStmt, ownSpec]; exact own_addOrdinaryNode b i
  | .ret i v, σ, b, a, inLoop, _, hp, _, _ => by
    obtain ⟨F, hF⟩ := hp.fn
    simp only [visitStmt, ownSpec]
    have s1 := own_addOrdinaryNodes (lamsL v) b
    have s2 := own_processExit σ (addOrdinaryNodes b (lamsL v)) i .fn false F hF
    rw [s1.active] at s2
    simpa [tagAll] using OwnStep.trans s1 s2
  | .raise i e c, σ, b, a, inLoop, _, hp, _, _ => by
    obtain ⟨F, hF⟩ := hp.fn
    simp only [visitStmt, ownSpec]
    have s1 := own_addOrdinaryNodes (lamsL e ++ lamsL c) b
    have s2 := own_processExit σ (addOrdinaryNodes b (lamsL e ++ lamsL c)) i .fn true F hF
    rw [s1.active] at s2
    have s3 : OwnStep (processExit σ (addOrdinaryNodes b (lamsL e ++ lamsL c)) i .fn true)
        ((processExit σ (addOrdinaryNodes b (lamsL e ++ lamsL c)) i .fn true).pushError i) [] := OwnStep.of_eq rfl rfl
    simpa [tagAll] using OwnStep.trans (OwnStep.trans s1 s2) s3
  | .break_ i, σ, b, a, inLoop, hs, hp, _, _ => by
    simp only [Stmt.supported] at hs
    obtain ⟨L, hL⟩ := hp.loop hs
    simp only [visitStmt, ownSpec]
    exact own_processExit σ b i .loop false L hL
  | .continue_ i, σ, b, a, inLoop, hs, hp, _, _ => by
    simp only [Stmt.supported] at hs
    obtain ⟨L, hL⟩ := hp.loop hs
    simp only [visitStmt, ownSpec]
    exact own_processContinue σ b i L hL
  | .if_ i test body orelse, σ, b, a, inLoop, hs, hp, hnd, hdis => by
    simp only [Stmt.supported, Bool.and_eq_true] at hs
    simp only [ownerIds] at hnd hdis
    obtain ⟨hi_all, hnd2⟩ := List.nodup_cons.mp hnd
    obtain ⟨ndb, ndo, _⟩ := List.nodup_append.mp hnd2
    have hi : i ∉ b.activeStmts := hdis i (List.mem_cons_self ..)
    simp only [visitStmt, ownSpec]
    refine own_bracket i hi ?_
    have hact0 : (b.beginStatement i).activeStmts = b.activeStmts ++ [i] := rfl
    have t1 := own_enterCondSection (b.beginStatement i) i
    have t2 := own_simple ((b.beginStatement i).enterCondSection i) test.kidLams test.id
    rw [t1.active, hact0] at t2
    have t3 := own_newCondBranch (basicExpr σ test ((b.beginStatement i).enterCondSection i) a).1 i
    have h123 := OwnStep.trans (OwnStep.trans t1 t2) t3
    have hact3 := h123.active
    rw [hact0] at hact3
    have t4 := own_visitStmts body σ _ (basicExpr σ test ((b.beginStatement i).enterCondSection i) a).2 inLoop hs.1 hp ndb
      (by rw [hact3]; exact disj_snoc (fun k hk => hdis k (List.mem_cons_of_mem _ (List.mem_append.mpr (Or.inl hk))))
            (fun h => hi_all (List.mem_append.mpr (Or.inl h))))
    rw [hact3] at t4
    have t5 := own_newCondBranch (visitStmts σ body ((basicExpr σ test ((b.beginStatement i).enterCondSection i) a).1.newCondBranch i)
      (basicExpr σ test ((b.beginStatement i).enterCondSection i) a).2).1 i
    have h5 := OwnStep.trans (OwnStep.trans h123 t4) t5
    have hact5 := h5.active
    rw [hact0] at hact5
    have t6 := own_visitStmts orelse σ _ (visitStmts σ body ((basicExpr σ test ((b.beginStatement i).enterCondSection i) a).1.newCondBranch i)
      (basicExpr σ test ((b.beginStatement i).enterCondSection i) a).2).2 inLoop hs.2 hp ndo
      (by rw [hact5]; exact disj_snoc (fun k hk => hdis k (List.mem_cons_of_mem _ (List.mem_append.mpr (Or.inr hk))))
            (fun h => hi_all (List.mem_append.mpr (Or.inr h))))
    rw [hact5] at t6
    have t7 := own_exitCondSection (visitStmts σ orelse ((visitStmts σ body ((basicExpr σ test ((b.beginStatement i).enterCondSection i) a).1.newCondBranch i)
      (basicExpr σ test ((b.beginStatement i).enterCondSection i) a).2).1.newCondBranch i)
      (visitStmts σ body ((basicExpr σ test ((b.beginStatement i).enterCondSection i) a).1.newCondBranch i)
      (basicExpr σ test ((b.beginStatement i).enterCondSection i) a).2).2).1 i
    have hall := OwnStep.trans (OwnStep.trans h5 t6) t7
    simpa [List.append_assoc, basicExpr] using hall
  | .delete i ts, σ, b, a, inLoop, _, _, _, _ => by
    simp only [visitStmt, ownSpec]; exact own_simple b _ _
  | .assign i ts v, σ, b, a, inLoop, _, _, _, _ => by
    simp only [visitStmt, ownSpec]; exact own_simple b _ _
  | .augAssign i t op v, σ, b, a, inLoop, _, _, _, _ => by
    simp only [visitStmt, ownSpec]; exact own_simple b _ _
  | .annAssign i t an v sm, σ, b, a, inLoop, _, _, _, _ => by
    simp only [visitStmt, ownSpec]; exact own_simple b _ _
  | .assert_ i t m, σ, b, a, inLoop, _, _, _, _ => by
    simp only [visitStmt, ownSpec]; exact own_simple b _ _
  | .import_ i ns, σ, b, a, inLoop, _, _, _, _ => by
    simp only [visitStmt, ownSpec]; exact own_simple b _ _
  | .importFrom i m ns lv, σ, b, a, inLoop, _, _, _, _ => by
    simp only [visitStmt, ownSpec]; exact own_simple b _ _
  | .global i ns, σ, b, a, inLoop, _, _, _, _ => by
    simp only [visitStmt, ownSpec]; exact own_simple b _ _
  | .nonlocal i ns, σ, b, a, inLoop, _, _, _, _ => by
    simp only [visitStmt, ownSpec]; exact own_simple b _ _
  | .expr i v, σ, b, a, inLoop, _, _, _, _ => by
    simp only [visitStmt, ownSpec]; exact own_simple b _ _
  | .pass i, σ, b, a, inLoop, _, _, _, _ => by
    simp only [visitStmt, ownSpec]; exact own_simple b _ _
  | .while_ i test body orelse, σ, b, a, inLoop, hs, hp, hnd, hdis => by
    simp only [Stmt.supported, Bool.and_eq_true] at hs
    obtain ⟨hsb, hso⟩ := hs
    simp only [ownerIds] at hnd hdis
    obtain ⟨hi_all, hnd2⟩ := List.nodup_cons.mp hnd
    obtain ⟨ndb, ndo, _⟩ := List.nodup_append.mp hnd2
    have hi : i ∉ b.activeStmts := hdis i (List.mem_cons_self ..)
    have hdb := disj_snoc (fun k hk => hdis k (List.mem_cons_of_mem _ (List.mem_append.mpr (Or.inl hk))))
      (fun h => hi_all (List.mem_append.mpr (Or.inl h)))
    have hdo := disj_snoc (fun k hk => hdis k (List.mem_cons_of_mem _ (List.mem_append.mpr (Or.inr hk))))
      (fun h => hi_all (List.mem_append.mpr (Or.inr h)))
    simp only [visitStmt, ownSpec]
    refine own_bracket i hi ?_
    let b0 := b.beginStatement i
    have hact0 : b0.activeStmts = b.activeStmts ++ [i] := rfl
    let b1 := b0.enterSection i
    let b2 := addOrdinaryNodes b1 test.kidLams
    let b3 := b2.enterLoopSection i test.id
    have t1 : OwnStep b0 b1 [] := own_enterSection b0 i
    have t2 : OwnStep b1 b2 _ := own_addOrdinaryNodes test.kidLams b1
    have t3 : OwnStep b2 b3 _ := own_enterLoopSection b2 i test.id
    rw [t1.active, hact0] at t2
    rw [t2.active, t1.active, hact0] at t3
    have h3 := OwnStep.trans (OwnStep.trans t1 t2) t3
    have hact3 : b3.activeStmts = b.activeStmts ++ [i] := by rw [h3.active]; exact hact0

    have t4 := own_visitStmts body (Scope.loop i :: σ) b3 (lamGraphsKids (Scope.loop i :: σ) test a) true hsb (hp.loop_scope i) ndb (by rw [hact3]; exact hdb)
    rw [hact3] at t4
    have h4 := OwnStep.trans h3 t4
    let r4 := visitStmts (Scope.loop i :: σ) body b3 (lamGraphsKids (Scope.loop i :: σ) test a)
    have t5 : OwnStep r4.1 (r4.1.exitLoopSection i) [] := own_exitLoopSection r4.1 i
    have h5 := OwnStep.trans h4 t5
    have hact5 : (r4.1.exitLoopSection i).activeStmts = b.activeStmts ++ [i] := by rw [h5.active]; exact hact0
    have t6 := own_visitStmts orelse σ (r4.1.exitLoopSection i) r4.2 inLoop hso hp ndo (by rw [hact5]; exact hdo)
    rw [hact5] at t6
    have h6 := OwnStep.trans h5 t6
    have t7 := own_exitSection (visitStmts σ orelse (r4.1.exitLoopSection i) r4.2).1 i
    have hall := OwnStep.trans h6 t7
    simpa [List.append_assoc, tagAll] using hall
  | .for_ i target iter body orelse extra isAsync, σ, b, a, inLoop, hs, hp, hnd, hdis => by
    simp only [Stmt.supported, Bool.and_eq_true, Bool.not_eq_true'] at hs
    obtain ⟨⟨has, hsb⟩, hso⟩ := hs
    subst has
    simp only [ownerIds] at hnd hdis
    obtain ⟨hi_all, hnd2⟩ := List.nodup_cons.mp hnd
    obtain ⟨ndb, ndo, _⟩ := List.nodup_append.mp hnd2
    have hi : i ∉ b.activeStmts := hdis i (List.mem_cons_self ..)
    have hdb := disj_snoc (fun k hk => hdis k (List.mem_cons_of_mem _ (List.mem_append.mpr (Or.inl hk))))
      (fun h => hi_all (List.mem_append.mpr (Or.inl h)))
    have hdo := disj_snoc (fun k hk => hdis k (List.mem_cons_of_mem _ (List.mem_append.mpr (Or.inr hk))))
      (fun h => hi_all (List.mem_append.mpr (Or.inr h)))
    simp only [visitStmt, ownSpec, Bool.false_eq_true, if_false]
    refine own_bracket i hi ?_
    let b0 := b.beginStatement i
    have hact0 : b0.activeStmts = b.activeStmts ++ [i] := rfl
    let b1 := b0.enterSection i
    let b2 := addOrdinaryNodes b1 iter.kidLams
    let b3 := b2.enterLoopSection i iter.id
    have t1 : OwnStep b0 b1 [] := own_enterSection b0 i
    have t2 : OwnStep b1 b2 _ := own_addOrdinaryNodes iter.kidLams b1
    have t3 : OwnStep b2 b3 _ := own_enterLoopSection b2 i iter.id
    rw [t1.active, hact0] at t2
    rw [t2.active, t1.active, hact0] at t3
    have h3 := OwnStep.trans (OwnStep.trans t1 t2) t3
    have hact3 : b3.activeStmts = b.activeStmts ++ [i] := by rw [h3.active]; exact hact0
    have tx := basicExprs_own (Scope.loop i :: σ) (extra.take 1) b3 (lamGraphsKids (Scope.loop i :: σ) iter a)
    rw [hact3] at tx
    have h3x := OwnStep.trans h3 tx
    have hact3x : (basicExprs (Scope.loop i :: σ) (extra.take 1) b3 (lamGraphsKids (Scope.loop i :: σ) iter a)).1.activeStmts = b.activeStmts ++ [i] := by rw [h3x.active]; exact hact0
    have t4 := own_visitStmts body (Scope.loop i :: σ) (basicExprs (Scope.loop i :: σ) (extra.take 1) b3 (lamGraphsKids (Scope.loop i :: σ) iter a)).1 (basicExprs (Scope.loop i :: σ) (extra.take 1) b3 (lamGraphsKids (Scope.loop i :: σ) iter a)).2 true hsb (hp.loop_scope i) ndb (by rw [hact3x]; exact hdb)
    rw [hact3x] at t4
    have h4 := OwnStep.trans h3x t4
    let r4 := visitStmts (Scope.loop i :: σ) body (basicExprs (Scope.loop i :: σ) (extra.take 1) b3 (lamGraphsKids (Scope.loop i :: σ) iter a)).1 (basicExprs (Scope.loop i :: σ) (extra.take 1) b3 (lamGraphsKids (Scope.loop i :: σ) iter a)).2
    have t5 : OwnStep r4.1 (r4.1.exitLoopSection i) [] := own_exitLoopSection r4.1 i
    have h5 := OwnStep.trans h4 t5
    have hact5 : (r4.1.exitLoopSection i).activeStmts = b.activeStmts ++ [i] := by rw [h5.active]; exact hact0
    have t6 := own_visitStmts orelse σ (r4.1.exitLoopSection i) r4.2 inLoop hso hp ndo (by rw [hact5]; exact hdo)
    rw [hact5] at t6
    have h6 := OwnStep.trans h5 t6
    have t7 := own_exitSection (visitStmts σ orelse (r4.1.exitLoopSection i) r4.2).1 i
    have hall := OwnStep.trans h6 t7
    simpa [List.append_assoc, tagAll] using hall
  | .with_ i items body isAsync, σ, b, a, inLoop, hs, hp, hnd, hdis => by
    simp only [Stmt.supported, Bool.and_eq_true, Bool.not_eq_true'] at hs
    obtain ⟨has, hsb⟩ := hs
    subst has
    simp only [ownerIds] at hnd hdis
    simp only [visitStmt, ownSpec, Bool.false_eq_true, if_false]
    have t1 := basicExprs_own σ items b a
    have t2 := own_visitStmts body σ (basicExprs σ items b a).1 (basicExprs σ items b a).2 inLoop hsb hp hnd (by rw [t1.active]; exact hdis)
    rw [t1.active] at t2
    exact OwnStep.trans t1 t2
  | .try_ i body handlers orelse final, σ, b, a, inLoop, hs, hp, hnd, hdis => by
    simp only [Stmt.supported, Bool.and_eq_true] at hs
    obtain ⟨⟨⟨hsb, hsh⟩, hso⟩, hsf⟩ := hs
    simp only [ownerIds] at hnd hdis
    obtain ⟨hi_all, hnd2⟩ := List.nodup_cons.mp hnd
    obtain ⟨ndb, nd3, d_b⟩ := List.nodup_append.mp hnd2
    obtain ⟨ndo, nd4, d_o⟩ := List.nodup_append.mp nd3
    obtain ⟨ndh, ndf, d_h⟩ := List.nodup_append.mp nd4
    have hi : i ∉ b.activeStmts := hdis i (List.mem_cons_self ..)
    have mb : ∀ k, k ∈ ownerIdsL body → k ∈ ownerIdsL body ++ (ownerIdsL orelse ++ (ownerIdsL handlers ++ ownerIdsL final)) :=
      fun k hk => List.mem_append.mpr (Or.inl hk)
    have mo : ∀ k, k ∈ ownerIdsL orelse → k ∈ ownerIdsL body ++ (ownerIdsL orelse ++ (ownerIdsL handlers ++ ownerIdsL final)) :=
      fun k hk => List.mem_append.mpr (Or.inr (List.mem_append.mpr (Or.inl hk)))
    have mh : ∀ k, k ∈ ownerIdsL handlers → k ∈ ownerIdsL body ++ (ownerIdsL orelse ++ (ownerIdsL handlers ++ ownerIdsL final)) :=
      fun k hk => List.mem_append.mpr (Or.inr (List.mem_append.mpr (Or.inr (List.mem_append.mpr (Or.inl hk)))))
    have mf : ∀ k, k ∈ ownerIdsL final → k ∈ ownerIdsL body ++ (ownerIdsL orelse ++ (ownerIdsL handlers ++ ownerIdsL final)) :=
      fun k hk => List.mem_append.mpr (Or.inr (List.mem_append.mpr (Or.inr (List.mem_append.mpr (Or.inr hk)))))
    have dsub : ∀ (l : List Nat), (∀ k, k ∈ l → k ∈ ownerIdsL body ++ (ownerIdsL orelse ++ (ownerIdsL handlers ++ ownerIdsL final))) →
        ∀ k, k ∈ l → k ∉ b.activeStmts ++ [i] :=
      fun l hl => disj_snoc (fun k hk => hdis k (List.mem_cons_of_mem _ (hl k hk))) (fun h => hi_all (hl i h))
    simp only [visitStmt, ownSpec]
    refine own_bracket i hi ?_
    let b0 := b.beginStatement i
    have hact0 : b0.activeStmts = b.activeStmts ++ [i] := rfl
    let σ' := Scope.try_ i (!final.isEmpty) (handlerIds handlers) :: σ
    have hp' : OwnPre σ' inLoop := hp.try_scope i _ _
    have t1 := own_visitStmts body σ' b0 a inLoop hsb hp' ndb (by rw [hact0]; exact dsub _ mb)
    rw [hact0] at t1
    let r1 := visitStmts σ' body b0 a
    have hact1 : r1.1.activeStmts = b.activeStmts ++ [i] := by rw [t1.active]; exact hact0
    -- else block
    have t2 := own_optSection (elseRep i orelse) (fun k b => (b.enterCondSection k).newCondBranch k)
      (fun k b => (b.newCondBranch k).exitCondSection k) (fun _ => visitStmts σ' orelse) r1 (ownSpecL (b.activeStmts ++ [i]) orelse)
      (fun k b' => by simpa using OwnStep.trans (own_enterCondSection b' k) (own_newCondBranch _ k))
      (fun k b' => by simpa using OwnStep.trans (own_newCondBranch b' k) (own_exitCondSection _ k))
      (fun h => by cases orelse with
        | nil => rfl
        | cons x xs => simp [elseRep] at h)
      (fun k b' a' _ hb' => by
        have := own_visitStmts orelse σ' b' a' inLoop hso hp' ndo (by rw [hb', hact1]; exact dsub _ mo)
        rw [hb', hact1] at this; exact this)
    let r2 := optSection (elseRep i orelse) (fun k b => (b.enterCondSection k).newCondBranch k)
      (fun k b => (b.newCondBranch k).exitCondSection k) (fun _ => visitStmts σ' orelse) r1
    have h2 := OwnStep.trans t1 t2
    have hact2 : r2.1.activeStmts = b.activeStmts ++ [i] := by rw [h2.active]; exact hact0
    -- handlers
    have t3 := own_optSection (handlers.head?.map Stmt.id) (fun k b => b.enterCondSection k)
      (fun k b => (b.newCondBranch k).exitCondSection k) (fun k => visitHandlers σ k handlers) r2 (ownSpecL (b.activeStmts ++ [i]) handlers)
      (fun k b' => own_enterCondSection b' k)
      (fun k b' => by simpa using OwnStep.trans (own_newCondBranch b' k) (own_exitCondSection _ k))
      (fun h => by cases handlers with
        | nil => rfl
        | cons x xs => simp at h)
      (fun k b' a' _ hb' => by
        have := own_visitHandlers handlers σ k b' a' inLoop hsh hp ndh (by rw [hb', hact2]; exact dsub _ mh)
        rw [hb', hact2] at this; exact this)
    let r3 := optSection (handlers.head?.map Stmt.id) (fun k b => b.enterCondSection k)
      (fun k b => (b.newCondBranch k).exitCondSection k) (fun k => visitHandlers σ k handlers) r2
    have h3 := OwnStep.trans h2 t3
    have hact3 : r3.1.activeStmts = b.activeStmts ++ [i] := by rw [h3.active]; exact hact0
    -- finally block
    have t4 := own_optSection (if final.isEmpty then none else some i) (fun k b => b.enterFinallySection k)
      (fun k b => b.exitFinallySection k) (fun _ => visitStmts σ final) r3 (ownSpecL (b.activeStmts ++ [i]) final)
      (fun k b' => own_enterFinallySection b' k) (fun k b' => own_exitFinallySection b' k)
      (fun h => by cases final with
        | nil => rfl
        | cons x xs => simp at h)
      (fun k b' a' _ hb' => by
        have := own_visitStmts final σ b' a' inLoop hsf hp ndf (by rw [hb', hact3]; exact dsub _ mf)
        rw [hb', hact3] at this; exact this)
    have hall := OwnStep.trans h3 t4
    simpa [List.append_assoc] using hall
  | .handler .., _, _, _, _, hs, _, _, _ => by simp [Stmt.supported] at hs
  | .other .., _, _, _, _, hs, _, _, _ => by simp [Stmt.supported] at hs

theorem own_visitStmts : ∀ (ss : List Stmt) (σ : List Scope) (b : B) (a : Acc) (inLoop : Bool), supportedL inLoop ss = true →
    OwnPre σ inLoop → (ownerIdsL ss).Nodup → (∀ k, k ∈ ownerIdsL ss → k ∉ b.activeStmts) →
    OwnStep b (visitStmts σ ss b a).1 (ownSpecL b.activeStmts ss)
  | [], σ, b, a, inLoop, _, _, _, _ => by simp only [visitStmts, ownSpecL]; exact OwnStep.refl b
  | s :: ss, σ, b, a, inLoop, hs, hp, hnd, hdis => by
    simp only [supportedL, Bool.and_eq_true] at hs
    simp only [ownerIdsL] at hnd hdis
    obtain ⟨nd1, nd2, _⟩ := List.nodup_append.mp hnd
    have h1 := own_visitStmt s σ b a inLoop hs.1 hp nd1 (fun k hk => hdis k (List.mem_append.mpr (Or.inl hk)))
    have h2 := own_visitStmts ss σ (visitStmt σ s b a).1 (visitStmt σ s b a).2 inLoop hs.2 hp nd2
      (by rw [h1.active]; exact fun k hk => hdis k (List.mem_append.mpr (Or.inr hk)))
    rw [h1.active] at h2
    simp only [visitStmts, ownSpecL]
    exact OwnStep.trans h1 h2
theorem own_visitHandlers : ∀ (hs : List Stmt) (σ : List Scope) (rep : Nat) (b : B) (a : Acc) (inLoop : Bool),
    handlersOk inLoop hs = true → OwnPre σ inLoop → (ownerIdsL hs).Nodup → (∀ k, k ∈ ownerIdsL hs → k ∉ b.activeStmts) →
    OwnStep b (visitHandlers σ rep hs b a).1 (ownSpecL b.activeStmts hs)
  | [], σ, rep, b, a, inLoop, _, _, _, _ => by simp only [visitHandlers, ownSpecL]; exact OwnStep.refl b
  | .handler i ty nm hb :: hs, σ, rep, b, a, inLoop, hok, hp, hnd, hdis => by
    simp only [handlersOk, Bool.and_eq_true, List.isEmpty_iff] at hok
    obtain ⟨⟨hnm, hsb⟩, hoks⟩ := hok
    subst hnm
    simp only [ownerIdsL, ownerIds] at hnd hdis
    obtain ⟨nd1, nd2, d12⟩ := List.nodup_append.mp hnd
    obtain ⟨hi_b, ndb⟩ := List.nodup_cons.mp nd1
    have hi : i ∉ b.activeStmts := hdis i (List.mem_append.mpr (Or.inl (List.mem_cons_self ..)))
    let b1 := b.newCondBranch rep
    have t0 : OwnStep b b1 [] := own_newCondBranch b rep
    have hact1 : b1.activeStmts = b.activeStmts := t0.active
    -- the handler itself
    have hh : OwnStep b1 (visitStmt σ (.handler i ty [] hb) b1 a).1 (ownSpec b.activeStmts (.handler i ty [] hb)) := by
      simp only [visitStmt, ownSpec, List.isEmpty_nil, if_true]
      refine own_bracket i (by rw [hact1]; exact hi) ?_
      have hact0 : (b1.beginStatement i).activeStmts = b.activeStmts ++ [i] := by show b1.activeStmts ++ [i] = _; rw [hact1]
      have u1 := own_enterExceptSection (b1.beginStatement i) i
      have u2 := own_addOrdinaryNodes (lamsL ty) ((b1.beginStatement i).enterExceptSection i)
      rw [u1.active, hact0] at u2
      have h2 := OwnStep.trans u1 u2
      have hact2 : (addOrdinaryNodes ((b1.beginStatement i).enterExceptSection i) (lamsL ty)).activeStmts = b.activeStmts ++ [i] := by
        rw [h2.active]; exact hact0
      have u3 := own_visitStmts hb σ _ (lamGraphsL σ ty a) inLoop hsb hp ndb
        (by rw [hact2]; exact disj_snoc (fun k hk => hdis k (List.mem_append.mpr (Or.inl (List.mem_cons_of_mem _ hk)))) hi_b)
      rw [hact2] at u3
      simpa using OwnStep.trans h2 u3
    have h01 := OwnStep.trans t0 hh
    have hactn : (visitStmt σ (.handler i ty [] hb) b1 a).1.activeStmts = b.activeStmts := by rw [h01.active]
    have rest := own_visitHandlers hs σ rep (visitStmt σ (.handler i ty [] hb) b1 a).1 (visitStmt σ (.handler i ty [] hb) b1 a).2 inLoop
      hoks hp nd2 (by rw [hactn]; exact fun k hk => hdis k (List.mem_append.mpr (Or.inr hk)))
    rw [hactn] at rest
    simp only [visitHandlers, ownSpecL]
    simpa using OwnStep.trans h01 rest
  | .functionDef .. :: _, _, _, _, _, _, hok, _, _, _ => by simp [handlersOk] at hok
  | .classDef .. :: _, _, _, _, _, _, hok, _, _, _ => by simp [handlersOk] at hok
  | .ret .. :: _, _, _, _, _, _, hok, _, _, _ => by simp [handlersOk] at hok
  | .delete .. :: _, _, _, _, _, _, hok, _, _, _ => by simp [handlersOk] at hok
  | .assign .. :: _, _, _, _, _, _, hok, _, _, _ => by simp [handlersOk] at hok
  | .augAssign .. :: _, _, _, _, _, _, hok, _, _, _ => by simp [handlersOk] at hok
  | .annAssign .. :: _, _, _, _, _, _, hok, _, _, _ => by simp [handlersOk] at hok
  | .for_ .. :: _, _, _, _, _, _, hok, _, _, _ => by simp [handlersOk] at hok
  | .while_ .. :: _, _, _, _, _, _, hok, _, _, _ => by simp [handlersOk] at hok
  | .if_ .. :: _, _, _, _, _, _, hok, _, _, _ => by simp [handlersOk] at hok
  | .with_ .. :: _, _, _, _, _, _, hok, _, _, _ => by simp [handlersOk] at hok
  | .raise .. :: _, _, _, _, _, _, hok, _, _, _ => by simp [handlersOk] at hok
  | .try_ .. :: _, _, _, _, _, _, hok, _, _, _ => by simp [handlersOk] at hok
  | .assert_ .. :: _, _, _, _, _, _, hok, _, _, _ => by simp [handlersOk] at hok
  | .import_ .. :: _, _, _, _, _, _, hok, _, _, _ => by simp [handlersOk] at hok
  | .importFrom .. :: _, _, _, _, _, _, hok, _, _, _ => by simp [handlersOk] at hok
  | .global .. :: _, _, _, _, _, _, hok, _, _, _ => by simp [handlersOk] at hok
  | .nonlocal .. :: _, _, _, _, _, _, hok, _, _, _ => by simp [handlersOk] at hok
  | .expr .. :: _, _, _, _, _, _, hok, _, _, _ => by simp [handlersOk] at hok
  | .pass .. :: _, _, _, _, _, _, hok, _, _, _ => by simp [handlersOk] at hok
  | .break_ .. :: _, _, _, _, _, _, hok, _, _, _ => by simp [handlersOk] at hok
  | .continue_ .. :: _, _, _, _, _, _, hok, _, _, _ => by simp [handlersOk] at hok
  | .other .. :: _, _, _, _, _, _, hok, _, _, _ => by simp [handlersOk] at hok
end


theorem owners_root (i : Nat) (name : String) (args : Expr) (body : List Stmt) (decs rets : List Expr)
    (hs : fnSupported (.functionDef i name args body decs rets false) = true)
    (hd : fnDistinctOwnerIds (.functionDef i name args body decs rets false) = true) :
    (rootBuilder (.functionDef i name args body decs rets false)).1.build.owners =
      fnOwnSpec (.functionDef i name args body decs rets false) := by
  simp only [fnSupported, Bool.not_false, Bool.true_and] at hs
  have hnd : (ownerIdsL body).Nodup := nodupB_sound _ hd
  let σ : List Scope := [Scope.fn i]
  let b0 : B := ({} : B).enterSection i
  have t0 : OwnStep ({} : B) b0 [] := own_enterSection _ i
  have t1 := own_simple b0 args.kidLams args.id
  rw [t0.active] at t1
  have h1 := OwnStep.trans t0 t1
  have hact1 : ((addOrdinaryNodes b0 args.kidLams).addOrdinaryNode args.id).activeStmts = [] := by rw [h1.active]
  have hp : OwnPre σ false := ⟨⟨i, rfl⟩, fun h => by cases h⟩
  have t2 := own_visitStmts body σ _ (basicExpr σ args b0 {}).2 false hs hp hnd (by rw [hact1]; intro k _ h; exact (List.not_mem_nil h).elim)
  rw [hact1] at t2
  have h2 := OwnStep.trans h1 t2
  have t3 := own_exitSection (visitStmts σ body ((addOrdinaryNodes b0 args.kidLams).addOrdinaryNode args.id) (basicExpr σ args b0 {}).2).1 i
  have hall := OwnStep.trans h2 t3
  have hroot : (rootBuilder (.functionDef i name args body decs rets false)).1 =
      (visitStmts σ body ((addOrdinaryNodes b0 args.kidLams).addOrdinaryNode args.id) (basicExpr σ args b0 {}).2).1.exitSection i := rfl
  show (rootBuilder (.functionDef i name args body decs rets false)).1.owners = _
  rw [hroot]
  have := hall.owners
  simpa [fnOwnSpec, tagAll] using this

end Malt.Cfg
