import MaltModel.Proofs.C05FrameX
/-!
# C05, Lemma B and C with `finally`: every required pair of the flow summary is an edge of the model's graph

The invariant relating the builder state to the flow summary of the code visited so far:
* every node control can be at is a leaf — or, at the start of a `finally` block reached by a pending jump, a node that
  will be connected to the block's first node (`Src`);
* every required pair is an edge, or a *pending pair* (`PP`): it will be added by `_connect_jump_to_finally_sections`
  when the section targeted by a registered jump is exited;
* every pending jump outcome is a registered jump at some *stage* of its guard chain (`PJ`): the jump node itself, or
  the end of the last `finally` block it has passed, with exactly the enclosing `finally` scopes left to pass.
-/
namespace Malt.Cfg
open Malt.Py

/-! ### scopes -/

/-- (Tagged) dictionary keys owned by the open scopes: section keys of loops and functions, `raises` keys of handlers. -/
def scopeKeys : List Scope → List Nat
  | [] => []
  | .try_ _ _ hs :: σ => hs.map sk ++ scopeKeys σ
  | sc :: σ => sk sc.id :: scopeKeys σ

theorem enclosingFinally_target_key (stop : Stop) : ∀ (σ : List Scope) (t : Nat), (enclosingFinally stop σ).1 = some t →
    sk t ∈ scopeKeys σ := by
  intro σ
  induction σ with
  | nil => intro t h; simp [enclosingFinally] at h
  | cons sc σ ih =>
    intro t h
    simp only [enclosingFinally] at h
    split at h
    · rename_i hs
      simp only [Option.some.injEq] at h
      cases sc <;> simp [Scope.isStop] at hs <;> (subst h; simp [scopeKeys, Scope.id])
    · have := ih t h
      cases sc <;> simp [scopeKeys, this]

theorem enclosingExcept_key (stop : Stop) : ∀ (σ : List Scope) (h : Nat), h ∈ enclosingExcept stop σ → sk h ∈ scopeKeys σ := by
  intro σ
  induction σ with
  | nil => intro h hh; simp [enclosingExcept] at hh
  | cons sc σ ih =>
    intro h hh
    simp only [enclosingExcept] at hh
    cases sc with
    | try_ i f hs =>
      simp only [Scope.isStop, Bool.false_eq_true, if_false, List.mem_append] at hh
      simp only [scopeKeys, List.mem_append, List.mem_map]
      rcases hh with hh | hh
      · exact Or.inl ⟨h, hh, rfl⟩
      · exact Or.inr (ih h hh)
    | _ =>
      simp only [List.nil_append] at hh
      split at hh
      · cases hh
      · simp [scopeKeys, ih h hh]

def loopOf (σ : List Scope) : Option Nat := (enclosingFinally .loop σ).1
def fnOf (σ : List Scope) : Option Nat := (enclosingFinally .fn σ).1
/-- the `finally` guards a jump with the given kind of target carries from here -/
def guardsOf (stop : Stop) (σ : List Scope) : List Nat := (enclosingFinally stop σ).2

/-! ### pending jumps -/

/-- the jump dictionary: `continues` or `exits` -/
def dictOf (c : Bool) (b : B) : List (Nat × List Nat) := if c then b.continues else b.exits

/-- the `finally` section `g` is finished: first node and end set recorded -/
def Complete (b : B) (g : Nat) : Prop := g ∉ b.pendingFinally ∧ ∃ beg ends, aget g b.finallySub = some (some beg, some ends)

/-- where control is after jump `j` has passed the guards `pre` -/
def Stage (b : B) (pre : List Nat) (j x : Nat) : Prop :=
  (pre = [] ∧ x = j) ∨ ∃ g beg ends, pre.getLast? = some g ∧ aget g b.finallySub = some (some beg, some ends) ∧ x ∈ b.deref ends

/-- `x` is a pending jump outcome toward section `t` with the guards `G` still to pass -/
def PJ (c : Bool) (b : B) (t : Nat) (G : List Nat) (x : Nat) : Prop :=
  ∃ l j pre, aget t (dictOf c b) = some l ∧ j ∈ l ∧ aget j b.finallySections = some (pre ++ G) ∧
    (∀ g, g ∈ pre → Complete b g) ∧ Stage b pre j x

/-- the first node of the finished section `g` is `y` -/
def BeginOf (b : B) (g y : Nat) : Prop := g ∉ b.pendingFinally ∧ ∃ ends, aget g b.finallySub = some (some y, some ends)

/-- a pending pair: the edge will be added when the registered jump `j` is connected through its guards -/
def PPd (b : B) (gs : List Nat) (j : Nat) (p : Nat × Nat) : Prop :=
    ((∃ g rest, gs = g :: rest ∧ p.1 = j ∧ BeginOf b g p.2) ∨
     (∃ l1 g g' r beg ends, gs = l1 ++ g :: g' :: r ∧ g ∉ b.pendingFinally ∧ aget g b.finallySub = some (some beg, some ends) ∧
        p.1 ∈ b.deref ends ∧ BeginOf b g' p.2))
def PPat (b : B) (c : Bool) (t : Nat) (p : Nat × Nat) : Prop :=
  ∃ l j gs, aget t (dictOf c b) = some l ∧ j ∈ l ∧ aget j b.finallySections = some gs ∧ PPd b gs j p
/-- the sections a jump of kind `c` (continue / exit) registered under the scope list `σ` can target -/
def Tgt (σ : List Scope) (c : Bool) (t : Nat) : Prop := loopOf σ = some t ∨ (c = false ∧ fnOf σ = some t)

theorem tgt_key {σ : List Scope} {c : Bool} {t : Nat} (h : Tgt σ c t) : sk t ∈ scopeKeys σ := by
  rcases h with h | ⟨_, h⟩
  · exact enclosingFinally_target_key .loop σ t h
  · exact enclosingFinally_target_key .fn σ t h

/-- the waiting `finally` section `T` got `y` as its first node -/
def StartedAt (b : B) (T y : Nat) : Prop := T ∉ b.pendingFinally ∧ ∃ e, aget T b.finallySub = some (some y, e)

/-- `x` is a leaf, or one of the pending nodes `curP` that flow into the first node of the waiting section `T` -/
def Src (b : B) (T : Nat) (curP : List Nat) (x : Nat) : Prop := x ∈ b.leafSet ∨ (x ∈ curP ∧ Wait b T)

/-- a required pair is an edge, a pending pair, or a pair from a pending node into the first node of `T` -/
def ReqOk (σ : List Scope) (b : B) (T : Nat) (curP : List Nat) (p : Nat × Nat) : Prop :=
  p ∈ b.edges ∨ (∃ c t, Tgt σ c t ∧ PPat b c t p) ∨ (p.1 ∈ curP ∧ StartedAt b T p.2)

structure Pend (σ : List Scope) (T : Nat) (curP : List Nat) (b : B) (R : Flow) : Prop where
  req : ∀ p, p ∈ R.req → ReqOk σ b T curP p
  brk : ∀ x, x ∈ R.brk → ∃ L, loopOf σ = some L ∧ PJ false b L (guardsOf .loop σ) x
  cont : ∀ x, x ∈ R.cont → ∃ L, loopOf σ = some L ∧ PJ true b L (guardsOf .loop σ) x
  ret : ∀ x, x ∈ R.ret → ∃ F, fnOf σ = some F ∧ PJ false b F (guardsOf .fn σ) x
  raise : ∀ x, x ∈ R.raise → x ∈ b.errors ∧
    ∀ h, h ∈ enclosingExcept .fn σ → ∃ l, aget h b.raises = some l ∧ x ∈ l
  exempt : ∀ x, x ∈ R.exempt → x ∈ b.errors

/-- a node belongs to at most one jump list -/
def ListsDisjoint (b : B) : Prop :=
  ∀ c c' t t' l l' j, aget t (dictOf c b) = some l → aget t' (dictOf c' b) = some l' → j ∈ l → j ∈ l' → c = c' ∧ t = t'

/-- What Lemma B assumes of the builder state before visiting code whose (tagged) keys and nodes are `K`. -/
structure Pre (σ : List Scope) (K : List Nat) (b : B) : Prop where
  disj : ∀ k, k ∈ scopeKeys σ → k ∉ K
  old : ∀ k, k ∈ K → k ∉ Old b
  fresh : ∀ k, ck k ∈ K → aget k b.condEntry = none
  loopOpen : ∀ L, loopOf σ = some L → (∃ l, aget L b.exits = some l) ∧ (∃ l, aget L b.continues = some l)
  fnOpen : ∃ F, fnOf σ = some F ∧ ∃ l, aget F b.exits = some l
  valid : Valid b
  lin : ListsInNodes b
  ldj : ListsDisjoint b

/-- What Lemma B establishes for a statement. -/
structure Post (σ : List Scope) (T : Nat) (curP : List Nat) (b' : B) (R : Flow) : Prop where
  pend : Pend σ T curP b' R
  norm : InLeaves b' R.normal
  ldj : ListsDisjoint b'

/-- What Lemma B establishes for a block (which may be empty: then control is still where it was). -/
structure PostL (σ : List Scope) (T : Nat) (curP : List Nat) (b' : B) (R : Flow) (em : Bool) : Prop where
  pend : Pend σ T curP b' R
  norm : ∀ x, x ∈ R.normal → Src b' T curP x
  normE : em = true → InLeaves b' R.normal
  ldj : ListsDisjoint b'

/-! ### transport along a step that does not touch the things referred to -/

theorem complete_mono {K : List Nat} {b b' : B} (hx : FrameX K b b') {g : Nat} (hg : sk g ∉ K) (h : Complete b g) : Complete b' g := by
  obtain ⟨h1, beg, ends, h2⟩ := h
  obtain ⟨e1, e2⟩ := hx.fsub g hg h1
  exact ⟨e2, beg, ends, by rw [e1]; exact h2⟩

theorem beginOf_mono {K : List Nat} {b b' : B} (hx : FrameX K b b') {g y : Nat} (hg : sk g ∉ K) (h : BeginOf b g y) : BeginOf b' g y := by
  obtain ⟨h1, ends, h2⟩ := h
  obtain ⟨e1, e2⟩ := hx.fsub g hg h1
  exact ⟨e2, ends, by rw [e1]; exact h2⟩

theorem startedAt_mono {K : List Nat} {b b' : B} (hx : FrameX K b b') {g y : Nat} (hg : sk g ∉ K) (h : StartedAt b g y) : StartedAt b' g y := by
  obtain ⟨h1, e, h2⟩ := h
  obtain ⟨e1, e2⟩ := hx.fsub g hg h1
  exact ⟨e2, e, by rw [e1]; exact h2⟩

theorem aget_mem' {β} {k : Nat} {v : β} : ∀ {m : List (Nat × β)}, aget k m = some v → (k, v) ∈ m := by
  intro m
  induction m with
  | nil => intro h; simp [aget] at h
  | cons p m ih =>
    intro h
    simp only [aget, List.lookup] at h
    split at h
    · rename_i heq
      simp only [Option.some.injEq] at h
      have : k = p.1 := by simpa using heq
      subst h; subst this
      exact List.mem_cons_self ..
    · exact List.mem_cons_of_mem _ (ih h)

/-- keys of finished sections are old -/
theorem sk_mem_old {b : B} {g : Nat} {v : Option NodeId × Option Ref} (h : aget g b.finallySub = some v) : sk g ∈ Old b := by
  have := aget_mem' h
  exact List.mem_append.mpr (Or.inr (List.mem_append.mpr (Or.inl (List.mem_map.mpr ⟨(g, v), this, rfl⟩))))

theorem nk_mem_old {b : B} {n : Nat} (h : n ∈ b.nodes) : nk n ∈ Old b :=
  List.mem_append.mpr (Or.inl (List.mem_map.mpr ⟨n, h, rfl⟩))

theorem dict_mono {K : List Nat} {b b' : B} (hf : Frame K b b') (c : Bool) {t : Nat} (ht : sk t ∉ K) {l : List Nat}
    (hl : aget t (dictOf c b) = some l) : ∃ l', aget t (dictOf c b') = some l' ∧ ∀ x, x ∈ l → x ∈ l' := by
  cases c
  · exact hf.exits t ht l hl
  · exact hf.continues t ht l hl

theorem dict_in_nodes {b : B} (hl : ListsInNodes b) (c : Bool) {t : Nat} {l : List Nat} (h : aget t (dictOf c b) = some l) :
    ∀ x, x ∈ l → x ∈ b.nodes := by
  cases c
  · exact hl.exits t l h
  · exact hl.continues t l h

theorem stage_mono {K : List Nat} {b b' : B} (hf : Frame K b b') (hx : FrameX K b b') (hold : ∀ k, k ∈ K → k ∉ Old b)
    {pre : List Nat} {j x : Nat} (hc : ∀ g, g ∈ pre → Complete b g) (h : Stage b pre j x) : Stage b' pre j x := by
  rcases h with h | ⟨g, beg, ends, h1, h2, h3⟩
  · exact Or.inl h
  · have hg : g ∈ pre := List.mem_of_getLast? h1
    have hgK : sk g ∉ K := fun hk => hold _ hk (sk_mem_old h2)
    obtain ⟨e1, _⟩ := hx.fsub g hgK (hc g hg).1
    exact Or.inr ⟨g, beg, ends, h1, by rw [e1]; exact h2, hf.deref ends x h3⟩

theorem PJ.mono {K : List Nat} {b b' : B} (hf : Frame K b b') (hx : FrameX K b b') (hold : ∀ k, k ∈ K → k ∉ Old b)
    (hlin : ListsInNodes b) {c : Bool} {t : Nat} (ht : sk t ∉ K) {G : List Nat} {x : Nat} (h : PJ c b t G x) : PJ c b' t G x := by
  obtain ⟨l, j, pre, h1, h2, h3, h4, h5⟩ := h
  obtain ⟨l', hl', hs⟩ := dict_mono hf c ht h1
  have hj : nk j ∉ K := fun hk => hold _ hk (nk_mem_old (dict_in_nodes hlin c h1 j h2))
  refine ⟨l', j, pre, hl', hs j h2, by rw [hx.fsec j hj]; exact h3, ?_, stage_mono hf hx hold h4 h5⟩
  intro g hg
  obtain ⟨_, beg, ends, hge⟩ := h4 g hg
  exact complete_mono hx (fun hk => hold _ hk (sk_mem_old hge)) (h4 g hg)


theorem dict_key_old {b : B} (c : Bool) {t : Nat} {l : List Nat} (h : aget t (dictOf c b) = some l) : sk t ∈ Old b := by
  cases c
  · exact List.mem_append.mpr (Or.inr (List.mem_append.mpr (Or.inr (List.mem_append.mpr (Or.inl (key_of_aget h))))))
  · exact List.mem_append.mpr (Or.inr (List.mem_append.mpr (Or.inr (List.mem_append.mpr (Or.inr (key_of_aget h))))))

theorem PPat.mono {K : List Nat} {b b' : B} (hf : Frame K b b') (hx : FrameX K b b') (hold : ∀ k, k ∈ K → k ∉ Old b)
    (hlin : ListsInNodes b) {c : Bool} {t : Nat} {p : Nat × Nat} (h : PPat b c t p) : PPat b' c t p := by
  obtain ⟨l, j, gs, h1, h2, h3, h4⟩ := h
  have ht : sk t ∉ K := fun hk => hold _ hk (dict_key_old c h1)
  obtain ⟨l', hl', hs⟩ := dict_mono hf c ht h1
  have hj : nk j ∉ K := fun hk => hold _ hk (nk_mem_old (dict_in_nodes hlin c h1 j h2))
  refine ⟨l', j, gs, hl', hs j h2, by rw [hx.fsec j hj]; exact h3, ?_⟩
  have bmono : ∀ g y, BeginOf b g y → BeginOf b' g y := by
    intro g y hb
    have hb' := hb
    obtain ⟨_, ends, he⟩ := hb'
    exact beginOf_mono hx (fun hk => hold _ hk (sk_mem_old he)) hb
  rcases h4 with ⟨g, rest, e1, e2, e3⟩ | ⟨l1, g, g', r, beg, ends, e1, e2, e3, e4, e5⟩
  · exact Or.inl ⟨g, rest, e1, e2, bmono g _ e3⟩
  · have hgK : sk g ∉ K := fun hk => hold _ hk (sk_mem_old e3)
    obtain ⟨q1, q2⟩ := hx.fsub g hgK e2
    exact Or.inr ⟨l1, g, g', r, beg, ends, e1, q2, by rw [q1]; exact e3, hf.deref ends _ e4, bmono g' _ e5⟩

theorem ReqOk.mono {σ : List Scope} {K : List Nat} {b b' : B} (hf : Frame K b b') (hx : FrameX K b b') (hold : ∀ k, k ∈ K → k ∉ Old b)
    (hlin : ListsInNodes b) {T : Nat} {curP : List Nat} (hT : curP = [] ∨ sk T ∉ K) {p : Nat × Nat} (h : ReqOk σ b T curP p) :
    ReqOk σ b' T curP p := by
  rcases h with h | ⟨c, t, htg, h⟩ | ⟨h1, h2⟩
  · exact Or.inl (hf.edges p h)
  · exact Or.inr (Or.inl ⟨c, t, htg, PPat.mono hf hx hold hlin h⟩)
  · rcases hT with hT | hT
    · rw [hT] at h1; cases h1
    · exact Or.inr (Or.inr ⟨h1, startedAt_mono hx hT h2⟩)

theorem ReqOk.weaken {σ : List Scope} {b : B} {T : Nat} {curP : List Nat} {p : Nat × Nat} (h : ReqOk σ b T [] p) : ReqOk σ b T curP p := by
  rcases h with h | h | ⟨h1, _⟩
  · exact Or.inl h
  · exact Or.inr (Or.inl h)
  · cases h1

theorem Pend.empty (σ : List Scope) (T : Nat) (curP : List Nat) (b : B) : Pend σ T curP b {} :=
  ⟨fun _ h => (List.not_mem_nil h).elim, fun _ h => (List.not_mem_nil h).elim, fun _ h => (List.not_mem_nil h).elim,
   fun _ h => (List.not_mem_nil h).elim, fun _ h => (List.not_mem_nil h).elim, fun _ h => (List.not_mem_nil h).elim⟩

theorem Pend.of_req (σ : List Scope) (T : Nat) (curP : List Nat) (b : B) (l : List (Nat × Nat)) (nrm : List Nat)
    (h : ∀ p, p ∈ l → ReqOk σ b T curP p) : Pend σ T curP b { req := l, normal := nrm } :=
  ⟨h, fun _ h => (List.not_mem_nil h).elim, fun _ h => (List.not_mem_nil h).elim,
   fun _ h => (List.not_mem_nil h).elim, fun _ h => (List.not_mem_nil h).elim, fun _ h => (List.not_mem_nil h).elim⟩

theorem Pend.weaken {σ : List Scope} {T : Nat} {curP : List Nat} {b : B} {R : Flow} (h : Pend σ T [] b R) : Pend σ T curP b R :=
  ⟨fun p hp => (h.req p hp).weaken, h.brk, h.cont, h.ret, h.raise, h.exempt⟩

theorem Pend.transport {σ : List Scope} {T : Nat} {curP : List Nat} {K : List Nat} {b b' : B} {R : Flow}
    (hf : Frame K b b') (hx : FrameX K b b') (hold : ∀ k, k ∈ K → k ∉ Old b) (hlin : ListsInNodes b)
    (hσ : ∀ k, k ∈ scopeKeys σ → k ∉ K) (hT : curP = [] ∨ sk T ∉ K) (h : Pend σ T curP b R) : Pend σ T curP b' R := by
  have pj : ∀ (c : Bool) (stop : Stop) (t : Nat) (G : List Nat) (x : Nat), (enclosingFinally stop σ).1 = some t →
      PJ c b t G x → PJ c b' t G x :=
    fun c stop t G x ht hp => PJ.mono hf hx hold hlin (hσ _ (enclosingFinally_target_key stop σ t ht)) hp
  refine ⟨fun p hp => (h.req p hp).mono hf hx hold hlin hT, ?_, ?_, ?_, ?_, fun x hx' => hx.errors x (h.exempt x hx')⟩
  · intro x hx'
    obtain ⟨L, hL, hp⟩ := h.brk x hx'
    exact ⟨L, hL, pj false .loop L _ x hL hp⟩
  · intro x hx'
    obtain ⟨L, hL, hp⟩ := h.cont x hx'
    exact ⟨L, hL, pj true .loop L _ x hL hp⟩
  · intro x hx'
    obtain ⟨F, hF, hp⟩ := h.ret x hx'
    exact ⟨F, hF, pj false .fn F _ x hF hp⟩
  · intro x hx'
    obtain ⟨he, hr⟩ := h.raise x hx'
    refine ⟨hx.errors x he, ?_⟩
    intro hd hhd
    obtain ⟨lr, hlr, hxr⟩ := hr hd hhd
    obtain ⟨lr', hlr', hsub⟩ := hf.raises hd (hσ _ (enclosingExcept_key .fn σ hd hhd)) lr hlr
    exact ⟨lr', hlr', hsub x hxr⟩

theorem Pend.seq {σ : List Scope} {T : Nat} {curP : List Nat} {b : B} {R1 R2 : Flow} (h1 : Pend σ T curP b R1)
    (h2 : Pend σ T curP b R2) : Pend σ T curP b (R1.seq R2) := by
  refine ⟨?_, ?_, ?_, ?_, ?_, ?_⟩
  · intro p hp; simp only [Flow.seq, List.mem_append] at hp; exact hp.elim (h1.req p) (h2.req p)
  · intro x hx; simp only [Flow.seq, List.mem_append] at hx; exact hx.elim (h1.brk x) (h2.brk x)
  · intro x hx; simp only [Flow.seq, List.mem_append] at hx; exact hx.elim (h1.cont x) (h2.cont x)
  · intro x hx; simp only [Flow.seq, List.mem_append] at hx; exact hx.elim (h1.ret x) (h2.ret x)
  · intro x hx; simp only [Flow.seq, List.mem_append] at hx; exact hx.elim (h1.raise x) (h2.raise x)
  · intro x hx; simp only [Flow.seq, List.mem_append] at hx; exact hx.elim (h1.exempt x) (h2.exempt x)

theorem Pend.alt {σ : List Scope} {T : Nat} {curP : List Nat} {b : B} {R1 R2 : Flow} (h1 : Pend σ T curP b R1)
    (h2 : Pend σ T curP b R2) : Pend σ T curP b (R1.alt R2) := by
  refine ⟨?_, ?_, ?_, ?_, ?_, ?_⟩
  · intro p hp; simp only [Flow.alt, List.mem_append] at hp; exact hp.elim (h1.req p) (h2.req p)
  · intro x hx; simp only [Flow.alt, List.mem_append] at hx; exact hx.elim (h1.brk x) (h2.brk x)
  · intro x hx; simp only [Flow.alt, List.mem_append] at hx; exact hx.elim (h1.cont x) (h2.cont x)
  · intro x hx; simp only [Flow.alt, List.mem_append] at hx; exact hx.elim (h1.ret x) (h2.ret x)
  · intro x hx; simp only [Flow.alt, List.mem_append] at hx; exact hx.elim (h1.raise x) (h2.raise x)
  · intro x hx; simp only [Flow.alt, List.mem_append] at hx; exact hx.elim (h1.exempt x) (h2.exempt x)

theorem Pre.sub {σ : List Scope} {K K' : List Nat} {b : B} (h : Pre σ K b) (hs : ∀ k, k ∈ K' → k ∈ K) : Pre σ K' b :=
  ⟨fun k hk hk' => h.disj k hk (hs _ hk'), fun k hk => h.old k (hs _ hk), fun k hk => h.fresh k (hs _ hk), h.loopOpen, h.fnOpen,
   h.valid, h.lin, h.ldj⟩

/-- Moving the precondition for `K2` across a step that touches only `K1` (disjoint from `K2` and from the open scopes). -/
theorem Pre.move {σ : List Scope} {K1 K2 : List Nat} {b b1 : B} (h : Pre σ K2 b) (hf : Frame K1 b b1) (hx : FrameX K1 b b1)
    (hσ1 : ∀ k, k ∈ scopeKeys σ → k ∉ K1) (hd : ∀ k, k ∈ K2 → k ∉ K1) (hl : ListsDisjoint b1) : Pre σ K2 b1 := by
  refine ⟨h.disj, ?_, ?_, ?_, ?_, hf.valid h.valid, hx.lin h.lin, hl⟩
  · intro k hk hko
    rcases hx.old k hko with h' | h'
    · exact h.old k hk h'
    · exact hd k hk h'
  · intro k hk
    rw [hf.condEntry k (hd _ hk)]
    exact h.fresh k hk
  · intro L hL
    have hkey := hσ1 _ (enclosingFinally_target_key .loop σ L hL)
    obtain ⟨⟨l1, h1⟩, ⟨l2, h2⟩⟩ := h.loopOpen L hL
    obtain ⟨l1', h1', _⟩ := hf.exits L hkey l1 h1
    obtain ⟨l2', h2', _⟩ := hf.continues L hkey l2 h2
    exact ⟨⟨l1', h1'⟩, ⟨l2', h2'⟩⟩
  · obtain ⟨F, hF, l, hl⟩ := h.fnOpen
    obtain ⟨l', hl', _⟩ := hf.exits F (hσ1 _ (enclosingFinally_target_key .fn σ F hF)) l hl
    exact ⟨F, hF, l', hl'⟩

theorem Pre.step {σ : List Scope} {K1 K2 : List Nat} {b b1 : B} (h : Pre σ (K1 ++ K2) b) (hf : Frame K1 b b1) (hx : FrameX K1 b b1)
    (hd : ∀ k, k ∈ K2 → k ∉ K1) (hl : ListsDisjoint b1) : Pre σ K2 b1 :=
  (h.sub (fun k hk => List.mem_append.mpr (Or.inr hk))).move hf hx
    (fun k hk hk1 => h.disj k hk (List.mem_append.mpr (Or.inl hk1))) hd hl


/-! ### creating nodes from a `Src` set -/

theorem wait_startedAt_addNewNode {b : B} (n T : Nat) (hw : Wait b T) : StartedAt (b.addNewNode n) T n := by
  have hf : ∀ p : Nat × (Option NodeId × Option Ref),
      ((fun p : Nat × (Option NodeId × Option Ref) => if b.pendingFinally.contains p.1 then (p.1, (some n, p.2.2)) else p) p).1 = p.1 := by
    intro p; simp only; split <;> rfl
  obtain ⟨hp, x, e, hx⟩ := hw
  refine ⟨by simp [B.addNewNode, B.pushNode], e, ?_⟩
  show aget T ((b.check (b.nodes.contains n) "ValueError: added twice").finallySub.map _) = _
  simp only [B.check_finallySub, B.check_pendingFinally]
  rw [aget_map _ hf, hx]
  simp [hp]

theorem startedAt_of_same {b b' : B} {T y : Nat} (h2 : b'.finallySub = b.finallySub) (h3 : b'.pendingFinally = b.pendingFinally)
    (h : StartedAt b T y) : StartedAt b' T y := by
  obtain ⟨h1, e, he⟩ := h
  exact ⟨by rw [h3]; exact h1, e, by rw [h2]; exact he⟩

theorem wait_of_same {b b' : B} {T : Nat} (h2 : b'.finallySub = b.finallySub) (h3 : b'.pendingFinally = b.pendingFinally)
    (h : Wait b T) : Wait b' T := by
  obtain ⟨h1, x, e, he⟩ := h
  exact ⟨by rw [h3]; exact h1, x, e, by rw [h2]; exact he⟩

theorem src_of_same {b b' : B} {T : Nat} {curP : List Nat} {x : Nat} (h1 : b'.leafSet = b.leafSet) (h2 : b'.finallySub = b.finallySub)
    (h3 : b'.pendingFinally = b.pendingFinally) (h : Src b T curP x) : Src b' T curP x :=
  h.imp (fun h => by rw [h1]; exact h) (fun h => ⟨h.1, wait_of_same h2 h3 h.2⟩)

/-- a pair into the new ordinary node `n` -/
theorem pair_addOrdinaryNode {b : B} {T : Nat} {curP : List Nat} (n x : Nat) (h : Src b T curP x) :
    (x, n) ∈ (b.addOrdinaryNode n).edges ∨ (x ∈ curP ∧ StartedAt (b.addOrdinaryNode n) T n) := by
  rcases h with h | ⟨h1, h2⟩
  · left; rw [B.edges_addOrdinaryNode]; exact List.mem_append.mpr (Or.inr (List.mem_map.mpr ⟨x, h, rfl⟩))
  · right; exact ⟨h1, startedAt_of_same (by simp [B.addOrdinaryNode]) (by simp [B.addOrdinaryNode]) (wait_startedAt_addNewNode n T h2)⟩

theorem pair_addJumpNode {b : B} {T : Nat} {curP : List Nat} (n x : Nat) (gs : List Nat) (h : Src b T curP x) :
    (x, n) ∈ (b.addJumpNode n gs).edges ∨ (x ∈ curP ∧ StartedAt (b.addJumpNode n gs) T n) := by
  rcases h with h | ⟨h1, h2⟩
  · left; rw [B.edges_addJumpNode]; exact List.mem_append.mpr (Or.inr (List.mem_map.mpr ⟨x, h, rfl⟩))
  · right; exact ⟨h1, startedAt_of_same (by simp [B.addJumpNode]) (by simp [B.addJumpNode]) (wait_startedAt_addNewNode n T h2)⟩

/-- what emitting ordinary nodes from a `Src` set produces: every pair is an edge or flows into the first node of `T` -/
theorem emit_src (T : Nat) (curP : List Nat) (ns : List Nat) : ∀ (b : B) (cur : List Nat), (∀ x, x ∈ cur → Src b T curP x) →
    (∀ p, p ∈ (emit cur ns).1 → p ∈ (addOrdinaryNodes b ns).edges ∨ (p.1 ∈ curP ∧ StartedAt (addOrdinaryNodes b ns) T p.2)) ∧
    (∀ x, x ∈ (emit cur ns).2 → Src (addOrdinaryNodes b ns) T curP x) ∧
    (ns ≠ [] → InLeaves (addOrdinaryNodes b ns) (emit cur ns).2) := by
  induction ns with
  | nil => intro b cur h; exact ⟨fun p hp => (List.not_mem_nil hp).elim, h, fun hne => (hne rfl).elim⟩
  | cons n ns ih =>
    intro b cur h
    obtain ⟨i1, i2, i3⟩ := ih (b.addOrdinaryNode n) [n] (fun x hx => by
      simp only [List.mem_singleton] at hx; subst hx; exact Or.inl (by simp))
    have hf := frame_addOrdinaryNodes (tnodes ns) ns (b.addOrdinaryNode n)
    have hx := fx_addOrdinaryNodes (tnodes ns) ns (fun x hx => mem_tnodes hx) (b.addOrdinaryNode n)
    have hT : sk T ∉ tnodes ns := by
      intro hm; obtain ⟨y, _, hy⟩ := List.mem_map.mp hm; exact sk_ne_nk T y hy.symm
    refine ⟨?_, i2, fun _ => ?_⟩
    · intro p hp
      simp only [emit, List.mem_append] at hp
      rcases hp with hp | hp
      · simp only [cross, List.mem_map] at hp
        obtain ⟨x, hxc, rfl⟩ := hp
        rcases pair_addOrdinaryNode n x (h x hxc) with h' | ⟨h1, h2⟩
        · exact Or.inl (hf.edges _ h')
        · exact Or.inr ⟨h1, startedAt_mono hx hT h2⟩
      · exact i1 p hp
    · by_cases hns : ns = []
      · subst hns; intro x hx'; simp only [emit, List.mem_singleton] at hx'; subst hx'; simp [addOrdinaryNodes]
      · exact i3 hns

/-! ### the jump lists stay pairwise disjoint -/

theorem ldj_of_eq {b b' : B} (h1 : b'.exits = b.exits) (h2 : b'.continues = b.continues) (h : ListsDisjoint b) : ListsDisjoint b' := by
  intro c c' t t' l l' j a1 a2
  have e : ∀ c, dictOf c b' = dictOf c b := fun c => by cases c <;> simp [dictOf, h1, h2]
  rw [e] at a1 a2
  exact h c c' t t' l l' j a1 a2

theorem dictOf_putExits (b : B) (k : Nat) (l : List Nat) (c : Bool) :
    dictOf c (b.putExits k l) = if c then b.continues else aset k l b.exits := by cases c <;> rfl
theorem dictOf_putContinues (b : B) (k : Nat) (l : List Nat) (c : Bool) :
    dictOf c (b.putContinues k l) = if c then aset k l b.continues else b.exits := by cases c <;> rfl

/-- replacing the list of key `k` of dictionary `c0` by `l0`, all of whose members are new or were already there -/
theorem ldj_put (b : B) (c0 : Bool) (k : Nat) (l0 : List Nat) (b' : B)
    (hd : ∀ c, dictOf c b' = if c = c0 then aset k l0 (dictOf c b) else dictOf c b)
    (hm : ∀ x, x ∈ l0 → (∃ l, aget k (dictOf c0 b) = some l ∧ x ∈ l) ∨ (∀ c t l, aget t (dictOf c b) = some l → x ∉ l))
    (h : ListsDisjoint b) : ListsDisjoint b' := by
  -- where does a member of a list of b' come from?
  have orig : ∀ c t l j, aget t (dictOf c b') = some l → j ∈ l →
      (aget t (dictOf c b) = some l) ∨ (c = c0 ∧ t = k ∧ l = l0) := by
    intro c t l j a _
    rw [hd] at a
    by_cases hc : c = c0
    · simp only [hc, if_true] at a
      rw [aget_aset] at a
      by_cases ht : t = k
      · simp only [ht, if_true, Option.some.injEq] at a; exact Or.inr ⟨hc, ht, a.symm⟩
      · simp only [ht, if_false] at a; exact Or.inl (by rw [hc]; exact a)
    · simp only [hc, if_false] at a; exact Or.inl a
  intro c c' t t' l l' j a1 a2 m1 m2
  rcases orig c t l j a1 m1 with o1 | ⟨o1, o2, o3⟩ <;> rcases orig c' t' l' j a2 m2 with p1 | ⟨p1, p2, p3⟩
  · exact h c c' t t' l l' j o1 p1 m1 m2
  · subst p3
    rcases hm j m2 with ⟨l1, hl1, hj1⟩ | hnew
    · have := h c c0 t k l l1 j o1 hl1 m1 hj1
      exact ⟨this.1.trans p1.symm, this.2.trans p2.symm⟩
    · exact (hnew c t l o1 m1).elim
  · subst o3
    rcases hm j m1 with ⟨l1, hl1, hj1⟩ | hnew
    · have := h c0 c' k t' l1 l' j hl1 p1 hj1 m2
      exact ⟨o1.trans this.1, o2.trans this.2⟩
    · exact (hnew c' t' l' p1 m2).elim
  · exact ⟨o1.trans p1.symm, o2.trans p2.symm⟩

theorem ldj_del (b b' : B) (hd : ∀ c t l, aget t (dictOf c b') = some l → aget t (dictOf c b) = some l)
    (h : ListsDisjoint b) : ListsDisjoint b' :=
  fun c c' t t' l l' j a1 a2 => h c c' t t' l l' j (hd c t l a1) (hd c' t' l' a2)

theorem aget_adel_some {β} {k k' : Nat} {m : List (Nat × β)} {v : β} (h : aget k (adel k' m) = some v) : aget k m = some v := by
  rw [aget_adel] at h
  by_cases hk : k = k'
  · simp [hk] at h
  · simpa [hk] using h

theorem ldj_enterSection {b : B} (i : Nat) (h : ListsDisjoint b) : ListsDisjoint (b.enterSection i) := by
  refine ldj_put (b.check (ahas i b.exits) "assert: section entered twice") false i [] _ ?_ (fun x hx => (List.not_mem_nil hx).elim)
    (ldj_of_eq (by simp) (by simp) h)
  intro c; cases c <;> rfl

theorem ldj_delExits {b : B} (i : Nat) (h : ListsDisjoint b) : ListsDisjoint (b.delExits i) := by
  refine ldj_del b _ ?_ h
  intro c t l a
  cases c
  · exact aget_adel_some a
  · exact a

theorem ldj_delLoopKeys {b : B} (i : Nat) (h : ListsDisjoint b) : ListsDisjoint (b.delLoopKeys i) := by
  refine ldj_del b _ ?_ h
  intro c t l a
  cases c
  · exact a
  · exact aget_adel_some a


/-! ### registering a jump -/

theorem nodes_addOrdinaryNodes (ns : List Nat) : ∀ b : B, (addOrdinaryNodes b ns).nodes = b.nodes ++ ns := by
  induction ns with
  | nil => intro b; simp [addOrdinaryNodes]
  | cons n ns ih =>
    intro b
    have : (b.addOrdinaryNode n).nodes = b.nodes ++ [n] := by simp [B.addOrdinaryNode, B.addNewNode, B.pushNode]
    show (addOrdinaryNodes (b.addOrdinaryNode n) ns).nodes = _
    rw [ih, this]; simp

theorem emit_snoc (cur a : List Nat) (n : Nat) :
    (emit cur (a ++ [n])).1 = (emit cur a).1 ++ cross (emit cur a).2 n ∧ (emit cur (a ++ [n])).2 = [n] := by
  induction a generalizing cur with
  | nil => simp [emit]
  | cons x a ih =>
    obtain ⟨i1, i2⟩ := ih [x]
    simp only [List.cons_append, emit, i1, i2, List.append_assoc, and_self]

/-- nodes not yet indexed, pairwise distinct -/
def FreshNodes (b : B) (ns : List Nat) : Prop := ns.Nodup ∧ ∀ x, x ∈ ns → nk x ∉ Old b

theorem fresh_not_node {b : B} {ns : List Nat} (h : FreshNodes b ns) {x : Nat} (hx : x ∈ ns) : x ∉ b.nodes :=
  fun hn => h.2 x hx (nk_mem_old hn)

theorem sk_not_tnodes (T : Nat) (l : List Nat) : sk T ∉ tnodes l := by
  intro hm; obtain ⟨y, _, hy⟩ := List.mem_map.mp hm; exact sk_ne_nk T y hy.symm

theorem addOrdinaryNodes_exits (ns : List Nat) : ∀ b : B, (addOrdinaryNodes b ns).exits = b.exits := by
  induction ns with
  | nil => intro b; rfl
  | cons n ns ih => intro b; show (addOrdinaryNodes (b.addOrdinaryNode n) ns).exits = _; rw [ih]; simp
theorem addOrdinaryNodes_continues (ns : List Nat) : ∀ b : B, (addOrdinaryNodes b ns).continues = b.continues := by
  induction ns with
  | nil => intro b; rfl
  | cons n ns ih => intro b; show (addOrdinaryNodes (b.addOrdinaryNode n) ns).continues = _; rw [ih]; simp
theorem addOrdinaryNodes_finallySections (ns : List Nat) : ∀ b : B, (addOrdinaryNodes b ns).finallySections = b.finallySections := by
  induction ns with
  | nil => intro b; rfl
  | cons n ns ih => intro b; show (addOrdinaryNodes (b.addOrdinaryNode n) ns).finallySections = _; rw [ih]; simp

/-- `add_exit_node(n, t, gs)` after the lambdas `lams`, from a `Src` set -/
theorem reg_exit (T : Nat) (curP : List Nat) (b : B) (cur lams : List Nat) (n t : Nat) (gs ex : List Nat)
    (hc : ∀ x, x ∈ cur → Src b T curP x) (ht : aget t b.exits = some ex) (hlin : ListsInNodes b) (hl : ListsDisjoint b)
    (hfr : FreshNodes b (lams ++ [n])) :
    let b2 := (addOrdinaryNodes b lams).addExitNode n t gs
    (∀ p, p ∈ (emit cur (lams ++ [n])).1 → p ∈ b2.edges ∨ (p.1 ∈ curP ∧ StartedAt b2 T p.2)) ∧
    b2.leafSet = [] ∧ PJ false b2 t gs n ∧ ListsDisjoint b2 := by
  intro b2
  let b1 := addOrdinaryNodes b lams
  obtain ⟨e1, e2, _⟩ := emit_src T curP lams b cur hc
  have x01 := fx_addOrdinaryNodes (tnodes lams) lams (fun x hx => mem_tnodes hx) b
  have hex1 : aget t b1.exits = some ex := by rw [show b1.exits = b.exits from addOrdinaryNodes_exits lams b]; exact ht
  have hlin1 : ListsInNodes b1 := x01.lin hlin
  have hl1 : ListsDisjoint b1 := ldj_of_eq (addOrdinaryNodes_exits lams b) (addOrdinaryNodes_continues lams b) hl
  have hn1 : n ∉ b1.nodes := by
    rw [show b1.nodes = b.nodes ++ lams from nodes_addOrdinaryNodes lams b]
    intro hm
    rcases List.mem_append.mp hm with hm | hm
    · exact fresh_not_node hfr (List.mem_append.mpr (Or.inr (by simp))) hm
    · have := (List.nodup_append.mp hfr.1).2.2 n hm n (by simp); exact this rfl
  have hb2 : b2 = (b1.addJumpNode n gs).putExits t (ex ++ [n]) := by
    show b1.addExitNode n t gs = _
    simp only [B.addExitNode, hex1]
  have xj := B.fx_addJumpNode [nk n] b1 n gs (by simp)
  have fj := B.frame_addJumpNode [nk n] b1 n gs
  have hTn : sk T ∉ [nk n] := by simp only [List.mem_singleton]; exact sk_ne_nk T n
  refine ⟨?_, by rw [hb2]; simp, ?_, ?_⟩
  · intro p hp
    rw [(emit_snoc cur lams n).1] at hp
    rcases List.mem_append.mp hp with hp | hp
    · rcases e1 p hp with h | ⟨h1, h2⟩
      · left; rw [hb2]; exact fj.edges p h
      · right; rw [hb2]; exact ⟨h1, startedAt_of_same rfl rfl (startedAt_mono xj hTn h2)⟩
    · simp only [cross, List.mem_map] at hp
      obtain ⟨x, hx, rfl⟩ := hp
      rcases pair_addJumpNode n x gs (e2 x hx) with h | ⟨h1, h2⟩
      · left; rw [hb2]; exact h
      · right; rw [hb2]; exact ⟨h1, startedAt_of_same rfl rfl h2⟩
  · rw [hb2]
    refine ⟨ex ++ [n], n, [], ?_, by simp, ?_, fun g hg => (List.not_mem_nil hg).elim, Or.inl ⟨rfl, rfl⟩⟩
    · show aget t (aset t (ex ++ [n]) _) = _
      rw [aget_aset]; simp
    · show aget n (b1.addJumpNode n gs).finallySections = _
      rw [B.finallySections_addJumpNode, aget_aset]; simp
  · rw [hb2]
    refine ldj_put (b1.addJumpNode n gs) false t (ex ++ [n]) _ ?_ ?_ (ldj_of_eq (by simp) (by simp) hl1)
    · intro c; cases c <;> rfl
    · intro x hx
      rcases List.mem_append.mp hx with hx | hx
      · exact Or.inl ⟨ex, by simpa [dictOf] using hex1, hx⟩
      · simp only [List.mem_singleton] at hx
        subst hx
        right
        intro c t' l a hm
        have a' : aget t' (dictOf c b1) = some l := by cases c <;> simpa [dictOf] using a
        exact hn1 (dict_in_nodes hlin1 c a' x hm)

/-- `add_continue_node(n, t, gs)`, from a `Src` set -/
theorem reg_continue (T : Nat) (curP : List Nat) (b : B) (cur : List Nat) (n t : Nat) (gs cs : List Nat)
    (hc : ∀ x, x ∈ cur → Src b T curP x) (ht : aget t b.continues = some cs) (hlin : ListsInNodes b) (hl : ListsDisjoint b)
    (hfr : FreshNodes b [n]) :
    let b2 := b.addContinueNode n t gs
    (∀ p, p ∈ (emit cur [n]).1 → p ∈ b2.edges ∨ (p.1 ∈ curP ∧ StartedAt b2 T p.2)) ∧
    b2.leafSet = [] ∧ PJ true b2 t gs n ∧ ListsDisjoint b2 := by
  intro b2
  have hn1 : n ∉ b.nodes := fresh_not_node hfr (by simp)
  have hb2 : b2 = (b.addJumpNode n gs).putContinues t (cs ++ [n]) := by
    show b.addContinueNode n t gs = _
    simp only [B.addContinueNode, ht]
  refine ⟨?_, by rw [hb2]; simp, ?_, ?_⟩
  · intro p hp
    simp only [emit, List.append_nil, cross, List.mem_map] at hp
    obtain ⟨x, hx, rfl⟩ := hp
    rcases pair_addJumpNode n x gs (hc x hx) with h | ⟨h1, h2⟩
    · left; rw [hb2]; exact h
    · right; rw [hb2]; exact ⟨h1, startedAt_of_same rfl rfl h2⟩
  · rw [hb2]
    refine ⟨cs ++ [n], n, [], ?_, by simp, ?_, fun g hg => (List.not_mem_nil hg).elim, Or.inl ⟨rfl, rfl⟩⟩
    · show aget t (aset t (cs ++ [n]) _) = _
      rw [aget_aset]; simp
    · show aget n (b.addJumpNode n gs).finallySections = _
      rw [B.finallySections_addJumpNode, aget_aset]; simp
  · rw [hb2]
    refine ldj_put (b.addJumpNode n gs) true t (cs ++ [n]) _ ?_ ?_ (ldj_of_eq (by simp) (by simp) hl)
    · intro c; cases c <;> rfl
    · intro x hx
      rcases List.mem_append.mp hx with hx | hx
      · exact Or.inl ⟨cs, by simpa [dictOf] using ht, hx⟩
      · simp only [List.mem_singleton] at hx
        subst hx
        right
        intro c t' l a hm
        have a' : aget t' (dictOf c b) = some l := by cases c <;> simpa [dictOf] using a
        exact hn1 (dict_in_nodes hlin c a' x hm)

theorem src_nil {b : B} {T x : Nat} (h : Src b T [] x) : x ∈ b.leafSet := by
  rcases h with h | ⟨h, _⟩
  · exact h
  · cases h

theorem Post.toL {σ : List Scope} {T : Nat} {curP : List Nat} {b : B} {R : Flow} (h : Post σ T curP b R) (em : Bool) :
    PostL σ T curP b R em :=
  ⟨h.pend, fun x hx => Or.inl (h.norm x hx), fun _ => h.norm, h.ldj⟩

theorem PostL.inLeaves {σ : List Scope} {T : Nat} {b : B} {R : Flow} {em : Bool} (h : PostL σ T [] b R em) : InLeaves b R.normal :=
  fun x hx => src_nil (h.norm x hx)

theorem ck_not_old (k : Nat) (b : B) : ck k ∉ Old b := by
  intro h
  simp only [Old, List.mem_append, List.mem_map] at h
  rcases h with ⟨x, _, hx⟩ | ⟨x, _, hx⟩ | ⟨x, _, hx⟩ | ⟨x, _, hx⟩
  · exact ck_ne_nk k x hx.symm
  · exact sk_ne_ck _ _ hx
  · exact sk_ne_ck _ _ hx
  · exact sk_ne_ck _ _ hx

end Malt.Cfg
