import MaltModel.Conv.CFSpec
import MaltModel.Proofs.C03Model
/-!
Proofs for Props/C01CF.lean: routing (no native `if`/`while`/`for` left), parameters vs. declarations, `nonlocal`
declarations vs. bindings, for the output of the model of `ControlFlowTransformer`.  All by mutual structural
induction over the source tree, with one lemma per template.
-/
set_option linter.unusedSimpArgs false
set_option linter.unusedVariables false
namespace Malt.Conv.CFSpec
open Malt Malt.Py Malt.Naming Malt.Conv.ControlFlow Malt.Conv.Contract

theorem noNativeCFL_append : ∀ (a b : List Stmt), noNativeCFL (a ++ b) = (noNativeCFL a && noNativeCFL b)
  | [], b => by simp [noNativeCFL]
  | s :: a, b => by simp [noNativeCFL, noNativeCFL_append a b, Bool.and_assoc]

theorem noNative_fnDef (n : String) (ps : List String) (b : List Stmt) : noNativeCF (fnDef n ps b) = noNativeCFL b := by
  simp [fnDef, noNativeCF]

theorem noNative_leaves (l : List Stmt) (h : ∀ s ∈ l, noNativeCF s = true) : noNativeCFL l = true := by
  induction l with
  | nil => rfl
  | cons s l ih => simp [noNativeCFL, h s (List.mem_cons_self ..), ih (fun x hx => h x (List.mem_cons_of_mem _ hx))]

theorem noNative_decls (fs : FnScope) (vars : List String) : noNativeCFL (nonlocalDecls fs vars) = true := by
  apply noNative_leaves
  intro s hs
  simp only [nonlocalDecls, List.mem_append] at hs
  rcases hs with hs | hs <;> split at hs <;> simp at hs <;> subst hs <;> rfl

theorem noNative_undef (u : List String) : noNativeCFL (undefinedAssigns u) = true := by
  apply noNative_leaves
  intro s hs
  simp only [undefinedAssigns, List.mem_map] at hs
  obtain ⟨v, _, rfl⟩ := hs
  rfl

theorem noNative_stateFunctions (vars : List String) (fs : FnScope) (dv : List String) (g s : String) :
    noNativeCFL (stateFunctions vars (nonlocalDecls fs dv) g s) = true := by
  rw [stateFunctions_eq]
  simp only [noNativeCFL, noNative_fnDef, getterBody, noNativeCF, Bool.and_true, Bool.true_and]
  unfold setterBody
  split
  · rfl
  · rw [noNativeCFL_append, noNative_decls]; rfl

theorem noNative_ifChunk (bv : BlockVars.Result) (fs : FnScope) (dv : List String) (test : Expr)
    (body orelse : List Stmt) (g s b o : String)
    (hb : noNativeCFL body = true) (ho : noNativeCFL orelse = true) :
    noNativeCFL (ifChunk bv (nonlocalDecls fs dv) test body orelse g s b o) = true := by
  unfold ifChunk
  simp only [noNativeCFL_append, noNative_stateFunctions, noNative_undef, noNativeCFL, noNative_fnDef, noNative_decls,
    hb, opCallStmt, noNativeCF, Bool.and_true, Bool.true_and]
  split
  · rfl
  · exact ho

theorem noNative_whileChunk (bv : BlockVars.Result) (fs : FnScope) (dv : List String) (opts test : Expr)
    (body : List Stmt) (g s b t : String) (hb : noNativeCFL body = true) :
    noNativeCFL (whileChunk bv (nonlocalDecls fs dv) opts test body g s b t) = true := by
  unfold whileChunk
  simp only [noNativeCFL_append, noNative_stateFunctions, noNative_undef, noNativeCFL, noNative_fnDef, noNative_decls,
    hb, opCallStmt, noNativeCF, Bool.and_true, Bool.true_and]

theorem noNative_forChunk (bv : BlockVars.Result) (fs : FnScope) (dv : List String) (opts target iter : Expr)
    (body : List Stmt) (ex : Option (String × Expr)) (g s i b : String) (hb : noNativeCFL body = true) :
    noNativeCFL (forChunk bv (nonlocalDecls fs dv) opts target iter body ex g s i b) = true := by
  unfold forChunk
  cases ex with
  | none =>
    simp only [noNativeCFL_append, noNative_stateFunctions, noNative_undef, noNativeCFL, noNative_fnDef, noNative_decls,
      hb, opCallStmt, noNativeCF, Bool.and_true, Bool.true_and]
  | some p =>
    simp only [noNativeCFL_append, noNative_stateFunctions, noNative_undef, noNativeCFL, noNative_fnDef, noNative_decls,
      hb, opCallStmt, noNativeCF, Bool.and_true, Bool.true_and]

mutual
theorem tStmt_routed (env : Env) (hskip : ∀ id, env.skip id = false) : ∀ (s : Stmt) (fs : FnScope) (nm : Namer),
    noNativeCFL (tStmt env fs nm s).1 = true
  | .if_ id test body orelse, fs, nm => by
      unfold tStmt
      simp only [hskip, Bool.false_eq_true, if_false, emitIf]
      exact noNative_ifChunk _ fs _ test _ _ _ _ _ _ (tStmts_routed env hskip body fs nm) (tStmts_routed env hskip orelse fs _)
  | .while_ id test body orelse, fs, nm => by
      unfold tStmt
      simp only [hskip, Bool.false_eq_true, if_false, emitWhile]
      exact noNative_whileChunk _ fs _ _ test _ _ _ _ _ (tStmts_routed env hskip body fs nm)
  | .for_ id target iter body orelse extra isAsync, fs, nm => by
      unfold tStmt
      simp only [hskip, Bool.false_eq_true, if_false]
      split
      · rename_i ha
        simp only [noNativeCFL, noNativeCF, ha, tStmts_routed env hskip body fs nm, tStmts_routed env hskip orelse fs _,
          Bool.and_true]
      · simp only [emitFor]
        exact noNative_forChunk _ fs _ _ target iter _ _ _ _ _ _ (tStmts_routed env hskip body fs nm)
  | .functionDef id name args body decos returns isAsync, fs, nm => by
      unfold tStmt
      simp only [hskip, Bool.false_eq_true, if_false, noNativeCFL, noNativeCF, tStmts_routed env hskip body _ nm, Bool.and_true]
  | .classDef id name bases kws body decos, fs, nm => by
      unfold tStmt
      simp only [hskip, Bool.false_eq_true, if_false, noNativeCFL, noNativeCF, tStmts_routed env hskip body _ nm, Bool.and_true]
  | .with_ id items body isAsync, fs, nm => by
      unfold tStmt
      simp only [hskip, Bool.false_eq_true, if_false, noNativeCFL, noNativeCF, tStmts_routed env hskip body _ nm, Bool.and_true]
  | .try_ id b h e f, fs, nm => by
      unfold tStmt
      simp only [hskip, Bool.false_eq_true, if_false, noNativeCFL, noNativeCF, tStmts_routed env hskip b _ _,
        tStmts_routed env hskip h _ _, tStmts_routed env hskip e _ _, tStmts_routed env hskip f _ _, Bool.and_true]
  | .handler id type name body, fs, nm => by
      unfold tStmt
      simp only [hskip, Bool.false_eq_true, if_false, noNativeCFL, noNativeCF, tStmts_routed env hskip body _ nm, Bool.and_true]
  | .other id kind exprs blocks, fs, nm => by
      unfold tStmt
      simp only [hskip, Bool.false_eq_true, if_false, noNativeCFL, noNativeCF, tStmts_routed env hskip blocks _ nm, Bool.and_true]
  | .ret .., _, _ | .delete .., _, _ | .assign .., _, _ | .augAssign .., _, _
  | .annAssign .., _, _ | .raise .., _, _ | .assert_ .., _, _ | .import_ .., _, _
  | .importFrom .., _, _ | .global .., _, _ | .nonlocal .., _, _ | .expr .., _, _
  | .pass .., _, _ | .break_ .., _, _ | .continue_ .., _, _ => by
      unfold tStmt
      simp [noNativeCFL, noNativeCF]
theorem tStmts_routed (env : Env) (hskip : ∀ id, env.skip id = false) : ∀ (ss : List Stmt) (fs : FnScope) (nm : Namer),
    noNativeCFL (tStmts env fs nm ss).1 = true
  | [], _, _ => by unfold tStmts; rfl
  | s :: ss, fs, nm => by
      unfold tStmts
      simp only [noNativeCFL_append, tStmt_routed env hskip s fs nm, tStmts_routed env hskip ss fs _, Bool.and_true]
end


/-! ### `collect` -/
theorem collectL_append (own : Stmt → List String) : ∀ (a b : List Stmt),
    collectL own (a ++ b) = collectL own a ++ collectL own b
  | [], b => by simp [collectL]
  | s :: a, b => by simp [collectL, collectL_append own a b, List.append_assoc]

theorem collectS_fnDef (own : Stmt → List String) (n : String) (ps : List String) (b : List Stmt) :
    collectS own (fnDef n ps b) = own (fnDef n ps b) := by simp [fnDef, collectS]

/-- `own` is silent except on `global` / `nonlocal` statements. -/
def DeclOnly (own : Stmt → List String) : Prop := ∀ s, isDecl s = false → own s = []

theorem declOnly_g : DeclOnly gOwn := by intro s h; cases s <;> simp_all [gOwn, isDecl]
theorem declOnly_n : DeclOnly nOwn := by intro s h; cases s <;> simp_all [nOwn, isDecl]

theorem collect_leaves_nil (own : Stmt → List String) (l : List Stmt) (h : ∀ s ∈ l, collectS own s = []) :
    collectL own l = [] := by
  induction l with
  | nil => rfl
  | cons s l ih => simp [collectL, h s (List.mem_cons_self ..), ih (fun x hx => h x (List.mem_cons_of_mem _ hx))]

theorem collect_undef_nil {own} (h : DeclOnly own) (u : List String) : collectL own (undefinedAssigns u) = [] := by
  apply collect_leaves_nil
  intro s hs
  simp only [undefinedAssigns, List.mem_map] at hs
  obtain ⟨v, _, rfl⟩ := hs
  simp only [collectS]
  exact h _ rfl

theorem collect_stateFunctions_nil {own} (h : DeclOnly own) (vars : List String) (decls : List Stmt) (g s : String) :
    collectL own (stateFunctions vars decls g s) = [] := by
  unfold stateFunctions
  split <;> simp [collectL, collectS_fnDef, h _ (show isDecl (fnDef _ _ _) = false from rfl)]

theorem collect_ifChunk_nil {own} (h : DeclOnly own) (bv decls test body orelse g s b o) :
    collectL own (ifChunk bv decls test body orelse g s b o) = [] := by
  unfold ifChunk
  simp only [collectL_append, collect_stateFunctions_nil h, collect_undef_nil h, collectL, collectS_fnDef,
    h _ (show isDecl (fnDef _ _ _) = false from rfl), opCallStmt, collectS, h _ (show isDecl (Stmt.expr _ _) = false from rfl),
    List.append_nil]

theorem collect_whileChunk_nil {own} (h : DeclOnly own) (bv decls opts test body g s b t) :
    collectL own (whileChunk bv decls opts test body g s b t) = [] := by
  unfold whileChunk
  simp only [collectL_append, collect_stateFunctions_nil h, collect_undef_nil h, collectL, collectS_fnDef,
    h _ (show isDecl (fnDef _ _ _) = false from rfl), opCallStmt, collectS, h _ (show isDecl (Stmt.expr _ _) = false from rfl),
    List.append_nil]

theorem collect_forChunk_nil {own} (h : DeclOnly own) (bv decls opts target iter body ex g s i b) :
    collectL own (forChunk bv decls opts target iter body ex g s i b) = [] := by
  unfold forChunk
  cases ex <;>
  simp only [collectL_append, collect_stateFunctions_nil h, collect_undef_nil h, collectL, collectS_fnDef,
    h _ (show isDecl (fnDef _ _ _) = false from rfl), opCallStmt, collectS, h _ (show isDecl (Stmt.expr _ _) = false from rfl),
    List.append_nil]

mutual
theorem collect_tStmt_sub {own} (h : DeclOnly own) (env : Env) : ∀ (s : Stmt) (fs : FnScope) (nm : Namer),
    ∀ x ∈ collectL own (tStmt env fs nm s).1, x ∈ collectS own s
  | .if_ id test body orelse, fs, nm => by
      unfold tStmt
      split
      · intro x hx; simpa [collectL] using hx
      · simp only [emitIf, collect_ifChunk_nil h]; intro x hx; cases hx
  | .while_ id test body orelse, fs, nm => by
      unfold tStmt
      split
      · intro x hx; simpa [collectL] using hx
      · simp only [emitWhile, collect_whileChunk_nil h]; intro x hx; cases hx
  | .for_ id target iter body orelse extra isAsync, fs, nm => by
      unfold tStmt
      split
      · intro x hx; simpa [collectL] using hx
      · split
        · intro x hx
          simp only [collectL, collectS, List.append_nil, h _ (show isDecl (Stmt.for_ ..) = false from rfl),
            List.nil_append, List.mem_append] at hx ⊢
          rcases hx with hx | hx
          · exact .inl (collect_tStmts_sub h env body fs nm x hx)
          · exact .inr (collect_tStmts_sub h env orelse fs _ x hx)
        · simp only [emitFor, collect_forChunk_nil h]; intro x hx; cases hx
  | .functionDef id name args body decos returns isAsync, fs, nm => by
      unfold tStmt
      split
      · intro x hx; simpa [collectL] using hx
      · intro x hx
        simp only [collectL, collectS, List.append_nil, h _ (show isDecl (Stmt.functionDef ..) = false from rfl)] at hx
        cases hx
  | .classDef id name bases kws body decos, fs, nm => by
      unfold tStmt
      split
      · intro x hx; simpa [collectL] using hx
      · intro x hx
        simp only [collectL, collectS, List.append_nil, h _ (show isDecl (Stmt.classDef ..) = false from rfl)] at hx
        cases hx
  | .with_ id items body isAsync, fs, nm => by
      unfold tStmt
      split
      · intro x hx; simpa [collectL] using hx
      · intro x hx
        simp only [collectL, collectS, List.append_nil, h _ (show isDecl (Stmt.with_ ..) = false from rfl),
          List.nil_append] at hx ⊢
        exact collect_tStmts_sub h env body fs nm x hx
  | .try_ id b hd e f, fs, nm => by
      unfold tStmt
      split
      · intro x hx; simpa [collectL] using hx
      · intro x hx
        simp only [collectL, collectS, List.append_nil, List.mem_append] at hx ⊢
        rcases hx with ((hx | hx) | hx) | hx
        · exact .inl (.inl (.inl (collect_tStmts_sub h env b fs _ x hx)))
        · exact .inl (.inl (.inr (collect_tStmts_sub h env hd fs _ x hx)))
        · exact .inl (.inr (collect_tStmts_sub h env e fs _ x hx))
        · exact .inr (collect_tStmts_sub h env f fs _ x hx)
  | .handler id type name body, fs, nm => by
      unfold tStmt
      split
      · intro x hx; simpa [collectL] using hx
      · intro x hx
        simp only [collectL, collectS, List.append_nil, h _ (show isDecl (Stmt.handler ..) = false from rfl),
          List.nil_append] at hx ⊢
        exact collect_tStmts_sub h env body fs nm x hx
  | .other id kind exprs blocks, fs, nm => by
      unfold tStmt
      split
      · intro x hx; simpa [collectL] using hx
      · intro x hx
        simp only [collectL, collectS, List.append_nil] at hx ⊢
        exact collect_tStmts_sub h env blocks fs nm x hx
  | .ret .., _, _ | .delete .., _, _ | .assign .., _, _ | .augAssign .., _, _
  | .annAssign .., _, _ | .raise .., _, _ | .assert_ .., _, _ | .import_ .., _, _
  | .importFrom .., _, _ | .global .., _, _ | .nonlocal .., _, _ | .expr .., _, _
  | .pass .., _, _ | .break_ .., _, _ | .continue_ .., _, _ => by
      unfold tStmt
      intro x hx; simpa [collectL] using hx
theorem collect_tStmts_sub {own} (h : DeclOnly own) (env : Env) : ∀ (ss : List Stmt) (fs : FnScope) (nm : Namer),
    ∀ x ∈ collectL own (tStmts env fs nm ss).1, x ∈ collectL own ss
  | [], _, _ => by unfold tStmts; intro x hx; exact hx
  | s :: ss, fs, nm => by
      unfold tStmts
      intro x hx
      simp only [collectL_append, List.mem_append] at hx
      simp only [collectL, List.mem_append]
      rcases hx with hx | hx
      · exact .inl (collect_tStmt_sub h env s fs nm x hx)
      · exact .inr (collect_tStmts_sub h env ss fs _ x hx)
end


/-! ### declarations of the generated functions -/
theorem collect_opt_g (l : List String) : collectL gOwn (if l.isEmpty then [] else [Stmt.global 0 l]) = l := by
  split
  · rename_i h; simp only [collectL]; exact (List.isEmpty_iff.mp h).symm
  · simp [collectL, collectS, gOwn]
theorem collect_opt_gn (l : List String) : collectL gOwn (if l.isEmpty then [] else [Stmt.nonlocal 0 l]) = [] := by
  split <;> simp [collectL, collectS, gOwn]
theorem collect_opt_n (l : List String) : collectL nOwn (if l.isEmpty then [] else [Stmt.nonlocal 0 l]) = l := by
  split
  · rename_i h; simp only [collectL]; exact (List.isEmpty_iff.mp h).symm
  · simp [collectL, collectS, nOwn]
theorem collect_opt_ng (l : List String) : collectL nOwn (if l.isEmpty then [] else [Stmt.global 0 l]) = [] := by
  split <;> simp [collectL, collectS, nOwn]

theorem declG_decls (fs : FnScope) (vars : List String) : collectL gOwn (nonlocalDecls fs vars) = glNames fs vars := by
  simp only [nonlocalDecls, glNames, collectL_append, collect_opt_g, collect_opt_gn, List.append_nil]

theorem declN_decls (fs : FnScope) (vars : List String) : collectL nOwn (nonlocalDecls fs vars) = nlNames fs vars := by
  simp only [nonlocalDecls, nlNames, glNames, collectL_append, collect_opt_n, collect_opt_ng, List.nil_append]

theorem argNames_args (ps : List String) : argNames (ps.map fun p => Expr.arg 0 p []) = ps := by
  induction ps with
  | nil => rfl
  | cons p ps ih => simp [argNames, ih]

theorem paramNames_argsOf (ps : List String) : paramNames (argsOf ps) = ps := by
  simp [argsOf, paramNames, argNames, argNames_args]

theorem mem_glNames {fs : FnScope} {vars : List String} {x : String} (h : x ∈ glNames fs vars) : x ∈ vars :=
  (List.mem_filter.mp h).1
theorem mem_nlNames {fs : FnScope} {vars : List String} {x : String} (h : x ∈ nlNames fs vars) : x ∈ vars :=
  (List.mem_filter.mp h).1

/-! ### (b) parameters vs. declarations -/
theorem pdOkL_append : ∀ (a b : List Stmt), pdOkL (a ++ b) = (pdOkL a && pdOkL b)
  | [], b => by simp [pdOkL]
  | s :: a, b => by simp [pdOkL, pdOkL_append a b, Bool.and_assoc]

theorem pdOk_leaves (l : List Stmt) (h : ∀ s ∈ l, pdOkS s = true) : pdOkL l = true := by
  induction l with
  | nil => rfl
  | cons s l ih => simp [pdOkL, h s (List.mem_cons_self ..), ih (fun x hx => h x (List.mem_cons_of_mem _ hx))]

theorem pdOk_decls (fs : FnScope) (vars : List String) : pdOkL (nonlocalDecls fs vars) = true := by
  apply pdOk_leaves
  intro s hs
  simp only [nonlocalDecls, List.mem_append] at hs
  rcases hs with hs | hs <;> split at hs <;> simp at hs <;> subst hs <;> rfl

theorem pdOk_undef (u : List String) : pdOkL (undefinedAssigns u) = true := by
  apply pdOk_leaves
  intro s hs
  simp only [undefinedAssigns, List.mem_map] at hs
  obtain ⟨v, _, rfl⟩ := hs
  rfl

theorem pdOkS_fnDef (n : String) (ps : List String) (b : List Stmt) :
    pdOkS (fnDef n ps b) = (ps.all (fun p => !(declG b).contains p && !(declN b).contains p) && pdOkL b) := by
  simp only [fnDef, pdOkS, paramNames_argsOf]

theorem pdOk_stateFunctions (vars : List String) (fs : FnScope) (g s : String) (hv : vars.contains "vars_" = false) :
    pdOkL (stateFunctions vars (nonlocalDecls fs vars) g s) = true := by
  rw [stateFunctions_eq]
  simp only [pdOkL, pdOkS_fnDef, List.all_nil, Bool.true_and, Bool.and_true, getterBody, pdOkS, List.all_cons]
  unfold setterBody setterParam
  cases hvars : vars.isEmpty
  · simp only [Bool.false_eq_true, if_false, declG, declN, collectL_append, declG_decls, declN_decls, collectL, collectS,
      gOwn, nOwn, List.append_nil, pdOkL_append, pdOk_decls, pdOkL, pdOkS, Bool.and_true, Bool.true_and]
    have hv' : "vars_" ∉ vars := by simpa using hv
    have h1 : "vars_" ∉ glNames fs vars := fun hm => hv' (mem_glNames hm)
    have h2 : "vars_" ∉ nlNames fs vars := fun hm => hv' (mem_nlNames hm)
    simp
    exact ⟨h1, h2⟩
  · simp [declG, declN, collectL, collectS, gOwn, nOwn, pdOkL, pdOkS]

theorem pdOk_ifChunk (bv : BlockVars.Result) (fs : FnScope) (test : Expr) (body orelse : List Stmt) (g s b o : String)
    (hv : bv.scopeVars.contains "vars_" = false) (hb : pdOkL body = true) (ho : pdOkL orelse = true) :
    pdOkL (ifChunk bv (nonlocalDecls fs bv.scopeVars) test body orelse g s b o) = true := by
  unfold ifChunk
  simp only [pdOkL_append, pdOk_stateFunctions _ _ _ _ hv, pdOk_undef, pdOkL, pdOkS_fnDef, List.all_nil, pdOk_decls, hb,
    opCallStmt, pdOkS, Bool.and_true, Bool.true_and]
  split
  · rfl
  · exact ho

theorem pdOk_whileChunk (bv : BlockVars.Result) (fs : FnScope) (opts test : Expr) (body : List Stmt) (g s b t : String)
    (hv : bv.scopeVars.contains "vars_" = false) (hb : pdOkL body = true) :
    pdOkL (whileChunk bv (nonlocalDecls fs bv.scopeVars) opts test body g s b t) = true := by
  unfold whileChunk
  simp only [pdOkL_append, pdOk_stateFunctions _ _ _ _ hv, pdOk_undef, pdOkL, pdOkS_fnDef, List.all_nil, pdOk_decls, hb,
    opCallStmt, pdOkS, Bool.and_true, Bool.true_and]

theorem pdOk_forChunk (bv : BlockVars.Result) (fs : FnScope) (opts target iter : Expr) (body : List Stmt)
    (ex : Option (String × Expr)) (g s i b : String)
    (hv : bv.scopeVars.contains "vars_" = false) (hb : pdOkL body = true)
    (hi : ∀ x, (x ∈ glNames fs bv.scopeVars ∨ x ∈ nlNames fs bv.scopeVars) ∨ x ∈ declG body ∨ x ∈ declN body → x ≠ i) :
    pdOkL (forChunk bv (nonlocalDecls fs bv.scopeVars) opts target iter body ex g s i b) = true := by
  have hparam : ([i].all fun p => !(declG (nonlocalDecls fs bv.scopeVars ++ [Stmt.assign 0 [splice Ctx.store target] (nameE i)] ++ body)).contains p &&
      !(declN (nonlocalDecls fs bv.scopeVars ++ [Stmt.assign 0 [splice Ctx.store target] (nameE i)] ++ body)).contains p) = true := by
    simp only [List.all_cons, List.all_nil, Bool.and_true, declG, declN, collectL_append, declG_decls, declN_decls,
      collectL, collectS, gOwn, nOwn, List.append_nil, List.nil_append, Bool.and_eq_true, Bool.not_eq_true',
      List.contains_eq_mem, decide_eq_false_iff_not, List.mem_append, not_or]
    refine ⟨⟨fun hm => hi i (.inl (.inl hm)) rfl, fun hm => hi i (.inr (.inl hm)) rfl⟩,
      ⟨fun hm => hi i (.inl (.inr hm)) rfl, fun hm => hi i (.inr (.inr hm)) rfl⟩⟩
  unfold forChunk
  cases ex <;>
  simp only [pdOkL_append, pdOk_stateFunctions _ _ _ _ hv, pdOk_undef, pdOkL, pdOkS_fnDef, List.all_nil, pdOk_decls, hb,
    opCallStmt, pdOkS, Bool.and_true, Bool.true_and, hparam]


attribute [local irreducible] newSymbol

theorem itr_fresh (nm : Namer) (res : List String) {x : String} (hx : x ∈ res) : x ≠ (newSymbol nm "itr" res).1 := by
  intro h
  apply newSymbol_fresh nm "itr" res
  rw [← h]
  exact List.mem_append_left _ (List.mem_append_right _ hx)

mutual
theorem tStmt_pd (env : Env) : ∀ (s : Stmt) (fs : FnScope) (nm : Namer),
    pdHypS env fs s = true → pdOkL (tStmt env fs nm s).1 = true
  | .if_ id test body orelse, fs, nm, h => by
      unfold pdHypS at h
      unfold tStmt
      split
      · rename_i hs; simp only [hs, if_true] at h; simp [pdOkL, h]
      · rename_i hs
        simp only [hs, if_false, Bool.false_eq_true, Bool.and_eq_true, Bool.not_eq_true'] at h
        simp only [emitIf]
        exact pdOk_ifChunk _ fs test _ _ _ _ _ _ h.1.1 (tStmts_pd env body fs nm h.1.2) (tStmts_pd env orelse fs _ h.2)
  | .while_ id test body orelse, fs, nm, h => by
      unfold pdHypS at h
      unfold tStmt
      split
      · rename_i hs; simp only [hs, if_true] at h; simp [pdOkL, h]
      · rename_i hs
        simp only [hs, if_false, Bool.false_eq_true, Bool.and_eq_true, Bool.not_eq_true'] at h
        simp only [emitWhile]
        exact pdOk_whileChunk _ fs _ test _ _ _ _ _ h.1.1 (tStmts_pd env body fs nm h.1.2)
  | .for_ id target iter body orelse extra isAsync, fs, nm, h => by
      unfold pdHypS at h
      unfold tStmt
      split
      · rename_i hs; simp only [hs, if_true] at h; simp [pdOkL, h]
      · rename_i hs
        simp only [hs, if_false, Bool.false_eq_true, Bool.and_eq_true] at h
        have hb := tStmts_pd env body fs nm h.1.2
        have ho := tStmts_pd env orelse fs (tStmts env fs nm body).2 h.2
        split
        · simp [pdOkL, pdOkS, hb, ho]
        · rename_i ha
          have h1 := h.1.1
          simp only [ha, Bool.false_or, Bool.and_eq_true, Bool.not_eq_true', List.all_eq_true] at h1
          have hres : ∀ x, (x ∈ glNames fs (stmtVars env fs (.for_ id target iter body orelse extra isAsync)) ∨
                x ∈ nlNames fs (stmtVars env fs (.for_ id target iter body orelse extra isAsync))) ∨
              x ∈ declG (tStmts env fs nm body).1 ∨ x ∈ declN (tStmts env fs nm body).1 → x ∈ forReserved env id := by
            intro x hx
            have := h1.2 x
            simp only [List.mem_append, List.contains_eq_mem, decide_eq_true_eq] at this
            rcases hx with hx | hx | hx
            · exact this (.inl (.inl hx))
            · exact this (.inl (.inr (collect_tStmts_sub declOnly_g env body fs nm x hx)))
            · exact this (.inr (collect_tStmts_sub declOnly_n env body fs nm x hx))
          cases extra with
          | nil =>
            simp only [emitFor]
            exact pdOk_forChunk _ fs _ target iter _ _ _ _ _ _ h1.1 hb (fun x hx => itr_fresh _ _ (hres x hx))
          | cons x' xs =>
            simp only [emitFor]
            exact pdOk_forChunk _ fs _ target iter _ _ _ _ _ _ h1.1 hb (fun x hx => itr_fresh _ _ (hres x hx))
  | .functionDef id name args body decos returns isAsync, fs, nm, h => by
      unfold pdHypS at h
      unfold tStmt
      split
      · rename_i hs; simp only [hs, if_true] at h; simp [pdOkL, h]
      · rename_i hs
        simp only [hs, if_false, Bool.false_eq_true, Bool.and_eq_true, List.all_eq_true, Bool.not_eq_true',
          List.contains_eq_mem, decide_eq_false_iff_not] at h
        simp only [pdOkL, pdOkS, Bool.and_true, Bool.and_eq_true, List.all_eq_true, Bool.not_eq_true',
          List.contains_eq_mem, decide_eq_false_iff_not]
        refine ⟨fun p hp => ⟨fun hm => (h.1 p hp).1 (collect_tStmts_sub declOnly_g env body _ nm p hm),
          fun hm => (h.1 p hp).2 (collect_tStmts_sub declOnly_n env body _ nm p hm)⟩, tStmts_pd env body _ nm h.2⟩
  | .classDef id name bases kws body decos, fs, nm, h => by
      unfold pdHypS at h
      unfold tStmt
      split
      · rename_i hs; simp only [hs, if_true] at h; simp [pdOkL, h]
      · rename_i hs
        simp only [hs, if_false, Bool.false_eq_true] at h
        simp [pdOkL, pdOkS, tStmts_pd env body fs nm h]
  | .with_ id items body isAsync, fs, nm, h => by
      unfold pdHypS at h
      unfold tStmt
      split
      · rename_i hs; simp only [hs, if_true] at h; simp [pdOkL, h]
      · rename_i hs
        simp only [hs, if_false, Bool.false_eq_true] at h
        simp [pdOkL, pdOkS, tStmts_pd env body fs nm h]
  | .try_ id b hd e f, fs, nm, h => by
      unfold pdHypS at h
      unfold tStmt
      split
      · rename_i hs; simp only [hs, if_true] at h; simp [pdOkL, h]
      · rename_i hs
        simp only [hs, if_false, Bool.false_eq_true, Bool.and_eq_true] at h
        simp [pdOkL, pdOkS, tStmts_pd env b fs _ h.1.1.1, tStmts_pd env hd fs _ h.1.1.2, tStmts_pd env e fs _ h.1.2,
          tStmts_pd env f fs _ h.2]
  | .handler id type name body, fs, nm, h => by
      unfold pdHypS at h
      unfold tStmt
      split
      · rename_i hs; simp only [hs, if_true] at h; simp [pdOkL, h]
      · rename_i hs
        simp only [hs, if_false, Bool.false_eq_true] at h
        simp [pdOkL, pdOkS, tStmts_pd env body fs nm h]
  | .other id kind exprs blocks, fs, nm, h => by
      unfold pdHypS at h
      unfold tStmt
      split
      · rename_i hs; simp only [hs, if_true] at h; simp [pdOkL, h]
      · rename_i hs
        simp only [hs, if_false, Bool.false_eq_true] at h
        simp [pdOkL, pdOkS, tStmts_pd env blocks fs nm h]
  | .ret .., _, _, _ | .delete .., _, _, _ | .assign .., _, _, _ | .augAssign .., _, _, _
  | .annAssign .., _, _, _ | .raise .., _, _, _ | .assert_ .., _, _, _ | .import_ .., _, _, _
  | .importFrom .., _, _, _ | .global .., _, _, _ | .nonlocal .., _, _, _ | .expr .., _, _, _
  | .pass .., _, _, _ | .break_ .., _, _, _ | .continue_ .., _, _, _ => by
      unfold tStmt
      simp [pdOkL, pdOkS]
theorem tStmts_pd (env : Env) : ∀ (ss : List Stmt) (fs : FnScope) (nm : Namer),
    pdHypL env fs ss = true → pdOkL (tStmts env fs nm ss).1 = true
  | [], _, _, _ => by unfold tStmts; rfl
  | s :: ss, fs, nm, h => by
      unfold pdHypL at h
      simp only [Bool.and_eq_true] at h
      unfold tStmts
      simp only [pdOkL_append, tStmt_pd env s fs nm h.1, tStmts_pd env ss fs _ h.2, Bool.and_true]
end


/-! ### (a) `nonlocal` declarations vs. bindings -/

theorem mem_bindsOf_append_right {a b : List Stmt} {x : String} (h : x ∈ bindsOf b) : x ∈ bindsOf (a ++ b) := by
  simp only [bindsOf, collectL_append, List.mem_append]; exact .inr h
theorem mem_bindsOf_append_left {a b : List Stmt} {x : String} (h : x ∈ bindsOf a) : x ∈ bindsOf (a ++ b) := by
  simp only [bindsOf, collectL_append, List.mem_append]; exact .inl h

theorem undef_in_ifChunk (bv decls test body orelse g s b o) {x : String}
    (h : x ∈ bindsOf (undefinedAssigns bv.undefined)) : x ∈ bindsOf (ifChunk bv decls test body orelse g s b o) := by
  unfold ifChunk
  exact mem_bindsOf_append_left (mem_bindsOf_append_right h)
theorem undef_in_whileChunk (bv decls opts test body g s b t) {x : String}
    (h : x ∈ bindsOf (undefinedAssigns bv.undefined)) : x ∈ bindsOf (whileChunk bv decls opts test body g s b t) := by
  unfold whileChunk
  exact mem_bindsOf_append_left (mem_bindsOf_append_right h)
theorem undef_in_forChunk (bv decls opts target iter body ex g s i b) {x : String}
    (h : x ∈ bindsOf (undefinedAssigns bv.undefined)) : x ∈ bindsOf (forChunk bv decls opts target iter body ex g s i b) := by
  unfold forChunk
  exact mem_bindsOf_append_left (mem_bindsOf_append_right h)

mutual
theorem kept_tStmt_sub (env : Env) : ∀ (s : Stmt) (fs : FnScope) (nm : Namer),
    ∀ x ∈ keptS env fs s, x ∈ bindsOf (tStmt env fs nm s).1
  | .if_ id test body orelse, fs, nm => by
      unfold keptS tStmt
      split
      · intro x hx; simpa [bindsOf, collectL] using hx
      · intro x hx; simp only [emitIf]; exact undef_in_ifChunk _ _ _ _ _ _ _ _ _ hx
  | .while_ id test body orelse, fs, nm => by
      unfold keptS tStmt
      split
      · intro x hx; simpa [bindsOf, collectL] using hx
      · intro x hx; simp only [emitWhile]; exact undef_in_whileChunk _ _ _ _ _ _ _ _ _ hx
  | .for_ id target iter body orelse extra isAsync, fs, nm => by
      unfold keptS tStmt
      split
      · intro x hx; simpa [bindsOf, collectL] using hx
      · split
        · intro x hx
          simp only [bindsOf, collectL, collectS, bOwn, List.append_nil, List.mem_append] at hx ⊢
          rcases hx with (hx | hx) | hx
          · exact .inl (.inl hx)
          · exact .inl (.inr (kept_tStmts_sub env body fs nm x hx))
          · exact .inr (kept_tStmts_sub env orelse fs _ x hx)
        · intro x hx; simp only [emitFor]; exact undef_in_forChunk _ _ _ _ _ _ _ _ _ _ _ hx
  | .functionDef id name args body decos returns isAsync, fs, nm => by
      unfold keptS tStmt
      split <;> (intro x hx; simpa [bindsOf, collectL, collectS, bOwn] using hx)
  | .classDef id name bases kws body decos, fs, nm => by
      unfold keptS tStmt
      split <;> (intro x hx; simpa [bindsOf, collectL, collectS, bOwn] using hx)
  | .with_ id items body isAsync, fs, nm => by
      unfold keptS tStmt
      split
      · intro x hx; simpa [bindsOf, collectL] using hx
      · intro x hx
        simp only [bindsOf, collectL, collectS, bOwn, List.append_nil, List.mem_append] at hx ⊢
        rcases hx with hx | hx
        · exact .inl hx
        · exact .inr (kept_tStmts_sub env body fs nm x hx)
  | .try_ id b hd e f, fs, nm => by
      unfold keptS tStmt
      split
      · intro x hx; simpa [bindsOf, collectL] using hx
      · intro x hx
        simp only [bindsOf, collectL, collectS, List.append_nil, List.mem_append] at hx ⊢
        rcases hx with ((hx | hx) | hx) | hx
        · exact .inl (.inl (.inl (kept_tStmts_sub env b fs _ x hx)))
        · exact .inl (.inl (.inr (kept_tStmts_sub env hd fs _ x hx)))
        · exact .inl (.inr (kept_tStmts_sub env e fs _ x hx))
        · exact .inr (kept_tStmts_sub env f fs _ x hx)
  | .handler id type name body, fs, nm => by
      unfold keptS tStmt
      split
      · intro x hx; simpa [bindsOf, collectL] using hx
      · intro x hx
        simp only [bindsOf, collectL, collectS, bOwn, List.append_nil, List.mem_append] at hx ⊢
        rcases hx with hx | hx
        · exact .inl hx
        · exact .inr (kept_tStmts_sub env body fs nm x hx)
  | .other id kind exprs blocks, fs, nm => by
      unfold keptS tStmt
      split
      · intro x hx; simpa [bindsOf, collectL] using hx
      · intro x hx
        simp only [bindsOf, collectL, collectS, List.append_nil] at hx ⊢
        exact kept_tStmts_sub env blocks fs nm x hx
  | .ret .., _, _ | .delete .., _, _ | .assign .., _, _ | .augAssign .., _, _
  | .annAssign .., _, _ | .raise .., _, _ | .assert_ .., _, _ | .import_ .., _, _
  | .importFrom .., _, _ | .global .., _, _ | .nonlocal .., _, _ | .expr .., _, _
  | .pass .., _, _ | .break_ .., _, _ | .continue_ .., _, _ => by
      unfold keptS tStmt
      intro x hx; simpa [bindsOf, collectL, collectS] using hx
theorem kept_tStmts_sub (env : Env) : ∀ (ss : List Stmt) (fs : FnScope) (nm : Namer),
    ∀ x ∈ keptL env fs ss, x ∈ bindsOf (tStmts env fs nm ss).1
  | [], _, _ => by unfold keptL; intro x hx; cases hx
  | s :: ss, fs, nm => by
      unfold keptL tStmts
      intro x hx
      rcases List.mem_append.mp hx with hx | hx
      · exact mem_bindsOf_append_left (kept_tStmt_sub env s fs nm x hx)
      · exact mem_bindsOf_append_right (kept_tStmts_sub env ss fs _ x hx)
end

mutual
theorem nlOkS_mono : ∀ (s : Stmt) (A B : List String), (∀ x ∈ A, x ∈ B) → nlOkS A s = true → nlOkS B s = true
  | .functionDef _ _ args body _ _ _, A, B, hab, h => by
      simp only [nlOkS, Bool.and_eq_true, List.all_eq_true, List.contains_eq_mem, decide_eq_true_eq] at h ⊢
      refine ⟨fun x hx => hab x (h.1 x hx), nlOkL_mono body _ _ ?_ h.2⟩
      intro x hx
      rcases List.mem_append.mp hx with hx | hx
      · exact List.mem_append_left _ (List.mem_filter.mpr ⟨hab x (List.mem_filter.mp hx).1, (List.mem_filter.mp hx).2⟩)
      · exact List.mem_append_right _ hx
  | .classDef _ _ _ _ body _, A, B, hab, h => by
      simp only [nlOkS] at h ⊢; exact nlOkL_mono body A B hab h
  | .for_ _ _ _ body orelse _ _, A, B, hab, h => by
      simp only [nlOkS, Bool.and_eq_true] at h ⊢
      exact ⟨nlOkL_mono body A B hab h.1, nlOkL_mono orelse A B hab h.2⟩
  | .while_ _ _ body orelse, A, B, hab, h => by
      simp only [nlOkS, Bool.and_eq_true] at h ⊢
      exact ⟨nlOkL_mono body A B hab h.1, nlOkL_mono orelse A B hab h.2⟩
  | .if_ _ _ body orelse, A, B, hab, h => by
      simp only [nlOkS, Bool.and_eq_true] at h ⊢
      exact ⟨nlOkL_mono body A B hab h.1, nlOkL_mono orelse A B hab h.2⟩
  | .with_ _ _ body _, A, B, hab, h => by
      simp only [nlOkS] at h ⊢; exact nlOkL_mono body A B hab h
  | .try_ _ b hd e f, A, B, hab, h => by
      simp only [nlOkS, Bool.and_eq_true] at h ⊢
      exact ⟨⟨⟨nlOkL_mono b A B hab h.1.1.1, nlOkL_mono hd A B hab h.1.1.2⟩, nlOkL_mono e A B hab h.1.2⟩,
        nlOkL_mono f A B hab h.2⟩
  | .handler _ _ _ body, A, B, hab, h => by
      simp only [nlOkS] at h ⊢; exact nlOkL_mono body A B hab h
  | .other _ _ _ blocks, A, B, hab, h => by
      simp only [nlOkS] at h ⊢; exact nlOkL_mono blocks A B hab h
  | .ret .., _, _, _, _ | .delete .., _, _, _, _ | .assign .., _, _, _, _ | .augAssign .., _, _, _, _
  | .annAssign .., _, _, _, _ | .raise .., _, _, _, _ | .assert_ .., _, _, _, _ | .import_ .., _, _, _, _
  | .importFrom .., _, _, _, _ | .global .., _, _, _, _ | .nonlocal .., _, _, _, _ | .expr .., _, _, _, _
  | .pass .., _, _, _, _ | .break_ .., _, _, _, _ | .continue_ .., _, _, _, _ => by simp [nlOkS]
theorem nlOkL_mono : ∀ (ss : List Stmt) (A B : List String), (∀ x ∈ A, x ∈ B) → nlOkL A ss = true → nlOkL B ss = true
  | [], _, _, _, _ => rfl
  | s :: ss, A, B, hab, h => by
      simp only [nlOkL, Bool.and_eq_true] at h ⊢
      exact ⟨nlOkS_mono s A B hab h.1, nlOkL_mono ss A B hab h.2⟩
end

theorem nlOkL_append (B : List String) : ∀ (a b : List Stmt), nlOkL B (a ++ b) = (nlOkL B a && nlOkL B b)
  | [], b => by simp [nlOkL]
  | s :: a, b => by simp [nlOkL, nlOkL_append B a b, Bool.and_assoc]

theorem nlOk_leaves (B : List String) (l : List Stmt) (h : ∀ s ∈ l, nlOkS B s = true) : nlOkL B l = true := by
  induction l with
  | nil => rfl
  | cons s l ih => simp [nlOkL, h s (List.mem_cons_self ..), ih (fun x hx => h x (List.mem_cons_of_mem _ hx))]

theorem nlOk_decls (B : List String) (fs : FnScope) (vars : List String) : nlOkL B (nonlocalDecls fs vars) = true := by
  apply nlOk_leaves
  intro s hs
  simp only [nonlocalDecls, List.mem_append] at hs
  rcases hs with hs | hs <;> split at hs <;> simp at hs <;> subst hs <;> rfl

theorem nlOk_undef (B : List String) (u : List String) : nlOkL B (undefinedAssigns u) = true := by
  apply nlOk_leaves
  intro s hs
  simp only [undefinedAssigns, List.mem_map] at hs
  obtain ⟨v, _, rfl⟩ := hs
  rfl

theorem nlOkS_fnDef (B : List String) (n : String) (ps : List String) (b : List Stmt) :
    nlOkS B (fnDef n ps b) = ((declN b).all B.contains &&
      nlOkL (B.filter (fun x => !(declG b).contains x) ++ localsOf (argsOf ps) b) b) := by
  simp only [fnDef, nlOkS]

/-- A generated function `def n(ps): <declarations>; <mid>; <transformed source block>`. -/
theorem nlOk_genFn (env : Env) (fs : FnScope) (A vars : List String) (n : String) (ps : List String)
    (mid bodySrc body' : List Stmt)
    (hnl : ∀ x ∈ nlNames fs vars, x ∈ A) (hdn : ∀ x ∈ declN bodySrc, x ∈ A)
    (hG : ∀ x ∈ declG body', x ∈ declG bodySrc) (hN : ∀ x ∈ declN body', x ∈ declN bodySrc)
    (hK : ∀ x ∈ keptL env fs bodySrc, x ∈ bindsOf body')
    (hmG : declG mid = []) (hmN : declN mid = []) (hmOk : ∀ B, nlOkL B mid = true)
    (hbody : nlOkL (availGen env fs A vars bodySrc) body' = true) :
    nlOkS A (fnDef n ps (nonlocalDecls fs vars ++ mid ++ body')) = true := by
  have hdG : declG (nonlocalDecls fs vars ++ mid ++ body') = glNames fs vars ++ declG body' := by
    simp only [declG] at hmG ⊢
    simp only [collectL_append, declG_decls, hmG, List.append_nil]
  have hdN : declN (nonlocalDecls fs vars ++ mid ++ body') = nlNames fs vars ++ declN body' := by
    simp only [declN] at hmN ⊢
    simp only [collectL_append, declN_decls, hmN, List.append_nil]
  rw [nlOkS_fnDef, hdG, hdN]
  simp only [Bool.and_eq_true, List.all_eq_true, List.contains_eq_mem, decide_eq_true_eq, List.mem_append]
  refine ⟨fun x hx => hx.elim (hnl x) (fun h => hdn x (hN x h)), ?_⟩
  rw [nlOkL_append, nlOkL_append, nlOk_decls, hmOk, Bool.true_and, Bool.true_and]
  refine nlOkL_mono body' _ _ ?_ hbody
  intro x hx
  unfold availGen at hx
  rcases List.mem_append.mp hx with hx | hx
  · obtain ⟨hxA, hc⟩ := List.mem_filter.mp hx
    simp only [Bool.and_eq_true, Bool.not_eq_true', List.contains_eq_mem, decide_eq_false_iff_not] at hc
    refine List.mem_append_left _ (List.mem_filter.mpr ⟨hxA, ?_⟩)
    simp only [Bool.not_eq_true', List.contains_eq_mem, decide_eq_false_iff_not, List.mem_append, not_or]
    exact ⟨hc.1, fun h => hc.2 (hG x h)⟩
  · obtain ⟨hxK, hc⟩ := List.mem_filter.mp hx
    simp only [Bool.and_eq_true, Bool.not_eq_true', List.contains_eq_mem, decide_eq_false_iff_not] at hc
    refine List.mem_append_right _ ?_
    unfold localsOf
    refine List.mem_filter.mpr ⟨List.mem_append_right _ (mem_bindsOf_append_right (hK x hxK)), ?_⟩
    rw [hdG, hdN]
    simp only [Bool.and_eq_true, Bool.not_eq_true', List.contains_eq_mem, decide_eq_false_iff_not, List.mem_append, not_or]
    exact ⟨⟨hc.1.1.1, fun h => hc.1.2 (hG x h)⟩, ⟨hc.1.1.2, fun h => hc.2 (hN x h)⟩⟩


theorem nlOk_declFn (A : List String) (fs : FnScope) (vars : List String) (n : String) (ps : List String) (last : Stmt)
    (hnl : ∀ x ∈ nlNames fs vars, x ∈ A) (hg : collectS gOwn last = []) (hn : collectS nOwn last = [])
    (hok : ∀ B, nlOkS B last = true) :
    nlOkS A (fnDef n ps (nonlocalDecls fs vars ++ [last])) = true := by
  rw [nlOkS_fnDef]
  simp only [declN, declG, collectL_append, declN_decls, declG_decls, collectL, hn, hg, List.append_nil, nlOkL_append,
    nlOk_decls, nlOkL, hok, Bool.and_true, Bool.and_eq_true, List.all_eq_true, List.contains_eq_mem, decide_eq_true_eq]
  exact hnl

theorem nlOk_stateFunctions (A : List String) (fs : FnScope) (vars : List String) (g s : String)
    (hnl : ∀ x ∈ nlNames fs vars, x ∈ A) : nlOkL A (stateFunctions vars (nonlocalDecls fs vars) g s) = true := by
  rw [stateFunctions_eq]
  simp only [nlOkL, Bool.and_true, Bool.and_eq_true]
  constructor
  · simp [nlOkS_fnDef, getterBody, declN, declG, collectL, collectS, nOwn, gOwn, nlOkL, nlOkS]
  · unfold setterBody
    split
    · simp [nlOkS_fnDef, declN, declG, collectL, collectS, nOwn, gOwn, nlOkL, nlOkS]
    · exact nlOk_declFn A fs vars s _ _ hnl rfl rfl (fun _ => rfl)

theorem nlOk_genFn0 (env : Env) (fs : FnScope) (A vars : List String) (n : String) (ps : List String)
    (bodySrc body' : List Stmt)
    (hnl : ∀ x ∈ nlNames fs vars, x ∈ A) (hdn : ∀ x ∈ declN bodySrc, x ∈ A)
    (hG : ∀ x ∈ declG body', x ∈ declG bodySrc) (hN : ∀ x ∈ declN body', x ∈ declN bodySrc)
    (hK : ∀ x ∈ keptL env fs bodySrc, x ∈ bindsOf body')
    (hbody : nlOkL (availGen env fs A vars bodySrc) body' = true) :
    nlOkS A (fnDef n ps (nonlocalDecls fs vars ++ body')) = true := by
  have := nlOk_genFn env fs A vars n ps [] bodySrc body' hnl hdn hG hN hK rfl rfl (fun _ => rfl) hbody
  simpa using this

/-- What the induction hypothesis and the `collect` lemmas give about a transformed source block. -/
structure BlockOk (env : Env) (fs : FnScope) (A vars : List String) (src out : List Stmt) : Prop where
  dn : ∀ x ∈ declN src, x ∈ A
  g : ∀ x ∈ declG out, x ∈ declG src
  n : ∀ x ∈ declN out, x ∈ declN src
  k : ∀ x ∈ keptL env fs src, x ∈ bindsOf out
  ok : nlOkL (availGen env fs A vars src) out = true

theorem nlOk_ifChunk (env : Env) (A : List String) (bv : BlockVars.Result) (fs : FnScope) (test : Expr)
    (bodySrc orelseSrc body orelse : List Stmt) (g s b o : String)
    (hnl : ∀ x ∈ nlNames fs bv.scopeVars, x ∈ A)
    (hb : BlockOk env fs A bv.scopeVars bodySrc body) (ho : BlockOk env fs A bv.scopeVars orelseSrc orelse) :
    nlOkL A (ifChunk bv (nonlocalDecls fs bv.scopeVars) test body orelse g s b o) = true := by
  unfold ifChunk
  simp only [nlOkL_append, nlOk_stateFunctions A fs _ g s hnl, nlOk_undef, nlOkL, opCallStmt, nlOkS, Bool.and_true,
    Bool.true_and, Bool.and_eq_true]
  constructor
  · exact nlOk_genFn0 env fs A _ b [] bodySrc body hnl hb.dn hb.g hb.n hb.k hb.ok
  · split
    · rename_i he
      have he' : orelse = [] := List.isEmpty_iff.mp he
      subst he'
      refine nlOk_genFn0 env fs A _ o [] orelseSrc [Stmt.pass 0] hnl ho.dn ?_ ?_ ?_ ?_
      · intro x hx; simp [declG, collectL, collectS, gOwn] at hx
      · intro x hx; simp [declN, collectL, collectS, nOwn] at hx
      · intro x hx; have := ho.k x hx; simp [bindsOf, collectL] at this
      · rfl
    · exact nlOk_genFn0 env fs A _ o [] orelseSrc orelse hnl ho.dn ho.g ho.n ho.k ho.ok

theorem nlOk_whileChunk (env : Env) (A : List String) (bv : BlockVars.Result) (fs : FnScope) (opts test : Expr)
    (bodySrc body : List Stmt) (g s b t : String)
    (hnl : ∀ x ∈ nlNames fs bv.scopeVars, x ∈ A) (hb : BlockOk env fs A bv.scopeVars bodySrc body) :
    nlOkL A (whileChunk bv (nonlocalDecls fs bv.scopeVars) opts test body g s b t) = true := by
  unfold whileChunk
  simp only [nlOkL_append, nlOk_stateFunctions A fs _ g s hnl, nlOk_undef, nlOkL, opCallStmt, nlOkS, Bool.and_true,
    Bool.true_and, Bool.and_eq_true]
  constructor
  · exact nlOk_genFn0 env fs A _ b [] bodySrc body hnl hb.dn hb.g hb.n hb.k hb.ok
  · simp [nlOkS_fnDef, declN, declG, collectL, collectS, nOwn, gOwn, nlOkL, nlOkS]

theorem nlOk_forChunk (env : Env) (A : List String) (bv : BlockVars.Result) (fs : FnScope) (opts target iter : Expr)
    (bodySrc body : List Stmt) (ex : Option (String × Expr)) (g s i b : String)
    (hnl : ∀ x ∈ nlNames fs bv.scopeVars, x ∈ A) (hb : BlockOk env fs A bv.scopeVars bodySrc body) :
    nlOkL A (forChunk bv (nonlocalDecls fs bv.scopeVars) opts target iter body ex g s i b) = true := by
  have hbody : nlOkS A (fnDef b [i] (nonlocalDecls fs bv.scopeVars ++ [Stmt.assign 0 [splice Ctx.store target] (nameE i)] ++ body)) = true :=
    nlOk_genFn env fs A _ b [i] _ bodySrc body hnl hb.dn hb.g hb.n hb.k rfl rfl (fun _ => rfl) hb.ok
  unfold forChunk
  cases ex with
  | none =>
    simp only [nlOkL_append, nlOk_stateFunctions A fs _ g s hnl, nlOk_undef, nlOkL, opCallStmt, nlOkS, Bool.and_true,
      Bool.true_and, hbody]
  | some p =>
    simp only [nlOkL_append, nlOk_stateFunctions A fs _ g s hnl, nlOk_undef, nlOkL, opCallStmt, nlOkS, Bool.and_true,
      Bool.true_and, hbody]
    exact nlOk_declFn A fs _ p.1 [] _ hnl rfl rfl (fun _ => rfl)


theorem all_contains {l A : List String} (h : l.all A.contains = true) : ∀ x ∈ l, x ∈ A := by
  intro x hx
  have := List.all_eq_true.mp h x hx
  simpa using this

mutual
theorem tStmt_nl (env : Env) : ∀ (s : Stmt) (fs : FnScope) (nm : Namer) (A : List String),
    nlHypS env fs A s = true → nlOkL A (tStmt env fs nm s).1 = true
  | .if_ id test body orelse, fs, nm, A, h => by
      unfold nlHypS at h
      unfold tStmt
      split
      · rename_i hs; simp only [hs, if_true] at h; simp [nlOkL, h]
      · rename_i hs
        simp only [hs, if_false, Bool.false_eq_true, Bool.and_eq_true] at h
        obtain ⟨⟨⟨⟨h1, h2⟩, h3⟩, h4⟩, h5⟩ := h
        simp only [emitIf]
        exact nlOk_ifChunk env A _ fs test body orelse _ _ _ _ _ _ (all_contains h1)
          ⟨all_contains h2, collect_tStmts_sub declOnly_g env body fs nm, collect_tStmts_sub declOnly_n env body fs nm,
            kept_tStmts_sub env body fs nm, tStmts_nl env body fs nm _ h4⟩
          ⟨all_contains h3, collect_tStmts_sub declOnly_g env orelse fs _, collect_tStmts_sub declOnly_n env orelse fs _,
            kept_tStmts_sub env orelse fs _, tStmts_nl env orelse fs _ _ h5⟩
  | .while_ id test body orelse, fs, nm, A, h => by
      unfold nlHypS at h
      unfold tStmt
      split
      · rename_i hs; simp only [hs, if_true] at h; simp [nlOkL, h]
      · rename_i hs
        simp only [hs, if_false, Bool.false_eq_true, Bool.and_eq_true] at h
        obtain ⟨⟨h1, h2⟩, h4⟩ := h
        simp only [emitWhile]
        exact nlOk_whileChunk env A _ fs _ test body _ _ _ _ _ (all_contains h1)
          ⟨all_contains h2, collect_tStmts_sub declOnly_g env body fs nm, collect_tStmts_sub declOnly_n env body fs nm,
            kept_tStmts_sub env body fs nm, tStmts_nl env body fs nm _ h4⟩
  | .for_ id target iter body orelse extra isAsync, fs, nm, A, h => by
      unfold nlHypS at h
      unfold tStmt
      split
      · rename_i hs; simp only [hs, if_true] at h; simp [nlOkL, h]
      · rename_i hs
        simp only [hs, if_false, Bool.false_eq_true] at h
        split
        · rename_i ha
          simp only [ha, if_true, Bool.and_eq_true] at h
          simp [nlOkL, nlOkS, tStmts_nl env body fs nm A h.1, tStmts_nl env orelse fs _ A h.2]
        · rename_i ha
          simp only [ha, if_false, Bool.false_eq_true, Bool.and_eq_true] at h
          obtain ⟨⟨h1, h2⟩, h4⟩ := h
          have hb : BlockOk env fs A _ body (tStmts env fs nm body).1 :=
            ⟨all_contains h2, collect_tStmts_sub declOnly_g env body fs nm, collect_tStmts_sub declOnly_n env body fs nm,
              kept_tStmts_sub env body fs nm, tStmts_nl env body fs nm _ h4⟩
          simp only [emitFor]
          exact nlOk_forChunk env A _ fs _ target iter body _ _ _ _ _ _ (all_contains h1) hb
  | .functionDef id name args body decos returns isAsync, fs, nm, A, h => by
      unfold nlHypS at h
      unfold tStmt
      split
      · rename_i hs; simp only [hs, if_true] at h; simp [nlOkL, h]
      · rename_i hs
        simp only [hs, if_false, Bool.false_eq_true, Bool.and_eq_true] at h
        have hdn := all_contains h.1
        have ih := tStmts_nl env body _ nm _ h.2
        simp only [nlOkL, nlOkS, Bool.and_true, Bool.and_eq_true, List.all_eq_true, List.contains_eq_mem, decide_eq_true_eq]
        refine ⟨fun x hx => hdn x (collect_tStmts_sub declOnly_n env body _ nm x hx), nlOkL_mono _ _ _ ?_ ih⟩
        intro x hx
        unfold availFn at hx
        rcases List.mem_append.mp hx with hx | hx
        · obtain ⟨hxA, hc⟩ := List.mem_filter.mp hx
          simp only [Bool.not_eq_true', List.contains_eq_mem, decide_eq_false_iff_not] at hc
          refine List.mem_append_left _ (List.mem_filter.mpr ⟨hxA, ?_⟩)
          simp only [Bool.not_eq_true', List.contains_eq_mem, decide_eq_false_iff_not]
          exact fun hm => hc (collect_tStmts_sub declOnly_g env body _ nm x hm)
        · obtain ⟨hxK, hc⟩ := List.mem_filter.mp hx
          simp only [Bool.and_eq_true, Bool.not_eq_true', List.contains_eq_mem, decide_eq_false_iff_not] at hc
          refine List.mem_append_right _ ?_
          unfold localsOf
          refine List.mem_filter.mpr ⟨?_, ?_⟩
          · rcases List.mem_append.mp hxK with hp | hk
            · exact List.mem_append_left _ hp
            · exact List.mem_append_right _ (kept_tStmts_sub env body _ nm x hk)
          · simp only [Bool.and_eq_true, Bool.not_eq_true', List.contains_eq_mem, decide_eq_false_iff_not]
            exact ⟨fun hm => hc.1 (collect_tStmts_sub declOnly_g env body _ nm x hm),
              fun hm => hc.2 (collect_tStmts_sub declOnly_n env body _ nm x hm)⟩
  | .classDef id name bases kws body decos, fs, nm, A, h => by
      unfold nlHypS at h
      unfold tStmt
      split
      · rename_i hs; simp only [hs, if_true] at h; simp [nlOkL, h]
      · rename_i hs
        simp only [hs, if_false, Bool.false_eq_true] at h
        simp [nlOkL, nlOkS, tStmts_nl env body fs nm A h]
  | .with_ id items body isAsync, fs, nm, A, h => by
      unfold nlHypS at h
      unfold tStmt
      split
      · rename_i hs; simp only [hs, if_true] at h; simp [nlOkL, h]
      · rename_i hs
        simp only [hs, if_false, Bool.false_eq_true] at h
        simp [nlOkL, nlOkS, tStmts_nl env body fs nm A h]
  | .try_ id b hd e f, fs, nm, A, h => by
      unfold nlHypS at h
      unfold tStmt
      split
      · rename_i hs; simp only [hs, if_true] at h; simp [nlOkL, h]
      · rename_i hs
        simp only [hs, if_false, Bool.false_eq_true, Bool.and_eq_true] at h
        simp [nlOkL, nlOkS, tStmts_nl env b fs _ A h.1.1.1, tStmts_nl env hd fs _ A h.1.1.2, tStmts_nl env e fs _ A h.1.2,
          tStmts_nl env f fs _ A h.2]
  | .handler id type name body, fs, nm, A, h => by
      unfold nlHypS at h
      unfold tStmt
      split
      · rename_i hs; simp only [hs, if_true] at h; simp [nlOkL, h]
      · rename_i hs
        simp only [hs, if_false, Bool.false_eq_true] at h
        simp [nlOkL, nlOkS, tStmts_nl env body fs nm A h]
  | .other id kind exprs blocks, fs, nm, A, h => by
      unfold nlHypS at h
      unfold tStmt
      split
      · rename_i hs; simp only [hs, if_true] at h; simp [nlOkL, h]
      · rename_i hs
        simp only [hs, if_false, Bool.false_eq_true] at h
        simp [nlOkL, nlOkS, tStmts_nl env blocks fs nm A h]
  | .ret .., _, _, _, _ | .delete .., _, _, _, _ | .assign .., _, _, _, _ | .augAssign .., _, _, _, _
  | .annAssign .., _, _, _, _ | .raise .., _, _, _, _ | .assert_ .., _, _, _, _ | .import_ .., _, _, _, _
  | .importFrom .., _, _, _, _ | .global .., _, _, _, _ | .nonlocal .., _, _, _, _ | .expr .., _, _, _, _
  | .pass .., _, _, _, _ | .break_ .., _, _, _, _ | .continue_ .., _, _, _, _ => by
      unfold tStmt
      simp [nlOkL, nlOkS]
theorem tStmts_nl (env : Env) : ∀ (ss : List Stmt) (fs : FnScope) (nm : Namer) (A : List String),
    nlHypL env fs A ss = true → nlOkL A (tStmts env fs nm ss).1 = true
  | [], _, _, _, _ => by unfold tStmts; rfl
  | s :: ss, fs, nm, A, h => by
      unfold nlHypL at h
      simp only [Bool.and_eq_true] at h
      unfold tStmts
      simp only [nlOkL_append, tStmt_nl env s fs nm A h.1, tStmts_nl env ss fs _ A h.2, Bool.and_true]
end

end Malt.Conv.CFSpec
