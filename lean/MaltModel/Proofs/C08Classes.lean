import MaltModel.Proofs.C08Activity
import MaltModel.Spec.Symtable
import MaltModel.Analysis.ActivityHyp
/-
Helper development for `C08_classes`: on the fragment, the `bound` / `globals` / `nonlocals` sets the
activity model accumulates for a block, and the `binds` / `globals` / `nonlocals` the specification
collects for it, are both equal to simple syntactic functions of the block (`ownBinds*`, `ownGlobals*`,
`ownNonlocals*`), up to the parameters of directly nested functions (`ownLeaks*`), which only the model adds.
-/
namespace Malt.Analysis
open Malt.Py Malt.Spec

def argName? : Expr → Option String
  | .arg _ n _ => some n
  | _ => none

/-- Parameter names of a function, as strings. -/
def paramStrs (po ar va ko kw : List Expr) : List String :=
  (po ++ ar ++ va ++ ko ++ kw).filterMap argName?

mutual
/-- Names bound (Store / Del context) by the part of `e` evaluated in the current block. -/
def ownBindsE : Expr → List String
  | .name _ s c => if c == .load then [] else [s]
  | .const .. | .noneMarker => []
  | .attr _ v _ _ => ownBindsE v
  | .subscript _ v s _ => ownBindsE v ++ ownBindsE s
  | .call _ f as ks => ownBindsE f ++ ownBindsEs as ++ ownBindsEs ks
  | .keyword _ _ _ v => ownBindsE v
  | .boolop _ _ vs => ownBindsEs vs
  | .unary _ _ x => ownBindsE x
  | .binop _ _ l r => ownBindsE l ++ ownBindsE r
  | .compare _ l _ cs => ownBindsE l ++ ownBindsEs cs
  | .ifexp _ t b o => ownBindsE t ++ ownBindsE b ++ ownBindsE o
  | .lambda _ args _ =>
      match args with
      | .arguments _ _ _ _ _ kd _ df => ownBindsEs kd ++ ownBindsEs df
      | _ => []
  | .seq _ _ es _ => ownBindsEs es
  | .starred _ v _ => ownBindsE v
  | .namedexpr _ t v => ownBindsE t ++ ownBindsE v
  | .comp .. | .comprehension .. | .arguments .. => []
  | .arg _ _ an => ownBindsEs an
  | .withitem _ c v => ownBindsE c ++ ownBindsEs v
  | .other _ _ _ kids => ownBindsEs kids
def ownBindsEs : List Expr → List String
  | [] => []
  | e :: rest => ownBindsE e ++ ownBindsEs rest
end

mutual
/-- Parameters of the lambdas created by the part of `e` evaluated in the current block. -/
def ownLeaksE : Expr → List String
  | .name .. | .const .. | .noneMarker => []
  | .attr _ v _ _ => ownLeaksE v
  | .subscript _ v s _ => ownLeaksE v ++ ownLeaksE s
  | .call _ f as ks => ownLeaksE f ++ ownLeaksEs as ++ ownLeaksEs ks
  | .keyword _ _ _ v => ownLeaksE v
  | .boolop _ _ vs => ownLeaksEs vs
  | .unary _ _ x => ownLeaksE x
  | .binop _ _ l r => ownLeaksE l ++ ownLeaksE r
  | .compare _ l _ cs => ownLeaksE l ++ ownLeaksEs cs
  | .ifexp _ t b o => ownLeaksE t ++ ownLeaksE b ++ ownLeaksE o
  | .lambda _ args _ =>
      match args with
      | .arguments _ po ar va ko kd kw df => paramStrs po ar va ko kw ++ ownLeaksEs kd ++ ownLeaksEs df
      | _ => []
  | .seq _ _ es _ => ownLeaksEs es
  | .starred _ v _ => ownLeaksE v
  | .namedexpr _ t v => ownLeaksE t ++ ownLeaksE v
  | .comp .. | .comprehension .. | .arguments .. => []
  | .arg _ _ an => ownLeaksEs an
  | .withitem _ c v => ownLeaksE c ++ ownLeaksEs v
  | .other _ _ _ kids => ownLeaksEs kids
def ownLeaksEs : List Expr → List String
  | [] => []
  | e :: rest => ownLeaksE e ++ ownLeaksEs rest
end

theorem mem_argNames_iff (as : List Expr) (x : String) : QN.sym x ∈ argNames as ↔ x ∈ as.filterMap argName? := by
  induction as with
  | nil => simp [argNames]
  | cons a r ih =>
    cases a <;> simp_all [argNames, argName?, List.filterMap_cons]

theorem mem_paramNames_iff (po ar va ko kw : List Expr) (x : String) :
    QN.sym x ∈ paramNames po ar va ko kw ↔ x ∈ paramStrs po ar va ko kw := by
  simp only [paramNames, paramStrs, List.mem_append, mem_argNames_iff, List.filterMap_append]

/-- `trackEff` binds the simple name only for Name nodes in Store/Del context. -/
theorem trackEff_bound_sym (q? : Option QN) (c : Ctx) (cw aug anno : Bool) (x : String) :
    QN.sym x ∈ (trackEff q? c cw aug anno).bound ↔ q? = some (.sym x) ∧ c ≠ .load := by
  cases q? with
  | none => simp [trackEff]
  | some q => cases c <;> simp [trackEff, eq_comm]

theorem qnOf_attr_ne_sym (i : Nat) (v : Expr) (a : String) (c : Ctx) (x : String) : qnOf (.attr i v a c) ≠ some (.sym x) := by
  simp only [qnOf]
  cases qnOf v <;> simp

theorem qnOf_subscript_ne_sym (i : Nat) (v s : Expr) (c : Ctx) (x : String) : qnOf (.subscript i v s c) ≠ some (.sym x) := by
  unfold qnOf
  split
  · simp
  · simp
  · split
    · simp
    · cases qnOf v <;> simp
  · split
    · simp
    · cases qnOf v <;> simp

@[simp] theorem Eff.exported_false_bound' (d : Eff) : (d.exported false).bound = d.bound := rfl
@[simp] theorem Eff.exported_true_bound (d : Eff) : (d.exported true).bound = [] := rfl
@[simp] theorem Eff.exported_true_globals (d : Eff) : (d.exported true).globals = [] := rfl
@[simp] theorem Eff.exported_true_nonlocals (d : Eff) : (d.exported true).nonlocals = [] := rfl
@[simp] theorem Eff.exported_false_globals' (d : Eff) : (d.exported false).globals = d.globals := rfl
@[simp] theorem Eff.exported_false_nonlocals' (d : Eff) : (d.exported false).nonlocals = d.nonlocals := rfl


mutual
/-- The simple names an expression adds to `bound`: its own Store/Del names and the parameters of its lambdas. -/
theorem effE_bound : (e : Expr) → FragE e = true → (fns : List FnCtx) → (aug anno : Bool) → (x : String) →
    (QN.sym x ∈ (effE fns aug anno e).bound ↔ x ∈ ownBindsE e ∨ x ∈ ownLeaksE e)
  | .name _ s c, _, fns, aug, anno, x => by
      simp only [effE, trackEff_bound_sym, ownBindsE, ownLeaksE]
      cases c <;> simp <;> grind
  | .const .., _, _, _, _, x => by simp [effE, ownBindsE, ownLeaksE]
  | .noneMarker, _, _, _, _, x => by simp [effE, ownBindsE, ownLeaksE]
  | .attr i v a c, hf, fns, aug, anno, x => by
      simp only [FragE] at hf
      simp only [effE, Eff.append_bound, List.mem_append, trackEff_bound_sym, ownBindsE, ownLeaksE,
        effE_bound v hf fns aug anno x]
      have := qnOf_attr_ne_sym i v a c x
      simp [this]
  | .subscript i v s c, hf, fns, aug, anno, x => by
      simp only [FragE, Bool.and_eq_true] at hf
      simp only [effE, Eff.append_bound, List.mem_append, trackEff_bound_sym, ownBindsE, ownLeaksE,
        effE_bound v hf.1 fns aug anno x, effE_bound s hf.2 fns aug anno x]
      have := qnOf_subscript_ne_sym i v s c x
      simp [this]
      grind
  | .call _ f as ks, hf, fns, aug, anno, x => by
      simp only [FragE, Bool.and_eq_true] at hf
      simp only [effE, Eff.append_bound, Eff.exported_false_bound', List.mem_append, ownBindsE, ownLeaksE,
        effE_bound f hf.1.1 fns aug anno x, effEs_bound as hf.1.2 fns aug anno x, effEs_bound ks hf.2 fns aug anno x]
      grind
  | .keyword _ _ _ v, hf, fns, aug, anno, x => by
      simp only [FragE] at hf
      simpa [effE, ownBindsE, ownLeaksE] using effE_bound v hf fns aug anno x
  | .boolop _ _ vs, hf, fns, aug, anno, x => by
      simp only [FragE] at hf
      simpa [effE, ownBindsE, ownLeaksE] using effEs_bound vs hf fns aug anno x
  | .unary _ _ v, hf, fns, aug, anno, x => by
      simp only [FragE] at hf
      simpa [effE, ownBindsE, ownLeaksE] using effE_bound v hf fns aug anno x
  | .binop _ _ l r, hf, fns, aug, anno, x => by
      simp only [FragE, Bool.and_eq_true] at hf
      simp only [effE, Eff.append_bound, List.mem_append, ownBindsE, ownLeaksE,
        effE_bound l hf.1 fns aug anno x, effE_bound r hf.2 fns aug anno x]
      grind
  | .compare _ l _ cs, hf, fns, aug, anno, x => by
      simp only [FragE, Bool.and_eq_true] at hf
      simp only [effE, Eff.append_bound, List.mem_append, ownBindsE, ownLeaksE,
        effE_bound l hf.1 fns aug anno x, effEs_bound cs hf.2 fns aug anno x]
      grind
  | .ifexp _ t b o, hf, fns, aug, anno, x => by
      simp only [FragE, Bool.and_eq_true] at hf
      simp only [effE, Eff.append_bound, List.mem_append, ownBindsE, ownLeaksE,
        effE_bound t hf.1.1 fns aug anno x, effE_bound b hf.1.2 fns aug anno x, effE_bound o hf.2 fns aug anno x]
      grind
  | .lambda i args body, hf, fns, aug, anno, x => by
      cases args with
      | arguments ai po ar va ko kd kw df =>
        simp only [FragE, Bool.and_eq_true] at hf
        simp only [effE, Eff.append_bound, Eff.exported_false_bound', Eff.exported_true_bound, List.mem_append, ownBindsE,
          ownLeaksE, effEs_bound kd hf.1.1.2 _ aug anno x, effEs_bound df hf.1.2 _ aug anno x]
        have := mem_paramNames_iff po ar va ko kw x
        simp only [paramNames] at this
        simp [this]
        grind
      | _ => simp [FragE] at hf
  | .seq _ _ es _, hf, fns, aug, anno, x => by
      simp only [FragE] at hf
      simpa [effE, ownBindsE, ownLeaksE] using effEs_bound es hf fns aug anno x
  | .starred _ v _, hf, fns, aug, anno, x => by
      simp only [FragE] at hf
      simpa [effE, ownBindsE, ownLeaksE] using effE_bound v hf fns aug anno x
  | .namedexpr _ t v, hf, fns, aug, anno, x => by
      simp only [FragE, Bool.and_eq_true] at hf
      simp only [effE, Eff.append_bound, List.mem_append, ownBindsE, ownLeaksE,
        effE_bound t hf.1 fns aug anno x, effE_bound v hf.2 fns aug anno x]
      grind
  | .comp .., hf, _, _, _, _ => by simp [FragE] at hf
  | .comprehension .., hf, _, _, _, _ => by simp [FragE] at hf
  | .arguments .., hf, _, _, _, _ => by simp [FragE] at hf
  | .arg .., hf, _, _, _, _ => by simp [FragE] at hf
  | .withitem _ c v, hf, fns, aug, anno, x => by
      simp only [FragE, Bool.and_eq_true] at hf
      simp only [effE, Eff.append_bound, Eff.exported_false_bound', List.mem_append, ownBindsE, ownLeaksE,
        effE_bound c hf.1 fns aug anno x, effEs_bound v hf.2 fns aug anno x]
      grind
  | .other _ _ _ kids, hf, fns, aug, anno, x => by
      simp only [FragE] at hf
      simpa [effE, ownBindsE, ownLeaksE] using effEs_bound kids hf fns aug anno x
theorem effEs_bound : (es : List Expr) → FragEs es = true → (fns : List FnCtx) → (aug anno : Bool) → (x : String) →
    (QN.sym x ∈ (effEs fns aug anno es).bound ↔ x ∈ ownBindsEs es ∨ x ∈ ownLeaksEs es)
  | [], _, _, _, _, x => by simp [effEs, ownBindsEs, ownLeaksEs]
  | e :: rest, hf, fns, aug, anno, x => by
      simp only [FragEs, Bool.and_eq_true] at hf
      simp only [effEs, Eff.append_bound, List.mem_append, ownBindsEs, ownLeaksEs,
        effE_bound e hf.1 fns aug anno x, effEs_bound rest hf.2 fns aug anno x]
      grind
end


@[simp] theorem trackEff_globals (q? : Option QN) (c : Ctx) (cw aug anno : Bool) : (trackEff q? c cw aug anno).globals = [] := by
  cases q? with
  | none => rfl
  | some q => cases c <;> rfl

@[simp] theorem trackEff_nonlocals (q? : Option QN) (c : Ctx) (cw aug anno : Bool) : (trackEff q? c cw aug anno).nonlocals = [] := by
  cases q? with
  | none => rfl
  | some q => cases c <;> rfl

mutual
/-- Expressions never declare anything global or nonlocal. -/
theorem effE_decls : (e : Expr) → (fns : List FnCtx) → (aug anno : Bool) →
    (effE fns aug anno e).globals = [] ∧ (effE fns aug anno e).nonlocals = []
  | .name .., fns, aug, anno => by simp [effE]
  | .const .., _, _, _ => by simp [effE]
  | .noneMarker, _, _, _ => by simp [effE]
  | .attr i v a c, fns, aug, anno => by simp [effE, effE_decls v fns aug anno]
  | .subscript i v s c, fns, aug, anno => by simp [effE, effE_decls v fns aug anno, effE_decls s fns aug anno]
  | .call _ f as ks, fns, aug, anno => by
      simp [effE, effE_decls f fns aug anno, effEs_decls as fns aug anno, effEs_decls ks fns aug anno]
  | .keyword _ _ _ v, fns, aug, anno => by simp [effE, effE_decls v fns aug anno]
  | .boolop _ _ vs, fns, aug, anno => by simp [effE, effEs_decls vs fns aug anno]
  | .unary _ _ v, fns, aug, anno => by simp [effE, effE_decls v fns aug anno]
  | .binop _ _ l r, fns, aug, anno => by simp [effE, effE_decls l fns aug anno, effE_decls r fns aug anno]
  | .compare _ l _ cs, fns, aug, anno => by simp [effE, effE_decls l fns aug anno, effEs_decls cs fns aug anno]
  | .ifexp _ t b o, fns, aug, anno => by
      simp [effE, effE_decls t fns aug anno, effE_decls b fns aug anno, effE_decls o fns aug anno]
  | .lambda i args body, fns, aug, anno => by
      cases args with
      | arguments ai po ar va ko kd kw df =>
        simp [effE, effEs_decls kd (.lam i :: fns) aug anno, effEs_decls df (.lam i :: fns) aug anno]
      | _ => simp [effE]
  | .seq _ _ es _, fns, aug, anno => by simp [effE, effEs_decls es fns aug anno]
  | .starred _ v _, fns, aug, anno => by simp [effE, effE_decls v fns aug anno]
  | .namedexpr _ t v, fns, aug, anno => by simp [effE, effE_decls t fns aug anno, effE_decls v fns aug anno]
  | .comp .., _, _, _ => by simp [effE]
  | .comprehension .., _, _, _ => by simp [effE]
  | .arguments .., _, _, _ => by simp [effE]
  | .arg .., _, _, _ => by simp [effE]
  | .withitem _ c v, fns, aug, anno => by simp [effE, effE_decls c fns aug anno, effEs_decls v fns aug anno]
  | .other _ _ _ kids, fns, aug, anno => by simp [effE, effEs_decls kids fns aug anno]
theorem effEs_decls : (es : List Expr) → (fns : List FnCtx) → (aug anno : Bool) →
    (effEs fns aug anno es).globals = [] ∧ (effEs fns aug anno es).nonlocals = []
  | [], _, _, _ => by simp [effEs]
  | e :: rest, fns, aug, anno => by simp [effEs, effE_decls e fns aug anno, effEs_decls rest fns aug anno]
end


/-! ### statements -/

mutual
def ownBindsS : Stmt → List String
  | .functionDef _ name args _ decos returns _ =>
      match args with
      | .arguments _ _ _ _ _ kd _ df => name :: (ownBindsEs decos ++ ownBindsEs returns ++ ownBindsEs kd ++ ownBindsEs df)
      | _ => []
  | .classDef _ name bases kws _ decos => name :: (ownBindsEs decos ++ ownBindsEs bases ++ ownBindsEs kws)
  | .ret _ v => ownBindsEs v
  | .delete _ ts => ownBindsEs ts
  | .assign _ ts v => ownBindsEs ts ++ ownBindsE v
  | .augAssign _ t _ v => ownBindsE t ++ ownBindsE v
  | .annAssign _ t an v _ => ownBindsE t ++ ownBindsEs v ++ ownBindsE an
  | .for_ _ t it body orelse _ _ => ownBindsE t ++ ownBindsE it ++ ownBindsSs body ++ ownBindsSs orelse
  | .while_ _ t body orelse => ownBindsE t ++ ownBindsSs body ++ ownBindsSs orelse
  | .if_ _ t body orelse => ownBindsE t ++ ownBindsSs body ++ ownBindsSs orelse
  | .with_ _ items body _ => ownBindsEs items ++ ownBindsSs body
  | .raise _ e c => ownBindsEs e ++ ownBindsEs c
  | .try_ _ b h o f => ownBindsSs b ++ ownBindsSs h ++ ownBindsSs o ++ ownBindsSs f
  | .handler _ ty _ body => ownBindsEs ty ++ ownBindsSs body
  | .assert_ _ t m => ownBindsE t ++ ownBindsEs m
  | .import_ _ names => names.map aliasName
  | .importFrom _ _ names _ => names.map aliasName
  | .global .. | .nonlocal .. | .pass _ | .break_ _ | .continue_ _ => []
  | .expr _ v => ownBindsE v
  | .other _ _ es bs => ownBindsEs es ++ ownBindsSs bs
def ownBindsSs : List Stmt → List String
  | [] => []
  | s :: rest => ownBindsS s ++ ownBindsSs rest
end

mutual
def ownLeaksS : Stmt → List String
  | .functionDef _ _ args _ decos returns _ =>
      match args with
      | .arguments _ po ar va ko kd kw df =>
          paramStrs po ar va ko kw ++ ownLeaksEs decos ++ ownLeaksEs returns ++ ownLeaksEs kd ++ ownLeaksEs df
      | _ => []
  | .classDef _ _ bases kws _ decos => ownLeaksEs decos ++ ownLeaksEs bases ++ ownLeaksEs kws
  | .ret _ v => ownLeaksEs v
  | .delete _ ts => ownLeaksEs ts
  | .assign _ ts v => ownLeaksEs ts ++ ownLeaksE v
  | .augAssign _ t _ v => ownLeaksE t ++ ownLeaksE v
  | .annAssign _ t an v _ => ownLeaksE t ++ ownLeaksEs v ++ ownLeaksE an
  | .for_ _ t it body orelse _ _ => ownLeaksE t ++ ownLeaksE it ++ ownLeaksSs body ++ ownLeaksSs orelse
  | .while_ _ t body orelse => ownLeaksE t ++ ownLeaksSs body ++ ownLeaksSs orelse
  | .if_ _ t body orelse => ownLeaksE t ++ ownLeaksSs body ++ ownLeaksSs orelse
  | .with_ _ items body _ => ownLeaksEs items ++ ownLeaksSs body
  | .raise _ e c => ownLeaksEs e ++ ownLeaksEs c
  | .try_ _ b h o f => ownLeaksSs b ++ ownLeaksSs h ++ ownLeaksSs o ++ ownLeaksSs f
  | .handler _ ty _ body => ownLeaksEs ty ++ ownLeaksSs body
  | .assert_ _ t m => ownLeaksE t ++ ownLeaksEs m
  | .import_ .. | .importFrom .. | .global .. | .nonlocal .. | .pass _ | .break_ _ | .continue_ _ => []
  | .expr _ v => ownLeaksE v
  | .other _ _ es bs => ownLeaksEs es ++ ownLeaksSs bs
def ownLeaksSs : List Stmt → List String
  | [] => []
  | s :: rest => ownLeaksS s ++ ownLeaksSs rest
end

mutual
/-- Names declared `global` (`g = true`) resp. `nonlocal` (`g = false`) by the statements of the current block. -/
def ownDeclsS (g : Bool) : Stmt → List String
  | .global _ names => if g then names else []
  | .nonlocal _ names => if g then [] else names
  | .for_ _ _ _ body orelse _ _ => ownDeclsSs g body ++ ownDeclsSs g orelse
  | .while_ _ _ body orelse => ownDeclsSs g body ++ ownDeclsSs g orelse
  | .if_ _ _ body orelse => ownDeclsSs g body ++ ownDeclsSs g orelse
  | .with_ _ _ body _ => ownDeclsSs g body
  | .try_ _ b h o f => ownDeclsSs g b ++ ownDeclsSs g h ++ ownDeclsSs g o ++ ownDeclsSs g f
  | .handler _ _ _ body => ownDeclsSs g body
  | .other _ _ _ bs => ownDeclsSs g bs
  | _ => []
def ownDeclsSs (g : Bool) : List Stmt → List String
  | [] => []
  | s :: rest => ownDeclsS g s ++ ownDeclsSs g rest
end

theorem mem_map_sym (l : List String) (x : String) : QN.sym x ∈ l.map QN.sym ↔ x ∈ l := by
  simp


/-- The three function-level sets of an effect, as sets of simple names. -/
structure SetsAre (d : Eff) (binds leaks globals nonlocals : List String) : Prop where
  bound : ∀ x, QN.sym x ∈ d.bound ↔ x ∈ binds ∨ x ∈ nonlocals ∨ x ∈ leaks
  globals : ∀ x, QN.sym x ∈ d.globals ↔ x ∈ globals
  nonlocals : ∀ x, QN.sym x ∈ d.nonlocals ↔ x ∈ nonlocals

theorem SetsAre.ofE {fns aug anno} (e : Expr) (hf : FragE e = true) :
    SetsAre (effE fns aug anno e) (ownBindsE e) (ownLeaksE e) [] [] :=
  ⟨fun x => by simp [effE_bound e hf fns aug anno x], fun x => by simp [(effE_decls e fns aug anno).1],
   fun x => by simp [(effE_decls e fns aug anno).2]⟩

theorem SetsAre.ofEs {fns aug anno} (es : List Expr) (hf : FragEs es = true) :
    SetsAre (effEs fns aug anno es) (ownBindsEs es) (ownLeaksEs es) [] [] :=
  ⟨fun x => by simp [effEs_bound es hf fns aug anno x], fun x => by simp [(effEs_decls es fns aug anno).1],
   fun x => by simp [(effEs_decls es fns aug anno).2]⟩

theorem SetsAre.append {d1 d2 : Eff} {b1 l1 g1 n1 b2 l2 g2 n2 : List String}
    (h1 : SetsAre d1 b1 l1 g1 n1) (h2 : SetsAre d2 b2 l2 g2 n2) :
    SetsAre (d1 ++ d2) (b1 ++ b2) (l1 ++ l2) (g1 ++ g2) (n1 ++ n2) :=
  ⟨fun x => by simp [h1.bound, h2.bound]; grind, fun x => by simp [h1.globals, h2.globals],
   fun x => by simp [h1.nonlocals, h2.nonlocals]⟩

theorem SetsAre.exportedFalse {d : Eff} {b l g n : List String} (h : SetsAre d b l g n) :
    SetsAre (d.exported false) b l g n := ⟨h.bound, h.globals, h.nonlocals⟩

theorem SetsAre.exportedTrue (d : Eff) : SetsAre (d.exported true) [] [] [] [] :=
  ⟨by simp, by simp, by simp⟩

theorem SetsAre.empty : SetsAre {} [] [] [] [] := ⟨by simp, by simp, by simp⟩

theorem SetsAre.congr {d : Eff} {b l g n b' l' g' n' : List String} (h : SetsAre d b l g n)
    (hb : ∀ x, x ∈ b ↔ x ∈ b') (hl : ∀ x, x ∈ l ↔ x ∈ l') (hg : ∀ x, x ∈ g ↔ x ∈ g') (hn : ∀ x, x ∈ n ↔ x ∈ n') :
    SetsAre d b' l' g' n' :=
  ⟨fun x => by rw [h.bound, hb, hl, hn], fun x => by rw [h.globals, hg], fun x => by rw [h.nonlocals, hn]⟩

/-- Membership-equality of lists built with `++`/`::`, up to reordering. -/
macro "perm_mem" : tactic => `(tactic| (intro x; simp; try grind))

mutual
theorem effS_sets : (s : Stmt) → FragS s = true → (fns : List FnCtx) →
    SetsAre (effS fns s) (ownBindsS s) (ownLeaksS s) (ownDeclsS true s) (ownDeclsS false s)
  | .ret _ v, hf, fns => by
      simp only [FragS] at hf
      simpa [effS, ownBindsS, ownLeaksS, ownDeclsS] using (SetsAre.ofEs (fns := fns) (aug := false) (anno := false) v hf).exportedFalse
  | .delete _ ts, hf, fns => by
      simp only [FragS] at hf
      simpa [effS, ownBindsS, ownLeaksS, ownDeclsS] using (SetsAre.ofEs (fns := fns) (aug := false) (anno := false) ts hf).exportedFalse
  | .expr _ v, hf, fns => by
      simp only [FragS] at hf
      simpa [effS, ownBindsS, ownLeaksS, ownDeclsS] using (SetsAre.ofE (fns := fns) (aug := false) (anno := false) v hf).exportedFalse
  | .assign _ ts v, hf, fns => by
      simp only [FragS, Bool.and_eq_true] at hf
      simpa [effS, ownBindsS, ownLeaksS, ownDeclsS] using
        ((SetsAre.ofEs (fns := fns) (aug := false) (anno := false) ts hf.1).append (SetsAre.ofE v hf.2)).exportedFalse
  | .augAssign _ t _ v, hf, fns => by
      simp only [FragS, Bool.and_eq_true] at hf
      simpa [effS, ownBindsS, ownLeaksS, ownDeclsS] using
        ((SetsAre.ofE (fns := fns) (aug := true) (anno := false) t hf.1).append
          (SetsAre.ofE (fns := fns) (aug := false) (anno := false) v hf.2)).exportedFalse
  | .annAssign _ t an v _, hf, fns => by
      simp only [FragS, Bool.and_eq_true] at hf
      simpa [effS, ownBindsS, ownLeaksS, ownDeclsS] using
        (((SetsAre.ofE (fns := fns) (aug := false) (anno := false) t hf.1.1).append (SetsAre.ofEs v hf.2)).append
          (SetsAre.ofE (fns := fns) (aug := false) (anno := true) an hf.1.2)).exportedFalse
  | .raise _ e c, hf, fns => by
      simp only [FragS, Bool.and_eq_true] at hf
      simpa [effS, ownBindsS, ownLeaksS, ownDeclsS] using
        ((SetsAre.ofEs (fns := fns) (aug := false) (anno := false) e hf.1).append (SetsAre.ofEs c hf.2)).exportedFalse
  | .assert_ _ t m, hf, fns => by
      simp only [FragS, Bool.and_eq_true] at hf
      simpa [effS, ownBindsS, ownLeaksS, ownDeclsS] using
        ((SetsAre.ofE (fns := fns) (aug := false) (anno := false) t hf.1).append (SetsAre.ofEs m hf.2)).exportedFalse
  | .import_ _ names, _, fns => by
      simp only [effS, ownBindsS, ownLeaksS, ownDeclsS]
      exact ⟨fun x => by simp [aliasEff], fun x => by simp [aliasEff], fun x => by simp [aliasEff]⟩
  | .importFrom _ _ names _, _, fns => by
      simp only [effS, ownBindsS, ownLeaksS, ownDeclsS]
      exact ⟨fun x => by simp [aliasEff], fun x => by simp [aliasEff], fun x => by simp [aliasEff]⟩
  | .global _ names, _, fns => by
      simp only [effS, ownBindsS, ownLeaksS, ownDeclsS]
      exact ⟨fun x => by simp [globalEff], fun x => by simp [globalEff], fun x => by simp [globalEff]⟩
  | .nonlocal _ names, _, fns => by
      simp only [effS, ownBindsS, ownLeaksS, ownDeclsS]
      exact ⟨fun x => by simp [nonlocalEff], fun x => by simp [nonlocalEff], fun x => by simp [nonlocalEff]⟩
  | .pass _, _, _ => by simpa [effS, ownBindsS, ownLeaksS, ownDeclsS] using SetsAre.empty
  | .break_ _, _, _ => by simpa [effS, ownBindsS, ownLeaksS, ownDeclsS] using SetsAre.empty
  | .continue_ _, _, _ => by simpa [effS, ownBindsS, ownLeaksS, ownDeclsS] using SetsAre.empty
  | .other _ _ es bs, hf, fns => by
      simp only [FragS, Bool.and_eq_true] at hf
      simpa [effS, ownBindsS, ownLeaksS, ownDeclsS] using
        (SetsAre.ofEs (fns := fns) (aug := false) (anno := false) es hf.1).append (effSs_sets bs hf.2 fns)
  | .try_ _ b h o f, hf, fns => by
      simp only [FragS, Bool.and_eq_true] at hf
      simpa [effS, ownBindsS, ownLeaksS, ownDeclsS] using
        (((effSs_sets b hf.1.1.1 fns).append (effSs_sets h hf.1.1.2 fns)).append (effSs_sets o hf.1.2 fns)).append
          (effSs_sets f hf.2 fns)
  | .handler _ ty _ body, hf, fns => by
      simp only [FragS, Bool.and_eq_true] at hf
      simpa [effS, ownBindsS, ownLeaksS, ownDeclsS] using
        ((SetsAre.ofEs (fns := fns) (aug := false) (anno := false) ty hf.1).append (effSs_sets body hf.2 fns)).exportedFalse
  | .with_ _ items body _, hf, fns => by
      simp only [FragS, Bool.and_eq_true] at hf
      simpa [effS, ownBindsS, ownLeaksS, ownDeclsS] using
        ((SetsAre.ofEs (fns := fns) (aug := false) (anno := false) items hf.1.1.2).append (effSs_sets body hf.2 fns)).exportedFalse
  | .if_ _ t body orelse, hf, fns => by
      simp only [FragS, Bool.and_eq_true] at hf
      simpa [effS, ownBindsS, ownLeaksS, ownDeclsS] using
        (SetsAre.ofE (fns := fns) (aug := false) (anno := false) t hf.1.1).exportedFalse.append
          ((effSs_sets body hf.1.2 fns).exportedFalse.append (effSs_sets orelse hf.2 fns).exportedFalse)
  | .while_ _ t body orelse, hf, fns => by
      simp only [FragS, Bool.and_eq_true] at hf
      simpa [effS, ownBindsS, ownLeaksS, ownDeclsS] using
        (SetsAre.ofE (fns := fns) (aug := false) (anno := false) t hf.1.1).exportedFalse.append
          ((effSs_sets body hf.1.2 fns).exportedFalse.append (effSs_sets orelse hf.2 fns).exportedFalse)
  | .for_ _ t it body orelse _ _, hf, fns => by
      simp only [FragS, Bool.and_eq_true] at hf
      obtain ⟨⟨⟨⟨_, ht⟩, hit⟩, hb⟩, ho⟩ := hf
      have h1 := ((SetsAre.ofE (fns := fns) (aug := false) (anno := false) t ht).append
        (SetsAre.ofE (fns := fns) (aug := false) (anno := false) it hit)).exportedFalse
      have h2 := (SetsAre.ofE (fns := fns) (aug := false) (anno := false) t ht).exportedFalse
      have h3 := (effSs_sets body hb fns).exportedFalse.append (effSs_sets orelse ho fns).exportedFalse
      simp only [effS, ownBindsS, ownLeaksS, ownDeclsS]
      exact ((h1.append h2).append h3).congr (by perm_mem) (by perm_mem) (by perm_mem) (by perm_mem)
  | .classDef i name bases kws body decos, hf, fns => by
      simp only [FragS, Bool.and_eq_true] at hf
      obtain ⟨⟨⟨hb, hk⟩, hd⟩, _⟩ := hf
      have hn1 : SetsAre ({ modified := [.sym name] } : Eff) [] [] [] [] := ⟨by simp, by simp, by simp⟩
      have hn2 : SetsAre ({ bound := [.sym name] } : Eff) [name] [] [] [] := ⟨fun x => by simp, by simp, by simp⟩
      have h1 := (((((SetsAre.ofEs (fns := .cls i :: fns) (aug := false) (anno := false) decos hd).append hn1).append hn2).append
        (SetsAre.ofEs (fns := .cls i :: fns) (aug := false) (anno := false) bases hb)).append
          (SetsAre.ofEs (fns := .cls i :: fns) (aug := false) (anno := false) kws hk)).exportedFalse
      simp only [effS, ownBindsS, ownLeaksS, ownDeclsS]
      exact (h1.append (SetsAre.exportedTrue _)).congr (by perm_mem) (by perm_mem) (by perm_mem) (by perm_mem)
  | .functionDef i name args body decos returns _, hf, fns => by
      cases args with
      | arguments ai po ar va ko kd kw df =>
        simp only [FragS, Bool.and_eq_true, Bool.not_eq_true'] at hf
        obtain ⟨⟨⟨⟨_, ⟨⟨_, hkd⟩, hdf⟩⟩, hdec⟩, hret⟩, _⟩ := hf
        have hn1 : SetsAre ({ modified := [.sym name] } : Eff) [] [] [] [] := ⟨by simp, by simp, by simp⟩
        have hn2 : SetsAre ({ bound := [.sym name] } : Eff) [name] [] [] [] := ⟨fun x => by simp, by simp, by simp⟩
        have hp : SetsAre ({ bound := paramNames po ar va ko kw } : Eff) [] (paramStrs po ar va ko kw) [] [] :=
          ⟨fun x => by simp [mem_paramNames_iff], by simp, by simp⟩
        have h1 := (((((((SetsAre.ofEs (fns := .fn i name :: fns) (aug := false) (anno := false) decos hdec).append
          (SetsAre.ofEs (fns := .fn i name :: fns) (aug := false) (anno := true) returns hret)).append
          (SetsAre.ofEs (fns := .fn i name :: fns) (aug := false) (anno := false) kd hkd)).append
          (SetsAre.ofEs (fns := .fn i name :: fns) (aug := false) (anno := false) df hdf)).append hp).append hn1).append hn2).exportedFalse
        simp only [effS, ownBindsS, ownLeaksS, ownDeclsS]
        exact (h1.append (SetsAre.exportedTrue _)).congr (by perm_mem) (by perm_mem) (by perm_mem) (by perm_mem)
      | _ => simp [FragS] at hf
theorem effSs_sets : (ss : List Stmt) → FragSs ss = true → (fns : List FnCtx) →
    SetsAre (effSs fns ss) (ownBindsSs ss) (ownLeaksSs ss) (ownDeclsSs true ss) (ownDeclsSs false ss)
  | [], _, _ => by simpa [effSs, ownBindsSs, ownLeaksSs, ownDeclsSs] using SetsAre.empty
  | s :: rest, hf, fns => by
      simp only [FragSs, Bool.and_eq_true] at hf
      simpa [effSs, ownBindsSs, ownLeaksSs, ownDeclsSs] using (effS_sets s hf.1 fns).append (effSs_sets rest hf.2 fns)
end


/-! ### the specification's collection pass computes the same syntactic sets -/

theorem leaksBs_append (enc : List String) (a b : List Block) : leaksBs enc (a ++ b) = leaksBs enc a ++ leaksBs enc b := by
  induction a with
  | nil => simp [leaksBs]
  | cons x r ih => simp [leaksBs, ih]

/-- The blocks `bs` account for the leaked parameters `L` (those not declared by the enclosing block). -/
@[reducible] def Covers (bs : List Block) (L : List String) : Prop := ∀ enc x, x ∈ L → x ∉ enc → x ∈ leaksBs enc bs

theorem Covers.nil (bs : List Block) : Covers bs [] := by intro enc x hx; simp at hx

theorem Covers.append {b1 b2 : List Block} {l1 l2 : List String} (h1 : Covers b1 l1) (h2 : Covers b2 l2) :
    Covers (b1 ++ b2) (l1 ++ l2) := by
  intro enc x hx hn
  rw [leaksBs_append]
  simp only [List.mem_append] at hx ⊢
  rcases hx with hx | hx
  · exact Or.inl (h1 enc x hx hn)
  · exact Or.inr (h2 enc x hx hn)

theorem mem_specParams_iff (po ar va ko kw : List Expr) (x : String) :
    x ∈ (po ++ ar ++ ko ++ va ++ kw).filterMap paramName ↔ x ∈ paramStrs po ar va ko kw := by
  have : paramName = argName? := by funext e; cases e <;> rfl
  simp only [this, paramStrs, List.filterMap_append, List.mem_append]
  grind

/-- What `collectE false e` does to the accumulator `a`. -/
structure CollectsE (a a' : Acc) (binds leaks : List String) : Prop where
  binds : ∀ x, x ∈ a'.binds ↔ x ∈ binds ∨ x ∈ a.binds
  globals : a'.globals = a.globals
  nonlocals : a'.nonlocals = a.nonlocals
  params : a'.params = a.params
  walrus : a'.walrus = a.walrus
  children : ∃ new, a'.children = a.children ++ new ∧ Covers new leaks

theorem CollectsE.refl (a : Acc) : CollectsE a a [] [] :=
  ⟨by simp, rfl, rfl, rfl, rfl, ⟨[], by simp, Covers.nil _⟩⟩

theorem CollectsE.trans {a b c : Acc} {b1 l1 b2 l2 : List String} (h1 : CollectsE a b b1 l1) (h2 : CollectsE b c b2 l2) :
    CollectsE a c (b1 ++ b2) (l1 ++ l2) := by
  obtain ⟨n1, e1, c1⟩ := h1.children
  obtain ⟨n2, e2, c2⟩ := h2.children
  exact ⟨fun x => by simp [h2.binds, h1.binds]; grind, h2.globals.trans h1.globals, h2.nonlocals.trans h1.nonlocals,
    h2.params.trans h1.params, h2.walrus.trans h1.walrus,
    ⟨n1 ++ n2, by rw [e2, e1, List.append_assoc], c1.append c2⟩⟩

theorem CollectsE.congr {a a' : Acc} {b l b' l' : List String} (h : CollectsE a a' b l)
    (hb : ∀ x, x ∈ b ↔ x ∈ b') (hl : ∀ x, x ∈ l' → x ∈ l) : CollectsE a a' b' l' := by
  obtain ⟨n, e, c⟩ := h.children
  exact ⟨fun x => by rw [h.binds, hb], h.globals, h.nonlocals, h.params, h.walrus,
    ⟨n, e, fun enc x hx hn => c enc x (hl x hx) hn⟩⟩

mutual
theorem collectE_spec : (e : Expr) → FragE e = true → (a : Acc) →
    CollectsE a (collectE false e a) (ownBindsE e) (ownLeaksE e)
  | .name _ s c, _, a => by
      cases c
      · simpa [collectE, Acc.use, ownBindsE, ownLeaksE] using
          (⟨by simp, rfl, rfl, rfl, rfl, ⟨[], by simp, Covers.nil _⟩⟩ : CollectsE a { a with uses := s :: a.uses } [] [])
      · exact ⟨by simp [collectE, Acc.bind, ownBindsE], rfl, rfl, rfl, rfl, ⟨[], by simp [collectE, Acc.bind], by simpa [ownLeaksE] using Covers.nil _⟩⟩
      · exact ⟨by simp [collectE, Acc.bind, ownBindsE], rfl, rfl, rfl, rfl, ⟨[], by simp [collectE, Acc.bind], by simpa [ownLeaksE] using Covers.nil _⟩⟩
  | .const .., _, a => by simpa [collectE, ownBindsE, ownLeaksE] using CollectsE.refl a
  | .noneMarker, _, a => by simpa [collectE, ownBindsE, ownLeaksE] using CollectsE.refl a
  | .attr _ v _ _, hf, a => by
      simp only [FragE] at hf
      simpa [collectE, ownBindsE, ownLeaksE] using collectE_spec v hf a
  | .subscript _ v s _, hf, a => by
      simp only [FragE, Bool.and_eq_true] at hf
      simpa [collectE, ownBindsE, ownLeaksE] using (collectE_spec v hf.1 a).trans (collectE_spec s hf.2 _)
  | .call _ f as ks, hf, a => by
      simp only [FragE, Bool.and_eq_true] at hf
      simpa [collectE, ownBindsE, ownLeaksE] using
        ((collectE_spec f hf.1.1 a).trans (collectEs_spec as hf.1.2 _)).trans (collectEs_spec ks hf.2 _)
  | .keyword _ _ _ v, hf, a => by
      simp only [FragE] at hf
      simpa [collectE, ownBindsE, ownLeaksE] using collectE_spec v hf a
  | .boolop _ _ vs, hf, a => by
      simp only [FragE] at hf
      simpa [collectE, ownBindsE, ownLeaksE] using collectEs_spec vs hf a
  | .unary _ _ v, hf, a => by
      simp only [FragE] at hf
      simpa [collectE, ownBindsE, ownLeaksE] using collectE_spec v hf a
  | .binop _ _ l r, hf, a => by
      simp only [FragE, Bool.and_eq_true] at hf
      simpa [collectE, ownBindsE, ownLeaksE] using (collectE_spec l hf.1 a).trans (collectE_spec r hf.2 _)
  | .compare _ l _ cs, hf, a => by
      simp only [FragE, Bool.and_eq_true] at hf
      simpa [collectE, ownBindsE, ownLeaksE] using (collectE_spec l hf.1 a).trans (collectEs_spec cs hf.2 _)
  | .ifexp _ t b o, hf, a => by
      simp only [FragE, Bool.and_eq_true] at hf
      simpa [collectE, ownBindsE, ownLeaksE] using
        ((collectE_spec t hf.1.1 a).trans (collectE_spec b hf.1.2 _)).trans (collectE_spec o hf.2 _)
  | .lambda i args body, hf, a => by
      cases args with
      | arguments ai po ar va ko kd kw df =>
        simp only [FragE, Bool.and_eq_true] at hf
        have h1 := (collectEs_spec df hf.1.2 a).trans (collectEs_spec kd hf.1.1.2 _)
        obtain ⟨n, e, c⟩ := h1.children
        simp only [collectE, ownBindsE, ownLeaksE]
        refine ⟨fun x => by simp [Acc.child, h1.binds]; grind, by simp [Acc.child, h1.globals],
          by simp [Acc.child, h1.nonlocals], by simp [Acc.child, h1.params], by simp [Acc.child, h1.walrus], ?_⟩
        refine ⟨n ++ [(collectE false body { params := (po ++ ar ++ ko ++ va ++ kw).filterMap paramName }).toBlock i .lambda "lambda"],
          by simp [Acc.child, e], ?_⟩
        intro enc x hx hn
        rw [leaksBs_append]
        simp only [List.mem_append] at hx ⊢
        rcases hx with (hx | hx) | hx
        · right
          simp only [leaksBs, Acc.toBlock, leaksB, List.append_nil, List.mem_append]
          left
          simp only [BlockKind.isComp, beq_self_eq_true, Bool.or_true, ↓reduceIte, List.mem_filter]
          rw [(collectE_spec body hf.2 _).params]
          exact ⟨(mem_specParams_iff po ar va ko kw x).mpr hx, by simpa using hn⟩
        · exact Or.inl (c enc x (List.mem_append_right _ hx) hn)
        · exact Or.inl (c enc x (List.mem_append_left _ hx) hn)
      | _ => simp [FragE] at hf
  | .seq _ _ es _, hf, a => by
      simp only [FragE] at hf
      simpa [collectE, ownBindsE, ownLeaksE] using collectEs_spec es hf a
  | .starred _ v _, hf, a => by
      simp only [FragE] at hf
      simpa [collectE, ownBindsE, ownLeaksE] using collectE_spec v hf a
  | .namedexpr _ t v, hf, a => by
      simp only [FragE, Bool.and_eq_true] at hf
      simpa [collectE, ownBindsE, ownLeaksE] using (collectE_spec t hf.1 a).trans (collectE_spec v hf.2 _)
  | .comp .., hf, _ => by simp [FragE] at hf
  | .comprehension .., hf, _ => by simp [FragE] at hf
  | .arguments .., hf, _ => by simp [FragE] at hf
  | .arg .., hf, _ => by simp [FragE] at hf
  | .withitem _ c v, hf, a => by
      simp only [FragE, Bool.and_eq_true] at hf
      simpa [collectE, ownBindsE, ownLeaksE] using (collectE_spec c hf.1 a).trans (collectEs_spec v hf.2 _)
  | .other _ _ _ kids, hf, a => by
      simp only [FragE] at hf
      simpa [collectE, ownBindsE, ownLeaksE] using collectEs_spec kids hf a
theorem collectEs_spec : (es : List Expr) → FragEs es = true → (a : Acc) →
    CollectsE a (collectEs false es a) (ownBindsEs es) (ownLeaksEs es)
  | [], _, a => by simpa [collectEs, ownBindsEs, ownLeaksEs] using CollectsE.refl a
  | e :: rest, hf, a => by
      simp only [FragEs, Bool.and_eq_true] at hf
      simpa [collectEs, ownBindsEs, ownLeaksEs] using (collectE_spec e hf.1 a).trans (collectEs_spec rest hf.2 _)
end


/-- What `collectS s` does to the accumulator. -/
structure CollectsS (a a' : Acc) (binds leaks globals nonlocals : List String) : Prop where
  binds : ∀ x, x ∈ a'.binds ↔ x ∈ binds ∨ x ∈ a.binds
  globals : ∀ x, x ∈ a'.globals ↔ x ∈ globals ∨ x ∈ a.globals
  nonlocals : ∀ x, x ∈ a'.nonlocals ↔ x ∈ nonlocals ∨ x ∈ a.nonlocals
  params : a'.params = a.params
  walrus : a'.walrus = a.walrus
  children : ∃ new, a'.children = a.children ++ new ∧ Covers new leaks

theorem CollectsS.refl (a : Acc) : CollectsS a a [] [] [] [] :=
  ⟨by simp, by simp, by simp, rfl, rfl, ⟨[], by simp, Covers.nil _⟩⟩

theorem CollectsE.toS {a a' : Acc} {b l : List String} (h : CollectsE a a' b l) : CollectsS a a' b l [] [] :=
  ⟨h.binds, by simp [h.globals], by simp [h.nonlocals], h.params, h.walrus, h.children⟩

theorem CollectsS.trans {a b c : Acc} {b1 l1 g1 n1 b2 l2 g2 n2 : List String}
    (h1 : CollectsS a b b1 l1 g1 n1) (h2 : CollectsS b c b2 l2 g2 n2) :
    CollectsS a c (b1 ++ b2) (l1 ++ l2) (g1 ++ g2) (n1 ++ n2) := by
  obtain ⟨m1, e1, c1⟩ := h1.children
  obtain ⟨m2, e2, c2⟩ := h2.children
  exact ⟨fun x => by simp [h2.binds, h1.binds]; grind, fun x => by simp [h2.globals, h1.globals]; grind,
    fun x => by simp [h2.nonlocals, h1.nonlocals]; grind, h2.params.trans h1.params, h2.walrus.trans h1.walrus,
    ⟨m1 ++ m2, by rw [e2, e1, List.append_assoc], c1.append c2⟩⟩

theorem CollectsS.congr {a a' : Acc} {b l g n b' l' g' n' : List String} (h : CollectsS a a' b l g n)
    (hb : ∀ x, x ∈ b ↔ x ∈ b') (hl : ∀ x, x ∈ l' → x ∈ l) (hg : ∀ x, x ∈ g ↔ x ∈ g') (hn : ∀ x, x ∈ n ↔ x ∈ n') :
    CollectsS a a' b' l' g' n' := by
  obtain ⟨m, e, c⟩ := h.children
  exact ⟨fun x => by rw [h.binds, hb], fun x => by rw [h.globals, hg], fun x => by rw [h.nonlocals, hn], h.params, h.walrus,
    ⟨m, e, fun enc x hx hne => c enc x (hl x hx) hne⟩⟩

theorem aliasBinds_eq (names : List (String × String)) (h : names.all (fun a => !(a.2 == "" && a.1 == "*")) = true) :
    aliasBinds names = names.map aliasName := by
  unfold aliasBinds
  induction names with
  | nil => rfl
  | cons a r ih =>
    simp only [List.all_cons, Bool.and_eq_true] at h
    have hv : (if a.2 != "" then some a.2 else if a.1 == "*" then none else some ((a.1.splitOn ".").headD a.1))
        = some (aliasName a) := by
      by_cases h2 : a.2 = ""
      · have h1 : a.1 ≠ "*" := by
          intro h1; simp [h2, h1] at h
        simp [h2, h1, aliasName]
      · simp [h2, aliasName]
    rw [List.filterMap_cons, hv, ih h.2, List.map_cons]

theorem foldl_bind (l : List String) (a : Acc) :
    (l.foldl Acc.bind a).binds = l.reverse ++ a.binds ∧ (l.foldl Acc.bind a).globals = a.globals ∧
    (l.foldl Acc.bind a).nonlocals = a.nonlocals ∧ (l.foldl Acc.bind a).params = a.params ∧
    (l.foldl Acc.bind a).walrus = a.walrus ∧ (l.foldl Acc.bind a).children = a.children := by
  induction l generalizing a with
  | nil => simp
  | cons x r ih =>
    simp only [List.foldl_cons]
    obtain ⟨h1, h2, h3, h4, h5, h6⟩ := ih (a.bind x)
    refine ⟨?_, ?_, ?_, ?_, ?_, ?_⟩
    · rw [h1]; simp [Acc.bind]
    · rw [h2]; rfl
    · rw [h3]; rfl
    · rw [h4]; rfl
    · rw [h5]; rfl
    · rw [h6]; rfl

theorem binds_spec (l : List String) (a : Acc) : CollectsS a (l.foldl Acc.bind a) l [] [] [] := by
  obtain ⟨h1, h2, h3, h4, h5, h6⟩ := foldl_bind l a
  exact ⟨fun x => by simp [h1], by simp [h2], by simp [h3], h4, h5, ⟨[], by simp [h6], Covers.nil _⟩⟩


theorem argAnnotations_plain (as : List Expr) (h : as.all isPlainArg = true) : Spec.argAnnotations as = [] := by
  induction as with
  | nil => rfl
  | cons a r ih =>
    simp only [List.all_cons, Bool.and_eq_true] at h
    match a, h.1 with
    | .arg _ n [], _ =>
      have := ih h.2
      simp only [Spec.argAnnotations] at this ⊢
      simp [List.flatMap_cons, this]

mutual
theorem collectS_spec : (s : Stmt) → FragS s = true → SpecOkS s = true → (a : Acc) →
    CollectsS a (collectS s a) (ownBindsS s) (ownLeaksS s) (ownDeclsS true s) (ownDeclsS false s)
  | .ret _ v, hf, _, a => by
      simp only [FragS] at hf
      simpa [collectS, ownBindsS, ownLeaksS, ownDeclsS] using (collectEs_spec v hf a).toS
  | .delete _ ts, hf, _, a => by
      simp only [FragS] at hf
      simpa [collectS, ownBindsS, ownLeaksS, ownDeclsS] using (collectEs_spec ts hf a).toS
  | .expr _ v, hf, _, a => by
      simp only [FragS] at hf
      simpa [collectS, ownBindsS, ownLeaksS, ownDeclsS] using (collectE_spec v hf a).toS
  | .assign _ ts v, hf, _, a => by
      simp only [FragS, Bool.and_eq_true] at hf
      simpa [collectS, ownBindsS, ownLeaksS, ownDeclsS] using ((collectEs_spec ts hf.1 a).trans (collectE_spec v hf.2 _)).toS
  | .augAssign _ t _ v, hf, _, a => by
      simp only [FragS, Bool.and_eq_true] at hf
      simpa [collectS, ownBindsS, ownLeaksS, ownDeclsS] using ((collectE_spec t hf.1 a).trans (collectE_spec v hf.2 _)).toS
  | .raise _ e c, hf, _, a => by
      simp only [FragS, Bool.and_eq_true] at hf
      simpa [collectS, ownBindsS, ownLeaksS, ownDeclsS] using ((collectEs_spec e hf.1 a).trans (collectEs_spec c hf.2 _)).toS
  | .assert_ _ t m, hf, _, a => by
      simp only [FragS, Bool.and_eq_true] at hf
      simpa [collectS, ownBindsS, ownLeaksS, ownDeclsS] using ((collectE_spec t hf.1 a).trans (collectEs_spec m hf.2 _)).toS
  | .annAssign _ t an v simple, hf, hs, a => by
      simp only [FragS, Bool.and_eq_true] at hf
      simp only [collectS, ownBindsS, ownLeaksS, ownDeclsS]
      have hrest : ∀ a0 : Acc, CollectsE a0 (collectEs false v (collectE false an a0)) (ownBindsE an ++ ownBindsEs v) (ownLeaksE an ++ ownLeaksEs v) :=
        fun a0 => (collectE_spec an hf.1.2 a0).trans (collectEs_spec v hf.2 _)
      cases t with
      | name i n c =>
        simp only [SpecOkS, Bool.and_eq_true, bne_iff_ne, ne_eq] at hs
        simp only [hs.2, ↓reduceIte]
        have hb : CollectsE a (a.bind n) [n] [] :=
          ⟨by simp [Acc.bind], rfl, rfl, rfl, rfl, ⟨[], by simp [Acc.bind], Covers.nil _⟩⟩
        cases c with
        | load => exact absurd rfl hs.1
        | store => exact ((hb.trans (hrest _)).congr (by simp [ownBindsE]; grind) (by simp [ownLeaksE]; grind)).toS
        | del => exact ((hb.trans (hrest _)).congr (by simp [ownBindsE]; grind) (by simp [ownLeaksE]; grind)).toS
      | _ =>
        exact (((collectE_spec _ hf.1.1 a).trans (hrest _)).congr (by intro x; simp; grind) (by intro x; simp; grind)).toS
  | .import_ _ names, _, hs, a => by
      simp only [SpecOkS] at hs
      simp only [collectS, ownBindsS, ownLeaksS, ownDeclsS, aliasBinds_eq names hs]
      exact binds_spec _ a
  | .importFrom _ _ names _, _, hs, a => by
      simp only [SpecOkS] at hs
      simp only [collectS, ownBindsS, ownLeaksS, ownDeclsS, aliasBinds_eq names hs]
      exact binds_spec _ a
  | .global _ names, _, _, a => by
      simp only [collectS, ownBindsS, ownLeaksS, ownDeclsS]
      exact ⟨by simp, by simp, by simp, rfl, rfl, ⟨[], by simp, Covers.nil _⟩⟩
  | .nonlocal _ names, _, _, a => by
      simp only [collectS, ownBindsS, ownLeaksS, ownDeclsS]
      exact ⟨by simp, by simp, by simp, rfl, rfl, ⟨[], by simp, Covers.nil _⟩⟩
  | .pass _, _, _, a => by simpa [collectS, ownBindsS, ownLeaksS, ownDeclsS] using CollectsS.refl a
  | .break_ _, _, _, a => by simpa [collectS, ownBindsS, ownLeaksS, ownDeclsS] using CollectsS.refl a
  | .continue_ _, _, _, a => by simpa [collectS, ownBindsS, ownLeaksS, ownDeclsS] using CollectsS.refl a
  | .other _ _ es bs, hf, hs, a => by
      simp only [FragS, Bool.and_eq_true] at hf
      simp only [SpecOkS] at hs
      simpa [collectS, ownBindsS, ownLeaksS, ownDeclsS] using (collectEs_spec es hf.1 a).toS.trans (collectSs_spec bs hf.2 hs _)
  | .try_ _ b h o f, hf, hs, a => by
      simp only [FragS, Bool.and_eq_true] at hf
      simp only [SpecOkS, Bool.and_eq_true] at hs
      simpa [collectS, ownBindsS, ownLeaksS, ownDeclsS] using
        (((collectSs_spec b hf.1.1.1 hs.1.1.1 a).trans (collectSs_spec h hf.1.1.2 hs.1.1.2 _)).trans
          (collectSs_spec o hf.1.2 hs.1.2 _)).trans (collectSs_spec f hf.2 hs.2 _)
  | .handler _ ty name body, hf, hs, a => by
      simp only [FragS, Bool.and_eq_true] at hf
      simp only [SpecOkS, Bool.and_eq_true, List.isEmpty_iff] at hs
      obtain ⟨hn, hb⟩ := hs
      subst hn
      simpa [collectS, ownBindsS, ownLeaksS, ownDeclsS] using (collectEs_spec ty hf.1 a).toS.trans (collectSs_spec body hf.2 hb _)
  | .with_ _ items body _, hf, hs, a => by
      simp only [FragS, Bool.and_eq_true] at hf
      simp only [SpecOkS] at hs
      simpa [collectS, ownBindsS, ownLeaksS, ownDeclsS] using
        (collectEs_spec items hf.1.1.2 a).toS.trans (collectSs_spec body hf.2 hs _)
  | .if_ _ t body orelse, hf, hs, a => by
      simp only [FragS, Bool.and_eq_true] at hf
      simp only [SpecOkS, Bool.and_eq_true] at hs
      simpa [collectS, ownBindsS, ownLeaksS, ownDeclsS] using
        ((collectE_spec t hf.1.1 a).toS.trans (collectSs_spec body hf.1.2 hs.1 _)).trans (collectSs_spec orelse hf.2 hs.2 _)
  | .while_ _ t body orelse, hf, hs, a => by
      simp only [FragS, Bool.and_eq_true] at hf
      simp only [SpecOkS, Bool.and_eq_true] at hs
      simpa [collectS, ownBindsS, ownLeaksS, ownDeclsS] using
        ((collectE_spec t hf.1.1 a).toS.trans (collectSs_spec body hf.1.2 hs.1 _)).trans (collectSs_spec orelse hf.2 hs.2 _)
  | .for_ _ t it body orelse extra _, hf, hs, a => by
      simp only [FragS, Bool.and_eq_true, List.isEmpty_iff] at hf
      obtain ⟨⟨⟨⟨⟨_, hx⟩, ht⟩, hit⟩, hb⟩, ho⟩ := hf
      subst hx
      simp only [SpecOkS, Bool.and_eq_true] at hs
      simpa [collectS, collectEs, ownBindsS, ownLeaksS, ownDeclsS] using
        ((((collectE_spec t ht a).trans (collectE_spec it hit _)).toS).trans (collectSs_spec body hb hs.1 _)).trans
          (collectSs_spec orelse ho hs.2 _)
  | .classDef i name bases kws body decos, hf, hs, a => by
      simp only [FragS, Bool.and_eq_true] at hf
      obtain ⟨⟨⟨hb, hk⟩, hd⟩, hbody⟩ := hf
      have hn : CollectsE a (a.bind name) [name] [] :=
        ⟨by simp [Acc.bind], rfl, rfl, rfl, rfl, ⟨[], by simp [Acc.bind], Covers.nil _⟩⟩
      have h1 := ((hn.trans (collectEs_spec bases hb _)).trans (collectEs_spec kws hk _)).trans (collectEs_spec decos hd _)
      obtain ⟨n, e, c⟩ := h1.children
      simp only [collectS, ownBindsS, ownLeaksS, ownDeclsS]
      refine ⟨fun x => by simp [Acc.child, h1.binds]; grind, by simp [Acc.child, h1.globals],
        by simp [Acc.child, h1.nonlocals], by simp [Acc.child, h1.params], by simp [Acc.child, h1.walrus], ?_⟩
      refine ⟨n ++ [(collectSs body {}).toBlock i .class_ name], by simp [Acc.child, e], ?_⟩
      intro enc x hx hne
      rw [leaksBs_append]
      exact List.mem_append_left _ (c enc x (by simp at hx ⊢; grind) hne)
  | .functionDef i name args body decos returns _, hf, hs, a => by
      cases args with
      | arguments ai po ar va ko kd kw df =>
        simp only [FragS, Bool.and_eq_true, Bool.not_eq_true'] at hf
        obtain ⟨⟨⟨⟨_, ⟨⟨⟨⟨⟨⟨hpo, har⟩, hva⟩, hko⟩, hkw⟩, hkd⟩, hdf⟩⟩, hdec⟩, hret⟩, hbody⟩ := hf
        simp only [SpecOkS] at hs
        have hann : Spec.argAnnotations (po ++ ar ++ va ++ ko ++ kw) = [] :=
          argAnnotations_plain _ (by simp [List.all_append, hpo, har, hva, hko, hkw])
        have hn : CollectsE a (a.bind name) [name] [] :=
          ⟨by simp [Acc.bind], rfl, rfl, rfl, rfl, ⟨[], by simp [Acc.bind], Covers.nil _⟩⟩
        have h1 := (((hn.trans (collectEs_spec df hdf _)).trans (collectEs_spec kd hkd _)).trans
          (collectEs_spec returns hret _)).trans (collectEs_spec decos hdec _)
        obtain ⟨n, e, c⟩ := h1.children
        simp only [collectS, ownBindsS, ownLeaksS, ownDeclsS, hann, collectEs]
        refine ⟨fun x => by simp [Acc.child, h1.binds]; grind, by simp [Acc.child, h1.globals],
          by simp [Acc.child, h1.nonlocals], by simp [Acc.child, h1.params], by simp [Acc.child, h1.walrus], ?_⟩
        refine ⟨n ++ [(collectSs body { params := (po ++ ar ++ ko ++ va ++ kw).filterMap paramName }).toBlock i .function name],
          by simp [Acc.child, e], ?_⟩
        intro enc x hx hne
        rw [leaksBs_append]
        simp only [List.mem_append] at hx ⊢
        rcases hx with (((hx | hx) | hx) | hx) | hx
        · right
          simp only [leaksBs, Acc.toBlock, leaksB, List.append_nil, List.mem_append]
          left
          simp only [beq_self_eq_true, Bool.true_or, ↓reduceIte, List.mem_filter]
          rw [(collectSs_spec body hbody hs _).params]
          exact ⟨(mem_specParams_iff po ar va ko kw x).mpr hx, by simpa using hne⟩
        · exact Or.inl (c enc x (by simp; grind) hne)
        · exact Or.inl (c enc x (by simp; grind) hne)
        · exact Or.inl (c enc x (by simp; grind) hne)
        · exact Or.inl (c enc x (by simp; grind) hne)
      | _ => simp [FragS] at hf
theorem collectSs_spec : (ss : List Stmt) → FragSs ss = true → SpecOkSs ss = true → (a : Acc) →
    CollectsS a (collectSs ss a) (ownBindsSs ss) (ownLeaksSs ss) (ownDeclsSs true ss) (ownDeclsSs false ss)
  | [], _, _, a => by simpa [collectSs, ownBindsSs, ownLeaksSs, ownDeclsSs] using CollectsS.refl a
  | s :: rest, hf, hs, a => by
      simp only [FragSs, Bool.and_eq_true] at hf
      simp only [SpecOkSs, Bool.and_eq_true] at hs
      simpa [collectSs, ownBindsSs, ownLeaksSs, ownDeclsSs] using
        (collectS_spec s hf.1 hs.1 a).trans (collectSs_spec rest hf.2 hs.2 _)
end


/-! ### what the analysis records for a function definition -/

theorem top_addBound (st : St) (q : QN) (h : st.stack ≠ []) : (st.addBound q).top.params = st.top.params := by
  simp [St.addBound, St.modTop_top _ _ h]

theorem top_addParam (st : St) (q : QN) (o : Nat) (h : st.stack ≠ []) :
    (st.addParam q o).top.params = (q, o) :: st.top.params := by
  simp [St.addParam, St.modTop_top _ _ h]

theorem visitArgs_params (as : List Expr) (ha : as.all isPlainArg = true) {st : St} (h : Plain st) :
    ∀ q, q ∈ (visitEs as st).top.paramNames ↔ q ∈ argNames as ∨ q ∈ st.top.paramNames := by
  induction as generalizing st with
  | nil => simp [visitEs, argNames]
  | cons a rest ih =>
    simp only [List.all_cons, Bool.and_eq_true] at ha
    match a, ha.1 with
    | .arg _ n [], _ =>
      intro q
      simp only [visitEs, visitE]
      have h1 := Adds.addBound h (.sym n)
      have h2 := h1.trans (Adds.addParam h1.plain (.sym n) st.ownerId)
      rw [ih ha.2 h2.plain q]
      simp only [Scope.paramNames, top_addParam _ _ _ h1.ne, top_addBound _ _ h.ne, argNames, List.filterMap_cons,
        List.map_cons, List.mem_cons]
      grind

theorem visitParams_params {po ar va ko kw : List Expr} (hp : PlainParams po ar va ko kw) {st : St} (h : Plain st) :
    ∀ q, q ∈ (visitParams po ar va ko kw st).top.paramNames ↔ q ∈ paramNames po ar va ko kw ∨ q ∈ st.top.paramNames := by
  intro q
  have P1 := visitArgs_adds po hp.po h
  have P2 := visitArgs_adds ar hp.ar P1.plain
  have P3 := visitArgs_adds va hp.va (P1.trans P2).plain
  have P4 := visitArgs_adds ko hp.ko ((P1.trans P2).trans P3).plain
  unfold visitParams
  rw [visitArgs_params kw hp.kw (((P1.trans P2).trans P3).trans P4).plain, visitArgs_params ko hp.ko ((P1.trans P2).trans P3).plain,
      visitArgs_params va hp.va (P1.trans P2).plain, visitArgs_params ar hp.ar P1.plain, visitArgs_params po hp.po h]
  simp only [paramNames, List.mem_append]
  grind

/-- What `visit_FunctionDef` leaves on the annotations of a (non-async) function definition of the fragment:
    the function's ARGS_AND_BODY scope is the last annotation made, its sets are the parameters plus the
    effect of the body; the `arguments` node carries a scope whose `params` are the parameters. -/
theorem functionDef_recorded (i : Nat) (name : String) (ai : Nat) (po ar va ko kd kw df : List Expr) (body : List Stmt)
    (decos returns : List Expr) (st : St) (fns : List FnCtx) (p : PlainS st fns)
    (hf : FragS (.functionDef i name (.arguments ai po ar va ko kd kw df) body decos returns false) = true) :
    ∃ cI ca rest,
      (visitS (.functionDef i name (.arguments ai po ar va ko kd kw df) body decos returns false) st).annos
        = (i, .argsAndBodyScope, cI) :: rest ∧
      (ai, AnnoKey.scope, ca) ∈ rest ∧
      Popped cI true ((({ bound := paramNames po ar va ko kw } : Eff).exported false) ++
                      ((effSs (.fn i name :: fns) body).exported false)) ∧
      (∀ q, q ∈ ca.paramNames ↔ q ∈ paramNames po ar va ko kw) ∧
      (∃ sb, PlainS sb (.fn i name :: fns) ∧ ∀ x, x ∈ (visitSs body sb).annos → x ∈ rest) := by
  simp only [FragS, Bool.and_eq_true, Bool.not_eq_true'] at hf
  obtain ⟨⟨⟨⟨_, ⟨⟨⟨⟨⟨⟨hpo, har⟩, hva⟩, hko⟩, hkw⟩, hkd⟩, hdf⟩⟩, hdec⟩, hret⟩, hbody⟩ := hf
  have hpp : PlainParams po ar va ko kw := ⟨hpo, har, hva, hko, hkw⟩
  simp only [visitS, Bool.false_eq_true, ↓reduceIte]
  rw [show ∀ s : St, (visitEs kw (visitEs ko (visitEs va (visitEs ar (visitEs po (s.setAnnoOnly true)))))).setAnnoOnly false
        = (visitParams po ar va ko kw (s.setAnnoOnly true)).setAnnoOnly false from fun _ => rfl,
      show ∀ s : St, visitEs kw (visitEs ko (visitEs va (visitEs ar (visitEs po s)))) = visitParams po ar va ko kw s
        from fun _ => rfl]
  rw [show ∀ x : St, x.popFn.annos = x.annos from fun _ => rfl]
  have p0 := p.pushFn (.fn i name)
  generalize st.pushFn (.fn i name) = s0 at p0 ⊢
  have p1 := p0.enter false none
  have A1 := visitEs_adds decos _ p1.plain hdec _ false false p1.ctx
  have A2 := A1.trans (returnsStep_adds returns (A1.plainS p1)
    (fun s hs hc => visitEs_adds returns s hs hret _ false true hc))
  have A3 := A2.trans (visitEs_adds kd _ A2.plain hkd _ false false (A2.inCtx p1.ctx))
  have A4 := A3.trans (visitEs_adds df _ A3.plain hdf _ false false (A3.inCtx p1.ctx))
  have A5 := A4.trans (visitParams_adds hpp A4.plain)
  rw [visitParams_annoOnly hpp A4.plain]
  have A6 := A5.trans (Adds.addModified A5.plain (.sym name))
  have A7 := A6.trans (Adds.addBound A6.plain (.sym name))
  have S1 := Adds.scopedAdds p0.plain false none A7 [(i, .scope)]
  have q := S1.plainS p0
  have qI := q.enter true (some name)
  have hfresh := St.enter_plain qI.plain false (some name)
  have B1 := visitParams_adds hpp hfresh
  have SBa := scoped_block qI.plain false (some name) B1 [(ai, .scope)]
  have qB := SBa.adds.plainS qI
  have B2 := visitSs_adds body _ _ (qB.enter false (some name)) hbody
  have SBb := scoped_block qB.plain false (some name) B2 [(i, .bodyScope)]
  have SBc := scoped_block q.plain true (some name) (SBa.adds.trans SBb.adds) [(i, .argsAndBodyScope)]
  obtain ⟨ca, -, hxa, hca⟩ := SBa.popped
  obtain ⟨cb, -, hxb, -⟩ := SBb.popped
  obtain ⟨cI, hcI, hxI, -⟩ := SBc.popped
  obtain ⟨nb, eb⟩ := B2.ext
  refine ⟨cI, ca, ?rest, ?hd, ?mem, hcI, ?par, ⟨_, qB.enter false (some name), ?sub⟩⟩
  case hd => rw [hxI]; rfl
  case sub =>
    intro x hx
    rw [hxb]
    simp only [List.append_eq, List.nil_append, List.mem_append]
    exact Or.inr hx
  case mem =>
    rw [hxb]
    apply List.mem_append_right
    rw [eb]
    apply List.mem_append_right
    rw [St.enter_annos, hxa]
    simp
  case par =>
    intro x
    rw [← hca, visitParams_params hpp hfresh x]
    simp [Scope.paramNames, St.top, St.enter]

/-! ### what the specification says about the top-level function -/

theorem blockOf_functionDef (i : Nat) (name : String) (ai : Nat) (po ar va ko kd kw df : List Expr) (body : List Stmt)
    (decos returns : List Expr) (isAsync : Bool) :
    blockOf (.functionDef i name (.arguments ai po ar va ko kd kw df) body decos returns isAsync) =
      some ((collectSs body { params := (po ++ ar ++ ko ++ va ++ kw).filterMap paramName }).toBlock i .function name) := by
  simp [blockOf, collectS, Acc.child, List.getLast?_concat]

/-- The symbol table of a block analysed at the top level (nothing visible from outside). -/
theorem analyzeBlock_head (id : Nat) (kind : BlockKind) (name : String)
    (params binds globals nonlocals uses walrus : List String) (children : List Block) :
    ∃ info rest, (analyzeBlock (.mk id kind name params binds globals nonlocals uses walrus children) 0 [] []).1 = info :: rest ∧
      info.id = id ∧
      (∀ x, x ∈ info.params ↔ x ∈ params) ∧
      (∀ x, x ∈ info.locals ↔ (x ∈ params ∨ x ∈ binds) ∧ x ∉ globals ∧ x ∉ walrus ∧ x ∉ nonlocals) ∧
      (∀ x, x ∈ info.declaredGlobals ↔ x ∈ globals) ∧
      (∀ x, x ∈ info.declaredNonlocals ↔ x ∉ globals ∧ (x ∈ nonlocals ∨ x ∈ walrus)) ∧
      (∀ x, x ∈ info.frees ↔ x ∉ globals ∧ (x ∈ nonlocals ∨ x ∈ walrus)) := by
  simp only [analyzeBlock]
  refine ⟨_, _, rfl, rfl, ?_, ?_, ?_, ?_, ?_⟩
  · intro x
    simp only [BlockInfo.params, BlockInfo.names, List.filter_append, List.map_append, List.mem_append, List.mem_map,
      List.mem_filter, ownNames, dedup, List.mem_eraseDups, Block.params, Block.binds, Block.globals, Block.nonlocals,
      Block.uses, Block.walrus]
    constructor
    · rintro (⟨sy, ⟨⟨n, hn, rfl⟩, hp⟩, rfl⟩ | ⟨sy, ⟨⟨n, hn, rfl⟩, hp⟩, rfl⟩)
      · simpa using hp
      · simp at hp
    · intro hx
      exact Or.inl ⟨_, ⟨⟨x, by simp [hx], rfl⟩, by simpa using hx⟩, rfl⟩
  · intro x
    simp only [BlockInfo.locals, BlockInfo.names, List.filter_append, List.map_append, List.mem_append, List.mem_map,
      List.mem_filter, ownNames, dedup, List.mem_eraseDups, Block.params, Block.binds, Block.globals, Block.nonlocals,
      Block.uses, Block.walrus, scopeOf]
    constructor
    · rintro (⟨sy, ⟨⟨n, hn, rfl⟩, hp⟩, rfl⟩ | ⟨sy, ⟨⟨n, hn, rfl⟩, hp⟩, rfl⟩)
      · simp only at hp ⊢
        by_cases h1 : n ∈ globals <;> by_cases h2 : n ∈ walrus <;> by_cases h3 : n ∈ nonlocals <;>
          by_cases h4 : n ∈ params <;> by_cases h5 : n ∈ binds <;> simp_all
      · simp at hp
    · rintro ⟨hpb, hg, hw, hn⟩
      refine Or.inl ⟨_, ⟨⟨x, by rcases hpb with h | h <;> simp [h], rfl⟩, ?_⟩, rfl⟩
      rcases hpb with h | h <;> simp [hg, hw, hn, h]
  · intro x
    simp only [BlockInfo.declaredGlobals, BlockInfo.names, List.filter_append, List.map_append, List.mem_append, List.mem_map,
      List.mem_filter, ownNames, dedup, List.mem_eraseDups, Block.params, Block.binds, Block.globals, Block.nonlocals,
      Block.uses, Block.walrus, scopeOf]
    constructor
    · rintro (⟨sy, ⟨⟨n, hn, rfl⟩, hp⟩, rfl⟩ | ⟨sy, ⟨⟨n, hn, rfl⟩, hp⟩, rfl⟩)
      · simp only at hp ⊢
        by_cases h1 : n ∈ globals <;> by_cases h2 : n ∈ walrus <;> by_cases h3 : n ∈ nonlocals <;>
          by_cases h4 : n ∈ params <;> by_cases h5 : n ∈ binds <;> simp_all
      · simp at hp
    · intro hx
      exact Or.inl ⟨_, ⟨⟨x, by simp [hx], rfl⟩, by simp [hx]⟩, rfl⟩
  · intro x
    simp only [BlockInfo.declaredNonlocals, BlockInfo.names, List.filter_append, List.map_append, List.mem_append, List.mem_map,
      List.mem_filter, ownNames, dedup, List.mem_eraseDups, Block.params, Block.binds, Block.globals, Block.nonlocals,
      Block.uses, Block.walrus, scopeOf]
    constructor
    · rintro (⟨sy, ⟨⟨n, hn, rfl⟩, hp⟩, rfl⟩ | ⟨sy, ⟨⟨n, hn, rfl⟩, hp⟩, rfl⟩)
      · simp only at hp ⊢
        by_cases h1 : n ∈ globals <;> by_cases h2 : n ∈ walrus <;> by_cases h3 : n ∈ nonlocals <;>
          by_cases h4 : n ∈ params <;> by_cases h5 : n ∈ binds <;> simp_all
      · simp at hp
    · rintro ⟨hg, hnw⟩
      refine Or.inl ⟨_, ⟨⟨x, by rcases hnw with h | h <;> simp [h], rfl⟩, ?_⟩, rfl⟩
      rcases hnw with h | h <;> by_cases h2 : x ∈ walrus <;> by_cases h3 : x ∈ nonlocals <;> simp_all
  · intro x
    simp only [BlockInfo.frees, BlockInfo.names, List.filter_append, List.map_append, List.mem_append, List.mem_map,
      List.mem_filter, ownNames, dedup, List.mem_eraseDups, Block.params, Block.binds, Block.globals, Block.nonlocals,
      Block.uses, Block.walrus, scopeOf]
    constructor
    · rintro (⟨sy, ⟨⟨n, hn, rfl⟩, hp⟩, rfl⟩ | ⟨sy, ⟨⟨n, hn, rfl⟩, hp⟩, rfl⟩)
      · simp only at hp ⊢
        by_cases h1 : n ∈ globals <;> by_cases h2 : n ∈ walrus <;> by_cases h3 : n ∈ nonlocals <;>
          by_cases h4 : n ∈ params <;> by_cases h5 : n ∈ binds <;> simp_all
      · simp at hn
    · rintro ⟨hg, hnw⟩
      refine Or.inl ⟨_, ⟨⟨x, by rcases hnw with h | h <;> simp [h], rfl⟩, ?_⟩, rfl⟩
      rcases hnw with h | h <;> by_cases h2 : x ∈ walrus <;> by_cases h3 : x ∈ nonlocals <;> simp_all


end Malt.Analysis
