import MaltModel.Proofs.C05Frame
import MaltModel.Proofs.C05Owners
/-!
# C05: frame conditions for the `finally` machinery

`FrameX K b b'` complements `Frame K b b'` (C05Frame) with what the induction through `finally` needs:
`finally_section_subgraphs` entries of finished sections and `finally_sections` entries of registered jumps are stable
outside the (tagged) keys `K`; members of `exits`/`continues` lists are CFG nodes, and new members are nodes of `K`;
`errors` only grows; a `finally` section that waits for its first node keeps waiting or gets started.
-/
namespace Malt.Cfg
open Malt.Py

theorem sk_ne_nk (i j : Nat) : sk i ≠ nk j := by unfold sk nk; omega
theorem ck_ne_nk (i j : Nat) : ck i ≠ nk j := by unfold ck nk; omega
theorem nk_inj {i j : Nat} (h : nk i = nk j) : i = j := by unfold nk at h; omega

/-- (tagged) ids already used by the builder: CFG nodes and finished/entered `finally` sections -/
def Old (b : B) : List Nat :=
  b.nodes.map nk ++ (b.finallySub.map (fun p => sk p.1) ++ (b.exits.map (fun p => sk p.1) ++ b.continues.map (fun p => sk p.1)))

/-- members of the jump lists are indexed CFG nodes -/
structure ListsInNodes (b : B) : Prop where
  exits : ∀ k l, aget k b.exits = some l → ∀ x, x ∈ l → x ∈ b.nodes
  continues : ∀ k l, aget k b.continues = some l → ∀ x, x ∈ l → x ∈ b.nodes

/-- the `finally` section `g` awaits its first node -/
def Wait (b : B) (g : Nat) : Prop := g ∈ b.pendingFinally ∧ ∃ x e, aget g b.finallySub = some (x, e)
/-- the `finally` section `g` has its first node and is no longer pending -/
def Started (b : B) (g : Nat) : Prop := g ∉ b.pendingFinally ∧ ∃ beg e, aget g b.finallySub = some (some beg, e)

structure FrameX (K : List Nat) (b b' : B) : Prop where
  old : ∀ k, k ∈ Old b' → k ∈ Old b ∨ k ∈ K
  lin : ListsInNodes b → ListsInNodes b'
  fsub : ∀ g, sk g ∉ K → g ∉ b.pendingFinally → aget g b'.finallySub = aget g b.finallySub ∧ g ∉ b'.pendingFinally
  fsec : ∀ j, nk j ∉ K → aget j b'.finallySections = aget j b.finallySections
  exitsO : ∀ k l', aget k b'.exits = some l' → ∀ x, x ∈ l' → nk x ∈ K ∨ ∃ l, aget k b.exits = some l ∧ x ∈ l
  contO : ∀ k l', aget k b'.continues = some l' → ∀ x, x ∈ l' → nk x ∈ K ∨ ∃ l, aget k b.continues = some l ∧ x ∈ l
  errors : ∀ x, x ∈ b.errors → x ∈ b'.errors
  wait : ∀ g, sk g ∉ K → Wait b g → Wait b' g ∨ Started b' g
  nodes : ∀ x, x ∈ b.nodes → x ∈ b'.nodes
  fdir : ∀ g, sk g ∉ K → aget g b'.finallyDirect = aget g b.finallyDirect
  fends : ∀ g, sk g ∉ K → (aget g b'.finallySub).map (·.2) = (aget g b.finallySub).map (·.2)

theorem FrameX.refl (K : List Nat) (b : B) : FrameX K b b :=
  ⟨fun _ h => Or.inl h, id, fun _ _ h => ⟨rfl, h⟩, fun _ _ => rfl, fun k l' h x hx => Or.inr ⟨l', h, hx⟩,
   fun k l' h x hx => Or.inr ⟨l', h, hx⟩, fun _ h => h, fun _ _ h => Or.inl h, fun _ h => h, fun _ _ => rfl, fun _ _ => rfl⟩

theorem started_mono {K : List Nat} {b b' : B} (h : FrameX K b b') {g : Nat} (hg : sk g ∉ K) (hs : Started b g) : Started b' g := by
  obtain ⟨h1, beg, e, h2⟩ := hs
  obtain ⟨e1, e2⟩ := h.fsub g hg h1
  exact ⟨e2, beg, e, by rw [e1]; exact h2⟩

theorem FrameX.trans {K : List Nat} {a b c : B} (h1 : FrameX K a b) (h2 : FrameX K b c) : FrameX K a c := by
  refine ⟨?_, fun h => h2.lin (h1.lin h), ?_, fun j hj => by rw [h2.fsec j hj, h1.fsec j hj], ?_, ?_,
    fun x h => h2.errors x (h1.errors x h), ?_, fun x h => h2.nodes x (h1.nodes x h),
    fun g hg => by rw [h2.fdir g hg, h1.fdir g hg], fun g hg => by rw [h2.fends g hg, h1.fends g hg]⟩
  · intro k hk
    rcases h2.old k hk with hk | hk
    · exact h1.old k hk
    · exact Or.inr hk
  · intro g hg hp
    obtain ⟨e1, p1⟩ := h1.fsub g hg hp
    obtain ⟨e2, p2⟩ := h2.fsub g hg p1
    exact ⟨by rw [e2, e1], p2⟩
  · intro k l'' hl x hx
    rcases h2.exitsO k l'' hl x hx with h | ⟨l', hl', hx'⟩
    · exact Or.inl h
    · exact h1.exitsO k l' hl' x hx'
  · intro k l'' hl x hx
    rcases h2.contO k l'' hl x hx with h | ⟨l', hl', hx'⟩
    · exact Or.inl h
    · exact h1.contO k l' hl' x hx'
  · intro g hg hw
    rcases h1.wait g hg hw with hw | hs
    · exact h2.wait g hg hw
    · exact Or.inr (started_mono h2 hg hs)

theorem FrameX.weaken {K K' : List Nat} {b b' : B} (h : FrameX K b b') (hs : ∀ k, k ∈ K → k ∈ K') : FrameX K' b b' :=
  ⟨fun k hk => (h.old k hk).imp id (hs k), h.lin, fun g hg => h.fsub g (fun h' => hg (hs _ h')),
   fun j hj => h.fsec j (fun h' => hj (hs _ h')), fun k l' hl x hx => (h.exitsO k l' hl x hx).imp (hs _) id,
   fun k l' hl x hx => (h.contO k l' hl x hx).imp (hs _) id, h.errors, fun g hg => h.wait g (fun h' => hg (hs _ h')), h.nodes, fun g hg => h.fdir g (fun h' => hg (hs _ h')), fun g hg => h.fends g (fun h' => hg (hs _ h'))⟩

/-- a step that touches none of the fields concerned -/
theorem FrameX.of_same {K : List Nat} {b b' : B} (h1 : b'.nodes = b.nodes) (h2 : b'.finallySub = b.finallySub)
    (h3 : b'.pendingFinally = b.pendingFinally) (h4 : b'.finallySections = b.finallySections) (h5 : b'.exits = b.exits)
    (h6 : b'.continues = b.continues) (h7 : b'.errors = b.errors) (h8 : b'.finallyDirect = b.finallyDirect) : FrameX K b b' := by
  refine ⟨fun k hk => Or.inl (by simpa [Old, h1, h2, h5, h6] using hk), ?_, fun g _ hp => ⟨by rw [h2], by rw [h3]; exact hp⟩,
    fun j _ => by rw [h4], fun k l' hl x hx => Or.inr ⟨l', by rw [← h5]; exact hl, hx⟩,
    fun k l' hl x hx => Or.inr ⟨l', by rw [← h6]; exact hl, hx⟩, fun x hx => by rw [h7]; exact hx,
    fun g _ hw => Or.inl (by simpa [Wait, h2, h3] using hw), fun x hx => by rw [h1]; exact hx, fun g _ => by rw [h8], fun g _ => by rw [h2]⟩
  intro hl
  exact ⟨fun k l h x hx => by rw [h1]; exact hl.exits k l (by rw [← h5]; exact h) x hx,
         fun k l h x hx => by rw [h1]; exact hl.continues k l (by rw [← h6]; exact h) x hx⟩

theorem old_of_parts {K : List Nat} {b b' : B}
    (h1 : ∀ x, x ∈ b'.nodes → x ∈ b.nodes ∨ nk x ∈ K)
    (h2 : ∀ k, k ∈ b'.finallySub.map (fun p => sk p.1) → k ∈ b.finallySub.map (fun p => sk p.1) ∨ k ∈ K)
    (h3 : ∀ k, k ∈ b'.exits.map (fun p => sk p.1) → k ∈ b.exits.map (fun p => sk p.1) ∨ k ∈ K)
    (h4 : ∀ k, k ∈ b'.continues.map (fun p => sk p.1) → k ∈ b.continues.map (fun p => sk p.1) ∨ k ∈ K) :
    ∀ k, k ∈ Old b' → k ∈ Old b ∨ k ∈ K := by
  intro k hk
  simp only [Old, List.mem_append] at hk ⊢
  rcases hk with hk | hk | hk | hk
  · obtain ⟨x, hx, rfl⟩ := List.mem_map.mp hk
    rcases h1 x hx with h | h
    · exact Or.inl (Or.inl (List.mem_map.mpr ⟨x, h, rfl⟩))
    · exact Or.inr h
  · exact (h2 k hk).elim (fun h => Or.inl (Or.inr (Or.inl h))) Or.inr
  · exact (h3 k hk).elim (fun h => Or.inl (Or.inr (Or.inr (Or.inl h)))) Or.inr
  · exact (h4 k hk).elim (fun h => Or.inl (Or.inr (Or.inr (Or.inr h)))) Or.inr

theorem mem_keys_adel {β} {k : Nat} {m : List (Nat × β)} {x : Nat}
    (h : x ∈ (adel k m).map (fun p => sk p.1)) : x ∈ m.map (fun p => sk p.1) := by
  simp only [List.mem_map] at h ⊢
  obtain ⟨p, hp, rfl⟩ := h
  simp only [adel, List.mem_filter] at hp
  exact ⟨p, hp.1, rfl⟩

theorem mem_keys_aset' {β} {k : Nat} {v : β} {m : List (Nat × β)} {x : Nat}
    (h : x ∈ (aset k v m).map (fun p => sk p.1)) : x = sk k ∨ x ∈ m.map (fun p => sk p.1) := by
  simp only [List.mem_map] at h
  obtain ⟨p, hp, rfl⟩ := h
  simp only [aset, adel, List.mem_cons, List.mem_filter] at hp
  rcases hp with hp | hp
  · left; rw [hp]
  · right; exact List.mem_map.mpr ⟨p, hp.1, rfl⟩

theorem key_of_aget {β} {k : Nat} {v : β} {m : List (Nat × β)} (h : aget k m = some v) : sk k ∈ m.map (fun p => sk p.1) := by
  induction m with
  | nil => simp [aget] at h
  | cons p m ih =>
    simp only [aget, List.lookup] at h
    split at h
    · rename_i heq
      have : k = p.1 := by simpa using heq
      simp [this]
    · exact List.mem_cons_of_mem _ (ih h)

theorem frameX_foldl {α} (K) (f : B → α → B) (hf : ∀ b x, FrameX K b (f b x)) : ∀ (l : List α) (b : B), FrameX K b (l.foldl f b) := by
  intro l
  induction l with
  | nil => intro b; exact FrameX.refl K b
  | cons x l ih => intro b; exact FrameX.trans (hf b x) (ih _)

namespace B

theorem fx_fail (K) (b : B) (m : String) : FrameX K b (b.fail m) := FrameX.of_same rfl rfl rfl rfl rfl rfl rfl rfl
theorem fx_check (K) (b : B) (c : Bool) (m : String) : FrameX K b (b.check c m) :=
  FrameX.of_same (by simp) (by simp) (by simp) (by simp) (by simp) (by simp) (by simp) (by simp)
theorem fx_connect (K) (b : B) (f : List Nat) (n : Nat) : FrameX K b (b.connect f n) := FrameX.of_same rfl rfl rfl rfl rfl rfl rfl rfl
theorem fx_setLeavesFresh (K) (b : B) (s : List Nat) : FrameX K b (b.setLeavesFresh s) := FrameX.of_same rfl rfl rfl rfl rfl rfl rfl rfl
theorem fx_leavesUnion (K) (b : B) (s : List Nat) : FrameX K b (b.leavesUnion s) := FrameX.of_same rfl rfl rfl rfl rfl rfl rfl rfl
theorem fx_setLeavesRef (K) (b : B) (r : Nat) : FrameX K b (b.setLeavesRef r) := FrameX.of_same rfl rfl rfl rfl rfl rfl rfl rfl
theorem fx_setActive (K) (b : B) (l : List Nat) : FrameX K b (b.setActive l) := FrameX.of_same rfl rfl rfl rfl rfl rfl rfl rfl
theorem fx_setRaises (K) (b : B) (r : List (Nat × List Nat)) : FrameX K b (b.setRaises r) := FrameX.of_same rfl rfl rfl rfl rfl rfl rfl rfl
theorem fx_putSectionEntry (K) (b : B) (k e : Nat) : FrameX K b (b.putSectionEntry k e) := FrameX.of_same rfl rfl rfl rfl rfl rfl rfl rfl
theorem fx_putCondLeaves (K) (b : B) (k : Nat) (l : List Nat) : FrameX K b (b.putCondLeaves k l) := FrameX.of_same rfl rfl rfl rfl rfl rfl rfl rfl
theorem fx_putCondEntry (K) (b : B) (k r : Nat) : FrameX K b (b.putCondEntry k r) := FrameX.of_same rfl rfl rfl rfl rfl rfl rfl rfl
theorem fx_delCondKeys (K) (b : B) (k : Nat) : FrameX K b (b.delCondKeys k) := FrameX.of_same rfl rfl rfl rfl rfl rfl rfl rfl

theorem fx_pushError (K) (b : B) (n : Nat) : FrameX K b (b.pushError n) := by
  exact ⟨fun k hk => Or.inl hk, fun hl => ⟨hl.exits, hl.continues⟩, fun g _ hp => ⟨rfl, hp⟩, fun j _ => rfl,
    fun k l' hl x hx => Or.inr ⟨l', hl, hx⟩, fun k l' hl x hx => Or.inr ⟨l', hl, hx⟩,
    fun x hx => List.mem_append.mpr (Or.inl hx), fun g _ hw => Or.inl hw, fun x h => h, fun _ _ => rfl, fun _ _ => rfl⟩

end B

theorem aget_map {β} (f : Nat × β → Nat × β) (hf : ∀ p, (f p).1 = p.1) (k : Nat) :
    ∀ m : List (Nat × β), aget k (m.map f) = (aget k m).map (fun v => (f (k, v)).2) := by
  intro m
  induction m with
  | nil => rfl
  | cons p m ih =>
    simp only [List.map_cons, aget, List.lookup]
    rw [hf p]
    by_cases h : (k == p.1) = true
    · have hk : k = p.1 := by simpa using h
      simp only [h, Option.map_some]
      subst hk
      rfl
    · have h' : (k == p.1) = false := by simpa using h
      simp only [h']
      exact ih

theorem map_sk_keys {β} (f : Nat × β → Nat × β) (hf : ∀ p, (f p).1 = p.1) (m : List (Nat × β)) :
    (m.map f).map (fun p => sk p.1) = m.map (fun p => sk p.1) := by
  simp [List.map_map, Function.comp_def, hf]

theorem mem_keys_aset {β} {k : Nat} {v : β} {m : List (Nat × β)} {x : Nat}
    (h : x ∈ (aset k v m).map (fun p => sk p.1)) : x = sk k ∨ x ∈ m.map (fun p => sk p.1) := by
  simp only [List.mem_map] at h
  obtain ⟨p, hp, rfl⟩ := h
  simp only [aset, adel, List.mem_cons, List.mem_filter] at hp
  rcases hp with hp | hp
  · left; rw [hp]
  · right; exact List.mem_map.mpr ⟨p, hp.1, rfl⟩

namespace B

theorem fx_pushNode (K) (b : B) (n : Nat) (hn : nk n ∈ K) : FrameX K b (b.pushNode n) := by
  have hf : ∀ p : Nat × (Option NodeId × Option Ref),
      ((fun p : Nat × (Option NodeId × Option Ref) => if b.pendingFinally.contains p.1 then (p.1, (some n, p.2.2)) else p) p).1 = p.1 := by
    intro p; simp only; split <;> rfl
  refine ⟨?_, ?_, ?_, fun j _ => rfl, fun k l' hl x hx => Or.inr ⟨l', hl, hx⟩, fun k l' hl x hx => Or.inr ⟨l', hl, hx⟩,
    fun x h => h, ?_, fun x hx => List.mem_append.mpr (Or.inl hx), fun _ _ => rfl, ?_⟩
  · refine old_of_parts ?_ ?_ (fun k hk => Or.inl hk) (fun k hk => Or.inl hk)
    · intro x hx
      have hx' : x ∈ b.nodes ++ [n] := hx
      rcases List.mem_append.mp hx' with h | h
      · exact Or.inl h
      · simp only [List.mem_singleton] at h; exact Or.inr (h ▸ hn)
    · intro k hk
      have hk' : k ∈ (b.finallySub.map (fun p : Nat × (Option NodeId × Option Ref) =>
          if b.pendingFinally.contains p.1 then (p.1, (some n, p.2.2)) else p)).map (fun p => sk p.1) := hk
      rw [map_sk_keys _ hf] at hk'
      exact Or.inl hk'
  · intro hl
    exact ⟨fun k l h x hx => List.mem_append.mpr (Or.inl (hl.exits k l h x hx)),
           fun k l h x hx => List.mem_append.mpr (Or.inl (hl.continues k l h x hx))⟩
  · intro g _ hp
    refine ⟨?_, by simp [pushNode]⟩
    show aget g (b.finallySub.map _) = _
    rw [aget_map _ hf]
    cases hg : aget g b.finallySub with
    | none => rfl
    | some v =>
      simp [hp]
  · intro g _ hw
    obtain ⟨hp, x, e, hx⟩ := hw
    refine Or.inr ⟨by simp [pushNode], n, e, ?_⟩
    show aget g (b.finallySub.map _) = _
    rw [aget_map _ hf, hx]
    simp [hp]
  · intro g _
    have e : (b.pushNode n).finallySub = b.finallySub.map (fun p : Nat × (Option NodeId × Option Ref) =>
        if b.pendingFinally.contains p.1 then (p.1, (some n, p.2.2)) else p) := rfl
    rw [e, aget_map _ hf]
    cases aget g b.finallySub with
    | none => rfl
    | some v => simp only [Option.map_some]; split <;> rfl

theorem fx_putFinallySections (K) (b : B) (n : Nat) (gs : List Nat) (hn : nk n ∈ K) : FrameX K b (b.putFinallySections n gs) := by
  refine ⟨fun k hk => Or.inl hk, fun hl => ⟨hl.exits, hl.continues⟩, fun g _ hp => ⟨rfl, hp⟩, ?_,
    fun k l' hl x hx => Or.inr ⟨l', hl, hx⟩, fun k l' hl x hx => Or.inr ⟨l', hl, hx⟩, fun x h => h, fun g _ hw => Or.inl hw, fun x h => h, fun _ _ => rfl, fun _ _ => rfl⟩
  intro j hj
  show aget j (aset n gs b.finallySections) = _
  rw [aget_aset, if_neg (fun e : j = n => hj (e ▸ hn))]

theorem fx_delFinallySections (K) (b : B) (n : Nat) (hn : nk n ∈ K) : FrameX K b (b.delFinallySections n) := by
  refine ⟨fun k hk => Or.inl hk, fun hl => ⟨hl.exits, hl.continues⟩, fun g _ hp => ⟨rfl, hp⟩, ?_,
    fun k l' hl x hx => Or.inr ⟨l', hl, hx⟩, fun k l' hl x hx => Or.inr ⟨l', hl, hx⟩, fun x h => h, fun g _ hw => Or.inl hw, fun x h => h, fun _ _ => rfl, fun _ _ => rfl⟩
  intro j hj
  show aget j (adel n b.finallySections) = _
  rw [aget_adel, if_neg (fun e : j = n => hj (e ▸ hn))]

theorem fx_putExits (K) (b : B) (k : Nat) (l : List Nat) (hk : sk k ∈ K ∨ sk k ∈ b.exits.map (fun p => sk p.1))
    (hm : ∀ x, x ∈ l → nk x ∈ K ∨ ∃ l0, aget k b.exits = some l0 ∧ x ∈ l0)
    (hn : ListsInNodes b → ∀ x, x ∈ l → x ∈ b.nodes) : FrameX K b (b.putExits k l) := by
  refine ⟨old_of_parts (fun x hx => Or.inl hx) (fun k hk => Or.inl hk)
      (fun x hx => (mem_keys_aset' hx).elim (fun e => hk.elim (fun h => Or.inr (e ▸ h)) (fun h => Or.inl (e ▸ h))) Or.inl)
      (fun k hk => Or.inl hk), ?_, fun g _ hp => ⟨rfl, hp⟩, fun j _ => rfl, ?_,
    fun k l' hl x hx => Or.inr ⟨l', hl, hx⟩, fun x h => h, fun g _ hw => Or.inl hw, fun x h => h, fun _ _ => rfl, fun _ _ => rfl⟩
  · intro hl
    refine ⟨?_, hl.continues⟩
    intro k' l' h x hx
    have h' : aget k' (aset k l b.exits) = some l' := h
    rw [aget_aset] at h'
    by_cases hk : k' = k
    · simp only [hk, if_true, Option.some.injEq] at h'; subst h'; exact hn hl x hx
    · simp only [hk, if_false] at h'; exact hl.exits k' l' h' x hx
  · intro k' l' h x hx
    have h' : aget k' (aset k l b.exits) = some l' := h
    rw [aget_aset] at h'
    by_cases hk : k' = k
    · simp only [hk, if_true, Option.some.injEq] at h'; subst h'; subst hk; exact hm x hx
    · simp only [hk, if_false] at h'; exact Or.inr ⟨l', h', hx⟩

theorem fx_delExits (K) (b : B) (k : Nat) : FrameX K b (b.delExits k) := by
  refine ⟨old_of_parts (fun x hx => Or.inl hx) (fun k hk => Or.inl hk) (fun x hx => Or.inl (mem_keys_adel hx)) (fun k hk => Or.inl hk), ?_, fun g _ hp => ⟨rfl, hp⟩, fun j _ => rfl, ?_,
    fun k l' hl x hx => Or.inr ⟨l', hl, hx⟩, fun x h => h, fun g _ hw => Or.inl hw, fun x h => h, fun _ _ => rfl, fun _ _ => rfl⟩
  · intro hl
    refine ⟨?_, hl.continues⟩
    intro k' l' h x hx
    have h' : aget k' (adel k b.exits) = some l' := h
    rw [aget_adel] at h'
    by_cases hk : k' = k
    · simp [hk] at h'
    · simp only [hk, if_false] at h'; exact hl.exits k' l' h' x hx
  · intro k' l' h x hx
    have h' : aget k' (adel k b.exits) = some l' := h
    rw [aget_adel] at h'
    by_cases hk : k' = k
    · simp [hk] at h'
    · simp only [hk, if_false] at h'; exact Or.inr ⟨l', h', hx⟩

theorem fx_putContinues (K) (b : B) (k : Nat) (l : List Nat) (hk : sk k ∈ K ∨ sk k ∈ b.continues.map (fun p => sk p.1))
    (hm : ∀ x, x ∈ l → nk x ∈ K ∨ ∃ l0, aget k b.continues = some l0 ∧ x ∈ l0)
    (hn : ListsInNodes b → ∀ x, x ∈ l → x ∈ b.nodes) : FrameX K b (b.putContinues k l) := by
  refine ⟨old_of_parts (fun x hx => Or.inl hx) (fun k hk => Or.inl hk) (fun k hk => Or.inl hk)
      (fun x hx => (mem_keys_aset' hx).elim (fun e => hk.elim (fun h => Or.inr (e ▸ h)) (fun h => Or.inl (e ▸ h))) Or.inl), ?_, fun g _ hp => ⟨rfl, hp⟩, fun j _ => rfl,
    fun k l' hl x hx => Or.inr ⟨l', hl, hx⟩, ?_, fun x h => h, fun g _ hw => Or.inl hw, fun x h => h, fun _ _ => rfl, fun _ _ => rfl⟩
  · intro hl
    refine ⟨hl.exits, ?_⟩
    intro k' l' h x hx
    have h' : aget k' (aset k l b.continues) = some l' := h
    rw [aget_aset] at h'
    by_cases hk : k' = k
    · simp only [hk, if_true, Option.some.injEq] at h'; subst h'; exact hn hl x hx
    · simp only [hk, if_false] at h'; exact hl.continues k' l' h' x hx
  · intro k' l' h x hx
    have h' : aget k' (aset k l b.continues) = some l' := h
    rw [aget_aset] at h'
    by_cases hk : k' = k
    · simp only [hk, if_true, Option.some.injEq] at h'; subst h'; subst hk; exact hm x hx
    · simp only [hk, if_false] at h'; exact Or.inr ⟨l', h', hx⟩

theorem fx_delLoopKeys (K) (b : B) (k : Nat) : FrameX K b (b.delLoopKeys k) := by
  refine ⟨old_of_parts (fun x hx => Or.inl hx) (fun k hk => Or.inl hk) (fun k hk => Or.inl hk) (fun x hx => Or.inl (mem_keys_adel hx)), ?_, fun g _ hp => ⟨rfl, hp⟩, fun j _ => rfl,
    fun k l' hl x hx => Or.inr ⟨l', hl, hx⟩, ?_, fun x h => h, fun g _ hw => Or.inl hw, fun x h => h, fun _ _ => rfl, fun _ _ => rfl⟩
  · intro hl
    refine ⟨hl.exits, ?_⟩
    intro k' l' h x hx
    have h' : aget k' (adel k b.continues) = some l' := h
    rw [aget_adel] at h'
    by_cases hk : k' = k
    · simp [hk] at h'
    · simp only [hk, if_false] at h'; exact hl.continues k' l' h' x hx
  · intro k' l' h x hx
    have h' : aget k' (adel k b.continues) = some l' := h
    rw [aget_adel] at h'
    by_cases hk : k' = k
    · simp [hk] at h'
    · simp only [hk, if_false] at h'; exact Or.inr ⟨l', h', hx⟩

theorem fx_enterFinallySection (K) (b : B) (i : Nat) (hi : sk i ∈ K) : FrameX K b (b.enterFinallySection i) := by
  refine ⟨?_, fun hl => ⟨hl.exits, hl.continues⟩, ?_, fun j _ => rfl,
    fun k l' hl x hx => Or.inr ⟨l', hl, hx⟩, fun k l' hl x hx => Or.inr ⟨l', hl, hx⟩, fun x h => h, ?_, fun x h => h, ?_, ?_⟩
  · exact old_of_parts (fun x hx => Or.inl hx)
      (fun x hx => (mem_keys_aset' hx).elim (fun e => Or.inr (e ▸ hi)) Or.inl) (fun k hk => Or.inl hk) (fun k hk => Or.inl hk)
  · intro g hg hp
    have hne : g ≠ i := fun e => hg (e ▸ hi)
    refine ⟨?_, ?_⟩
    · show aget g (aset i _ b.finallySub) = _
      rw [aget_aset, if_neg hne]
    · show g ∉ (if b.pendingFinally.contains i then b.pendingFinally else b.pendingFinally ++ [i])
      split
      · exact hp
      · intro h; rcases List.mem_append.mp h with h | h
        · exact hp h
        · exact hne (by simpa using h)
  · intro g hg hw
    have hne : g ≠ i := fun e => hg (e ▸ hi)
    obtain ⟨hp, x, e, hx⟩ := hw
    refine Or.inl ⟨?_, x, e, ?_⟩
    · show g ∈ (if b.pendingFinally.contains i then b.pendingFinally else b.pendingFinally ++ [i])
      split
      · exact hp
      · exact List.mem_append.mpr (Or.inl hp)
    · show aget g (aset i _ b.finallySub) = _
      rw [aget_aset, if_neg hne]; exact hx
  · intro g hg
    have hne : g ≠ i := fun e => hg (e ▸ hi)
    show aget g (aset i _ b.finallyDirect) = _
    rw [aget_aset, if_neg hne]
  · intro g hg
    have hne : g ≠ i := fun e => hg (e ▸ hi)
    show (aget g (aset i _ b.finallySub)).map (·.2) = _
    rw [aget_aset, if_neg hne]

theorem fx_closeFinally (K) (b : B) (i : Nat) (beg : Option Nat) (hi : sk i ∈ K) : FrameX K b (b.closeFinally i beg) := by
  refine ⟨?_, fun hl => ⟨hl.exits, hl.continues⟩, ?_, fun j _ => rfl,
    fun k l' hl x hx => Or.inr ⟨l', hl, hx⟩, fun k l' hl x hx => Or.inr ⟨l', hl, hx⟩, fun x h => h, ?_, fun x h => h, ?_, ?_⟩
  · exact old_of_parts (fun x hx => Or.inl hx)
      (fun x hx => (mem_keys_aset' hx).elim (fun e => Or.inr (e ▸ hi)) Or.inl) (fun k hk => Or.inl hk) (fun k hk => Or.inl hk)
  · intro g hg hp
    have hne : g ≠ i := fun e => hg (e ▸ hi)
    exact ⟨by show aget g (aset i _ b.finallySub) = _; rw [aget_aset, if_neg hne], hp⟩
  · intro g hg hw
    have hne : g ≠ i := fun e => hg (e ▸ hi)
    obtain ⟨hp, x, e, hx⟩ := hw
    exact Or.inl ⟨hp, x, e, by show aget g (aset i _ b.finallySub) = _; rw [aget_aset, if_neg hne]; exact hx⟩
  · intro g hg
    have hne : g ≠ i := fun e => hg (e ▸ hi)
    show aget g (adel i b.finallyDirect) = _
    rw [aget_adel, if_neg hne]
  · intro g hg
    have hne : g ≠ i := fun e => hg (e ▸ hi)
    show (aget g (aset i _ b.finallySub)).map (·.2) = _
    rw [aget_aset, if_neg hne]

theorem fx_addNewNode (K) (b : B) (n : Nat) (hn : nk n ∈ K) : FrameX K b (b.addNewNode n) :=
  FrameX.trans (fx_check K b _ _) (FrameX.trans (fx_pushNode K _ n hn) (fx_connect K _ _ _))

theorem fx_addOrdinaryNode (K) (b : B) (n : Nat) (hn : nk n ∈ K) : FrameX K b (b.addOrdinaryNode n) :=
  FrameX.trans (fx_addNewNode K b n hn) (fx_setLeavesFresh K _ _)

theorem fx_addJumpNode (K) (b : B) (n : Nat) (gs : List Nat) (hn : nk n ∈ K) : FrameX K b (b.addJumpNode n gs) :=
  FrameX.trans (FrameX.trans (fx_addNewNode K b n hn) (fx_setLeavesFresh K _ _)) (fx_putFinallySections K _ n gs hn)

theorem mem_nodes_addJumpNode' (b : B) (n : Nat) (gs : List Nat) : n ∈ (b.addJumpNode n gs).nodes := by
  simp [addJumpNode, addNewNode, pushNode]

theorem fx_addExitNode (K) (b : B) (n sec : Nat) (gs : List Nat) (hn : nk n ∈ K) : FrameX K b (b.addExitNode n sec gs) := by
  have h0 := fx_addJumpNode K b n gs hn
  unfold addExitNode
  split
  · rename_i ex hx
    have hx' : aget sec (b.addJumpNode n gs).exits = some ex := by simpa using hx
    refine FrameX.trans h0 (fx_putExits K _ sec _ (Or.inr (key_of_aget hx')) ?_ ?_)
    · intro x hxm
      rcases List.mem_append.mp hxm with h | h
      · exact Or.inr ⟨ex, hx', h⟩
      · simp only [List.mem_singleton] at h; subst h; exact Or.inl hn
    · intro hl x hxm
      rcases List.mem_append.mp hxm with h | h
      · exact hl.exits sec ex hx' x h
      · simp only [List.mem_singleton] at h; subst h; exact mem_nodes_addJumpNode' b x gs
  · exact FrameX.trans h0 (fx_fail K _ _)

theorem fx_addContinueNode (K) (b : B) (n sec : Nat) (gs : List Nat) (hn : nk n ∈ K) : FrameX K b (b.addContinueNode n sec gs) := by
  have h0 := fx_addJumpNode K b n gs hn
  unfold addContinueNode
  split
  · rename_i ex hx
    have hx' : aget sec (b.addJumpNode n gs).continues = some ex := by simpa using hx
    refine FrameX.trans h0 (fx_putContinues K _ sec _ (Or.inr (key_of_aget hx')) ?_ ?_)
    · intro x hxm
      rcases List.mem_append.mp hxm with h | h
      · exact Or.inr ⟨ex, hx', h⟩
      · simp only [List.mem_singleton] at h; subst h; exact Or.inl hn
    · intro hl x hxm
      rcases List.mem_append.mp hxm with h | h
      · exact hl.continues sec ex hx' x h
      · simp only [List.mem_singleton] at h; subst h; exact mem_nodes_addJumpNode' b x gs
  · exact FrameX.trans h0 (fx_fail K _ _)

theorem fx_connectRaiseNode (K) (b : B) (n : Nat) (gs : List Nat) : FrameX K b (b.connectRaiseNode n gs) := fx_setRaises K b _

theorem fx_guardFold (K) (gs : List Nat) : ∀ acc : B × List Nat, FrameX K acc.1 (gs.foldl guardStep acc).1 := by
  induction gs with
  | nil => intro acc; exact FrameX.refl K _
  | cons g gs ih =>
    intro acc
    have h1 : FrameX K acc.1 (guardStep acc g).1 := by
      unfold guardStep; split
      · exact fx_connect K _ _ _
      · exact fx_fail K _ _
    exact FrameX.trans h1 (ih _)

theorem fx_connectJump (K) (b : B) (n : Nat) (hn : nk n ∈ K) : FrameX K b (b.connectJump n).1 := by
  unfold connectJump
  split
  · exact FrameX.refl K b
  · rename_i gs _
    exact FrameX.trans (fx_guardFold K gs (b, [n])) (fx_delFinallySections K _ n hn)

theorem fx_exitStep (K) (b : B) (e : Nat) (he : nk e ∈ K) : FrameX K b (b.exitStep e) :=
  FrameX.trans (fx_connectJump K b e he) (fx_leavesUnion K _ _)

theorem fx_exitFold (K) (ex : List Nat) (hex : ∀ e, e ∈ ex → nk e ∈ K) : ∀ b : B, FrameX K b (ex.foldl exitStep b) := by
  induction ex with
  | nil => intro b; exact FrameX.refl K b
  | cons e ex ih =>
    intro b
    exact FrameX.trans (fx_exitStep K b e (hex e (List.mem_cons_self ..))) (ih (fun e' h => hex e' (List.mem_cons_of_mem _ h)) _)

theorem fx_exitSection (K) (b : B) (i : Nat) (hex : ∀ ex, aget i b.exits = some ex → ∀ e, e ∈ ex → nk e ∈ K) :
    FrameX K b (b.exitSection i) := by
  unfold exitSection
  split
  · exact fx_fail K b _
  · rename_i ex hx
    exact FrameX.trans (fx_exitFold K ex (hex ex hx) b) (fx_delExits K _ i)

theorem fx_enterSection (K) (b : B) (i : Nat) (hi : sk i ∈ K) : FrameX K b (b.enterSection i) :=
  FrameX.trans (fx_check K b _ _) (fx_putExits K _ i [] (Or.inl hi) (fun _ h => (List.not_mem_nil h).elim) (fun _ _ h => (List.not_mem_nil h).elim))

/-- a whole regular section -/
theorem fx_section (K) (b bm : B) (i : Nat) (hi : sk i ∈ K) (hmid : FrameX K (b.enterSection i) bm) : FrameX K b (bm.exitSection i) := by
  refine FrameX.trans (FrameX.trans (fx_enterSection K b i hi) hmid) (fx_exitSection K bm i ?_)
  intro ex hex e he
  rcases hmid.exitsO i ex hex e he with h | ⟨l, hl, hel⟩
  · exact h
  · rw [(enterSection_effect b i).1] at hl
    cases hl; cases hel

theorem fx_enterLoopSection (K) (b : B) (i entry : Nat) (hi : sk i ∈ K) (he : nk entry ∈ K) : FrameX K b (b.enterLoopSection i entry) :=
  FrameX.trans (FrameX.trans (FrameX.trans (fx_check K b _ _)
    (fx_putContinues K _ i [] (Or.inl hi) (fun _ h => (List.not_mem_nil h).elim) (fun _ _ h => (List.not_mem_nil h).elim)))
    (fx_addOrdinaryNode K _ entry he)) (fx_putSectionEntry K _ i entry)

theorem fx_reentryFold (K) (entry : Nat) (cs : List Nat) (hcs : ∀ c, c ∈ cs → nk c ∈ K) :
    ∀ b : B, FrameX K b (cs.foldl (reentryStep entry) b) := by
  induction cs with
  | nil => intro b; exact FrameX.refl K b
  | cons c cs ih =>
    intro b
    have h1 : FrameX K b (reentryStep entry b c) :=
      FrameX.trans (fx_connectJump K b c (hcs c (List.mem_cons_self ..))) (fx_connect K _ _ _)
    exact FrameX.trans h1 (ih (fun c' h => hcs c' (List.mem_cons_of_mem _ h)) _)

theorem fx_exitLoopSection (K) (b : B) (i : Nat) (hcs : ∀ cs, aget i b.continues = some cs → ∀ c, c ∈ cs → nk c ∈ K) :
    FrameX K b (b.exitLoopSection i) := by
  unfold exitLoopSection
  split
  · rename_i entry cs _ hc
    exact FrameX.trans (FrameX.trans (FrameX.trans (fx_connect K b _ entry) (fx_reentryFold K entry cs (hcs cs hc) _))
      (fx_setLeavesFresh K _ _)) (fx_delLoopKeys K _ i)
  · exact fx_fail K b _

/-- a whole loop section -/
theorem fx_loopSection (K) (b bm : B) (i entry : Nat) (hi : sk i ∈ K) (he : nk entry ∈ K) (hmid : FrameX K (b.enterLoopSection i entry) bm) :
    FrameX K b (bm.exitLoopSection i) := by
  refine FrameX.trans (FrameX.trans (fx_enterLoopSection K b i entry hi he) hmid) (fx_exitLoopSection K bm i ?_)
  intro cs hcs c hc
  rcases hmid.contO i cs hcs c hc with h | ⟨l, hl, hel⟩
  · exact h
  · rw [(enterLoopSection_effect b i entry).1] at hl
    cases hl; cases hel

theorem fx_enterCondSection (K) (b : B) (i : Nat) : FrameX K b (b.enterCondSection i) :=
  FrameX.trans (fx_check K b _ _) (fx_putCondLeaves K _ i [])

theorem fx_newCondBranch (K) (b : B) (i : Nat) : FrameX K b (b.newCondBranch i) := by
  unfold newCondBranch
  split
  · exact fx_fail K b _
  · split
    · exact FrameX.trans (fx_putCondLeaves K b i _) (fx_setLeavesRef K _ _)
    · exact fx_putCondEntry K b i _

theorem fx_exitCondSection (K) (b : B) (i : Nat) : FrameX K b (b.exitCondSection i) := by
  unfold exitCondSection
  split
  · exact fx_fail K b _
  · rename_i splits _
    exact FrameX.trans (FrameX.trans (frameX_foldl K unionStep (fun b r => fx_leavesUnion K b _) splits b) (fx_check K _ _ _))
      (fx_delCondKeys K _ i)

theorem fx_enterExceptSection (K) (b : B) (i : Nat) : FrameX K b (b.enterExceptSection i) := by
  unfold enterExceptSection
  split
  · exact fx_leavesUnion K b _
  · exact FrameX.refl K b

theorem fx_exitFinallySection (K) (b : B) (i : Nat) (hi : sk i ∈ K) : FrameX K b (b.exitFinallySection i) := by
  unfold exitFinallySection
  split
  · rename_i beg _ direct _ _
    have h1 := FrameX.trans (fx_check K b (b.pendingFinally.contains i) "assert: Empty finally?") (fx_closeFinally K _ i beg hi)
    cases direct
    · exact FrameX.trans h1 (fx_setLeavesFresh K _ _)
    · exact h1
  · exact fx_fail K b _

theorem fx_beginStatement (K) (b : B) (i : Nat) : FrameX K b (b.beginStatement i) := fx_setActive K b _
theorem fx_endStatement (K) (b : B) (i : Nat) : FrameX K b (b.endStatement i) :=
  FrameX.trans (fx_check K b _ _) (fx_setActive K _ _)

end B

theorem fx_addOrdinaryNodes (K) (ns : List Nat) (hns : ∀ n, n ∈ ns → nk n ∈ K) : ∀ b : B, FrameX K b (addOrdinaryNodes b ns) := by
  induction ns with
  | nil => intro b; exact FrameX.refl K b
  | cons n ns ih =>
    intro b
    exact FrameX.trans (B.fx_addOrdinaryNode K b n (hns n (List.mem_cons_self ..))) (ih (fun m h => hns m (List.mem_cons_of_mem _ h)) _)

theorem fx_processExit (K) (σ : List Scope) (b : B) (n : Nat) (stop : Stop) (v : Bool) (hn : nk n ∈ K) :
    FrameX K b (processExit σ b n stop v) := by
  unfold processExit
  split
  · exact B.fx_fail K b _
  · split
    · exact FrameX.trans (B.fx_addExitNode K b _ _ _ hn) (B.fx_connectRaiseNode K _ _ _)
    · exact B.fx_addExitNode K b _ _ _ hn

theorem fx_processContinue (K) (σ : List Scope) (b : B) (n : Nat) (hn : nk n ∈ K) : FrameX K b (processContinue σ b n) := by
  unfold processContinue
  split
  · exact B.fx_fail K b _
  · exact B.fx_addContinueNode K b _ _ _ hn

theorem mem_tnodes {x : Nat} {l : List Nat} (h : x ∈ l) : nk x ∈ tnodes l := List.mem_map.mpr ⟨x, h, rfl⟩

theorem fx_basicExpr (K) (σ : List Scope) (e : Expr) (b : B) (a : Acc) (h : ∀ x, x ∈ e.kidLams ++ [e.id] → nk x ∈ K) :
    FrameX K b (basicExpr σ e b a).1 :=
  FrameX.trans (fx_addOrdinaryNodes K _ (fun n hn => h n (List.mem_append.mpr (Or.inl hn))) b)
    (B.fx_addOrdinaryNode K _ _ (h _ (by simp)))

theorem fx_basicExprs (K) (σ : List Scope) : ∀ (es : List Expr) (b : B) (a : Acc), (∀ x, x ∈ withItemNodes es → nk x ∈ K) →
    FrameX K b (basicExprs σ es b a).1
  | [], b, _, _ => FrameX.refl K b
  | e :: es, b, a, h => by
    have h1 := fx_basicExpr K σ e b a (fun x hx => h x (by
      simp only [withItemNodes, List.mem_append, List.mem_cons, List.mem_singleton, List.not_mem_nil, or_false] at hx ⊢
      rcases hx with hx | hx
      · exact Or.inl hx
      · exact Or.inr (Or.inl hx)))
    exact FrameX.trans h1 (fx_basicExprs K σ es _ _ (fun x hx => h x (by
      simp only [withItemNodes, List.mem_append, List.mem_cons]; exact Or.inr (Or.inr hx))))

theorem fx_optSection (K) (rep : Option Nat) (pre post : Nat → B → B) (visit : Nat → B → Acc → B × Acc) (r : B × Acc)
    (hpre : ∀ k b, rep = some k → FrameX K b (pre k b)) (hpost : ∀ k b, rep = some k → FrameX K b (post k b))
    (hvisit : ∀ k b a, rep = some k → FrameX K b (visit k b a).1) : FrameX K r.1 (optSection rep pre post visit r).1 := by
  cases rep with
  | none => exact FrameX.refl K _
  | some k =>
    simp only [optSection]
    exact FrameX.trans (FrameX.trans (hpre k _ rfl) (hvisit k _ _ rfl)) (hpost k _ rfl)


/-! ### the keys of Lemma A are among the extended keys -/
mutual
theorem keys_sub : ∀ (s : Stmt) (k : Nat), k ∈ stmtKeys' s → k ∈ keys3 s
  | .if_ i test body orelse, k, h => by
    simp only [stmtKeys', keys3, List.mem_cons, List.mem_append] at h ⊢
    rcases h with h | h | h
    · exact Or.inl h
    · exact Or.inr (Or.inr (Or.inl (keysL_sub body k h)))
    · exact Or.inr (Or.inr (Or.inr (keysL_sub orelse k h)))
  | .while_ i test body orelse, k, h => by
    simp only [stmtKeys', keys3, List.mem_cons, List.mem_append] at h ⊢
    rcases h with h | h | h
    · exact Or.inl h
    · exact Or.inr (Or.inr (Or.inl (keysL_sub body k h)))
    · exact Or.inr (Or.inr (Or.inr (keysL_sub orelse k h)))
  | .for_ i target iter body orelse extra isAsync, k, h => by
    cases isAsync <;> simp only [stmtKeys', keys3, List.mem_cons, List.mem_append, Bool.false_eq_true, if_false, if_true] at h ⊢
    · rcases h with h | h | h
      · exact Or.inl h
      · exact Or.inr (Or.inr (Or.inl (keysL_sub body k h)))
      · exact Or.inr (Or.inr (Or.inr (keysL_sub orelse k h)))
    · rcases h with h | h
      · exact Or.inr (Or.inr (Or.inl (keysL_sub body k h)))
      · exact Or.inr (Or.inr (Or.inr (keysL_sub orelse k h)))
  | .with_ i items body isAsync, k, h => by
    simp only [stmtKeys', keys3, List.mem_append] at h ⊢
    exact Or.inr (keysL_sub body k h)
  | .try_ i body handlers orelse final, k, h => by
    simp only [stmtKeys', keys3, List.mem_cons, List.mem_append] at h ⊢
    rcases h with h | h | h | h | h | h
    · exact Or.inr (Or.inl h)
    · exact Or.inr (Or.inr (Or.inl h))
    · exact Or.inr (Or.inr (Or.inr (Or.inl (keysL_sub body k h))))
    · exact Or.inr (Or.inr (Or.inr (Or.inr (Or.inl (keysL_sub handlers k h)))))
    · exact Or.inr (Or.inr (Or.inr (Or.inr (Or.inr (Or.inl (keysL_sub orelse k h))))))
    · exact Or.inr (Or.inr (Or.inr (Or.inr (Or.inr (Or.inr (keysL_sub final k h))))))
  | .handler i ty nm body, k, h => by
    simp only [stmtKeys', keys3, List.mem_cons, List.mem_append] at h ⊢
    rcases h with h | h
    · exact Or.inl h
    · exact Or.inr (Or.inr (keysL_sub body k h))
  | .functionDef i name args body decs rets isAsync, k, h => by
    cases isAsync <;> simp only [stmtKeys', keys3, Bool.false_eq_true, if_false, if_true] at h ⊢
    · cases h
    · exact keysL_sub body k h
  | .classDef .., k, h => by simp [stmtKeys'] at h
  | .ret .., k, h => by simp [stmtKeys'] at h
  | .delete .., k, h => by simp [stmtKeys'] at h
  | .assign .., k, h => by simp [stmtKeys'] at h
  | .augAssign .., k, h => by simp [stmtKeys'] at h
  | .annAssign .., k, h => by simp [stmtKeys'] at h
  | .raise .., k, h => by simp [stmtKeys'] at h
  | .assert_ .., k, h => by simp [stmtKeys'] at h
  | .import_ .., k, h => by simp [stmtKeys'] at h
  | .importFrom .., k, h => by simp [stmtKeys'] at h
  | .global .., k, h => by simp [stmtKeys'] at h
  | .nonlocal .., k, h => by simp [stmtKeys'] at h
  | .expr .., k, h => by simp [stmtKeys'] at h
  | .pass .., k, h => by simp [stmtKeys'] at h
  | .break_ .., k, h => by simp [stmtKeys'] at h
  | .continue_ .., k, h => by simp [stmtKeys'] at h
  | .other .., k, h => by simp [stmtKeys'] at h
theorem keysL_sub : ∀ (ss : List Stmt) (k : Nat), k ∈ keysL ss → k ∈ keysL3 ss
  | [], k, h => by simp [keysL] at h
  | s :: ss, k, h => by
    simp only [keysL, keysL3, List.mem_append] at h ⊢
    exact h.imp (keys_sub s k) (keysL_sub ss k)
end

theorem frame3_visitStmts (ss : List Stmt) (σ : List Scope) (b : B) (a : Acc) : Frame (keysL3 ss) b (visitStmts σ ss b a).1 :=
  (frame_visitStmts ss σ b a).weaken (keysL_sub ss)

theorem frame3_visitStmt (s : Stmt) (σ : List Scope) (b : B) (a : Acc) : Frame (keys3 s) b (visitStmt σ s b a).1 :=
  (frame_visitStmt s σ b a).weaken (keys_sub s)


/-! ### Lemma A′: `FrameX` for every statement of the modelled language, and "an emitting block starts the waiting
`finally` sections" -/

/-- every `finally` section waiting for its first node in `b` is started in `b'` -/
def EmitsOk (K : List Nat) (b b' : B) : Prop := ∀ T, sk T ∉ K → Wait b T → Started b' T

theorem EmitsOk.weaken {K K' : List Nat} {b b' : B} (h : EmitsOk K b b') (hs : ∀ k, k ∈ K → k ∈ K') : EmitsOk K' b b' :=
  fun T hT hw => h T (fun h' => hT (hs _ h')) hw

theorem wait_started_pushNode {b : B} (n T : Nat) (hw : Wait b T) : Started (b.pushNode n) T := by
  have hf : ∀ p : Nat × (Option NodeId × Option Ref),
      ((fun p : Nat × (Option NodeId × Option Ref) => if b.pendingFinally.contains p.1 then (p.1, (some n, p.2.2)) else p) p).1 = p.1 := by
    intro p; simp only; split <;> rfl
  obtain ⟨hp, x, e, hx⟩ := hw
  refine ⟨by simp [B.pushNode], n, e, ?_⟩
  show aget T (b.finallySub.map _) = _
  rw [aget_map _ hf, hx]
  simp [hp]

/-- creating a node starts everything that waits (and keeps what is started) -/
theorem node_starts (K : List Nat) (b : B) (n : Nat) (hn : nk n ∈ K) (T : Nat) (hT : sk T ∉ K) (h : Wait b T ∨ Started b T) :
    Started (b.addNewNode n) T := by
  rcases h with h | h
  · have h1 : Wait (b.check (b.nodes.contains n) "ValueError: added twice") T := by simpa [Wait] using h
    have h2 := wait_started_pushNode n T h1
    exact started_mono (B.fx_connect K _ _ _) hT h2
  · exact started_mono (B.fx_addNewNode K b n hn) hT h

/-- prefix (frame only) · node creation · suffix (frame only) -/
theorem emits_chain {K : List Nat} {b b1 b2 b' : B} (h1 : FrameX K b b1)
    (hn : ∀ T, sk T ∉ K → Wait b1 T ∨ Started b1 T → Started b2 T) (h3 : FrameX K b2 b') : EmitsOk K b b' :=
  fun T hT hw => started_mono h3 hT (hn T hT (h1.wait T hT hw))

theorem starts_addOrdinaryNode (K : List Nat) (b : B) (n : Nat) (hn : nk n ∈ K) :
    ∀ T, sk T ∉ K → Wait b T ∨ Started b T → Started (b.addOrdinaryNode n) T :=
  fun T hT h => started_mono (B.fx_setLeavesFresh K _ _) hT (node_starts K b n hn T hT h)

theorem starts_addJumpNode (K : List Nat) (b : B) (n : Nat) (gs : List Nat) (hn : nk n ∈ K) :
    ∀ T, sk T ∉ K → Wait b T ∨ Started b T → Started (b.addJumpNode n gs) T :=
  fun T hT h => started_mono (FrameX.trans (B.fx_setLeavesFresh K _ _) (B.fx_putFinallySections K _ n gs hn)) hT (node_starts K b n hn T hT h)

theorem starts_addExitNode (K : List Nat) (b : B) (n sec : Nat) (gs : List Nat) (hn : nk n ∈ K) :
    ∀ T, sk T ∉ K → Wait b T ∨ Started b T → Started (b.addExitNode n sec gs) T := by
  intro T hT h
  have h1 := starts_addJumpNode K b n gs hn T hT h
  unfold B.addExitNode
  split
  · exact ⟨h1.1, h1.2⟩
  · exact ⟨h1.1, h1.2⟩

theorem starts_addContinueNode (K : List Nat) (b : B) (n sec : Nat) (gs : List Nat) (hn : nk n ∈ K) :
    ∀ T, sk T ∉ K → Wait b T ∨ Started b T → Started (b.addContinueNode n sec gs) T := by
  intro T hT h
  have h1 := starts_addJumpNode K b n gs hn T hT h
  unfold B.addContinueNode
  split
  · exact ⟨h1.1, h1.2⟩
  · exact ⟨h1.1, h1.2⟩

theorem starts_processExit (K : List Nat) (σ : List Scope) (b : B) (n : Nat) (stop : Stop) (v : Bool) (t : Nat) (hn : nk n ∈ K)
    (ht : (enclosingFinally stop σ).1 = some t) :
    ∀ T, sk T ∉ K → Wait b T ∨ Started b T → Started (processExit σ b n stop v) T := by
  intro T hT h
  unfold processExit
  split
  · rename_i h'; rw [h'] at ht; cases ht
  · rename_i target guards _
    have h1 := starts_addExitNode K b n target guards hn T hT h
    split
    · exact ⟨h1.1, h1.2⟩
    · exact h1

theorem starts_processContinue (K : List Nat) (σ : List Scope) (b : B) (n : Nat) (t : Nat) (hn : nk n ∈ K)
    (ht : (enclosingFinally .loop σ).1 = some t) :
    ∀ T, sk T ∉ K → Wait b T ∨ Started b T → Started (processContinue σ b n) T := by
  intro T hT h
  unfold processContinue
  split
  · rename_i h'; rw [h'] at ht; cases ht
  · exact starts_addContinueNode K b n _ _ hn T hT h

theorem starts_enterLoopSection (K : List Nat) (b : B) (i entry : Nat) (hi : sk i ∈ K) (he : nk entry ∈ K) :
    ∀ T, sk T ∉ K → Wait b T ∨ Started b T → Started (b.enterLoopSection i entry) T := by
  intro T hT h
  have h0 : FrameX K b ((b.check (ahas i b.sectionEntry || ahas i b.continues) "assert: loop section entered twice").putContinues i []) :=
    FrameX.trans (B.fx_check K b _ _) (B.fx_putContinues K _ i [] (Or.inl hi) (fun _ h => (List.not_mem_nil h).elim) (fun _ _ h => (List.not_mem_nil h).elim))
  have h1 : Wait ((b.check (ahas i b.sectionEntry || ahas i b.continues) "assert: loop section entered twice").putContinues i []) T ∨
      Started ((b.check (ahas i b.sectionEntry || ahas i b.continues) "assert: loop section entered twice").putContinues i []) T := by
    rcases h with h | h
    · exact h0.wait T hT h
    · exact Or.inr (started_mono h0 hT h)
  exact started_mono (B.fx_putSectionEntry K _ i entry) hT (starts_addOrdinaryNode K _ entry he T hT h1)

/-- a simple statement: its lambdas, then its own node -/
theorem fxe_simple (K : List Nat) (b : B) (lams : List Nat) (n : Nat) (h : ∀ x, x ∈ lams ++ [n] → nk x ∈ K) :
    FrameX K b ((addOrdinaryNodes b lams).addOrdinaryNode n) ∧ EmitsOk K b ((addOrdinaryNodes b lams).addOrdinaryNode n) := by
  have h1 := fx_addOrdinaryNodes K lams (fun x hx => h x (List.mem_append.mpr (Or.inl hx))) b
  have hn : nk n ∈ K := h n (by simp)
  exact ⟨FrameX.trans h1 (B.fx_addOrdinaryNode K _ n hn),
    emits_chain h1 (starts_addOrdinaryNode K _ n hn) (FrameX.refl K _)⟩



/-- `while`/`for`: frame and "the header starts what waits", given the frames of the two blocks -/
theorem fxe_loop (σ : List Scope) (i h : Nat) (lams : List Nat) (body orelse : List Stmt) (b : B) (a1 a2 : Acc) (il : Bool)
    (hbody : ∀ b' a', FrameX (keysL3 body) b' (visitStmts (Scope.loop i :: σ) body b' a').1)
    (horelse : ∀ b' a', FrameX (keysL3 orelse) b' (visitStmts σ orelse b' a').1) :
    FrameX (sk i :: (tnodes (lams ++ [h]) ++ (keysL3 body ++ keysL3 orelse))) b
      ((((visitStmts σ orelse ((visitStmts (Scope.loop i :: σ) body
          ((addOrdinaryNodes ((b.beginStatement i).enterSection i) lams).enterLoopSection i h) a1).1.exitLoopSection i) a2).1).exitSection i).endStatement i) ∧
    (EmitsOk (sk i :: (tnodes (lams ++ [h]) ++ (keysL3 body ++ keysL3 orelse))) b
      ((((visitStmts σ orelse ((visitStmts (Scope.loop i :: σ) body
          ((addOrdinaryNodes ((b.beginStatement i).enterSection i) lams).enterLoopSection i h) a1).1.exitLoopSection i) a2).1).exitSection i).endStatement i)) := by
  have kn : ∀ x, x ∈ lams ++ [h] → nk x ∈ sk i :: (tnodes (lams ++ [h]) ++ (keysL3 body ++ keysL3 orelse)) :=
    fun x hx => List.mem_cons_of_mem _ (List.mem_append.mpr (Or.inl (mem_tnodes hx)))
  have kb : ∀ k, k ∈ keysL3 body → k ∈ sk i :: (tnodes (lams ++ [h]) ++ (keysL3 body ++ keysL3 orelse)) :=
    fun k hk => List.mem_cons_of_mem _ (List.mem_append.mpr (Or.inr (List.mem_append.mpr (Or.inl hk))))
  have ko : ∀ k, k ∈ keysL3 orelse → k ∈ sk i :: (tnodes (lams ++ [h]) ++ (keysL3 body ++ keysL3 orelse)) :=
    fun k hk => List.mem_cons_of_mem _ (List.mem_append.mpr (Or.inr (List.mem_append.mpr (Or.inr hk))))
  have hh := kn h (by simp)
  let b2 := addOrdinaryNodes ((b.beginStatement i).enterSection i) lams
  have p2 : FrameX _ ((b.beginStatement i).enterSection i) b2 := fx_addOrdinaryNodes _ lams (fun x hx => kn x (List.mem_append.mpr (Or.inl hx))) _
  -- the loop section inside the regular section
  have hloop : FrameX (sk i :: (tnodes (lams ++ [h]) ++ (keysL3 body ++ keysL3 orelse))) b2
      ((visitStmts (Scope.loop i :: σ) body (b2.enterLoopSection i h) a1).1.exitLoopSection i) :=
    B.fx_loopSection _ b2 _ i h (List.mem_cons_self ..) hh ((hbody _ _).weaken kb)
  have hmid : FrameX (sk i :: (tnodes (lams ++ [h]) ++ (keysL3 body ++ keysL3 orelse))) ((b.beginStatement i).enterSection i)
      (visitStmts σ orelse ((visitStmts (Scope.loop i :: σ) body (b2.enterLoopSection i h) a1).1.exitLoopSection i) a2).1 :=
    FrameX.trans (FrameX.trans p2 hloop) ((horelse _ _).weaken ko)
  have hsec := B.fx_section _ (b.beginStatement i) _ i (List.mem_cons_self ..) hmid
  refine ⟨FrameX.trans (FrameX.trans (B.fx_beginStatement _ b i) hsec) (B.fx_endStatement _ _ i), ?_⟩
  -- prefix: begin, enterSection, lambdas; node: the header
  have p1 : FrameX (sk i :: (tnodes (lams ++ [h]) ++ (keysL3 body ++ keysL3 orelse))) b b2 :=
    FrameX.trans (FrameX.trans (B.fx_beginStatement _ b i) (B.fx_enterSection _ _ i (List.mem_cons_self ..))) p2
  have rest : FrameX (sk i :: (tnodes (lams ++ [h]) ++ (keysL3 body ++ keysL3 orelse))) (b2.enterLoopSection i h)
      ((((visitStmts σ orelse ((visitStmts (Scope.loop i :: σ) body (b2.enterLoopSection i h) a1).1.exitLoopSection i) a2).1).exitSection i).endStatement i) := by
    refine FrameX.trans ?_ (B.fx_endStatement _ _ i)
    -- the exits of the section were created inside
    refine FrameX.trans (FrameX.trans (FrameX.trans ((hbody (b2.enterLoopSection i h) a1).weaken kb) ?_) ((horelse _ a2).weaken ko)) (B.fx_exitSection _ _ i ?_)
    · refine B.fx_exitLoopSection _ _ i ?_
      intro cs hcs c hc
      rcases ((hbody (b2.enterLoopSection i h) a1).weaken kb).contO i cs hcs c hc with hh' | ⟨l, hl, hel⟩
      · exact hh'
      · rw [(enterLoopSection_effect b2 i h).1] at hl; cases hl; cases hel
    · intro ex hex e he
      rcases hmid.exitsO i ex hex e he with hh' | ⟨l, hl, hel⟩
      · exact hh'
      · rw [(enterSection_effect (b.beginStatement i) i).1] at hl; cases hl; cases hel
  exact emits_chain p1 (starts_enterLoopSection _ b2 i h (List.mem_cons_self ..) hh) rest

theorem mem_keys_cons_of {k x : Nat} {l : List Nat} (h : k ∈ l) : k ∈ x :: l := List.mem_cons_of_mem _ h

mutual
theorem fxe_visitStmt : ∀ (s : Stmt) (σ : List Scope) (b : B) (a : Acc) (il : Bool), frag3 il s = true → OwnPre σ il →
    FrameX (keys3 s) b (visitStmt σ s b a).1 ∧ (stmtEmits s = true → EmitsOk (keys3 s) b (visitStmt σ s b a).1)
  | .functionDef i name args body decs rets isAsync, σ, b, a, il, hf, _ => by
    simp only [frag3, Bool.not_eq_true'] at hf
    subst hf
    simp only [visitStmt, Bool.false_eq_true, if_false, keys3, stmtEmits, Bool.not_false]
    have := fxe_simple [nk i] b [] i (fun x hx => by simp only [List.nil_append, List.mem_singleton] at hx; subst hx; simp)
    exact ⟨this.1, fun _ => this.2⟩
  | .classDef i name bases kws body decs, σ, b, a, il, _, _ => by
    simp only [visitStmt, keys3, stmtEmits]
    have := fxe_simple [nk i] b [] i (fun x hx => by simp only [List.nil_append, List.mem_singleton] at hx; subst hx; simp)
    exact ⟨this.1, fun _ => this.2⟩
  | .ret i v, σ, b, a, il, _, hp => by
    obtain ⟨F, hF⟩ := hp.fn
    simp only [visitStmt, keys3, stmtEmits]
    have hi : nk i ∈ tnodes (lamsL v ++ [i]) := mem_tnodes (by simp)
    have h1 := fx_addOrdinaryNodes (tnodes (lamsL v ++ [i])) (lamsL v) (fun x hx => mem_tnodes (List.mem_append.mpr (Or.inl hx))) b
    exact ⟨FrameX.trans h1 (fx_processExit _ σ _ i .fn false hi),
      fun _ => emits_chain h1 (starts_processExit _ σ _ i .fn false F hi hF) (FrameX.refl _ _)⟩
  | .raise i e c, σ, b, a, il, _, hp => by
    obtain ⟨F, hF⟩ := hp.fn
    simp only [visitStmt, keys3, stmtEmits]
    have hi : nk i ∈ tnodes ((lamsL e ++ lamsL c) ++ [i]) := mem_tnodes (by simp)
    have h1 := fx_addOrdinaryNodes (tnodes ((lamsL e ++ lamsL c) ++ [i])) (lamsL e ++ lamsL c) (fun x hx => mem_tnodes (List.mem_append.mpr (Or.inl hx))) b
    exact ⟨FrameX.trans (FrameX.trans h1 (fx_processExit _ σ _ i .fn true hi)) (B.fx_pushError _ _ i),
      fun _ => emits_chain h1 (starts_processExit _ σ _ i .fn true F hi hF) (B.fx_pushError _ _ i)⟩
  | .break_ i, σ, b, a, il, hf, hp => by
    simp only [frag3] at hf
    obtain ⟨L, hL⟩ := hp.loop hf
    simp only [visitStmt, keys3, stmtEmits]
    have hi : nk i ∈ [nk i] := by simp
    exact ⟨fx_processExit _ σ b i .loop false hi,
      fun _ => emits_chain (FrameX.refl _ b) (starts_processExit _ σ b i .loop false L hi hL) (FrameX.refl _ _)⟩
  | .continue_ i, σ, b, a, il, hf, hp => by
    simp only [frag3] at hf
    obtain ⟨L, hL⟩ := hp.loop hf
    simp only [visitStmt, keys3, stmtEmits]
    have hi : nk i ∈ [nk i] := by simp
    exact ⟨fx_processContinue _ σ b i hi,
      fun _ => emits_chain (FrameX.refl _ b) (starts_processContinue _ σ b i L hi hL) (FrameX.refl _ _)⟩
  | .if_ i test body orelse, σ, b, a, il, hf, hp => by
    simp only [frag3, Bool.and_eq_true] at hf
    simp only [visitStmt, keys3, stmtEmits]
    have kb : ∀ k, k ∈ keysL3 body → k ∈ ck i :: (tnodes (test.kidLams ++ [test.id]) ++ (keysL3 body ++ keysL3 orelse)) :=
      fun k hk => mem_keys_cons_of (List.mem_append.mpr (Or.inr (List.mem_append.mpr (Or.inl hk))))
    have ko : ∀ k, k ∈ keysL3 orelse → k ∈ ck i :: (tnodes (test.kidLams ++ [test.id]) ++ (keysL3 body ++ keysL3 orelse)) :=
      fun k hk => mem_keys_cons_of (List.mem_append.mpr (Or.inr (List.mem_append.mpr (Or.inr hk))))
    have kn : ∀ x, x ∈ test.kidLams ++ [test.id] → nk x ∈ ck i :: (tnodes (test.kidLams ++ [test.id]) ++ (keysL3 body ++ keysL3 orelse)) :=
      fun x hx => mem_keys_cons_of (List.mem_append.mpr (Or.inl (mem_tnodes hx)))
    -- prefix up to the lambdas of the test
    have p1 := FrameX.trans (FrameX.trans (B.fx_beginStatement _ b i) (B.fx_enterCondSection _ _ i))
      (fx_addOrdinaryNodes _ test.kidLams (fun x hx => kn x (List.mem_append.mpr (Or.inl hx))) _)
    have hid := kn test.id (by simp)
    have rest : FrameX (ck i :: (tnodes (test.kidLams ++ [test.id]) ++ (keysL3 body ++ keysL3 orelse)))
        (basicExpr σ test ((b.beginStatement i).enterCondSection i) a).1
        (((visitStmts σ orelse ((visitStmts σ body ((basicExpr σ test ((b.beginStatement i).enterCondSection i) a).1.newCondBranch i)
          (basicExpr σ test ((b.beginStatement i).enterCondSection i) a).2).1.newCondBranch i)
          (visitStmts σ body ((basicExpr σ test ((b.beginStatement i).enterCondSection i) a).1.newCondBranch i)
          (basicExpr σ test ((b.beginStatement i).enterCondSection i) a).2).2).1.exitCondSection i).endStatement i) := by
      refine FrameX.trans ?_ (B.fx_endStatement _ _ i)
      refine FrameX.trans ?_ (B.fx_exitCondSection _ _ i)
      refine FrameX.trans ?_ ((fxe_visitStmts orelse σ _ _ il hf.2 hp).1.weaken ko)
      refine FrameX.trans ?_ (B.fx_newCondBranch _ _ i)
      refine FrameX.trans ?_ ((fxe_visitStmts body σ _ _ il hf.1 hp).1.weaken kb)
      exact B.fx_newCondBranch _ _ i
    exact ⟨FrameX.trans (FrameX.trans p1 (B.fx_addOrdinaryNode _ _ test.id hid)) rest,
      fun _ => emits_chain p1 (starts_addOrdinaryNode _ _ test.id hid) rest⟩
  | .while_ i test body orelse, σ, b, a, il, hf, hp => by
    simp only [frag3, Bool.and_eq_true] at hf
    simp only [visitStmt, keys3, stmtEmits]
    have hb : ∀ b' a', FrameX (keysL3 body) b' (visitStmts (Scope.loop i :: σ) body b' a').1 :=
      fun b' a' => (fxe_visitStmts body (Scope.loop i :: σ) b' a' true hf.1 (hp.loop_scope i)).1
    have ho : ∀ b' a', FrameX (keysL3 orelse) b' (visitStmts σ orelse b' a').1 :=
      fun b' a' => (fxe_visitStmts orelse σ b' a' il hf.2 hp).1
    exact ⟨(fxe_loop σ i test.id test.kidLams body orelse b _ _ il hb ho).1, fun _ => (fxe_loop σ i test.id test.kidLams body orelse b _ _ il hb ho).2⟩
  | .for_ i target iter body orelse extra isAsync, σ, b, a, il, hf, hp => by
    simp only [frag3, Bool.and_eq_true, Bool.not_eq_true', List.isEmpty_iff] at hf
    obtain ⟨⟨⟨has, hex⟩, hfb⟩, hfo⟩ := hf
    subst has; subst hex
    simp only [visitStmt, keys3, stmtEmits, Bool.false_eq_true, if_false, List.take, basicExprs, Bool.not_false]
    have hb : ∀ b' a', FrameX (keysL3 body) b' (visitStmts (Scope.loop i :: σ) body b' a').1 :=
      fun b' a' => (fxe_visitStmts body (Scope.loop i :: σ) b' a' true hfb (hp.loop_scope i)).1
    have ho : ∀ b' a', FrameX (keysL3 orelse) b' (visitStmts σ orelse b' a').1 :=
      fun b' a' => (fxe_visitStmts orelse σ b' a' il hfo hp).1
    exact ⟨(fxe_loop σ i iter.id iter.kidLams body orelse b _ _ il hb ho).1, fun _ => (fxe_loop σ i iter.id iter.kidLams body orelse b _ _ il hb ho).2⟩
  | .with_ i items body isAsync, σ, b, a, il, hf, hp => by
    simp only [frag3, Bool.and_eq_true, Bool.not_eq_true'] at hf
    obtain ⟨⟨has, hfb⟩, _⟩ := hf
    subst has
    simp only [visitStmt, keys3, stmtEmits, Bool.false_eq_true, if_false, Bool.not_false, Bool.true_and]
    have kn : ∀ x, x ∈ withItemNodes items → nk x ∈ tnodes (withItemNodes items) ++ keysL3 body :=
      fun x hx => List.mem_append.mpr (Or.inl (mem_tnodes hx))
    have kb : ∀ k, k ∈ keysL3 body → k ∈ tnodes (withItemNodes items) ++ keysL3 body := fun k hk => List.mem_append.mpr (Or.inr hk)
    have h1 := fx_basicExprs _ σ items b a kn
    have IH := fxe_visitStmts body σ (basicExprs σ items b a).1 (basicExprs σ items b a).2 il hfb hp
    refine ⟨FrameX.trans h1 (IH.1.weaken kb), ?_⟩
    intro hem
    cases items with
    | nil =>
      simp only [List.isEmpty_nil, Bool.not_true, Bool.false_or] at hem
      intro T hT hw
      exact (IH.2 hem).weaken kb T hT (by simpa [basicExprs] using hw)
    | cons it its =>
      -- the first item creates a node
      have kn' : ∀ x, x ∈ it.kidLams ++ [it.id] → nk x ∈ tnodes (withItemNodes (it :: its)) ++ keysL3 body := by
        intro x hx
        apply kn
        simp only [withItemNodes, List.mem_append, List.mem_cons, List.mem_singleton, List.not_mem_nil, or_false] at hx ⊢
        rcases hx with hx | hx
        · exact Or.inl hx
        · exact Or.inr (Or.inl hx)
      have p1 := fx_addOrdinaryNodes _ it.kidLams (fun x hx => kn' x (List.mem_append.mpr (Or.inl hx))) b
      have hid := kn' it.id (by simp)
      have rest : FrameX (tnodes (withItemNodes (it :: its)) ++ keysL3 body) (basicExpr σ it b a).1
          (visitStmts σ body (basicExprs σ (it :: its) b a).1 (basicExprs σ (it :: its) b a).2).1 := by
        refine FrameX.trans ?_ (IH.1.weaken kb)
        exact fx_basicExprs _ σ its _ _ (fun x hx => kn x (by
          simp only [withItemNodes, List.mem_append, List.mem_cons]; exact Or.inr (Or.inr hx)))
      exact emits_chain p1 (starts_addOrdinaryNode _ _ it.id hid) rest
  | .try_ i body handlers orelse final, σ, b, a, il, hf, hp => by
    simp only [frag3, Bool.and_eq_true] at hf
    obtain ⟨⟨⟨⟨⟨hfb, hfh⟩, hfo⟩, hff⟩, _⟩, _⟩ := hf
    simp only [visitStmt, keys3, stmtEmits]
    have hp' : OwnPre (Scope.try_ i (!final.isEmpty) (handlerIds handlers) :: σ) il := hp.try_scope i _ _
    have ki : sk i ∈ sk i :: (elseKey i orelse ++ (repKey handlers ++ (keysL3 body ++ (keysL3 handlers ++ (keysL3 orelse ++ keysL3 final))))) :=
      List.mem_cons_self ..
    have kb : ∀ k, k ∈ keysL3 body → k ∈ sk i :: (elseKey i orelse ++ (repKey handlers ++ (keysL3 body ++ (keysL3 handlers ++ (keysL3 orelse ++ keysL3 final))))) :=
      fun k hk => mem_keys_cons_of (List.mem_append.mpr (Or.inr (List.mem_append.mpr (Or.inr (List.mem_append.mpr (Or.inl hk))))))
    have kh : ∀ k, k ∈ keysL3 handlers → k ∈ sk i :: (elseKey i orelse ++ (repKey handlers ++ (keysL3 body ++ (keysL3 handlers ++ (keysL3 orelse ++ keysL3 final))))) :=
      fun k hk => mem_keys_cons_of (List.mem_append.mpr (Or.inr (List.mem_append.mpr (Or.inr (List.mem_append.mpr (Or.inr (List.mem_append.mpr (Or.inl hk))))))))
    have ko : ∀ k, k ∈ keysL3 orelse → k ∈ sk i :: (elseKey i orelse ++ (repKey handlers ++ (keysL3 body ++ (keysL3 handlers ++ (keysL3 orelse ++ keysL3 final))))) :=
      fun k hk => mem_keys_cons_of (List.mem_append.mpr (Or.inr (List.mem_append.mpr (Or.inr (List.mem_append.mpr (Or.inr (List.mem_append.mpr (Or.inr (List.mem_append.mpr (Or.inl hk))))))))))
    have kf : ∀ k, k ∈ keysL3 final → k ∈ sk i :: (elseKey i orelse ++ (repKey handlers ++ (keysL3 body ++ (keysL3 handlers ++ (keysL3 orelse ++ keysL3 final))))) :=
      fun k hk => mem_keys_cons_of (List.mem_append.mpr (Or.inr (List.mem_append.mpr (Or.inr (List.mem_append.mpr (Or.inr (List.mem_append.mpr (Or.inr (List.mem_append.mpr (Or.inr hk))))))))))
    have IHb := fxe_visitStmts body (Scope.try_ i (!final.isEmpty) (handlerIds handlers) :: σ) (b.beginStatement i) a il hfb hp'
    have rest : FrameX (sk i :: (elseKey i orelse ++ (repKey handlers ++ (keysL3 body ++ (keysL3 handlers ++ (keysL3 orelse ++ keysL3 final))))))
        (visitStmts (Scope.try_ i (!final.isEmpty) (handlerIds handlers) :: σ) body (b.beginStatement i) a).1
        ((optSection (if final.isEmpty then none else some i) (fun k b => b.enterFinallySection k) (fun k b => b.exitFinallySection k)
          (fun _ => visitStmts σ final)
          (optSection (handlers.head?.map Stmt.id) (fun k b => b.enterCondSection k) (fun k b => (b.newCondBranch k).exitCondSection k)
            (fun k => visitHandlers σ k handlers)
            (optSection (elseRep i orelse) (fun k b => (b.enterCondSection k).newCondBranch k)
              (fun k b => (b.newCondBranch k).exitCondSection k)
              (fun _ => visitStmts (Scope.try_ i (!final.isEmpty) (handlerIds handlers) :: σ) orelse)
              (visitStmts (Scope.try_ i (!final.isEmpty) (handlerIds handlers) :: σ) body (b.beginStatement i) a)))).1.endStatement i) := by
      refine FrameX.trans ?_ (B.fx_endStatement _ _ i)
      refine FrameX.trans ?_ (fx_optSection _ _ _ _ _ _ ?_ ?_ ?_)
      refine FrameX.trans ?_ (fx_optSection _ _ _ _ _ _ ?_ ?_ ?_)
      refine fx_optSection _ _ _ _ _ _ ?_ ?_ ?_
      · intro k b' _; exact FrameX.trans (B.fx_enterCondSection _ _ k) (B.fx_newCondBranch _ _ k)
      · intro k b' _; exact FrameX.trans (B.fx_newCondBranch _ _ k) (B.fx_exitCondSection _ _ k)
      · intro k b' a' _; exact (fxe_visitStmts orelse _ b' a' il hfo hp').1.weaken ko
      · intro k b' _; exact B.fx_enterCondSection _ _ k
      · intro k b' _; exact FrameX.trans (B.fx_newCondBranch _ _ k) (B.fx_exitCondSection _ _ k)
      · intro k b' a' _; exact fxe_visitHandlers handlers σ k _ b' a' il hfh hp kh
      · intro k b' hk
        have : k = i := by
          by_cases hfe : final.isEmpty = true <;> simp [hfe] at hk
          exact hk.symm
        subst this; exact B.fx_enterFinallySection _ _ k ki
      · intro k b' hk
        have : k = i := by
          by_cases hfe : final.isEmpty = true <;> simp [hfe] at hk
          exact hk.symm
        subst this; exact B.fx_exitFinallySection _ _ k ki
      · intro k b' a' _; exact (fxe_visitStmts final σ b' a' il hff hp).1.weaken kf
    refine ⟨FrameX.trans (FrameX.trans (B.fx_beginStatement _ b i) (IHb.1.weaken kb)) rest, ?_⟩
    intro hem T hT hw
    have hw0 : Wait (b.beginStatement i) T := by simpa [Wait] using hw
    exact started_mono rest hT ((IHb.2 hem).weaken kb T hT hw0)
  | .handler .., _, _, _, _, hf, _ => by simp [frag3] at hf
  | .other .., _, _, _, _, hf, _ => by simp [frag3] at hf
  | .delete i ts, σ, b, a, il, _, _ => by
    simp only [visitStmt, keys3, stmtEmits]
    exact ⟨(fxe_simple _ b _ _ (fun x hx => mem_tnodes hx)).1, fun _ => (fxe_simple _ b _ _ (fun x hx => mem_tnodes hx)).2⟩
  | .assign i ts v, σ, b, a, il, _, _ => by
    simp only [visitStmt, keys3, stmtEmits]
    exact ⟨(fxe_simple _ b _ _ (fun x hx => mem_tnodes hx)).1, fun _ => (fxe_simple _ b _ _ (fun x hx => mem_tnodes hx)).2⟩
  | .augAssign i t op v, σ, b, a, il, _, _ => by
    simp only [visitStmt, keys3, stmtEmits]
    exact ⟨(fxe_simple _ b _ _ (fun x hx => mem_tnodes hx)).1, fun _ => (fxe_simple _ b _ _ (fun x hx => mem_tnodes hx)).2⟩
  | .annAssign i t an v sm, σ, b, a, il, _, _ => by
    simp only [visitStmt, keys3, stmtEmits]
    exact ⟨(fxe_simple _ b _ _ (fun x hx => mem_tnodes hx)).1, fun _ => (fxe_simple _ b _ _ (fun x hx => mem_tnodes hx)).2⟩
  | .assert_ i t m, σ, b, a, il, _, _ => by
    simp only [visitStmt, keys3, stmtEmits]
    exact ⟨(fxe_simple _ b _ _ (fun x hx => mem_tnodes hx)).1, fun _ => (fxe_simple _ b _ _ (fun x hx => mem_tnodes hx)).2⟩
  | .import_ i ns, σ, b, a, il, _, _ => by
    simp only [visitStmt, keys3, stmtEmits]
    exact ⟨(fxe_simple _ b _ _ (fun x hx => mem_tnodes hx)).1, fun _ => (fxe_simple _ b _ _ (fun x hx => mem_tnodes hx)).2⟩
  | .importFrom i m ns lv, σ, b, a, il, _, _ => by
    simp only [visitStmt, keys3, stmtEmits]
    exact ⟨(fxe_simple _ b _ _ (fun x hx => mem_tnodes hx)).1, fun _ => (fxe_simple _ b _ _ (fun x hx => mem_tnodes hx)).2⟩
  | .global i ns, σ, b, a, il, _, _ => by
    simp only [visitStmt, keys3, stmtEmits]
    exact ⟨(fxe_simple _ b _ _ (fun x hx => mem_tnodes hx)).1, fun _ => (fxe_simple _ b _ _ (fun x hx => mem_tnodes hx)).2⟩
  | .nonlocal i ns, σ, b, a, il, _, _ => by
    simp only [visitStmt, keys3, stmtEmits]
    exact ⟨(fxe_simple _ b _ _ (fun x hx => mem_tnodes hx)).1, fun _ => (fxe_simple _ b _ _ (fun x hx => mem_tnodes hx)).2⟩
  | .expr i v, σ, b, a, il, _, _ => by
    simp only [visitStmt, keys3, stmtEmits]
    exact ⟨(fxe_simple _ b _ _ (fun x hx => mem_tnodes hx)).1, fun _ => (fxe_simple _ b _ _ (fun x hx => mem_tnodes hx)).2⟩
  | .pass i, σ, b, a, il, _, _ => by
    simp only [visitStmt, keys3, stmtEmits]
    exact ⟨(fxe_simple _ b _ _ (fun x hx => mem_tnodes hx)).1, fun _ => (fxe_simple _ b _ _ (fun x hx => mem_tnodes hx)).2⟩

theorem fxe_visitStmts : ∀ (ss : List Stmt) (σ : List Scope) (b : B) (a : Acc) (il : Bool), frag3L il ss = true → OwnPre σ il →
    FrameX (keysL3 ss) b (visitStmts σ ss b a).1 ∧ (blockEmits ss = true → EmitsOk (keysL3 ss) b (visitStmts σ ss b a).1)
  | [], σ, b, a, il, _, _ => by
    simp only [visitStmts, keysL3, blockEmits]
    exact ⟨FrameX.refl _ b, fun h => by cases h⟩
  | s :: ss, σ, b, a, il, hf, hp => by
    simp only [frag3L, Bool.and_eq_true] at hf
    simp only [visitStmts, keysL3, blockEmits]
    have h1 := fxe_visitStmt s σ b a il hf.1 hp
    have h2 := fxe_visitStmts ss σ (visitStmt σ s b a).1 (visitStmt σ s b a).2 il hf.2 hp
    have k1 : ∀ k, k ∈ keys3 s → k ∈ keys3 s ++ keysL3 ss := fun k hk => List.mem_append.mpr (Or.inl hk)
    have k2 : ∀ k, k ∈ keysL3 ss → k ∈ keys3 s ++ keysL3 ss := fun k hk => List.mem_append.mpr (Or.inr hk)
    refine ⟨FrameX.trans (h1.1.weaken k1) (h2.1.weaken k2), ?_⟩
    intro hem T hT hw
    exact started_mono (h2.1.weaken k2) hT ((h1.2 hem).weaken k1 T hT hw)

theorem fxe_visitHandlers : ∀ (hs : List Stmt) (σ : List Scope) (rep : Nat) (K : List Nat) (b : B) (a : Acc) (il : Bool),
    frag3H il hs = true → OwnPre σ il → (∀ k, k ∈ keysL3 hs → k ∈ K) → FrameX K b (visitHandlers σ rep hs b a).1
  | [], σ, rep, K, b, a, il, _, _, _ => by simp only [visitHandlers]; exact FrameX.refl K b
  | .handler i ty nm hb :: hs, σ, rep, K, b, a, il, hH, hp, hk => by
    simp only [frag3H, Bool.and_eq_true, List.isEmpty_iff] at hH
    obtain ⟨⟨hnm, hfb⟩, hHs⟩ := hH
    subst hnm
    simp only [visitHandlers]
    have hk1 : ∀ k, k ∈ keys3 (.handler i ty [] hb) → k ∈ K := fun k h => hk k (by simp only [keysL3, List.mem_append]; exact Or.inl h)
    have hk2 : ∀ k, k ∈ keysL3 hs → k ∈ K := fun k h => hk k (by simp only [keysL3, List.mem_append]; exact Or.inr h)
    refine FrameX.trans ?_ (fxe_visitHandlers hs σ rep K _ _ il hHs hp hk2)
    refine FrameX.trans (B.fx_newCondBranch K b rep) ?_
    simp only [visitStmt, List.isEmpty_nil, if_true]
    refine FrameX.trans ?_ (B.fx_endStatement K _ i)
    refine FrameX.trans ?_ ((fxe_visitStmts hb σ _ _ il hfb hp).1.weaken (fun k h => hk1 k (by
      simp only [keys3, List.mem_cons, List.mem_append]; exact Or.inr (Or.inr h))))
    refine FrameX.trans ?_ (fx_addOrdinaryNodes K (lamsL ty) (fun x hx => hk1 _ (by
      simp only [keys3, List.mem_cons, List.mem_append]; exact Or.inr (Or.inl (mem_tnodes hx)))) _)
    exact FrameX.trans (B.fx_beginStatement K _ i) (B.fx_enterExceptSection K _ i)
  | .functionDef .. :: _, _, _, _, _, _, _, hH, _, _ => by simp [frag3H] at hH
  | .classDef .. :: _, _, _, _, _, _, _, hH, _, _ => by simp [frag3H] at hH
  | .ret .. :: _, _, _, _, _, _, _, hH, _, _ => by simp [frag3H] at hH
  | .delete .. :: _, _, _, _, _, _, _, hH, _, _ => by simp [frag3H] at hH
  | .assign .. :: _, _, _, _, _, _, _, hH, _, _ => by simp [frag3H] at hH
  | .augAssign .. :: _, _, _, _, _, _, _, hH, _, _ => by simp [frag3H] at hH
  | .annAssign .. :: _, _, _, _, _, _, _, hH, _, _ => by simp [frag3H] at hH
  | .for_ .. :: _, _, _, _, _, _, _, hH, _, _ => by simp [frag3H] at hH
  | .while_ .. :: _, _, _, _, _, _, _, hH, _, _ => by simp [frag3H] at hH
  | .if_ .. :: _, _, _, _, _, _, _, hH, _, _ => by simp [frag3H] at hH
  | .with_ .. :: _, _, _, _, _, _, _, hH, _, _ => by simp [frag3H] at hH
  | .raise .. :: _, _, _, _, _, _, _, hH, _, _ => by simp [frag3H] at hH
  | .try_ .. :: _, _, _, _, _, _, _, hH, _, _ => by simp [frag3H] at hH
  | .assert_ .. :: _, _, _, _, _, _, _, hH, _, _ => by simp [frag3H] at hH
  | .import_ .. :: _, _, _, _, _, _, _, hH, _, _ => by simp [frag3H] at hH
  | .importFrom .. :: _, _, _, _, _, _, _, hH, _, _ => by simp [frag3H] at hH
  | .global .. :: _, _, _, _, _, _, _, hH, _, _ => by simp [frag3H] at hH
  | .nonlocal .. :: _, _, _, _, _, _, _, hH, _, _ => by simp [frag3H] at hH
  | .expr .. :: _, _, _, _, _, _, _, hH, _, _ => by simp [frag3H] at hH
  | .pass .. :: _, _, _, _, _, _, _, hH, _, _ => by simp [frag3H] at hH
  | .break_ .. :: _, _, _, _, _, _, _, hH, _, _ => by simp [frag3H] at hH
  | .continue_ .. :: _, _, _, _, _, _, _, hH, _, _ => by simp [frag3H] at hH
  | .other .. :: _, _, _, _, _, _, _, hH, _, _ => by simp [frag3H] at hH
end

end Malt.Cfg
