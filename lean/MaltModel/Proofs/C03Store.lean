import MaltModel.Proofs.C03Model
/-! Store algebra of the generated state functions (`Conv.Contract`: `evalGetter`, `getS`, `assignAll`). -/
namespace Malt.Conv.Contract
open Malt Malt.Py Malt.Conv.ControlFlow

/-! ### store algebra -/

theorem evalGetter_pure : ∀ (gs : List Expr) (w : World), (∀ g ∈ gs, (getterDen g).isSome = true) →
    (evalGetter gs w).2 = w
  | [], _, _ => rfl
  | g :: gs, w, h => by
      have hg := h g (List.mem_cons_self ..)
      have ih := evalGetter_pure gs w (fun x hx => h x (List.mem_cons_of_mem _ hx))
      unfold evalGetter
      cases hd : getterDen g with
      | none => rw [hd] at hg; cases hg
      | some en =>
        simp only
        cases hr : readEntry w.store en with
        | none => rfl
        | some v =>
          simp only
          cases he : evalGetter gs w with
          | mk r w' =>
            rw [he] at ih
            cases r <;> simpa using ih

theorem evalGetter_eq_getS : ∀ (gs : List Expr) (es : List Entry) (w : World), entriesOf gs = some es →
    (evalGetter gs w).1 = getS es w.store
  | [], es, w, h => by
      simp only [entriesOf, List.mapM_nil, Option.pure_def, Option.some.injEq] at h
      subst h; rfl
  | g :: gs, es, w, h => by
      simp only [entriesOf, List.mapM_cons, Option.bind_eq_bind, Option.pure_def] at h
      cases hd : getterDen g with
      | none => rw [hd] at h; cases h
      | some en =>
        rw [hd] at h
        simp only [Option.bind_some] at h
        cases hm : gs.mapM getterDen with
        | none => rw [hm] at h; cases h
        | some es' =>
          rw [hm] at h
          simp only [Option.bind_some, Option.some.injEq] at h
          subst h
          have ih := evalGetter_eq_getS gs es' w hm
          unfold evalGetter
          simp only [hd, getS, List.mapM_cons, Option.bind_eq_bind, Option.pure_def]
          cases hr : readEntry w.store en with
          | none => rfl
          | some v =>
            simp only [Option.bind_some]
            cases he : evalGetter gs w with
            | mk r w' =>
              rw [he] at ih
              simp only at ih
              simp only [getS] at ih
              rw [← ih]
              cases r <;> rfl

theorem update_same (σ : Store) (q : QN) (v : Val) : update σ q v q = some v := by simp [update]
theorem update_other (σ : Store) {q q' : QN} (v : Val) (h : q' ≠ q) : update σ q v q' = σ q' := by simp [update, h]

theorem assignAll_notin : ∀ (qs : List QN) (vs : List Val) (σ : Store) (q : QN), q ∉ qs →
    assignAll qs vs σ q = σ q
  | [], _, _, _, _ => by simp [assignAll]
  | _ :: _, [], _, _, _ => by simp [assignAll]
  | p :: qs, v :: vs, σ, q, h => by
      simp only [List.mem_cons, not_or] at h
      rw [assignAll, assignAll_notin qs vs _ q h.2, update_other _ _ h.1]

/-- Reading back resolved, pairwise distinct locations after writing them. -/
theorem assignAll_read : ∀ (ls : List QN) (vs : List Val) (σ : Store), ls.Nodup → ls.length = vs.length →
    ls.mapM (assignAll ls vs σ) = some vs
  | [], [], _, _, _ => rfl
  | [], _ :: _, _, _, h => by simp at h
  | _ :: _, [], _, _, h => by simp at h
  | l :: ls, v :: vs, σ, hn, hl => by
      simp only [List.nodup_cons] at hn
      simp only [List.length_cons, Nat.add_right_cancel_iff] at hl
      have ih := assignAll_read ls vs (update σ l v) hn.2 hl
      simp only [assignAll, List.mapM_cons, Option.bind_eq_bind, Option.pure_def]
      rw [assignAll_notin _ _ _ _ hn.1, update_same, Option.bind_some, ih]
      rfl

theorem mapM_congr_opt {α β : Type} {f g : α → Option β} : ∀ (l : List α), (∀ x ∈ l, f x = g x) →
    l.mapM f = l.mapM g
  | [], _ => rfl
  | a :: l, h => by
      simp only [List.mapM_cons, h a (List.mem_cons_self ..),
        mapM_congr_opt l (fun x hx => h x (List.mem_cons_of_mem _ hx))]

theorem mapM_length' {α β : Type} {f : α → Option β} : ∀ {l : List α} {r : List β},
    l.mapM f = some r → r.length = l.length
  | [], r, h => by simp only [List.mapM_nil, Option.pure_def, Option.some.injEq] at h; subst h; rfl
  | a :: l, r, h => by
      simp only [List.mapM_cons, Option.bind_eq_bind, Option.pure_def] at h
      cases hf : f a with
      | none => rw [hf] at h; cases h
      | some b =>
        rw [hf, Option.bind_some] at h
        cases hm : l.mapM f with
        | none => rw [hm] at h; cases h
        | some r' =>
          rw [hm, Option.bind_some, Option.some.injEq] at h
          subst h
          simp [mapM_length' hm]

/-! #### resolution of access paths -/

theorem resolveIdx_congr {σ τ : Store} (i : QN)
    (h : ∀ k, i = .sym k → τ (.sym k) = σ (.sym k)) : resolveIdx τ i = resolveIdx σ i := by
  cases i with
  | sym k => simp [resolveIdx, h k rfl]
  | lit _ _ => rfl
  | attr _ _ => rfl
  | sub _ _ => rfl

theorem read_congr {σ τ : Store} (r : Res) (h : ∀ l ∈ r.slots, τ l = σ l) : r.read τ = r.read σ := by
  cases r with
  | slot l => exact h l (by simp [Res.slots])
  | undefBase v => rfl
  | fail => rfl

/-- Resolution only looks at the locations listed by `reads`. -/
theorem resolve_congr {σ τ : Store} : ∀ (q : QN), (∀ l ∈ reads σ q, τ l = σ l) →
    resolve τ q = resolve σ q ∧ reads τ q = reads σ q
  | .sym _, _ => ⟨rfl, rfl⟩
  | .lit _ _, _ => ⟨rfl, rfl⟩
  | .attr b a, h => by
      have ih := resolve_congr b (fun l hl => h l (by simp [reads, hl]))
      have hr : (resolve σ b).read τ = (resolve σ b).read σ :=
        read_congr _ (fun l hl => h l (by simp [reads, hl]))
      simp only [resolve, reads, ih.1, ih.2, hr, and_self]
  | .sub b i, h => by
      have ih := resolve_congr b (fun l hl => h l (by simp [reads, hl]))
      have hr : (resolve σ b).read τ = (resolve σ b).read σ :=
        read_congr _ (fun l hl => h l (by simp [reads, hl]))
      have hi : resolveIdx τ i = resolveIdx σ i := by
        apply resolveIdx_congr
        intro k hk
        subst hk
        exact h _ (by simp [reads])
      simp only [resolve, reads, ih.1, ih.2, hr, hi, and_self]

theorem loc_eq_some {σ : Store} {q l : QN} : loc σ q = some l ↔ resolve σ q = .slot l := by
  unfold loc
  cases resolve σ q <;> simp

theorem loc_congr {σ τ : Store} (q : QN) (h : ∀ l ∈ reads σ q, τ l = σ l) : loc τ q = loc σ q := by
  unfold loc; rw [(resolve_congr q h).1]

/-- Under independence (no resolution reads a written location) the sequential assignment is the assignment of the
locations resolved up front. -/
theorem assignSeq_eq (W : List QN) : ∀ (qs ls : List QN) (vs : List Val) (τ : Store),
    qs.mapM (loc τ) = some ls → (∀ q ∈ qs, ∀ l ∈ reads τ q, l ∉ W) → (∀ l ∈ ls, l ∈ W) →
    assignSeq qs vs τ = some (assignAll ls vs τ)
  | [], ls, vs, τ, h, _, _ => by
      simp only [List.mapM_nil, Option.pure_def, Option.some.injEq] at h
      subst h
      cases vs <;> rfl
  | q :: qs, ls, [], τ, h, _, _ => by
      cases ls <;> rfl
  | q :: qs, ls, v :: vs, τ, h, hR, hW => by
      simp only [List.mapM_cons, Option.bind_eq_bind, Option.pure_def] at h
      cases hq : loc τ q with
      | none => rw [hq] at h; cases h
      | some l =>
        rw [hq, Option.bind_some] at h
        cases hm : qs.mapM (loc τ) with
        | none => rw [hm] at h; cases h
        | some ls' =>
          rw [hm, Option.bind_some, Option.some.injEq] at h
          subst h
          have hlW : l ∈ W := hW l (List.mem_cons_self ..)
          have hagree : ∀ q' ∈ qs, ∀ x ∈ reads τ q', update τ l v x = τ x := by
            intro q' hq' x hx
            exact update_other _ _ (fun hxl => hR q' (List.mem_cons_of_mem _ hq') x hx (hxl ▸ hlW))
          have hm' : qs.mapM (loc (update τ l v)) = some ls' := by
            rw [← hm]
            apply mapM_congr_opt
            intro q' hq'
            exact loc_congr q' (hagree q' hq')
          have hR' : ∀ q' ∈ qs, ∀ x ∈ reads (update τ l v) q', x ∉ W := by
            intro q' hq' x hx
            rw [(resolve_congr q' (hagree q' hq')).2] at hx
            exact hR q' (List.mem_cons_of_mem _ hq') x hx
          simp only [assignSeq, loc_eq_some.mp hq, assignAll]
          exact assignSeq_eq W qs ls' vs (update τ l v) hm' hR' (fun l' hl' => hW l' (List.mem_cons_of_mem _ hl'))

theorem mapM_mem {α β : Type} {f : α → Option β} : ∀ {l : List α} {r : List β}, l.mapM f = some r →
    ∀ y ∈ r, ∃ x ∈ l, f x = some y
  | [], r, h, y, hy => by
      simp only [List.mapM_nil, Option.pure_def, Option.some.injEq] at h
      subst h; cases hy
  | a :: l, r, h, y, hy => by
      simp only [List.mapM_cons, Option.bind_eq_bind, Option.pure_def] at h
      cases hf : f a with
      | none => rw [hf] at h; cases h
      | some b =>
        rw [hf, Option.bind_some] at h
        cases hm : l.mapM f with
        | none => rw [hm] at h; cases h
        | some r' =>
          rw [hm, Option.bind_some, Option.some.injEq] at h
          subst h
          rcases List.mem_cons.mp hy with rfl | hy
          · exact ⟨a, List.mem_cons_self .., hf⟩
          · obtain ⟨x, hx, hfx⟩ := mapM_mem hm y hy
            exact ⟨x, List.mem_cons_of_mem _ hx, hfx⟩

theorem getS_of_locs : ∀ (es : List Entry) (ls : List QN) (vs : List Val) (τ : Store),
    (es.map (·.qn)).mapM (loc τ) = some ls → ls.mapM τ = some vs → getS es τ = some vs
  | [], ls, vs, τ, h1, h2 => by
      simp only [List.map_nil, List.mapM_nil, Option.pure_def, Option.some.injEq] at h1
      subst h1
      simp only [List.mapM_nil, Option.pure_def, Option.some.injEq] at h2
      subst h2; rfl
  | e :: es, ls, vs, τ, h1, h2 => by
      simp only [List.map_cons, List.mapM_cons, Option.bind_eq_bind, Option.pure_def] at h1
      cases hq : loc τ e.qn with
      | none => rw [hq] at h1; cases h1
      | some l =>
        rw [hq, Option.bind_some] at h1
        cases hm : (es.map (·.qn)).mapM (loc τ) with
        | none => rw [hm] at h1; cases h1
        | some ls' =>
          rw [hm, Option.bind_some, Option.some.injEq] at h1
          subst h1
          simp only [List.mapM_cons, Option.bind_eq_bind, Option.pure_def] at h2
          cases hl : τ l with
          | none => rw [hl] at h2; cases h2
          | some v =>
            rw [hl, Option.bind_some] at h2
            cases hm2 : ls'.mapM τ with
            | none => rw [hm2] at h2; cases h2
            | some vs' =>
              rw [hm2, Option.bind_some, Option.some.injEq] at h2
              subst h2
              have ih := getS_of_locs es ls' vs' τ hm hm2
              simp only [getS] at ih
              simp only [getS, List.mapM_cons, readEntry, loc_eq_some.mp hq, Res.read, hl, ih, Option.bind_eq_bind,
                Option.bind_some, Option.pure_def]

/-- A write followed by a read returns what was written — PROVIDED every entry can be located, no resolution reads a
location the tuple writes, and the entries denote pairwise distinct locations at call time. -/
theorem getS_setS (es : List Entry) (vs : List Val) (σ : Store) (ls : List QN)
    (hloc : (es.map (·.qn)).mapM (loc σ) = some ls)
    (hind : ∀ q ∈ es.map (·.qn), ∀ l ∈ reads σ q, l ∉ ls)
    (hnd : ls.Nodup) (hlen : es.length = vs.length) :
    ∃ σ', assignSeq (es.map (·.qn)) vs σ = some σ' ∧ getS es σ' = some vs := by
  refine ⟨assignAll ls vs σ, assignSeq_eq ls _ ls vs σ hloc hind (fun _ h => h), ?_⟩
  have hlen' : ls.length = vs.length := by
    have := mapM_length' hloc
    simp only [List.length_map] at this
    rw [this, hlen]
  apply getS_of_locs es ls vs _ _ (assignAll_read ls vs σ hnd hlen')
  rw [← hloc]
  apply mapM_congr_opt
  intro q hq
  apply loc_congr
  intro l hl
  exact assignAll_notin _ _ _ _ (hind q hq l hl)

theorem any_cons_false {α : Type} {p : α → Bool} {a : α} {l : List α} (h : (a :: l).any p = false) :
    p a = false ∧ l.any p = false := by
  simpa [List.any_cons, Bool.or_eq_false_iff] using h

/-- Writing back what was just read changes nothing — PROVIDED no entry has an `Undefined` base and no guarded entry is
missing (nor any entry unlocatable). -/
theorem setS_getS : ∀ (es : List Entry) (vs : List Val) (σ : Store),
    undefBaseAt σ es = false → missingAt σ es = false → getS es σ = some vs →
    assignSeq (es.map (·.qn)) vs σ = some σ
  | [], vs, σ, _, _, h => by
      simp only [getS, List.mapM_nil, Option.pure_def, Option.some.injEq] at h
      subst h; rfl
  | e :: es, vs, σ, hu, hm, h => by
      obtain ⟨hu1, hu2⟩ := any_cons_false hu
      obtain ⟨hm1, hm2⟩ := any_cons_false hm
      simp only [getS, List.mapM_cons, Option.bind_eq_bind, Option.pure_def] at h
      cases hr : resolve σ e.qn with
      | undefBase v => simp [hr] at hu1
      | fail => simp [hr] at hm1
      | slot l =>
        simp only [hr] at hm1
        cases hs : σ l with
        | none =>
          cases hg : e.guarded with
          | true => simp [hg, hs] at hm1
          | false => simp [readEntry, hr, Res.read, hs, hg] at h
        | some v =>
          have hre : readEntry σ e = some v := by simp [readEntry, hr, Res.read, hs]
          rw [hre, Option.bind_some] at h
          cases hmm : es.mapM (readEntry σ) with
          | none => rw [hmm] at h; cases h
          | some vs' =>
            rw [hmm] at h
            simp only [Option.bind_some, Option.some.injEq] at h
            subst h
            have hupd : update σ l v = σ := by
              funext q
              by_cases hql : q = l
              · subst hql; rw [update_same, hs]
              · rw [update_other _ _ hql]
            simp only [List.map_cons, assignSeq, hr, hupd]
            exact setS_getS es vs' σ hu2 hm2 hmm

/-- From position-wise agreement: the getter's entries and the setter's targets are the same variables. -/
theorem entries_of_all3 : ∀ {ns gs ts : List Expr}, All3 PosOk ns gs ts →
    ∃ es, entriesOf gs = some es ∧ ts.mapM exprQN = some (es.map (·.qn))
  | _, _, _, .nil => ⟨[], rfl, rfl⟩
  | _, _, _, .cons (a := n) (b := g) (c := t) hp hr => by
      obtain ⟨es, h1, h2⟩ := entries_of_all3 hr
      obtain ⟨s, en, _, hg, hq, ht, _, _⟩ := hp
      refine ⟨en :: es, ?_, ?_⟩
      · simp only [entriesOf, List.mapM_cons, hg, Option.bind_eq_bind, Option.bind_some, Option.pure_def]
        simp only [entriesOf] at h1
        rw [h1]; rfl
      · simp only [List.mapM_cons, ht, Option.bind_eq_bind, Option.bind_some, h2, Option.pure_def, List.map_cons, hq]


/-! #### classes -/

theorem lawful_facts {σ : Store} {es : List Entry} (h : classify σ es = .lawful) :
    undefBaseAt σ es = false ∧ missingAt σ es = false ∧ dependentAt σ es = false ∧ aliasedAt σ es = false := by
  unfold classify at h
  cases h1 : undefBaseAt σ es <;> cases h2 : missingAt σ es <;> cases h3 : dependentAt σ es <;>
    cases h4 : aliasedAt σ es <;> simp_all

theorem lawful_of_facts {σ : Store} {es : List Entry} (h1 : undefBaseAt σ es = false) (h2 : missingAt σ es = false)
    (h3 : dependentAt σ es = false) (h4 : aliasedAt σ es = false) : classify σ es = .lawful := by
  simp [classify, h1, h2, h3, h4]

/-- Without `Undefined` bases and unlocatable entries every entry denotes a location. -/
theorem locs_of_located : ∀ (es : List Entry) (σ : Store), undefBaseAt σ es = false → missingAt σ es = false →
    (es.map (·.qn)).mapM (loc σ) = some (slotsOf σ es)
  | [], _, _, _ => rfl
  | e :: es, σ, hu, hm => by
      obtain ⟨hu1, hu2⟩ := any_cons_false hu
      obtain ⟨hm1, hm2⟩ := any_cons_false hm
      have ih := locs_of_located es σ hu2 hm2
      cases hr : resolve σ e.qn with
      | undefBase v => simp [hr] at hu1
      | fail => simp [hr] at hm1
      | slot l =>
        have hl : loc σ e.qn = some l := loc_eq_some.mpr hr
        simp only [List.map_cons, List.mapM_cons, hl, ih, Option.bind_eq_bind, Option.bind_some, Option.pure_def]
        simp [slotsOf, hr, Res.slots]

theorem independent_of_class {σ : Store} {es : List Entry} (h : dependentAt σ es = false) :
    ∀ q ∈ es.map (·.qn), ∀ l ∈ reads σ q, l ∉ slotsOf σ es := by
  intro q hq l hl hmem
  obtain ⟨e, he, rfl⟩ := List.mem_map.mp hq
  have h1 := List.any_eq_false.mp h e he
  have h2 : ∀ x ∈ reads σ e.qn, ¬ x ∈ slotsOf σ es := by simpa using h1
  exact h2 l hl hmem

theorem nodup_of_class {σ : Store} {es : List Entry} (h : aliasedAt σ es = false) : (slotsOf σ es).Nodup := by
  apply nodupB_sound
  simpa [aliasedAt] using h

/-- Under `SetterDeclares` every simple target of the setter is the caller-visible cell. -/
theorem map_id_of_mapM {α β : Type} {f : α → Option β} {g : β → β} : ∀ {ts : List α} {qs : List β},
    ts.mapM f = some qs → (∀ t ∈ ts, ∀ q, f t = some q → g q = q) → qs.map g = qs
  | [], qs, h, _ => by
      simp only [List.mapM_nil, Option.pure_def, Option.some.injEq] at h; subst h; rfl
  | t :: ts, qs, h, hg => by
      simp only [List.mapM_cons, Option.bind_eq_bind, Option.pure_def] at h
      cases hf : f t with
      | none => rw [hf] at h; cases h
      | some q =>
        rw [hf, Option.bind_some] at h
        cases hm : ts.mapM f with
        | none => rw [hm] at h; cases h
        | some qs' =>
          rw [hm, Option.bind_some, Option.some.injEq] at h
          subst h
          simp only [List.map_cons, hg t (List.mem_cons_self ..) q hf,
            map_id_of_mapM hm (fun t' ht' => hg t' (List.mem_cons_of_mem _ ht'))]

theorem setterTarget_id {c : OpCall} {ts : List Expr} {qs : List QN} (hd : SetterDeclares c)
    (hts : setterTargets c = some ts) (hq : ts.mapM exprQN = some qs) :
    qs.map (setterTarget (declaredNames c.setter.body)) = qs := by
  obtain ⟨ts', hts', hdecl⟩ := hd
  rw [hts] at hts'
  cases hts'
  apply map_id_of_mapM hq
  intro t ht q hqt
  cases q with
  | sym s =>
    cases t with
    | name i s' ctx =>
      simp only [exprQN, Option.some.injEq, QN.sym.injEq] at hqt
      subst hqt
      unfold setterTarget
      cases hc : BlockVars.isComposite s'
      · have := hdecl _ ht i s' ctx rfl hc
        simp [this]
      · simp [hc]
    | const => simp [exprQN] at hqt
    | attr i v a ctx =>
      simp only [exprQN, Option.map_eq_some_iff] at hqt
      obtain ⟨_, _, h⟩ := hqt; cases h
    | subscript i v sl ctx =>
      simp only [exprQN, Option.bind_eq_bind, Option.pure_def] at hqt
      cases h1 : exprQN v <;> cases h2 : exprQN sl <;> simp_all
    | _ => simp [exprQN] at hqt
  | lit _ _ => rfl
  | attr _ _ => rfl
  | sub _ _ => rfl

end Malt.Conv.Contract
