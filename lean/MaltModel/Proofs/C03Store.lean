import MaltModel.Proofs.C03Model
/-! Store algebra of the generated state functions (`Conv.Contract`: `evalGetter`, `getS`, `assignAll`). -/
namespace Malt.Conv.Contract
open Malt Malt.Py Malt.Conv.ControlFlow

/-! ### store algebra -/

theorem evalGetter_pure : ∀ (gs : List Expr) (w : World), (∀ g ∈ gs, (getterDen g).isSome = true) →
    (evalGetter gs w).2 = w
  | [], _, _ => rfl
  | g :: gs, w, h => by
      have hg := h g (List.mem_cons_self ..)
      have ih := evalGetter_pure gs w (fun x hx => h x (List.mem_cons_of_mem _ hx))
      unfold evalGetter
      cases hd : getterDen g with
      | none => rw [hd] at hg; cases hg
      | some en =>
        simp only
        cases hr : readEntry w.store en with
        | none => rfl
        | some v =>
          simp only
          cases he : evalGetter gs w with
          | mk r w' =>
            rw [he] at ih
            cases r <;> simpa using ih

theorem evalGetter_eq_getS : ∀ (gs : List Expr) (es : List Entry) (w : World), entriesOf gs = some es →
    (evalGetter gs w).1 = getS es w.store
  | [], es, w, h => by
      simp only [entriesOf, List.mapM_nil, Option.pure_def, Option.some.injEq] at h
      subst h; rfl
  | g :: gs, es, w, h => by
      simp only [entriesOf, List.mapM_cons, Option.bind_eq_bind, Option.pure_def] at h
      cases hd : getterDen g with
      | none => rw [hd] at h; cases h
      | some en =>
        rw [hd] at h
        simp only [Option.bind_some] at h
        cases hm : gs.mapM getterDen with
        | none => rw [hm] at h; cases h
        | some es' =>
          rw [hm] at h
          simp only [Option.bind_some, Option.some.injEq] at h
          subst h
          have ih := evalGetter_eq_getS gs es' w hm
          unfold evalGetter
          simp only [hd, getS, List.mapM_cons, Option.bind_eq_bind, Option.pure_def]
          cases hr : readEntry w.store en with
          | none => rfl
          | some v =>
            simp only [Option.bind_some]
            cases he : evalGetter gs w with
            | mk r w' =>
              rw [he] at ih
              simp only at ih
              simp only [getS] at ih
              rw [← ih]
              cases r <;> rfl

theorem update_same (σ : Store) (q : QN) (v : Val) : update σ q v q = some v := by simp [update]
theorem update_other (σ : Store) {q q' : QN} (v : Val) (h : q' ≠ q) : update σ q v q' = σ q' := by simp [update, h]

theorem assignAll_notin : ∀ (qs : List QN) (vs : List Val) (σ : Store) (q : QN), q ∉ qs →
    assignAll qs vs σ q = σ q
  | [], _, _, _, _ => by simp [assignAll]
  | _ :: _, [], _, _, _ => by simp [assignAll]
  | p :: qs, v :: vs, σ, q, h => by
      simp only [List.mem_cons, not_or] at h
      rw [assignAll, assignAll_notin qs vs _ q h.2, update_other _ _ h.1]

/-- Reading back resolved, pairwise distinct locations after writing them. -/
theorem assignAll_read : ∀ (ls : List QN) (vs : List Val) (σ : Store), ls.Nodup → ls.length = vs.length →
    ls.mapM (assignAll ls vs σ) = some vs
  | [], [], _, _, _ => rfl
  | [], _ :: _, _, _, h => by simp at h
  | _ :: _, [], _, _, h => by simp at h
  | l :: ls, v :: vs, σ, hn, hl => by
      simp only [List.nodup_cons] at hn
      simp only [List.length_cons, Nat.add_right_cancel_iff] at hl
      have ih := assignAll_read ls vs (update σ l v) hn.2 hl
      simp only [assignAll, List.mapM_cons, Option.bind_eq_bind, Option.pure_def]
      rw [assignAll_notin _ _ _ _ hn.1, update_same, Option.bind_some, ih]
      rfl

theorem mapM_congr_opt {α β : Type} {f g : α → Option β} : ∀ (l : List α), (∀ x ∈ l, f x = g x) →
    l.mapM f = l.mapM g
  | [], _ => rfl
  | a :: l, h => by
      simp only [List.mapM_cons, h a (List.mem_cons_self ..),
        mapM_congr_opt l (fun x hx => h x (List.mem_cons_of_mem _ hx))]

theorem mapM_length' {α β : Type} {f : α → Option β} : ∀ {l : List α} {r : List β},
    l.mapM f = some r → r.length = l.length
  | [], r, h => by simp only [List.mapM_nil, Option.pure_def, Option.some.injEq] at h; subst h; rfl
  | a :: l, r, h => by
      simp only [List.mapM_cons, Option.bind_eq_bind, Option.pure_def] at h
      cases hf : f a with
      | none => rw [hf] at h; cases h
      | some b =>
        rw [hf, Option.bind_some] at h
        cases hm : l.mapM f with
        | none => rw [hm] at h; cases h
        | some r' =>
          rw [hm, Option.bind_some, Option.some.injEq] at h
          subst h
          simp [mapM_length' hm]

/-! #### locations -/

theorem resolveIdx_congr {σ τ : Store} (i : QN)
    (h : ∀ k, i = .sym k → τ (.sym k) = σ (.sym k)) : resolveIdx τ i = resolveIdx σ i := by
  cases i with
  | sym k => simp [resolveIdx, h k rfl]
  | lit _ _ => rfl
  | attr _ _ => rfl
  | sub _ _ => rfl

theorem loc_congr {σ τ : Store} : ∀ (q : QN), (∀ k ∈ indexSyms q, τ (.sym k) = σ (.sym k)) → loc τ q = loc σ q
  | .sym _, _ => rfl
  | .lit _ _, _ => rfl
  | .attr b a, h => by
      simp only [loc, loc_congr b (by simpa [indexSyms] using h)]
  | .sub b i, h => by
      have hb : loc τ b = loc σ b := loc_congr b (fun k hk => h k (by simp [indexSyms, hk]))
      have hi : resolveIdx τ i = resolveIdx σ i := by
        apply resolveIdx_congr
        intro k hk
        subst hk
        exact h k (by simp [indexSyms])
      simp only [loc, hb, hi]

theorem loc_sym_eq {σ : Store} {q : QN} {s : String} (h : loc σ q = some (.sym s)) : q = .sym s := by
  cases q with
  | sym s' => simpa [loc] using h
  | lit _ _ => simp [loc] at h
  | attr b a =>
    simp only [loc, Option.map_eq_some_iff] at h
    obtain ⟨_, _, h⟩ := h; cases h
  | sub b i =>
    simp only [loc] at h
    split at h
    · cases h
    · cases h

/-- No entry's location depends on a variable the tuple rewrites. -/
def Independent (qs : List QN) : Prop := ∀ q ∈ qs, ∀ k ∈ indexSyms q, QN.sym k ∉ qs

/-- Under independence the sequential assignment is the assignment of the locations resolved up front. -/
theorem assignSeq_eq (K : List String) : ∀ (qs ls : List QN) (vs : List Val) (τ : Store),
    qs.mapM (loc τ) = some ls → (∀ q ∈ qs, ∀ k ∈ indexSyms q, k ∈ K) → (∀ l ∈ ls, ∀ k ∈ K, l ≠ .sym k) →
    assignSeq qs vs τ = some (assignAll ls vs τ)
  | [], ls, vs, τ, h, _, _ => by
      simp only [List.mapM_nil, Option.pure_def, Option.some.injEq] at h
      subst h
      cases vs <;> rfl
  | q :: qs, ls, [], τ, h, _, _ => by
      cases ls <;> rfl
  | q :: qs, ls, v :: vs, τ, h, hK, hl => by
      simp only [List.mapM_cons, Option.bind_eq_bind, Option.pure_def] at h
      cases hq : loc τ q with
      | none => rw [hq] at h; cases h
      | some l =>
        rw [hq, Option.bind_some] at h
        cases hm : qs.mapM (loc τ) with
        | none => rw [hm] at h; cases h
        | some ls' =>
          rw [hm, Option.bind_some, Option.some.injEq] at h
          subst h
          have hl0 := hl l (List.mem_cons_self ..)
          have hm' : qs.mapM (loc (update τ l v)) = some ls' := by
            rw [← hm]
            apply mapM_congr_opt
            intro q' hq'
            apply loc_congr
            intro k hk
            exact update_other _ _ (fun hkk => hl0 k (hK q' (List.mem_cons_of_mem _ hq') k hk) hkk.symm)
          simp only [assignSeq, hq, assignAll]
          exact assignSeq_eq K qs ls' vs (update τ l v) hm'
            (fun q' hq' => hK q' (List.mem_cons_of_mem _ hq')) (fun l' hl' => hl l' (List.mem_cons_of_mem _ hl'))

theorem mapM_mem {α β : Type} {f : α → Option β} : ∀ {l : List α} {r : List β}, l.mapM f = some r →
    ∀ y ∈ r, ∃ x ∈ l, f x = some y
  | [], r, h, y, hy => by
      simp only [List.mapM_nil, Option.pure_def, Option.some.injEq] at h
      subst h; cases hy
  | a :: l, r, h, y, hy => by
      simp only [List.mapM_cons, Option.bind_eq_bind, Option.pure_def] at h
      cases hf : f a with
      | none => rw [hf] at h; cases h
      | some b =>
        rw [hf, Option.bind_some] at h
        cases hm : l.mapM f with
        | none => rw [hm] at h; cases h
        | some r' =>
          rw [hm, Option.bind_some, Option.some.injEq] at h
          subst h
          rcases List.mem_cons.mp hy with rfl | hy
          · exact ⟨a, List.mem_cons_self .., hf⟩
          · obtain ⟨x, hx, hfx⟩ := mapM_mem hm y hy
            exact ⟨x, List.mem_cons_of_mem _ hx, hfx⟩

theorem getS_of_locs : ∀ (es : List Entry) (ls : List QN) (vs : List Val) (τ : Store),
    (es.map (·.qn)).mapM (loc τ) = some ls → ls.mapM τ = some vs → getS es τ = some vs
  | [], ls, vs, τ, h1, h2 => by
      simp only [List.map_nil, List.mapM_nil, Option.pure_def, Option.some.injEq] at h1
      subst h1
      simp only [List.mapM_nil, Option.pure_def, Option.some.injEq] at h2
      subst h2; rfl
  | e :: es, ls, vs, τ, h1, h2 => by
      simp only [List.map_cons, List.mapM_cons, Option.bind_eq_bind, Option.pure_def] at h1
      cases hq : loc τ e.qn with
      | none => rw [hq] at h1; cases h1
      | some l =>
        rw [hq, Option.bind_some] at h1
        cases hm : (es.map (·.qn)).mapM (loc τ) with
        | none => rw [hm] at h1; cases h1
        | some ls' =>
          rw [hm, Option.bind_some, Option.some.injEq] at h1
          subst h1
          simp only [List.mapM_cons, Option.bind_eq_bind, Option.pure_def] at h2
          cases hl : τ l with
          | none => rw [hl] at h2; cases h2
          | some v =>
            rw [hl, Option.bind_some] at h2
            cases hm2 : ls'.mapM τ with
            | none => rw [hm2] at h2; cases h2
            | some vs' =>
              rw [hm2, Option.bind_some, Option.some.injEq] at h2
              subst h2
              have ih := getS_of_locs es ls' vs' τ hm hm2
              simp only [getS] at ih
              simp only [getS, List.mapM_cons, readEntry, hq, Option.bind_some, hl, ih, Option.bind_eq_bind,
                Option.pure_def]

/-- A write followed by a read returns what was written — PROVIDED no entry's location depends on a variable the
tuple itself rewrites (`Independent`) and the entries denote pairwise distinct locations at call time. -/
theorem getS_setS (es : List Entry) (vs : List Val) (σ : Store) (ls : List QN)
    (hind : Independent (es.map (·.qn))) (hloc : (es.map (·.qn)).mapM (loc σ) = some ls)
    (hnd : ls.Nodup) (hlen : es.length = vs.length) :
    ∃ σ', assignSeq (es.map (·.qn)) vs σ = some σ' ∧ getS es σ' = some vs := by
  let K := (es.map (·.qn)).flatMap indexSyms
  have hK : ∀ q ∈ es.map (·.qn), ∀ k ∈ indexSyms q, k ∈ K := fun q hq k hk =>
    List.mem_flatMap.mpr ⟨q, hq, hk⟩
  have hl : ∀ l ∈ ls, ∀ k ∈ K, l ≠ .sym k := by
    intro l hlm k hk heq
    subst heq
    obtain ⟨q, hq, hlq⟩ := mapM_mem hloc _ hlm
    have := loc_sym_eq hlq
    subst this
    obtain ⟨q', hq', hk'⟩ := List.mem_flatMap.mp hk
    exact hind q' hq' k hk' hq
  refine ⟨assignAll ls vs σ, assignSeq_eq K _ ls vs σ hloc hK hl, ?_⟩
  have hlen' : ls.length = vs.length := by
    have := mapM_length' hloc
    simp only [List.length_map] at this
    rw [this, hlen]
  apply getS_of_locs es ls vs _ _ (assignAll_read ls vs σ hnd hlen')
  rw [← hloc]
  apply mapM_congr_opt
  intro q hq
  apply loc_congr
  intro k hk
  apply assignAll_notin
  intro hmem
  exact hl _ hmem k (hK q hq k hk) rfl

/-- Writing back what was just read changes nothing — PROVIDED every guarded entry exists in the store. -/
theorem setS_getS : ∀ (es : List Entry) (vs : List Val) (σ : Store),
    (∀ e ∈ es, e.guarded = true → (loc σ e.qn).bind σ ≠ none) → getS es σ = some vs →
    assignSeq (es.map (·.qn)) vs σ = some σ
  | [], vs, σ, _, h => by
      simp only [getS, List.mapM_nil, Option.pure_def, Option.some.injEq] at h
      subst h; rfl
  | e :: es, vs, σ, hex, h => by
      simp only [getS, List.mapM_cons, Option.bind_eq_bind, Option.pure_def] at h
      have he := hex e (List.mem_cons_self ..)
      cases hs : (loc σ e.qn).bind σ with
      | none =>
        cases hg : e.guarded with
        | true => exact absurd hs (he hg)
        | false => simp [readEntry, hs, hg] at h
      | some v =>
        have hr : readEntry σ e = some v := by simp [readEntry, hs]
        rw [hr, Option.bind_some] at h
        cases hm : es.mapM (readEntry σ) with
        | none => rw [hm] at h; cases h
        | some vs' =>
          rw [hm] at h
          simp only [Option.bind_some, Option.some.injEq] at h
          subst h
          cases hq : loc σ e.qn with
          | none => rw [hq] at hs; cases hs
          | some l =>
            rw [hq, Option.bind_some] at hs
            have hu : update σ l v = σ := by
              funext q
              by_cases hql : q = l
              · subst hql; rw [update_same, hs]
              · rw [update_other _ _ hql]
            simp only [List.map_cons, assignSeq, hq, hu]
            exact setS_getS es vs' σ (fun e' he' => hex e' (List.mem_cons_of_mem _ he')) hm

/-- From position-wise agreement: the getter's entries and the setter's targets are the same variables. -/
theorem entries_of_all3 : ∀ {ns gs ts : List Expr}, All3 PosOk ns gs ts →
    ∃ es, entriesOf gs = some es ∧ ts.mapM exprQN = some (es.map (·.qn))
  | _, _, _, .nil => ⟨[], rfl, rfl⟩
  | _, _, _, .cons (a := n) (b := g) (c := t) hp hr => by
      obtain ⟨es, h1, h2⟩ := entries_of_all3 hr
      obtain ⟨s, en, _, hg, hq, ht, _, _⟩ := hp
      refine ⟨en :: es, ?_, ?_⟩
      · simp only [entriesOf, List.mapM_cons, hg, Option.bind_eq_bind, Option.bind_some, Option.pure_def]
        simp only [entriesOf] at h1
        rw [h1]; rfl
      · simp only [List.mapM_cons, ht, Option.bind_eq_bind, Option.bind_some, h2, Option.pure_def, List.map_cons, hq]

end Malt.Conv.Contract
