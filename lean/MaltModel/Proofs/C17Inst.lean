import MaltModel.Proofs.C17Ctx
import MaltModel.Proofs.C17Fresh
/- C17 helper lemmas: context well-formedness is preserved by copy_clean, established by the ContextAdjuster under
`exposedOk`, and preserved by template instantiation under `usesOk`. -/
set_option linter.unusedSimpArgs false
set_option linter.unusedVariables false
namespace Malt.Conv.Template
open Malt.Py Malt.Conv

/-! ### copies -/
mutual
theorem copyE_wf : ∀ (e : Expr) (c : Ctx) (n : Nat), WfE c e → WfE c (copyE e n).1
  | .noneMarker, c, n, h => by simp [copyE, WfE]
  | .name _ _ _, c, n, h => by simp only [WfE] at h; simp [copyE, WfE, h]
  | .attr _ v _ _, c, n, h => by
      simp only [WfE] at h
      have i1 := copyE_wf v .load (n + 1) h.2
      simp [copyE, WfE, h.1, i1]
  | .subscript _ v s _, c, n, h => by
      simp only [WfE] at h
      have i1 := copyE_wf v .load (n + 1) h.2.1
      have i2 := copyE_wf s .load (copyE v (n + 1)).2 h.2.2
      simp [copyE, WfE, h.1, i1, i2]
  | .seq _ k es _, c, n, h => by
      simp only [WfE] at h
      have i1 := copyEs_wf es c (n + 1) h.2.2
      simp [copyE, WfE, h.1, h.2.1, i1]
  | .starred _ v _, c, n, h => by
      simp only [WfE] at h
      have i1 := copyE_wf v c (n + 1) h.2
      simp [copyE, WfE, h.1, i1]
  | .const _ f_kind f_repr, c, n, h => by
      simp only [WfE] at h
      simp [copyE, WfE, h]
  | .call _ f_func f_args f_keywords, c, n, h => by
      simp only [WfE] at h
      have i0 := fun m => copyE_wf f_func .load m h.2.1
      have i1 := fun m => copyEs_wf f_args .load m h.2.2.1
      have i2 := fun m => copyEs_wf f_keywords .load m h.2.2.2
      simp [copyE, WfE, h.1, i0, i1, i2]
  | .keyword _ f_arg f_hasArg f_value, c, n, h => by
      simp only [WfE] at h
      have i0 := fun m => copyE_wf f_value .load m h.2
      simp [copyE, WfE, h.1, i0]
  | .boolop _ f_isAnd f_values, c, n, h => by
      simp only [WfE] at h
      have i0 := fun m => copyEs_wf f_values .load m h.2
      simp [copyE, WfE, h.1, i0]
  | .unary _ f_op f_operand, c, n, h => by
      simp only [WfE] at h
      have i0 := fun m => copyE_wf f_operand .load m h.2
      simp [copyE, WfE, h.1, i0]
  | .binop _ f_op f_left f_right, c, n, h => by
      simp only [WfE] at h
      have i0 := fun m => copyE_wf f_left .load m h.2.1
      have i1 := fun m => copyE_wf f_right .load m h.2.2
      simp [copyE, WfE, h.1, i0, i1]
  | .compare _ f_left f_ops f_comparators, c, n, h => by
      simp only [WfE] at h
      have i0 := fun m => copyE_wf f_left .load m h.2.1
      have i1 := fun m => copyEs_wf f_comparators .load m h.2.2
      simp [copyE, WfE, h.1, i0, i1]
  | .ifexp _ f_test f_body f_orelse, c, n, h => by
      simp only [WfE] at h
      have i0 := fun m => copyE_wf f_test .load m h.2.1
      have i1 := fun m => copyE_wf f_body .load m h.2.2.1
      have i2 := fun m => copyE_wf f_orelse .load m h.2.2.2
      simp [copyE, WfE, h.1, i0, i1, i2]
  | .lambda _ f_args f_body, c, n, h => by
      simp only [WfE] at h
      have i0 := fun m => copyE_wf f_args .load m h.2.1
      have i1 := fun m => copyE_wf f_body .load m h.2.2
      simp [copyE, WfE, h.1, i0, i1]
  | .namedexpr _ f_target f_value, c, n, h => by
      simp only [WfE] at h
      have i0 := fun m => copyE_wf f_target .store m h.2.1
      have i1 := fun m => copyE_wf f_value .load m h.2.2
      simp [copyE, WfE, h.1, i0, i1]
  | .comp _ f_kind f_elts f_generators, c, n, h => by
      simp only [WfE] at h
      have i0 := fun m => copyEs_wf f_elts .load m h.2.1
      have i1 := fun m => copyEs_wf f_generators .load m h.2.2
      simp [copyE, WfE, h.1, i0, i1]
  | .comprehension _ f_target f_iter f_ifs f_isAsync, c, n, h => by
      simp only [WfE] at h
      have i0 := fun m => copyE_wf f_target .store m h.2.1
      have i1 := fun m => copyE_wf f_iter .load m h.2.2.1
      have i2 := fun m => copyEs_wf f_ifs .load m h.2.2.2
      simp [copyE, WfE, h.1, i0, i1, i2]
  | .arguments _ f_posonly f_args f_vararg f_kwonly f_kwDefaults f_kwarg f_defaults, c, n, h => by
      simp only [WfE] at h
      have i0 := fun m => copyEs_wf f_posonly .load m h.2.1
      have i1 := fun m => copyEs_wf f_args .load m h.2.2.1
      have i2 := fun m => copyEs_wf f_vararg .load m h.2.2.2.1
      have i3 := fun m => copyEs_wf f_kwonly .load m h.2.2.2.2.1
      have i4 := fun m => copyEs_wf f_kwDefaults .load m h.2.2.2.2.2.1
      have i5 := fun m => copyEs_wf f_kwarg .load m h.2.2.2.2.2.2.1
      have i6 := fun m => copyEs_wf f_defaults .load m h.2.2.2.2.2.2.2
      simp [copyE, WfE, h.1, i0, i1, i2, i3, i4, i5, i6]
  | .arg _ f_name f_annotation, c, n, h => by
      simp only [WfE] at h
      have i0 := fun m => copyEs_wf f_annotation .load m h.2
      simp [copyE, WfE, h.1, i0]
  | .withitem _ f_contextExpr f_optionalVars, c, n, h => by
      simp only [WfE] at h
      have i0 := fun m => copyE_wf f_contextExpr .load m h.2.1
      have i1 := fun m => copyEs_wf f_optionalVars .store m h.2.2
      simp [copyE, WfE, h.1, i0, i1]
  | .other _ f_kind f_attrs f_kids, c, n, h => by
      simp only [WfE] at h
      have i0 := fun m => copyEs_wf f_kids .load m h.2
      simp [copyE, WfE, h.1, i0]
theorem copyEs_wf : ∀ (es : List Expr) (c : Ctx) (n : Nat), WfEs c es → WfEs c (copyEs es n).1
  | [], c, n, h => by simp [copyEs, WfEs]
  | e :: es, c, n, h => by
      simp only [WfEs] at h
      have i1 := copyE_wf e c n h.1
      have i2 := copyEs_wf es c (copyE e n).2 h.2
      simp [copyEs, WfEs, i1, i2]
end
mutual
theorem copyS_wf : ∀ (s : Stmt) (n : Nat), WfS s → WfS (copyS s n).1
  | .functionDef _ f_name f_args f_body f_decorators f_returns f_isAsync, n, h => by
      simp only [WfS] at h
      have i0 := fun m => copyE_wf f_args .load m h.1
      have i1 := fun m => copySs_wf f_body m h.2.1
      have i2 := fun m => copyEs_wf f_decorators .load m h.2.2.1
      have i3 := fun m => copyEs_wf f_returns .load m h.2.2.2
      simp [copyS, WfS, i0, i1, i2, i3]
  | .classDef _ f_name f_bases f_keywords f_body f_decorators, n, h => by
      simp only [WfS] at h
      have i0 := fun m => copyEs_wf f_bases .load m h.1
      have i1 := fun m => copyEs_wf f_keywords .load m h.2.1
      have i2 := fun m => copySs_wf f_body m h.2.2.1
      have i3 := fun m => copyEs_wf f_decorators .load m h.2.2.2
      simp [copyS, WfS, i0, i1, i2, i3]
  | .ret _ f_value, n, h => by
      simp only [WfS] at h
      have i0 := fun m => copyEs_wf f_value .load m h
      simp [copyS, WfS, i0]
  | .delete _ f_targets, n, h => by
      simp only [WfS] at h
      have i0 := fun m => copyEs_wf f_targets .del m h
      simp [copyS, WfS, i0]
  | .assign _ f_targets f_value, n, h => by
      simp only [WfS] at h
      have i0 := fun m => copyEs_wf f_targets .store m h.1
      have i1 := fun m => copyE_wf f_value .load m h.2
      simp [copyS, WfS, i0, i1]
  | .augAssign _ f_target f_op f_value, n, h => by
      simp only [WfS] at h
      have i0 := fun m => copyE_wf f_target .store m h.1
      have i1 := fun m => copyE_wf f_value .load m h.2
      simp [copyS, WfS, i0, i1]
  | .annAssign _ f_target f_annotation f_value f_simple, n, h => by
      simp only [WfS] at h
      have i0 := fun m => copyE_wf f_target .store m h.1
      have i1 := fun m => copyE_wf f_annotation .load m h.2.1
      have i2 := fun m => copyEs_wf f_value .load m h.2.2
      simp [copyS, WfS, i0, i1, i2]
  | .for_ _ f_target f_iter f_body f_orelse f_extraTest f_isAsync, n, h => by
      simp only [WfS] at h
      have i0 := fun m => copyE_wf f_target .store m h.1
      have i1 := fun m => copyE_wf f_iter .load m h.2.1
      have i2 := fun m => copySs_wf f_body m h.2.2.1
      have i3 := fun m => copySs_wf f_orelse m h.2.2.2.1
      have i4 := fun m => copyEs_wf f_extraTest .load m h.2.2.2.2
      simp [copyS, WfS, i0, i1, i2, i3, i4]
  | .while_ _ f_test f_body f_orelse, n, h => by
      simp only [WfS] at h
      have i0 := fun m => copyE_wf f_test .load m h.1
      have i1 := fun m => copySs_wf f_body m h.2.1
      have i2 := fun m => copySs_wf f_orelse m h.2.2
      simp [copyS, WfS, i0, i1, i2]
  | .if_ _ f_test f_body f_orelse, n, h => by
      simp only [WfS] at h
      have i0 := fun m => copyE_wf f_test .load m h.1
      have i1 := fun m => copySs_wf f_body m h.2.1
      have i2 := fun m => copySs_wf f_orelse m h.2.2
      simp [copyS, WfS, i0, i1, i2]
  | .with_ _ f_items f_body f_isAsync, n, h => by
      simp only [WfS] at h
      have i0 := fun m => copyEs_wf f_items .load m h.1
      have i1 := fun m => copySs_wf f_body m h.2
      simp [copyS, WfS, i0, i1]
  | .raise _ f_exc f_cause, n, h => by
      simp only [WfS] at h
      have i0 := fun m => copyEs_wf f_exc .load m h.1
      have i1 := fun m => copyEs_wf f_cause .load m h.2
      simp [copyS, WfS, i0, i1]
  | .try_ _ f_body f_handlers f_orelse f_finalbody, n, h => by
      simp only [WfS] at h
      have i0 := fun m => copySs_wf f_body m h.1
      have i1 := fun m => copySs_wf f_handlers m h.2.1
      have i2 := fun m => copySs_wf f_orelse m h.2.2.1
      have i3 := fun m => copySs_wf f_finalbody m h.2.2.2
      simp [copyS, WfS, i0, i1, i2, i3]
  | .handler _ f_type_ f_name f_body, n, h => by
      simp only [WfS] at h
      have i0 := fun m => copyEs_wf f_type_ .load m h.1
      have i1 := fun m => copySs_wf f_body m h.2
      simp [copyS, WfS, i0, i1]
  | .assert_ _ f_test f_msg, n, h => by
      simp only [WfS] at h
      have i0 := fun m => copyE_wf f_test .load m h.1
      have i1 := fun m => copyEs_wf f_msg .load m h.2
      simp [copyS, WfS, i0, i1]
  | .import_ _ f_names, n, h => by
      simp only [WfS] at h
      simp [copyS, WfS]
  | .importFrom _ f_module f_names f_level, n, h => by
      simp only [WfS] at h
      simp [copyS, WfS]
  | .global _ f_names, n, h => by
      simp only [WfS] at h
      simp [copyS, WfS]
  | .nonlocal _ f_names, n, h => by
      simp only [WfS] at h
      simp [copyS, WfS]
  | .expr _ f_value, n, h => by
      simp only [WfS] at h
      have i0 := fun m => copyE_wf f_value .load m h
      simp [copyS, WfS, i0]
  | .pass _, n, h => by
      simp only [WfS] at h
      simp [copyS, WfS]
  | .break_ _, n, h => by
      simp only [WfS] at h
      simp [copyS, WfS]
  | .continue_ _, n, h => by
      simp only [WfS] at h
      simp [copyS, WfS]
  | .other _ f_kind f_exprs f_blocks, n, h => by
      simp only [WfS] at h
      have i0 := fun m => copyEs_wf f_exprs .load m h.1
      have i1 := fun m => copySs_wf f_blocks m h.2
      simp [copyS, WfS, i0, i1]
theorem copySs_wf : ∀ (ss : List Stmt) (n : Nat), WfSs ss → WfSs (copySs ss n).1
  | [], n, h => by simp [copySs, WfSs]
  | s :: ss, n, h => by
      simp only [WfSs] at h
      have i1 := copyS_wf s n h.1
      have i2 := copySs_wf ss (copyS s n).2 h.2
      simp [copySs, WfSs, i1, i2]
end

theorem copyEs_isEmpty : ∀ (es : List Expr) (n : Nat), (copyEs es n).1.isEmpty = es.isEmpty
  | [], n => by simp [copyEs]
  | e :: es, n => by simp [copyEs]

/-! ### the copy has the same shape as far as the adjuster's preconditions are concerned -/
mutual
theorem copy_exposedOk : ∀ (e : Expr) (c : Ctx) (n : Nat), exposedOk c (copyE e n).1 = exposedOk c e
  | .noneMarker, c, n => by simp [copyE]
  | .name _ f_s f_ctx, c, n => by simp [copyE, exposedOk]
  | .attr _ f_value f_attr f_ctx, c, n => by simp [copyE, exposedOk, copy_exposedOk f_value]
  | .subscript _ f_value f_slice f_ctx, c, n => by simp [copyE, exposedOk, copy_exposedOk f_value, copy_exposedOk f_slice]
  | .seq _ f_kind f_elts f_ctx, c, n => by simp [copyE, exposedOk, copy_exposedOkEs f_elts]
  | .starred _ f_value f_ctx, c, n => by simp [copyE, exposedOk, copy_exposedOk f_value]
  | .const _ f_kind f_repr, c, n => by simp [copyE, exposedOk]
  | .call _ f_func f_args f_keywords, c, n => by simp [copyE, exposedOk, copy_exposedOk f_func, copy_exposedOkEs f_args, copy_exposedOkEs f_keywords]
  | .keyword _ f_arg f_hasArg f_value, c, n => by simp [copyE, exposedOk, copy_exposedOk f_value]
  | .boolop _ f_isAnd f_values, c, n => by simp [copyE, exposedOk, copy_exposedOkEs f_values]
  | .unary _ f_op f_operand, c, n => by simp [copyE, exposedOk, copy_exposedOk f_operand]
  | .binop _ f_op f_left f_right, c, n => by simp [copyE, exposedOk, copy_exposedOk f_left, copy_exposedOk f_right]
  | .compare _ f_left f_ops f_comparators, c, n => by simp [copyE, exposedOk, copy_exposedOk f_left, copy_exposedOkEs f_comparators]
  | .ifexp _ f_test f_body f_orelse, c, n => by simp [copyE, exposedOk, copy_exposedOk f_test, copy_exposedOk f_body, copy_exposedOk f_orelse]
  | .lambda _ f_args f_body, c, n => by simp [copyE, exposedOk, copy_exposedOk f_args, copy_exposedOk f_body]
  | .namedexpr _ f_target f_value, c, n => by simp [copyE, exposedOk, copy_exposedOk f_target, copy_exposedOk f_value]
  | .comp _ f_kind f_elts f_generators, c, n => by simp [copyE, exposedOk, copy_exposedOkEs f_elts, copy_exposedOkEs f_generators]
  | .comprehension _ f_target f_iter f_ifs f_isAsync, c, n => by simp [copyE, exposedOk, copy_exposedOk f_target, copy_exposedOk f_iter, copy_exposedOkEs f_ifs]
  | .arguments _ f_posonly f_args f_vararg f_kwonly f_kwDefaults f_kwarg f_defaults, c, n => by simp [copyE, exposedOk, copy_exposedOkEs f_posonly, copy_exposedOkEs f_args, copy_exposedOkEs f_vararg, copy_exposedOkEs f_kwonly, copy_exposedOkEs f_kwDefaults, copy_exposedOkEs f_kwarg, copy_exposedOkEs f_defaults]
  | .arg _ f_name f_annotation, c, n => by simp [copyE, exposedOk, copy_exposedOkEs f_annotation]
  | .withitem _ f_contextExpr f_optionalVars, c, n => by simp [copyE, exposedOk, copy_exposedOk f_contextExpr, copy_exposedOkEs f_optionalVars, copyEs_isEmpty]
  | .other _ f_kind f_attrs f_kids, c, n => by simp [copyE, exposedOk, copy_exposedOkEs f_kids]
theorem copy_exposedOkEs : ∀ (es : List Expr) (c : Ctx) (n : Nat), exposedOkEs c (copyEs es n).1 = exposedOkEs c es
  | [], c, n => by simp [copyEs]
  | e :: es, c, n => by simp [copyEs, exposedOkEs, copy_exposedOk e, copy_exposedOkEs es]
end

theorem copy_hasCtxField (e : Expr) (n : Nat) : hasCtxField (copyE e n).1 = hasCtxField e := by
  cases e <;> simp [copyE, hasCtxField]

theorem copy_isName (e : Expr) (n : Nat) : isName (copyE e n).1 = isName e := by
  cases e <;> simp [copyE, isName]

theorem copy_useOk (c : Ctx) (e : Expr) (n : Nat) : useOk c (copyE e n).1 = useOk c e := by
  simp [useOk, copy_hasCtxField, copy_exposedOk]

/-! ### ContextAdjuster -/
mutual
theorem adjust_wf : ∀ (e : Expr) (c0 c : Ctx), WfE c0 e → exposedOk c e = true → WfE c (adjust c e)
  | .noneMarker, _, _, _, _ => by simp [adjust, WfE]
  | .name .., _, _, _, _ => by simp [adjust, WfE]
  | .attr _ v _ _, c0, c, hw, hx => by
      simp only [WfE] at hw
      simp only [exposedOk] at hx
      have i1 := adjust_wf v _ _ hw.2 hx
      simp [adjust, WfE, i1]
  | .subscript _ v s _, c0, c, hw, hx => by
      simp only [WfE] at hw
      simp only [exposedOk, Bool.and_eq_true] at hx
      have i1 := adjust_wf v _ _ hw.2.1 hx.1
      have i2 := adjust_wf s _ _ hw.2.2 hx.2
      simp [adjust, WfE, i1, i2]
  | .seq _ k es c', c0, c, hw, hx => by
      simp only [WfE] at hw
      simp only [exposedOk, Bool.and_eq_true, Bool.or_eq_true, bne_iff_ne, ne_eq, beq_iff_eq] at hx
      have i1 := adjustEs_wf es _ _ hw.2.2 hx.2
      by_cases hk : k = .set
      · have hc : c = .load := by
          cases hx.1 with
          | inl h => exact absurd hk h
          | inr h => exact h
        have hc0 : c0 = .load := by
          cases hw.2.1 with
          | inl h => exact absurd hk h
          | inr h => exact h
        have hc' : c' = .load := by rw [hw.1, hc0]
        simp [adjust, WfE, hk, hc, hc'] at i1 ⊢
        exact i1
      · simp [adjust, WfE, hk, i1]
  | .starred _ v c', c0, c, hw, hx => by
      simp only [WfE] at hw
      simp only [exposedOk, Bool.and_eq_true, beq_iff_eq] at hx
      have i1 := adjust_wf v _ _ hw.2 hx.2
      simp [adjust, WfE, hx.1, i1]
  | .const .., c0, c, hw, hx => by
      simp only [exposedOk, beq_iff_eq] at hx
      simp [adjust, WfE, hx]
  | .call _ f as ks, c0, c, hw, hx => by
      simp only [WfE] at hw
      simp only [exposedOk, beq_iff_eq] at hx
      simp [adjust, WfE, hx, hw.2]
  | .lambda _ a b, c0, c, hw, hx => by
      simp only [WfE] at hw
      simp only [exposedOk, beq_iff_eq] at hx
      simp [adjust, WfE, hx, hw.2]
  | .comprehension _ t it ifs a, c0, c, hw, hx => by
      simp only [WfE] at hw
      simp only [exposedOk, beq_iff_eq] at hx
      simp [adjust, WfE, hx, hw.2]
  | .keyword _ _ _ v, c0, c, hw, hx => by
      simp only [WfE] at hw
      simp only [exposedOk, Bool.and_eq_true, beq_iff_eq, and_assoc] at hx
      obtain ⟨rfl, h1⟩ := hx
      have i1 := adjust_wf v _ _ hw.2 h1
      simp [adjust, WfE, i1]
  | .boolop _ _ vs, c0, c, hw, hx => by
      simp only [WfE] at hw
      simp only [exposedOk, Bool.and_eq_true, beq_iff_eq, and_assoc] at hx
      obtain ⟨rfl, h1⟩ := hx
      have i1 := adjustEs_wf vs _ _ hw.2 h1
      simp [adjust, WfE, i1]
  | .unary _ _ e, c0, c, hw, hx => by
      simp only [WfE] at hw
      simp only [exposedOk, Bool.and_eq_true, beq_iff_eq, and_assoc] at hx
      obtain ⟨rfl, h1⟩ := hx
      have i1 := adjust_wf e _ _ hw.2 h1
      simp [adjust, WfE, i1]
  | .binop _ _ l r, c0, c, hw, hx => by
      simp only [WfE] at hw
      simp only [exposedOk, Bool.and_eq_true, beq_iff_eq, and_assoc] at hx
      obtain ⟨rfl, h1, h2⟩ := hx
      have i1 := adjust_wf l _ _ hw.2.1 h1
      have i2 := adjust_wf r _ _ hw.2.2 h2
      simp [adjust, WfE, i1, i2]
  | .compare _ l _ rs, c0, c, hw, hx => by
      simp only [WfE] at hw
      simp only [exposedOk, Bool.and_eq_true, beq_iff_eq, and_assoc] at hx
      obtain ⟨rfl, h1, h2⟩ := hx
      have i1 := adjust_wf l _ _ hw.2.1 h1
      have i2 := adjustEs_wf rs _ _ hw.2.2 h2
      simp [adjust, WfE, i1, i2]
  | .ifexp _ t b e, c0, c, hw, hx => by
      simp only [WfE] at hw
      simp only [exposedOk, Bool.and_eq_true, beq_iff_eq, and_assoc] at hx
      obtain ⟨rfl, h1, h2, h3⟩ := hx
      have i1 := adjust_wf t _ _ hw.2.1 h1
      have i2 := adjust_wf b _ _ hw.2.2.1 h2
      have i3 := adjust_wf e _ _ hw.2.2.2 h3
      simp [adjust, WfE, i1, i2, i3]
  | .namedexpr .., _, _, _, hx => by simp [exposedOk] at hx
  | .comp _ _ es gs, c0, c, hw, hx => by
      simp only [WfE] at hw
      simp only [exposedOk, Bool.and_eq_true, beq_iff_eq, and_assoc] at hx
      obtain ⟨rfl, h1, h2⟩ := hx
      have i1 := adjustEs_wf es _ _ hw.2.1 h1
      have i2 := adjustEs_wf gs _ _ hw.2.2 h2
      simp [adjust, WfE, i1, i2]
  | .arguments _ po ar va ko kd kw df, c0, c, hw, hx => by
      simp only [WfE] at hw
      simp only [exposedOk, Bool.and_eq_true, beq_iff_eq, and_assoc] at hx
      obtain ⟨rfl, h1, h2, h3, h4, h5, h6, h7⟩ := hx
      have i1 := adjustEs_wf po _ _ hw.2.1 h1
      have i2 := adjustEs_wf ar _ _ hw.2.2.1 h2
      have i3 := adjustEs_wf va _ _ hw.2.2.2.1 h3
      have i4 := adjustEs_wf ko _ _ hw.2.2.2.2.1 h4
      have i5 := adjustEs_wf kd _ _ hw.2.2.2.2.2.1 h5
      have i6 := adjustEs_wf kw _ _ hw.2.2.2.2.2.2.1 h6
      have i7 := adjustEs_wf df _ _ hw.2.2.2.2.2.2.2 h7
      simp [adjust, WfE, i1, i2, i3, i4, i5, i6, i7]
  | .arg _ _ an, c0, c, hw, hx => by
      simp only [WfE] at hw
      simp only [exposedOk, Bool.and_eq_true, beq_iff_eq, and_assoc] at hx
      obtain ⟨rfl, h1⟩ := hx
      have i1 := adjustEs_wf an _ _ hw.2 h1
      simp [adjust, WfE, i1]
  | .withitem _ ce ov, c0, c, hw, hx => by
      simp only [WfE] at hw
      simp only [exposedOk, Bool.and_eq_true, beq_iff_eq, and_assoc, List.isEmpty_iff] at hx
      obtain ⟨rfl, h1, rfl⟩ := hx
      have i1 := adjust_wf ce _ _ hw.2.1 h1
      simp [adjust, adjustEs, WfE, WfEs, i1]
  | .other _ k _ kids, c0, c, hw, hx => by
      simp only [WfE] at hw
      simp only [exposedOk, Bool.and_eq_true, Bool.or_eq_true, beq_iff_eq] at hx
      obtain ⟨rfl, h1⟩ := hx
      by_cases hk : k = "Dict"
      · simp [adjust, hk, WfE, hw.2]
      · have h2 : exposedOkEs .load kids = true := by
          cases h1 with
          | inl h => exact absurd h hk
          | inr h => exact h
        have i1 := adjustEs_wf kids _ _ hw.2 h2
        simp [adjust, hk, WfE, i1]
theorem adjustEs_wf : ∀ (es : List Expr) (c0 c : Ctx), WfEs c0 es → exposedOkEs c es = true → WfEs c (adjustEs c es)
  | [], _, _, _, _ => by simp [adjustEs, WfEs]
  | e :: es, c0, c, hw, hx => by
      simp only [WfEs] at hw
      simp only [exposedOkEs, Bool.and_eq_true] at hx
      have i1 := adjust_wf e _ _ hw.1 hx.1
      have i2 := adjustEs_wf es _ _ hw.2 hx.2
      simp [adjustEs, WfEs, i1, i2]
end

/-- a node without a ctx field is only well-formed in a `Load` position -/
theorem wf_load_of_noCtx (e : Expr) (c0 : Ctx) (hw : WfE c0 e) (hn : hasCtxField e = false) : WfE .load e := by
  cases e with
  | seq i k es c' =>
      have hk : k = .set := by simpa [hasCtxField] using hn
      subst hk
      simp only [WfE] at hw
      obtain ⟨h1, h2, h3⟩ := hw
      have hc : c0 = .load := by simpa using h2
      subst hc
      simp [WfE, h1, h3]
  | name | attr | subscript | starred => simp [hasCtxField] at hn
  | noneMarker => simp [WfE]
  | _ => simp [WfE] at hw ⊢ <;> exact hw.2

theorem adjTop_wf (e : Expr) (c0 c : Ctx) (hw : WfE c0 e) (hu : useOk c e = true) : WfE c (adjTop c e) := by
  unfold useOk at hu
  unfold adjTop
  by_cases hc : hasCtxField e = true
  · simp only [hc, if_true] at hu ⊢
    exact adjust_wf e c0 c hw hu
  · have hc' : hasCtxField e = false := by simpa using hc
    simp only [hc', Bool.false_eq_true, if_false, beq_iff_eq] at hu ⊢
    subst hu
    exact wf_load_of_noCtx e c0 hw hc'

/-! ### bindings -/

/-- every bound node was well-formed where it came from (`∃ c`), every bound statement is well-formed -/
def BindingWf : Binding → Prop
  | .node e => ∃ c, WfE c e
  | .nodes es => ∀ e ∈ es, ∃ c, WfE c e
  | .stmt s => WfS s
  | .stmts ss => WfSs ss

def BindingsWf (b : Bindings) : Prop := ∀ p ∈ b, BindingWf p.2

theorem lookup_mem : ∀ (b : Bindings) (s : String) (bd : Binding), b.lookup s = some bd → ∃ k, (k, bd) ∈ b
  | [], s, bd, h => by simp [List.lookup] at h
  | (k, v) :: r, s, bd, h => by
      simp only [List.lookup] at h
      split at h
      · simp only [Option.some.injEq] at h
        exact ⟨k, by simp [h]⟩
      · obtain ⟨k', hk⟩ := lookup_mem r s bd h
        exact ⟨k', List.mem_cons_of_mem _ hk⟩

theorem BindingsWf.of_lookup {b : Bindings} (hb : BindingsWf b) {s : String} {bd : Binding} (h : b.lookup s = some bd) :
    BindingWf bd := by
  obtain ⟨k, hk⟩ := lookup_mem b s bd h
  exact hb (k, bd) hk

theorem copyEs_adj_wf (c : Ctx) : ∀ (es : List Expr) (n : Nat), (∀ e ∈ es, ∃ c0, WfE c0 e) → es.all (useOk c) = true →
    WfEs c ((copyEs es n).1.map (adjTop c))
  | [], n, _, _ => by simp [copyEs, WfEs]
  | e :: es, n, hw, hu => by
      simp only [List.all_cons, Bool.and_eq_true] at hu
      obtain ⟨c0, h0⟩ := hw e (by simp)
      have i1 := adjTop_wf (copyE e n).1 c0 c (copyE_wf e c0 n h0) (by rw [copy_useOk]; exact hu.1)
      have i2 := copyEs_adj_wf c es (copyE e n).2 (fun x hx => hw x (by simp [hx])) hu.2
      simp [copyEs, WfEs, i1, i2]

theorem copyEs_noCtx_wf : ∀ (es : List Expr) (n : Nat), (∀ e ∈ es, ∃ c0, WfE c0 e) → (∀ e ∈ es, hasCtxField e = false) →
    WfEs .load (copyEs es n).1
  | [], n, _, _ => by simp [copyEs, WfEs]
  | e :: es, n, hw, hn => by
      obtain ⟨c0, h0⟩ := hw e (by simp)
      have i1 := copyE_wf e .load n (wf_load_of_noCtx e c0 h0 (hn e (by simp)))
      have i2 := copyEs_noCtx_wf es (copyE e n).2 (fun x hx => hw x (by simp [hx])) (fun x hx => hn x (by simp [hx]))
      simp [copyEs, WfEs, i1, i2]

theorem isKeyword_noCtx (e : Expr) (h : isKeyword e = true) : hasCtxField e = false := by
  cases e <;> simp [isKeyword] at h <;> simp [hasCtxField]

theorem argRepl_wf : ∀ (es : List Expr) (n : Nat), (∀ e ∈ es, ∃ c0, WfE c0 e) →
    es.all (fun x => isName x || !hasCtxField x) = true → WfEs .load (argRepl es n).1
  | [], n, _, _ => by simp [argRepl, WfEs]
  | e :: es, n, hw, hu => by
      simp only [List.all_cons, Bool.and_eq_true] at hu
      have hrec := fun m => argRepl_wf es m (fun x hx => hw x (by simp [hx])) hu.2
      obtain ⟨c0, h0⟩ := hw e (by simp)
      cases e with
      | name i s c => simp [argRepl, WfEs, WfE, hrec]
      | attr | subscript | starred => simp [isName, hasCtxField] at hu
      | seq i k es' c' =>
          simp only [argRepl, WfEs]
          refine ⟨wf_load_of_noCtx _ c0 h0 ?_, hrec _⟩
          simpa [isName, hasCtxField] using hu.1
      | _ =>
          simp only [argRepl, WfEs]
          exact ⟨wf_load_of_noCtx _ c0 h0 (by simp [hasCtxField]), hrec _⟩

theorem WfEs_append : ∀ (c : Ctx) (l r : List Expr), WfEs c (l ++ r) ↔ WfEs c l ∧ WfEs c r
  | c, [], r => by simp [WfEs]
  | c, e :: l, r => by simp [WfEs, WfEs_append c l r, and_assoc]

theorem WfSs_append : ∀ (l r : List Stmt), WfSs (l ++ r) ↔ WfSs l ∧ WfSs r
  | [], r => by simp [WfSs]
  | e :: l, r => by simp [WfSs, WfSs_append l r, and_assoc]

/-! ### `ReplaceTransformer` preserves context well-formedness -/
mutual
theorem instE_wf (b : Bindings) (hb : BindingsWf b) : ∀ (e : Expr) (c : Ctx) (n : Nat) (r : List Expr) (n' : Nat),
    WfE c e → usesOkE b e = true → instE b e n = .ok (r, n') → WfEs c r
  | .noneMarker, c, n, r, n', _, _, h => by
      simp only [instE, Except.ok.injEq, Prod.mk.injEq] at h
      obtain ⟨rfl, rfl⟩ := h
      simp [WfEs, WfE]
  | .name _ s c', c, n, r, n', hw, hu, h => by
      simp only [WfE] at hw
      subst hw
      simp only [usesOkE] at hu
      simp only [instE] at h
      split at h
      · simp only [Except.ok.injEq, Prod.mk.injEq] at h
        obtain ⟨rfl, rfl⟩ := h
        simp [WfEs, WfE]
      · rename_i e hl
        rw [hl] at hu
        simp only [Except.ok.injEq, Prod.mk.injEq] at h
        obtain ⟨rfl, rfl⟩ := h
        obtain ⟨c0, h0⟩ := hb.of_lookup hl
        have := copyEs_adj_wf c' [e] n (by intro x hx; simp at hx; subst hx; exact ⟨c0, h0⟩) (by simpa [Binding.exprs] using hu)
        simpa [copyEs] using this
      · rename_i es hl
        rw [hl] at hu
        simp only [Except.ok.injEq, Prod.mk.injEq] at h
        obtain ⟨rfl, rfl⟩ := h
        exact copyEs_adj_wf c' es n (hb.of_lookup hl) (by simpa [Binding.exprs] using hu)
      · simp only [Except.ok.injEq, Prod.mk.injEq] at h
        obtain ⟨rfl, rfl⟩ := h
        simp [WfEs]
      · simp at h
  | .attr _ f_value f_attr f_ctx, c, n, r, n', hw, hu, h => by
      simp only [WfE] at hw
      simp only [usesOkE] at hu
      simp only [instE, R.bind_ok, single_ok] at h
      obtain ⟨v', n1, h1, h2⟩ := h
      have i1 := instE_wf b hb f_value _ _ _ _ hw.2 hu h1
      simp only [WfEs, and_true] at i1
      split at h2
      · simp only [Except.ok.injEq, Prod.mk.injEq] at h2
        obtain ⟨rfl, rfl⟩ := h2
        simp [WfEs, WfE, hw.1, i1]
      · simp at h2
  | .keyword _ f_arg f_hasArg f_value, c, n, r, n', hw, hu, h => by
      simp only [WfE] at hw
      obtain ⟨rfl, hw2⟩ := hw
      simp only [usesOkE] at hu
      simp only [instE] at h
      split at h
      · rename_i bd hl
        split at h
        · rename_i hk
          simp only [Except.ok.injEq, Prod.mk.injEq] at h
          obtain ⟨rfl, rfl⟩ := h
          have hl' : b.lookup f_arg = some bd := by
            by_cases hh : f_hasArg = true
            · simpa [hh] using hl
            · simp [hh] at hl
          simp only [Bool.and_eq_true, List.all_eq_true] at hk
          have hbw := hb.of_lookup hl'
          refine copyEs_noCtx_wf _ _ ?_ (fun e he => isKeyword_noCtx e (hk.1 e he))
          cases bd with
          | node e => intro x hx; simp [Binding.exprs] at hx; subst hx; exact hbw
          | nodes es => intro x hx; exact hbw x (by simpa [Binding.exprs] using hx)
          | stmt s => intro x hx; simp [Binding.exprs] at hx
          | stmts ss => intro x hx; simp [Binding.exprs] at hx
        · simp at h
      · rename_i hnone
        rw [hnone] at hu
        simp only [R.bind_ok, single_ok] at h
        obtain ⟨v', n1, h1, h2⟩ := h
        have i1 := instE_wf b hb f_value _ _ _ _ hw2 hu h1
        simp only [WfEs, and_true] at i1
        simp only [Except.ok.injEq, Prod.mk.injEq] at h2
        obtain ⟨rfl, rfl⟩ := h2
        simp [WfEs, WfE, i1]
  | .arg _ f_name f_annotation, c, n, r, n', hw, hu, h => by
      simp only [WfE] at hw
      obtain ⟨rfl, hw2⟩ := hw
      simp only [usesOkE] at hu
      simp only [instE] at h
      split at h
      · simp only [Except.ok.injEq, Prod.mk.injEq] at h
        obtain ⟨rfl, rfl⟩ := h
        have := copyEs_wf f_annotation .load (n + 1) hw2
        simp [WfEs, WfE, this]
      · rename_i e hl
        rw [hl] at hu
        simp only [Except.ok.injEq, Prod.mk.injEq] at h
        obtain ⟨rfl, rfl⟩ := h
        have hbw := hb.of_lookup hl
        exact argRepl_wf [e] n (by intro x hx; simp at hx; subst hx; exact hbw) (by simpa [Binding.exprs] using hu)
      · rename_i es hl
        rw [hl] at hu
        simp only [Except.ok.injEq, Prod.mk.injEq] at h
        obtain ⟨rfl, rfl⟩ := h
        exact argRepl_wf es n (hb.of_lookup hl) (by simpa [Binding.exprs] using hu)
      · simp only [Except.ok.injEq, Prod.mk.injEq] at h
        obtain ⟨rfl, rfl⟩ := h
        simp [WfEs]
      · simp at h
  | .subscript _ f_value f_slice f_ctx, c, n, r, n', hw, hu, h => by
      simp only [WfE] at hw
      simp only [usesOkE, Bool.and_eq_true] at hu
      simp only [instE, R.bind_ok, single_ok] at h
      obtain ⟨x0, m0, h0, x1, m1, h1, hres⟩ := h
      simp only [Except.ok.injEq, Prod.mk.injEq] at hres
      obtain ⟨rfl, rfl⟩ := hres
      have i0 := instE_wf b hb f_value _ _ _ _ hw.2.1 hu.1 h0
      have i1 := instE_wf b hb f_slice _ _ _ _ hw.2.2 hu.2 h1
      simp only [WfEs, and_true] at i0 i1
      simp [WfEs, WfE, hw.1, i0, i1]
  | .seq _ f_kind f_elts f_ctx, c, n, r, n', hw, hu, h => by
      simp only [WfE] at hw
      simp only [usesOkE] at hu
      simp only [instE, R.bind_ok] at h
      obtain ⟨x0, m0, h0, hres⟩ := h
      simp only [Except.ok.injEq, Prod.mk.injEq] at hres
      obtain ⟨rfl, rfl⟩ := hres
      have i0 := instEs_wf b hb f_elts _ _ _ _ hw.2.2 hu h0
      simp [WfEs, WfE, hw.1, hw.2.1, i0]
  | .starred _ f_value f_ctx, c, n, r, n', hw, hu, h => by
      simp only [WfE] at hw
      simp only [usesOkE] at hu
      simp only [instE, R.bind_ok, single_ok] at h
      obtain ⟨x0, m0, h0, hres⟩ := h
      simp only [Except.ok.injEq, Prod.mk.injEq] at hres
      obtain ⟨rfl, rfl⟩ := hres
      have i0 := instE_wf b hb f_value _ _ _ _ hw.2 hu h0
      simp only [WfEs, and_true] at i0
      simp [WfEs, WfE, hw.1, i0]
  | .const _ f_kind f_repr, c, n, r, n', hw, hu, h => by
      simp only [WfE] at hw
      subst hw
      simp only [usesOkE, Bool.and_eq_true] at hu
      simp only [instE, R.bind_ok, single_ok, sameLen_ok, atMost_ok] at h
      have hres := h
      simp only [Except.ok.injEq, Prod.mk.injEq] at hres
      obtain ⟨rfl, rfl⟩ := hres
      simp [WfEs, WfE]
  | .call _ f_func f_args f_keywords, c, n, r, n', hw, hu, h => by
      simp only [WfE] at hw
      obtain ⟨rfl, hw⟩ := hw
      simp only [usesOkE, Bool.and_eq_true] at hu
      simp only [instE, R.bind_ok, single_ok, sameLen_ok, atMost_ok] at h
      obtain ⟨x0, m0, h0, x1, m1, h1, x2, m2, h2, hres⟩ := h
      simp only [Except.ok.injEq, Prod.mk.injEq] at hres
      obtain ⟨rfl, rfl⟩ := hres
      have i0 := instE_wf b hb f_func _ _ _ _ hw.1 hu.1 h0
      have i1 := instEs_wf b hb f_args _ _ _ _ hw.2.1 hu.2.1 h1
      have i2 := instEs_wf b hb f_keywords _ _ _ _ hw.2.2 hu.2.2 h2
      simp only [WfEs, and_true] at i0
      simp [WfEs, WfE, i0, i1, i2]
  | .boolop _ f_isAnd f_values, c, n, r, n', hw, hu, h => by
      simp only [WfE] at hw
      obtain ⟨rfl, hw⟩ := hw
      simp only [usesOkE, Bool.and_eq_true] at hu
      simp only [instE, R.bind_ok, single_ok, sameLen_ok, atMost_ok] at h
      obtain ⟨x0, m0, h0, hres⟩ := h
      simp only [Except.ok.injEq, Prod.mk.injEq] at hres
      obtain ⟨rfl, rfl⟩ := hres
      have i0 := instEs_wf b hb f_values _ _ _ _ hw hu h0
      simp [WfEs, WfE, i0]
  | .unary _ f_op f_operand, c, n, r, n', hw, hu, h => by
      simp only [WfE] at hw
      obtain ⟨rfl, hw⟩ := hw
      simp only [usesOkE, Bool.and_eq_true] at hu
      simp only [instE, R.bind_ok, single_ok, sameLen_ok, atMost_ok] at h
      obtain ⟨x0, m0, h0, hres⟩ := h
      simp only [Except.ok.injEq, Prod.mk.injEq] at hres
      obtain ⟨rfl, rfl⟩ := hres
      have i0 := instE_wf b hb f_operand _ _ _ _ hw hu h0
      simp only [WfEs, and_true] at i0
      simp [WfEs, WfE, i0]
  | .binop _ f_op f_left f_right, c, n, r, n', hw, hu, h => by
      simp only [WfE] at hw
      obtain ⟨rfl, hw⟩ := hw
      simp only [usesOkE, Bool.and_eq_true] at hu
      simp only [instE, R.bind_ok, single_ok, sameLen_ok, atMost_ok] at h
      obtain ⟨x0, m0, h0, x1, m1, h1, hres⟩ := h
      simp only [Except.ok.injEq, Prod.mk.injEq] at hres
      obtain ⟨rfl, rfl⟩ := hres
      have i0 := instE_wf b hb f_left _ _ _ _ hw.1 hu.1 h0
      have i1 := instE_wf b hb f_right _ _ _ _ hw.2 hu.2 h1
      simp only [WfEs, and_true] at i0 i1
      simp [WfEs, WfE, i0, i1]
  | .compare _ f_left f_ops f_comparators, c, n, r, n', hw, hu, h => by
      simp only [WfE] at hw
      obtain ⟨rfl, hw⟩ := hw
      simp only [usesOkE, Bool.and_eq_true] at hu
      simp only [instE, R.bind_ok, single_ok, sameLen_ok, atMost_ok] at h
      obtain ⟨x0, m0, h0, x1, m1, ⟨h1, _⟩, hres⟩ := h
      simp only [Except.ok.injEq, Prod.mk.injEq] at hres
      obtain ⟨rfl, rfl⟩ := hres
      have i0 := instE_wf b hb f_left _ _ _ _ hw.1 hu.1 h0
      have i1 := instEs_wf b hb f_comparators _ _ _ _ hw.2 hu.2 h1
      simp only [WfEs, and_true] at i0
      simp [WfEs, WfE, i0, i1]
  | .ifexp _ f_test f_body f_orelse, c, n, r, n', hw, hu, h => by
      simp only [WfE] at hw
      obtain ⟨rfl, hw⟩ := hw
      simp only [usesOkE, Bool.and_eq_true] at hu
      simp only [instE, R.bind_ok, single_ok, sameLen_ok, atMost_ok] at h
      obtain ⟨x0, m0, h0, x1, m1, h1, x2, m2, h2, hres⟩ := h
      simp only [Except.ok.injEq, Prod.mk.injEq] at hres
      obtain ⟨rfl, rfl⟩ := hres
      have i0 := instE_wf b hb f_test _ _ _ _ hw.1 hu.1 h0
      have i1 := instE_wf b hb f_body _ _ _ _ hw.2.1 hu.2.1 h1
      have i2 := instE_wf b hb f_orelse _ _ _ _ hw.2.2 hu.2.2 h2
      simp only [WfEs, and_true] at i0 i1 i2
      simp [WfEs, WfE, i0, i1, i2]
  | .lambda _ f_args f_body, c, n, r, n', hw, hu, h => by
      simp only [WfE] at hw
      obtain ⟨rfl, hw⟩ := hw
      simp only [usesOkE, Bool.and_eq_true] at hu
      simp only [instE, R.bind_ok, single_ok, sameLen_ok, atMost_ok] at h
      obtain ⟨x0, m0, h0, x1, m1, h1, hres⟩ := h
      simp only [Except.ok.injEq, Prod.mk.injEq] at hres
      obtain ⟨rfl, rfl⟩ := hres
      have i0 := instE_wf b hb f_args _ _ _ _ hw.1 hu.1 h0
      have i1 := instE_wf b hb f_body _ _ _ _ hw.2 hu.2 h1
      simp only [WfEs, and_true] at i0 i1
      simp [WfEs, WfE, i0, i1]
  | .namedexpr _ f_target f_value, c, n, r, n', hw, hu, h => by
      simp only [WfE] at hw
      obtain ⟨rfl, hw⟩ := hw
      simp only [usesOkE, Bool.and_eq_true] at hu
      simp only [instE, R.bind_ok, single_ok, sameLen_ok, atMost_ok] at h
      obtain ⟨x0, m0, h0, x1, m1, h1, hres⟩ := h
      simp only [Except.ok.injEq, Prod.mk.injEq] at hres
      obtain ⟨rfl, rfl⟩ := hres
      have i0 := instE_wf b hb f_target _ _ _ _ hw.1 hu.1 h0
      have i1 := instE_wf b hb f_value _ _ _ _ hw.2 hu.2 h1
      simp only [WfEs, and_true] at i0 i1
      simp [WfEs, WfE, i0, i1]
  | .comp _ f_kind f_elts f_generators, c, n, r, n', hw, hu, h => by
      simp only [WfE] at hw
      obtain ⟨rfl, hw⟩ := hw
      simp only [usesOkE, Bool.and_eq_true] at hu
      simp only [instE, R.bind_ok, single_ok, sameLen_ok, atMost_ok] at h
      obtain ⟨x0, m0, ⟨h0, _⟩, x1, m1, h1, hres⟩ := h
      simp only [Except.ok.injEq, Prod.mk.injEq] at hres
      obtain ⟨rfl, rfl⟩ := hres
      have i0 := instEs_wf b hb f_elts _ _ _ _ hw.1 hu.1 h0
      have i1 := instEs_wf b hb f_generators _ _ _ _ hw.2 hu.2 h1
      simp [WfEs, WfE, i0, i1]
  | .comprehension _ f_target f_iter f_ifs f_isAsync, c, n, r, n', hw, hu, h => by
      simp only [WfE] at hw
      obtain ⟨rfl, hw⟩ := hw
      simp only [usesOkE, Bool.and_eq_true] at hu
      simp only [instE, R.bind_ok, single_ok, sameLen_ok, atMost_ok] at h
      obtain ⟨x0, m0, h0, x1, m1, h1, x2, m2, h2, hres⟩ := h
      simp only [Except.ok.injEq, Prod.mk.injEq] at hres
      obtain ⟨rfl, rfl⟩ := hres
      have i0 := instE_wf b hb f_target _ _ _ _ hw.1 hu.1 h0
      have i1 := instE_wf b hb f_iter _ _ _ _ hw.2.1 hu.2.1 h1
      have i2 := instEs_wf b hb f_ifs _ _ _ _ hw.2.2 hu.2.2 h2
      simp only [WfEs, and_true] at i0 i1
      simp [WfEs, WfE, i0, i1, i2]
  | .arguments _ f_posonly f_args f_vararg f_kwonly f_kwDefaults f_kwarg f_defaults, c, n, r, n', hw, hu, h => by
      simp only [WfE] at hw
      obtain ⟨rfl, hw⟩ := hw
      simp only [usesOkE, Bool.and_eq_true] at hu
      simp only [instE, R.bind_ok, single_ok, sameLen_ok, atMost_ok] at h
      obtain ⟨x0, m0, h0, x1, m1, h1, x2, m2, ⟨h2, _⟩, x3, m3, h3, x4, m4, ⟨h4, _⟩, x5, m5, ⟨h5, _⟩, x6, m6, ⟨h6, _⟩, hres⟩ := h
      simp only [Except.ok.injEq, Prod.mk.injEq] at hres
      obtain ⟨rfl, rfl⟩ := hres
      have i0 := instEs_wf b hb f_posonly _ _ _ _ hw.1 hu.1 h0
      have i1 := instEs_wf b hb f_args _ _ _ _ hw.2.1 hu.2.1 h1
      have i2 := instEs_wf b hb f_vararg _ _ _ _ hw.2.2.1 hu.2.2.1 h2
      have i3 := instEs_wf b hb f_kwonly _ _ _ _ hw.2.2.2.1 hu.2.2.2.1 h3
      have i4 := instEs_wf b hb f_kwDefaults _ _ _ _ hw.2.2.2.2.1 hu.2.2.2.2.1 h4
      have i5 := instEs_wf b hb f_kwarg _ _ _ _ hw.2.2.2.2.2.1 hu.2.2.2.2.2.1 h5
      have i6 := instEs_wf b hb f_defaults _ _ _ _ hw.2.2.2.2.2.2 hu.2.2.2.2.2.2 h6
      simp [WfEs, WfE, i0, i1, i2, i3, i4, i5, i6]
  | .withitem _ f_contextExpr f_optionalVars, c, n, r, n', hw, hu, h => by
      simp only [WfE] at hw
      obtain ⟨rfl, hw⟩ := hw
      simp only [usesOkE, Bool.and_eq_true] at hu
      simp only [instE, R.bind_ok, single_ok, sameLen_ok, atMost_ok] at h
      obtain ⟨x0, m0, h0, x1, m1, ⟨h1, _⟩, hres⟩ := h
      simp only [Except.ok.injEq, Prod.mk.injEq] at hres
      obtain ⟨rfl, rfl⟩ := hres
      have i0 := instE_wf b hb f_contextExpr _ _ _ _ hw.1 hu.1 h0
      have i1 := instEs_wf b hb f_optionalVars _ _ _ _ hw.2 hu.2 h1
      simp only [WfEs, and_true] at i0
      simp [WfEs, WfE, i0, i1]
  | .other _ f_kind f_attrs f_kids, c, n, r, n', hw, hu, h => by
      simp only [WfE] at hw
      obtain ⟨rfl, hw⟩ := hw
      simp only [usesOkE, Bool.and_eq_true] at hu
      simp only [instE, R.bind_ok, single_ok, sameLen_ok, atMost_ok] at h
      obtain ⟨x0, m0, ⟨h0, _⟩, hres⟩ := h
      simp only [Except.ok.injEq, Prod.mk.injEq] at hres
      obtain ⟨rfl, rfl⟩ := hres
      have i0 := instEs_wf b hb f_kids _ _ _ _ hw hu h0
      simp [WfEs, WfE, i0]
theorem instEs_wf (b : Bindings) (hb : BindingsWf b) : ∀ (es : List Expr) (c : Ctx) (n : Nat) (r : List Expr) (n' : Nat),
    WfEs c es → usesOkEs b es = true → instEs b es n = .ok (r, n') → WfEs c r
  | [], c, n, r, n', _, _, h => by
      simp only [instEs, Except.ok.injEq, Prod.mk.injEq] at h
      obtain ⟨rfl, rfl⟩ := h
      simp [WfEs]
  | e :: es, c, n, r, n', hw, hu, h => by
      simp only [WfEs] at hw
      simp only [usesOkEs, Bool.and_eq_true] at hu
      simp only [instEs, R.bind_ok] at h
      obtain ⟨l, n1, h1, t, n2, h2, hres⟩ := h
      simp only [Except.ok.injEq, Prod.mk.injEq] at hres
      obtain ⟨rfl, rfl⟩ := hres
      have i1 := instE_wf b hb e _ _ _ _ hw.1 hu.1 h1
      have i2 := instEs_wf b hb es _ _ _ _ hw.2 hu.2 h2
      exact (WfEs_append _ _ _).2 ⟨i1, i2⟩
end

mutual
theorem instS_wf (b : Bindings) (hb : BindingsWf b) : ∀ (s : Stmt) (n : Nat) (r : List Stmt) (n' : Nat),
    WfS s → usesOkS b s = true → instS b s n = .ok (r, n') → WfSs r
  | .expr _ f_value, n, r, n', hw, hu, h => by
      simp only [WfS] at hw
      simp only [instS] at h
      split at h
      · rename_i i s c
        simp only [WfE] at hw
        split at h
        · simp only [Except.ok.injEq, Prod.mk.injEq] at h
          obtain ⟨rfl, rfl⟩ := h
          simp [WfSs, WfS, WfE, hw]
        · rename_i st hl
          simp only [Except.ok.injEq, Prod.mk.injEq] at h
          obtain ⟨rfl, rfl⟩ := h
          have := copyS_wf st n (hb.of_lookup hl)
          simp [WfSs, this]
        · rename_i ss hl
          simp only [Except.ok.injEq, Prod.mk.injEq] at h
          obtain ⟨rfl, rfl⟩ := h
          exact copySs_wf ss n (hb.of_lookup hl)
        · simp only [Except.ok.injEq, Prod.mk.injEq] at h
          obtain ⟨rfl, rfl⟩ := h
          simp [WfSs]
        · simp at h
      · rename_i hnn
        simp only [R.bind_ok, single_ok] at h
        obtain ⟨v', n1, h1, h2⟩ := h
        have hu' : usesOkE b f_value = true := by
          cases f_value <;> first | (simp only [usesOkS] at hu; exact hu) | (exact absurd rfl (hnn _ _ _))
        have i1 := instE_wf b hb f_value _ _ _ _ hw hu' h1
        simp only [WfEs, and_true] at i1
        simp only [Except.ok.injEq, Prod.mk.injEq] at h2
        obtain ⟨rfl, rfl⟩ := h2
        simp [WfSs, WfS, i1]
  | .functionDef _ f_name f_args f_body f_decorators f_returns f_isAsync, n, r, n', hw, hu, h => by
      simp only [WfS] at hw
      simp only [usesOkS, Bool.and_eq_true] at hu
      simp only [instS, R.bind_ok, single_ok, sameLen_ok, atMost_ok] at h
      obtain ⟨x0, m0, h0, x1, m1, h1, x2, m2, h2, x3, m3, ⟨h3, _⟩, hres⟩ := h
      have i0 := instE_wf b hb f_args _ _ _ _ hw.1 hu.1 h0
      have i1 := instSs_wf b hb f_body _ _ _ hw.2.1 hu.2.1 h1
      have i2 := instEs_wf b hb f_decorators _ _ _ _ hw.2.2.1 hu.2.2.1 h2
      have i3 := instEs_wf b hb f_returns _ _ _ _ hw.2.2.2 hu.2.2.2 h3
      simp only [WfEs, and_true] at i0
      split at hres
      · simp only [Except.ok.injEq, Prod.mk.injEq] at hres
        obtain ⟨rfl, rfl⟩ := hres
        simp [WfSs, WfS, i0, i1, i2, i3]
      · simp at hres
  | .classDef _ f_name f_bases f_keywords f_body f_decorators, n, r, n', hw, hu, h => by
      simp only [WfS] at hw
      simp only [usesOkS, Bool.and_eq_true] at hu
      simp only [instS, R.bind_ok, single_ok, sameLen_ok, atMost_ok] at h
      obtain ⟨x0, m0, h0, x1, m1, h1, x2, m2, h2, x3, m3, h3, hres⟩ := h
      simp only [Except.ok.injEq, Prod.mk.injEq] at hres
      obtain ⟨rfl, rfl⟩ := hres
      have i0 := instEs_wf b hb f_bases _ _ _ _ hw.1 hu.1 h0
      have i1 := instEs_wf b hb f_keywords _ _ _ _ hw.2.1 hu.2.1 h1
      have i2 := instSs_wf b hb f_body _ _ _ hw.2.2.1 hu.2.2.1 h2
      have i3 := instEs_wf b hb f_decorators _ _ _ _ hw.2.2.2 hu.2.2.2 h3
      simp [WfSs, WfS, i0, i1, i2, i3]
  | .ret _ f_value, n, r, n', hw, hu, h => by
      simp only [WfS] at hw
      simp only [usesOkS, Bool.and_eq_true] at hu
      simp only [instS, R.bind_ok, single_ok, sameLen_ok, atMost_ok] at h
      obtain ⟨x0, m0, ⟨h0, _⟩, hres⟩ := h
      simp only [Except.ok.injEq, Prod.mk.injEq] at hres
      obtain ⟨rfl, rfl⟩ := hres
      have i0 := instEs_wf b hb f_value _ _ _ _ hw hu h0
      simp [WfSs, WfS, i0]
  | .delete _ f_targets, n, r, n', hw, hu, h => by
      simp only [WfS] at hw
      simp only [usesOkS, Bool.and_eq_true] at hu
      simp only [instS, R.bind_ok, single_ok, sameLen_ok, atMost_ok] at h
      obtain ⟨x0, m0, h0, hres⟩ := h
      simp only [Except.ok.injEq, Prod.mk.injEq] at hres
      obtain ⟨rfl, rfl⟩ := hres
      have i0 := instEs_wf b hb f_targets _ _ _ _ hw hu h0
      simp [WfSs, WfS, i0]
  | .assign _ f_targets f_value, n, r, n', hw, hu, h => by
      simp only [WfS] at hw
      simp only [usesOkS, Bool.and_eq_true] at hu
      simp only [instS, R.bind_ok, single_ok, sameLen_ok, atMost_ok] at h
      obtain ⟨x0, m0, h0, x1, m1, h1, hres⟩ := h
      simp only [Except.ok.injEq, Prod.mk.injEq] at hres
      obtain ⟨rfl, rfl⟩ := hres
      have i0 := instEs_wf b hb f_targets _ _ _ _ hw.1 hu.1 h0
      have i1 := instE_wf b hb f_value _ _ _ _ hw.2 hu.2 h1
      simp only [WfEs, and_true] at i1
      simp [WfSs, WfS, i0, i1]
  | .augAssign _ f_target f_op f_value, n, r, n', hw, hu, h => by
      simp only [WfS] at hw
      simp only [usesOkS, Bool.and_eq_true] at hu
      simp only [instS, R.bind_ok, single_ok, sameLen_ok, atMost_ok] at h
      obtain ⟨x0, m0, h0, x1, m1, h1, hres⟩ := h
      simp only [Except.ok.injEq, Prod.mk.injEq] at hres
      obtain ⟨rfl, rfl⟩ := hres
      have i0 := instE_wf b hb f_target _ _ _ _ hw.1 hu.1 h0
      have i1 := instE_wf b hb f_value _ _ _ _ hw.2 hu.2 h1
      simp only [WfEs, and_true] at i0 i1
      simp [WfSs, WfS, i0, i1]
  | .annAssign _ f_target f_annotation f_value f_simple, n, r, n', hw, hu, h => by
      simp only [WfS] at hw
      simp only [usesOkS, Bool.and_eq_true] at hu
      simp only [instS, R.bind_ok, single_ok, sameLen_ok, atMost_ok] at h
      obtain ⟨x0, m0, h0, x1, m1, h1, x2, m2, ⟨h2, _⟩, hres⟩ := h
      simp only [Except.ok.injEq, Prod.mk.injEq] at hres
      obtain ⟨rfl, rfl⟩ := hres
      have i0 := instE_wf b hb f_target _ _ _ _ hw.1 hu.1 h0
      have i1 := instE_wf b hb f_annotation _ _ _ _ hw.2.1 hu.2.1 h1
      have i2 := instEs_wf b hb f_value _ _ _ _ hw.2.2 hu.2.2 h2
      simp only [WfEs, and_true] at i0 i1
      simp [WfSs, WfS, i0, i1, i2]
  | .for_ _ f_target f_iter f_body f_orelse f_extraTest f_isAsync, n, r, n', hw, hu, h => by
      simp only [WfS] at hw
      simp only [usesOkS, Bool.and_eq_true] at hu
      simp only [instS, R.bind_ok, single_ok, sameLen_ok, atMost_ok] at h
      obtain ⟨x0, m0, h0, x1, m1, h1, x2, m2, h2, x3, m3, h3, x4, m4, ⟨h4, _⟩, hres⟩ := h
      simp only [Except.ok.injEq, Prod.mk.injEq] at hres
      obtain ⟨rfl, rfl⟩ := hres
      have i0 := instE_wf b hb f_target _ _ _ _ hw.1 hu.1 h0
      have i1 := instE_wf b hb f_iter _ _ _ _ hw.2.1 hu.2.1 h1
      have i2 := instSs_wf b hb f_body _ _ _ hw.2.2.1 hu.2.2.1 h2
      have i3 := instSs_wf b hb f_orelse _ _ _ hw.2.2.2.1 hu.2.2.2.1 h3
      have i4 := instEs_wf b hb f_extraTest _ _ _ _ hw.2.2.2.2 hu.2.2.2.2 h4
      simp only [WfEs, and_true] at i0 i1
      simp [WfSs, WfS, i0, i1, i2, i3, i4]
  | .while_ _ f_test f_body f_orelse, n, r, n', hw, hu, h => by
      simp only [WfS] at hw
      simp only [usesOkS, Bool.and_eq_true] at hu
      simp only [instS, R.bind_ok, single_ok, sameLen_ok, atMost_ok] at h
      obtain ⟨x0, m0, h0, x1, m1, h1, x2, m2, h2, hres⟩ := h
      simp only [Except.ok.injEq, Prod.mk.injEq] at hres
      obtain ⟨rfl, rfl⟩ := hres
      have i0 := instE_wf b hb f_test _ _ _ _ hw.1 hu.1 h0
      have i1 := instSs_wf b hb f_body _ _ _ hw.2.1 hu.2.1 h1
      have i2 := instSs_wf b hb f_orelse _ _ _ hw.2.2 hu.2.2 h2
      simp only [WfEs, and_true] at i0
      simp [WfSs, WfS, i0, i1, i2]
  | .if_ _ f_test f_body f_orelse, n, r, n', hw, hu, h => by
      simp only [WfS] at hw
      simp only [usesOkS, Bool.and_eq_true] at hu
      simp only [instS, R.bind_ok, single_ok, sameLen_ok, atMost_ok] at h
      obtain ⟨x0, m0, h0, x1, m1, h1, x2, m2, h2, hres⟩ := h
      simp only [Except.ok.injEq, Prod.mk.injEq] at hres
      obtain ⟨rfl, rfl⟩ := hres
      have i0 := instE_wf b hb f_test _ _ _ _ hw.1 hu.1 h0
      have i1 := instSs_wf b hb f_body _ _ _ hw.2.1 hu.2.1 h1
      have i2 := instSs_wf b hb f_orelse _ _ _ hw.2.2 hu.2.2 h2
      simp only [WfEs, and_true] at i0
      simp [WfSs, WfS, i0, i1, i2]
  | .with_ _ f_items f_body f_isAsync, n, r, n', hw, hu, h => by
      simp only [WfS] at hw
      simp only [usesOkS, Bool.and_eq_true] at hu
      simp only [instS, R.bind_ok, single_ok, sameLen_ok, atMost_ok] at h
      obtain ⟨x0, m0, h0, x1, m1, h1, hres⟩ := h
      simp only [Except.ok.injEq, Prod.mk.injEq] at hres
      obtain ⟨rfl, rfl⟩ := hres
      have i0 := instEs_wf b hb f_items _ _ _ _ hw.1 hu.1 h0
      have i1 := instSs_wf b hb f_body _ _ _ hw.2 hu.2 h1
      simp [WfSs, WfS, i0, i1]
  | .raise _ f_exc f_cause, n, r, n', hw, hu, h => by
      simp only [WfS] at hw
      simp only [usesOkS, Bool.and_eq_true] at hu
      simp only [instS, R.bind_ok, single_ok, sameLen_ok, atMost_ok] at h
      obtain ⟨x0, m0, ⟨h0, _⟩, x1, m1, ⟨h1, _⟩, hres⟩ := h
      simp only [Except.ok.injEq, Prod.mk.injEq] at hres
      obtain ⟨rfl, rfl⟩ := hres
      have i0 := instEs_wf b hb f_exc _ _ _ _ hw.1 hu.1 h0
      have i1 := instEs_wf b hb f_cause _ _ _ _ hw.2 hu.2 h1
      simp [WfSs, WfS, i0, i1]
  | .try_ _ f_body f_handlers f_orelse f_finalbody, n, r, n', hw, hu, h => by
      simp only [WfS] at hw
      simp only [usesOkS, Bool.and_eq_true] at hu
      simp only [instS, R.bind_ok, single_ok, sameLen_ok, atMost_ok] at h
      obtain ⟨x0, m0, h0, x1, m1, h1, x2, m2, h2, x3, m3, h3, hres⟩ := h
      simp only [Except.ok.injEq, Prod.mk.injEq] at hres
      obtain ⟨rfl, rfl⟩ := hres
      have i0 := instSs_wf b hb f_body _ _ _ hw.1 hu.1 h0
      have i1 := instSs_wf b hb f_handlers _ _ _ hw.2.1 hu.2.1 h1
      have i2 := instSs_wf b hb f_orelse _ _ _ hw.2.2.1 hu.2.2.1 h2
      have i3 := instSs_wf b hb f_finalbody _ _ _ hw.2.2.2 hu.2.2.2 h3
      simp [WfSs, WfS, i0, i1, i2, i3]
  | .handler _ f_type_ f_name f_body, n, r, n', hw, hu, h => by
      simp only [WfS] at hw
      simp only [usesOkS, Bool.and_eq_true] at hu
      simp only [instS, R.bind_ok, single_ok, sameLen_ok, atMost_ok] at h
      obtain ⟨x0, m0, ⟨h0, _⟩, x1, m1, h1, hres⟩ := h
      simp only [Except.ok.injEq, Prod.mk.injEq] at hres
      obtain ⟨rfl, rfl⟩ := hres
      have i0 := instEs_wf b hb f_type_ _ _ _ _ hw.1 hu.1 h0
      have i1 := instSs_wf b hb f_body _ _ _ hw.2 hu.2 h1
      simp [WfSs, WfS, i0, i1]
  | .assert_ _ f_test f_msg, n, r, n', hw, hu, h => by
      simp only [WfS] at hw
      simp only [usesOkS, Bool.and_eq_true] at hu
      simp only [instS, R.bind_ok, single_ok, sameLen_ok, atMost_ok] at h
      obtain ⟨x0, m0, h0, x1, m1, ⟨h1, _⟩, hres⟩ := h
      simp only [Except.ok.injEq, Prod.mk.injEq] at hres
      obtain ⟨rfl, rfl⟩ := hres
      have i0 := instE_wf b hb f_test _ _ _ _ hw.1 hu.1 h0
      have i1 := instEs_wf b hb f_msg _ _ _ _ hw.2 hu.2 h1
      simp only [WfEs, and_true] at i0
      simp [WfSs, WfS, i0, i1]
  | .import_ _ f_names, n, r, n', hw, hu, h => by
      simp only [WfS] at hw
      simp only [usesOkS, Bool.and_eq_true] at hu
      simp only [instS, R.bind_ok, single_ok, sameLen_ok, atMost_ok] at h
      have hres := h
      simp only [Except.ok.injEq, Prod.mk.injEq] at hres
      obtain ⟨rfl, rfl⟩ := hres
      simp [WfSs, WfS]
  | .importFrom _ f_module f_names f_level, n, r, n', hw, hu, h => by
      simp only [WfS] at hw
      simp only [usesOkS, Bool.and_eq_true] at hu
      simp only [instS, R.bind_ok, single_ok, sameLen_ok, atMost_ok] at h
      have hres := h
      simp only [Except.ok.injEq, Prod.mk.injEq] at hres
      obtain ⟨rfl, rfl⟩ := hres
      simp [WfSs, WfS]
  | .global _ f_names, n, r, n', hw, hu, h => by
      simp only [WfS] at hw
      simp only [usesOkS, Bool.and_eq_true] at hu
      simp only [instS, R.bind_ok, single_ok, sameLen_ok, atMost_ok] at h
      have hres := h
      simp only [Except.ok.injEq, Prod.mk.injEq] at hres
      obtain ⟨rfl, rfl⟩ := hres
      simp [WfSs, WfS]
  | .nonlocal _ f_names, n, r, n', hw, hu, h => by
      simp only [WfS] at hw
      simp only [usesOkS, Bool.and_eq_true] at hu
      simp only [instS, R.bind_ok, single_ok, sameLen_ok, atMost_ok] at h
      have hres := h
      simp only [Except.ok.injEq, Prod.mk.injEq] at hres
      obtain ⟨rfl, rfl⟩ := hres
      simp [WfSs, WfS]
  | .pass _, n, r, n', hw, hu, h => by
      simp only [WfS] at hw
      simp only [usesOkS, Bool.and_eq_true] at hu
      simp only [instS, R.bind_ok, single_ok, sameLen_ok, atMost_ok] at h
      have hres := h
      simp only [Except.ok.injEq, Prod.mk.injEq] at hres
      obtain ⟨rfl, rfl⟩ := hres
      simp [WfSs, WfS]
  | .break_ _, n, r, n', hw, hu, h => by
      simp only [WfS] at hw
      simp only [usesOkS, Bool.and_eq_true] at hu
      simp only [instS, R.bind_ok, single_ok, sameLen_ok, atMost_ok] at h
      have hres := h
      simp only [Except.ok.injEq, Prod.mk.injEq] at hres
      obtain ⟨rfl, rfl⟩ := hres
      simp [WfSs, WfS]
  | .continue_ _, n, r, n', hw, hu, h => by
      simp only [WfS] at hw
      simp only [usesOkS, Bool.and_eq_true] at hu
      simp only [instS, R.bind_ok, single_ok, sameLen_ok, atMost_ok] at h
      have hres := h
      simp only [Except.ok.injEq, Prod.mk.injEq] at hres
      obtain ⟨rfl, rfl⟩ := hres
      simp [WfSs, WfS]
  | .other _ f_kind f_exprs f_blocks, n, r, n', hw, hu, h => by
      simp only [WfS] at hw
      simp only [usesOkS, Bool.and_eq_true] at hu
      simp only [instS, R.bind_ok, single_ok, sameLen_ok, atMost_ok] at h
      obtain ⟨x0, m0, h0, x1, m1, h1, hres⟩ := h
      simp only [Except.ok.injEq, Prod.mk.injEq] at hres
      obtain ⟨rfl, rfl⟩ := hres
      have i0 := instEs_wf b hb f_exprs _ _ _ _ hw.1 hu.1 h0
      have i1 := instSs_wf b hb f_blocks _ _ _ hw.2 hu.2 h1
      simp [WfSs, WfS, i0, i1]
theorem instSs_wf (b : Bindings) (hb : BindingsWf b) : ∀ (ss : List Stmt) (n : Nat) (r : List Stmt) (n' : Nat),
    WfSs ss → usesOkSs b ss = true → instSs b ss n = .ok (r, n') → WfSs r
  | [], n, r, n', _, _, h => by
      simp only [instSs, Except.ok.injEq, Prod.mk.injEq] at h
      obtain ⟨rfl, rfl⟩ := h
      simp [WfSs]
  | s :: ss, n, r, n', hw, hu, h => by
      simp only [WfSs] at hw
      simp only [usesOkSs, Bool.and_eq_true] at hu
      simp only [instSs, R.bind_ok] at h
      obtain ⟨l, n1, h1, t, n2, h2, hres⟩ := h
      simp only [Except.ok.injEq, Prod.mk.injEq] at hres
      obtain ⟨rfl, rfl⟩ := hres
      have i1 := instS_wf b hb s _ _ _ hw.1 hu.1 h1
      have i2 := instSs_wf b hb ss _ _ _ hw.2 hu.2 h2
      exact (WfSs_append _ _).2 ⟨i1, i2⟩
end

end Malt.Conv.Template
