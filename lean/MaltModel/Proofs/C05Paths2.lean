import MaltModel.Proofs.C05Frame
/-!
# C05, Lemma B and C: every required pair of the flow summary is an edge of the model's graph

Fragment: everything except `finally` blocks (steps 1 and 2 of `C05_paths`): if/while/for(+else)/with/break/continue/
return/raise/try-except-else/nested def/class/lambda-bearing statements.
-/
namespace Malt.Cfg
open Malt.Py

/-! ### scopes without `finally` -/

def Scope.hasFin : Scope → Bool
  | .try_ _ true _ => true
  | _ => false

/-- No open `try` scope has a `finally` block: jumps carry no guards. -/
def NoFinScope (σ : List Scope) : Prop := ∀ sc, sc ∈ σ → sc.hasFin = false

theorem enclosingFinally_noFin (stop : Stop) : ∀ σ : List Scope, NoFinScope σ → (enclosingFinally stop σ).2 = [] := by
  intro σ
  induction σ with
  | nil => intro _; rfl
  | cons sc σ ih =>
    intro h
    have hsc : sc.hasFin = false := h sc (List.mem_cons_self ..)
    have hrest : NoFinScope σ := fun s hs => h s (List.mem_cons_of_mem _ hs)
    simp only [enclosingFinally]
    cases sc with
    | try_ i f hs =>
      cases f
      · simp [Scope.isStop, ih hrest]
      · simp [Scope.hasFin] at hsc
    | _ => simp only [List.nil_append]; split <;> simp [ih hrest]

/-- (Tagged) dictionary keys owned by the open scopes: section keys of loops and functions, `raises` keys of handlers. -/
def scopeKeys : List Scope → List Nat
  | [] => []
  | .try_ _ _ hs :: σ => hs.map sk ++ scopeKeys σ
  | sc :: σ => sk sc.id :: scopeKeys σ

theorem enclosingFinally_target_key (stop : Stop) : ∀ (σ : List Scope) (t : Nat), (enclosingFinally stop σ).1 = some t →
    sk t ∈ scopeKeys σ := by
  intro σ
  induction σ with
  | nil => intro t h; simp [enclosingFinally] at h
  | cons sc σ ih =>
    intro t h
    simp only [enclosingFinally] at h
    split at h
    · rename_i hs
      simp only [Option.some.injEq] at h
      cases sc <;> simp [Scope.isStop] at hs <;> (subst h; simp [scopeKeys, Scope.id])
    · have := ih t h
      cases sc <;> simp [scopeKeys, this]

theorem enclosingExcept_key (stop : Stop) : ∀ (σ : List Scope) (h : Nat), h ∈ enclosingExcept stop σ → sk h ∈ scopeKeys σ := by
  intro σ
  induction σ with
  | nil => intro h hh; simp [enclosingExcept] at hh
  | cons sc σ ih =>
    intro h hh
    simp only [enclosingExcept] at hh
    cases sc with
    | try_ i f hs =>
      simp only [Scope.isStop, Bool.false_eq_true, if_false, List.mem_append] at hh
      simp only [scopeKeys, List.mem_append, List.mem_map]
      rcases hh with hh | hh
      · exact Or.inl ⟨h, hh, rfl⟩
      · exact Or.inr (ih h hh)
    | _ =>
      simp only [List.nil_append] at hh
      split at hh
      · cases hh
      · simp [scopeKeys, ih h hh]

/-! ### the invariant of Lemma B -/

def loopOf (σ : List Scope) : Option Nat := (enclosingFinally .loop σ).1
def fnOf (σ : List Scope) : Option Nat := (enclosingFinally .fn σ).1

/-- What the builder state owes to the flow summary `R` of code already visited: every required pair is an edge; every
pending jump is registered in the section it targets; every pending raise is also registered with every enclosing
handler. -/
structure Pend (σ : List Scope) (b : B) (R : Flow) : Prop where
  req : Sub R.req b.edges
  brk : ∀ x, x ∈ R.brk → ∃ L l, loopOf σ = some L ∧ aget L b.exits = some l ∧ x ∈ l
  cont : ∀ x, x ∈ R.cont → ∃ L l, loopOf σ = some L ∧ aget L b.continues = some l ∧ x ∈ l
  ret : ∀ x, x ∈ R.ret → ∃ F l, fnOf σ = some F ∧ aget F b.exits = some l ∧ x ∈ l
  raise : ∀ x, x ∈ R.raise → (∃ F l, fnOf σ = some F ∧ aget F b.exits = some l ∧ x ∈ l) ∧
    ∀ h, h ∈ enclosingExcept .fn σ → ∃ l, aget h b.raises = some l ∧ x ∈ l
  exempt : R.exempt = []

theorem Pend.empty (σ : List Scope) (b : B) : Pend σ b {} :=
  ⟨sub_nil _, fun _ h => (List.not_mem_nil h).elim, fun _ h => (List.not_mem_nil h).elim,
   fun _ h => (List.not_mem_nil h).elim, fun _ h => (List.not_mem_nil h).elim, rfl⟩

theorem Pend.of_req (σ : List Scope) (b : B) (l : List (Nat × Nat)) (nrm : List Nat) (h : Sub l b.edges) :
    Pend σ b { req := l, normal := nrm } :=
  ⟨h, fun _ h => (List.not_mem_nil h).elim, fun _ h => (List.not_mem_nil h).elim,
   fun _ h => (List.not_mem_nil h).elim, fun _ h => (List.not_mem_nil h).elim, rfl⟩

theorem Pend.transport {σ : List Scope} {K : List Nat} {b b' : B} {R : Flow} (hf : Frame K b b')
    (hσ : ∀ k, k ∈ scopeKeys σ → k ∉ K) (h : Pend σ b R) : Pend σ b' R := by
  have exitsT : ∀ (stop : Stop) (t : Nat) (l : List Nat) (x : Nat), (enclosingFinally stop σ).1 = some t →
      aget t b.exits = some l → x ∈ l → ∃ l', aget t b'.exits = some l' ∧ x ∈ l' := by
    intro stop t l x ht hl hx
    obtain ⟨l', hl', hs⟩ := hf.exits t (hσ _ (enclosingFinally_target_key stop σ t ht)) l hl
    exact ⟨l', hl', hs x hx⟩
  refine ⟨fun p hp => hf.edges p (h.req p hp), ?_, ?_, ?_, ?_, h.exempt⟩
  · intro x hx
    obtain ⟨L, l, hL, hl, hxl⟩ := h.brk x hx
    obtain ⟨l', hl', hx'⟩ := exitsT .loop L l x hL hl hxl
    exact ⟨L, l', hL, hl', hx'⟩
  · intro x hx
    obtain ⟨L, l, hL, hl, hxl⟩ := h.cont x hx
    obtain ⟨l', hl', hsub⟩ := hf.continues L (hσ _ (enclosingFinally_target_key .loop σ L hL)) l hl
    exact ⟨L, l', hL, hl', hsub x hxl⟩
  · intro x hx
    obtain ⟨F, l, hF, hl, hxl⟩ := h.ret x hx
    obtain ⟨l', hl', hx'⟩ := exitsT .fn F l x hF hl hxl
    exact ⟨F, l', hF, hl', hx'⟩
  · intro x hx
    obtain ⟨⟨F, l, hF, hl, hxl⟩, hr⟩ := h.raise x hx
    obtain ⟨l', hl', hx'⟩ := exitsT .fn F l x hF hl hxl
    refine ⟨⟨F, l', hF, hl', hx'⟩, ?_⟩
    intro hd hhd
    obtain ⟨lr, hlr, hxr⟩ := hr hd hhd
    obtain ⟨lr', hlr', hsub⟩ := hf.raises hd (hσ _ (enclosingExcept_key .fn σ hd hhd)) lr hlr
    exact ⟨lr', hlr', hsub x hxr⟩

theorem Pend.seq {σ : List Scope} {b : B} {R1 R2 : Flow} (h1 : Pend σ b R1) (h2 : Pend σ b R2) : Pend σ b (R1.seq R2) := by
  refine ⟨?_, ?_, ?_, ?_, ?_, ?_⟩
  · simp only [Flow.seq, sub_append]; exact ⟨h1.req, h2.req⟩
  · intro x hx; simp only [Flow.seq, List.mem_append] at hx; exact hx.elim (h1.brk x) (h2.brk x)
  · intro x hx; simp only [Flow.seq, List.mem_append] at hx; exact hx.elim (h1.cont x) (h2.cont x)
  · intro x hx; simp only [Flow.seq, List.mem_append] at hx; exact hx.elim (h1.ret x) (h2.ret x)
  · intro x hx; simp only [Flow.seq, List.mem_append] at hx; exact hx.elim (h1.raise x) (h2.raise x)
  · simp [Flow.seq, h1.exempt, h2.exempt]

theorem Pend.alt {σ : List Scope} {b : B} {R1 R2 : Flow} (h1 : Pend σ b R1) (h2 : Pend σ b R2) : Pend σ b (R1.alt R2) := by
  refine ⟨?_, ?_, ?_, ?_, ?_, ?_⟩
  · simp only [Flow.alt, sub_append]; exact ⟨h1.req, h2.req⟩
  · intro x hx; simp only [Flow.alt, List.mem_append] at hx; exact hx.elim (h1.brk x) (h2.brk x)
  · intro x hx; simp only [Flow.alt, List.mem_append] at hx; exact hx.elim (h1.cont x) (h2.cont x)
  · intro x hx; simp only [Flow.alt, List.mem_append] at hx; exact hx.elim (h1.ret x) (h2.ret x)
  · intro x hx; simp only [Flow.alt, List.mem_append] at hx; exact hx.elim (h1.raise x) (h2.raise x)
  · simp [Flow.alt, h1.exempt, h2.exempt]

/-- What Lemma B assumes of the builder state before visiting code whose keys are `K`. -/
structure Pre (σ : List Scope) (K : List Nat) (b : B) : Prop where
  noFin : NoFinScope σ
  disj : ∀ k, k ∈ scopeKeys σ → k ∉ K
  fresh : ∀ k, ck k ∈ K → aget k b.condEntry = none
  loopOpen : ∀ L, loopOf σ = some L → (∃ l, aget L b.exits = some l) ∧ (∃ l, aget L b.continues = some l)
  fnOpen : ∃ F, fnOf σ = some F ∧ ∃ l, aget F b.exits = some l
  valid : Valid b
  allNil : AllNil b

/-- What Lemma B establishes. -/
structure Post (σ : List Scope) (b' : B) (R : Flow) : Prop where
  pend : Pend σ b' R
  norm : InLeaves b' R.normal
  allNil : AllNil b'

theorem Pre.sub {σ : List Scope} {K K' : List Nat} {b : B} (h : Pre σ K b) (hs : ∀ k, k ∈ K' → k ∈ K) : Pre σ K' b :=
  ⟨h.noFin, fun k hk hk' => h.disj k hk (hs _ hk'), fun k hk => h.fresh k (hs _ hk), h.loopOpen, h.fnOpen, h.valid, h.allNil⟩

/-- Moving the precondition for keys `K2` across a step that touches only keys `K1` (disjoint from `K2` and from the
open scopes). -/
theorem Pre.move {σ : List Scope} {K1 K2 : List Nat} {b b1 : B} (h : Pre σ K2 b) (hf : Frame K1 b b1)
    (hσ1 : ∀ k, k ∈ scopeKeys σ → k ∉ K1) (hd : ∀ k, k ∈ K2 → k ∉ K1) (ha : AllNil b1) : Pre σ K2 b1 := by
  refine ⟨h.noFin, h.disj, ?_, ?_, ?_, hf.valid h.valid, ha⟩
  · intro k hk
    rw [hf.condEntry k (hd _ hk)]
    exact h.fresh k hk
  · intro L hL
    have hkey := hσ1 _ (enclosingFinally_target_key .loop σ L hL)
    obtain ⟨⟨l1, h1⟩, ⟨l2, h2⟩⟩ := h.loopOpen L hL
    obtain ⟨l1', h1', _⟩ := hf.exits L hkey l1 h1
    obtain ⟨l2', h2', _⟩ := hf.continues L hkey l2 h2
    exact ⟨⟨l1', h1'⟩, ⟨l2', h2'⟩⟩
  · obtain ⟨F, hF, l, hl⟩ := h.fnOpen
    obtain ⟨l', hl', _⟩ := hf.exits F (hσ1 _ (enclosingFinally_target_key .fn σ F hF)) l hl
    exact ⟨F, hF, l', hl'⟩

/-- After visiting code with keys `K1` (disjoint from `K2`), the precondition for `K2` still holds. -/
theorem Pre.step {σ : List Scope} {K1 K2 : List Nat} {b b1 : B} (h : Pre σ (K1 ++ K2) b) (hf : Frame K1 b b1)
    (hd : ∀ k, k ∈ K2 → k ∉ K1) (ha : AllNil b1) : Pre σ K2 b1 :=
  (h.sub (fun k hk => List.mem_append.mpr (Or.inr hk))).move hf
    (fun k hk hk1 => h.disj k hk (List.mem_append.mpr (Or.inl hk1))) hd ha

theorem addOrdinaryNodes_append (b : B) (a c : List Nat) : addOrdinaryNodes b (a ++ c) = addOrdinaryNodes (addOrdinaryNodes b a) c := by
  simp [addOrdinaryNodes, List.foldl_append]

/-- Emitting `ns` as ordinary nodes and completing normally. -/
theorem post_emit_normal (σ : List Scope) (b : B) (cur ns : List Nat) (hc : InLeaves b cur) (ha : AllNil b) :
    Post σ (addOrdinaryNodes b ns) { req := (emit cur ns).1, normal := (emit cur ns).2 } := by
  obtain ⟨h1, h2⟩ := emit_addOrdinaryNodes ns b cur hc
  exact ⟨Pend.of_req σ _ _ _ h1, h2, allNil_addOrdinaryNodes ns ha⟩

theorem emit_snoc (cur a : List Nat) (n : Nat) :
    (emit cur (a ++ [n])).1 = (emit cur a).1 ++ cross (emit cur a).2 n ∧ (emit cur (a ++ [n])).2 = [n] := by
  induction a generalizing cur with
  | nil => simp [emit]
  | cons x a ih =>
    obtain ⟨i1, i2⟩ := ih [x]
    simp only [List.cons_append, emit, i1, i2, List.append_assoc, and_self]



/-! ### the fragment without `finally` (steps 1 and 2 of `C05_paths`) -/
theorem processExit_eq (σ : List Scope) (b : B) (n : Nat) (stop : Stop) (v : Bool) (t : Nat)
    (h1 : (enclosingFinally stop σ).1 = some t) (hn : NoFinScope σ) :
    processExit σ b n stop v =
      if v then (b.addExitNode n t []).connectRaiseNode n (enclosingExcept stop σ) else b.addExitNode n t [] := by
  have h2 := enclosingFinally_noFin stop σ hn
  have : enclosingFinally stop σ = (some t, []) := Prod.ext h1 h2
  simp only [processExit, this]

theorem processContinue_eq (σ : List Scope) (b : B) (n : Nat) (t : Nat)
    (h1 : (enclosingFinally .loop σ).1 = some t) (hn : NoFinScope σ) :
    processContinue σ b n = b.addContinueNode n t [] := by
  have h2 := enclosingFinally_noFin .loop σ hn
  have : enclosingFinally .loop σ = (some t, []) := Prod.ext h1 h2
  simp only [processContinue, this]

/-- `connect_raise_node`: the node is registered with every guard. -/
theorem raiseFold_effect (node : Nat) (gs : List Nat) : ∀ (rs : List (Nat × List Nat)) (h : Nat), h ∈ gs →
    ∃ l, aget h (gs.foldl (B.raiseStep node) rs) = some l ∧ node ∈ l := by
  induction gs with
  | nil => intro rs h hh; cases hh
  | cons g gs ih =>
    intro rs h hh
    simp only [List.foldl_cons]
    rcases List.mem_cons.mp hh with hh | hh
    · subst hh
      have h1 : ∃ l, aget h (B.raiseStep node rs h) = some l ∧ node ∈ l := by
        unfold B.raiseStep
        split
        · rename_i old _
          exact ⟨old ++ [node], by rw [aget_aset]; simp, by simp⟩
        · exact ⟨[node], by rw [aget_aset]; simp, by simp⟩
      obtain ⟨l1, hl1, hn1⟩ := h1
      obtain ⟨l2, hl2, hs2⟩ := B.raises_foldl_grow node gs _ h l1 hl1
      exact ⟨l2, hl2, hs2 node hn1⟩
    · exact ih _ h hh

/-- a jump node of a section keyed by `t`, emitted after the lambdas `lams` -/
theorem post_exit (σ : List Scope) (b : B) (cur lams : List Nat) (n t : Nat) (ex : List Nat) (hc : InLeaves b cur)
    (ha : AllNil b) (ht : aget t b.exits = some ex) :
    Sub (emit cur (lams ++ [n])).1 ((addOrdinaryNodes b lams).addExitNode n t []).edges ∧
    ((addOrdinaryNodes b lams).addExitNode n t []).leafSet = [] ∧
    (∃ l, aget t ((addOrdinaryNodes b lams).addExitNode n t []).exits = some l ∧ n ∈ l) ∧
    AllNil ((addOrdinaryNodes b lams).addExitNode n t []) := by
  obtain ⟨h1, h2⟩ := emit_addOrdinaryNodes lams b cur hc
  have hf := frame_addOrdinaryNodes [] lams b
  obtain ⟨ex1, hex1, _⟩ := hf.exits t (by simp) ex ht
  obtain ⟨e1, e2, e3, e4⟩ := addExitNode_effect (addOrdinaryNodes b lams) n t ex1 hex1 _ h2 (allNil_addOrdinaryNodes lams ha)
  refine ⟨?_, e2, ⟨_, e3, by simp⟩, e4⟩
  rw [(emit_snoc cur lams n).1, sub_append]
  exact ⟨fun p hp => (B.frame_addExitNode [] _ n t []).edges p (h1 p hp), e1⟩


theorem addOrdinaryNodes_snoc (b : B) (ns : List Nat) (n : Nat) :
    addOrdinaryNodes b (ns ++ [n]) = (addOrdinaryNodes b ns).addOrdinaryNode n := by
  simp [addOrdinaryNodes, List.foldl_append]

theorem basicExprs_eq (σ : List Scope) : ∀ (items : List Expr) (b : B) (a : Acc),
    (basicExprs σ items b a).1 = addOrdinaryNodes b (withItemNodes items)
  | [], b, a => rfl
  | e :: es, b, a => by
    simp only [basicExprs, withItemNodes, basicExpr]
    rw [basicExprs_eq σ es]
    have : e.kidLams ++ e.id :: withItemNodes es = (e.kidLams ++ [e.id]) ++ withItemNodes es := by simp
    rw [this, addOrdinaryNodes_append, addOrdinaryNodes_snoc]


theorem deref_eq_of_heap {b b' : B} (h : b'.heap = b.heap) (r : Nat) : b'.deref r = b.deref r := by
  simp [B.deref, h]

/-- The `if` statement, given Lemma B for its two blocks. -/
theorem lemB_if (σ : List Scope) (i : Nat) (test : Expr) (body orelse : List Stmt) (b : B) (a a1 a2 : Acc) (cur : List Nat)
    (hnd : (ck i :: (keysL body ++ keysL orelse)).Nodup)
    (hp : Pre σ (ck i :: (keysL body ++ keysL orelse)) b) (hc : InLeaves b cur)
    (hbody : ∀ (b : B) (a : Acc) (cur : List Nat), Pre σ (keysL body) b → InLeaves b cur →
      Post σ (visitStmts σ body b a).1 (flowBlock body cur))
    (horelse : ∀ (b : B) (a : Acc) (cur : List Nat), Pre σ (keysL orelse) b → InLeaves b cur →
      Post σ (visitStmts σ orelse b a).1 (flowBlock orelse cur)) :
    Post σ
      ((((visitStmts σ orelse
          ((visitStmts σ body ((basicExpr σ test ((b.beginStatement i).enterCondSection i) a).1.newCondBranch i) a1).1.newCondBranch i)
          a2).1).exitCondSection i).endStatement i)
      (flowStmt (.if_ i test body orelse) cur) := by
  -- keys
  obtain ⟨hi_all, hnd2⟩ := List.nodup_cons.mp hnd
  obtain ⟨ndb, ndo, dbo⟩ := List.nodup_append.mp hnd2
  have hi_b : ck i ∉ keysL body := fun h => hi_all (List.mem_append.mpr (Or.inl h))
  have hi_o : ck i ∉ keysL orelse := fun h => hi_all (List.mem_append.mpr (Or.inr h))
  have hσi : ∀ k, k ∈ scopeKeys σ → k ∉ [ck i] := fun k hk h => hp.disj k hk (by simp only [List.mem_singleton] at h; rw [h]; exact List.mem_cons_self ..)
  have hσb : ∀ k, k ∈ scopeKeys σ → k ∉ ck i :: keysL body := fun k hk h => hp.disj k hk (by
    rcases List.mem_cons.mp h with h | h
    · rw [h]; exact List.mem_cons_self ..
    · exact List.mem_cons_of_mem _ (List.mem_append.mpr (Or.inl h)))
  -- states
  let b1 := (b.beginStatement i).enterCondSection i
  let bt := (basicExpr σ test b1 a).1
  have hbt : bt = addOrdinaryNodes b1 (test.kidLams ++ [test.id]) := by
    show (addOrdinaryNodes b1 test.kidLams).addOrdinaryNode test.id = _
    rw [addOrdinaryNodes_snoc]
  obtain ⟨c1, c2, c3, c4, _, _⟩ := enterCondSection_effect (b.beginStatement i) i
  have hc1 : InLeaves b1 cur := fun x hx => by rw [show b1.leafSet = b.leafSet from c3]; exact hc x hx
  have ha1 : AllNil b1 := allNil_of_fs_eq (b := b) c4 hp.allNil
  obtain ⟨e1, e2⟩ := emit_addOrdinaryNodes (test.kidLams ++ [test.id]) b1 cur hc1
  rw [← hbt] at e1 e2
  have hat : AllNil bt := by rw [hbt]; exact allNil_addOrdinaryNodes _ ha1
  have ft : Frame [] b1 bt := frame_basicExpr [] σ test b1 a
  have hcl_t : aget i bt.condLeaves = some [] := by rw [ft.condLeaves i (by simp)]; exact c1
  have hce_t : aget i bt.condEntry = none := by
    rw [ft.condEntry i (by simp)]
    show aget i ((b.beginStatement i).enterCondSection i).condEntry = none
    rw [c2]; exact hp.fresh i (List.mem_cons_self ..)
  let b2 := bt.newCondBranch i
  have hb2 : b2 = bt.putCondEntry i bt.leaves := newCondBranch_first bt i [] hcl_t hce_t
  have hl2 : b2.leafSet = bt.leafSet := by rw [hb2]; rfl
  have hce2 : aget i b2.condEntry = some bt.leaves := by rw [hb2]; show aget i (aset i _ _) = _; rw [aget_aset]; simp
  have hcl2 : aget i b2.condLeaves = some [] := by rw [hb2]; exact hcl_t
  have ha2 : AllNil b2 := allNil_of_fs_eq (b := bt) (by rw [hb2]; rfl) hat
  have f02 : Frame [ck i] b b2 :=
    Frame.trans (Frame.trans (Frame.trans (B.frame_beginStatement _ b i) (B.frame_enterCondSection _ _ i (by simp)))
      (frame_basicExpr _ σ test _ a)) (B.frame_newCondBranch _ _ i (by simp))
  have pre2 : Pre σ (keysL body) b2 :=
    (hp.sub (fun k hk => List.mem_cons_of_mem _ (List.mem_append.mpr (Or.inl hk)))).move f02 hσi
      (fun k hk h => hi_b (by simp only [List.mem_singleton] at h; rw [← h]; exact hk)) ha2
  have hc2 : InLeaves b2 (emit cur (test.kidLams ++ [test.id])).2 := fun x hx => by rw [hl2]; exact e2 x hx
  have IHb := hbody b2 a1 _ pre2 hc2
  let b3 := (visitStmts σ body b2 a1).1
  have fb : Frame (keysL body) b2 b3 := frame_visitStmts body σ b2 a1
  have hce3 : aget i b3.condEntry = some bt.leaves := by rw [fb.condEntry i hi_b]; exact hce2
  have hcl3 : aget i b3.condLeaves = some [] := by rw [fb.condLeaves i hi_b]; exact hcl2
  have hd3 : ∀ x, x ∈ (emit cur (test.kidLams ++ [test.id])).2 → x ∈ b3.deref bt.leaves := by
    intro x hx
    apply fb.deref
    rw [deref_eq_of_heap (b := bt) (by rw [hb2]; rfl)]
    exact e2 x hx
  let b4 := b3.newCondBranch i
  have hb4 : b4 = (b3.putCondLeaves i ([] ++ [b3.leaves])).setLeavesRef bt.leaves := newCondBranch_next b3 i [] _ hcl3 hce3
  have hl4 : b4.leafSet = b3.deref bt.leaves := by rw [hb4]; rfl
  have hcl4 : aget i b4.condLeaves = some [b3.leaves] := by
    rw [hb4]; show aget i (aset i _ _) = _; rw [aget_aset]; simp
  have ha4 : AllNil b4 := allNil_of_fs_eq (b := b3) (by rw [hb4]; rfl) IHb.allNil
  have f34 : Frame [ck i] b3 b4 := B.frame_newCondBranch _ _ i (by simp)
  have f04 : Frame (ck i :: keysL body) b b4 :=
    Frame.trans (Frame.trans (f02.weaken (fun k hk => by simp only [List.mem_singleton] at hk; rw [hk]; exact List.mem_cons_self ..))
      (fb.weaken (fun k hk => List.mem_cons_of_mem _ hk)))
      (f34.weaken (fun k hk => by simp only [List.mem_singleton] at hk; rw [hk]; exact List.mem_cons_self ..))
  have pre4 : Pre σ (keysL orelse) b4 :=
    (hp.sub (fun k hk => List.mem_cons_of_mem _ (List.mem_append.mpr (Or.inr hk)))).move f04 hσb
      (fun k hk h => by
        rcases List.mem_cons.mp h with h | h
        · exact hi_o (h ▸ hk)
        · exact dbo k h k hk rfl) ha4
  have hc4 : InLeaves b4 (emit cur (test.kidLams ++ [test.id])).2 := fun x hx => by rw [hl4]; exact hd3 x hx
  have IHo := horelse b4 a2 _ pre4 hc4
  let b5 := (visitStmts σ orelse b4 a2).1
  have fo : Frame (keysL orelse) b4 b5 := frame_visitStmts orelse σ b4 a2
  have hcl5 : aget i b5.condLeaves = some [b3.leaves] := by rw [fo.condLeaves i hi_o]; exact hcl4
  have hd5 : ∀ x, x ∈ (flowBlock body (emit cur (test.kidLams ++ [test.id])).2).normal → x ∈ b5.deref b3.leaves := by
    intro x hx
    apply fo.deref
    rw [deref_eq_of_heap (b := b3) (by rw [hb4]; rfl)]
    exact IHb.norm x hx
  have hv5 : Valid b5 := fo.valid pre4.valid
  obtain ⟨x1, x2, x3⟩ := exitCondSection_effect b5 i [b3.leaves] hcl5 hv5
  -- frames to the final state, all at the statement's key set
  have f57 : Frame (ck i :: (keysL body ++ keysL orelse)) b5 ((b5.exitCondSection i).endStatement i) :=
    Frame.trans (B.frame_exitCondSection _ b5 i (List.mem_cons_self ..)) (B.frame_endStatement _ _ i)
  have f37 : Frame (ck i :: (keysL body ++ keysL orelse)) b3 ((b5.exitCondSection i).endStatement i) :=
    Frame.trans (Frame.trans (f34.weaken (fun k hk => by simp only [List.mem_singleton] at hk; rw [hk]; exact List.mem_cons_self ..))
      (fo.weaken (fun k hk => List.mem_cons_of_mem _ (List.mem_append.mpr (Or.inr hk))))) f57
  have ft7 : Frame (ck i :: (keysL body ++ keysL orelse)) bt ((b5.exitCondSection i).endStatement i) :=
    Frame.trans (Frame.trans (B.frame_newCondBranch _ bt i (List.mem_cons_self ..))
      (fb.weaken (fun k hk => List.mem_cons_of_mem _ (List.mem_append.mpr (Or.inl hk))))) f37
  simp only [flowStmt]
  refine ⟨Pend.seq ((Pend.of_req σ bt _ [] e1).transport ft7 hp.disj)
      (Pend.alt (IHb.pend.transport f37 hp.disj) (IHo.pend.transport f57 hp.disj)), ?_, ?_⟩
  · intro x hx
    simp only [Flow.seq, Flow.alt, List.mem_append] at hx
    show x ∈ ((b5.exitCondSection i).endStatement i).leafSet
    rw [B.leafSet_endStatement]
    rcases hx with hx | hx
    · exact x2 _ (by simp) x (hd5 x hx)
    · exact x1 x (IHo.norm x hx)
  · exact allNil_of_fs_eq (b := b5) (by rw [B.endStatement_finallySections]; exact x3) IHo.allNil


theorem loopOf_loop (i : Nat) (σ : List Scope) : loopOf (Scope.loop i :: σ) = some i := rfl
theorem fnOf_loop (i : Nat) (σ : List Scope) : fnOf (Scope.loop i :: σ) = fnOf σ := rfl

theorem noFinScope_loop {σ : List Scope} (i : Nat) (h : NoFinScope σ) : NoFinScope (Scope.loop i :: σ) := by
  intro sc hsc
  rcases List.mem_cons.mp hsc with hsc | hsc
  · subst hsc; rfl
  · exact h sc hsc

theorem sub_cross_of {cur cur' : List Nat} {n : Nat} {E : List (Nat × Nat)} (h : Sub (cross cur' n) E)
    (hs : ∀ x, x ∈ cur → x ∈ cur') : Sub (cross cur n) E := by
  intro p hp
  simp only [cross, List.mem_map] at hp
  obtain ⟨c, hc, rfl⟩ := hp
  exact h _ (List.mem_map.mpr ⟨c, hs c hc, rfl⟩)

/-- A `while`/`for` loop with header node `h` (preceded by the lambdas `lams`), given Lemma B for its two blocks. -/
theorem lemB_loop (σ : List Scope) (i h : Nat) (lams : List Nat) (body orelse : List Stmt) (b : B) (a1 a2 : Acc) (cur : List Nat)
    (hnd : (sk i :: (keysL body ++ keysL orelse)).Nodup)
    (hp : Pre σ (sk i :: (keysL body ++ keysL orelse)) b) (hc : InLeaves b cur)
    (hbody : ∀ (b : B) (a : Acc) (cur : List Nat), Pre (Scope.loop i :: σ) (keysL body) b → InLeaves b cur →
      Post (Scope.loop i :: σ) (visitStmts (Scope.loop i :: σ) body b a).1 (flowBlock body cur))
    (horelse : ∀ (b : B) (a : Acc) (cur : List Nat), Pre σ (keysL orelse) b → InLeaves b cur →
      Post σ (visitStmts σ orelse b a).1 (flowBlock orelse cur)) :
    Post σ
      ((((visitStmts σ orelse
          ((visitStmts (Scope.loop i :: σ) body
            ((addOrdinaryNodes ((b.beginStatement i).enterSection i) lams).enterLoopSection i h) a1).1.exitLoopSection i)
          a2).1).exitSection i).endStatement i)
      (Flow.seq { req := (emit cur lams).1 ++ cross (emit cur lams).2 h } (loopFlow h [] body orelse)) := by
  -- keys
  obtain ⟨hi_all, hnd2⟩ := List.nodup_cons.mp hnd
  obtain ⟨ndb, ndo, dbo⟩ := List.nodup_append.mp hnd2
  have hi_b : sk i ∉ keysL body := fun h => hi_all (List.mem_append.mpr (Or.inl h))
  have hi_o : sk i ∉ keysL orelse := fun h => hi_all (List.mem_append.mpr (Or.inr h))
  have hσK := hp.disj
  have hσi : ∀ k, k ∈ scopeKeys σ → k ∉ [sk i] := fun k hk h => hp.disj k hk (by simp only [List.mem_singleton] at h; rw [h]; exact List.mem_cons_self ..)
  have hσb : ∀ k, k ∈ scopeKeys σ → k ∉ sk i :: keysL body := fun k hk h => hp.disj k hk (by
    rcases List.mem_cons.mp h with h | h
    · rw [h]; exact List.mem_cons_self ..
    · exact List.mem_cons_of_mem _ (List.mem_append.mpr (Or.inl h)))
  have kI : ∀ k, k ∈ [sk i] → k ∈ sk i :: (keysL body ++ keysL orelse) := fun k hk => by
    simp only [List.mem_singleton] at hk; rw [hk]; exact List.mem_cons_self ..
  have kB : ∀ k, k ∈ keysL body → k ∈ sk i :: (keysL body ++ keysL orelse) :=
    fun k hk => List.mem_cons_of_mem _ (List.mem_append.mpr (Or.inl hk))
  have kO : ∀ k, k ∈ keysL orelse → k ∈ sk i :: (keysL body ++ keysL orelse) :=
    fun k hk => List.mem_cons_of_mem _ (List.mem_append.mpr (Or.inr hk))
  -- states up to the loop entry
  let b1 := (b.beginStatement i).enterSection i
  obtain ⟨s1, s2, s3, s4, s5⟩ := enterSection_effect (b.beginStatement i) i
  have hc1 : InLeaves b1 cur := fun x hx => by rw [show b1.leafSet = b.leafSet from s2]; exact hc x hx
  have ha1 : AllNil b1 := allNil_of_fs_eq (b := b) s3 hp.allNil
  let b2 := addOrdinaryNodes b1 lams
  obtain ⟨e1, e2⟩ := emit_addOrdinaryNodes lams b1 cur hc1
  have ha2 : AllNil b2 := allNil_addOrdinaryNodes lams ha1
  have f12 : Frame [] b1 b2 := frame_addOrdinaryNodes [] lams b1
  obtain ⟨ex2, hex2, _⟩ := f12.exits i (by simp) [] s1
  let b3 := b2.enterLoopSection i h
  obtain ⟨l1, l2, l3, l4, l5, l6, l7⟩ := enterLoopSection_effect b2 i h
  have ha3 : AllNil b3 := allNil_of_fs_eq (b := b2) l6 ha2
  have f03 : Frame (sk i :: (keysL body ++ keysL orelse)) b b3 :=
    Frame.trans (Frame.trans (Frame.trans (B.frame_beginStatement _ b i) (B.frame_enterSection _ _ i (List.mem_cons_self ..)))
      (frame_addOrdinaryNodes _ lams _)) (B.frame_enterLoopSection _ _ i h (List.mem_cons_self ..))
  have f03' : Frame [sk i] b b3 :=
    Frame.trans (Frame.trans (Frame.trans (B.frame_beginStatement _ b i) (B.frame_enterSection _ _ i (by simp)))
      (frame_addOrdinaryNodes _ lams _)) (B.frame_enterLoopSection _ _ i h (by simp))
  have hex3 : aget i b3.exits = some ex2 := by rw [show b3.exits = b2.exits from l3]; exact hex2
  have pre3 : Pre (Scope.loop i :: σ) (keysL body) b3 := by
    refine ⟨noFinScope_loop i hp.noFin, ?_, ?_, ?_, ?_, f03.valid hp.valid, ha3⟩
    · intro k hk
      rcases List.mem_cons.mp hk with hk | hk
      · rw [hk]; exact hi_b
      · exact fun hk' => hp.disj k hk (kB _ hk')
    · intro k hk
      have hki : ck k ∉ [sk i] := fun h => sk_ne_ck i k (by simp only [List.mem_singleton] at h; exact h.symm)
      rw [f03'.condEntry k hki]
      exact hp.fresh k (kB _ hk)
    · intro L hL
      rw [loopOf_loop] at hL
      cases hL
      exact ⟨⟨_, hex3⟩, ⟨_, l1⟩⟩
    · obtain ⟨F, hF, l, hl⟩ := hp.fnOpen
      obtain ⟨l', hl', _⟩ := f03'.exits F (hσi _ (enclosingFinally_target_key .fn σ F hF)) l hl
      exact ⟨F, by rw [fnOf_loop]; exact hF, l', hl'⟩
  have hc3 : InLeaves b3 [h] := fun x hx => by rw [show b3.leafSet = [h] from l5]; exact hx
  have IHb := hbody b3 a1 [h] pre3 hc3
  let b4 := (visitStmts (Scope.loop i :: σ) body b3 a1).1
  have fb : Frame (keysL body) b3 b4 := frame_visitStmts body _ b3 a1
  have hse4 : aget i b4.sectionEntry = some h := by rw [fb.sectionEntry i hi_b]; exact l2
  obtain ⟨cs4, hcs4, _⟩ := fb.continues i hi_b [] l1
  obtain ⟨ex4, hex4, _⟩ := fb.exits i hi_b ex2 hex3
  have hcont4 : ∀ x, x ∈ (flowBlock body [h]).cont → x ∈ cs4 := by
    intro x hx
    obtain ⟨L, l, hL, hl, hxl⟩ := IHb.pend.cont x hx
    rw [loopOf_loop] at hL; cases hL
    rw [hcs4] at hl; cases hl; exact hxl
  have hbrk4 : ∀ x, x ∈ (flowBlock body [h]).brk → x ∈ ex4 := by
    intro x hx
    obtain ⟨L, l, hL, hl, hxl⟩ := IHb.pend.brk x hx
    rw [loopOf_loop] at hL; cases hL
    rw [hex4] at hl; cases hl; exact hxl
  obtain ⟨x1, x2, x3, x4, x5⟩ := exitLoopSection_effect b4 i h cs4 hse4 hcs4 IHb.allNil
  let b5 := b4.exitLoopSection i
  have f45 : Frame [sk i] b4 b5 := B.frame_exitLoopSection _ b4 i (by simp)
  have f05 : Frame (sk i :: keysL body) b b5 :=
    Frame.trans (Frame.trans (f03'.weaken (fun k hk => by simp only [List.mem_singleton] at hk; rw [hk]; exact List.mem_cons_self ..))
      (fb.weaken (fun k hk => List.mem_cons_of_mem _ hk)))
      (f45.weaken (fun k hk => by simp only [List.mem_singleton] at hk; rw [hk]; exact List.mem_cons_self ..))
  have pre5 : Pre σ (keysL orelse) b5 :=
    (hp.sub kO).move f05 hσb
      (fun k hk h => by
        rcases List.mem_cons.mp h with h | h
        · exact hi_o (h ▸ hk)
        · exact dbo k h k hk rfl) x1
  have hc5 : InLeaves b5 [h] := fun x hx => by rw [show b5.leafSet = [h] from x4]; exact hx
  have IHo := horelse b5 a2 [h] pre5 hc5
  let b6 := (visitStmts σ orelse b5 a2).1
  have fo : Frame (keysL orelse) b5 b6 := frame_visitStmts orelse σ b5 a2
  have hex5 : aget i b5.exits = some ex4 := by rw [show b5.exits = b4.exits from x5]; exact hex4
  obtain ⟨ex6, hex6, hsub6⟩ := fo.exits i hi_o ex4 hex5
  have hv6 : Valid b6 := fo.valid pre5.valid
  obtain ⟨y1, y2⟩ := exitSection_effect b6 i ex6 hex6 IHo.allNil hv6
  -- frames to the final state
  have f68 : Frame (sk i :: (keysL body ++ keysL orelse)) b6 ((b6.exitSection i).endStatement i) :=
    Frame.trans (B.frame_exitSection _ b6 i (List.mem_cons_self ..)) (B.frame_endStatement _ _ i)
  have f58 : Frame (sk i :: (keysL body ++ keysL orelse)) b5 ((b6.exitSection i).endStatement i) :=
    Frame.trans (fo.weaken kO) f68
  have f48 : Frame (sk i :: (keysL body ++ keysL orelse)) b4 ((b6.exitSection i).endStatement i) :=
    Frame.trans (f45.weaken kI) f58
  have f38 : Frame (sk i :: (keysL body ++ keysL orelse)) b3 ((b6.exitSection i).endStatement i) :=
    Frame.trans (fb.weaken kB) f48
  have f28 : Frame (sk i :: (keysL body ++ keysL orelse)) b2 ((b6.exitSection i).endStatement i) :=
    Frame.trans (B.frame_enterLoopSection _ b2 i h (List.mem_cons_self ..)) f38
  have Po := IHo.pend.transport f68 hp.disj
  -- the body's pending returns/raises, read in the outer scope list
  have retB : ∀ x, x ∈ (flowBlock body [h]).ret → ∃ F l, fnOf σ = some F ∧
      aget F ((b6.exitSection i).endStatement i).exits = some l ∧ x ∈ l := by
    intro x hx
    obtain ⟨F, l, hF, hl, hxl⟩ := IHb.pend.ret x hx
    rw [fnOf_loop] at hF
    obtain ⟨l', hl', hs'⟩ := f48.exits F (hp.disj _ (enclosingFinally_target_key .fn σ F hF)) l hl
    exact ⟨F, l', hF, hl', hs' x hxl⟩
  have raiseB : ∀ x, x ∈ (flowBlock body [h]).raise → (∃ F l, fnOf σ = some F ∧
      aget F ((b6.exitSection i).endStatement i).exits = some l ∧ x ∈ l) ∧
      ∀ hd, hd ∈ enclosingExcept .fn σ → ∃ l, aget hd ((b6.exitSection i).endStatement i).raises = some l ∧ x ∈ l := by
    intro x hx
    obtain ⟨⟨F, l, hF, hl, hxl⟩, hr⟩ := IHb.pend.raise x hx
    rw [fnOf_loop] at hF
    obtain ⟨l', hl', hs'⟩ := f48.exits F (hp.disj _ (enclosingFinally_target_key .fn σ F hF)) l hl
    refine ⟨⟨F, l', hF, hl', hs' x hxl⟩, ?_⟩
    intro hd hhd
    obtain ⟨lr, hlr, hxr⟩ := hr hd hhd
    obtain ⟨lr', hlr', hsub⟩ := f48.raises hd (hp.disj _ (enclosingExcept_key .fn σ hd hhd)) lr hlr
    exact ⟨lr', hlr', hsub x hxr⟩
  refine ⟨⟨?_, ?_, ?_, ?_, ?_, ?_⟩, ?_, ?_⟩
  · -- required pairs
    simp only [Flow.seq, loopFlow, emit, List.nil_append, sub_append]
    refine ⟨⟨fun p hp' => f28.edges p (e1 p hp'), ?_⟩, fun p hp' => f48.edges p (IHb.pend.req p hp'), ?_, ?_, Po.req⟩
    · exact fun p hp' => f38.edges p (sub_cross_of l4 e2 p hp')
    · exact fun p hp' => f58.edges p (sub_cross_of x2 IHb.norm p hp')
    · exact fun p hp' => f58.edges p (sub_cross_of x3 hcont4 p hp')
  · intro x hx
    simp only [Flow.seq, loopFlow, List.nil_append] at hx
    exact Po.brk x hx
  · intro x hx
    simp only [Flow.seq, loopFlow, List.nil_append] at hx
    exact Po.cont x hx
  · intro x hx
    simp only [Flow.seq, loopFlow, List.nil_append, List.mem_append] at hx
    exact hx.elim (retB x) (Po.ret x)
  · intro x hx
    simp only [Flow.seq, loopFlow, List.nil_append, List.mem_append] at hx
    exact hx.elim (raiseB x) (Po.raise x)
  · have hbe : (flowBlock body (emit [h] []).2).exempt = [] := IHb.pend.exempt
    simp [Flow.seq, loopFlow, hbe, IHo.pend.exempt]
  · intro x hx
    simp only [Flow.seq, loopFlow, List.mem_append] at hx
    show x ∈ ((b6.exitSection i).endStatement i).leafSet
    rw [B.leafSet_endStatement]
    rcases hx with hx | hx
    · exact y2 x (Or.inl (IHo.norm x hx))
    · exact y2 x (Or.inr (hsub6 x (hbrk4 x hx)))
  · exact allNil_of_fs_eq (b := b6.exitSection i) (B.endStatement_finallySections _ _) y1



/-! ### `try` / `except` / `else` (no `finally`) -/

theorem loopOf_try (i : Nat) (hs : List Nat) (σ : List Scope) : loopOf (Scope.try_ i false hs :: σ) = loopOf σ := rfl
theorem fnOf_try (i : Nat) (hs : List Nat) (σ : List Scope) : fnOf (Scope.try_ i false hs :: σ) = fnOf σ := rfl
theorem enclosingExcept_try (i : Nat) (hs : List Nat) (σ : List Scope) :
    enclosingExcept .fn (Scope.try_ i false hs :: σ) = hs ++ enclosingExcept .fn σ := rfl

theorem noFinScope_try {σ : List Scope} (i : Nat) (hs : List Nat) (h : NoFinScope σ) : NoFinScope (Scope.try_ i false hs :: σ) := by
  intro sc hsc
  rcases List.mem_cons.mp hsc with hsc | hsc
  · subst hsc; rfl
  · exact h sc hsc

/-- Facts about code visited inside the try's scope list, read in the enclosing scope list. -/
theorem Pend.out_of_try {σ : List Scope} {i : Nat} {hs : List Nat} {b : B} {R : Flow}
    (h : Pend (Scope.try_ i false hs :: σ) b R) : Pend σ b R :=
  ⟨h.req, h.brk, h.cont, h.ret,
   fun x hx => ⟨(h.raise x hx).1, fun hd hhd => (h.raise x hx).2 hd (by rw [enclosingExcept_try]; exact List.mem_append.mpr (Or.inr hhd))⟩,
   h.exempt⟩

/-- state of the builder right after `new_cond_branch(rep)` in either mode -/
theorem newCondBranch_modes (b : B) (rep L0 : Nat) (splits : List Nat) (hcl : aget rep b.condLeaves = some splits)
    (hm : aget rep b.condEntry = some L0 ∨ (aget rep b.condEntry = none ∧ b.leaves = L0 ∧ splits = [])) :
    (b.newCondBranch rep).leaves = L0 ∧ (b.newCondBranch rep).heap = b.heap ∧
    aget rep (b.newCondBranch rep).condEntry = some L0 ∧
    (∃ splits', aget rep (b.newCondBranch rep).condLeaves = some splits' ∧ (∀ r, r ∈ splits → r ∈ splits') ∧
      (b.leaves = L0 ∨ b.leaves ∈ splits')) ∧
    (b.newCondBranch rep).finallySections = b.finallySections ∧ (b.newCondBranch rep).raises = b.raises := by
  rcases hm with hm | ⟨hm, hl, hs⟩
  · rw [newCondBranch_next b rep splits L0 hcl hm]
    refine ⟨rfl, rfl, hm, ⟨splits ++ [b.leaves], ?_, fun r hr => List.mem_append.mpr (Or.inl hr), Or.inr (by simp)⟩, rfl, rfl⟩
    show aget rep (aset rep _ _) = _
    rw [aget_aset]; simp
  · rw [newCondBranch_first b rep splits hcl hm]
    refine ⟨hl, rfl, ?_, ⟨splits, hcl, fun r hr => hr, Or.inl hl⟩, rfl, rfl⟩
    show aget rep (aset rep _ _) = _
    rw [aget_aset, hl]; simp

/-- One iteration of `for block in node.handlers: new_cond_branch(rep); self.visit(block)`. -/
theorem handler_step (σ : List Scope) (rep L0 hid : Nat) (ty : List Expr) (hb : List Stmt) (rs : List Nat)
    (b : B) (a : Acc) (splits : List Nat)
    (hcl : aget rep b.condLeaves = some splits)
    (hm : aget rep b.condEntry = some L0 ∨ (aget rep b.condEntry = none ∧ b.leaves = L0 ∧ splits = []))
    (hrs : ∀ x, x ∈ rs → ∃ l, aget hid b.raises = some l ∧ x ∈ l)
    (hrep : ck rep ∉ keysL hb) (hσrep : ∀ k, k ∈ scopeKeys σ → k ≠ ck rep)
    (hpre : Pre σ (keysL hb) b)
    (hbody : ∀ (b : B) (a : Acc) (cur : List Nat), Pre σ (keysL hb) b → InLeaves b cur →
      Post σ (visitStmts σ hb b a).1 (flowBlock hb cur)) :
    let b2 := (visitStmt σ (.handler hid ty [] hb) (b.newCondBranch rep) a).1
    aget rep b2.condEntry = some L0 ∧
    (∃ splits', aget rep b2.condLeaves = some splits' ∧ (∀ r, r ∈ splits → r ∈ splits') ∧ (b.leaves = L0 ∨ b.leaves ∈ splits')) ∧
    Post σ b2 (if rs.isEmpty then {} else Flow.seq { req := (emit rs (lamsL ty)).1 } (flowBlock hb (emit rs (lamsL ty)).2)) ∧
    Frame (ck rep :: sk hid :: keysL hb) b b2 := by
  intro b2
  obtain ⟨m1, m2, m3, ⟨splits', m4, m5, m6⟩, m7, m8⟩ := newCondBranch_modes b rep L0 splits hcl hm
  -- the states inside visit_ExceptHandler
  let b1 := b.newCondBranch rep
  let be := (b1.beginStatement hid).enterExceptSection hid
  let bn := addOrdinaryNodes be (lamsL ty)
  have f01 : Frame [ck rep] b b1 := B.frame_newCondBranch _ b rep (by simp)
  have f1e : Frame [ck rep] b1 be := Frame.trans (B.frame_beginStatement _ b1 hid) (B.frame_enterExceptSection _ _ hid)
  have fen : Frame [ck rep] be bn := frame_addOrdinaryNodes _ _ be
  have f0n : Frame [ck rep] b bn := Frame.trans (Frame.trans f01 f1e) fen
  have hv1 : Valid b1 := f01.valid hpre.valid
  -- the raise nodes are leaves after enter_except_section
  have hce : InLeaves be rs := by
    intro x hx
    obtain ⟨l, hl, hxl⟩ := hrs x hx
    have hl' : aget hid (b1.beginStatement hid).raises = some l := by
      show aget hid b1.raises = some l
      rw [show b1.raises = b.raises from m8]; exact hl
    show x ∈ ((b1.beginStatement hid).enterExceptSection hid).leafSet
    simp only [B.enterExceptSection, hl']
    rw [B.mem_leafSet_leavesUnion _ _ (by simpa using hv1.leaves)]
    exact Or.inr hxl
  have hae : AllNil be := allNil_of_fs_eq (b := b) (by
    show ((b1.beginStatement hid).enterExceptSection hid).finallySections = _
    unfold B.enterExceptSection
    split <;> simpa using m7) hpre.allNil
  obtain ⟨e1, e2⟩ := emit_addOrdinaryNodes (lamsL ty) be rs hce
  have han : AllNil bn := allNil_addOrdinaryNodes _ hae
  have pren : Pre σ (keysL hb) bn :=
    hpre.move f0n (fun k hk h => hσrep k hk (by simpa using h)) (fun k hk h => hrep (by simp only [List.mem_singleton] at h; rw [← h]; exact hk)) han
  have IH := hbody bn (lamGraphsL σ ty a) _ pren e2
  have fb : Frame (keysL hb) bn (visitStmts σ hb bn (lamGraphsL σ ty a)).1 := frame_visitStmts hb σ bn _
  have hb2 : b2 = ((visitStmts σ hb bn (lamGraphsL σ ty a)).1).endStatement hid := by
    show (visitStmt σ (.handler hid ty [] hb) b1 a).1 = _
    simp only [visitStmt, List.isEmpty_nil, if_true]
    rfl
  have fe : Frame (ck rep :: sk hid :: keysL hb) (visitStmts σ hb bn (lamGraphsL σ ty a)).1 b2 := by rw [hb2]; exact B.frame_endStatement _ _ hid
  have fall : Frame (ck rep :: sk hid :: keysL hb) b b2 :=
    Frame.trans (Frame.trans (f0n.weaken (fun k hk => by simp only [List.mem_singleton] at hk; rw [hk]; exact List.mem_cons_self ..))
      (fb.weaken (fun k hk => List.mem_cons_of_mem _ (List.mem_cons_of_mem _ hk)))) fe
  have fnb2 : Frame (keysL hb) bn b2 := by rw [hb2]; exact Frame.trans fb (B.frame_endStatement _ _ hid)
  have f1n : Frame [] b1 bn := Frame.trans (Frame.trans (B.frame_beginStatement _ b1 hid) (B.frame_enterExceptSection _ _ hid)) (frame_addOrdinaryNodes _ _ be)
  refine ⟨?_, ⟨splits', ?_, m5, m6⟩, ?_, fall⟩
  · rw [fnb2.condEntry rep hrep, f1n.condEntry rep (by simp)]; exact m3
  · rw [fnb2.condLeaves rep hrep, f1n.condLeaves rep (by simp)]; exact m4
  · have hσK : ∀ k, k ∈ scopeKeys σ → k ∉ keysL hb := hpre.disj
    by_cases hre : rs.isEmpty = true
    · simp only [hre, if_true]
      exact ⟨Pend.empty σ _, fun _ h => (List.not_mem_nil h).elim, by rw [hb2]; exact allNil_of_fs_eq (B.endStatement_finallySections _ _) IH.allNil⟩
    · simp only [hre, if_false, Bool.false_eq_true]
      refine ⟨Pend.seq ((Pend.of_req σ bn _ [] e1).transport fnb2 hσK) ?_, ?_, ?_⟩
      · rw [hb2]; exact IH.pend.transport (B.frame_endStatement (keysL hb) _ hid) hσK
      · intro x hx
        rw [hb2, B.leafSet_endStatement]
        exact IH.norm x hx
      · rw [hb2]; exact allNil_of_fs_eq (B.endStatement_finallySections _ _) IH.allNil


/-- The conclusion of the handler loop followed by the closing `new_cond_branch(rep); exit_cond_section(rep)`. -/
def HandlersOk (σ : List Scope) (rep L0 : Nat) (rs : List Nat) (hs : List Stmt) (b : B) (a : Acc) (splits : List Nat) : Prop :=
  Pend σ (((visitHandlers σ rep hs b a).1.newCondBranch rep).exitCondSection rep) (flowHandlers hs rs) ∧
  AllNil (((visitHandlers σ rep hs b a).1.newCondBranch rep).exitCondSection rep) ∧
  (∀ x, (x ∈ b.deref L0 ∨ (∃ r, r ∈ splits ∧ x ∈ b.deref r) ∨ x ∈ b.leafSet ∨ x ∈ (flowHandlers hs rs).normal) →
    x ∈ (((visitHandlers σ rep hs b a).1.newCondBranch rep).exitCondSection rep).leafSet)

/-- base case of the handler loop -/
theorem handlers_nil (σ : List Scope) (rep L0 : Nat) (rs : List Nat) (b : B) (a : Acc) (splits : List Nat)
    (hcl : aget rep b.condLeaves = some splits)
    (hm : aget rep b.condEntry = some L0 ∨ (aget rep b.condEntry = none ∧ b.leaves = L0 ∧ splits = []))
    (hv : Valid b) (ha : AllNil b) : HandlersOk σ rep L0 rs [] b a splits := by
  obtain ⟨m1, m2, m3, ⟨splits', m4, m5, m6⟩, m7, m8⟩ := newCondBranch_modes b rep L0 splits hcl hm
  have hv1 : Valid (b.newCondBranch rep) := (B.frame_newCondBranch [ck rep] b rep (by simp)).valid hv
  obtain ⟨x1, x2, x3⟩ := exitCondSection_effect (b.newCondBranch rep) rep splits' m4 hv1
  have hd : ∀ r, (b.newCondBranch rep).deref r = b.deref r := fun r => deref_eq_of_heap m2 r
  have hl1 : (b.newCondBranch rep).leafSet = b.deref L0 := by
    show (b.newCondBranch rep).deref (b.newCondBranch rep).leaves = _
    rw [m1, hd]
  refine ⟨?_, ?_, ?_⟩
  · show Pend σ _ {}
    exact Pend.empty σ _
  · show AllNil ((b.newCondBranch rep).exitCondSection rep)
    exact allNil_of_fs_eq (b := b) (by rw [x3, m7]) ha
  · intro x hx
    show x ∈ ((b.newCondBranch rep).exitCondSection rep).leafSet
    rcases hx with hx | ⟨r, hr, hx⟩ | hx | hx
    · exact x1 x (by rw [hl1]; exact hx)
    · exact x2 r (m5 r hr) x (by rw [hd]; exact hx)
    · rcases m6 with m6 | m6
      · exact x1 x (by rw [hl1, ← m6]; exact hx)
      · exact x2 _ m6 x (by rw [hd]; exact hx)
    · simp [flowHandlers] at hx

/-- The optional `else` block of a `try`: a conditional section with one real branch. -/
theorem orelse_section (σ' : List Scope) (orelse : List Stmt) (b1 : B) (a1 : Acc) (R1n : List Nat)
    (hnd : (repKey orelse ++ keysL orelse).Nodup)
    (hpre : Pre σ' (repKey orelse ++ keysL orelse) b1) (hc : InLeaves b1 R1n)
    (horelse : ∀ (b : B) (a : Acc) (cur : List Nat), Pre σ' (keysL orelse) b → InLeaves b cur →
      Post σ' (visitStmts σ' orelse b a).1 (flowBlock orelse cur)) :
    Post σ' (optSection (orelse.head?.map Stmt.id) (fun k b => (b.enterCondSection k).newCondBranch k)
        (fun k b => (b.newCondBranch k).exitCondSection k) (fun _ => visitStmts σ' orelse) (b1, a1)).1
      (flowBlock orelse R1n) := by
  cases orelse with
  | nil =>
    simp only [List.head?_nil, Option.map_none, optSection, flowBlock]
    exact ⟨Pend.of_req σ' b1 [] R1n (sub_nil _), hc, hpre.allNil⟩
  | cons s0 rest =>
    simp only [List.head?_cons, Option.map_some, optSection]
    have hkeys : repKey (s0 :: rest) = [ck s0.id] := rfl
    rw [hkeys] at hnd hpre
    obtain ⟨hro, hndo⟩ := List.nodup_cons.mp hnd
    -- enter + first branch
    obtain ⟨c1, c2, c3, c4, _, _⟩ := enterCondSection_effect b1 s0.id
    have hce0 : aget s0.id (b1.enterCondSection s0.id).condEntry = none := by
      rw [c2]; exact hpre.fresh s0.id (List.mem_cons_self ..)
    let bo1 := (b1.enterCondSection s0.id).newCondBranch s0.id
    have hbo1 : bo1 = (b1.enterCondSection s0.id).putCondEntry s0.id (b1.enterCondSection s0.id).leaves :=
      newCondBranch_first _ s0.id [] c1 hce0
    have hl1 : bo1.leafSet = b1.leafSet := by rw [hbo1]; exact c3
    have hce1 : aget s0.id bo1.condEntry = some (b1.enterCondSection s0.id).leaves := by
      rw [hbo1]; show aget s0.id (aset s0.id _ _) = _; rw [aget_aset]; simp
    have hcl1 : aget s0.id bo1.condLeaves = some [] := by rw [hbo1]; exact c1
    have hao1 : AllNil bo1 := allNil_of_fs_eq (b := b1) (by rw [hbo1]; exact c4) hpre.allNil
    have f01 : Frame [ck s0.id] b1 bo1 :=
      Frame.trans (B.frame_enterCondSection _ b1 s0.id (by simp)) (B.frame_newCondBranch _ _ s0.id (by simp))
    have hσ1 : ∀ k, k ∈ scopeKeys σ' → k ∉ [ck s0.id] :=
      fun k hk h => hpre.disj k hk (by simp only [List.mem_singleton] at h; rw [h]; exact List.mem_cons_self ..)
    have pre1 : Pre σ' (keysL (s0 :: rest)) bo1 :=
      (hpre.sub (fun k hk => List.mem_cons_of_mem _ hk)).move f01 hσ1
        (fun k hk h => hro (by simp only [List.mem_singleton] at h; rw [← h]; exact hk)) hao1
    have IH := horelse bo1 a1 R1n pre1 (fun x hx => by rw [hl1]; exact hc x hx)
    let bo2 := (visitStmts σ' (s0 :: rest) bo1 a1).1
    have fo : Frame (keysL (s0 :: rest)) bo1 bo2 := frame_visitStmts _ σ' bo1 a1
    have hce2 : aget s0.id bo2.condEntry = some (b1.enterCondSection s0.id).leaves := by rw [fo.condEntry _ hro]; exact hce1
    have hcl2 : aget s0.id bo2.condLeaves = some [] := by rw [fo.condLeaves _ hro]; exact hcl1
    let bo3 := bo2.newCondBranch s0.id
    have hbo3 : bo3 = (bo2.putCondLeaves s0.id ([] ++ [bo2.leaves])).setLeavesRef (b1.enterCondSection s0.id).leaves :=
      newCondBranch_next bo2 s0.id [] _ hcl2 hce2
    have hcl3 : aget s0.id bo3.condLeaves = some [bo2.leaves] := by
      rw [hbo3]; show aget s0.id (aset s0.id _ _) = _; rw [aget_aset]; simp
    have hv3 : Valid bo3 := (B.frame_newCondBranch [ck s0.id] bo2 s0.id (by simp)).valid (fo.valid pre1.valid)
    obtain ⟨x1, x2, x3⟩ := exitCondSection_effect bo3 s0.id [bo2.leaves] hcl3 hv3
    have f23 : Frame [ck s0.id] bo2 (bo3.exitCondSection s0.id) :=
      Frame.trans (B.frame_newCondBranch [ck s0.id] bo2 s0.id (by simp)) (B.frame_exitCondSection _ _ s0.id (by simp))
    refine ⟨IH.pend.transport f23 hσ1, ?_, ?_⟩
    · intro x hx
      have h1 : x ∈ bo2.deref bo2.leaves := IH.norm x hx
      have h2 : x ∈ bo3.deref bo2.leaves := by rw [deref_eq_of_heap (b := bo2) (by rw [hbo3]; rfl)]; exact h1
      exact x2 _ (by simp) x h2
    · exact allNil_of_fs_eq (b := bo2) (by rw [x3, hbo3]; rfl) IH.allNil


/-- the `raises` key of every handler is among the keys of the handler list -/
theorem sk_handlerIds_mem (inLoop : Bool) : ∀ (hs : List Stmt), frag2H inLoop hs = true → ∀ hid, hid ∈ handlerIds hs → sk hid ∈ keysL hs := by
  intro hs
  induction hs with
  | nil => intro _ hid h; cases h
  | cons h0 hs ih =>
    intro hH hid hmem
    cases h0 with
    | handler i ty nm hb =>
      simp only [frag2H, Bool.and_eq_true] at hH
      simp only [handlerIds, List.mem_cons] at hmem
      simp only [keysL, stmtKeys', List.mem_append, List.mem_cons]
      rcases hmem with hmem | hmem
      · subst hmem; exact Or.inl (Or.inl rfl)
      · exact Or.inr (ih hH.2 hid hmem)
    | _ => simp [frag2H] at hH

theorem Pend.three {σ : List Scope} {b : B} {R1 R2 H : Flow} (N : List Nat) (h1 : Pend σ b R1) (h2 : Pend σ b R2) (h3 : Pend σ b H) :
    Pend σ b { req := R1.req ++ (R2.req ++ H.req), normal := N, brk := R1.brk ++ (R2.brk ++ H.brk),
               cont := R1.cont ++ (R2.cont ++ H.cont), ret := R1.ret ++ (R2.ret ++ H.ret),
               raise := R1.raise ++ (R2.raise ++ H.raise), exempt := R1.exempt ++ (R2.exempt ++ H.exempt) } := by
  refine ⟨?_, ?_, ?_, ?_, ?_, ?_⟩
  · simp only [sub_append]; exact ⟨h1.req, h2.req, h3.req⟩
  · intro x hx; simp only [List.mem_append] at hx; exact hx.elim (h1.brk x) (fun h => h.elim (h2.brk x) (h3.brk x))
  · intro x hx; simp only [List.mem_append] at hx; exact hx.elim (h1.cont x) (fun h => h.elim (h2.cont x) (h3.cont x))
  · intro x hx; simp only [List.mem_append] at hx; exact hx.elim (h1.ret x) (fun h => h.elim (h2.ret x) (h3.ret x))
  · intro x hx; simp only [List.mem_append] at hx; exact hx.elim (h1.raise x) (fun h => h.elim (h2.raise x) (h3.raise x))
  · simp [h1.exempt, h2.exempt, h3.exempt]

/-- `try: body except …: … else: orelse` (no `finally`), given Lemma B for the body, the `else` block and the handler loop. -/
theorem lemB_try (σ : List Scope) (i : Nat) (body handlers orelse : List Stmt) (b : B) (a : Acc) (cur : List Nat) (inLoop : Bool)
    (hH : frag2H inLoop handlers = true)
    (hnd : (repKey orelse ++ (repKey handlers ++ (keysL body ++ (keysL handlers ++ (keysL orelse ++ keysL []))))).Nodup)
    (hp : Pre σ (repKey orelse ++ (repKey handlers ++ (keysL body ++ (keysL handlers ++ (keysL orelse ++ keysL []))))) b)
    (hc : InLeaves b cur)
    (hbody : ∀ (b : B) (a : Acc) (cur : List Nat), Pre (Scope.try_ i false (handlerIds handlers) :: σ) (keysL body) b → InLeaves b cur →
      Post (Scope.try_ i false (handlerIds handlers) :: σ) (visitStmts (Scope.try_ i false (handlerIds handlers) :: σ) body b a).1 (flowBlock body cur))
    (horelse : ∀ (b : B) (a : Acc) (cur : List Nat), Pre (Scope.try_ i false (handlerIds handlers) :: σ) (keysL orelse) b → InLeaves b cur →
      Post (Scope.try_ i false (handlerIds handlers) :: σ) (visitStmts (Scope.try_ i false (handlerIds handlers) :: σ) orelse b a).1 (flowBlock orelse cur))
    (hhand : ∀ (rep L0 : Nat) (rs : List Nat) (b : B) (a : Acc) (splits : List Nat),
      ck rep ∉ keysL handlers → (∀ k, k ∈ scopeKeys σ → k ≠ ck rep) → Pre σ (keysL handlers) b →
      aget rep b.condLeaves = some splits →
      (aget rep b.condEntry = some L0 ∨ (aget rep b.condEntry = none ∧ b.leaves = L0 ∧ splits = [])) →
      (∀ hid, hid ∈ handlerIds handlers → ∀ x, x ∈ rs → ∃ l, aget hid b.raises = some l ∧ x ∈ l) →
      HandlersOk σ rep L0 rs handlers b a splits) :
    Post σ (visitStmt σ (.try_ i body handlers orelse []) b a).1 (flowStmt (.try_ i body handlers orelse []) cur) := by
  -- abbreviations
  let σ' := Scope.try_ i false (handlerIds handlers) :: σ
  simp only [keysL, List.append_nil] at hnd hp
  -- key bookkeeping
  obtain ⟨nd_ro, nd1, d_ro⟩ := List.nodup_append.mp hnd
  obtain ⟨nd_rh, nd2, d_rh⟩ := List.nodup_append.mp nd1
  obtain ⟨nd_b, nd3, d_b⟩ := List.nodup_append.mp nd2
  obtain ⟨nd_h, nd_o, d_h⟩ := List.nodup_append.mp nd3
  have kro : ∀ k, k ∈ repKey orelse → k ∈ repKey orelse ++ (repKey handlers ++ (keysL body ++ (keysL handlers ++ keysL orelse))) :=
    fun k hk => List.mem_append.mpr (Or.inl hk)
  have krh : ∀ k, k ∈ repKey handlers → k ∈ repKey orelse ++ (repKey handlers ++ (keysL body ++ (keysL handlers ++ keysL orelse))) :=
    fun k hk => List.mem_append.mpr (Or.inr (List.mem_append.mpr (Or.inl hk)))
  have kb : ∀ k, k ∈ keysL body → k ∈ repKey orelse ++ (repKey handlers ++ (keysL body ++ (keysL handlers ++ keysL orelse))) :=
    fun k hk => List.mem_append.mpr (Or.inr (List.mem_append.mpr (Or.inr (List.mem_append.mpr (Or.inl hk)))))
  have kh : ∀ k, k ∈ keysL handlers → k ∈ repKey orelse ++ (repKey handlers ++ (keysL body ++ (keysL handlers ++ keysL orelse))) :=
    fun k hk => List.mem_append.mpr (Or.inr (List.mem_append.mpr (Or.inr (List.mem_append.mpr (Or.inr (List.mem_append.mpr (Or.inl hk)))))))
  have ko : ∀ k, k ∈ keysL orelse → k ∈ repKey orelse ++ (repKey handlers ++ (keysL body ++ (keysL handlers ++ keysL orelse))) :=
    fun k hk => List.mem_append.mpr (Or.inr (List.mem_append.mpr (Or.inr (List.mem_append.mpr (Or.inr (List.mem_append.mpr (Or.inr hk)))))))
  have kroo : ∀ k, k ∈ repKey orelse ++ keysL orelse → k ∈ repKey orelse ++ (repKey handlers ++ (keysL body ++ (keysL handlers ++ keysL orelse))) :=
    fun k hk => (List.mem_append.mp hk).elim (kro k) (ko k)
  have hskh : ∀ hid, hid ∈ handlerIds handlers → sk hid ∈ keysL handlers := sk_handlerIds_mem inLoop handlers hH
  -- scope keys of σ'
  have hσ' : ∀ k, k ∈ scopeKeys σ' → k ∈ scopeKeys σ ∨ ∃ hid, hid ∈ handlerIds handlers ∧ k = sk hid := by
    intro k hk
    simp only [σ', scopeKeys, List.mem_append, List.mem_map] at hk
    rcases hk with ⟨hid, h1, h2⟩ | hk
    · exact Or.inr ⟨hid, h1, h2.symm⟩
    · exact Or.inl hk
  -- a precondition in the try's scope list, for any part of the keys that avoids the handlers' `raises` keys
  have mkPre : ∀ (Ks : List Nat) (b' : B), (∀ k, k ∈ Ks → k ∈ repKey orelse ++ (repKey handlers ++ (keysL body ++ (keysL handlers ++ keysL orelse)))) →
      (∀ hid, hid ∈ handlerIds handlers → sk hid ∉ Ks) → Pre σ Ks b' → Pre σ' Ks b' := by
    intro Ks b' hsub hh hq
    refine ⟨noFinScope_try i _ hq.noFin, ?_, hq.fresh, ?_, ?_, hq.valid, hq.allNil⟩
    · intro k hk
      rcases hσ' k hk with hk | ⟨hid, h1, h2⟩
      · exact hq.disj k hk
      · rw [h2]; exact hh hid h1
    · intro L hL; exact hq.loopOpen L (by rw [← loopOf_try i (handlerIds handlers) σ]; exact hL)
    · obtain ⟨F, hF, l, hl⟩ := hq.fnOpen
      exact ⟨F, by rw [fnOf_try]; exact hF, l, hl⟩
  have hh_b : ∀ hid, hid ∈ handlerIds handlers → sk hid ∉ keysL body := fun hid h hk => d_b _ hk _ (List.mem_append.mpr (Or.inl (hskh hid h))) rfl
  have hh_o : ∀ hid, hid ∈ handlerIds handlers → sk hid ∉ repKey orelse ++ keysL orelse := by
    intro hid h hk
    rcases List.mem_append.mp hk with hk | hk
    · exact d_ro _ hk _ (List.mem_append.mpr (Or.inr (List.mem_append.mpr (Or.inr (List.mem_append.mpr (Or.inl (hskh hid h))))))) rfl
    · exact d_h _ (hskh hid h) _ hk rfl
  -- 1. begin_statement and the body
  let b0 := b.beginStatement i
  have f00 : Frame [] b b0 := B.frame_beginStatement _ b i
  have hp0 : Pre σ (repKey orelse ++ (repKey handlers ++ (keysL body ++ (keysL handlers ++ keysL orelse)))) b0 :=
    hp.move f00 (fun _ _ h => (List.not_mem_nil h).elim) (fun _ _ h => (List.not_mem_nil h).elim) (allNil_of_fs_eq (b := b) rfl hp.allNil)
  have pre0 : Pre σ' (keysL body) b0 := mkPre _ b0 kb hh_b (hp0.sub kb)
  have IHb := hbody b0 a cur pre0 hc
  let r1 := visitStmts σ' body b0 a
  have fb : Frame (keysL body) b0 r1.1 := frame_visitStmts body σ' b0 a
  -- 2. the else block
  have pre1 : Pre σ' (repKey orelse ++ keysL orelse) r1.1 :=
    (mkPre _ b0 kroo hh_o (hp0.sub kroo)).move fb pre0.disj
      (fun k hk h => by
        rcases List.mem_append.mp hk with hk | hk
        · exact d_ro _ hk _ (List.mem_append.mpr (Or.inr (List.mem_append.mpr (Or.inl h)))) rfl
        · exact d_b _ h _ (List.mem_append.mpr (Or.inr hk)) rfl) IHb.allNil
  have nd_roo : (repKey orelse ++ keysL orelse).Nodup :=
    List.nodup_append.mpr ⟨nd_ro, nd_o, fun x hx y hy => d_ro x hx y (List.mem_append.mpr (Or.inr (List.mem_append.mpr (Or.inr (List.mem_append.mpr (Or.inr hy))))))⟩
  have IHo := orelse_section σ' orelse r1.1 r1.2 _ nd_roo pre1 IHb.norm horelse
  let r2 := optSection (orelse.head?.map Stmt.id) (fun k b => (b.enterCondSection k).newCondBranch k)
      (fun k b => (b.newCondBranch k).exitCondSection k) (fun _ => visitStmts σ' orelse) r1
  have f12 : Frame (repKey orelse ++ keysL orelse) r1.1 r2.1 := by
    refine frame_optSection _ _ _ _ _ r1 ?_ ?_ ?_
    · intro k b' hk
      have hk' : ck k ∈ repKey orelse ++ keysL orelse := List.mem_append.mpr (Or.inl (mem_repKey orelse k hk))
      exact Frame.trans (B.frame_enterCondSection _ _ k hk') (B.frame_newCondBranch _ _ k hk')
    · intro k b' hk
      have hk' : ck k ∈ repKey orelse ++ keysL orelse := List.mem_append.mpr (Or.inl (mem_repKey orelse k hk))
      exact Frame.trans (B.frame_newCondBranch _ _ k hk') (B.frame_exitCondSection _ _ k hk')
    · intro k b' a' _
      exact (frame_visitStmts orelse σ' b' a').weaken (fun k hk => List.mem_append.mpr (Or.inr hk))
  -- facts read in the outer scope list, at r2
  have hσroo : ∀ k, k ∈ scopeKeys σ → k ∉ repKey orelse ++ keysL orelse := fun k hk h => hp.disj k hk (kroo k h)
  have hσb : ∀ k, k ∈ scopeKeys σ → k ∉ keysL body := fun k hk h => hp.disj k hk (kb k h)
  have P1 : Pend σ r2.1 (flowBlock body cur) := (IHb.pend.out_of_try).transport f12 hσroo
  have P2 : Pend σ r2.1 (flowBlock orelse (flowBlock body cur).normal) := IHo.pend.out_of_try
  have hvis : (visitStmt σ (.try_ i body handlers orelse []) b a).1 =
      (optSection (handlers.head?.map Stmt.id) (fun k b => b.enterCondSection k) (fun k b => (b.newCondBranch k).exitCondSection k)
        (fun k => visitHandlers σ k handlers) r2).1.endStatement i := rfl
  rw [hvis]
  simp only [flowStmt, List.isEmpty_nil, if_true]
  -- 3. the handlers
  cases hhs : handlers with
  | nil =>
    simp only [List.head?_nil, Option.map_none, optSection, flowHandlers]
    have fe : Frame [] r2.1 (r2.1.endStatement i) := B.frame_endStatement _ _ i
    have hnone : ∀ k, k ∈ scopeKeys σ → k ∉ ([] : List Nat) := fun _ _ h => (List.not_mem_nil h).elim
    refine ⟨Pend.three _ (P1.transport fe hnone) (P2.transport fe hnone) (Pend.empty σ _), ?_, ?_⟩
    · intro x hx
      simp only [List.append_nil] at hx
      rw [B.leafSet_endStatement]
      exact IHo.norm x hx
    · exact allNil_of_fs_eq (B.endStatement_finallySections _ _) IHo.allNil
  | cons h0 rest =>
    subst hhs
    simp only [List.head?_cons, Option.map_some, optSection]
    have hrk : repKey (h0 :: rest) = [ck h0.id] := rfl
    have hrepK : ck h0.id ∈ repKey (h0 :: rest) := by rw [hrk]; simp
    have hrep_h : ck h0.id ∉ keysL (h0 :: rest) := fun h => d_rh _ hrepK _ (List.mem_append.mpr (Or.inr (List.mem_append.mpr (Or.inl h)))) rfl
    have hrep_b : ck h0.id ∉ keysL body := fun h => d_rh _ hrepK _ (List.mem_append.mpr (Or.inl h)) rfl
    have hrep_o : ck h0.id ∉ repKey orelse ++ keysL orelse := by
      intro h
      rcases List.mem_append.mp h with h | h
      · exact d_ro _ h _ (List.mem_append.mpr (Or.inl hrepK)) rfl
      · exact d_rh _ hrepK _ (List.mem_append.mpr (Or.inr (List.mem_append.mpr (Or.inr h)))) rfl
    have hσrep : ∀ k, k ∈ scopeKeys σ → k ≠ ck h0.id := fun k hk h => hp.disj k hk (h ▸ krh _ hrepK)
    let bh := r2.1.enterCondSection h0.id
    obtain ⟨c1, c2, c3, c4, _, _⟩ := enterCondSection_effect r2.1 h0.id
    -- the split key is still fresh
    have hfresh : aget h0.id bh.condEntry = none := by
      show aget h0.id (r2.1.enterCondSection h0.id).condEntry = none
      rw [c2, f12.condEntry _ hrep_o, fb.condEntry _ hrep_b]
      exact hp0.fresh h0.id (krh _ hrepK)
    have hah : AllNil bh := allNil_of_fs_eq (b := r2.1) c4 IHo.allNil
    have f0h : Frame (ck h0.id :: (keysL body ++ (repKey orelse ++ keysL orelse))) b bh :=
      Frame.trans (Frame.trans (Frame.trans (f00.weaken (fun _ h => (List.not_mem_nil h).elim))
        (fb.weaken (fun k hk => List.mem_cons_of_mem _ (List.mem_append.mpr (Or.inl hk)))))
        (f12.weaken (fun k hk => List.mem_cons_of_mem _ (List.mem_append.mpr (Or.inr hk)))))
        (B.frame_enterCondSection _ _ h0.id (List.mem_cons_self ..))
    have preh : Pre σ (keysL (h0 :: rest)) bh := by
      refine (hp.sub kh).move f0h ?_ ?_ hah
      · intro k hk h
        rcases List.mem_cons.mp h with h | h
        · exact hσrep k hk h
        · rcases List.mem_append.mp h with h | h
          · exact hσb k hk h
          · exact hσroo k hk h
      · intro k hk h
        rcases List.mem_cons.mp h with h | h
        · exact hrep_h (h ▸ hk)
        · rcases List.mem_append.mp h with h | h
          · exact d_b _ h _ (List.mem_append.mpr (Or.inl hk)) rfl
          · rcases List.mem_append.mp h with h | h
            · exact d_ro _ h _ (List.mem_append.mpr (Or.inr (List.mem_append.mpr (Or.inr (List.mem_append.mpr (Or.inl hk)))))) rfl
            · exact d_h _ hk _ h rfl
    have hraises : ∀ hid, hid ∈ handlerIds (h0 :: rest) → ∀ x, x ∈ (flowBlock body cur).raise → ∃ l, aget hid bh.raises = some l ∧ x ∈ l := by
      intro hid hh x hx
      obtain ⟨l, hl, hxl⟩ := (IHb.pend.raise x hx).2 hid (by rw [enclosingExcept_try]; exact List.mem_append.mpr (Or.inl hh))
      obtain ⟨l', hl', hsub⟩ := f12.raises hid (hh_o hid hh) l hl
      exact ⟨l', by show aget hid (r2.1.enterCondSection h0.id).raises = _; simpa [B.enterCondSection] using hl', hsub x hxl⟩
    obtain ⟨HO1, HO2, HO3⟩ := hhand h0.id bh.leaves (flowBlock body cur).raise bh r2.2 [] hrep_h hσrep preh c1
      (Or.inr ⟨hfresh, rfl, rfl⟩) hraises
    -- frames to the final state
    have f2e : Frame (ck h0.id :: keysL (h0 :: rest)) r2.1
        ((((visitHandlers σ h0.id (h0 :: rest) bh r2.2).1.newCondBranch h0.id).exitCondSection h0.id).endStatement i) :=
      Frame.trans (Frame.trans (Frame.trans (Frame.trans (B.frame_enterCondSection _ r2.1 h0.id (List.mem_cons_self ..))
        (frame_visitHandlers (h0 :: rest) σ h0.id _ (List.mem_cons_self ..) (fun k hk => List.mem_cons_of_mem _ hk) bh r2.2))
        (B.frame_newCondBranch _ _ h0.id (List.mem_cons_self ..))) (B.frame_exitCondSection _ _ h0.id (List.mem_cons_self ..)))
        (B.frame_endStatement _ _ i)
    have hσe : ∀ k, k ∈ scopeKeys σ → k ∉ ck h0.id :: keysL (h0 :: rest) := by
      intro k hk h
      rcases List.mem_cons.mp h with h | h
      · exact hσrep k hk h
      · exact hp.disj k hk (kh k h)
    have fend : Frame (ck h0.id :: keysL (h0 :: rest))
        (((visitHandlers σ h0.id (h0 :: rest) bh r2.2).1.newCondBranch h0.id).exitCondSection h0.id)
        ((((visitHandlers σ h0.id (h0 :: rest) bh r2.2).1.newCondBranch h0.id).exitCondSection h0.id).endStatement i) :=
      B.frame_endStatement _ _ i
    refine ⟨Pend.three _ (P1.transport f2e hσe) (P2.transport f2e hσe) (HO1.transport fend hσe), ?_, ?_⟩
    · intro x hx
      rw [B.leafSet_endStatement]
      rcases List.mem_append.mp hx with hx | hx
      · apply HO3 x
        refine Or.inr (Or.inr (Or.inl ?_))
        show x ∈ (r2.1.enterCondSection h0.id).leafSet
        rw [c3]; exact IHo.norm x hx
      · exact HO3 x (Or.inr (Or.inr (Or.inr hx)))
    · exact allNil_of_fs_eq (B.endStatement_finallySections _ _) HO2


/-! ### Lemma B -/

mutual
theorem lemB_stmt : ∀ (s : Stmt) (σ : List Scope) (b : B) (a : Acc) (inLoop : Bool) (cur : List Nat),
    frag2 inLoop s = true → (inLoop = true → ∃ L, loopOf σ = some L) → (stmtKeys' s).Nodup →
    Pre σ (stmtKeys' s) b → InLeaves b cur → Post σ (visitStmt σ s b a).1 (flowStmt s cur)
  | .ret i v, σ, b, a, inLoop, cur, _, _, _, hp, hc => by
    obtain ⟨F, hF, l, hl⟩ := hp.fnOpen
    simp only [visitStmt, flowStmt]
    rw [processExit_eq σ _ i .fn false F hF hp.noFin]
    simp only [Bool.false_eq_true, if_false]
    obtain ⟨e1, e2, ⟨l', e3, e3'⟩, e4⟩ := post_exit σ b cur (lamsL v) i F l hc hp.allNil hl
    refine ⟨⟨e1, fun _ h => (List.not_mem_nil h).elim, fun _ h => (List.not_mem_nil h).elim, ?_,
      fun _ h => (List.not_mem_nil h).elim, rfl⟩, fun _ h => (List.not_mem_nil h).elim, e4⟩
    intro x hx
    rw [(emit_snoc cur (lamsL v) i).2] at hx
    simp only [List.mem_singleton] at hx
    subst hx
    exact ⟨F, l', hF, e3, e3'⟩
  | .raise i e c, σ, b, a, inLoop, cur, _, _, _, hp, hc => by
    obtain ⟨F, hF, l, hl⟩ := hp.fnOpen
    simp only [visitStmt, flowStmt]
    rw [processExit_eq σ _ i .fn true F hF hp.noFin]
    simp only [if_true]
    have hlam : lamsL e ++ (lamsL c ++ [i]) = (lamsL e ++ lamsL c) ++ [i] := by simp
    rw [hlam]
    obtain ⟨e1, e2, ⟨l', e3, e3'⟩, e4⟩ := post_exit σ b cur (lamsL e ++ lamsL c) i F l hc hp.allNil hl
    refine ⟨⟨e1, fun _ h => (List.not_mem_nil h).elim, fun _ h => (List.not_mem_nil h).elim,
      fun _ h => (List.not_mem_nil h).elim, ?_, rfl⟩, fun _ h => (List.not_mem_nil h).elim, allNil_of_fs_eq (by simp [B.connectRaiseNode]) e4⟩
    intro x hx
    rw [(emit_snoc cur (lamsL e ++ lamsL c) i).2] at hx
    simp only [List.mem_singleton] at hx
    subst hx
    refine ⟨⟨F, l', hF, by simpa [B.connectRaiseNode] using e3, e3'⟩, ?_⟩
    intro hd hhd
    obtain ⟨lr, hlr, hxr⟩ := raiseFold_effect x (enclosingExcept .fn σ) ((addOrdinaryNodes b (lamsL e ++ lamsL c)).addExitNode x F []).raises hd hhd
    exact ⟨lr, hlr, hxr⟩
  | .break_ i, σ, b, a, inLoop, cur, hfr, hlp, _, hp, hc => by
    simp only [frag2] at hfr
    obtain ⟨L, hL⟩ := hlp hfr
    obtain ⟨⟨l, hl⟩, _⟩ := hp.loopOpen L hL
    simp only [visitStmt, flowStmt]
    rw [processExit_eq σ _ i .loop false L hL hp.noFin]
    simp only [Bool.false_eq_true, if_false]
    obtain ⟨e1, e2, ⟨l', e3, e3'⟩, e4⟩ := post_exit σ b cur [] i L l hc hp.allNil hl
    refine ⟨⟨e1, ?_, fun _ h => (List.not_mem_nil h).elim, fun _ h => (List.not_mem_nil h).elim,
      fun _ h => (List.not_mem_nil h).elim, rfl⟩, fun _ h => (List.not_mem_nil h).elim, e4⟩
    intro x hx
    simp only [emit, List.mem_singleton] at hx
    subst hx
    exact ⟨L, l', hL, e3, e3'⟩
  | .continue_ i, σ, b, a, inLoop, cur, hfr, hlp, _, hp, hc => by
    simp only [frag2] at hfr
    obtain ⟨L, hL⟩ := hlp hfr
    obtain ⟨_, ⟨l, hl⟩⟩ := hp.loopOpen L hL
    simp only [visitStmt, flowStmt]
    rw [processContinue_eq σ _ i L hL hp.noFin]
    obtain ⟨e1, e2, e3, e4⟩ := addContinueNode_effect b i L l hl cur hc hp.allNil
    refine ⟨⟨by simpa [emit] using e1, fun _ h => (List.not_mem_nil h).elim, ?_, fun _ h => (List.not_mem_nil h).elim,
      fun _ h => (List.not_mem_nil h).elim, rfl⟩, fun _ h => (List.not_mem_nil h).elim, e4⟩
    intro x hx
    simp only [emit, List.mem_singleton] at hx
    subst hx
    exact ⟨L, _, hL, e3, by simp⟩
  | .functionDef i name args body decs rets isAsync, σ, b, a, inLoop, cur, hfr, _, _, hp, hc => by
    simp only [frag2, Bool.not_eq_true'] at hfr
    subst hfr
    simp only [visitStmt, Bool.false_eq_true, if_false, flowStmt]
    exact post_emit_normal σ b cur [i] hc hp.allNil
  | .classDef i name bases kws body decs, σ, b, a, inLoop, cur, _, _, _, hp, hc => by
    simp only [visitStmt, flowStmt]
    exact post_emit_normal σ b cur [i] hc hp.allNil
  | .with_ i items body isAsync, σ, b, a, inLoop, cur, hfr, hlp, hnd, hp, hc => by
    simp only [frag2, Bool.and_eq_true, Bool.not_eq_true'] at hfr
    obtain ⟨has, hfb⟩ := hfr
    subst has
    simp only [visitStmt, Bool.false_eq_true, if_false, flowStmt, stmtKeys'] at hnd hp ⊢
    have hbe : (basicExprs σ items b a).1 = addOrdinaryNodes b (withItemNodes items) := basicExprs_eq σ items b a
    have p0 := post_emit_normal σ b cur (withItemNodes items) hc hp.allNil
    rw [← hbe] at p0
    have hf0 : Frame [] b (basicExprs σ items b a).1 := frame_basicExprs _ σ items b a
    have hp1 : Pre σ (keysL body) (basicExprs σ items b a).1 :=
      hp.move hf0 (fun _ _ h => (List.not_mem_nil h).elim) (fun _ _ h => (List.not_mem_nil h).elim) p0.allNil
    have ih := lemB_stmts body σ _ (basicExprs σ items b a).2 inLoop _ hfb hlp hnd hp1 p0.norm
    have hfb' := frame_visitStmts body σ (basicExprs σ items b a).1 (basicExprs σ items b a).2
    exact ⟨Pend.seq ((Pend.of_req σ _ _ [] p0.pend.req).transport hfb' hp1.disj) ih.pend, ih.norm, ih.allNil⟩
  | .if_ i test body orelse, σ, b, a, inLoop, cur, hfr, hlp, hnd, hp, hc => by
    simp only [frag2, Bool.and_eq_true] at hfr
    simp only [stmtKeys'] at hnd hp
    obtain ⟨_, hnd2⟩ := List.nodup_cons.mp hnd
    obtain ⟨ndb, ndo, _⟩ := List.nodup_append.mp hnd2
    simp only [visitStmt]
    exact lemB_if σ i test body orelse b a _ _ cur hnd hp hc
      (fun b' a' cur' hp' hc' => lemB_stmts body σ b' a' inLoop cur' hfr.1 hlp ndb hp' hc')
      (fun b' a' cur' hp' hc' => lemB_stmts orelse σ b' a' inLoop cur' hfr.2 hlp ndo hp' hc')
  | .while_ i test body orelse, σ, b, a, inLoop, cur, hfr, hlp, hnd, hp, hc => by
    simp only [frag2, Bool.and_eq_true] at hfr
    simp only [stmtKeys'] at hnd hp
    obtain ⟨_, hnd2⟩ := List.nodup_cons.mp hnd
    obtain ⟨ndb, ndo, _⟩ := List.nodup_append.mp hnd2
    simp only [visitStmt]
    show Post σ _ (Flow.seq { req := (emit cur test.kidLams).1 ++ cross (emit cur test.kidLams).2 test.id } (loopFlow test.id [] body orelse))
    exact lemB_loop σ i test.id test.kidLams body orelse b _ _ cur hnd hp hc
      (fun b' a' cur' hp' hc' => lemB_stmts body (Scope.loop i :: σ) b' a' true cur' hfr.1 (fun _ => ⟨i, rfl⟩) ndb hp' hc')
      (fun b' a' cur' hp' hc' => lemB_stmts orelse σ b' a' inLoop cur' hfr.2 hlp ndo hp' hc')
  | .for_ i target iter body orelse extra isAsync, σ, b, a, inLoop, cur, hfr, hlp, hnd, hp, hc => by
    simp only [frag2, Bool.and_eq_true, Bool.not_eq_true', List.isEmpty_iff] at hfr
    obtain ⟨⟨⟨has, hex⟩, hfb⟩, hfo⟩ := hfr
    subst has; subst hex
    simp only [stmtKeys', Bool.false_eq_true, if_false] at hnd hp
    obtain ⟨_, hnd2⟩ := List.nodup_cons.mp hnd
    obtain ⟨ndb, ndo, _⟩ := List.nodup_append.mp hnd2
    simp only [visitStmt, Bool.false_eq_true, if_false, List.take, basicExprs]
    show Post σ _ (Flow.seq { req := (emit cur iter.kidLams).1 ++ cross (emit cur iter.kidLams).2 iter.id } (loopFlow iter.id [] body orelse))
    exact lemB_loop σ i iter.id iter.kidLams body orelse b _ _ cur hnd hp hc
      (fun b' a' cur' hp' hc' => lemB_stmts body (Scope.loop i :: σ) b' a' true cur' hfb (fun _ => ⟨i, rfl⟩) ndb hp' hc')
      (fun b' a' cur' hp' hc' => lemB_stmts orelse σ b' a' inLoop cur' hfo hlp ndo hp' hc')
  | .try_ i body handlers orelse final, σ, b, a, inLoop, cur, hfr, hlp, hnd, hp, hc => by
    simp only [frag2, Bool.and_eq_true, List.isEmpty_iff] at hfr
    obtain ⟨⟨⟨hfin, hfb⟩, hfh⟩, hfo⟩ := hfr
    subst hfin
    simp only [stmtKeys'] at hnd hp
    have hnd' := hnd
    simp only [keysL, List.append_nil] at hnd'
    obtain ⟨_, nd1, _⟩ := List.nodup_append.mp hnd'
    obtain ⟨_, nd2, _⟩ := List.nodup_append.mp nd1
    obtain ⟨nd_b, nd3, _⟩ := List.nodup_append.mp nd2
    obtain ⟨nd_h, nd_o, _⟩ := List.nodup_append.mp nd3
    exact lemB_try σ i body handlers orelse b a cur inLoop hfh hnd hp hc
      (fun b' a' cur' hp' hc' => lemB_stmts body _ b' a' inLoop cur' hfb (fun h => by simpa [loopOf_try] using hlp h) nd_b hp' hc')
      (fun b' a' cur' hp' hc' => lemB_stmts orelse _ b' a' inLoop cur' hfo (fun h => by simpa [loopOf_try] using hlp h) nd_o hp' hc')
      (fun rep L0 rs b' a' splits h1 h2 h3 h4 h5 h6 => lemB_handlers handlers σ rep L0 rs b' a' splits inLoop hfh hlp nd_h h1 h2 h3 h4 h5 h6)
  | .handler .., _, _, _, _, _, hfr, _, _, _, _ => by simp [frag2] at hfr
  | .other .., _, _, _, _, _, hfr, _, _, _, _ => by simp [frag2] at hfr
  | .delete i ts, σ, b, a, inLoop, cur, _, _, _, hp, hc => by
    simp only [visitStmt, flowStmt, ← addOrdinaryNodes_snoc]; exact post_emit_normal σ b cur _ hc hp.allNil
  | .assign i ts v, σ, b, a, inLoop, cur, _, _, _, hp, hc => by
    simp only [visitStmt, flowStmt, ← addOrdinaryNodes_snoc]; exact post_emit_normal σ b cur _ hc hp.allNil
  | .augAssign i t op v, σ, b, a, inLoop, cur, _, _, _, hp, hc => by
    simp only [visitStmt, flowStmt, ← addOrdinaryNodes_snoc]; exact post_emit_normal σ b cur _ hc hp.allNil
  | .annAssign i t an v sm, σ, b, a, inLoop, cur, _, _, _, hp, hc => by
    simp only [visitStmt, flowStmt, ← addOrdinaryNodes_snoc]; exact post_emit_normal σ b cur _ hc hp.allNil
  | .assert_ i t m, σ, b, a, inLoop, cur, _, _, _, hp, hc => by
    simp only [visitStmt, flowStmt, ← addOrdinaryNodes_snoc]; exact post_emit_normal σ b cur _ hc hp.allNil
  | .import_ i ns, σ, b, a, inLoop, cur, _, _, _, hp, hc => by
    simp only [visitStmt, flowStmt, ← addOrdinaryNodes_snoc]; exact post_emit_normal σ b cur _ hc hp.allNil
  | .importFrom i m ns lv, σ, b, a, inLoop, cur, _, _, _, hp, hc => by
    simp only [visitStmt, flowStmt, ← addOrdinaryNodes_snoc]; exact post_emit_normal σ b cur _ hc hp.allNil
  | .global i ns, σ, b, a, inLoop, cur, _, _, _, hp, hc => by
    simp only [visitStmt, flowStmt, ← addOrdinaryNodes_snoc]; exact post_emit_normal σ b cur _ hc hp.allNil
  | .nonlocal i ns, σ, b, a, inLoop, cur, _, _, _, hp, hc => by
    simp only [visitStmt, flowStmt, ← addOrdinaryNodes_snoc]; exact post_emit_normal σ b cur _ hc hp.allNil
  | .expr i v, σ, b, a, inLoop, cur, _, _, _, hp, hc => by
    simp only [visitStmt, flowStmt, ← addOrdinaryNodes_snoc]; exact post_emit_normal σ b cur _ hc hp.allNil
  | .pass i, σ, b, a, inLoop, cur, _, _, _, hp, hc => by
    simp only [visitStmt, flowStmt, ← addOrdinaryNodes_snoc]; exact post_emit_normal σ b cur _ hc hp.allNil

theorem lemB_stmts : ∀ (ss : List Stmt) (σ : List Scope) (b : B) (a : Acc) (inLoop : Bool) (cur : List Nat),
    frag2L inLoop ss = true → (inLoop = true → ∃ L, loopOf σ = some L) → (keysL ss).Nodup →
    Pre σ (keysL ss) b → InLeaves b cur → Post σ (visitStmts σ ss b a).1 (flowBlock ss cur)
  | [], σ, b, a, inLoop, cur, _, _, _, hp, hc => by
    simp only [visitStmts, flowBlock]
    exact ⟨Pend.of_req σ b [] cur (sub_nil _), hc, hp.allNil⟩
  | s :: ss, σ, b, a, inLoop, cur, hfr, hlp, hnd, hp, hc => by
    simp only [frag2L, Bool.and_eq_true] at hfr
    simp only [keysL] at hnd hp
    have hnd' := List.nodup_append.mp hnd
    have ih1 := lemB_stmt s σ b a inLoop cur hfr.1 hlp hnd'.1 (hp.sub (fun k hk => List.mem_append.mpr (Or.inl hk))) hc
    have hf1 := frame_visitStmt s σ b a
    have hp1 : Pre σ (keysL ss) (visitStmt σ s b a).1 :=
      Pre.step hp hf1 (fun k hk h1 => (hnd'.2.2 k h1 k hk) rfl) ih1.allNil
    have ih2 := lemB_stmts ss σ (visitStmt σ s b a).1 (visitStmt σ s b a).2 inLoop (flowStmt s cur).normal hfr.2 hlp hnd'.2.1 hp1 ih1.norm
    have hf2 := frame_visitStmts ss σ (visitStmt σ s b a).1 (visitStmt σ s b a).2
    simp only [visitStmts, flowBlock]
    by_cases hce : cur.isEmpty = true
    · simp only [hce, if_true]
      exact ⟨Pend.empty σ _, fun _ h => (List.not_mem_nil h).elim, ih2.allNil⟩
    · simp only [hce, if_false, Bool.false_eq_true]
      exact ⟨Pend.seq (ih1.pend.transport hf2 hp1.disj) ih2.pend, ih2.norm, ih2.allNil⟩

theorem lemB_handlers : ∀ (hs : List Stmt) (σ : List Scope) (rep L0 : Nat) (rs : List Nat) (b : B) (a : Acc) (splits : List Nat)
    (inLoop : Bool), frag2H inLoop hs = true → (inLoop = true → ∃ L, loopOf σ = some L) → (keysL hs).Nodup →
    ck rep ∉ keysL hs → (∀ k, k ∈ scopeKeys σ → k ≠ ck rep) → Pre σ (keysL hs) b →
    aget rep b.condLeaves = some splits →
    (aget rep b.condEntry = some L0 ∨ (aget rep b.condEntry = none ∧ b.leaves = L0 ∧ splits = [])) →
    (∀ hid, hid ∈ handlerIds hs → ∀ x, x ∈ rs → ∃ l, aget hid b.raises = some l ∧ x ∈ l) →
    HandlersOk σ rep L0 rs hs b a splits
  | [], σ, rep, L0, rs, b, a, splits, inLoop, _, _, _, _, _, hp, hcl, hm, _ =>
    handlers_nil σ rep L0 rs b a splits hcl hm hp.valid hp.allNil
  | .handler hid ty nm hb :: hs, σ, rep, L0, rs, b, a, splits, inLoop, hH, hlp, hnd, hrep, hσrep, hp, hcl, hm, hrs => by
    simp only [frag2H, Bool.and_eq_true, List.isEmpty_iff] at hH
    obtain ⟨⟨hnm, hfb⟩, hHs⟩ := hH
    subst hnm
    have hkeys : keysL (Stmt.handler hid ty [] hb :: hs) = (sk hid :: keysL hb) ++ keysL hs := rfl
    rw [hkeys] at hnd hrep hp
    obtain ⟨nd1, nd_hs, d1⟩ := List.nodup_append.mp hnd
    obtain ⟨hhid, nd_hb⟩ := List.nodup_cons.mp nd1
    have hrep_hb : ck rep ∉ keysL hb := fun h => hrep (List.mem_append.mpr (Or.inl (List.mem_cons_of_mem _ h)))
    have hrep_hs : ck rep ∉ keysL hs := fun h => hrep (List.mem_append.mpr (Or.inr h))
    have step := handler_step σ rep L0 hid ty hb rs b a splits hcl hm (hrs hid (List.mem_cons_self ..)) hrep_hb hσrep
      (hp.sub (fun k hk => List.mem_append.mpr (Or.inl (List.mem_cons_of_mem _ hk))))
      (fun b' a' cur' hp' hc' => lemB_stmts hb σ b' a' inLoop cur' hfb hlp nd_hb hp' hc')
    obtain ⟨s1, ⟨splits', s2, s3, s4⟩, s5, s6⟩ := step
    -- the state before the next iteration
    have hσK : ∀ k, k ∈ scopeKeys σ → k ∉ ck rep :: sk hid :: keysL hb := by
      intro k hk h
      rcases List.mem_cons.mp h with h | h
      · exact hσrep k hk h
      · exact hp.disj k hk (List.mem_append.mpr (Or.inl h))
    have hdis : ∀ k, k ∈ keysL hs → k ∉ ck rep :: sk hid :: keysL hb := by
      intro k hk h
      rcases List.mem_cons.mp h with h | h
      · exact hrep_hs (h ▸ hk)
      · exact d1 _ h _ hk rfl
    have pre2 := (hp.sub (fun k hk => List.mem_append.mpr (Or.inr hk))).move s6 hσK hdis s5.allNil
    have hrs2 : ∀ hid', hid' ∈ handlerIds hs → ∀ x, x ∈ rs → ∃ l, aget hid' (visitStmt σ (.handler hid ty [] hb) (b.newCondBranch rep) a).1.raises = some l ∧ x ∈ l := by
      intro hid' hh x hx
      obtain ⟨l, hl, hxl⟩ := hrs hid' (List.mem_cons_of_mem _ hh) x hx
      obtain ⟨l', hl', hsub⟩ := s6.raises hid' (hdis _ (sk_handlerIds_mem inLoop hs hHs hid' hh)) l hl
      exact ⟨l', hl', hsub x hxl⟩
    have IH := lemB_handlers hs σ rep L0 rs _ (visitStmt σ (.handler hid ty [] hb) (b.newCondBranch rep) a).2 splits' inLoop
      hHs hlp nd_hs hrep_hs hσrep pre2 s2 (Or.inl s1) hrs2
    obtain ⟨I1, I2, I3⟩ := IH
    -- frame from the state after this handler to the end
    have f2e : Frame (ck rep :: keysL hs) (visitStmt σ (.handler hid ty [] hb) (b.newCondBranch rep) a).1
        (((visitHandlers σ rep hs (visitStmt σ (.handler hid ty [] hb) (b.newCondBranch rep) a).1
          (visitStmt σ (.handler hid ty [] hb) (b.newCondBranch rep) a).2).1.newCondBranch rep).exitCondSection rep) :=
      Frame.trans (Frame.trans (frame_visitHandlers hs σ rep _ (List.mem_cons_self ..) (fun k hk => List.mem_cons_of_mem _ hk) _ _)
        (B.frame_newCondBranch _ _ rep (List.mem_cons_self ..))) (B.frame_exitCondSection _ _ rep (List.mem_cons_self ..))
    have hσe : ∀ k, k ∈ scopeKeys σ → k ∉ ck rep :: keysL hs := by
      intro k hk h
      rcases List.mem_cons.mp h with h | h
      · exact hσrep k hk h
      · exact hp.disj k hk (List.mem_append.mpr (Or.inr h))
    refine ⟨?_, I2, ?_⟩
    · show Pend σ _ (flowHandlers (Stmt.handler hid ty [] hb :: hs) rs)
      simp only [flowHandlers, visitHandlers]
      exact Pend.alt (s5.pend.transport f2e hσe) I1
    · intro x hx
      simp only [visitHandlers]
      apply I3 x
      rcases hx with hx | ⟨r, hr, hx⟩ | hx | hx
      · exact Or.inl (s6.deref L0 x hx)
      · exact Or.inr (Or.inl ⟨r, s3 r hr, s6.deref r x hx⟩)
      · rcases s4 with s4 | s4
        · exact Or.inl (s6.deref L0 x (by rw [← s4]; exact hx))
        · exact Or.inr (Or.inl ⟨b.leaves, s4, s6.deref _ x hx⟩)
      · simp only [flowHandlers, Flow.alt, List.mem_append] at hx
        rcases hx with hx | hx
        · exact Or.inr (Or.inr (Or.inl (s5.norm x hx)))
        · exact Or.inr (Or.inr (Or.inr hx))
  | .functionDef .. :: _, _, _, _, _, _, _, _, _, hH, _, _, _, _, _, _, _, _ => by simp [frag2H] at hH
  | .classDef .. :: _, _, _, _, _, _, _, _, _, hH, _, _, _, _, _, _, _, _ => by simp [frag2H] at hH
  | .ret .. :: _, _, _, _, _, _, _, _, _, hH, _, _, _, _, _, _, _, _ => by simp [frag2H] at hH
  | .delete .. :: _, _, _, _, _, _, _, _, _, hH, _, _, _, _, _, _, _, _ => by simp [frag2H] at hH
  | .assign .. :: _, _, _, _, _, _, _, _, _, hH, _, _, _, _, _, _, _, _ => by simp [frag2H] at hH
  | .augAssign .. :: _, _, _, _, _, _, _, _, _, hH, _, _, _, _, _, _, _, _ => by simp [frag2H] at hH
  | .annAssign .. :: _, _, _, _, _, _, _, _, _, hH, _, _, _, _, _, _, _, _ => by simp [frag2H] at hH
  | .for_ .. :: _, _, _, _, _, _, _, _, _, hH, _, _, _, _, _, _, _, _ => by simp [frag2H] at hH
  | .while_ .. :: _, _, _, _, _, _, _, _, _, hH, _, _, _, _, _, _, _, _ => by simp [frag2H] at hH
  | .if_ .. :: _, _, _, _, _, _, _, _, _, hH, _, _, _, _, _, _, _, _ => by simp [frag2H] at hH
  | .with_ .. :: _, _, _, _, _, _, _, _, _, hH, _, _, _, _, _, _, _, _ => by simp [frag2H] at hH
  | .raise .. :: _, _, _, _, _, _, _, _, _, hH, _, _, _, _, _, _, _, _ => by simp [frag2H] at hH
  | .try_ .. :: _, _, _, _, _, _, _, _, _, hH, _, _, _, _, _, _, _, _ => by simp [frag2H] at hH
  | .assert_ .. :: _, _, _, _, _, _, _, _, _, hH, _, _, _, _, _, _, _, _ => by simp [frag2H] at hH
  | .import_ .. :: _, _, _, _, _, _, _, _, _, hH, _, _, _, _, _, _, _, _ => by simp [frag2H] at hH
  | .importFrom .. :: _, _, _, _, _, _, _, _, _, hH, _, _, _, _, _, _, _, _ => by simp [frag2H] at hH
  | .global .. :: _, _, _, _, _, _, _, _, _, hH, _, _, _, _, _, _, _, _ => by simp [frag2H] at hH
  | .nonlocal .. :: _, _, _, _, _, _, _, _, _, hH, _, _, _, _, _, _, _, _ => by simp [frag2H] at hH
  | .expr .. :: _, _, _, _, _, _, _, _, _, hH, _, _, _, _, _, _, _, _ => by simp [frag2H] at hH
  | .pass .. :: _, _, _, _, _, _, _, _, _, hH, _, _, _, _, _, _, _, _ => by simp [frag2H] at hH
  | .break_ .. :: _, _, _, _, _, _, _, _, _, hH, _, _, _, _, _, _, _, _ => by simp [frag2H] at hH
  | .continue_ .. :: _, _, _, _, _, _, _, _, _, hH, _, _, _, _, _, _, _, _ => by simp [frag2H] at hH
  | .other .. :: _, _, _, _, _, _, _, _, _, hH, _, _, _, _, _, _, _, _ => by simp [frag2H] at hH
end



/-! ### the whole function -/

theorem rootGraph_last (i : Nat) (name : String) (args : Expr) (body : List Stmt) (decs rets : List Expr) :
    (build (.functionDef i name args body decs rets false)).cfgs.getLast? =
      some (i, (rootBuilder (.functionDef i name args body decs rets false)).1.build) := by
  simp [build, Acc.finish]

theorem head_addOrdinaryNodes_cons (b : B) (n : Nat) (ns : List Nat) (hb : b.head = none) :
    (addOrdinaryNodes b (n :: ns)).head = some n := by
  have h1 : (b.addOrdinaryNode n).head = some n := by
    simp [B.addOrdinaryNode, B.addNewNode, B.pushNode, hb, Option.or]
  exact (frame_addOrdinaryNodes [] ns (b.addOrdinaryNode n)).head n h1

theorem fresh_valid : Valid ({} : B) := ⟨by decide, fun k r h => by simp [aget] at h⟩

/-- **Lemma C**: in the `finally`-free fragment the model's graph of the root function passes `pathCheck`. -/
theorem pathCheck_build (i : Nat) (name : String) (args : Expr) (body : List Stmt) (decs rets : List Expr)
    (hfr : fnFrag2 (.functionDef i name args body decs rets false) = true)
    (hdk : fnDistinctKeys (.functionDef i name args body decs rets false) = true) :
    pathCheck (.functionDef i name args body decs rets false)
      (rootBuilder (.functionDef i name args body decs rets false)).1.build = true := by
  simp only [fnFrag2, Bool.not_false, Bool.true_and] at hfr
  have hnd : (sk i :: keysL body).Nodup := nodupB_sound _ hdk
  obtain ⟨hib, hndb⟩ := List.nodup_cons.mp hnd
  -- the states
  let σ : List Scope := [Scope.fn i]
  let b0 : B := ({} : B).enterSection i
  obtain ⟨s1, s2, s3, s4, s5⟩ := enterSection_effect ({} : B) i
  let b1 := (basicExpr σ args b0 {}).1
  have hb1 : b1 = addOrdinaryNodes b0 (args.kidLams ++ [args.id]) := by
    show (addOrdinaryNodes b0 args.kidLams).addOrdinaryNode args.id = _
    rw [addOrdinaryNodes_snoc]
  have ha0 : AllNil b0 := by
    intro n gs h
    rw [show b0.finallySections = ({} : B).finallySections from s3] at h
    simp [aget] at h
  obtain ⟨e1, e2⟩ := emit_addOrdinaryNodes (args.kidLams ++ [args.id]) b0 [] (fun _ h => (List.not_mem_nil h).elim)
  rw [← hb1] at e1 e2
  have ha1 : AllNil b1 := by rw [hb1]; exact allNil_addOrdinaryNodes _ ha0
  have f01 : Frame [sk i] ({} : B) b1 :=
    Frame.trans (B.frame_enterSection _ _ i (by simp)) (frame_basicExpr _ σ args b0 {})
  have f0b1 : Frame [] b0 b1 := frame_basicExpr _ σ args b0 {}
  obtain ⟨ex1, hex1, _⟩ := f0b1.exits i (by simp) [] s1
  have pre1 : Pre σ (keysL body) b1 := by
    refine ⟨?_, ?_, ?_, ?_, ⟨i, rfl, ex1, hex1⟩, f01.valid fresh_valid, ha1⟩
    · intro sc hsc; simp only [σ, List.mem_singleton] at hsc; subst hsc; rfl
    · intro k hk; simp only [σ, scopeKeys, Scope.id, List.mem_singleton] at hk; subst hk; exact hib
    · intro k _
      rw [f0b1.condEntry k (by simp), show b0.condEntry = ({} : B).condEntry from s5]
      simp [aget]
    · intro L hL; simp [σ, loopOf, enclosingFinally, Scope.isStop] at hL
  have P := lemB_stmts body σ b1 (basicExpr σ args b0 {}).2 false _ hfr (fun h => by cases h) hndb pre1 e2
  let b2 := (visitStmts σ body b1 (basicExpr σ args b0 {}).2).1
  have f12 : Frame (keysL body) b1 b2 := frame_visitStmts body σ b1 _
  obtain ⟨ex2, hex2, _⟩ := f12.exits i hib ex1 hex1
  have hv2 : Valid b2 := f12.valid pre1.valid
  obtain ⟨y1, y2⟩ := exitSection_effect b2 i ex2 hex2 P.allNil hv2
  have f23 : Frame [sk i] b2 (b2.exitSection i) := B.frame_exitSection _ b2 i (by simp)
  -- the final builder is `b2.exitSection i`
  have hroot : (rootBuilder (.functionDef i name args body decs rets false)).1 = b2.exitSection i := rfl
  rw [hroot]
  simp only [pathCheck, Bool.and_eq_true, beq_iff_eq, List.all_eq_true, Bool.or_eq_true, List.contains_eq_mem,
    decide_eq_true_eq]
  refine ⟨⟨?_, ?_⟩, ?_⟩
  · -- entry
    show (b2.exitSection i).head = (entryNodes _).head?
    simp only [entryNodes]
    obtain ⟨n0, r0, hns⟩ : ∃ n0 r0, args.kidLams ++ [args.id] = n0 :: r0 := by
      cases args.kidLams with
      | nil => exact ⟨_, _, rfl⟩
      | cons x r => exact ⟨x, r ++ [args.id], rfl⟩
    rw [hns]
    have h1 : b1.head = some n0 := by
      rw [hb1, hns]
      exact head_addOrdinaryNodes_cons b0 n0 r0 (by simp [b0, B.enterSection])
    simpa using f23.head n0 (f12.head n0 h1)
  · -- required pairs
    intro p hp
    show p ∈ (b2.exitSection i).edges
    simp only [flowFn, Flow.seq, List.mem_append] at hp
    rcases hp with hp | hp
    · exact f23.edges p (f12.edges p (e1 p hp))
    · exact f23.edges p (P.pend.req p hp)
  · -- final nodes
    intro x hx
    left
    show x ∈ (b2.exitSection i).leafSet
    simp only [flowFn, Flow.finals, Flow.seq, List.mem_append, List.nil_append] at hx
    have hret : ∀ x, x ∈ (flowBlock body (emit [] (args.kidLams ++ [args.id])).2).ret → x ∈ ex2 := by
      intro x hx
      obtain ⟨F, l, hF, hl, hxl⟩ := P.pend.ret x hx
      have : F = i := by simpa [σ, fnOf, enclosingFinally, Scope.isStop, Scope.id] using hF.symm
      subst this
      rw [hex2] at hl; cases hl; exact hxl
    have hraise : ∀ x, x ∈ (flowBlock body (emit [] (args.kidLams ++ [args.id])).2).raise → x ∈ ex2 := by
      intro x hx
      obtain ⟨⟨F, l, hF, hl, hxl⟩, _⟩ := P.pend.raise x hx
      have : F = i := by simpa [σ, fnOf, enclosingFinally, Scope.isStop, Scope.id] using hF.symm
      subst this
      rw [hex2] at hl; cases hl; exact hxl
    rcases hx with hx | hx | hx | hx
    · exact y2 x (Or.inl (P.norm x hx))
    · exact y2 x (Or.inr (hret x hx))
    · exact y2 x (Or.inr (hraise x hx))
    · rw [P.pend.exempt] at hx; cases hx

end Malt.Cfg
