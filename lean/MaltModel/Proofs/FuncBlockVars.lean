import MaltModel.Conv.BlockVars
import MaltModel.Func.Functionalise
/-! Facts about the mirror of `_get_block_vars` (`Malt.Conv.BlockVars.blockVars`, written by the C03 builder) that the
C02 theorems need: membership, no duplicates, and "outputs first": the first `nouts` entries of the state tuple are
exactly the entries that are not input-only. -/
namespace Malt.Func
open Malt.Conv.BlockVars

theorem mem_insertSorted (le : String → String → Bool) (a x : String) : ∀ (l : List String),
    x ∈ insertSorted le a l ↔ x = a ∨ x ∈ l
  | [] => by simp [insertSorted]
  | b :: l => by
      simp only [insertSorted]
      split
      · simp
      · simp only [List.mem_cons, mem_insertSorted le a x l]
        constructor
        · rintro (h | h | h)
          · exact Or.inr (Or.inl h)
          · exact Or.inl h
          · exact Or.inr (Or.inr h)
        · rintro (h | h | h)
          · exact Or.inr (Or.inl h)
          · exact Or.inl h
          · exact Or.inr (Or.inr h)

theorem mem_sortBy (le : String → String → Bool) (x : String) : ∀ (l : List String), x ∈ sortBy le l ↔ x ∈ l
  | [] => by simp [sortBy]
  | a :: l => by simp [sortBy, mem_insertSorted, mem_sortBy le x l]

theorem perm_insertSorted (le : String → String → Bool) (a : String) : ∀ (l : List String),
    (insertSorted le a l).Perm (a :: l)
  | [] => by simp [insertSorted]
  | b :: l => by
      simp only [insertSorted]
      split
      · exact List.Perm.refl _
      · exact ((perm_insertSorted le a l).cons b).trans (List.Perm.swap a b l)

theorem perm_sortBy (le : String → String → Bool) : ∀ (l : List String), (sortBy le l).Perm l
  | [] => by simp [sortBy]
  | a :: l => by
      simp only [sortBy]
      exact (perm_insertSorted le a _).trans ((perm_sortBy le l).cons a)

theorem mem_dedup (x : String) : ∀ (l : List String), x ∈ dedup l ↔ x ∈ l
  | [] => by simp [dedup]
  | a :: l => by
      simp only [dedup]
      split
      · rename_i h
        rw [mem_dedup x l]
        constructor
        · exact fun hx => List.mem_cons_of_mem _ hx
        · intro hx
          rcases List.mem_cons.mp hx with rfl | hx
          · simpa using h
          · exact hx
      · simp [mem_dedup x l]

theorem nodup_dedup : ∀ (l : List String), (dedup l).Nodup
  | [] => by simp [dedup]
  | a :: l => by
      simp only [dedup]
      split
      · exact nodup_dedup l
      · rename_i h
        refine List.nodup_cons.mpr ⟨fun hx => h ?_, nodup_dedup l⟩
        simpa using (mem_dedup a l).mp hx

/-- "Once input-only, always input-only" along the list. -/
def Sep (p : String → Bool) (l : List String) : Prop := l.Pairwise (fun u w => p u = true → p w = true)

theorem sep_insertSorted (io : List String) (a : String) : ∀ (l : List String), Sep io.contains l →
    Sep io.contains (insertSorted (keyLe io) a l)
  | [], _ => by simp [insertSorted, Sep]
  | b :: l, h => by
      have h' := List.pairwise_cons.mp h
      simp only [insertSorted]
      split
      · rename_i hle
        refine List.pairwise_cons.mpr ⟨fun w hw ha => ?_, h⟩
        -- `a` is input-only, `a ≤ b` in the key order, so `b` is input-only, hence everything after it
        have hb : io.contains b = true := by
          simp only [keyLe, ha, Bool.not_true, Bool.false_and, Bool.false_or, Bool.and_eq_true, beq_iff_eq] at hle
          exact hle.1.symm
        rcases List.mem_cons.mp hw with rfl | hw
        · exact hb
        · exact h'.1 w hw hb
      · rename_i hle
        refine List.pairwise_cons.mpr ⟨fun w hw hb => ?_, sep_insertSorted io a l h'.2⟩
        rcases (mem_insertSorted _ a w l).mp hw with rfl | hw
        · -- `b` is input-only and not (`a ≤ b`): then `a` is input-only
          cases ha : io.contains w with
          | true => rfl
          | false =>
            exfalso; apply hle
            simp only [keyLe]
            rw [ha, hb]; rfl
        · exact h'.1 w hw hb

theorem sep_sortBy (io : List String) : ∀ (l : List String), Sep io.contains (sortBy (keyLe io) l)
  | [] => by simp [sortBy, Sep]
  | a :: l => sep_insertSorted io a _ (sep_sortBy io l)

theorem sep_split (p : String → Bool) : ∀ (l : List String), Sep p l →
    l = l.filter (fun x => !p x) ++ l.filter p
  | [], _ => by simp
  | u :: l, h => by
      have h' := List.pairwise_cons.mp h
      have ih := sep_split p l h'.2
      cases hu : p u with
      | true =>
        have hall : ∀ w ∈ l, p w = true := fun w hw => h'.1 w hw hu
        have h1 : l.filter (fun x => !p x) = [] := by
          apply List.filter_eq_nil_iff.mpr
          intro w hw; simp [hall w hw]
        have h2 : l.filter p = l := List.filter_eq_self.mpr hall
        simp [List.filter, hu, h1, h2]
      | false =>
        simp only [List.filter, hu, Bool.not_false, List.cons_append]
        congr 1

/-- The state tuple of `_get_block_vars` for simple names (no composite symbol modified, no `global`/`nonlocal`):
`Malt.Conv.BlockVars.blockVars` with the composite part and the `globals`/`nonlocals` arguments specialised away
(`bv_eq_blockVars` below).  Stated separately because `isComposite` (a `String.any`) does not reduce in the
kernel, so concrete instances of the general mirror cannot be checked by `decide`. -/
def bv (modified liveIn liveOut definedIn : List String) : Result :=
  let modified := dedup modified
  let basic := modified.filter fun s => liveIn.contains s || liveOut.contains s
  let undefined := modified.filter fun v => !definedIn.contains v
  let inputOnly := basic.filter fun v => liveIn.contains v && !liveOut.contains v
  let scopeVars := sortBy (keyLe inputOnly) basic
  { scopeVars, undefined, nouts := scopeVars.length - inputOnly.length, inputOnly }

theorem compositeVars_nil (modified liveIn : List String) (hs : ∀ v ∈ modified, isComposite v = false) :
    compositeVars modified liveIn = [] := by
  apply List.filter_eq_nil_iff.mpr
  intro v hv; simp [hs v hv]

theorem dedup_simple {modified : List String} (hs : ∀ v ∈ modified, isComposite v = false) :
    ∀ v ∈ dedup modified, isComposite v = false := fun v hv => hs v ((mem_dedup v modified).mp hv)

/-- `bv` is the general mirror on simple names. -/
theorem bv_eq_blockVars (modified liveIn liveOut definedIn : List String) (hs : ∀ v ∈ modified, isComposite v = false) :
    blockVars modified liveIn liveOut definedIn [] [] = bv modified liveIn liveOut definedIn := by
  have hd := dedup_simple hs
  have hbasic : basicVars (dedup modified) liveIn liveOut [] =
      (dedup modified).filter fun s => liveIn.contains s || liveOut.contains s := by
    apply List.filter_congr
    intro x hx; simp [hd x hx]
  have hund : ((dedup modified).filter fun v =>
      !definedIn.contains v && !([] : List String).contains v && !([] : List String).contains v && !isComposite v) =
      (dedup modified).filter fun v => !definedIn.contains v := by
    apply List.filter_congr
    intro x hx; simp [hd x hx]
  simp only [blockVars, bv, compositeVars_nil _ _ hd, List.append_nil, hbasic, hund]

theorem bv_mem (modified liveIn liveOut definedIn : List String) (v : String) :
    v ∈ (bv modified liveIn liveOut definedIn).scopeVars ↔ v ∈ modified ∧ (v ∈ liveIn ∨ v ∈ liveOut) := by
  simp [bv, mem_sortBy, List.mem_filter, mem_dedup]

theorem bv_nodup (modified liveIn liveOut definedIn : List String) :
    (bv modified liveIn liveOut definedIn).scopeVars.Nodup := by
  simp only [bv]
  exact (perm_sortBy _ _).nodup_iff.mpr ((nodup_dedup modified).filter _)

theorem bv_undefined (modified liveIn liveOut definedIn : List String) (v : String) :
    v ∈ (bv modified liveIn liveOut definedIn).undefined ↔ v ∈ modified ∧ v ∉ definedIn := by
  simp [bv, List.mem_filter, mem_dedup]

/-- Outputs first: the first `nouts` entries are exactly the entries that are not input-only. -/
theorem bv_take_nouts (modified liveIn liveOut definedIn : List String) :
    let r := bv modified liveIn liveOut definedIn
    r.scopeVars.take r.nouts = r.scopeVars.filter (fun x => !r.inputOnly.contains x) := by
  intro r
  have hsep : Sep r.inputOnly.contains r.scopeVars := by
    simp only [r, bv]; exact sep_sortBy _ _
  have hsplit := sep_split _ _ hsep
  -- the number of input-only entries in the tuple is `inputOnly.length`
  have hcount : (r.scopeVars.filter r.inputOnly.contains).length = r.inputOnly.length := by
    simp only [r, bv]
    rw [((perm_sortBy _ _).filter _).length_eq]
    congr 1
    apply List.filter_congr
    intro x hx
    rw [Bool.eq_iff_iff]
    have hx' := List.mem_filter.mp hx
    simp only [Bool.or_eq_true, List.contains_iff_mem] at hx'
    simp only [List.contains_iff_mem, List.mem_filter, Bool.and_eq_true, Bool.or_eq_true, Bool.not_eq_eq_eq_not,
      Bool.not_true]
    constructor
    · exact fun h => h.2
    · exact fun h => ⟨⟨hx'.1, Or.inl h.1⟩, h⟩
  have hn : r.nouts = (r.scopeVars.filter (fun x => !r.inputOnly.contains x)).length := by
    have hlen : r.scopeVars.length = (r.scopeVars.filter (fun x => !r.inputOnly.contains x)).length +
        (r.scopeVars.filter r.inputOnly.contains).length := by
      conv => lhs; rw [hsplit]
      simp
    have : r.nouts = r.scopeVars.length - r.inputOnly.length := rfl
    rw [this, hlen, hcount]; omega
  conv => lhs; rw [hsplit, hn]
  simp

/-! ### Programs whose state tuples are computed by the mirror of `_get_block_vars` -/
mutual
/-- All statements of a program, at any depth. -/
def allS : AStmt → List AStmt
  | .ifS i c t e => .ifS i c t e :: (allB t ++ allB e)
  | .whileS i c b => .whileS i c b :: allB b
  | .forS i x it extra b => .forS i x it extra b :: allB b
  | .assign i x e => [.assign i x e]
  | .expr i e => [.expr i e]
  | .pass i => [.pass i]
  | .ret i e => [.ret i e]
  | .raise i t => [.raise i t]
  | .withS i tag b => .withS i tag b :: allB b
  | .tryS i b hs f => .tryS i b hs f :: (allB b ++ (allH hs ++ allB f))
def allB : List AStmt → List AStmt
  | [] => []
  | s :: r => allS s ++ allB r
def allH : List (Nat × List AStmt) → List AStmt
  | [] => []
  | (_, b) :: r => allB b ++ allH r
end

def AStmt.isCompound : AStmt → Bool
  | .ifS .. => true
  | .whileS .. => true
  | .forS .. => true
  | _ => false

/-- `declared`, `nouts`, `undefined` of a compound statement are what `_get_block_vars` computes from its
`modified` set and its annotations (simple names only). -/
def BV1 (s : AStmt) : Prop :=
  s.isCompound = true →
    s.info.declared = (bv s.modified s.info.liveIn s.info.liveOut s.info.definedIn).scopeVars ∧
    s.info.nouts = (bv s.modified s.info.liveIn s.info.liveOut s.info.definedIn).nouts ∧
    s.info.undefined = (bv s.modified s.info.liveIn s.info.liveOut s.info.definedIn).undefined

def UsesBlockVars (p : ABlock) : Prop := ∀ s ∈ allB p, BV1 s

theorem self_mem_allS (s : AStmt) : s ∈ allS s := by cases s <;> simp [allS]

theorem mem_liveEither {i : Info} {v : String} : liveEither i v = true ↔ (v ∈ i.liveIn ∨ v ∈ i.liveOut) := by
  simp [liveEither]

/-- The local facts `DeclS`/`HypFS` need, from `BV1`. -/
theorem bv1_facts {s : AStmt} (hc : s.isCompound = true) (h : BV1 s) :
    s.modified.filter (liveEither s.info) ⊆ s.info.declared ∧ s.info.undefined ⊆ s.modified ∧
    s.info.declared.Nodup ∧ s.info.declared ⊆ s.modified ∧
    (∀ y ∈ s.info.declared.drop s.info.nouts, y ∉ s.info.liveOut) ∧
    (∀ v ∈ s.modified, v ∈ s.info.liveOut → v ∈ s.info.declared.take s.info.nouts) ∧
    (∀ v ∈ s.modified, v ∉ s.info.definedIn → v ∈ s.info.undefined) ∧
    (∀ u ∈ s.info.undefined, u ∉ s.info.definedIn) := by
  obtain ⟨hd, hn, hu⟩ := h hc
  have hmem := fun v => bv_mem s.modified s.info.liveIn s.info.liveOut s.info.definedIn v
  have hund := fun v => bv_undefined s.modified s.info.liveIn s.info.liveOut s.info.definedIn v
  have htake := bv_take_nouts s.modified s.info.liveIn s.info.liveOut s.info.definedIn
  simp only at htake
  have hnd : s.info.declared.Nodup := by rw [hd]; exact bv_nodup _ _ _ _
  -- membership in the input-only set
  have hio : ∀ y, y ∈ (bv s.modified s.info.liveIn s.info.liveOut s.info.definedIn).inputOnly → y ∉ s.info.liveOut := by
    intro y hy hlo
    simp only [bv, List.mem_filter, Bool.and_eq_true, Bool.not_eq_eq_eq_not, Bool.not_true] at hy
    have : s.info.liveOut.contains y = true := by simpa using hlo
    rw [hy.2.2] at this; cases this
  refine ⟨?_, ?_, hnd, ?_, ?_, ?_, ?_, ?_⟩
  · intro v hv
    have hv' := List.mem_filter.mp hv
    rw [hd]; exact (hmem v).mpr ⟨hv'.1, mem_liveEither.mp hv'.2⟩
  · intro v hv; rw [hu] at hv; exact ((hund v).mp hv).1
  · intro v hv; rw [hd] at hv; exact ((hmem v).mp hv).1
  · intro y hy hlo
    -- y is in the tuple but not among the first nouts entries, so it is input-only
    have hsplit : s.info.declared.take s.info.nouts ++ s.info.declared.drop s.info.nouts = s.info.declared :=
      List.take_append_drop _ _
    have hnd' : (s.info.declared.take s.info.nouts ++ s.info.declared.drop s.info.nouts).Nodup := by rw [hsplit]; exact hnd
    have hdisj := (List.nodup_append.mp hnd').2.2
    have hnt : y ∉ s.info.declared.take s.info.nouts := fun ht => hdisj y ht y hy rfl
    have hyd : y ∈ s.info.declared := List.mem_of_mem_drop hy
    rw [hd, hn, htake] at hnt
    rw [hd] at hyd
    have : (bv s.modified s.info.liveIn s.info.liveOut s.info.definedIn).inputOnly.contains y = true := by
      cases hc' : (bv s.modified s.info.liveIn s.info.liveOut s.info.definedIn).inputOnly.contains y with
      | true => rfl
      | false => exact absurd (List.mem_filter.mpr ⟨hyd, by rw [hc']; rfl⟩) hnt
    exact hio y (by simpa using this) hlo
  · intro v hv hlo
    rw [hd, hn, htake]
    refine List.mem_filter.mpr ⟨(hmem v).mpr ⟨hv, Or.inr hlo⟩, ?_⟩
    cases hc' : (bv s.modified s.info.liveIn s.info.liveOut s.info.definedIn).inputOnly.contains v with
    | false => rfl
    | true => exact absurd hlo (hio v (by simpa using hc'))
  · intro v hv hnd'; rw [hu]; exact (hund v).mpr ⟨hv, hnd'⟩
  · intro u hu'; rw [hu] at hu'; exact ((hund u).mp hu').2

mutual
theorem bv_declS : ∀ (s : AStmt), (∀ q ∈ allS s, BV1 q) → DeclS s ∧ HypFS s
  | .assign .., _ => by simp [DeclS, HypFS]
  | .expr .., _ => by simp [DeclS, HypFS]
  | .pass .., _ => by simp [DeclS, HypFS]
  | .ret .., _ => by simp [DeclS, HypFS]
  | .raise .., _ => by simp [DeclS, HypFS]
  | .ifS i c t e, h => by
      have hself := bv1_facts (s := .ifS i c t e) rfl (h _ (self_mem_allS _))
      have ht := bv_declB t (fun q hq => h q (by simp [allS, hq]))
      have he := bv_declB e (fun q hq => h q (by simp [allS, hq]))
      simp only [AStmt.modified, AStmt.info] at hself
      simp only [DeclS, HypFS]
      exact ⟨⟨hself.1, hself.2.1, ht.1, he.1⟩, hself.2.2.1, hself.2.2.2.1, hself.2.2.2.2.1, ht.2, he.2⟩
  | .whileS i c b, h => by
      have hself := bv1_facts (s := .whileS i c b) rfl (h _ (self_mem_allS _))
      have hb := bv_declB b (fun q hq => h q (by simp [allS, hq]))
      simp only [AStmt.modified, AStmt.info] at hself
      simp only [DeclS, HypFS]
      exact ⟨⟨hself.1, hself.2.1, hb.1⟩, hself.2.2.2.1, hb.2⟩
  | .forS i x it extra b, h => by
      have hself := bv1_facts (s := .forS i x it extra b) rfl (h _ (self_mem_allS _))
      have hb := bv_declB b (fun q hq => h q (by simp [allS, hq]))
      simp only [AStmt.modified, AStmt.info] at hself
      simp only [DeclS, HypFS]
      exact ⟨⟨hself.1, hself.2.1, hb.1⟩, hself.2.2.2.1, hb.2⟩
  | .withS i tag b, h => by
      have hb := bv_declB b (fun q hq => h q (by simp [allS, hq]))
      simp only [DeclS, HypFS]
      exact hb
  | .tryS i b hs f, h => by
      have hb := bv_declB b (fun q hq => h q (by simp [allS, hq]))
      have hh := bv_declH hs (fun q hq => h q (by simp [allS, hq]))
      have hf := bv_declB f (fun q hq => h q (by simp [allS, hq]))
      simp only [DeclS, HypFS]
      exact ⟨⟨hb.1, hh.1, hf.1⟩, hb.2, hh.2, hf.2⟩
theorem bv_declH : ∀ (hs : List (Nat × List AStmt)), (∀ q ∈ allH hs, BV1 q) → DeclH hs ∧ HypFH hs
  | [], _ => by simp [DeclH, HypFH]
  | (t, b) :: r, h => by
      have hb := bv_declB b (fun q hq => h q (by simp [allH, hq]))
      have hr := bv_declH r (fun q hq => h q (by simp [allH, hq]))
      simp only [DeclH, HypFH]
      exact ⟨⟨hb.1, hr.1⟩, hb.2, hr.2⟩
theorem bv_declB : ∀ (b : List AStmt), (∀ q ∈ allB b, BV1 q) → DeclB b ∧ HypFB b
  | [], _ => by simp [DeclB, HypFB]
  | s :: r, h => by
      have hs := bv_declS s (fun q hq => h q (by simp [allB, hq]))
      have hr := bv_declB r (fun q hq => h q (by simp [allB, hq]))
      simp only [DeclB, HypFB]
      exact ⟨⟨hs.1, hr.1⟩, hs.2, hr.2⟩
end

mutual
theorem liveS_of_mem : ∀ (K : ExcCtx) (s : AStmt), LiveS K s → ∀ q ∈ allS s, ∃ K', LiveS K' q
  | K, .assign i x e, h, q, hq => by simp [allS] at hq; subst hq; exact ⟨K, h⟩
  | K, .expr i e, h, q, hq => by simp [allS] at hq; subst hq; exact ⟨K, h⟩
  | K, .pass i, h, q, hq => by simp [allS] at hq; subst hq; exact ⟨K, h⟩
  | K, .ret i e, h, q, hq => by simp [allS] at hq; subst hq; exact ⟨K, h⟩
  | K, .raise i t, h, q, hq => by simp [allS] at hq; subst hq; exact ⟨K, h⟩
  | K, .ifS i c t e, h, q, hq => by
      simp only [allS, List.mem_cons, List.mem_append] at hq
      rcases hq with rfl | hq | hq
      · exact ⟨K, h⟩
      · simp only [LiveS] at h; exact liveB_of_mem K t _ h.2.2.2.1 q hq
      · simp only [LiveS] at h; exact liveB_of_mem K e _ h.2.2.2.2.1 q hq
  | K, .whileS i c b, h, q, hq => by
      simp only [allS, List.mem_cons] at hq
      rcases hq with rfl | hq
      · exact ⟨K, h⟩
      · simp only [LiveS] at h; exact liveB_of_mem K b _ h.2.2.2.1 q hq
  | K, .forS i x it extra b, h, q, hq => by
      simp only [allS, List.mem_cons] at hq
      rcases hq with rfl | hq
      · exact ⟨K, h⟩
      · simp only [LiveS] at h; exact liveB_of_mem K b _ h.2.2.2.2.1 q hq
  | K, .withS i tag b, h, q, hq => by
      simp only [allS, List.mem_cons] at hq
      rcases hq with rfl | hq
      · exact ⟨K, h⟩
      · simp only [LiveS] at h; exact liveB_of_mem K b _ h.2 q hq
  | K, .tryS i b hs f, h, q, hq => by
      simp only [allS, List.mem_cons, List.mem_append] at hq
      rcases hq with rfl | hq | hq | hq
      · exact ⟨K, h⟩
      · simp only [LiveS] at h; exact liveB_of_mem _ b _ h.2.2.1 q hq
      · simp only [LiveS] at h; exact liveH_of_mem _ hs _ h.2.1 q hq
      · simp only [LiveS] at h; exact liveB_of_mem K f _ h.1 q hq
theorem liveB_of_mem : ∀ (K : ExcCtx) (b : List AStmt) (O : List String), LiveB K b O → ∀ q ∈ allB b, ∃ K', LiveS K' q
  | _, [], _, _, q, hq => by simp [allB] at hq
  | K, s :: r, O, h, q, hq => by
      simp only [LiveB] at h
      simp only [allB, List.mem_append] at hq
      rcases hq with hq | hq
      · exact liveS_of_mem K s h.1 q hq
      · exact liveB_of_mem K r O h.2.2 q hq
theorem liveH_of_mem : ∀ (K : ExcCtx) (hs : List (Nat × List AStmt)) (O : List String), LiveH K hs O →
    ∀ q ∈ allH hs, ∃ K', LiveS K' q
  | _, [], _, _, q, hq => by simp [allH] at hq
  | K, (t, b) :: r, O, h, q, hq => by
      simp only [LiveH] at h
      simp only [allH, List.mem_append] at hq
      rcases hq with hq | hq
      · exact liveB_of_mem K b O h.1 q hq
      · exact liveH_of_mem K r O h.2 q hq
end

end Malt.Func
