import MaltModel.Conv.NoNative
/-
Helper development for `C04_all_routed` (Props/C04.lean): a post-hook pass of the generic traversal that
(a) leaves every NAME TEST of the checker unchanged (callee names, ld-names, slice kinds, scope calls, body-role
callbacks — all `ag__.ld`-transparent) and (b) never makes the rewritten node report more than the node it
replaces, cannot ADD an offender: `offE (mapE h e) ⊆ offE e`, `offB (mapB h sh b) ⊆ offB b`.
-/
namespace Malt.C04
open Malt.Py Malt.Conv Malt.Conv.NoNative

structure MonoHooks (cfg : Cfg) (h : Hooks) : Prop where
  pre : ∀ e, h.pre e = none
  callee : ∀ e, calleeQn (h.post e) = calleeQn e
  ldname : ∀ e, ldName (h.post e) = ldName e
  slice : ∀ e, sliceKind (h.post e) = sliceKind e
  off : ∀ sc w pos e, offE cfg sc w pos (h.post e) ⊆ offE cfg sc w pos e
  scope : ∀ e, isScopeCall (h.post e) = isScopeCall e
  roles : ∀ i e, bodyRoleNames (.expr i (h.post e)) = bodyRoleNames (.expr i e)
  scopeitem : ∀ e, scopeName (h.post e) = scopeName e

section
variable {cfg : Cfg} {h : Hooks} (M : MonoHooks cfg h)
include M

theorem step_post (e k : Expr) : step h e k = h.post k := by simp [step, M.pre e]

theorem mapE_post (e : Expr) : mapE h e = h.post (kidsE h e) := by simp [mapE, step_post M]

theorem sliceKind_kidsE (e : Expr) : sliceKind (kidsE h e) = sliceKind e := by
  cases e <;> simp [kidsE, sliceKind]

theorem sliceKind_mapE (e : Expr) : sliceKind (mapE h e) = sliceKind e := by
  rw [mapE_post M, M.slice, sliceKind_kidsE M]

theorem calleeQn_mapE : ∀ (e : Expr), calleeQn (mapE h e) = calleeQn e
  | .name i s c => by rw [mapE_post M, M.callee]; simp [kidsE]
  | .attr i v a c => by
      rw [mapE_post M, M.callee]
      simp only [kidsE, calleeQn, step_post M]
      have := calleeQn_mapE v; rw [mapE_post M] at this; rw [this]
  | .subscript i v s c => by
      rw [mapE_post M, M.callee]
      simp only [kidsE, calleeQn, step_post M]
      have h1 := calleeQn_mapE v; rw [mapE_post M] at h1
      have h2 := calleeQn_mapE s; rw [mapE_post M] at h2
      have h3 := sliceKind_mapE M s; rw [mapE_post M] at h3
      rw [h1, h2, h3]
  | .call i f as ks => by
      rw [mapE_post M, M.callee]
      have h1 := calleeQn_mapE f; rw [mapE_post M] at h1
      match as, ks with
      | [x], [] =>
          have h2 := calleeQn_mapE x; rw [mapE_post M] at h2
          simp only [kidsE, kidsEs, calleeQn, step_post M, h1, h2]
      | [], _ => simp [kidsE, kidsEs, calleeQn]
      | _ :: _ :: _, _ => simp [kidsE, kidsEs, calleeQn]
      | [_], _ :: _ => simp [kidsE, kidsEs, calleeQn]
  | .const .. => by rw [mapE_post M, M.callee]; simp [kidsE]
  | .keyword .. => by rw [mapE_post M, M.callee]; simp [kidsE, calleeQn]
  | .boolop .. => by rw [mapE_post M, M.callee]; simp [kidsE, calleeQn]
  | .unary .. => by rw [mapE_post M, M.callee]; simp [kidsE, calleeQn]
  | .binop .. => by rw [mapE_post M, M.callee]; simp [kidsE, calleeQn]
  | .compare .. => by rw [mapE_post M, M.callee]; simp [kidsE, calleeQn]
  | .ifexp .. => by rw [mapE_post M, M.callee]; simp [kidsE, calleeQn]
  | .lambda .. => by rw [mapE_post M, M.callee]; simp [kidsE, calleeQn]
  | .seq .. => by rw [mapE_post M, M.callee]; simp [kidsE, calleeQn]
  | .starred .. => by rw [mapE_post M, M.callee]; simp [kidsE, calleeQn]
  | .namedexpr .. => by rw [mapE_post M, M.callee]; simp [kidsE, calleeQn]
  | .comp .. => by rw [mapE_post M, M.callee]; simp [kidsE, calleeQn]
  | .comprehension .. => by rw [mapE_post M, M.callee]; simp [kidsE, calleeQn]
  | .arguments .. => by rw [mapE_post M, M.callee]; simp [kidsE, calleeQn]
  | .arg .. => by rw [mapE_post M, M.callee]; simp [kidsE, calleeQn]
  | .withitem .. => by rw [mapE_post M, M.callee]; simp [kidsE, calleeQn]
  | .noneMarker => by rw [mapE_post M, M.callee]; simp [kidsE]
  | .other .. => by rw [mapE_post M, M.callee]; simp [kidsE, calleeQn]

theorem ldName_mapE : ∀ (e : Expr), ldName (mapE h e) = ldName e
  | .name i s c => by rw [mapE_post M, M.ldname]; simp [kidsE]
  | .call i f as ks => by
      rw [mapE_post M, M.ldname]
      have h1 := calleeQn_mapE M f; rw [mapE_post M] at h1
      match as, ks with
      | [x], [] =>
          have h2 := ldName_mapE x; rw [mapE_post M] at h2
          simp only [kidsE, kidsEs, ldName, step_post M, h1, h2]
      | [], _ => simp [kidsE, kidsEs, ldName]
      | _ :: _ :: _, _ => simp [kidsE, kidsEs, ldName]
      | [_], _ :: _ => simp [kidsE, kidsEs, ldName]
  | .attr .. => by rw [mapE_post M, M.ldname]; simp [kidsE, ldName]
  | .subscript .. => by rw [mapE_post M, M.ldname]; simp [kidsE, ldName]
  | .const .. => by rw [mapE_post M, M.ldname]; simp [kidsE]
  | .keyword .. => by rw [mapE_post M, M.ldname]; simp [kidsE, ldName]
  | .boolop .. => by rw [mapE_post M, M.ldname]; simp [kidsE, ldName]
  | .unary .. => by rw [mapE_post M, M.ldname]; simp [kidsE, ldName]
  | .binop .. => by rw [mapE_post M, M.ldname]; simp [kidsE, ldName]
  | .compare .. => by rw [mapE_post M, M.ldname]; simp [kidsE, ldName]
  | .ifexp .. => by rw [mapE_post M, M.ldname]; simp [kidsE, ldName]
  | .lambda .. => by rw [mapE_post M, M.ldname]; simp [kidsE, ldName]
  | .seq .. => by rw [mapE_post M, M.ldname]; simp [kidsE, ldName]
  | .starred .. => by rw [mapE_post M, M.ldname]; simp [kidsE, ldName]
  | .namedexpr .. => by rw [mapE_post M, M.ldname]; simp [kidsE, ldName]
  | .comp .. => by rw [mapE_post M, M.ldname]; simp [kidsE, ldName]
  | .comprehension .. => by rw [mapE_post M, M.ldname]; simp [kidsE, ldName]
  | .arguments .. => by rw [mapE_post M, M.ldname]; simp [kidsE, ldName]
  | .arg .. => by rw [mapE_post M, M.ldname]; simp [kidsE, ldName]
  | .withitem .. => by rw [mapE_post M, M.ldname]; simp [kidsE, ldName]
  | .noneMarker => by rw [mapE_post M, M.ldname]; simp [kidsE]
  | .other .. => by rw [mapE_post M, M.ldname]; simp [kidsE, ldName]

theorem length_kidsEs : ∀ (es : List Expr), (kidsEs h es).length = es.length
  | [] => by simp [kidsEs]
  | e :: es => by simp [kidsEs, length_kidsEs es]

theorem isEmpty_kidsEs (es : List Expr) : (kidsEs h es).isEmpty = es.isEmpty := by
  cases es <;> simp [kidsEs]

end

theorem app_mono {α : Type} {a a' b b' : List α} (h1 : a ⊆ a') (h2 : b ⊆ b') : a ++ b ⊆ a' ++ b' := by
  intro x hx
  rcases List.mem_append.mp hx with h | h
  · exact List.mem_append_left _ (h1 h)
  · exact List.mem_append_right _ (h2 h)

theorem cons_mono {α : Type} {x : α} {a a' : List α} (h1 : a ⊆ a') : x :: a ⊆ x :: a' := by
  intro y hy
  rcases List.mem_cons.mp hy with rfl | h
  · exact List.mem_cons_self ..
  · exact List.mem_cons_of_mem _ (h1 h)

section
variable {cfg : Cfg} {h : Hooks} (M : MonoHooks cfg h)
include M

mutual
theorem offE_mapE (sc : List String) (w : Bool) :
    ∀ (e : Expr) (pos : Pos), offE cfg sc w pos (mapE h e) ⊆ offE cfg sc w pos e
  | .name i s c, pos => by rw [mapE_post M]; exact List.Subset.trans (M.off ..) (by simp [kidsE])
  | .const i k r, pos => by rw [mapE_post M]; exact List.Subset.trans (M.off ..) (by simp [kidsE])
  | .noneMarker, pos => by rw [mapE_post M]; exact List.Subset.trans (M.off ..) (by simp [kidsE])
  | .call i f as ks, pos => by
      rw [mapE_post M]
      refine List.Subset.trans (M.off ..) ?_
      have hq := calleeQn_mapE M f
      have hl := ldName_mapE M f
      have hf := offE_mapE sc w f .normal
      simp only [mapE_post M] at hq hl hf
      simp only [kidsE, offE, step_post M, hq, callOk, packOk, isNameOf, hl, length_kidsEs M, isEmpty_kidsEs M]
      exact app_mono (app_mono (app_mono (List.Subset.refl _) hf) (offEs_mapEs sc w as _)) (offEs_mapEs sc w ks _)
  | .boolop i b vs, pos => by
      rw [mapE_post M]; refine List.Subset.trans (M.off ..) ?_
      simp only [kidsE, offE]; exact cons_mono (offEs_mapEs sc w vs _)
  | .unary i op e, pos => by
      rw [mapE_post M]; refine List.Subset.trans (M.off ..) ?_
      have he := offE_mapE sc w e .normal; simp only [mapE_post M] at he
      simp only [kidsE, offE, step_post M]; exact app_mono (List.Subset.refl _) he
  | .ifexp i t b e, pos => by
      rw [mapE_post M]; refine List.Subset.trans (M.off ..) ?_
      have h1 := offE_mapE sc w t .normal; have h2 := offE_mapE sc w b .normal
      have h3 := offE_mapE sc w e .normal; simp only [mapE_post M] at h1 h2 h3
      simp only [kidsE, offE, step_post M]; exact cons_mono (app_mono (app_mono h1 h2) h3)
  | .compare i l ops rs, pos => by
      rw [mapE_post M]; refine List.Subset.trans (M.off ..) ?_
      have h1 := offE_mapE sc w l .normal; simp only [mapE_post M] at h1
      simp only [kidsE, offE, step_post M]
      exact app_mono (app_mono (List.Subset.refl _) h1) (offEs_mapEs sc w rs _)
  | .binop i op l r, pos => by
      rw [mapE_post M]; refine List.Subset.trans (M.off ..) ?_
      have h1 := offE_mapE sc w l (kidPos pos op); have h2 := offE_mapE sc w r (kidPos pos op)
      simp only [mapE_post M] at h1 h2
      simp only [kidsE, offE, step_post M]; exact app_mono h1 h2
  | .attr i v a c, pos => by
      rw [mapE_post M]; refine List.Subset.trans (M.off ..) ?_
      have h1 := offE_mapE sc w v .normal; simp only [mapE_post M] at h1
      simp only [kidsE, offE, step_post M]; exact h1
  | .subscript i v s c, pos => by
      rw [mapE_post M]; refine List.Subset.trans (M.off ..) ?_
      have h1 := offE_mapE sc w v .normal; have h2 := offE_mapE sc w s .normal
      simp only [mapE_post M] at h1 h2
      simp only [kidsE, offE, step_post M]; exact app_mono h1 h2
  | .keyword i a hh v, pos => by
      rw [mapE_post M]; refine List.Subset.trans (M.off ..) ?_
      have h1 := offE_mapE sc w v .normal; simp only [mapE_post M] at h1
      simp only [kidsE, offE, step_post M]; exact h1
  | .lambda i a b, pos => by
      rw [mapE_post M]; refine List.Subset.trans (M.off ..) ?_
      have h1 := offE_mapE sc w a .normal; have h2 := offE_mapE sc w b .normal
      simp only [mapE_post M] at h1 h2
      simp only [kidsE, offE, step_post M]; exact app_mono h1 h2
  | .seq i k es c, pos => by
      rw [mapE_post M]; refine List.Subset.trans (M.off ..) ?_
      simp only [kidsE, offE]; exact offEs_mapEs sc w es _
  | .starred i v c, pos => by
      rw [mapE_post M]; refine List.Subset.trans (M.off ..) ?_
      have h1 := offE_mapE sc w v .normal; simp only [mapE_post M] at h1
      simp only [kidsE, offE, step_post M]; exact h1
  | .namedexpr i t v, pos => by
      rw [mapE_post M]; refine List.Subset.trans (M.off ..) ?_
      have h1 := offE_mapE sc w t .normal; have h2 := offE_mapE sc w v .normal
      simp only [mapE_post M] at h1 h2
      simp only [kidsE, offE, step_post M]; exact app_mono h1 h2
  | .comp i k es gs, pos => by
      rw [mapE_post M]; refine List.Subset.trans (M.off ..) ?_
      simp only [kidsE, offE]; exact app_mono (offEs_mapEs sc w es _) (offEs_mapEs sc w gs _)
  | .comprehension i t it ifs a, pos => by
      rw [mapE_post M]; refine List.Subset.trans (M.off ..) ?_
      have h1 := offE_mapE sc w t .normal; have h2 := offE_mapE sc w it .normal
      simp only [mapE_post M] at h1 h2
      simp only [kidsE, offE, step_post M]; exact app_mono (app_mono h1 h2) (offEs_mapEs sc w ifs _)
  | .arguments i a b c d e f g, pos => by
      rw [mapE_post M]; refine List.Subset.trans (M.off ..) ?_
      simp only [kidsE, offE]
      exact app_mono (app_mono (app_mono (app_mono (app_mono (app_mono (offEs_mapEs sc w a _) (offEs_mapEs sc w b _))
        (offEs_mapEs sc w c _)) (offEs_mapEs sc w d _)) (offEs_mapEs sc w e _)) (offEs_mapEs sc w f _))
        (offEs_mapEs sc w g _)
  | .arg i n an, pos => by
      rw [mapE_post M]; refine List.Subset.trans (M.off ..) ?_
      simp only [kidsE, offE]; exact offEs_mapEs sc w an _
  | .withitem i c v, pos => by
      rw [mapE_post M]; refine List.Subset.trans (M.off ..) ?_
      have h1 := offE_mapE sc w c .normal; simp only [mapE_post M] at h1
      simp only [kidsE, offE, step_post M]; exact app_mono h1 (offEs_mapEs sc w v _)
  | .other i k ats ks, pos => by
      rw [mapE_post M]; refine List.Subset.trans (M.off ..) ?_
      simp only [kidsE, offE]; exact offEs_mapEs sc w ks _
theorem offEs_mapEs (sc : List String) (w : Bool) :
    ∀ (es : List Expr) (ps : List Pos), offEs cfg sc w ps (kidsEs h es) ⊆ offEs cfg sc w ps es
  | [], _ => by simp [kidsEs, offEs]
  | e :: es, ps => by
      have h1 := offE_mapE sc w e (headPos ps); simp only [mapE_post M] at h1
      simp only [kidsEs, offEs, step_post M]; exact app_mono h1 (offEs_mapEs sc w es _)
end

end

/-! ### statements -/
structure MonoSHooks (cfg : Cfg) (h : Hooks) (sh : SHooks) : Prop where
  pre_off : ∀ sc roles t s r, sh.pre s = some r → offB cfg sc roles t r ⊆ offS cfg sc roles t s
  post_off : ∀ sc roles t s, offB cfg sc roles t (sh.post s) ⊆ offS cfg sc roles t s
  pre_roles : ∀ s r, sh.pre s = some r → blockRoles r = bodyRoleNames s
  post_roles : ∀ s, blockRoles (sh.post s) = bodyRoleNames s
  pre_ne : ∀ s r, sh.pre s = some r → r.isEmpty = false
  post_ne : ∀ s, (sh.post s).isEmpty = false

theorem offB_append (cfg : Cfg) (sc roles : List String) (t : Bool) :
    ∀ (a b : List Stmt), offB cfg sc roles t (a ++ b) = offB cfg sc roles (t && b.isEmpty) a ++ offB cfg sc roles t b
  | [], b => by simp [offB]
  | s :: a, b => by
      simp only [List.cons_append, offB, offB_append cfg sc roles t a b, List.append_assoc]
      congr 2
      cases t <;> cases a <;> simp

theorem blockRoles_append : ∀ (a b : List Stmt), blockRoles (a ++ b) = blockRoles a ++ blockRoles b
  | [], b => by simp [blockRoles]
  | s :: a, b => by simp [blockRoles, blockRoles_append a b, List.append_assoc]

section
variable {cfg : Cfg} {h : Hooks} (M : MonoHooks cfg h) {sh : SHooks} (MS : MonoSHooks cfg h sh)
include M

theorem getElem?_kidsEs : ∀ (es : List Expr) (k : Nat), (kidsEs h es)[k]? = (es[k]?).map (mapE h)
  | [], k => by simp [kidsEs]
  | e :: es, 0 => by simp [kidsEs, mapE]
  | e :: es, k+1 => by simp [kidsEs, getElem?_kidsEs es k]

theorem argName_kidsEs (es : List Expr) (k : Nat) : argName (kidsEs h es) k = argName es k := by
  unfold argName
  rw [getElem?_kidsEs M]
  cases es[k]? with
  | none => rfl
  | some e => simp [ldName_mapE M e]

theorem roles_mapE (i : Nat) (v : Expr) : bodyRoleNames (.expr i (mapE h v)) = bodyRoleNames (.expr i v) := by
  rw [mapE_post M, M.roles]
  cases v with
  | call j f as ks =>
      have hq := calleeQn_mapE M f; rw [mapE_post M] at hq
      simp only [kidsE, bodyRoleNames, step_post M, hq, argName_kidsEs M]
  | _ => simp [kidsE, bodyRoleNames]

theorem isScopeCall_mapE (c : Expr) : isScopeCall (mapE h c) = isScopeCall c := by
  rw [mapE_post M, M.scope]
  cases c with
  | call j f as ks =>
      have hq := calleeQn_mapE M f; rw [mapE_post M] at hq
      simp only [kidsE, isScopeCall, step_post M, hq]
  | _ => simp [kidsE, isScopeCall]

theorem scopeName_mapE (it : Expr) : scopeName (mapE h it) = scopeName it := by
  rw [mapE_post M, M.scopeitem]
  cases it with
  | withitem i c v =>
      match v with
      | [x] =>
          have h1 := isScopeCall_mapE M c; rw [mapE_post M] at h1
          have h2 := ldName_mapE M x; rw [mapE_post M] at h2
          simp only [kidsE, kidsEs, scopeName, step_post M, h1, h2]
      | [] => simp [kidsE, kidsEs, scopeName]
      | _ :: _ :: _ => simp [kidsE, kidsEs, scopeName]
  | _ => simp [kidsE, scopeName]

theorem scopeNames_mapEs : ∀ (its : List Expr), scopeNames (mapEs h its) = scopeNames its
  | [] => by simp [mapEs, kidsEs, scopeNames]
  | it :: rest => by
      have h1 := scopeName_mapE M it
      have h2 := scopeNames_mapEs rest
      simp only [mapEs, mapE] at h1 h2 ⊢
      simp only [kidsEs, scopeNames, h1, h2]

theorem bodyRoleNames_kidsS (s : Stmt) : bodyRoleNames (kidsS h sh s) = bodyRoleNames s := by
  cases s with
  | expr i v => simp only [kidsS]; exact roles_mapE M i v
  | _ => simp [kidsS, bodyRoleNames]

include MS in
theorem blockRoles_stepS (s : Stmt) : blockRoles (stepS sh s (kidsS h sh s)) = bodyRoleNames s := by
  unfold stepS
  cases hp : sh.pre s with
  | some r => exact MS.pre_roles s r hp
  | none => simp only []; rw [MS.post_roles, bodyRoleNames_kidsS M]

include MS in
theorem blockRoles_mapB : ∀ (b : List Stmt), blockRoles (mapB h sh b) = blockRoles b
  | [] => by simp [mapB, blockRoles]
  | s :: ss => by
      simp only [mapB, blockRoles, blockRoles_append, blockRoles_stepS M MS s, blockRoles_mapB ss]

include MS in
theorem stepS_ne (s : Stmt) : (stepS sh s (kidsS h sh s)).isEmpty = false := by
  unfold stepS
  cases hp : sh.pre s with
  | some r => exact MS.pre_ne s r hp
  | none => exact MS.post_ne _

include MS in
theorem isEmpty_mapB : ∀ (b : List Stmt), (mapB h sh b).isEmpty = b.isEmpty
  | [] => by simp [mapB]
  | s :: ss => by
      have := stepS_ne M MS s
      simp only [mapB, List.isEmpty_cons]
      cases hx : stepS sh s (kidsS h sh s) with
      | nil => simp [hx] at this
      | cons a r => simp

include MS in
mutual
theorem offS_kidsS : ∀ (s : Stmt) (sc roles : List String) (t : Bool),
    offS cfg sc roles t (kidsS h sh s) ⊆ offS cfg sc roles t s
  | .functionDef i n as b ds rs isA, sc, roles, t => by
      simp only [kidsS, offS, blockRoles_mapB M MS]
      exact app_mono (app_mono (app_mono (offE_mapE M sc false as _) (offEs_mapEs M sc false ds _))
        (offEs_mapEs M sc false rs _)) (offB_mapB b _ _ _)
  | .classDef i n bs ks b ds, sc, roles, t => by
      simp only [kidsS, offS, blockRoles_mapB M MS]
      exact app_mono (app_mono (app_mono (offEs_mapEs M sc false bs _) (offEs_mapEs M sc false ks _))
        (offEs_mapEs M sc false ds _)) (offB_mapB b _ _ _)
  | .ret i v, sc, roles, t => by
      simp only [kidsS, offS]; exact app_mono (List.Subset.refl _) (offEs_mapEs M sc false v _)
  | .delete i ts, sc, roles, t => by simp only [kidsS, offS]; exact offEs_mapEs M sc false ts _
  | .assign i ts v, sc, roles, t => by
      simp only [kidsS, offS]; exact app_mono (offEs_mapEs M sc false ts _) (offE_mapE M sc false v _)
  | .augAssign i tg op v, sc, roles, t => by
      simp only [kidsS, offS]; exact app_mono (offE_mapE M sc false tg _) (offE_mapE M sc false v _)
  | .annAssign i tg an v s, sc, roles, t => by
      simp only [kidsS, offS]
      exact app_mono (app_mono (offE_mapE M sc false tg _) (offE_mapE M sc false an _)) (offEs_mapEs M sc false v _)
  | .for_ i tg it b e x isA, sc, roles, t => by
      simp only [kidsS, offS, blockRoles_mapB M MS]
      exact cons_mono (app_mono (app_mono (app_mono (offE_mapE M sc false tg _) (offE_mapE M sc false it _))
        (offB_mapB b _ _ _)) (offB_mapB e _ _ _))
  | .while_ i c b e, sc, roles, t => by
      simp only [kidsS, offS, blockRoles_mapB M MS]
      exact cons_mono (app_mono (app_mono (offE_mapE M sc false c _) (offB_mapB b _ _ _)) (offB_mapB e _ _ _))
  | .if_ i c b e, sc, roles, t => by
      simp only [kidsS, offS, blockRoles_mapB M MS]
      exact cons_mono (app_mono (app_mono (offE_mapE M sc false c _) (offB_mapB b _ _ _)) (offB_mapB e _ _ _))
  | .with_ i its b isA, sc, roles, t => by
      simp only [kidsS, offS, blockRoles_mapB M MS, scopeNames_mapEs M]
      exact app_mono (offEs_mapEs M sc true its _) (offB_mapB b _ _ _)
  | .raise i e c, sc, roles, t => by
      simp only [kidsS, offS]; exact app_mono (offEs_mapEs M sc false e _) (offEs_mapEs M sc false c _)
  | .try_ i b hs e f, sc, roles, t => by
      simp only [kidsS, offS, blockRoles_mapB M MS]
      exact app_mono (app_mono (app_mono (offB_mapB b _ _ _) (offB_mapB hs _ _ _)) (offB_mapB e _ _ _))
        (offB_mapB f _ _ _)
  | .handler i ty n b, sc, roles, t => by
      simp only [kidsS, offS, blockRoles_mapB M MS]
      exact app_mono (offEs_mapEs M sc false ty _) (offB_mapB b _ _ _)
  | .assert_ i c m, sc, roles, t => by
      simp only [kidsS, offS]; exact app_mono (offE_mapE M sc false c _) (offEs_mapEs M sc false m _)
  | .import_ .., _, _, _ => by simp [kidsS]
  | .importFrom .., _, _, _ => by simp [kidsS]
  | .global .., _, _, _ => by simp [kidsS]
  | .nonlocal .., _, _, _ => by simp [kidsS]
  | .expr i v, sc, roles, t => by simp only [kidsS, offS]; exact offE_mapE M sc false v _
  | .pass .., _, _, _ => by simp [kidsS]
  | .break_ .., _, _, _ => by simp [kidsS]
  | .continue_ .., _, _, _ => by simp [kidsS]
  | .other i k es bs, sc, roles, t => by
      simp only [kidsS, offS, blockRoles_mapB M MS]
      exact app_mono (offEs_mapEs M sc false es _) (offB_mapB bs _ _ _)
theorem offB_mapB : ∀ (b : List Stmt) (sc roles : List String) (t : Bool),
    offB cfg sc roles t (mapB h sh b) ⊆ offB cfg sc roles t b
  | [], _, _, _ => by simp [mapB]
  | s :: ss, sc, roles, t => by
      simp only [mapB, offB, offB_append, isEmpty_mapB M MS]
      refine app_mono ?_ (offB_mapB ss sc roles t)
      unfold stepS
      cases hp : sh.pre s with
      | some r => exact MS.pre_off sc roles _ s r hp
      | none => exact List.Subset.trans (MS.post_off sc roles _ _) (offS_kidsS s sc roles _)
end

end

/-! ### guarding a hook by a well-formedness predicate

`guard h good` applies `h.post` only to `good` nodes.  On trees all of whose nodes are good it is the same
traversal (`mapE_guard`, `mapB_guard`); its hook conditions only have to be shown for good nodes. -/
def guard (h : Hooks) (good : Expr → Bool) : Hooks :=
  { pre := h.pre, post := fun e => if good e then h.post e else e }

section
variable (h : Hooks) (good : Expr → Bool) (hpre : ∀ e, h.pre e = none)
  (hk : ∀ e, good (kidsE (guard h good) e) = good e)

private theorem orf' {a b : Bool} : (a || b) = false ↔ a = false ∧ b = false := by
  cases a <;> cases b <;> simp

private theorem bad_false {e : Expr} (hb : anyE (fun x => !good x) e = false) : good e = true := by
  simp only [anyE, orf'] at hb; simpa using hb.1

include hpre hk in
mutual
theorem mapE_guard : ∀ (e : Expr), anyE (fun x => !good x) e = false → mapE (guard h good) e = mapE h e
  | e, hb => by
      have hg := bad_false good hb
      have hkk := kidsE_guard e hb
      simp only [mapE, step, guard, hpre]
      have : good (kidsE (guard h good) e) = true := by rw [hk]; exact hg
      simp only [guard] at this hkk
      rw [hkk] at this
      simp [this, hkk]
theorem kidsE_guard : ∀ (e : Expr), anyE (fun x => !good x) e = false → kidsE (guard h good) e = kidsE h e
  | .name .., _ => by simp [kidsE]
  | .const .., _ => by simp [kidsE]
  | .noneMarker, _ => by simp [kidsE]
  | .attr i v a c, hb => by
      simp only [anyE, anyKids, orf'] at hb
      have := mapE_guard v (by simp [anyE, hb.2.1, hb.2.2])
      simp only [mapE] at this; simp [kidsE, this]
  | .subscript i v s c, hb => by
      simp only [anyE, anyKids, orf'] at hb
      have h1 := mapE_guard v (by simp [anyE, hb.2.1.1, hb.2.1.2])
      have h2 := mapE_guard s (by simp [anyE, hb.2.2.1, hb.2.2.2])
      simp only [mapE] at h1 h2; simp [kidsE, h1, h2]
  | .call i f as ks, hb => by
      simp only [anyE, anyKids, orf'] at hb
      have h1 := mapE_guard f (by simp [anyE, hb.2.1.1.1, hb.2.1.1.2])
      simp only [mapE] at h1
      simp [kidsE, h1, kidsEs_guard as hb.2.1.2, kidsEs_guard ks hb.2.2]
  | .keyword i a hh v, hb => by
      simp only [anyE, anyKids, orf'] at hb
      have := mapE_guard v (by simp [anyE, hb.2.1, hb.2.2])
      simp only [mapE] at this; simp [kidsE, this]
  | .boolop i b vs, hb => by
      simp only [anyE, anyKids, orf'] at hb
      simp [kidsE, kidsEs_guard vs hb.2]
  | .unary i op e, hb => by
      simp only [anyE, anyKids, orf'] at hb
      have := mapE_guard e (by simp [anyE, hb.2.1, hb.2.2])
      simp only [mapE] at this; simp [kidsE, this]
  | .binop i op l r, hb => by
      simp only [anyE, anyKids, orf'] at hb
      have h1 := mapE_guard l (by simp [anyE, hb.2.1.1, hb.2.1.2])
      have h2 := mapE_guard r (by simp [anyE, hb.2.2.1, hb.2.2.2])
      simp only [mapE] at h1 h2; simp [kidsE, h1, h2]
  | .compare i l ops rs, hb => by
      simp only [anyE, anyKids, orf'] at hb
      have h1 := mapE_guard l (by simp [anyE, hb.2.1.1, hb.2.1.2])
      simp only [mapE] at h1; simp [kidsE, h1, kidsEs_guard rs hb.2.2]
  | .ifexp i t b e, hb => by
      simp only [anyE, anyKids, orf'] at hb
      have h1 := mapE_guard t (by simp [anyE, hb.2.1.1.1, hb.2.1.1.2])
      have h2 := mapE_guard b (by simp [anyE, hb.2.1.2.1, hb.2.1.2.2])
      have h3 := mapE_guard e (by simp [anyE, hb.2.2.1, hb.2.2.2])
      simp only [mapE] at h1 h2 h3; simp [kidsE, h1, h2, h3]
  | .lambda i a b, hb => by
      simp only [anyE, anyKids, orf'] at hb
      have h1 := mapE_guard a (by simp [anyE, hb.2.1.1, hb.2.1.2])
      have h2 := mapE_guard b (by simp [anyE, hb.2.2.1, hb.2.2.2])
      simp only [mapE] at h1 h2; simp [kidsE, h1, h2]
  | .seq i k es c, hb => by
      simp only [anyE, anyKids, orf'] at hb
      simp [kidsE, kidsEs_guard es hb.2]
  | .starred i v c, hb => by
      simp only [anyE, anyKids, orf'] at hb
      have := mapE_guard v (by simp [anyE, hb.2.1, hb.2.2])
      simp only [mapE] at this; simp [kidsE, this]
  | .namedexpr i t v, hb => by
      simp only [anyE, anyKids, orf'] at hb
      have h1 := mapE_guard t (by simp [anyE, hb.2.1.1, hb.2.1.2])
      have h2 := mapE_guard v (by simp [anyE, hb.2.2.1, hb.2.2.2])
      simp only [mapE] at h1 h2; simp [kidsE, h1, h2]
  | .comp i k es gs, hb => by
      simp only [anyE, anyKids, orf'] at hb
      simp [kidsE, kidsEs_guard es hb.2.1, kidsEs_guard gs hb.2.2]
  | .comprehension i t it ifs a, hb => by
      simp only [anyE, anyKids, orf'] at hb
      have h1 := mapE_guard t (by simp [anyE, hb.2.1.1.1, hb.2.1.1.2])
      have h2 := mapE_guard it (by simp [anyE, hb.2.1.2.1, hb.2.1.2.2])
      simp only [mapE] at h1 h2; simp [kidsE, h1, h2, kidsEs_guard ifs hb.2.2]
  | .arguments i a b c d e f g, hb => by
      simp only [anyE, anyKids, orf'] at hb
      obtain ⟨_, ⟨⟨⟨⟨⟨⟨h1, h2⟩, h3⟩, h4⟩, h5⟩, h6⟩, h7⟩⟩ := hb
      simp [kidsE, kidsEs_guard a h1, kidsEs_guard b h2, kidsEs_guard c h3, kidsEs_guard d h4, kidsEs_guard e h5,
        kidsEs_guard f h6, kidsEs_guard g h7]
  | .arg i n an, hb => by
      simp only [anyE, anyKids, orf'] at hb
      simp [kidsE, kidsEs_guard an hb.2]
  | .withitem i c v, hb => by
      simp only [anyE, anyKids, orf'] at hb
      have h1 := mapE_guard c (by simp [anyE, hb.2.1.1, hb.2.1.2])
      simp only [mapE] at h1; simp [kidsE, h1, kidsEs_guard v hb.2.2]
  | .other i k ats ks, hb => by
      simp only [anyE, anyKids, orf'] at hb
      simp [kidsE, kidsEs_guard ks hb.2]
theorem kidsEs_guard : ∀ (es : List Expr), anyKidsL (fun x => !good x) es = false →
    kidsEs (guard h good) es = kidsEs h es
  | [], _ => by simp [kidsEs]
  | e :: es, hb => by
      simp only [anyKidsL, orf'] at hb
      have h1 := mapE_guard e (by simp [anyE, hb.1.1, hb.1.2])
      simp only [mapE] at h1; simp [kidsEs, h1, kidsEs_guard es hb.2]
end

end

section
variable (h : Hooks) (good : Expr → Bool) (hpre : ∀ e, h.pre e = none)
  (hk : ∀ e, good (kidsE (guard h good) e) = good e) (sh : SHooks)

private theorem orf'' {a b : Bool} : (a || b) = false ↔ a = false ∧ b = false := by
  cases a <;> cases b <;> simp

include hpre hk in
theorem mapEs_guard (es : List Expr) (hb : anyEs (fun x => !good x) es = false) :
    mapEs (guard h good) es = mapEs h es := kidsEs_guard h good hpre hk es hb

include hpre hk in
mutual
theorem kidsS_guard : ∀ (s : Stmt), anyS (fun x => !good x) s = false → kidsS (guard h good) sh s = kidsS h sh s
  | .functionDef i n as b ds rs isA, hb => by
      simp only [anyS, orf''] at hb
      simp [kidsS, mapE_guard h good hpre hk as hb.1.1.1, mapB_guard b hb.1.1.2, mapEs_guard h good hpre hk ds hb.1.2,
        mapEs_guard h good hpre hk rs hb.2]
  | .classDef i n bs ks b ds, hb => by
      simp only [anyS, orf''] at hb
      simp [kidsS, mapEs_guard h good hpre hk bs hb.1.1.1, mapEs_guard h good hpre hk ks hb.1.1.2, mapB_guard b hb.1.2,
        mapEs_guard h good hpre hk ds hb.2]
  | .ret i v, hb => by simp only [anyS] at hb; simp [kidsS, mapEs_guard h good hpre hk v hb]
  | .delete i ts, hb => by simp only [anyS] at hb; simp [kidsS, mapEs_guard h good hpre hk ts hb]
  | .assign i ts v, hb => by
      simp only [anyS, orf''] at hb
      simp [kidsS, mapEs_guard h good hpre hk ts hb.1, mapE_guard h good hpre hk v hb.2]
  | .augAssign i t op v, hb => by
      simp only [anyS, orf''] at hb
      simp [kidsS, mapE_guard h good hpre hk t hb.1, mapE_guard h good hpre hk v hb.2]
  | .annAssign i t an v s, hb => by
      simp only [anyS, orf''] at hb
      simp [kidsS, mapE_guard h good hpre hk t hb.1.1, mapE_guard h good hpre hk an hb.1.2, mapEs_guard h good hpre hk v hb.2]
  | .for_ i t it b e x isA, hb => by
      simp only [anyS, orf''] at hb
      simp [kidsS, mapE_guard h good hpre hk t hb.1.1.1, mapE_guard h good hpre hk it hb.1.1.2, mapB_guard b hb.1.2,
        mapB_guard e hb.2]
  | .while_ i t b e, hb => by
      simp only [anyS, orf''] at hb
      simp [kidsS, mapE_guard h good hpre hk t hb.1.1, mapB_guard b hb.1.2, mapB_guard e hb.2]
  | .if_ i t b e, hb => by
      simp only [anyS, orf''] at hb
      simp [kidsS, mapE_guard h good hpre hk t hb.1.1, mapB_guard b hb.1.2, mapB_guard e hb.2]
  | .with_ i its b isA, hb => by
      simp only [anyS, orf''] at hb
      simp [kidsS, mapEs_guard h good hpre hk its hb.1, mapB_guard b hb.2]
  | .raise i e c, hb => by
      simp only [anyS, orf''] at hb
      simp [kidsS, mapEs_guard h good hpre hk e hb.1, mapEs_guard h good hpre hk c hb.2]
  | .try_ i b hs e f, hb => by
      simp only [anyS, orf''] at hb
      simp [kidsS, mapB_guard b hb.1.1.1, mapB_guard hs hb.1.1.2, mapB_guard e hb.1.2, mapB_guard f hb.2]
  | .handler i t n b, hb => by
      simp only [anyS, orf''] at hb
      simp [kidsS, mapEs_guard h good hpre hk t hb.1, mapB_guard b hb.2]
  | .assert_ i t m, hb => by
      simp only [anyS, orf''] at hb
      simp [kidsS, mapE_guard h good hpre hk t hb.1, mapEs_guard h good hpre hk m hb.2]
  | .import_ .., _ => by simp [kidsS]
  | .importFrom .., _ => by simp [kidsS]
  | .global .., _ => by simp [kidsS]
  | .nonlocal .., _ => by simp [kidsS]
  | .expr i v, hb => by simp only [anyS] at hb; simp [kidsS, mapE_guard h good hpre hk v hb]
  | .pass .., _ => by simp [kidsS]
  | .break_ .., _ => by simp [kidsS]
  | .continue_ .., _ => by simp [kidsS]
  | .other i k es bs, hb => by
      simp only [anyS, orf''] at hb
      simp [kidsS, mapEs_guard h good hpre hk es hb.1, mapB_guard bs hb.2]
theorem mapB_guard : ∀ (b : List Stmt), anyB (fun x => !good x) b = false → mapB (guard h good) sh b = mapB h sh b
  | [], _ => by simp [mapB]
  | s :: ss, hb => by
      simp only [anyB, orf''] at hb
      simp [mapB, kidsS_guard s hb.1, mapB_guard ss hb.2]
end

end

end Malt.C04
