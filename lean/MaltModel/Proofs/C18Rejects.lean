import MaltModel.Proofs.C18Quiet
/- C18: characterisation of the expressions the transformer accepts. -/
set_option linter.unusedSimpArgs false
namespace Malt.Anf
open Malt.Py

/-- the computation succeeds -/
def okE {ε α : Type} (x : Except ε α) : Prop := ∃ a, x = .ok a

theorem okE_bind {ε α β : Type} (x : Except ε α) (f : α → Except ε β) :
    okE (x >>= f) ↔ ∃ a, x = .ok a ∧ okE (f a) := by
  cases x with
  | error e => simp [okE, bind, Except.bind]
  | ok a => simp [okE, bind, Except.bind]

theorem exists_ok_eq {ε α : Type} (x : Except ε α) : (∃ a, x = .ok a) = okE x := rfl

theorem okE_pure {ε α : Type} (a : α) : okE (pure a : Except ε α) ↔ True := by simp [okE, pure, Except.pure]
theorem okE_ok {ε α : Type} (a : α) : okE (.ok a : Except ε α) ↔ True := by simp [okE]
theorem okE_error {ε α : Type} (e : ε) : okE (.error e : Except ε α) ↔ False := by simp [okE]

theorem okE_trivialOnly (w : String) (x : Bool) (r : Expr × List Stmt × Nat) :
    okE (trivialOnly w x r) ↔ x = false ∧ r.2.1 = [] := by
  unfold trivialOnly okE
  cases x <;> cases h : r.2.1 <;> simp

/-- a lazy construct is accepted iff it is quiet -/
theorem okE_lazy {cfg : Config} {e : Expr} {n : Nat}
    (h : ∀ e' D n', visitE cfg e n = .ok (e', D, n') → D = []) : okE (visitE cfg e n) ↔ quiet cfg e = true := by
  constructor
  · rintro ⟨⟨e', D, n'⟩, hv⟩
    have := h e' D n' hv; subst this
    exact (quiet_iff_visit_nil cfg e n).mpr ⟨e', n', hv⟩
  · intro hq; exact ⟨_, visitE_quiet cfg e n hq⟩

theorem trivialOnly_D {w : String} {x : Bool} {r : Expr × List Stmt × Nat} {e' : Expr} {D : List Stmt} {n' : Nat}
    (h : trivialOnly w x r = .ok (e', D, n')) : D = [] := by
  have := trivialOnly_ok.mp h
  obtain ⟨-, h2, h3⟩ := this
  rw [← h3] at h2; exact h2

macro "acc_simp" "[" ts:Lean.Parser.Tactic.simpLemma,* "]" : tactic =>
  `(tactic| simp only [visitE, visitEs, acceptsE, acceptsEs, okE_bind, okE_pure, okE_ok, okE_error, and_true, true_and,
      Bool.and_eq_true, exists_and_right, exists_ok_eq, and_assoc, $ts,*])

mutual
theorem acceptsE_iff (cfg : Config) : ∀ (e : Expr) (n : Nat), okE (visitE cfg e n) ↔ acceptsE cfg e = true
  | .name .., n => by simp [visitE, acceptsE, okE]
  | .const .., n => by simp [visitE, acceptsE, okE]
  | .noneMarker, n => by simp [visitE, acceptsE, okE]
  | .attr i v a c, n => by acc_simp [acceptsE_iff cfg v]
  | .subscript i v s c, n => by acc_simp [acceptsE_iff cfg v, acceptsE_iff cfg s]
  | .call i f as ks, n => by acc_simp [acceptsE_iff cfg f, acceptsEs_iff cfg as, acceptsEs_iff cfg ks]
  | .keyword i a hs v, n => by acc_simp [acceptsE_iff cfg v]
  | .boolop i isAnd vs, n => by
      simp only [acceptsE]
      refine okE_lazy (fun e' D n' h => ?_)
      simp only [visitE, bind_ok, Prod.exists] at h
      obtain ⟨_, _, _, _, h⟩ := h
      exact trivialOnly_D h
  | .unary i op v, n => by acc_simp [acceptsE_iff cfg v]
  | .binop i op l r, n => by
      simp only [visitE, acceptsE]
      split
      · next h => simp [okE_error, h]
      · next h => simp only [h]; acc_simp [acceptsE_iff cfg l, acceptsE_iff cfg r]; simp
  | .compare i l ops rs, n => by
      simp only [visitE, acceptsE]
      split
      · next h => simp [okE_error, h]
      · next h => simp only [h]; acc_simp [acceptsE_iff cfg l, acceptsEs_iff cfg rs]; simp
  | .ifexp i t b e, n => by
      simp only [acceptsE]
      refine okE_lazy (fun e' D n' h => ?_)
      simp only [visitE, bind_ok, Prod.exists] at h
      obtain ⟨_, _, _, _, _, _, _, _, _, _, _, _, h⟩ := h
      exact trivialOnly_D h
  | .lambda i as b, n => by
      simp only [acceptsE]
      refine okE_lazy (fun e' D n' h => ?_)
      simp only [visitE, bind_ok, Prod.exists] at h
      obtain ⟨_, _, _, _, _, _, _, _, h⟩ := h
      exact trivialOnly_D h
  | .seq i .set es c, n => by acc_simp [acceptsEs_iff cfg es]
  | .seq i .tuple es c, n => by
      acc_simp [acceptsEs_iff cfg es]
      constructor
      · rintro ⟨a, h, -⟩; exact (acceptsEs_iff cfg es n).mp ⟨a, h⟩
      · intro h
        obtain ⟨a, ha⟩ := (acceptsEs_iff cfg es n).mpr h
        refine ⟨a, ha, ?_⟩
        split <;> simp [okE, pure, Except.pure]
  | .seq i .list es c, n => by
      acc_simp [acceptsEs_iff cfg es]
      constructor
      · rintro ⟨a, h, -⟩; exact (acceptsEs_iff cfg es n).mp ⟨a, h⟩
      · intro h
        obtain ⟨a, ha⟩ := (acceptsEs_iff cfg es n).mpr h
        refine ⟨a, ha, ?_⟩
        split <;> simp [okE, pure, Except.pure]
  | .starred i v c, n => by acc_simp [acceptsE_iff cfg v]
  | .namedexpr i t v, n => by acc_simp [acceptsE_iff cfg t, acceptsE_iff cfg v]
  | .comp .., n => by simp [visitE, acceptsE, okE]
  | .comprehension i t it ifs a, n => by acc_simp [acceptsE_iff cfg t, acceptsE_iff cfg it, acceptsEs_iff cfg ifs]
  | .arguments i po ar va ko kd kw df, n => by
      acc_simp [acceptsEs_iff cfg po, acceptsEs_iff cfg ar, acceptsEs_iff cfg va, acceptsEs_iff cfg ko,
        acceptsEs_iff cfg kd, acceptsEs_iff cfg kw, acceptsEs_iff cfg df]
  | .arg i nm an, n => by acc_simp [acceptsEs_iff cfg an]
  | .withitem i ce ov, n => by acc_simp [acceptsE_iff cfg ce, acceptsEs_iff cfg ov]
  | .other i k ats ks, n => by
      by_cases h1 : (k == "Dict") = true
      · simp only [visitE, acceptsE, h1, ↓reduceIte, Bool.true_or, okE_bind, okE_pure, and_true, exists_ok_eq,
          acceptsEs_iff cfg ks]
      by_cases h2 : (k == "Slice") = true
      · simp only [visitE, acceptsE, h1, h2, Bool.false_eq_true, ↓reduceIte, Bool.true_or, Bool.or_true, Bool.false_or, okE_bind, okE_pure,
          and_true, exists_ok_eq, acceptsEs_iff cfg ks]
      by_cases h3 : (k == "Yield") = true
      · simp only [visitE, acceptsE, h1, h2, h3, Bool.false_eq_true, ↓reduceIte, Bool.true_or, Bool.or_true, Bool.false_or, okE_bind,
          okE_pure, and_true, exists_ok_eq, acceptsEs_iff cfg ks]
      have hacc : acceptsE cfg (.other i k ats ks) = quiet cfg (.other i k ats ks) := by
        simp only [acceptsE]; simp [h1, h2, h3]
      rw [hacc]
      refine okE_lazy (fun e' D n' h => ?_)
      simp only [visitE] at h
      split at h
      · next hk => exact absurd hk h1
      split at h
      · simp only [bind_ok, Prod.exists] at h
        obtain ⟨_, _, _, _, h⟩ := h
        exact trivialOnly_D h
      split at h
      · simp only [bind_ok, Prod.exists] at h
        obtain ⟨_, _, _, _, h⟩ := h
        exact trivialOnly_D h
      split at h
      · simp only [bind_ok, Prod.exists] at h
        obtain ⟨_, _, _, _, h⟩ := h
        split at h
        · simp at h
        · exact trivialOnly_D h
      · simp at h
theorem acceptsEs_iff (cfg : Config) : ∀ (es : List Expr) (n : Nat), okE (visitEs cfg es n) ↔ acceptsEs cfg es = true
  | [], n => by simp [visitEs, acceptsEs, okE]
  | e :: es, n => by acc_simp [acceptsE_iff cfg e, acceptsEs_iff cfg es]
end

end Malt.Anf
