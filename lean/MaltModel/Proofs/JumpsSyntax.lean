import MaltModel.Conv.JumpsSem
/-
Syntactic post-conditions of the three lowerings: no `break` after the break lowering, no `continue` after
the continue lowering, no `return` after the return lowering except the final `return retval_`.
-/
namespace Malt.Sem.Jumps
open Malt.Sem

theorem hasBrkB_append : ∀ (a b : List Stmt), hasBrkB (a ++ b) = (hasBrkB a || hasBrkB b)
  | [], b => by simp [hasBrkB]
  | s :: a, b => by simp [hasBrkB, hasBrkB_append a b, Bool.or_assoc]

theorem hasContB_append : ∀ (a b : List Stmt), hasContB (a ++ b) = (hasContB a || hasContB b)
  | [], b => by simp [hasContB]
  | s :: a, b => by simp [hasContB, hasContB_append a b, Bool.or_assoc]

theorem hasRetB_append : ∀ (a b : List Stmt), hasRetB (a ++ b) = (hasRetB a || hasRetB b)
  | [], b => by simp [hasRetB]
  | s :: a, b => by simp [hasRetB, hasRetB_append a b, Bool.or_assoc]

mutual
theorem brkS_noBrk (gen : Gen) (cur : Name) : ∀ (p : List Nat) (s : Stmt), hasBrkB (brkS gen cur p s).1 = false
  | p, .brk => by simp [brkS, hasBrkB, hasBrkS]
  | p, .cont => by simp [brkS, hasBrkB, hasBrkS]
  | p, .ret e => by simp [brkS, hasBrkB, hasBrkS]
  | p, .assign x e => by simp [brkS, hasBrkB, hasBrkS]
  | p, .expr e => by simp [brkS, hasBrkB, hasBrkS]
  | p, .pass => by simp [brkS, hasBrkB, hasBrkS]
  | p, .raise t => by simp [brkS, hasBrkB, hasBrkS]
  | p, .ifS c t e => by
      simp [brkS, hasBrkB, hasBrkS, brkB_noBrk gen cur (0 :: p) t, brkB_noBrk gen cur (1 :: p) e]
  | p, .whileS c b => by
      simp only [brkS]
      split <;> simp [hasBrkB, hasBrkS, brkB_noBrk gen (gen p) p b]
  | p, .forS x it ex b => by
      simp only [brkS]
      split <;> simp [hasBrkB, hasBrkS, brkB_noBrk gen (gen p) p b]
  | p, .tryS b hs f => by
      simp [brkS, hasBrkB, hasBrkS, brkB_noBrk gen cur (0 :: p) b, brkH_noBrk gen cur (1 :: p) hs,
        brkB_noBrk gen cur (2 :: p) f]
  | p, .withS t b => by simp [brkS, hasBrkB, hasBrkS, brkB_noBrk gen cur (0 :: p) b]
theorem brkB_noBrk (gen : Gen) (cur : Name) : ∀ (p : List Nat) (b : List Stmt), hasBrkB (brkB gen cur p b).1 = false
  | p, [] => by simp [brkB, hasBrkB]
  | p, s :: rest => by
      simp [brkB, hasBrkB_append, brkS_noBrk gen cur (rest.length :: p) s, brkB_noBrk gen cur p rest]
theorem brkH_noBrk (gen : Gen) (cur : Name) : ∀ (p : List Nat) (hs : List (Nat × List Stmt)),
    hasBrkH (brkH gen cur p hs).1 = false
  | p, [] => by simp [brkH, hasBrkH]
  | p, (t, b) :: hs => by
      simp [brkH, hasBrkH, brkB_noBrk gen cur (hs.length :: p) b, brkH_noBrk gen cur p hs]
end

/-- The output of the break lowering contains no `break`. -/
theorem lowerBreak_noBrk (gen : Gen) (body : Block) : hasBrkB (lowerBreak gen body) = false :=
  brkB_noBrk gen (gen []) [0] body

mutual
theorem cntS_noCont (gen : Gen) (cur : Name) : ∀ (p : List Nat) (s : Stmt), hasContB (cntS gen cur p s).1 = false
  | p, .brk => by simp [cntS, hasContB, hasContS]
  | p, .cont => by simp [cntS, hasContB, hasContS]
  | p, .ret e => by simp [cntS, hasContB, hasContS]
  | p, .assign x e => by simp [cntS, hasContB, hasContS]
  | p, .expr e => by simp [cntS, hasContB, hasContS]
  | p, .pass => by simp [cntS, hasContB, hasContS]
  | p, .raise t => by simp [cntS, hasContB, hasContS]
  | p, .ifS c t e => by
      simp [cntS, hasContB, hasContS, cntB_noCont gen cur (0 :: p) false t, cntB_noCont gen cur (1 :: p) false e]
  | p, .whileS c b => by
      simp only [cntS, hasContB, hasContS]
      split <;> simp [hasContB, hasContS, cntB_noCont gen (gen p) p false b]
  | p, .forS x it ex b => by
      simp only [cntS, hasContB, hasContS]
      split <;> simp [hasContB, hasContS, cntB_noCont gen (gen p) p false b]
  | p, .tryS b hs f => by
      simp [cntS, hasContB, hasContS, cntB_noCont gen cur (0 :: p) false b, cntH_noCont gen cur (1 :: p) hs,
        cntB_noCont gen cur (2 :: p) false f]
  | p, .withS t b => by simp [cntS, hasContB, hasContS, cntB_noCont gen cur (0 :: p) false b]
theorem cntB_noCont (gen : Gen) (cur : Name) : ∀ (p : List Nat) (g : Bool) (b : List Stmt),
    hasContB (cntB gen cur p g b).1 = false
  | p, g, [] => by simp [cntB, hasContB]
  | p, g, s :: rest => by
      have h1 := cntS_noCont gen cur (rest.length :: p) s
      have h2 := cntB_noCont gen cur p (cntS gen cur (rest.length :: p) s).2 rest
      simp only [cntB]
      split <;> simp [hasContB, hasContS, ifNot, hasContB_append, h1, h2]
theorem cntH_noCont (gen : Gen) (cur : Name) : ∀ (p : List Nat) (hs : List (Nat × List Stmt)),
    hasContH (cntH gen cur p hs).1 = false
  | p, [] => by simp [cntH, hasContH]
  | p, (t, b) :: hs => by
      simp [cntH, hasContH, cntB_noCont gen cur (hs.length :: p) false b, cntH_noCont gen cur p hs]
end

/-- The output of the continue lowering contains no `continue`. -/
theorem lowerContinue_noCont (gen : Gen) (body : Block) : hasContB (lowerContinue gen body) = false :=
  cntB_noCont gen (gen []) [0] false body

mutual
theorem retS_noRet (dr rv : Name) : ∀ (u : Bool) (s : Stmt), hasRetB (retS dr rv u s).1 = false
  | u, .brk => by simp [retS, hasRetB, hasRetS]
  | u, .cont => by simp [retS, hasRetB, hasRetS]
  | u, .ret e => by simp [retS, hasRetB, hasRetS]
  | u, .assign x e => by simp [retS, hasRetB, hasRetS]
  | u, .expr e => by simp [retS, hasRetB, hasRetS]
  | u, .pass => by simp [retS, hasRetB, hasRetS]
  | u, .raise t => by simp [retS, hasRetB, hasRetS]
  | u, .ifS c t e => by
      simp [retS, hasRetB, hasRetS, retB_noRet dr rv false false t, retB_noRet dr rv false false e]
  | u, .whileS c b => by simp [retS, hasRetB, hasRetS, retB_noRet dr rv false false b]
  | u, .forS x it ex b => by simp [retS, hasRetB, hasRetS, retB_noRet dr rv false false b]
  | u, .tryS b hs f => by
      simp [retS, hasRetB, hasRetS, retB_noRet dr rv false false b, retH_noRet dr rv hs,
        retB_noRet dr rv false false f]
  | u, .withS t b => by simp [retS, hasRetB, hasRetS, retB_noRet dr rv false false b]
theorem retB_noRet (dr rv : Name) : ∀ (g u : Bool) (b : List Stmt), hasRetB (retB dr rv g u b).1 = false
  | g, u, [] => by simp [retB, hasRetB]
  | g, u, s :: rest => by
      have h1 := retS_noRet dr rv u s
      have h2 := retB_noRet dr rv (retS dr rv u s).2 (u || (retS dr rv u s).2) rest
      simp only [retB]
      split <;> simp [hasRetB, hasRetS, ifNot, hasRetB_append, h1, h2]
theorem retH_noRet (dr rv : Name) : ∀ (hs : List (Nat × List Stmt)), hasRetH (retH dr rv hs).1 = false
  | [] => by simp [retH, hasRetH]
  | (t, b) :: hs => by
      simp [retH, hasRetH, retB_noRet dr rv false false b, retH_noRet dr rv hs]
end

/-- After the return lowering the only `return` is the last statement of the function body (or there is
none at all when the function had none). -/
theorem lowerReturn_onlyLastRet (dr rv : Name) (body : Block) :
    (∃ init, lowerReturn dr rv body = init ++ [.ret (some (.var rv))] ∧ hasRetB init = false) ∨
    hasRetB (lowerReturn dr rv body) = false := by
  by_cases hu : (retB dr rv false false body).2 = true
  · left
    refine ⟨[.assign dr cFalse, .assign rv cNone] ++ (retB dr rv false false body).1, ?_, ?_⟩
    · simp [lowerReturn, hu]
    · simp [hasRetB, hasRetS, retB_noRet dr rv false false body]
  · right
    have hu' : (retB dr rv false false body).2 = false := by simpa using hu
    simp [lowerReturn, hu', retB_noRet dr rv false false body]

mutual
theorem cntS_hit (gen : Gen) (cur : Name) : ∀ (p : List Nat) (s : Stmt), (cntS gen cur p s).2 = topContS s
  | p, .brk => by simp [cntS, topContS]
  | p, .cont => by simp [cntS, topContS]
  | p, .ret e => by simp [cntS, topContS]
  | p, .assign x e => by simp [cntS, topContS]
  | p, .expr e => by simp [cntS, topContS]
  | p, .pass => by simp [cntS, topContS]
  | p, .raise t => by simp [cntS, topContS]
  | p, .ifS c t e => by
      simp [cntS, topContS, cntB_hit gen cur (0 :: p) false t, cntB_hit gen cur (1 :: p) false e]
  | p, .whileS c b => by simp [cntS, topContS]
  | p, .forS x it ex b => by simp [cntS, topContS]
  | p, .tryS b hs f => by
      simp [cntS, topContS, cntB_hit gen cur (0 :: p) false b, cntH_hit gen cur (1 :: p) hs,
        cntB_hit gen cur (2 :: p) false f]
  | p, .withS t b => by simp [cntS, topContS, cntB_hit gen cur (0 :: p) false b]
theorem cntB_hit (gen : Gen) (cur : Name) : ∀ (p : List Nat) (g : Bool) (b : List Stmt),
    (cntB gen cur p g b).2 = topContB b
  | p, g, [] => by simp [cntB, topContB]
  | p, g, s :: rest => by
      simp [cntB, topContB, cntS_hit gen cur (rest.length :: p) s, cntB_hit gen cur p _ rest]
theorem cntH_hit (gen : Gen) (cur : Name) : ∀ (p : List Nat) (hs : List (Nat × List Stmt)),
    (cntH gen cur p hs).2 = topContH hs
  | p, [] => by simp [cntH, topContH]
  | p, (t, b) :: hs => by
      simp [cntH, topContH, cntB_hit gen cur (hs.length :: p) false b, cntH_hit gen cur p hs]
end

mutual
theorem brkS_hit (gen : Gen) (cur : Name) : ∀ (p : List Nat) (s : Stmt), (brkS gen cur p s).2 = mayBrkS s
  | p, .brk => by simp [brkS, mayBrkS]
  | p, .cont => by simp [brkS, mayBrkS]
  | p, .ret e => by simp [brkS, mayBrkS]
  | p, .assign x e => by simp [brkS, mayBrkS]
  | p, .expr e => by simp [brkS, mayBrkS]
  | p, .pass => by simp [brkS, mayBrkS]
  | p, .raise t => by simp [brkS, mayBrkS]
  | p, .ifS c t e => by
      simp [brkS, mayBrkS, brkB_hit gen cur (0 :: p) t, brkB_hit gen cur (1 :: p) e]
  | p, .whileS c b => by simp only [brkS, mayBrkS]; split <;> rfl
  | p, .forS x it ex b => by simp only [brkS, mayBrkS]; split <;> rfl
  | p, .tryS b hs f => by
      simp [brkS, mayBrkS, brkB_hit gen cur (0 :: p) b, brkH_hit gen cur (1 :: p) hs, brkB_hit gen cur (2 :: p) f]
  | p, .withS t b => by simp [brkS, mayBrkS, brkB_hit gen cur (0 :: p) b]
theorem brkB_hit (gen : Gen) (cur : Name) : ∀ (p : List Nat) (b : List Stmt), (brkB gen cur p b).2 = mayBrkB b
  | p, [] => by simp [brkB, mayBrkB]
  | p, s :: rest => by
      simp [brkB, mayBrkB, brkS_hit gen cur (rest.length :: p) s, brkB_hit gen cur p rest]
theorem brkH_hit (gen : Gen) (cur : Name) : ∀ (p : List Nat) (hs : List (Nat × List Stmt)),
    (brkH gen cur p hs).2 = mayBrkH hs
  | p, [] => by simp [brkH, mayBrkH]
  | p, (t, b) :: hs => by
      simp [brkH, mayBrkH, brkB_hit gen cur (hs.length :: p) b, brkH_hit gen cur p hs]
end

mutual
theorem retS_hit (dr rv : Name) : ∀ (u : Bool) (s : Stmt), (retS dr rv u s).2 = hasRetS s
  | u, .brk => by simp [retS, hasRetS]
  | u, .cont => by simp [retS, hasRetS]
  | u, .ret e => by simp [retS, hasRetS]
  | u, .assign x e => by simp [retS, hasRetS]
  | u, .expr e => by simp [retS, hasRetS]
  | u, .pass => by simp [retS, hasRetS]
  | u, .raise t => by simp [retS, hasRetS]
  | u, .ifS c t e => by
      simp [retS, hasRetS, retB_hit dr rv false false t, retB_hit dr rv false false e]
  | u, .whileS c b => by simp [retS, hasRetS, retB_hit dr rv false false b]
  | u, .forS x it ex b => by simp [retS, hasRetS, retB_hit dr rv false false b]
  | u, .tryS b hs f => by
      simp [retS, hasRetS, retB_hit dr rv false false b, retH_hit dr rv hs, retB_hit dr rv false false f]
  | u, .withS t b => by simp [retS, hasRetS, retB_hit dr rv false false b]
theorem retB_hit (dr rv : Name) : ∀ (g u : Bool) (b : List Stmt), (retB dr rv g u b).2 = hasRetB b
  | g, u, [] => by simp [retB, hasRetB]
  | g, u, s :: rest => by
      simp [retB, hasRetB, retS_hit dr rv u s, retB_hit dr rv _ _ rest]
theorem retH_hit (dr rv : Name) : ∀ (hs : List (Nat × List Stmt)), (retH dr rv hs).2 = hasRetH hs
  | [] => by simp [retH, hasRetH]
  | (t, b) :: hs => by
      simp [retH, hasRetH, retB_hit dr rv false false b, retH_hit dr rv hs]
end

end Malt.Sem.Jumps
