import MaltModel.Proofs.C03Basic
import MaltModel.Proofs.C03BlockVars
import MaltModel.Proofs.C03Namer
/-!
C03: every operator call in the output of the model of `ControlFlowTransformer` obeys the contract.

Structure: (1) `emitted` distributes over `++` and ignores statements without calls/blocks; (2) name resolution
(`lookupDef`) inside one generated chunk, using that the generated names are pairwise distinct
(`Proofs/C03Namer.lean`); (3) the three templates (`ifChunk_good`, `whileChunk_good`, `forChunk_good`);
(4) mutual structural induction over the source tree (`tStmt_good` / `tStmts_good`).
-/
set_option linter.unusedSimpArgs false
namespace Malt.Conv.Contract
open Malt Malt.Py Malt.Conv.ControlFlow Malt.Naming

/-! ### lists of results -/
def AllGood (P : OpCall → Prop) (l : List (Option OpCall)) : Prop := ∀ o ∈ l, ∃ c, o = some c ∧ P c

theorem AllGood.nil {P} : AllGood P [] := by intro o ho; cases ho
theorem AllGood.append {P} {a b : List (Option OpCall)} (ha : AllGood P a) (hb : AllGood P b) : AllGood P (a ++ b) := by
  intro o ho
  rcases List.mem_append.mp ho with h | h
  · exact ha o h
  · exact hb o h
theorem AllGood.single {P} {c : OpCall} (h : P c) : AllGood P [some c] := by
  intro o ho
  simp only [List.mem_singleton] at ho
  exact ⟨c, ho, h⟩

/-! ### emitted: unfolding, append, quiet statements -/
theorem emittedBlock_nil (pre : List Stmt) : emittedBlock pre [] = [] := by simp [emittedBlock]

theorem emittedBlock_cons (pre : List Stmt) (s : Stmt) (rest : List Stmt) :
    emittedBlock pre (s :: rest) =
      (match opCall? s with
       | some (k, args, kws) => [extract pre k args kws]
       | none => []) ++ emittedStmt s ++ emittedBlock (s :: pre) rest := by
  cases h : opCall? s <;> simp [emittedBlock, h]

theorem emittedBlock_append : ∀ (xs ys pre : List Stmt),
    emittedBlock pre (xs ++ ys) = emittedBlock pre xs ++ emittedBlock (xs.reverse ++ pre) ys
  | [], ys, pre => by simp [emittedBlock_nil]
  | x :: xs, ys, pre => by
      rw [List.cons_append, emittedBlock_cons, emittedBlock_cons, emittedBlock_append xs ys (x :: pre)]
      simp [List.append_assoc]

/-- A statement that is not an operator call and has no blocks. -/
def Quiet (s : Stmt) : Prop := opCall? s = none ∧ emittedStmt s = []

theorem emittedBlock_quiet : ∀ (xs ys pre : List Stmt), (∀ s ∈ xs, Quiet s) →
    emittedBlock pre (xs ++ ys) = emittedBlock (xs.reverse ++ pre) ys
  | [], ys, pre, _ => by simp
  | x :: xs, ys, pre, h => by
      have hx := h x (List.mem_cons_self ..)
      rw [List.cons_append, emittedBlock_cons, hx.1, hx.2,
        emittedBlock_quiet xs ys (x :: pre) (fun s hs => h s (List.mem_cons_of_mem _ hs))]
      simp [List.append_assoc]

theorem emittedBlock_all_quiet (xs pre : List Stmt) (h : ∀ s ∈ xs, Quiet s) : emittedBlock pre xs = [] := by
  have := emittedBlock_quiet xs [] pre h
  simpa [emittedBlock_nil] using this


/-! ### generated definitions and lookups -/
theorem filterMap_argName (ps : List String) :
    (ps.map fun p => Expr.arg 0 p []).filterMap argName? = ps := by
  induction ps with
  | nil => rfl
  | cons p ps ih => simp [argName?, ih]

theorem all_argName (ps : List String) :
    ((ps.map fun p => Expr.arg 0 p []).all fun a => (argName? a).isSome) = true := by
  induction ps with
  | nil => rfl
  | cons p ps ih => simp [argName?]

theorem fnInfo_fnDef (n : String) (ps : List String) (b : List Stmt) :
    fnInfo? (fnDef n ps b) = some (n, { params := ps, plain := true, body := b }) := by
  simp only [fnDef, argsOf, fnInfo?, filterMap_argName, all_argName]
  simp

theorem lookupDef_cons_fnDef (n n' : String) (ps : List String) (b pre : List Stmt) :
    lookupDef (fnDef n' ps b :: pre) n =
      if n' = n then some { params := ps, plain := true, body := b } else lookupDef pre n := by
  rw [lookupDef, fnInfo_fnDef]
  by_cases h : n' = n <;> simp [h]

theorem lookupDef_nondef (l pre : List Stmt) (n : String) (h : ∀ s ∈ l, fnInfo? s = none) :
    lookupDef (l ++ pre) n = lookupDef pre n := by
  induction l with
  | nil => rfl
  | cons s l ih =>
    rw [List.cons_append, lookupDef, h s (List.mem_cons_self ..)]
    exact ih (fun s hs => h s (List.mem_cons_of_mem _ hs))

theorem opCall_fnDef (n : String) (ps : List String) (b : List Stmt) : opCall? (fnDef n ps b) = none := rfl
theorem emittedStmt_fnDef (n : String) (ps : List String) (b : List Stmt) :
    emittedStmt (fnDef n ps b) = emittedBlock [] b := by simp [fnDef, emittedStmt]

theorem quiet_decl : ∀ s ∈ nonlocalDecls fs vars, Quiet s := by
  intro s hs
  simp only [nonlocalDecls, List.mem_append] at hs
  rcases hs with hs | hs <;> split at hs <;> simp at hs <;> subst hs <;> exact ⟨rfl, by simp [emittedStmt]⟩

theorem isDecl_decl : ∀ s ∈ nonlocalDecls fs vars, isDecl s = true := by
  intro s hs
  simp only [nonlocalDecls, List.mem_append] at hs
  rcases hs with hs | hs <;> split at hs <;> simp at hs <;> subst hs <;> rfl

theorem quiet_undef : ∀ s ∈ undefinedAssigns u, Quiet s := by
  intro s hs
  simp only [undefinedAssigns, List.mem_map] at hs
  obtain ⟨v, _, rfl⟩ := hs
  exact ⟨rfl, by simp [emittedStmt]⟩

theorem nondef_undef : ∀ s ∈ undefinedAssigns u, fnInfo? s = none := by
  intro s hs
  simp only [undefinedAssigns, List.mem_map] at hs
  obtain ⟨v, _, rfl⟩ := hs
  rfl


/-! ### qualified names -/
theorem exprQN_toExpr (c : Ctx) : ∀ q : QN, exprQN (q.toExpr c) = some q
  | .sym s => rfl
  | .lit k r => rfl
  | .attr b a => by simp [QN.toExpr, exprQN, exprQN_toExpr .load b]
  | .sub b i => by simp [QN.toExpr, exprQN, exprQN_toExpr .load b, exprQN_toExpr .load i]

theorem exprQN_qnExpr (c : Ctx) (v : String) : exprQN (qnExpr c v) = some (qnOf v) := exprQN_toExpr c _

theorem qnOf_toString (v : String) : (qnOf v).toString = v := by
  unfold qnOf
  split
  · rename_i q _
    split
    · rename_i h; simpa using h
    · rfl
  · rfl

theorem qnOf_inj {a b : String} (h : qnOf a = qnOf b) : a = b := by
  rw [← qnOf_toString a, ← qnOf_toString b, h]

theorem getterDen_toExpr (q : QN) :
    getterDen (q.toExpr .load) = some { qn := q, guarded := false, label := .noneMarker } := by
  cases q <;> simp [QN.toExpr, getterDen, exprQN, exprQN_toExpr]

theorem getterDen_guardedVar (v : String) :
    getterDen (guardedVar v) =
      some { qn := qnOf v, guarded := BlockVars.isComposite v,
             label := if BlockVars.isComposite v then strConst v else .noneMarker } := by
  unfold guardedVar
  by_cases h : BlockVars.isComposite v = true
  · simp [h, getterDen, agOp?, agAttr, noArgs, argsOf, exprQN_qnExpr]
  · simp only [h, if_false, Bool.false_eq_true]
    exact getterDen_toExpr _

theorem posOk_var (v : String) : PosOk (strConst v) (guardedVar v) (qnExpr .store v) := by
  refine ⟨v, _, ⟨0, rfl⟩, getterDen_guardedVar v, rfl, exprQN_qnExpr _ _, ?_, ?_⟩
  · intro h
    simp only at h
    simp only [h, if_true]
    exact ⟨0, rfl⟩
  · intro h; exact h

theorem all3_vars : ∀ vars : List String,
    All3 PosOk (vars.map strConst) (vars.map guardedVar) (vars.map (qnExpr .store))
  | [] => .nil
  | v :: vs => .cons (posOk_var v) (all3_vars vs)

theorem mapM_exprQN_vars : ∀ vars : List String,
    (vars.map (qnExpr .store)).mapM exprQN = some (vars.map qnOf)
  | [] => rfl
  | v :: vs => by
      simp only [List.map_cons, List.mapM_cons, exprQN_qnExpr, mapM_exprQN_vars vs]
      rfl

theorem nodup_map_qnOf {vars : List String} (h : vars.Nodup) : (vars.map qnOf).Nodup := by
  refine List.pairwise_map.mpr (List.Pairwise.imp ?_ h)
  intro a b hab heq
  exact hab (qnOf_inj heq)

/-- The state part of a call generated from the variable list `vars`. -/
structure StateOk (vars : List String) (c : OpCall) : Prop where
  names : c.names = vars.map strConst
  getter : getterTuple c = some (vars.map guardedVar)
  setter : setterTargets c = some (vars.map (qnExpr .store))

theorem StateOk.lengths {vars c} (h : StateOk vars c) : Lengths c :=
  ⟨_, _, h.getter, h.setter, by simp [h.names], by simp⟩

theorem StateOk.positions {vars c} (h : StateOk vars c) : Positions c :=
  ⟨_, _, h.getter, h.setter, h.names ▸ all3_vars vars⟩

theorem StateOk.distinct {vars c} (h : StateOk vars c) (hn : vars.Nodup) : Distinct c :=
  ⟨_, _, h.setter, mapM_exprQN_vars vars, nodup_map_qnOf hn⟩

theorem StateOk.pure {vars c} (h : StateOk vars c) : GetterPure c := by
  refine ⟨_, h.getter, ?_⟩
  intro g hg
  obtain ⟨v, _, rfl⟩ := List.mem_map.mp hg
  rw [getterDen_guardedVar]; rfl


/-! ### the state functions -/
def setterParam (vars : List String) : String := if vars.isEmpty then "block_vars" else "vars_"
def setterBody (vars : List String) (decls : List Stmt) : List Stmt :=
  if vars.isEmpty then [.pass 0]
  else decls ++ [.assign 0 [tupleE (vars.map (qnExpr .store)) .store] (nameE "vars_")]
def getterBody (vars : List String) : List Stmt := [.ret 0 [tupleE (vars.map guardedVar)]]

theorem stateFunctions_eq (vars : List String) (decls : List Stmt) (g s : String) :
    stateFunctions vars decls g s =
      [fnDef g [] (getterBody vars), fnDef s [setterParam vars] (setterBody vars decls)] := by
  unfold stateFunctions setterParam setterBody getterBody
  cases vars <;> simp

theorem quiet_getterBody (vars : List String) : ∀ s ∈ getterBody vars, Quiet s := by
  intro s hs
  simp only [getterBody, List.mem_singleton] at hs
  subst hs
  exact ⟨rfl, by simp [emittedStmt]⟩

theorem quiet_setterBody (vars : List String) (fs : FnScope) (dv : List String) :
    ∀ s ∈ setterBody vars (nonlocalDecls fs dv), Quiet s := by
  intro s hs
  unfold setterBody at hs
  split at hs
  · simp only [List.mem_singleton] at hs; subst hs; exact ⟨rfl, by simp [emittedStmt]⟩
  · rcases List.mem_append.mp hs with h | h
    · exact quiet_decl s h
    · simp only [List.mem_singleton] at h; subst h; exact ⟨rfl, by simp [emittedStmt]⟩

theorem dropWhile_decls (decls rest : List Stmt) (h : ∀ s ∈ decls, isDecl s = true) :
    (decls ++ rest).dropWhile isDecl = rest.dropWhile isDecl := by
  induction decls with
  | nil => rfl
  | cons d ds ih =>
    rw [List.cons_append, List.dropWhile_cons, h d (List.mem_cons_self ..)]
    exact ih (fun s hs => h s (List.mem_cons_of_mem _ hs))

theorem stateOk_of (vars : List String) (fs : FnScope) (dv : List String) (c : OpCall)
    (hn : c.names = vars.map strConst)
    (hg : c.getter.body = getterBody vars)
    (hs : c.setter.body = setterBody vars (nonlocalDecls fs dv))
    (hp : c.setter.params = [setterParam vars]) : StateOk vars c := by
  refine ⟨hn, ?_, ?_⟩
  · simp [getterTuple, hg, getterBody, tupleE]
  · unfold setterTargets
    rw [hs, hp]
    unfold setterBody setterParam
    cases vars with
    | nil => simp [isDecl]
    | cons v vs =>
      simp only [List.isEmpty_cons, Bool.false_eq_true, if_false]
      rw [dropWhile_decls _ _ (isDecl_decl)]
      simp [isDecl, tupleE, nameE]


theorem natConst_intConst (n : Nat) : natConst? (intConst n) = some n := by
  simp only [intConst, natConst?]
  exact Nat.toNat?_repr n

theorem emitted_defBody (P : OpCall → Prop) (fs : FnScope) (dv : List String) (body : List Stmt)
    (hbody : ∀ pre, AllGood P (emittedBlock pre body)) :
    AllGood P (emittedBlock [] (nonlocalDecls fs dv ++ body)) := by
  rw [emittedBlock_quiet _ _ _ quiet_decl]
  exact hbody _

theorem lookup_rev_undef (u : List String) (rest : List Stmt) (n : String) :
    lookupDef ((undefinedAssigns u).reverse ++ rest) n = lookupDef rest n :=
  lookupDef_nondef _ _ _ (fun s hs => nondef_undef s (List.mem_reverse.mp hs))

theorem takeWhile_decls (decls rest : List Stmt) (h : ∀ s ∈ decls, isDecl s = true)
    (hr : ∀ s, rest.head? = some s → isDecl s = false) : (decls ++ rest).takeWhile isDecl = decls := by
  induction decls with
  | nil =>
    cases rest with
    | nil => rfl
    | cons r rs => simp [List.takeWhile, hr r rfl]
  | cons d ds ih =>
    rw [List.cons_append, List.takeWhile_cons, h d (List.mem_cons_self ..)]
    simp only [if_true]
    rw [ih (fun s hs => h s (List.mem_cons_of_mem _ hs))]

theorem mem_declared_decls (fs : FnScope) (vars : List String) (v : String) (hv : v ∈ vars)
    (hs : BlockVars.isComposite v = false) :
    v ∈ (nonlocalDecls fs vars).flatMap (fun s => match s with
      | .global _ ns => ns
      | .nonlocal _ ns => ns
      | _ => []) := by
  unfold nonlocalDecls
  by_cases hg : fs.globals.contains v = true
  · have hmem : v ∈ vars.filter fs.globals.contains := List.mem_filter.mpr ⟨hv, hg⟩
    have hne : (vars.filter fs.globals.contains).isEmpty = false := by
      cases h : vars.filter fs.globals.contains with
      | nil => rw [h] at hmem; cases hmem
      | cons _ _ => rfl
    simp only [hne, Bool.false_eq_true, if_false, List.flatMap_append, List.mem_append, List.flatMap_cons,
      List.flatMap_nil, List.append_nil]
    exact Or.inl hmem
  · have hmem : v ∈ vars.filter (fun v => !BlockVars.isComposite v && !(vars.filter fs.globals.contains).contains v) := by
      refine List.mem_filter.mpr ⟨hv, ?_⟩
      simp only [hs, Bool.not_false, Bool.true_and, Bool.not_eq_true', List.contains_eq_mem, decide_eq_false_iff_not,
        List.mem_filter, not_and]
      intro _
      simpa using hg
    have hne : (vars.filter (fun v => !BlockVars.isComposite v && !(vars.filter fs.globals.contains).contains v)).isEmpty = false := by
      cases h : vars.filter (fun v => !BlockVars.isComposite v && !(vars.filter fs.globals.contains).contains v) with
      | nil => rw [h] at hmem; cases hmem
      | cons _ _ => rfl
    simp only [hne, Bool.false_eq_true, if_false, List.flatMap_append, List.mem_append, List.flatMap_cons,
      List.flatMap_nil, List.append_nil]
    exact Or.inr hmem

theorem setterDeclares_of (vars : List String) (fs : FnScope) (c : OpCall)
    (hst : StateOk vars c) (hs : c.setter.body = setterBody vars (nonlocalDecls fs vars)) : SetterDeclares c := by
  refine ⟨_, hst.setter, ?_⟩
  intro t ht i s ctx heq hsimple
  obtain ⟨v, hv, rfl⟩ := List.mem_map.mp ht
  have hq : qnOf v = .sym s := by
    have := exprQN_qnExpr .store v
    rw [heq] at this
    simpa [exprQN] using this.symm
  have hvs : v = s := by
    have := qnOf_toString v
    rw [hq] at this
    exact this.symm
  subst hvs
  rw [hs]
  unfold setterBody declaredNames
  cases vars with
  | nil => cases hv
  | cons a as =>
    simp only [List.isEmpty_cons, Bool.false_eq_true, if_false]
    rw [takeWhile_decls _ _ isDecl_decl (by intro s' h'; simp only [List.head?_cons, Option.some.injEq] at h'; subst h'; rfl)]
    exact mem_declared_decls fs _ v hv hsimple

theorem good_of_state (vars : List String) (fs : FnScope) (c : OpCall)
    (hn : c.names = vars.map strConst)
    (hg : c.getter.body = getterBody vars)
    (hs : c.setter.body = setterBody vars (nonlocalDecls fs vars))
    (hp : c.setter.params = [setterParam vars])
    (hnd : vars.Nodup) (har : Arity c) (hno : Nouts c) : Good c :=
  have hst := stateOk_of vars fs vars c hn hg hs hp
  ⟨hst.lengths, hst.positions, har, hno, hst.distinct hnd, hst.pure, setterDeclares_of vars fs c hst hs⟩

theorem takeWhile_decls_append (decls rest : List Stmt) (h : ∀ s ∈ decls, isDecl s = true) :
    (decls ++ rest).takeWhile isDecl = decls ++ rest.takeWhile isDecl := by
  induction decls with
  | nil => rfl
  | cons d ds ih =>
    rw [List.cons_append, List.takeWhile_cons, h d (List.mem_cons_self ..)]
    simp only [if_true, List.cons_append]
    rw [ih (fun s hs => h s (List.mem_cons_of_mem _ hs))]

theorem mem_declared_prefix (fs : FnScope) (vars : List String) (rest : List Stmt) (v : String) (hv : v ∈ vars)
    (hs : BlockVars.isComposite v = false) : v ∈ declaredNames (nonlocalDecls fs vars ++ rest) := by
  unfold declaredNames
  rw [takeWhile_decls_append _ _ isDecl_decl, List.flatMap_append]
  exact List.mem_append_left _ (mem_declared_decls fs vars v hv hs)

theorem callbacksDeclare_of (vars : List String) (fs : FnScope) (c : OpCall) (hst : StateOk vars c)
    (hb : ∃ rb, c.body.body = nonlocalDecls fs vars ++ rb)
    (hsnd : c.kind ≠ .whileStmt → ∀ f, c.second = some f → ∃ rf, f.body = nonlocalDecls fs vars ++ rf) :
    CallbacksDeclare c := by
  refine ⟨_, hst.setter, ?_⟩
  intro t ht i s ctx heq hsimple
  obtain ⟨v, hv, rfl⟩ := List.mem_map.mp ht
  have hq : qnOf v = .sym s := by
    have := exprQN_qnExpr .store v
    rw [heq] at this
    simpa [exprQN] using this.symm
  have hvs : v = s := by
    have := qnOf_toString v
    rw [hq] at this
    exact this.symm
  subst hvs
  obtain ⟨rb, hrb⟩ := hb
  refine ⟨hrb ▸ mem_declared_prefix fs vars rb v hv hsimple, ?_⟩
  intro hk f hf
  obtain ⟨rf, hrf⟩ := hsnd hk f hf
  exact hrf ▸ mem_declared_prefix fs vars rf v hv hsimple

theorem ifChunk_good {P : OpCall → Prop} (bv : BlockVars.Result)
    (hP : ∀ c, c.kind = .ifStmt → Good c → c.names = bv.scopeVars.map strConst → c.last = intConst bv.nouts → CallbacksDeclare c → P c) (fs : FnScope) (test : Expr) (body orelse : List Stmt)
    (g s b o : String)
    (hgs : g ≠ s) (hgb : g ≠ b) (hgo : g ≠ o) (hsb : s ≠ b) (hso : s ≠ o) (hbo : b ≠ o)
    (hnd : bv.scopeVars.Nodup) (hno : bv.nouts ≤ bv.scopeVars.length)
    (hbody : ∀ pre, AllGood P (emittedBlock pre body))
    (horelse : ∀ pre, AllGood P (emittedBlock pre orelse)) :
    ∀ pre, AllGood P (emittedBlock pre (ifChunk bv (nonlocalDecls fs bv.scopeVars) test body orelse g s b o)) := by
  intro pre
  have horelse' : ∀ pre, AllGood P (emittedBlock pre (if orelse.isEmpty then [.pass 0] else orelse)) := by
    intro pre
    split
    · rw [emittedBlock_all_quiet _ _ (by intro s hs; simp only [List.mem_singleton] at hs; subst hs; exact ⟨rfl, by simp [emittedStmt]⟩)]
      exact AllGood.nil
    · exact horelse pre
  unfold ifChunk
  rw [stateFunctions_eq, emittedBlock_append, emittedBlock_append]
  refine AllGood.append (AllGood.append ?_ ?_) ?_
  · -- the four definitions
    simp only [List.cons_append, List.nil_append, emittedBlock_cons, emittedBlock_nil, opCall_fnDef, emittedStmt_fnDef,
      List.append_nil]
    rw [emittedBlock_all_quiet _ _ (quiet_getterBody _), emittedBlock_all_quiet _ _ (quiet_setterBody _ _ _)]
    simp only [List.nil_append]
    exact AllGood.append (emitted_defBody P fs _ body hbody) (emitted_defBody P fs _ _ horelse')
  · rw [emittedBlock_all_quiet _ _ quiet_undef]; exact AllGood.nil
  · -- the call
    simp only [emittedBlock_cons, emittedBlock_nil, opCallStmt, opCall?, agOp?, agAttr, kindOfOp, Option.map,
      emittedStmt, List.append_nil]
    simp only [List.reverse_cons, List.nil_append, List.cons_append,
      List.append_assoc, extract, List.isEmpty_nil, Bool.not_true, Bool.false_eq_true, if_false, nameE, nameOf?,
      Option.bind_eq_bind, Option.bind_some, lookup_rev_undef, lookupDef_cons_fnDef, symbolNames, tupleE, tupleElts?]
    simp only [hgs, hgb, hgo, hsb, hso, hbo, hgs.symm, hgb.symm, hgo.symm, hsb.symm, hso.symm, hbo.symm, if_true,
      if_false, Option.bind_some, Option.pure_def]
    apply AllGood.single
    refine hP _ rfl ?_ rfl rfl (callbacksDeclare_of bv.scopeVars fs _ (stateOk_of bv.scopeVars fs bv.scopeVars _ rfl rfl rfl rfl) ⟨_, rfl⟩
      (fun _ f hf => by cases hf; exact ⟨_, rfl⟩))
    refine good_of_state bv.scopeVars fs _ rfl rfl rfl rfl hnd ?_ ?_
    · simp [Arity, arityOk]
    · intro _
      exact ⟨bv.nouts, natConst_intConst _, by simpa using hno⟩


theorem quiet_ret (e : List Expr) : ∀ s ∈ [Stmt.ret 0 e], Quiet s := by
  intro s hs
  simp only [List.mem_singleton] at hs; subst hs; exact ⟨rfl, by simp [emittedStmt]⟩

theorem whileChunk_good {P : OpCall → Prop} (opts test : Expr)
    (hP : ∀ c, c.kind = .whileStmt → Good c → c.last = opts → whileTest c = some (splice .load test) → CallbacksDeclare c → P c)
    (bv : BlockVars.Result) (fs : FnScope) (body : List Stmt)
    (g s b t : String)
    (hgs : g ≠ s) (hgb : g ≠ b) (hgt : g ≠ t) (hsb : s ≠ b) (hst : s ≠ t) (hbt : b ≠ t)
    (hnd : bv.scopeVars.Nodup)
    (hbody : ∀ pre, AllGood P (emittedBlock pre body)) :
    ∀ pre, AllGood P (emittedBlock pre (whileChunk bv (nonlocalDecls fs bv.scopeVars) opts test body g s b t)) := by
  intro pre
  unfold whileChunk
  rw [stateFunctions_eq, emittedBlock_append, emittedBlock_append]
  refine AllGood.append (AllGood.append ?_ ?_) ?_
  · simp only [List.cons_append, List.nil_append, emittedBlock_cons, emittedBlock_nil, opCall_fnDef, emittedStmt_fnDef,
      List.append_nil]
    rw [emittedBlock_all_quiet _ _ (quiet_getterBody _), emittedBlock_all_quiet _ _ (quiet_setterBody _ _ _)]
    simp only [opCall?, emittedStmt, List.nil_append, List.append_nil]
    exact emitted_defBody P fs _ body hbody
  · rw [emittedBlock_all_quiet _ _ quiet_undef]; exact AllGood.nil
  · simp only [emittedBlock_cons, emittedBlock_nil, opCallStmt, opCall?, agOp?, agAttr, kindOfOp, Option.map,
      emittedStmt, List.append_nil]
    simp only [List.reverse_cons, List.nil_append, List.cons_append,
      List.append_assoc, extract, List.isEmpty_nil, Bool.not_true, Bool.false_eq_true, if_false, nameE, nameOf?,
      Option.bind_eq_bind, Option.bind_some, lookup_rev_undef, lookupDef_cons_fnDef, symbolNames, tupleE, tupleElts?]
    simp only [hgs, hgb, hgt, hsb, hst, hbt, hgs.symm, hgb.symm, hgt.symm, hsb.symm, hst.symm, hbt.symm, if_true,
      if_false, Option.bind_some, Option.pure_def]
    apply AllGood.single
    refine hP _ rfl ?_ rfl ?_ (callbacksDeclare_of bv.scopeVars fs _ (stateOk_of bv.scopeVars fs bv.scopeVars _ rfl rfl rfl rfl)
      ⟨_, rfl⟩ (fun hk => absurd rfl hk))
    · refine good_of_state bv.scopeVars fs _ rfl rfl rfl rfl hnd ?_ ?_
      · simp [Arity, arityOk]
      · intro h; cases h
    · simp [whileTest]

theorem forChunk_good {P : OpCall → Prop} (opts target iter : Expr)
    (hP : ∀ c, c.kind = .forStmt → Good c → c.last = opts → forBodyTarget c = some (splice .store target) → CallbacksDeclare c → P c)
    (bv : BlockVars.Result) (fs : FnScope) (body : List Stmt)
    (extraDef : Option (String × Expr)) (g s i b : String)
    (hgs : g ≠ s) (hgb : g ≠ b) (hsb : s ≠ b)
    (hx : ∀ e x, extraDef = some (e, x) → e ≠ g ∧ e ≠ s ∧ e ≠ b)
    (hnd : bv.scopeVars.Nodup)
    (hbody : ∀ pre, AllGood P (emittedBlock pre body)) :
    ∀ pre, AllGood P (emittedBlock pre (forChunk bv (nonlocalDecls fs bv.scopeVars) opts target iter body extraDef g s i b)) := by
  intro pre
  unfold forChunk
  rw [stateFunctions_eq, emittedBlock_append, emittedBlock_append, emittedBlock_append]
  refine AllGood.append (AllGood.append (AllGood.append ?_ ?_) ?_) ?_
  · simp only [List.cons_append, List.nil_append, emittedBlock_cons, emittedBlock_nil, opCall_fnDef, emittedStmt_fnDef,
      List.append_nil]
    rw [emittedBlock_all_quiet _ _ (quiet_getterBody _), emittedBlock_all_quiet _ _ (quiet_setterBody _ _ _)]
    simp only [List.nil_append, List.append_assoc]
    rw [emittedBlock_quiet _ _ _ quiet_decl,
      emittedBlock_quiet [_] _ _ (by intro s hs; simp only [List.mem_singleton] at hs; subst hs; exact ⟨rfl, by simp [emittedStmt]⟩)]
    exact hbody _
  · cases extraDef with
    | none => simp only [emittedBlock_nil]; exact AllGood.nil
    | some ex =>
      obtain ⟨e, x⟩ := ex
      simp only [emittedBlock_cons, emittedBlock_nil, opCall_fnDef, emittedStmt_fnDef, List.append_nil, List.nil_append]
      rw [emittedBlock_quiet _ _ _ quiet_decl, emittedBlock_all_quiet _ _ (quiet_ret _)]
      exact AllGood.nil
  · rw [emittedBlock_all_quiet _ _ quiet_undef]; exact AllGood.nil
  · simp only [emittedBlock_cons, emittedBlock_nil, opCallStmt, opCall?, agOp?, agAttr, kindOfOp, Option.map,
      emittedStmt, List.append_nil]
    cases extraDef with
    | none =>
      simp only [List.reverse_cons, List.nil_append, List.cons_append, List.reverse_nil, List.append_nil,
        List.append_assoc, extract, List.isEmpty_nil, Bool.not_true, Bool.false_eq_true, if_false, nameE, nameOf?,
        Option.bind_eq_bind, Option.bind_some, lookup_rev_undef, lookupDef_cons_fnDef, symbolNames, tupleE, tupleElts?,
        noneConst, isNoneConst, if_true]
      simp only [hgs, hgb, hsb, hgs.symm, hgb.symm, hsb.symm, if_true,
        if_false, Option.bind_some, Option.pure_def]
      apply AllGood.single
      refine hP _ rfl ?_ rfl ?_ (callbacksDeclare_of bv.scopeVars fs _ (stateOk_of bv.scopeVars fs bv.scopeVars _ rfl rfl rfl rfl)
        ⟨_, rfl⟩ (fun _ f hf => by cases hf))
      · refine good_of_state bv.scopeVars fs _ rfl rfl rfl rfl hnd ?_ ?_
        · simp [Arity, arityOk]
        · intro h; cases h
      · simp only [forBodyTarget, List.append_assoc]
        rw [dropWhile_decls _ _ isDecl_decl]
        simp [isDecl]
    | some ex =>
      obtain ⟨e, x⟩ := ex
      obtain ⟨heg, hes, heb⟩ := hx e x rfl
      simp only [List.reverse_cons, List.nil_append, List.cons_append, List.reverse_nil, List.append_nil,
        List.append_assoc, extract, List.isEmpty_nil, Bool.not_true, Bool.false_eq_true, if_false, nameE, nameOf?,
        Option.bind_eq_bind, Option.bind_some, lookup_rev_undef, lookupDef_cons_fnDef, symbolNames, tupleE, tupleElts?,
        isNoneConst, if_true]
      simp only [hgs, hgb, hsb, hgs.symm, hgb.symm, hsb.symm, heg, hes, heb, heg.symm, hes.symm, heb.symm, if_true,
        if_false, Option.bind_some, Option.pure_def, Option.map_some]
      apply AllGood.single
      refine hP _ rfl ?_ rfl ?_ (callbacksDeclare_of bv.scopeVars fs _ (stateOk_of bv.scopeVars fs bv.scopeVars _ rfl rfl rfl rfl)
        ⟨_, rfl⟩ (fun _ f hf => by cases hf; exact ⟨_, rfl⟩))
      · refine good_of_state bv.scopeVars fs _ rfl rfl rfl rfl hnd ?_ ?_
        · simp [Arity, arityOk]
        · intro h; cases h
      · simp only [forBodyTarget, List.append_assoc]
        rw [dropWhile_decls _ _ isDecl_decl]
        simp [isDecl]


/-! ### clean trees emit nothing -/
theorem opCall_none_of_clean (s : Stmt) (h : cleanS s = true) : opCall? s = none := by
  cases s <;> try rfl
  case expr i v =>
    simp only [cleanS, isOpCall, Bool.not_eq_true', Option.isSome_eq_false_iff, Option.isNone_iff_eq_none] at h
    exact h

mutual
theorem clean_stmt : ∀ (s : Stmt), cleanS s = true → emittedStmt s = []
  | .functionDef _ _ _ body _ _ _, h => by
      simp only [cleanS] at h; simp only [emittedStmt]; exact clean_block body [] h
  | .classDef _ _ _ _ body _, h => by
      simp only [cleanS] at h; simp only [emittedStmt]; exact clean_block body [] h
  | .for_ _ _ _ body orelse _ _, h => by
      simp only [cleanS, Bool.and_eq_true] at h
      simp only [emittedStmt, clean_block body [] h.1, clean_block orelse [] h.2, List.append_nil]
  | .while_ _ _ body orelse, h => by
      simp only [cleanS, Bool.and_eq_true] at h
      simp only [emittedStmt, clean_block body [] h.1, clean_block orelse [] h.2, List.append_nil]
  | .if_ _ _ body orelse, h => by
      simp only [cleanS, Bool.and_eq_true] at h
      simp only [emittedStmt, clean_block body [] h.1, clean_block orelse [] h.2, List.append_nil]
  | .with_ _ _ body _, h => by
      simp only [cleanS] at h; simp only [emittedStmt]; exact clean_block body [] h
  | .try_ _ b hd e f, h => by
      simp only [cleanS, Bool.and_eq_true] at h
      simp only [emittedStmt, clean_block b [] h.1.1.1, clean_block hd [] h.1.1.2, clean_block e [] h.1.2,
        clean_block f [] h.2, List.append_nil]
  | .handler _ _ _ body, h => by
      simp only [cleanS] at h; simp only [emittedStmt]; exact clean_block body [] h
  | .other _ _ _ blocks, h => by
      simp only [cleanS] at h; simp only [emittedStmt]; exact clean_block blocks [] h
  | .ret .., _ | .delete .., _ | .assign .., _ | .augAssign .., _ | .annAssign .., _ | .raise .., _
  | .assert_ .., _ | .import_ .., _ | .importFrom .., _ | .global .., _ | .nonlocal .., _ | .expr .., _
  | .pass .., _ | .break_ .., _ | .continue_ .., _ => by simp [emittedStmt]
theorem clean_block : ∀ (ss : List Stmt) (pre : List Stmt), cleanL ss = true → emittedBlock pre ss = []
  | [], _, _ => emittedBlock_nil _
  | s :: ss, pre, h => by
      simp only [cleanL, Bool.and_eq_true] at h
      rw [emittedBlock_cons, opCall_none_of_clean s h.1, clean_stmt s h.1, clean_block ss (s :: pre) h.2]
      rfl
end

theorem clean_single {P} (s : Stmt) (h : cleanS s = true) (pre : List Stmt) : AllGood P (emittedBlock pre [s]) := by
  rw [clean_block [s] pre (by simp [cleanL, h])]
  exact AllGood.nil


/-! ### generated names are pairwise distinct -/
theorem newSymbol_ne {nm : Namer} {root : String} {res : List String} {x : String} (hx : x ∈ nm.generated) :
    (newSymbol nm root res).1 ≠ x := by
  intro h
  apply newSymbol_fresh nm root res
  rw [h]
  exact List.mem_append_right _ hx

theorem gen_self (nm : Namer) (root : String) (res : List String) :
    (newSymbol nm root res).1 ∈ (newSymbol nm root res).2.generated := by
  rw [newSymbol_generated]; exact List.mem_cons_self ..

theorem gen_mono {nm : Namer} (root : String) (res : List String) {x : String} (hx : x ∈ nm.generated) :
    x ∈ (newSymbol nm root res).2.generated := by
  rw [newSymbol_generated]; exact List.mem_cons_of_mem _ hx

attribute [local irreducible] newSymbol

/-- Everything C03 says of one call of the output. -/
def GoodIn (env : Env) (L : List SourceLoop) (c : OpCall) : Prop := Good c ∧ OptsOk env L c ∧ CallbacksDeclare c

theorem emitIf_good (env : Env) (L : List SourceLoop) (fs : FnScope) (nm : Namer) (id : Nat) (test : Expr)
    (body orelse : List Stmt)
    (hbody : ∀ pre, AllGood (GoodIn env L) (emittedBlock pre body))
    (horelse : ∀ pre, AllGood (GoodIn env L) (emittedBlock pre orelse)) :
    ∀ pre, AllGood (GoodIn env L) (emittedBlock pre (emitIf env fs nm id test body orelse).1) := by
  simp only [emitIf]
  refine ifChunk_good _ (fun c hk hg hn hl hcb => ⟨hg, by simp only [OptsOk, hk]; exact ⟨fs, id, hn, hl⟩, hcb⟩) fs test body orelse _ _ _ _
    ?_ ?_ ?_ ?_ ?_ ?_ (BlockVars.blockVars_nodup ..) (BlockVars.blockVars_nouts ..).1 hbody horelse
  · exact (newSymbol_ne (gen_self ..)).symm
  · exact (newSymbol_ne (gen_mono _ _ (gen_self ..))).symm
  · exact (newSymbol_ne (gen_mono _ _ (gen_mono _ _ (gen_self ..)))).symm
  · exact (newSymbol_ne (gen_self ..)).symm
  · exact (newSymbol_ne (gen_mono _ _ (gen_self ..))).symm
  · exact (newSymbol_ne (gen_self ..)).symm

theorem emitWhile_good (env : Env) (L : List SourceLoop) (fs : FnScope) (nm : Namer) (id : Nat) (test : Expr)
    (body : List Stmt) (hL : (⟨id, false, test⟩ : SourceLoop) ∈ L)
    (hbody : ∀ pre, AllGood (GoodIn env L) (emittedBlock pre body)) :
    ∀ pre, AllGood (GoodIn env L) (emittedBlock pre (emitWhile env fs nm id test body).1) := by
  have hopts : ∀ c : OpCall, c.kind = .whileStmt → Good c → c.last = loopOptions env.dirs id [] →
      whileTest c = some (splice .load test) → CallbacksDeclare c → GoodIn env L c := by
    intro c hk hg hl ht hcb
    refine ⟨hg, ?_, hcb⟩
    simp only [OptsOk, hk]
    exact ⟨_, hL, rfl, hl, ht⟩
  simp only [emitWhile]
  refine whileChunk_good _ test hopts _ fs body _ _ _ _
    ?_ ?_ ?_ ?_ ?_ ?_ (BlockVars.blockVars_nodup ..) hbody
  · exact (newSymbol_ne (gen_self ..)).symm
  · exact (newSymbol_ne (gen_mono _ _ (gen_self ..))).symm
  · exact (newSymbol_ne (gen_mono _ _ (gen_mono _ _ (gen_self ..)))).symm
  · exact (newSymbol_ne (gen_self ..)).symm
  · exact (newSymbol_ne (gen_mono _ _ (gen_self ..))).symm
  · exact (newSymbol_ne (gen_self ..)).symm

theorem emitFor_good (env : Env) (L : List SourceLoop) (fs : FnScope) (nm : Namer) (id : Nat) (target iter : Expr)
    (body : List Stmt) (extra : List Expr) (hL : (⟨id, true, target⟩ : SourceLoop) ∈ L)
    (hbody : ∀ pre, AllGood (GoodIn env L) (emittedBlock pre body)) :
    ∀ pre, AllGood (GoodIn env L) (emittedBlock pre (emitFor env fs nm id target iter body extra).1) := by
  have hopts : ∀ c : OpCall, c.kind = .forStmt → Good c →
      c.last = loopOptions env.dirs id [("iterate_names", strConst (unparseE target))] →
      forBodyTarget c = some (splice .store target) → CallbacksDeclare c → GoodIn env L c := by
    intro c hk hg hl ht hcb
    refine ⟨hg, ?_, hcb⟩
    simp only [OptsOk, hk]
    exact ⟨_, hL, rfl, hl, ht⟩
  cases extra with
  | nil =>
    simp only [emitFor]
    refine forChunk_good _ target iter hopts _ fs body _ _ _ _ _
      ?_ ?_ ?_ ?_ (BlockVars.blockVars_nodup ..) hbody
    · exact (newSymbol_ne (gen_self ..)).symm
    · exact (newSymbol_ne (gen_mono _ _ (gen_mono _ _ (gen_self ..)))).symm
    · exact (newSymbol_ne (gen_mono _ _ (gen_self ..))).symm
    · intro e x hex; cases hex
  | cons x' xs =>
    simp only [emitFor]
    refine forChunk_good _ target iter hopts _ fs body _ _ _ _ _
      ?_ ?_ ?_ ?_ (BlockVars.blockVars_nodup ..) hbody
    · exact (newSymbol_ne (gen_self ..)).symm
    · exact (newSymbol_ne (gen_mono _ _ (gen_mono _ _ (gen_mono _ _ (gen_self ..))))).symm
    · exact (newSymbol_ne (gen_mono _ _ (gen_mono _ _ (gen_self ..)))).symm
    · intro e x hex
      simp only [Option.some.injEq, Prod.mk.injEq] at hex
      obtain ⟨rfl, rfl⟩ := hex
      refine ⟨newSymbol_ne (gen_mono _ _ (gen_self ..)), newSymbol_ne (gen_self ..), ?_⟩
      exact (newSymbol_ne (gen_mono _ _ (gen_self ..))).symm


/-! ### the transformer: structural induction -/
theorem single_block {P} (s : Stmt) (h1 : opCall? s = none) (pre : List Stmt) (h : AllGood P (emittedStmt s)) :
    AllGood P (emittedBlock pre [s]) := by
  rw [emittedBlock_cons, h1, emittedBlock_nil]
  simpa using h

mutual
theorem tStmt_good (env : Env) (L : List SourceLoop) : ∀ (s : Stmt) (fs : FnScope) (nm : Namer),
    cleanS s = true → (∀ l ∈ sourceLoopsS s, l ∈ L) →
    ∀ pre, AllGood (GoodIn env L) (emittedBlock pre (tStmt env fs nm s).1)
  | .if_ id test body orelse, fs, nm, hc, hl => by
      unfold tStmt
      split
      · exact clean_single _ hc
      · simp only [cleanS, Bool.and_eq_true] at hc
        simp only [sourceLoopsS, List.mem_append] at hl
        exact emitIf_good env L fs _ id test _ _
          (tStmts_good env L body fs nm hc.1 (fun l h => hl l (.inl h)))
          (tStmts_good env L orelse fs _ hc.2 (fun l h => hl l (.inr h)))
  | .while_ id test body orelse, fs, nm, hc, hl => by
      unfold tStmt
      split
      · exact clean_single _ hc
      · simp only [cleanS, Bool.and_eq_true] at hc
        simp only [sourceLoopsS, List.mem_cons, List.mem_append] at hl
        exact emitWhile_good env L fs _ id test _ (hl _ (.inl rfl))
          (tStmts_good env L body fs nm hc.1 (fun l h => hl l (.inr (.inl h))))
  | .for_ id target iter body orelse extra isAsync, fs, nm, hc, hl => by
      unfold tStmt
      split
      · exact clean_single _ hc
      · simp only [cleanS, Bool.and_eq_true] at hc
        simp only [sourceLoopsS, List.mem_append] at hl
        have hb := tStmts_good env L body fs nm hc.1 (fun l h => hl l (.inl (.inr h)))
        have ho := tStmts_good env L orelse fs (tStmts env fs nm body).2 hc.2 (fun l h => hl l (.inr h))
        split
        · intro pre
          apply single_block _ rfl
          simp only [emittedStmt]
          exact AllGood.append (hb _) (ho _)
        · rename_i hasync
          refine emitFor_good env L fs _ id target iter _ extra (hl _ (.inl (.inl ?_))) hb
          simp [hasync]
  | .functionDef id name args body decos returns isAsync, fs, nm, hc, hl => by
      unfold tStmt
      split
      · exact clean_single _ hc
      · simp only [cleanS] at hc
        simp only [sourceLoopsS] at hl
        intro pre
        apply single_block _ rfl
        simp only [emittedStmt]
        exact tStmts_good env L body _ nm hc hl _
  | .classDef id name bases kws body decos, fs, nm, hc, hl => by
      unfold tStmt
      split
      · exact clean_single _ hc
      · simp only [cleanS] at hc
        simp only [sourceLoopsS] at hl
        intro pre
        apply single_block _ rfl
        simp only [emittedStmt]
        exact tStmts_good env L body _ nm hc hl _
  | .with_ id items body isAsync, fs, nm, hc, hl => by
      unfold tStmt
      split
      · exact clean_single _ hc
      · simp only [cleanS] at hc
        simp only [sourceLoopsS] at hl
        intro pre
        apply single_block _ rfl
        simp only [emittedStmt]
        exact tStmts_good env L body _ nm hc hl _
  | .try_ id b h e f, fs, nm, hc, hl => by
      unfold tStmt
      split
      · exact clean_single _ hc
      · simp only [cleanS, Bool.and_eq_true] at hc
        simp only [sourceLoopsS, List.mem_append] at hl
        intro pre
        apply single_block _ rfl
        simp only [emittedStmt]
        exact AllGood.append (AllGood.append (AllGood.append
          (tStmts_good env L b _ _ hc.1.1.1 (fun l hh => hl l (.inl (.inl (.inl hh)))) _)
          (tStmts_good env L h _ _ hc.1.1.2 (fun l hh => hl l (.inl (.inl (.inr hh)))) _))
          (tStmts_good env L e _ _ hc.1.2 (fun l hh => hl l (.inl (.inr hh))) _))
          (tStmts_good env L f _ _ hc.2 (fun l hh => hl l (.inr hh)) _)
  | .handler id type name body, fs, nm, hc, hl => by
      unfold tStmt
      split
      · exact clean_single _ hc
      · simp only [cleanS] at hc
        simp only [sourceLoopsS] at hl
        intro pre
        apply single_block _ rfl
        simp only [emittedStmt]
        exact tStmts_good env L body _ nm hc hl _
  | .other id kind exprs blocks, fs, nm, hc, hl => by
      unfold tStmt
      split
      · exact clean_single _ hc
      · simp only [cleanS] at hc
        simp only [sourceLoopsS] at hl
        intro pre
        apply single_block _ rfl
        simp only [emittedStmt]
        exact tStmts_good env L blocks _ nm hc hl _
  | .ret .., _, _, hc, _ | .delete .., _, _, hc, _ | .assign .., _, _, hc, _ | .augAssign .., _, _, hc, _
  | .annAssign .., _, _, hc, _ | .raise .., _, _, hc, _ | .assert_ .., _, _, hc, _ | .import_ .., _, _, hc, _
  | .importFrom .., _, _, hc, _ | .global .., _, _, hc, _ | .nonlocal .., _, _, hc, _ | .expr .., _, _, hc, _
  | .pass .., _, _, hc, _ | .break_ .., _, _, hc, _ | .continue_ .., _, _, hc, _ => by
      unfold tStmt
      exact clean_single _ hc
theorem tStmts_good (env : Env) (L : List SourceLoop) : ∀ (ss : List Stmt) (fs : FnScope) (nm : Namer),
    cleanL ss = true → (∀ l ∈ sourceLoopsL ss, l ∈ L) →
    ∀ pre, AllGood (GoodIn env L) (emittedBlock pre (tStmts env fs nm ss).1)
  | [], _, _, _, _ => by
      intro pre; unfold tStmts; rw [emittedBlock_nil]; exact AllGood.nil
  | s :: ss, fs, nm, hc, hl => by
      intro pre
      simp only [cleanL, Bool.and_eq_true] at hc
      simp only [sourceLoopsL, List.mem_append] at hl
      unfold tStmts
      simp only
      rw [emittedBlock_append]
      exact AllGood.append (tStmt_good env L s fs nm hc.1 (fun l h => hl l (.inl h)) _)
        (tStmts_good env L ss fs _ hc.2 (fun l h => hl l (.inr h)) _)
end

end Malt.Conv.Contract
