import MaltModel.Rt.Ctx
/-!
Helper lemmas for `Props/C16.lean` (no property is stated here).

Part 1: what `wrap` does, in one statement (`wrap_around`).
Part 2: who owns which observation; what a body sees.
Part 3: the small-step machine computes the big-step semantics.
Part 4: the log checker accepts every log of the model.
-/
namespace Malt.Ctx

/-! ## Part 1 — wrappers enter, run the body, leave -/

/-- A computation that leaves the thread's context list as it found it. -/
def Bal (b : Comp) : Prop := ∀ s, (b s).st.stack = s.stack

def MBal (b : MComp) : Prop := ∀ m, Bal (b m)

/-- `w` behaves at `s` like: enter contexts reaching state `ins.1`, run `b` in mode `ins.2`, leave them again. -/
def Around (w : Comp) (b : MComp) (ins : Option (TState × Mode)) (s : TState) : Prop :=
  match ins with
  | none => w s = ⟨s, some .index, []⟩
  | some (s', m') => w s = ⟨⟨s.stack, (b m' s').st.next⟩, (b m' s').out, (b m' s').log⟩

theorem exitCtx_top (e : Entry) (o : Option Exn) (s : TState) (rest : Stack)
    (h : s.stack = e :: rest) : exitCtx e.id o s = ({ s with stack := rest }, o) := by
  simp [exitCtx, h]

theorem withEntry_eq (e : Entry) (b : Comp) (hb : Bal b) (s : TState) :
    withEntry e b s = ⟨⟨s.stack, (b (push e s)).st.next⟩, (b (push e s)).out, (b (push e s)).log⟩ := by
  have h := hb (push e s)
  simp only [withEntry]
  rw [exitCtx_top e _ _ s.stack (by simpa [push] using h)]

theorem withFresh_eq (st : Status) (b : Comp) (hb : Bal b) (s : TState) :
    withFresh st b s = ⟨⟨s.stack, (b (pushFresh st s)).st.next⟩, (b (pushFresh st s)).out, (b (pushFresh st s)).log⟩ := by
  simp only [withFresh, pushFresh]
  rw [withEntry_eq _ b hb]

theorem plain_eq (b : Comp) (hb : Bal b) (s : TState) :
    b s = ⟨⟨s.stack, (b s).st.next⟩, (b s).out, (b s).log⟩ := by
  have := hb s
  rcases h : b s with ⟨⟨stk, n⟩, o, l⟩
  simp [h] at this
  simp [this]

theorem around_none {w : Comp} {b : MComp} {s : TState} (h : w s = ⟨s, some .index, []⟩) : Around w b none s := h
theorem around_some {w : Comp} {b : MComp} {s s' : TState} {m' : Mode}
    (h : w s = ⟨⟨s.stack, (b m' s').st.next⟩, (b m' s').out, (b m' s').log⟩) : Around w b (some (s', m')) s := h

theorem around_bal {w : Comp} {b : MComp} {ins : Option (TState × Mode)} {s : TState} (h : Around w b ins s) :
    (w s).st.stack = s.stack := by
  unfold Around at h
  split at h <;> simp [h]

/-- In the pseudo-mode `refused` a body does nothing but raise the scope's refusal. -/
def Refuses (b : MComp) : Prop := ∀ s, b .refused s = ⟨s, some .rejected, []⟩

/-- With the code under test (checks in `__init__`, `__enter__` = the conditional push): accepted options behave as
`functionScope`, refused ones raise before anything is entered.  (Fails to compile if the regenerated steps change.) -/
theorem fsWith_eq (ur feat : Bool) (body : Comp) (s : TState) :
    fsWith ur feat body s = if feat then ⟨s, some .rejected, []⟩ else functionScope ur body s := by
  cases feat <;> cases ur <;>
    simp [fsWith, scopeWith, Gen.fsInitSteps, Gen.fsEnterSteps, runEnter, functionScope, withFresh, withEntry, push]

theorem fsWith_around (ur feat : Bool) (mOk : Mode) (b : MComp) (hb : MBal b) (hr : Refuses b) (s : TState) :
    Around (fsWith ur feat (b mOk)) b (some (insideScope ur feat mOk s)) s := by
  unfold Around
  rw [fsWith_eq]
  cases feat
  · cases ur
    · simpa [insideScope, functionScope] using plain_eq _ (hb mOk) s
    · simpa [insideScope, functionScope] using withFresh_eq _ _ (hb mOk) s
  · simp [insideScope, hr s]

theorem plainCall_around (m : Mode) (b : MComp) (hb : MBal b) (s : TState) :
    Around (plainCall m b) b (insidePlainCall m s) s := by
  cases m with
  | native => exact around_some (plain_eq (b .native) (hb .native) s)
  | refused => exact around_some (plain_eq (b .native) (hb .native) s)
  | converted rec =>
    cases hh : s.stack.head? with
    | none =>
      have hi : insidePlainCall (.converted rec) s = none := by simp [insidePlainCall, hh]
      rw [hi]; exact around_none (by simp [plainCall, hh])
    | some e =>
      have hi : insidePlainCall (.converted rec) s = some (s, calleeMode rec e) := by simp [insidePlainCall, hh]
      have hw : plainCall (.converted rec) b s = b (calleeMode rec e) s := by simp [plainCall, hh]
      rw [hi]; exact around_some (hw ▸ plain_eq _ (hb _) s)

theorem plainCall_bal (m : Mode) (b : MComp) (hb : MBal b) : Bal (plainCall m b) :=
  fun s => around_bal (plainCall_around m b hb s)

theorem convertedCall_around (ur rec feat : Bool) (b : MComp) (hb : MBal b) (hrf : Refuses b) (s : TState) :
    Around (convertedCall ur rec feat b) b (insideConvertedCall ur rec feat s) s := by
  cases hh : s.stack.head? with
  | none =>
    have hi : insideConvertedCall ur rec feat s = none := by simp [insideConvertedCall, hh]
    rw [hi]; exact around_none (by simp [convertedCall, hh])
  | some e =>
    by_cases hd : e.status = .disabled
    · have hi : insideConvertedCall ur rec feat s = some (s, .native) := by simp [insideConvertedCall, hh, hd]
      have hw : convertedCall ur rec feat b s = b .native s := by simp [convertedCall, hh, hd]
      rw [hi]; exact around_some (hw ▸ plain_eq _ (hb _) s)
    · have hi : insideConvertedCall ur rec feat s = some (insideScope ur feat (.converted rec) s) := by
        simp [insideConvertedCall, hh, hd]
      have hw : convertedCall ur rec feat b s = fsWith ur feat (b (.converted rec)) s := by simp [convertedCall, hh, hd]
      have := fsWith_around ur feat (.converted rec) b hb hrf s
      unfold Around at this ⊢
      rw [hi, hw]; exact this

theorem convertedCall_bal (ur rec feat : Bool) (b : MComp) (hb : MBal b) (hrf : Refuses b) : Bal (convertedCall ur rec feat b) :=
  fun s => around_bal (convertedCall_around ur rec feat b hb hrf s)

theorem insideConvertedCall_push_ne_none (ur rec feat : Bool) (e : Entry) (s : TState) :
    insideConvertedCall ur rec feat (push e s) ≠ none := by
  simp only [insideConvertedCall, push, List.head?_cons]
  split <;> simp

theorem convertW_around (ur rec feat : Bool) (c : Option CtxRef) (b : MComp) (hb : MBal b) (hrf : Refuses b) (s : TState) :
    Around (convertW ur rec feat c b) b (insideConvert ur rec feat c s) s := by
  cases c with
  | none => exact convertedCall_around ur rec feat b hb hrf s
  | some r =>
    cases hr : r.get s.stack with
    | none =>
      have hi : insideConvert ur rec feat (some r) s = none := by simp [insideConvert, hr]
      rw [hi]; exact around_none (by simp [convertW, hr])
    | some e =>
      have hi : insideConvert ur rec feat (some r) s = insideConvertedCall ur rec feat (push e s) := by simp [insideConvert, hr]
      have hw : convertW ur rec feat (some r) b s = withEntry e (convertedCall ur rec feat b) s := by simp [convertW, hr]
      have := convertedCall_around ur rec feat b hb hrf (push e s)
      rw [hi]
      unfold Around at this ⊢
      rw [hw, withEntry_eq e _ (convertedCall_bal ur rec feat b hb hrf)]
      split at this
      · rename_i heq
        exact absurd heq (insideConvertedCall_push_ne_none ur rec feat e s)
      · rw [this]

theorem wrap_around (k : Kind) (m : Mode) (b : MComp) (hb : MBal b) (hrf : Refuses b) (s : TState) :
    Around (wrap k m b) b (inside k m s) s := by
  cases k with
  | plain => exact plainCall_around m b hb s
  | doNotConvert => exact around_some (withFresh_eq _ _ (hb _) s)
  | unspecified => exact around_some (withFresh_eq _ _ (hb _) s)
  | withCtx st src =>
    cases src
    · exact around_some (withFresh_eq _ _ (hb _) s)
    · -- the block is a plain user function called in mode `m`
      have hblock : ∀ m', withFresh st (plainCall m' b) s
          = ⟨⟨s.stack, (plainCall m' b (pushFresh st s)).st.next⟩, (plainCall m' b (pushFresh st s)).out,
             (plainCall m' b (pushFresh st s)).log⟩ := fun m' => withFresh_eq st _ (plainCall_bal m' b hb) s
      have hinner : ∀ m', ∃ m'', insidePlainCall m' (pushFresh st s) = some (pushFresh st s, m'') := by
        intro m'
        cases m' with
        | native => exact ⟨_, rfl⟩
        | refused => exact ⟨_, rfl⟩
        | converted rec => exact ⟨calleeMode rec ⟨.fresh s.next, st⟩, by simp [insidePlainCall, pushFresh, push]⟩
      have hcomb : ∀ m', Around (withFresh st (plainCall m' b)) b (insidePlainCall m' (pushFresh st s)) s := by
        intro m'
        obtain ⟨m'', hm''⟩ := hinner m'
        have h2 := plainCall_around m' b hb (pushFresh st s)
        rw [hm''] at h2 ⊢
        unfold Around at h2 ⊢
        rw [hblock m', h2]
      cases m with
      | native => exact hcomb .native
      | refused => exact hcomb .native
      | converted rec =>
        cases hh : s.stack.head? with
        | none =>
          have hi : inside (.withCtx st true) (.converted rec) s = none := by simp [inside, insidePlainCall, hh]
          rw [hi]; exact around_none (by simp [wrap, plainCall, hh])
        | some e =>
          have hi : inside (.withCtx st true) (.converted rec) s
              = insidePlainCall (calleeMode rec e) (pushFresh st s) := by simp [inside, insidePlainCall, hh]
          have hw : wrap (.withCtx st true) (.converted rec) b s = withFresh st (plainCall (calleeMode rec e) b) s := by
            simp [wrap, plainCall, hh]
          have := hcomb (calleeMode rec e)
          unfold Around at this ⊢
          rw [hi, hw]; exact this
  | functionScope ur feat => exact fsWith_around ur feat .native b hb hrf s
  | toGraph rec lam feat => exact fsWith_around true feat _ b hb hrf s
  | convert ur rec feat c => exact convertW_around ur rec feat c b hb hrf s
  | internalConvert r cbd ur =>
    cases hr : r.get s.stack with
    | none =>
      have hi : inside (.internalConvert r cbd ur) m s = none := by simp [inside, hr]
      rw [hi]; exact around_none (by simp [wrap, hr])
    | some e =>
      cases hs : e.status with
      | enabled =>
        have hw : wrap (.internalConvert r cbd ur) m b s = convertW ur true false (some (.obj e)) b s := by simp [wrap, hr, hs]
        have hi : inside (.internalConvert r cbd ur) m s = insideConvert ur true false (some (.obj e)) s := by simp [inside, hr, hs]
        have := convertW_around ur true false (some (.obj e)) b hb hrf s
        unfold Around at this ⊢
        rw [hi, hw]; exact this
      | disabled =>
        have hw : wrap (.internalConvert r cbd ur) m b s = withFresh .disabled (b .native) s := by simp [wrap, hr, hs]
        have hi : inside (.internalConvert r cbd ur) m s = some (pushFresh .disabled s, .native) := by simp [inside, hr, hs]
        rw [hi]; exact around_some (hw ▸ withFresh_eq _ _ (hb _) s)
      | unspecified =>
        cases cbd
        · have hw : wrap (.internalConvert r false ur) m b s = withFresh .unspecified (b .native) s := by simp [wrap, hr, hs]
          have hi : inside (.internalConvert r false ur) m s = some (pushFresh .unspecified s, .native) := by simp [inside, hr, hs]
          rw [hi]; exact around_some (hw ▸ withFresh_eq _ _ (hb _) s)
        · have hw : wrap (.internalConvert r true ur) m b s = convertW ur true false (some (.obj e)) b s := by simp [wrap, hr, hs]
          have hi : inside (.internalConvert r true ur) m s = insideConvert ur true false (some (.obj e)) s := by simp [inside, hr, hs]
          have := convertW_around ur true false (some (.obj e)) b hb hrf s
          unfold Around at this ⊢
          rw [hi, hw]; exact this

theorem wrap_bal (k : Kind) (m : Mode) (b : MComp) (hb : MBal b) (hrf : Refuses b) : Bal (wrap k m b) :=
  fun s => around_bal (wrap_around k m b hb hrf s)

theorem bodyC_refused (p : Path) (ca : Bool) (b : Comp) (s : TState) : bodyC p ca .refused b s = ⟨s, some .rejected, []⟩ := by
  simp [bodyC]

theorem bodyC_of_ne (p : Path) (ca : Bool) (m : Mode) (b : Comp) (s : TState) (hm : m ≠ .refused) :
    bodyC p ca m b s = bodyCore p ca m b s := by
  simp [bodyC, hm]

theorem bodyCore_bal (p : Path) (ca : Bool) (m : Mode) (b : Comp) (hb : Bal b) : Bal (bodyCore p ca m b) := by
  intro s
  have := hb s
  simp only [bodyCore]
  split
  · exact this
  · split <;> exact this
  · split <;> exact this
  · exact this

theorem bodyC_bal (p : Path) (ca : Bool) (m : Mode) (b : Comp) (hb : Bal b) : Bal (bodyC p ca m b) := by
  intro s
  by_cases hm : m = .refused
  · subst hm; rw [bodyC_refused]
  · rw [bodyC_of_ne _ _ _ _ _ hm]; exact bodyCore_bal p ca m b hb s

/-- The body of node `k cs ra ca` at `p`, as a computation depending on its mode. -/
abbrev bodyOf (cs : List Tree) (ra : Option Nat) (ca : Bool) (p : Path) : MComp :=
  fun m => bodyC p ca m (runKids cs p 0 ra m)

mutual
theorem runNode_bal : ∀ (t : Tree) (p : Path) (m : Mode), Bal (runNode t p m)
  | .node k cs ra ca, p, m => by
    simp only [runNode]
    exact wrap_bal k m _ (fun m' => bodyC_bal p ca m' _ (runKids_bal cs p 0 ra m')) (fun s => bodyC_refused p ca _ s)
theorem runKids_bal : ∀ (cs : List Tree) (p : Path) (i : Nat) (ra : Option Nat) (m : Mode), Bal (runKids cs p i ra m)
  | [], p, i, ra, m => by
    intro s; simp only [runKids]; split <;> rfl
  | c :: cs, p, i, ra, m => by
    intro s
    simp only [runKids]
    split
    · rfl
    · have h1 := runNode_bal c (i :: p) m s
      split
      · have h2 := runKids_bal cs p (i + 1) ra m (runNode c (i :: p) m s).st
        simp only [h2, h1]
      · exact h1
end

theorem bodyOf_bal (cs : List Tree) (ra : Option Nat) (ca : Bool) (p : Path) : MBal (bodyOf cs ra ca p) :=
  fun m => bodyC_bal p ca m _ (runKids_bal cs p 0 ra m)

/-- `runNode` in one equation: the wrapper reaches `inside k m s`, the body runs there, the list is restored. -/
theorem bodyOf_refuses (cs : List Tree) (ra : Option Nat) (ca : Bool) (p : Path) : Refuses (bodyOf cs ra ca p) :=
  fun s => bodyC_refused p ca _ s

theorem runNode_around (k : Kind) (cs : List Tree) (ra : Option Nat) (ca : Bool) (p : Path) (m : Mode) (s : TState) :
    Around (runNode (.node k cs ra ca) p m) (bodyOf cs ra ca p) (inside k m s) s := by
  have := wrap_around k m (bodyOf cs ra ca p) (bodyOf_bal cs ra ca p) (bodyOf_refuses cs ra ca p) s
  simpa [runNode, bodyOf] using this


/-! ## Part 2 — observations -/

theorem around_log {w : Comp} {b : MComp} {ins : Option (TState × Mode)} {s : TState} (h : Around w b ins s) :
    ∀ o ∈ (w s).log, ∃ s' m', ins = some (s', m') ∧ o ∈ (b m' s').log := by
  unfold Around at h
  split at h
  · simp [h]
  · rename_i s' m'; intro o ho; rw [h] at ho; exact ⟨s', m', rfl, ho⟩

/-- Every observation logged under the node at `p` is owned by `p` or a descendant of it. -/
def OwnedBy (p : Path) (b : Comp) : Prop := ∀ s, ∀ o ∈ (b s).log, p <:+ o.owner

theorem bodyC_owned (p : Path) (ca : Bool) (m : Mode) (b : Comp) (hb : OwnedBy p b) : OwnedBy p (bodyC p ca m b) := by
  intro s o ho
  have hb := hb s
  by_cases hm : m = .refused
  · subst hm; rw [bodyC_refused] at ho; simp at ho
  rw [bodyC_of_ne _ _ _ _ _ hm] at ho
  simp only [bodyCore] at ho
  have own : ∀ pt st, p <:+ (obsAt p pt m st).owner := fun _ _ => List.suffix_refl _
  split at ho
  · simp only [List.mem_cons, List.mem_append, List.not_mem_nil, or_false] at ho
    rcases ho with rfl | ho | rfl
    · exact own _ _
    · exact hb o ho
    · exact own _ _
  · split at ho
    · simp only [List.mem_cons, List.mem_append, List.not_mem_nil, or_false] at ho
      rcases ho with rfl | ho | rfl | rfl
      · exact own _ _
      · exact hb o ho
      · exact own _ _
      · exact own _ _
    · simp only [List.mem_cons] at ho
      rcases ho with rfl | ho
      · exact own _ _
      · exact hb o ho
  · split at ho
    · simp only [List.mem_cons, List.mem_append, List.not_mem_nil, or_false] at ho
      rcases ho with rfl | ho | rfl | rfl
      · exact own _ _
      · exact hb o ho
      · exact own _ _
      · exact own _ _
    · simp only [List.mem_cons] at ho
      rcases ho with rfl | ho
      · exact own _ _
      · exact hb o ho
  · simp only [List.mem_cons] at ho
    rcases ho with rfl | ho
    · exact own _ _
    · exact hb o ho

mutual
theorem runNode_owned : ∀ (t : Tree) (p : Path) (m : Mode), OwnedBy p (runNode t p m)
  | .node k cs ra ca, p, m => by
    intro s o ho
    obtain ⟨s', m', _, ho'⟩ := around_log (runNode_around k cs ra ca p m s) o ho
    exact bodyC_owned p ca m' _ (runKids_owned cs p 0 ra m') s' o ho'
theorem runKids_owned : ∀ (cs : List Tree) (p : Path) (i : Nat) (ra : Option Nat) (m : Mode), OwnedBy p (runKids cs p i ra m)
  | [], p, i, ra, m => by
    intro s o ho; simp only [runKids] at ho; split at ho <;> simp at ho
  | c :: cs, p, i, ra, m => by
    intro s o ho
    simp only [runKids] at ho
    split at ho
    · simp at ho
    · have h1 := runNode_owned c (i :: p) m s
      have hsuf : ∀ o : Obs, (i :: p) <:+ o.owner → p <:+ o.owner :=
        fun o h => List.IsSuffix.trans (List.suffix_cons i p) h
      split at ho
      · have h2 := runKids_owned cs p (i + 1) ra m (runNode c (i :: p) m s).st
        simp only [List.mem_cons, List.mem_append] at ho
        rcases ho with rfl | ho | rfl | ho
        · exact List.suffix_refl _
        · exact hsuf o (h1 o ho)
        · exact List.suffix_refl _
        · exact h2 o ho
      · simp only [List.mem_cons] at ho
        rcases ho with rfl | ho
        · exact List.suffix_refl _
        · exact hsuf o (h1 o ho)
end

theorem not_owner_of_child {i : Nat} {p q : Path} (h : (i :: p) <:+ q) : q ≠ p := by
  intro e
  subst e
  have := h.length_le
  simp at this
  omega

/-- A body-level observation (owner = this node) reports the top of the list the computation started with. -/
def SeesTop (p : Path) (m : Mode) (b : Comp) : Prop :=
  ∀ s, ∀ o ∈ (b s).log, o.owner = p → o.top = s.stack.head? ∧ o.conv = m.isConverted

theorem runKids_sees : ∀ (cs : List Tree) (p : Path) (i : Nat) (ra : Option Nat) (m : Mode), SeesTop p m (runKids cs p i ra m)
  | [], p, i, ra, m => by
    intro s o ho; simp only [runKids] at ho; split at ho <;> simp at ho
  | c :: cs, p, i, ra, m => by
    intro s o ho hp
    simp only [runKids] at ho
    split at ho
    · simp at ho
    · have h1 := runNode_owned c (i :: p) m s
      have hb1 := runNode_bal c (i :: p) m s
      split at ho
      · have h2 := runKids_sees cs p (i + 1) ra m (runNode c (i :: p) m s).st
        simp only [List.mem_cons, List.mem_append] at ho
        rcases ho with rfl | ho | rfl | ho
        · exact ⟨rfl, rfl⟩
        · exact absurd hp (not_owner_of_child (h1 o ho))
        · exact ⟨by simp [obsAt, hb1], rfl⟩
        · have := h2 o ho hp
          exact ⟨by rw [this.1, hb1], this.2⟩
      · simp only [List.mem_cons] at ho
        rcases ho with rfl | ho
        · exact ⟨rfl, rfl⟩
        · exact absurd hp (not_owner_of_child (h1 o ho))

theorem bodyOf_sees (cs : List Tree) (ra : Option Nat) (ca : Bool) (p : Path) (m : Mode) : SeesTop p m (bodyOf cs ra ca p m) := by
  intro s o ho hp
  have hk := runKids_sees cs p 0 ra m s
  have hb := runKids_bal cs p 0 ra m s
  by_cases hm : m = .refused
  · subst hm; simp only [bodyOf] at ho; rw [bodyC_refused] at ho; simp at ho
  simp only [bodyOf] at ho
  rw [bodyC_of_ne _ _ _ _ _ hm] at ho
  simp only [bodyCore] at ho
  have late : ∀ pt, (obsAt p pt m (runKids cs p 0 ra m s).st).top = s.stack.head? ∧
      (obsAt p pt m (runKids cs p 0 ra m s).st).conv = m.isConverted := fun _ => ⟨by simp [obsAt, hb], rfl⟩
  split at ho
  · simp only [List.mem_cons, List.mem_append, List.not_mem_nil, or_false] at ho
    rcases ho with rfl | ho | rfl
    · exact ⟨rfl, rfl⟩
    · exact hk o ho hp
    · exact late _
  · split at ho
    · simp only [List.mem_cons, List.mem_append, List.not_mem_nil, or_false] at ho
      rcases ho with rfl | ho | rfl | rfl
      · exact ⟨rfl, rfl⟩
      · exact hk o ho hp
      · exact late _
      · exact late _
    · simp only [List.mem_cons] at ho
      rcases ho with rfl | ho
      · exact ⟨rfl, rfl⟩
      · exact hk o ho hp
  · split at ho
    · simp only [List.mem_cons, List.mem_append, List.not_mem_nil, or_false] at ho
      rcases ho with rfl | ho | rfl | rfl
      · exact ⟨rfl, rfl⟩
      · exact hk o ho hp
      · exact late _
      · exact late _
    · simp only [List.mem_cons] at ho
      rcases ho with rfl | ho
      · exact ⟨rfl, rfl⟩
      · exact hk o ho hp
  · simp only [List.mem_cons] at ho
    rcases ho with rfl | ho
    · exact ⟨rfl, rfl⟩
    · exact hk o ho hp

theorem insidePlainCall_some (m : Mode) (s : TState) (h : s.stack ≠ []) :
    ∃ m', insidePlainCall m s = some (s, m') := by
  cases m with
  | native => exact ⟨_, rfl⟩
  | refused => exact ⟨_, rfl⟩
  | converted rec =>
    cases hs : s.stack with
    | nil => exact absurd hs h
    | cons e rest => exact ⟨calleeMode rec e, by simp [insidePlainCall, hs]⟩

theorem insideScope_ne_nil (ur feat : Bool) (mOk : Mode) (s : TState) (h : s.stack ≠ []) :
    (insideScope ur feat mOk s).1.stack ≠ [] := by
  cases feat <;> cases ur <;> simp [insideScope, pushFresh, push, h]

theorem insideConvertedCall_some (ur rec feat : Bool) (s : TState) (h : s.stack ≠ []) :
    ∃ s' m', insideConvertedCall ur rec feat s = some (s', m') ∧ s'.stack ≠ [] := by
  unfold insideConvertedCall
  cases hs : s.stack with
  | nil => exact absurd hs h
  | cons e rest =>
    simp only [List.head?_cons]
    split
    · exact ⟨s, _, rfl, h⟩
    · exact ⟨_, _, rfl, insideScope_ne_nil ur feat _ s h⟩

theorem get_some_of_ne_nil (r : CtxRef) (s : TState) (h : s.stack ≠ []) : ∃ e, r.get s.stack = some e := by
  cases r with
  | obj e => exact ⟨e, rfl⟩
  | current =>
    cases hs : s.stack with
    | nil => exact absurd hs h
    | cons e rest => exact ⟨e, rfl⟩

theorem insideConvert_some (ur rec feat : Bool) (c : Option CtxRef) (s : TState) (h : s.stack ≠ []) :
    ∃ s' m', insideConvert ur rec feat c s = some (s', m') ∧ s'.stack ≠ [] := by
  cases c with
  | none => exact insideConvertedCall_some ur rec feat s h
  | some r =>
    obtain ⟨e, hr⟩ := get_some_of_ne_nil r s h
    have hi : insideConvert ur rec feat (some r) s = insideConvertedCall ur rec feat (push e s) := by simp [insideConvert, hr]
    rw [hi]; exact insideConvertedCall_some ur rec feat (push e s) (by simp [push])

/-- On a non-empty context list every wrapper reaches its body (on a non-empty list). -/
theorem inside_some (k : Kind) (m : Mode) (s : TState) (h : s.stack ≠ []) :
    ∃ s' m', inside k m s = some (s', m') ∧ s'.stack ≠ [] := by
  cases k with
  | plain =>
    obtain ⟨m', hm⟩ := insidePlainCall_some m s h
    exact ⟨s, m', hm, h⟩
  | doNotConvert => exact ⟨_, _, rfl, by simp [pushFresh, push]⟩
  | unspecified => exact ⟨_, _, rfl, by simp [pushFresh, push]⟩
  | withCtx st src =>
    cases src
    · exact ⟨_, _, rfl, by simp [pushFresh, push]⟩
    · obtain ⟨m', hm⟩ := insidePlainCall_some m s h
      obtain ⟨m'', hm'⟩ := insidePlainCall_some m' (pushFresh st s) (by simp [pushFresh, push])
      exact ⟨pushFresh st s, m'', by simp [inside, hm, hm'], by simp [pushFresh, push]⟩
  | functionScope ur feat => exact ⟨_, _, rfl, insideScope_ne_nil ur feat _ s h⟩
  | toGraph rec lam feat => exact ⟨_, _, rfl, insideScope_ne_nil true feat _ s h⟩
  | convert ur rec feat c => exact insideConvert_some ur rec feat c s h
  | internalConvert r cbd ur =>
    obtain ⟨e, hr⟩ := get_some_of_ne_nil r s h
    cases hs : e.status with
    | enabled =>
      have hi : inside (.internalConvert r cbd ur) m s = insideConvert ur true false (some (.obj e)) s := by simp [inside, hr, hs]
      rw [hi]; exact insideConvert_some _ _ _ _ s h
    | disabled =>
      have hi : inside (.internalConvert r cbd ur) m s = some (pushFresh .disabled s, .native) := by simp [inside, hr, hs]
      rw [hi]; exact ⟨_, _, rfl, by simp [pushFresh, push]⟩
    | unspecified =>
      cases cbd
      · have hi : inside (.internalConvert r false ur) m s = some (pushFresh .unspecified s, .native) := by simp [inside, hr, hs]
        rw [hi]; exact ⟨_, _, rfl, by simp [pushFresh, push]⟩
      · have hi : inside (.internalConvert r true ur) m s = insideConvert ur true false (some (.obj e)) s := by simp [inside, hr, hs]
        rw [hi]; exact insideConvert_some _ _ _ _ s h

/-- An exception the user code asked for: the harness' own, or the function scope refusing the options. -/
def Exn.isUser : Exn → Prop
  | .boom _ => True
  | .rejected => True
  | _ => False

/-- On a non-empty list, only such exceptions can come out. -/
def Safe (b : Comp) : Prop := ∀ s, s.stack ≠ [] → ∀ e, (b s).out = some e → e.isUser

theorem bodyC_safe (p : Path) (ca : Bool) (m : Mode) (b : Comp) (hb : Safe b) : Safe (bodyC p ca m b) := by
  intro s hs e he
  have hb := hb s hs
  by_cases hm : m = .refused
  · subst hm; rw [bodyC_refused] at he; simp only [Option.some.injEq] at he; subst he; trivial
  rw [bodyC_of_ne _ _ _ _ _ hm] at he
  simp only [bodyCore] at he
  split at he
  · simp at he
  · split at he
    · simp at he
    · simp only [Option.some.injEq] at he; subst he; trivial
  · split at he
    · simp at he
    · simp only [Option.some.injEq] at he; subst he; trivial
  · rename_i x e' hne1 hne2 hout
    simp only [Option.some.injEq] at he
    subst he
    exact hb e' hout

mutual
theorem runNode_safe : ∀ (t : Tree) (p : Path) (m : Mode), Safe (runNode t p m)
  | .node k cs ra ca, p, m => by
    intro s hs e he
    obtain ⟨s', m', hi, hs'⟩ := inside_some k m s hs
    have := runNode_around k cs ra ca p m s
    rw [hi] at this
    unfold Around at this
    rw [this] at he
    exact bodyC_safe p ca m' _ (runKids_safe cs p 0 ra m') s' hs' e he
theorem runKids_safe : ∀ (cs : List Tree) (p : Path) (i : Nat) (ra : Option Nat) (m : Mode), Safe (runKids cs p i ra m)
  | [], p, i, ra, m => by
    intro s _ e he
    simp only [runKids] at he
    split at he
    · simp only [Option.some.injEq] at he; subst he; trivial
    · simp at he
  | c :: cs, p, i, ra, m => by
    intro s hs e he
    simp only [runKids] at he
    split at he
    · simp only [Option.some.injEq] at he; subst he; trivial
    · have h1 := runNode_safe c (i :: p) m s hs
      have hb1 := runNode_bal c (i :: p) m s
      split at he
      · exact runKids_safe cs p (i + 1) ra m (runNode c (i :: p) m s).st (by rw [hb1]; exact hs) e he
      · rename_i e' hout
        simp only [Option.some.injEq] at he
        subst he
        exact h1 e' hout
end



/-! ## Part 3 — the machine computes the big-step semantics -/

theorem iter_add (a b : Nat) (c : Cfg) : iter (a + b) c = iter b (iter a c) := by
  induction a generalizing c with
  | zero => simp [iter]
  | succ a ih => rw [Nat.succ_add]; simp only [iter]; exact ih (step c)

theorem iter_succ' (n : Nat) (c : Cfg) : iter (n + 1) c = step (iter n c) := by
  rw [iter_add]; rfl

/-- `c'` is reached from `c` after some number of steps. -/
def Reach (c c' : Cfg) : Prop := ∃ n, iter n c = c'

theorem Reach.refl (c : Cfg) : Reach c c := ⟨0, rfl⟩
theorem Reach.trans {a b c : Cfg} (h1 : Reach a b) (h2 : Reach b c) : Reach a c := by
  obtain ⟨n, h1⟩ := h1; obtain ⟨m, h2⟩ := h2
  exact ⟨n + m, by rw [iter_add, h1, h2]⟩
theorem Reach.head {a b c : Cfg} (h1 : step a = b) (h2 : Reach b c) : Reach a c := by
  obtain ⟨m, h2⟩ := h2
  exact ⟨m + 1, by simp only [iter, h1, h2]⟩
theorem Reach.one {a b : Cfg} (h : step a = b) : Reach a b := Reach.head h (Reach.refl b)

/-- The frames `F` make the machine do what `b` does, whatever follows. -/
def Sim (F : List Frame) (b : Comp) : Prop :=
  ∀ K s L, Reach ⟨F ++ K, none, s, L⟩ ⟨K, (b s).out, (b s).st, L ++ (b s).log⟩

theorem step_exit (id : CtxId) (K : List Frame) (m : Option Exn) (s : TState) (L : List Obs) :
    step ⟨.exit id :: K, m, s, L⟩ = ⟨K, (exitCtx id m s).2, (exitCtx id m s).1, L⟩ := by
  cases m <;> rfl

theorem sim_withEntry (e : Entry) (F : List Frame) (b : Comp) (hb : Sim F b) (K : List Frame) (s : TState) (L : List Obs) :
    Reach ⟨F ++ .exit e.id :: K, none, push e s, L⟩
      ⟨K, (withEntry e b s).out, (withEntry e b s).st, L ++ (withEntry e b s).log⟩ :=
  Reach.trans (hb (.exit e.id :: K) (push e s) L) (Reach.one (step_exit _ _ _ _ _))

theorem sim_freshFrames (st : Status) (F : List Frame) (b : Comp) (hb : Sim F b) (K : List Frame) (s : TState) (L : List Obs) :
    Reach (freshFrames st F K s L) ⟨K, (withFresh st b s).out, (withFresh st b s).st, L ++ (withFresh st b s).log⟩ :=
  sim_withEntry ⟨.fresh s.next, st⟩ F b hb K { s with next := s.next + 1 } L

/-- Skipping frames while an exception propagates. -/
theorem step_skip_post (p : Path) (i : Nat) (m : Mode) (K : List Frame) (e : Exn) (s : TState) (L : List Obs) :
    step ⟨.post p i m :: K, some e, s, L⟩ = ⟨K, some e, s, L⟩ := rfl
theorem step_skip_kids (cs : List Tree) (p : Path) (i : Nat) (ra : Option Nat) (m : Mode) (K : List Frame) (e : Exn) (s : TState) (L : List Obs) :
    step ⟨.kids cs p i ra m :: K, some e, s, L⟩ = ⟨K, some e, s, L⟩ := rfl
theorem step_skip_out (p : Path) (m : Mode) (K : List Frame) (e : Exn) (s : TState) (L : List Obs) :
    step ⟨.out p m :: K, some e, s, L⟩ = ⟨K, some e, s, L⟩ := rfl

/-- The body frames simulate `bodyC`, given the try-block does. -/
theorem sim_body (cs : List Tree) (ra : Option Nat) (ca : Bool) (p : Path) (m : Mode)
    (hk : Sim [.kids cs p 0 ra m] (runKids cs p 0 ra m)) :
    Sim (bodyFrames cs ra ca p m) (bodyOf cs ra ca p m) := by
  intro K s L
  by_cases hm : m = .refused
  · subst hm
    refine Reach.one ?_
    simp [bodyFrames, bodyOf, bodyC, step, stepOk]
  have hF : bodyFrames cs ra ca p m = [.inn p m, .kids cs p 0 ra m, .handler p ca m, .out p m] := by simp [bodyFrames, hm]
  rw [hF]
  -- in
  refine Reach.head (b := ⟨.kids cs p 0 ra m :: .handler p ca m :: .out p m :: K, none, s, L ++ [obsAt p .inn m s]⟩) rfl ?_
  -- try-block
  refine Reach.trans (hk (.handler p ca m :: .out p m :: K) s (L ++ [obsAt p .inn m s])) ?_
  simp only [bodyOf]
  rw [bodyC_of_ne _ _ _ _ _ hm]
  simp only [bodyCore]
  cases ho : (runKids cs p 0 ra m s).out with
  | none =>
    refine Reach.head (b := ⟨.out p m :: K, none, (runKids cs p 0 ra m s).st, _⟩) rfl ?_
    refine Reach.head (b := ⟨K, none, (runKids cs p 0 ra m s).st, _⟩) rfl ?_
    simp only [List.append_assoc, List.cons_append, List.nil_append]
    exact Reach.refl _
  | some e =>
    cases e with
    | boom q =>
      cases ca
      · refine Reach.head (b := ⟨.out p m :: K, some (.boom q), (runKids cs p 0 ra m s).st, _⟩) rfl ?_
        refine Reach.head (b := ⟨K, some (.boom q), (runKids cs p 0 ra m s).st, _⟩) rfl ?_
        simp only [List.append_assoc, List.cons_append, List.nil_append]
        exact Reach.refl _
      · refine Reach.head (b := ⟨.out p m :: K, none, (runKids cs p 0 ra m s).st, _⟩) rfl ?_
        refine Reach.head (b := ⟨K, none, (runKids cs p 0 ra m s).st, _⟩) rfl ?_
        simp only [List.append_assoc, List.cons_append, List.nil_append]
        exact Reach.refl _
    | rejected =>
      cases ca
      · refine Reach.head (b := ⟨.out p m :: K, some .rejected, (runKids cs p 0 ra m s).st, _⟩) rfl ?_
        refine Reach.head (b := ⟨K, some .rejected, (runKids cs p 0 ra m s).st, _⟩) rfl ?_
        simp only [List.append_assoc, List.cons_append, List.nil_append]
        exact Reach.refl _
      · refine Reach.head (b := ⟨.out p m :: K, none, (runKids cs p 0 ra m s).st, _⟩) rfl ?_
        refine Reach.head (b := ⟨K, none, (runKids cs p 0 ra m s).st, _⟩) rfl ?_
        simp only [List.append_assoc, List.cons_append, List.nil_append]
        exact Reach.refl _
    | assertion =>
      refine Reach.head (b := ⟨.out p m :: K, some .assertion, (runKids cs p 0 ra m s).st, _⟩) rfl ?_
      refine Reach.head (b := ⟨K, some .assertion, (runKids cs p 0 ra m s).st, _⟩) rfl ?_
      simp only [List.append_assoc, List.cons_append, List.nil_append]
      exact Reach.refl _
    | index =>
      refine Reach.head (b := ⟨.out p m :: K, some .index, (runKids cs p 0 ra m s).st, _⟩) rfl ?_
      refine Reach.head (b := ⟨K, some .index, (runKids cs p 0 ra m s).st, _⟩) rfl ?_
      simp only [List.append_assoc, List.cons_append, List.nil_append]
      exact Reach.refl _

/-- All body frames simulate the body, in every mode. -/
def BodySim (cs : List Tree) (ra : Option Nat) (ca : Bool) (p : Path) : Prop :=
  ∀ m, Sim (bodyFrames cs ra ca p m) (bodyOf cs ra ca p m)

/-- With the code under test, the machine's scope entry is: refuse, or the conditional push. -/
theorem scopeFrames_eq (ur feat : Bool) (mOk : Mode) (cs : List Tree) (ra : Option Nat) (ca : Bool) (p : Path)
    (K : List Frame) (s : TState) (L : List Obs) :
    scopeFrames ur feat mOk cs ra ca p K s L =
      if feat then ⟨K, some .rejected, s, L⟩
      else if ur then freshFrames .enabled (bodyFrames cs ra ca p mOk) K s L
      else ⟨bodyFrames cs ra ca p mOk ++ K, none, s, L⟩ := by
  cases feat <;> cases ur <;> simp [scopeFrames, Gen.fsInitSteps, Gen.fsEnterSteps, runEnter, freshFrames, push]

theorem sim_scope (ur feat : Bool) (mOk : Mode) (cs : List Tree) (ra : Option Nat) (ca : Bool) (p : Path)
    (hb : BodySim cs ra ca p) (K : List Frame) (s : TState) (L : List Obs) :
    Reach (scopeFrames ur feat mOk cs ra ca p K s L)
      ⟨K, (fsWith ur feat (bodyOf cs ra ca p mOk) s).out, (fsWith ur feat (bodyOf cs ra ca p mOk) s).st,
       L ++ (fsWith ur feat (bodyOf cs ra ca p mOk) s).log⟩ := by
  rw [scopeFrames_eq, fsWith_eq]
  cases feat
  · cases ur
    · simpa [functionScope] using hb mOk K s L
    · simpa [functionScope] using sim_freshFrames .enabled _ _ (hb mOk) K s L
  · simp; exact Reach.refl _

/-- The `cc` frame simulates `convertedCall`. -/
theorem sim_cc (ur rec feat : Bool) (cs : List Tree) (ra : Option Nat) (ca : Bool) (p : Path)
    (hb : BodySim cs ra ca p) :
    Sim [.cc ur rec feat cs ra ca p] (convertedCall ur rec feat (bodyOf cs ra ca p)) := by
  intro K s L
  cases hh : s.stack.head? with
  | none =>
    refine Reach.head (b := ⟨K, some .index, s, L⟩) (by simp [step, stepOk, hh]) ?_
    simp [convertedCall, hh]; exact Reach.refl _
  | some e =>
    by_cases hd : e.status = .disabled
    · refine Reach.head (b := ⟨bodyFrames cs ra ca p .native ++ K, none, s, L⟩) (by simp [step, stepOk, hh, hd]) ?_
      have : convertedCall ur rec feat (bodyOf cs ra ca p) s = bodyOf cs ra ca p .native s := by simp [convertedCall, hh, hd]
      rw [this]; exact hb .native K s L
    · refine Reach.head (b := scopeFrames ur feat (.converted rec) cs ra ca p K s L) (by simp [step, stepOk, hh, hd]) ?_
      have : convertedCall ur rec feat (bodyOf cs ra ca p) s = fsWith ur feat (bodyOf cs ra ca p (.converted rec)) s := by
        simp [convertedCall, hh, hd]
      rw [this]; exact sim_scope ur feat _ cs ra ca p hb K s L

/-- The `pc` frame simulates `plainCall`. -/
theorem sim_pc (m : Mode) (cs : List Tree) (ra : Option Nat) (ca : Bool) (p : Path)
    (hb : BodySim cs ra ca p) :
    Sim [.pc m cs ra ca p] (plainCall m (bodyOf cs ra ca p)) := by
  intro K s L
  cases m with
  | native =>
    refine Reach.head (b := ⟨bodyFrames cs ra ca p .native ++ K, none, s, L⟩) (by simp [step, stepOk, insidePlainCall]) ?_
    exact hb .native K s L
  | refused =>
    refine Reach.head (b := ⟨bodyFrames cs ra ca p .native ++ K, none, s, L⟩) (by simp [step, stepOk, insidePlainCall]) ?_
    exact hb .native K s L
  | converted rec =>
    cases hh : s.stack.head? with
    | none =>
      refine Reach.head (b := ⟨K, some .index, s, L⟩) (by simp [step, stepOk, insidePlainCall, hh]) ?_
      simp [plainCall, hh]; exact Reach.refl _
    | some e =>
      refine Reach.head (b := ⟨bodyFrames cs ra ca p (calleeMode rec e) ++ K, none, s, L⟩)
        (by simp [step, stepOk, insidePlainCall, hh]) ?_
      have : plainCall (.converted rec) (bodyOf cs ra ca p) s = bodyOf cs ra ca p (calleeMode rec e) s := by
        simp [plainCall, hh]
      rw [this]; exact hb _ K s L

theorem step_call (k : Kind) (m : Mode) (cs : List Tree) (ra : Option Nat) (ca : Bool) (p : Path) (K : List Frame) (s : TState) (L : List Obs) :
    step ⟨.call (.node k cs ra ca) p m :: K, none, s, L⟩ = callStep k m cs ra ca p K s L := rfl

theorem sim_convertW (ur rec feat : Bool) (c : Option CtxRef) (cs : List Tree) (ra : Option Nat) (ca : Bool) (p : Path)
    (hb : BodySim cs ra ca p) (K : List Frame) (s : TState) (L : List Obs) :
    Reach (convertFrames ur rec feat c cs ra ca p K s L)
      ⟨K, (convertW ur rec feat c (bodyOf cs ra ca p) s).out, (convertW ur rec feat c (bodyOf cs ra ca p) s).st,
       L ++ (convertW ur rec feat c (bodyOf cs ra ca p) s).log⟩ := by
  cases c with
  | none => exact sim_cc ur rec feat cs ra ca p hb K s L
  | some r =>
    cases hr : r.get s.stack with
    | none =>
      have h1 : convertFrames ur rec feat (some r) cs ra ca p K s L = ⟨K, some .index, s, L⟩ := by simp [convertFrames, hr]
      have h2 : convertW ur rec feat (some r) (bodyOf cs ra ca p) s = ⟨s, some .index, []⟩ := by simp [convertW, hr]
      rw [h1, h2]; simp; exact Reach.refl _
    | some e =>
      have h1 : convertFrames ur rec feat (some r) cs ra ca p K s L = ⟨[.cc ur rec feat cs ra ca p] ++ .exit e.id :: K, none, push e s, L⟩ := by
        simp [convertFrames, hr]
      have h2 : convertW ur rec feat (some r) (bodyOf cs ra ca p) s = withEntry e (convertedCall ur rec feat (bodyOf cs ra ca p)) s := by
        simp [convertW, hr]
      rw [h1, h2]
      exact sim_withEntry e _ _ (sim_cc ur rec feat cs ra ca p hb) K s L

/-- Calling a node that is not an `internalConvert`. -/
theorem sim_call_basic (k : Kind) (m : Mode) (cs : List Tree) (ra : Option Nat) (ca : Bool) (p : Path)
    (hb : BodySim cs ra ca p)
    (hk : ∀ r cbd ur, k ≠ .internalConvert r cbd ur) :
    Sim [.call (.node k cs ra ca) p m] (wrap k m (bodyOf cs ra ca p)) := by
  intro K s L
  refine Reach.head (step_call k m cs ra ca p K s L) ?_
  cases k with
  | plain => exact sim_pc m cs ra ca p hb K s L
  | doNotConvert => exact sim_freshFrames _ _ _ (hb _) K s L
  | unspecified => exact sim_freshFrames _ _ _ (hb _) K s L
  | withCtx st src =>
    cases src
    · exact sim_freshFrames _ _ _ (hb _) K s L
    · cases hm : insidePlainCall m s with
      | none =>
        have h1 : callStep (.withCtx st true) m cs ra ca p K s L = ⟨K, some .index, s, L⟩ := by simp [callStep, hm]
        have h2 : wrap (.withCtx st true) m (bodyOf cs ra ca p) s = ⟨s, some .index, []⟩ := by
          cases m with
          | native => simp [insidePlainCall] at hm
          | refused => simp [insidePlainCall] at hm
          | converted rec =>
            cases hh : s.stack.head? with
            | none => simp [wrap, plainCall, hh]
            | some e => simp [insidePlainCall, hh] at hm
        rw [h1, h2]; simp; exact Reach.refl _
      | some x =>
        obtain ⟨s0, m'⟩ := x
        have h1 : callStep (.withCtx st true) m cs ra ca p K s L = freshFrames st [.pc m' cs ra ca p] K s L := by
          simp [callStep, hm]
        have h2 : wrap (.withCtx st true) m (bodyOf cs ra ca p) s = withFresh st (plainCall m' (bodyOf cs ra ca p)) s := by
          cases m with
          | native => simp only [insidePlainCall, Option.some.injEq, Prod.mk.injEq] at hm; rw [← hm.2]; rfl
          | refused => simp only [insidePlainCall, Option.some.injEq, Prod.mk.injEq] at hm; rw [← hm.2]; rfl
          | converted rec =>
            cases hh : s.stack.head? with
            | none => simp [insidePlainCall, hh] at hm
            | some e =>
              simp only [insidePlainCall, hh, Option.some.injEq, Prod.mk.injEq] at hm
              rw [← hm.2]; simp [wrap, plainCall, hh]
        rw [h1, h2]
        exact sim_freshFrames st _ _ (sim_pc m' cs ra ca p hb) K s L
  | functionScope ur feat => exact sim_scope ur feat .native cs ra ca p hb K s L
  | toGraph rec lam feat => exact sim_scope true feat _ cs ra ca p hb K s L
  | convert ur rec feat c => exact sim_convertW ur rec feat c cs ra ca p hb K s L
  | internalConvert r cbd ur => exact absurd rfl (hk r cbd ur)

theorem resolveInternal_basic (e : Entry) (cbd ur : Bool) : ∀ r cbd' ur', resolveInternal e cbd ur ≠ .internalConvert r cbd' ur' := by
  intro r cbd' ur'
  unfold resolveInternal
  cases e.status <;> cases cbd <;> simp

theorem wrap_internal (r : CtxRef) (cbd ur : Bool) (m : Mode) (b : MComp) (s : TState) (e : Entry) (hr : r.get s.stack = some e) :
    wrap (.internalConvert r cbd ur) m b s = wrap (resolveInternal e cbd ur) m b s := by
  cases hs : e.status <;> cases cbd <;> simp [wrap, resolveInternal, hr, hs]

theorem sim_call (k : Kind) (m : Mode) (cs : List Tree) (ra : Option Nat) (ca : Bool) (p : Path)
    (hb : BodySim cs ra ca p) :
    Sim [.call (.node k cs ra ca) p m] (wrap k m (bodyOf cs ra ca p)) := by
  cases k with
  | internalConvert r cbd ur =>
    intro K s L
    refine Reach.head (step_call _ m cs ra ca p K s L) ?_
    cases hr : r.get s.stack with
    | none =>
      have h1 : callStep (.internalConvert r cbd ur) m cs ra ca p K s L = ⟨K, some .index, s, L⟩ := by simp [callStep, hr]
      have h2 : wrap (.internalConvert r cbd ur) m (bodyOf cs ra ca p) s = ⟨s, some .index, []⟩ := by simp [wrap, hr]
      rw [h1, h2]; simp; exact Reach.refl _
    | some e =>
      have h1 : callStep (.internalConvert r cbd ur) m cs ra ca p K s L
          = ⟨[.call (.node (resolveInternal e cbd ur) cs ra ca) p m] ++ K, none, s, L⟩ := by simp [callStep, hr]
      rw [h1, wrap_internal r cbd ur m _ s e hr]
      exact sim_call_basic _ m cs ra ca p hb (resolveInternal_basic e cbd ur) K s L
  | plain => exact sim_call_basic _ m cs ra ca p hb (by intros; simp)
  | doNotConvert => exact sim_call_basic _ m cs ra ca p hb (by intros; simp)
  | unspecified => exact sim_call_basic _ m cs ra ca p hb (by intros; simp)
  | withCtx st src => exact sim_call_basic _ m cs ra ca p hb (by intros; simp)
  | functionScope ur feat => exact sim_call_basic _ m cs ra ca p hb (by intros; simp)
  | toGraph rec lam feat => exact sim_call_basic _ m cs ra ca p hb (by intros; simp)
  | convert ur rec feat c => exact sim_call_basic _ m cs ra ca p hb (by intros; simp)

mutual
theorem runNode_sim : ∀ (t : Tree) (p : Path) (m : Mode), Sim [.call t p m] (runNode t p m)
  | .node k cs ra ca, p, m => by
    have := sim_call k m cs ra ca p (fun m' => sim_body cs ra ca p m' (runKids_sim cs p 0 ra m'))
    simpa [runNode, bodyOf] using this
theorem runKids_sim : ∀ (cs : List Tree) (p : Path) (i : Nat) (ra : Option Nat) (m : Mode),
    Sim [.kids cs p i ra m] (runKids cs p i ra m)
  | [], p, i, ra, m => by
    intro K s L
    by_cases h : ra = some i
    · refine Reach.one ?_
      simp [step, stepOk, runKids, h]
    · refine Reach.one ?_
      simp [step, stepOk, runKids, h]
  | c :: cs, p, i, ra, m => by
    intro K s L
    by_cases h : ra = some i
    · refine Reach.one ?_
      simp [step, stepOk, runKids, h]
    · refine Reach.head (b := ⟨[.call c (i :: p) m] ++ .post p i m :: .kids cs p (i + 1) ra m :: K, none, s, L ++ [obsAt p (.pre i) m s]⟩)
        (by simp [step, stepOk, h]) ?_
      refine Reach.trans (runNode_sim c (i :: p) m _ s _) ?_
      simp only [runKids, h, if_false]
      cases ho : (runNode c (i :: p) m s).out with
      | none =>
        refine Reach.head (b := ⟨[.kids cs p (i + 1) ra m] ++ K, none, (runNode c (i :: p) m s).st, _⟩) rfl ?_
        refine Reach.trans (runKids_sim cs p (i + 1) ra m K _ _) ?_
        simp only [List.append_assoc, List.cons_append, List.nil_append]
        exact Reach.refl _
      | some e =>
        refine Reach.head (step_skip_post p i m _ e _ _) ?_
        refine Reach.head (step_skip_kids cs p (i + 1) ra m K e _ _) ?_
        simp only [List.append_assoc, List.cons_append, List.nil_append]
        exact Reach.refl _
end

theorem runThread_reach (t : Tree) (s : TState) :
    Reach (Cfg.init t s) ⟨[], (runThread t s).out, (runThread t s).st, (runThread t s).log⟩ := by
  refine Reach.head (b := ⟨[.call t [0] .native] ++ [.fin], none, s, [] ++ [obsAt [] .start .native s]⟩) rfl ?_
  refine Reach.trans (runNode_sim t [0] .native [.fin] s _) ?_
  refine Reach.one ?_
  cases ho : (runNode t [0] .native s).out <;> simp [step, stepOk, stepExc, runThread, ho]

/-! ## Finished machines stay put; the machine is deterministic -/

theorem step_done (c : Cfg) (h : c.ctrl = []) : step c = c := by
  simp [step, h]

theorem iter_done (n : Nat) (c : Cfg) (h : c.ctrl = []) : iter n c = c := by
  induction n with
  | zero => rfl
  | succ n ih => simp only [iter, step_done c h, ih]

/-- If the machine started at `c` can finish in `c'`, then whenever it has finished it is in `c'`. -/
theorem reach_done_unique {c c' : Cfg} (hr : Reach c c') (hd : c'.ctrl = []) (m : Nat)
    (hm : (iter m c).ctrl = []) : iter m c = c' := by
  obtain ⟨n, hn⟩ := hr
  rcases Nat.le_total m n with h | h
  · obtain ⟨d, rfl⟩ := Nat.exists_eq_add_of_le h
    rw [iter_add] at hn
    rw [iter_done d _ hm] at hn
    exact hn
  · obtain ⟨d, rfl⟩ := Nat.exists_eq_add_of_le h
    rw [iter_add, hn, iter_done d _ hd]

/-- Once the machine can finish in `n` steps, it has finished after any larger number of steps. -/
theorem reach_done_stable {c c' : Cfg} {n : Nat} (hn : iter n c = c') (hd : c'.ctrl = []) (m : Nat) (h : n ≤ m) :
    iter m c = c' := by
  obtain ⟨d, rfl⟩ := Nat.exists_eq_add_of_le h
  rw [iter_add, hn, iter_done d _ hd]

theorem scopeFrames_log (ur feat : Bool) (mOk : Mode) (cs : List Tree) (ra : Option Nat) (ca : Bool) (p : Path)
    (K : List Frame) (s : TState) (L : List Obs) : (scopeFrames ur feat mOk cs ra ca p K s L).log = L := by
  rw [scopeFrames_eq]; cases feat <;> cases ur <;> simp [freshFrames]

/-- A step only ever appends to the log. -/
theorem step_log_prefix (c : Cfg) : c.log <+: (step c).log := by
  unfold step
  split
  · exact List.prefix_refl _
  · rename_i f K hc
    split
    · -- no exception in flight
      cases f with
      | start => exact List.prefix_append _ _
      | fin => exact List.prefix_append _ _
      | call t p m =>
        cases t with
        | node k cs ra ca =>
          simp only [stepOk, callStep]
          cases k with
          | plain => exact List.prefix_refl _
          | doNotConvert => exact List.prefix_refl _
          | unspecified => exact List.prefix_refl _
          | withCtx st src =>
            cases src
            · exact List.prefix_refl _
            · simp only; split <;> exact List.prefix_refl _
          | functionScope ur feat => rw [scopeFrames_log]; exact List.prefix_refl _
          | toGraph rec lam feat => rw [scopeFrames_log]; exact List.prefix_refl _
          | convert ur rec feat c' =>
            simp only [convertFrames]
            cases c' with
            | none => exact List.prefix_refl _
            | some r => simp only; split <;> exact List.prefix_refl _
          | internalConvert r cbd ur => simp only; split <;> exact List.prefix_refl _
      | cc ur rec feat cs ra ca p =>
        simp only [stepOk]
        split
        · exact List.prefix_refl _
        · split
          · exact List.prefix_refl _
          · rw [scopeFrames_log]; exact List.prefix_refl _
      | reject => exact List.prefix_refl _
      | pc m cs ra ca p =>
        simp only [stepOk]
        split <;> exact List.prefix_refl _
      | inn p m => exact List.prefix_append _ _
      | kids cs p i ra m =>
        simp only [stepOk]
        split
        · exact List.prefix_refl _
        · split
          · exact List.prefix_refl _
          · exact List.prefix_append _ _
      | post p i m => exact List.prefix_append _ _
      | handler p ca m => exact List.prefix_refl _
      | out p m => exact List.prefix_append _ _
      | exit id => exact List.prefix_refl _
    · rename_i e hm
      cases f with
      | handler p ca m =>
        simp only [stepExc]
        split
        · split
          · exact List.prefix_append _ _
          · exact List.prefix_refl _
        · split
          · exact List.prefix_append _ _
          · exact List.prefix_refl _
        · exact List.prefix_refl _
      | fin => exact List.prefix_append _ _
      | start => exact List.prefix_refl _
      | call t p m => exact List.prefix_refl _
      | cc ur rec feat cs ra ca p => exact List.prefix_refl _
      | reject => exact List.prefix_refl _
      | pc m cs ra ca p => exact List.prefix_refl _
      | inn p m => exact List.prefix_refl _
      | kids cs p i ra m => exact List.prefix_refl _
      | post p i m => exact List.prefix_refl _
      | out p m => exact List.prefix_refl _
      | exit id => exact List.prefix_refl _

theorem iter_log_prefix (n : Nat) (c : Cfg) : c.log <+: (iter n c).log := by
  induction n generalizing c with
  | zero => exact List.prefix_refl _
  | succ n ih => exact List.IsPrefix.trans (step_log_prefix c) (ih (step c))




/-! ## Part 4 — the log checker accepts every log of the model -/

/-- `o` was made at or below the node at `q`. -/
def under (q : Path) (o : Obs) : Bool := decide (q <:+ o.owner)

theorem bodyLevel_under {p q : Path} (h : p <:+ q) (l : List Obs) :
    bodyLevel q (l.filter (under p)) = bodyLevel q l := by
  simp only [bodyLevel, List.filter_filter]
  apply List.filter_congr
  intro o _
  by_cases ho : o.owner = q
  · simp [under, ho, h]
  · simp [ho]

theorem filter_under_under {p q : Path} (h : p <:+ q) (l : List Obs) :
    (l.filter (under p)).filter (under q) = l.filter (under q) := by
  simp only [List.filter_filter]
  apply List.filter_congr
  intro o _
  by_cases ho : q <:+ o.owner
  · simp [under, ho, List.IsSuffix.trans h ho]
  · simp [under, ho]

mutual
theorem checkNode_under : ∀ (t : Tree) (p : Path) (x : Option Entry) (l : List Obs),
    checkNode t p x l = checkNode t p x (l.filter (under p))
  | .node k cs ra ca, p, x, l => by
    simp only [checkNode]
    rw [bodyLevel_under (List.suffix_refl p)]
    split
    · rfl
    · rw [checkKids_under cs p 0 _ l]
theorem checkKids_under : ∀ (cs : List Tree) (p : Path) (i : Nat) (x : Option Entry) (l : List Obs),
    checkKids cs p i x l = checkKids cs p i x (l.filter (under p))
  | [], _, _, _, _ => by simp [checkKids]
  | c :: cs, p, i, x, l => by
    simp only [checkKids]
    rw [checkKids_under cs p (i + 1) x l]
    rw [checkNode_under c (i :: p) x l, checkNode_under c (i :: p) x (l.filter (under p)),
        filter_under_under (List.suffix_cons i p)]
end

theorem checkNode_congr (t : Tree) (p : Path) (x : Option Entry) (l l' : List Obs)
    (h : l.filter (under p) = l'.filter (under p)) : checkNode t p x l = checkNode t p x l' := by
  rw [checkNode_under t p x l, checkNode_under t p x l', h]

theorem checkKids_congr : ∀ (cs : List Tree) (p : Path) (i : Nat) (x : Option Entry) (l l' : List Obs),
    (∀ j, i ≤ j → l.filter (under (j :: p)) = l'.filter (under (j :: p))) →
    checkKids cs p i x l = checkKids cs p i x l'
  | [], _, _, _, _, _, _ => by simp [checkKids]
  | c :: cs, p, i, x, l, l', h => by
    simp only [checkKids]
    rw [checkNode_congr c (i :: p) x l l' (h i (Nat.le_refl i)),
        checkKids_congr cs p (i + 1) x l l' (fun j hj => h j (Nat.le_of_succ_le hj))]

/-- Observations owned by the body `p` itself are not under any child of `p`. -/
theorem under_child_of_owner {p : Path} {o : Obs} (j : Nat) (h : o.owner = p) : under (j :: p) o = false := by
  simp only [under, decide_eq_false_iff_not]
  intro hs
  have := hs.length_le
  rw [h] at this
  simp at this
  omega

/-- Observations under child `j'` are not under a different child `j`. -/
theorem under_other_child {p : Path} {o : Obs} {j j' : Nat} (h : (j' :: p) <:+ o.owner) (hne : j ≠ j') :
    under (j :: p) o = false := by
  simp only [under, decide_eq_false_iff_not]
  intro hs
  have h1 := List.suffix_of_suffix_length_le hs h (by simp)
  have h2 := h1.eq_of_length (by simp)
  simp only [List.cons.injEq, and_true] at h2
  exact hne h2

/-- Refined ownership for the try-block: its own observations, or under a child with index `≥ i`. -/
theorem runKids_owned' : ∀ (cs : List Tree) (p : Path) (i : Nat) (ra : Option Nat) (m : Mode) (s : TState),
    ∀ o ∈ (runKids cs p i ra m s).log, o.owner = p ∨ ∃ j, i ≤ j ∧ (j :: p) <:+ o.owner
  | [], p, i, ra, m, s => by
    intro o ho; simp only [runKids] at ho; split at ho <;> simp at ho
  | c :: cs, p, i, ra, m, s => by
    intro o ho
    simp only [runKids] at ho
    split at ho
    · simp at ho
    · have h1 := runNode_owned c (i :: p) m s
      split at ho
      · have h2 := runKids_owned' cs p (i + 1) ra m (runNode c (i :: p) m s).st
        simp only [List.mem_cons, List.mem_append] at ho
        rcases ho with rfl | ho | rfl | ho
        · exact Or.inl rfl
        · exact Or.inr ⟨i, Nat.le_refl i, h1 o ho⟩
        · exact Or.inl rfl
        · rcases h2 o ho with h | ⟨j, hj, h⟩
          · exact Or.inl h
          · exact Or.inr ⟨j, Nat.le_of_succ_le hj, h⟩
      · simp only [List.mem_cons] at ho
        rcases ho with rfl | ho
        · exact Or.inl rfl
        · exact Or.inr ⟨i, Nat.le_refl i, h1 o ho⟩

theorem filter_under_eq_nil {q : Path} {l : List Obs} (h : ∀ o ∈ l, under q o = false) : l.filter (under q) = [] := by
  rw [List.filter_eq_nil_iff]
  intro o ho
  simp [h o ho]




theorem insideScope_cases (ur feat : Bool) (mOk : Mode) (s : TState) :
    (feat = true ∧ insideScope ur feat mOk s = (s, .refused)) ∨
    (feat = false ∧ ur = true ∧ insideScope ur feat mOk s = (pushFresh .enabled s, mOk)) ∨
    (feat = false ∧ ur = false ∧ insideScope ur feat mOk s = (s, mOk)) := by
  cases feat <;> cases ur <;> simp [insideScope]

theorem insideConvertedCall_status (ur rec feat : Bool) (s0 s' : TState) (m' : Mode) (e : Entry)
    (h0 : s0.stack.head? = some e) (h : insideConvertedCall ur rec feat s0 = some (s', m')) :
    (e.status = .disabled → s' = s0 ∧ m' = .native) ∧
    (e.status ≠ .disabled → (s', m') = insideScope ur feat (.converted rec) s0) := by
  simp only [insideConvertedCall, h0] at h
  constructor
  · intro hd
    simp only [hd, if_true, Option.some.injEq, Prod.mk.injEq] at h
    exact ⟨h.1.symm, h.2.symm⟩
  · intro hd
    simp only [hd, if_false, Option.some.injEq] at h
    exact h.symm

/-- The entry in effect where `converted_call` of a `convert` wrapper decides. -/
def effective (c : Option CtxRef) (s : TState) : Option Entry :=
  match c with
  | none => s.stack.head?
  | some r => r.get s.stack

theorem insideConvert_eq (ur rec feat : Bool) (c : Option CtxRef) (s : TState) (e : Entry) (he : effective c s = some e) :
    ∃ s0, s0.stack.head? = some e ∧ s0.next = s.next ∧ insideConvert ur rec feat c s = insideConvertedCall ur rec feat s0 ∧
      (c = none → s0 = s) ∧ (∀ r, c = some r → s0 = push e s) := by
  cases c with
  | none => exact ⟨s, he, rfl, rfl, fun _ => rfl, by simp⟩
  | some r =>
    simp only [effective] at he
    exact ⟨push e s, rfl, rfl, by simp [insideConvert, he], by simp, fun _ _ => rfl⟩

theorem insideScope_user_enabled (feat : Bool) (mOk : Mode) (s0 s' : TState) (m' : Mode)
    (h : (s', m') = insideScope true feat mOk s0) (hm : m' ≠ .refused) :
    s'.stack.head? = some ⟨.fresh s0.next, .enabled⟩ ∧ m' = mOk := by
  rcases insideScope_cases true feat mOk s0 with ⟨_, h1⟩ | ⟨_, _, h1⟩ | ⟨_, h2, _⟩
  · rw [h1] at h; cases h; exact absurd rfl hm
  · rw [h1] at h; cases h; exact ⟨rfl, rfl⟩
  · cases h2

theorem required_ok (k : Kind) (m : Mode) (s s' : TState) (m' : Mode) (hi : inside k m s = some (s', m'))
    (hm' : m' ≠ .refused) (st : Status)
    (hr : requiredStatus k s.stack.head? = some st) : s'.stack.head?.map (·.status) = some st := by
  cases k with
  | plain => simp [requiredStatus] at hr
  | unspecified => simp [requiredStatus] at hr
  | withCtx x src => simp [requiredStatus] at hr
  | internalConvert r cbd ur => simp [requiredStatus] at hr
  | doNotConvert =>
    simp only [requiredStatus, Option.some.injEq] at hr
    cases hi; subst hr; rfl
  | functionScope ur feat =>
    cases ur
    · simp [requiredStatus] at hr
    · simp only [requiredStatus, Option.some.injEq] at hr
      simp only [inside, Option.some.injEq] at hi
      rw [(insideScope_user_enabled feat _ s s' m' hi.symm hm').1]; subst hr; rfl
  | toGraph rec lam feat =>
    simp only [requiredStatus, Option.some.injEq] at hr
    simp only [inside, Option.some.injEq] at hi
    rw [(insideScope_user_enabled feat _ s s' m' hi.symm hm').1]; subst hr; rfl
  | convert ur rec feat c =>
    cases ur
    · simp [requiredStatus] at hr
    · have heff : effectiveEntry c s.stack.head? = effective c s := by
        cases c with
        | none => rfl
        | some r => cases r <;> rfl
      simp only [requiredStatus, heff] at hr
      cases he : effective c s with
      | none => simp [he] at hr
      | some e =>
        simp only [he] at hr
        split at hr
        · simp at hr
        · rename_i hd
          cases hr
          obtain ⟨s0, h0, _, heq, _, _⟩ := insideConvert_eq true rec feat c s e he
          have hi' : insideConvertedCall true rec feat s0 = some (s', m') := by
            rw [← heq]; simpa [inside] using hi
          have := (insideConvertedCall_status true rec feat s0 s' m' e h0 hi').2 hd
          rw [(insideScope_user_enabled feat _ s0 s' m' this hm').1]; rfl

/-- Converted code never runs under DISABLED: if the body a wrapper reaches is converted code, the status
it starts under is not DISABLED. -/
theorem inside_conv_status (k : Kind) (m : Mode) (s s' : TState) (m' : Mode) (hi : inside k m s = some (s', m'))
    (hc : m'.isConverted = true) : ∃ e, s'.stack.head? = some e ∧ e.status ≠ .disabled := by
  have hcallee : ∀ (rec : Bool) (e : Entry), (calleeMode rec e).isConverted = true → e.status ≠ .disabled := by
    intro rec e h hd
    simp [calleeMode, hd, Mode.isConverted] at h
  have hpc : ∀ (m0 : Mode) (s0 s1 : TState) (m1 : Mode), insidePlainCall m0 s0 = some (s1, m1) → m1.isConverted = true →
      ∃ e, s1.stack.head? = some e ∧ e.status ≠ .disabled := by
    intro m0 s0 s1 m1 h hc1
    cases m0 with
    | native => simp only [insidePlainCall, Option.some.injEq, Prod.mk.injEq] at h; rw [← h.2] at hc1; simp [Mode.isConverted] at hc1
    | refused => simp only [insidePlainCall, Option.some.injEq, Prod.mk.injEq] at h; rw [← h.2] at hc1; simp [Mode.isConverted] at hc1
    | converted rec =>
      cases hh : s0.stack.head? with
      | none => simp [insidePlainCall, hh] at h
      | some e =>
        simp only [insidePlainCall, hh, Option.some.injEq, Prod.mk.injEq] at h
        rw [← h.2] at hc1
        exact ⟨e, by rw [← h.1]; exact hh, hcallee rec e hc1⟩
  -- a scope reached while the current entry `e` (top of `s0`) is not DISABLED
  have hsc : ∀ (ur feat : Bool) (mOk : Mode) (s0 : TState) (e : Entry), s0.stack.head? = some e → e.status ≠ .disabled →
      (s', m') = insideScope ur feat mOk s0 → ∃ e, s'.stack.head? = some e ∧ e.status ≠ .disabled := by
    intro ur feat mOk s0 e h0 hd h
    rcases insideScope_cases ur feat mOk s0 with ⟨_, h1⟩ | ⟨_, _, h1⟩ | ⟨_, _, h1⟩
    · rw [h1] at h; cases h; simp [Mode.isConverted] at hc
    · rw [h1] at h; cases h; exact ⟨_, rfl, by simp⟩
    · rw [h1] at h; cases h; exact ⟨e, h0, hd⟩
  have hcc : ∀ (ur rec feat : Bool) (s0 : TState), insideConvertedCall ur rec feat s0 = some (s', m') →
      ∃ e, s'.stack.head? = some e ∧ e.status ≠ .disabled := by
    intro ur rec feat s0 h
    cases hh : s0.stack.head? with
    | none => simp [insideConvertedCall, hh] at h
    | some e =>
      have := insideConvertedCall_status ur rec feat s0 s' m' e hh h
      by_cases hd : e.status = .disabled
      · have := (this.1 hd).2; rw [this] at hc; simp [Mode.isConverted] at hc
      · exact hsc ur feat _ s0 e hh hd (this.2 hd)
  have hcv : ∀ (ur rec feat : Bool) (c : Option CtxRef), insideConvert ur rec feat c s = some (s', m') →
      ∃ e, s'.stack.head? = some e ∧ e.status ≠ .disabled := by
    intro ur rec feat c h
    cases c with
    | none => exact hcc ur rec feat s h
    | some r =>
      cases hr : r.get s.stack with
      | none => simp [insideConvert, hr] at h
      | some e => exact hcc ur rec feat (push e s) (by simpa [insideConvert, hr] using h)
  cases k with
  | plain => exact hpc m s s' m' hi hc
  | doNotConvert => cases hi; simp [Mode.isConverted] at hc
  | unspecified => cases hi; simp [Mode.isConverted] at hc
  | withCtx st src =>
    cases src
    · cases hi; simp [Mode.isConverted] at hc
    · simp only [inside] at hi
      split at hi
      · simp at hi
      · exact hpc _ _ s' m' hi hc
  | functionScope ur feat =>
    simp only [inside, Option.some.injEq] at hi
    rcases insideScope_cases ur feat .native s with ⟨_, h1⟩ | ⟨_, _, h1⟩ | ⟨_, _, h1⟩ <;>
      (rw [h1] at hi; cases hi; simp [Mode.isConverted] at hc)
  | toGraph rec lam feat =>
    simp only [inside, Option.some.injEq] at hi
    rcases insideScope_cases true feat (if lam then .native else .converted rec) s with ⟨_, h1⟩ | ⟨_, _, h1⟩ | ⟨_, h2, _⟩
    · rw [h1] at hi; cases hi; simp [Mode.isConverted] at hc
    · rw [h1] at hi; cases hi; exact ⟨_, rfl, by simp⟩
    · cases h2
  | convert ur rec feat c => exact hcv ur rec feat c hi
  | internalConvert r cbd ur =>
    cases hr : r.get s.stack with
    | none => simp [inside, hr] at hi
    | some e =>
      cases hs : e.status with
      | enabled => exact hcv ur true false _ (by simpa [inside, hr, hs] using hi)
      | disabled =>
        have : (s', m') = (pushFresh .disabled s, Mode.native) := by simpa [inside, hr, hs] using hi.symm
        cases this; simp [Mode.isConverted] at hc
      | unspecified =>
        cases cbd
        · have : (s', m') = (pushFresh .unspecified s, Mode.native) := by simpa [inside, hr, hs] using hi.symm
          cases this; simp [Mode.isConverted] at hc
        · exact hcv ur true false _ (by simpa [inside, hr, hs] using hi)

theorem bodyC_log_shape (p : Path) (ca : Bool) (m : Mode) (b : Comp) (s : TState) (hm : m ≠ .refused) :
    ∃ tail, (bodyC p ca m b s).log = obsAt p .inn m s :: ((b s).log ++ tail) ∧ ∀ o ∈ tail, o.owner = p := by
  rw [bodyC_of_ne _ _ _ _ _ hm]
  simp only [bodyCore]
  split
  · exact ⟨[obsAt p .out m (b s).st], rfl, by simp [obsAt]⟩
  · split
    · exact ⟨[obsAt p .caught m (b s).st, obsAt p .out m (b s).st], rfl, by simp [obsAt]⟩
    · exact ⟨[], by simp, by simp⟩
  · split
    · exact ⟨[obsAt p .caught m (b s).st, obsAt p .out m (b s).st], rfl, by simp [obsAt]⟩
    · exact ⟨[], by simp, by simp⟩
  · exact ⟨[], by simp, by simp⟩

theorem filter_under_body (p : Path) (j : Nat) (o₀ : Obs) (h₀ : o₀.owner = p) (kl tail : List Obs)
    (ht : ∀ o ∈ tail, o.owner = p) :
    (o₀ :: (kl ++ tail)).filter (under (j :: p)) = kl.filter (under (j :: p)) := by
  rw [List.filter_cons, under_child_of_owner j h₀, List.filter_append,
      filter_under_eq_nil (fun o ho => under_child_of_owner j (ht o ho))]
  simp

mutual
theorem checkNode_nil : ∀ (t : Tree) (p : Path) (x : Option Entry), checkNode t p x [] = true
  | .node k cs ra ca, p, x => by simp [checkNode, bodyLevel]
theorem checkKids_nil : ∀ (cs : List Tree) (p : Path) (i : Nat) (x : Option Entry), checkKids cs p i x [] = true
  | [], _, _, _ => by simp [checkKids]
  | c :: cs, p, i, x => by simp [checkKids, checkNode_nil c (i :: p) x, checkKids_nil cs p (i + 1) x]
end

mutual
theorem runNode_check : ∀ (t : Tree) (p : Path) (m : Mode) (s : TState), s.stack ≠ [] →
    checkNode t p s.stack.head? (runNode t p m s).log = true
  | .node k cs ra ca, p, m, s, hs => by
    obtain ⟨s', m', hi, hs'⟩ := inside_some k m s hs
    have ha := runNode_around k cs ra ca p m s
    rw [hi] at ha
    have hlog : (runNode (.node k cs ra ca) p m s).log = (bodyOf cs ra ca p m' s').log := by
      unfold Around at ha; rw [ha]
    rw [hlog]
    simp only [checkNode]
    have hsee := bodyOf_sees cs ra ca p m' s'
    cases hb : bodyLevel p (bodyOf cs ra ca p m' s').log with
    | nil => rfl
    | cons o rest =>
      have hm' : m' ≠ .refused := by
        intro h; subst h
        simp only [bodyOf] at hb; rw [bodyC_refused] at hb; simp [bodyLevel] at hb
      have hmem : ∀ o' ∈ o :: rest, o'.top = s'.stack.head? ∧ o'.conv = m'.isConverted := by
        intro o' ho'
        have : o' ∈ bodyLevel p (bodyOf cs ra ca p m' s').log := hb ▸ ho'
        simp only [bodyLevel, List.mem_filter, decide_eq_true_eq] at this
        exact hsee o' this.1 this.2
      have ho : o.top = s'.stack.head? := (hmem o (List.mem_cons_self ..)).1
      have hoc : o.conv = m'.isConverted := (hmem o (List.mem_cons_self ..)).2
      simp only [Bool.and_eq_true]
      refine ⟨⟨⟨?_, ?_⟩, ?_⟩, ?_⟩
      · rw [List.all_eq_true]
        intro o' ho'
        have := hmem o' (List.mem_cons_of_mem _ ho')
        simp [this.1, this.2, ho, hoc]
      · split
        · rfl
        · rename_i st hr
          rw [ho, required_ok k m s s' m' hi hm' st hr]
          simp
      · -- converted code does not run under DISABLED
        cases hcv : m'.isConverted with
        | false => simp [hoc, hcv]
        | true =>
          obtain ⟨e, he, hd⟩ := inside_conv_status k m s s' m' hi hcv
          simp [ho, he, hd]
      · rw [ho]
        obtain ⟨tail, hshape, htail⟩ := bodyC_log_shape p ca m' (runKids cs p 0 ra m') s' hm'
        have hcongr := checkKids_congr cs p 0 s'.stack.head? (bodyOf cs ra ca p m' s').log (runKids cs p 0 ra m' s').log
          (fun j _ => by
            rw [show (bodyOf cs ra ca p m' s').log = _ from hshape]
            exact filter_under_body p j _ rfl _ _ htail)
        rw [hcongr]
        exact runKids_check cs p 0 ra m' s' hs'
theorem runKids_check : ∀ (cs : List Tree) (p : Path) (i : Nat) (ra : Option Nat) (m : Mode) (s : TState), s.stack ≠ [] →
    checkKids cs p i s.stack.head? (runKids cs p i ra m s).log = true
  | [], _, _, _, _, _, _ => by simp [checkKids]
  | c :: cs, p, i, ra, m, s, hs => by
    simp only [checkKids, Bool.and_eq_true]
    by_cases hra : ra = some i
    · have : (runKids (c :: cs) p i ra m s).log = [] := by simp [runKids, hra]
      rw [this]
      exact ⟨checkNode_nil _ _ _, checkKids_nil _ _ _ _⟩
    · have hown := runNode_owned c (i :: p) m s
      have hbal := runNode_bal c (i :: p) m s
      have hc := runNode_check c (i :: p) m s hs
      have hpre : (obsAt p (.pre i) m s).owner = p := rfl
      cases ho : (runNode c (i :: p) m s).out with
      | some e =>
        have hlog : (runKids (c :: cs) p i ra m s).log = obsAt p (.pre i) m s :: (runNode c (i :: p) m s).log := by
          simp [runKids, hra, ho]
        rw [hlog]
        constructor
        · rw [checkNode_congr c (i :: p) _ _ (runNode c (i :: p) m s).log
            (by rw [List.filter_cons, under_child_of_owner i hpre]; simp)]
          exact hc
        · rw [checkKids_congr cs p (i + 1) _ _ [] (fun j hj => by
            rw [List.filter_cons, under_child_of_owner j hpre]
            simp only [Bool.false_eq_true, if_false, List.filter_nil]
            exact filter_under_eq_nil (fun o ho' => under_other_child (hown o ho') (by omega)))]
          exact checkKids_nil _ _ _ _
      | none =>
        have hlog : (runKids (c :: cs) p i ra m s).log = obsAt p (.pre i) m s ::
            ((runNode c (i :: p) m s).log ++ obsAt p (.post i) m (runNode c (i :: p) m s).st ::
              (runKids cs p (i + 1) ra m (runNode c (i :: p) m s).st).log) := by
          simp [runKids, hra, ho]
        have hrest := runKids_owned' cs p (i + 1) ra m (runNode c (i :: p) m s).st
        have hpost : (obsAt p (.post i) m (runNode c (i :: p) m s).st).owner = p := rfl
        rw [hlog]
        constructor
        · rw [checkNode_congr c (i :: p) _ _ (runNode c (i :: p) m s).log (by
            rw [List.filter_cons, under_child_of_owner i hpre, List.filter_append, List.filter_cons,
                under_child_of_owner i hpost]
            simp only [Bool.false_eq_true, if_false]
            have hnil : (runKids cs p (i + 1) ra m (runNode c (i :: p) m s).st).log.filter (under (i :: p)) = [] :=
              filter_under_eq_nil (fun o ho' => by
                rcases hrest o ho' with h | ⟨j, hj, h⟩
                · exact under_child_of_owner i h
                · exact under_other_child h (by omega))
            rw [hnil]
            simp)]
          exact hc
        · rw [checkKids_congr cs p (i + 1) _ _ (runKids cs p (i + 1) ra m (runNode c (i :: p) m s).st).log (fun j hj => by
            rw [List.filter_cons, under_child_of_owner j hpre, List.filter_append, List.filter_cons,
                under_child_of_owner j hpost]
            simp only [Bool.false_eq_true, if_false]
            have hnil : (runNode c (i :: p) m s).log.filter (under (j :: p)) = [] :=
              filter_under_eq_nil (fun o ho' => under_other_child (hown o ho') (by omega))
            rw [hnil]
            simp)]
          have := runKids_check cs p (i + 1) ra m (runNode c (i :: p) m s).st (by rw [hbal]; exact hs)
          rw [hbal] at this
          exact this
end

/-- Every log of the model passes the checker. -/
theorem runThread_check (t : Tree) (s : TState) (hs : s.stack ≠ []) : checkThread t (runThread t s).log = true := by
  have hown := runNode_owned t [0] .native s
  have hbal := runNode_bal t [0] .native s
  have hstart : (obsAt [] .start .native s).owner = [] := rfl
  have hfin : (obsAt [] .fin .native (runNode t [0] .native s).st).owner = [] := rfl
  have hbl : bodyLevel [] (runThread t s).log = [obsAt [] .start .native s, obsAt [] .fin .native (runNode t [0] .native s).st] := by
    simp only [runThread, bodyLevel, List.filter_cons, hstart, decide_true, if_true, List.filter_append, hfin,
      List.filter_nil]
    rw [List.filter_eq_nil_iff.mpr (fun o ho => by
      have := hown o ho
      simp only [decide_eq_true_eq]
      intro h
      rw [h] at this
      have := this.length_le
      simp at this)]
    simp
  simp only [checkThread, hbl, List.all_cons, List.all_nil, Bool.and_true, Bool.and_eq_true, decide_eq_true_eq]
  constructor
  · simp [obsAt, hbal]
  · have hc := runNode_check t [0] .native s hs
    rw [checkNode_congr t [0] _ _ (runNode t [0] .native s).log (by
      simp only [runThread]
      rw [List.filter_cons, under_child_of_owner 0 hstart, List.filter_append, List.filter_cons,
          under_child_of_owner 0 hfin]
      simp)]
    exact hc



/-! What acceptance by the checker means, one level at a time. -/

theorem checkKids_get : ∀ (cs : List Tree) (p : Path) (i : Nat) (x : Option Entry) (l : List Obs),
    checkKids cs p i x l = true → ∀ (j : Nat) (c : Tree), cs[j]? = some c → checkNode c ((i + j) :: p) x l = true
  | [], _, _, _, _, _, j, c, hc => by simp at hc
  | c' :: cs, p, i, x, l, h, j, c, hc => by
    simp only [checkKids, Bool.and_eq_true] at h
    cases j with
    | zero => simp only [List.getElem?_cons_zero, Option.some.injEq] at hc; subst hc; simpa using h.1
    | succ j =>
      simp only [List.getElem?_cons_succ] at hc
      have := checkKids_get cs p (i + 1) x l h.2 j c hc
      rw [show i + (j + 1) = i + 1 + j by omega]
      exact this

theorem checkNode_means (k : Kind) (cs : List Tree) (ra : Option Nat) (ca : Bool) (p : Path) (x : Option Entry)
    (l : List Obs) (h : checkNode (.node k cs ra ca) p x l = true) :
    (∀ o₁ ∈ bodyLevel p l, ∀ o₂ ∈ bodyLevel p l, o₁.top = o₂.top ∧ o₁.conv = o₂.conv) ∧
    (∀ st, requiredStatus k x = some st → ∀ o ∈ bodyLevel p l, o.top.map (·.status) = some st) ∧
    (∀ o ∈ bodyLevel p l, o.conv = true → o.top.map (·.status) ≠ some .disabled) ∧
    (∀ o ∈ bodyLevel p l, ∀ (j : Nat) (c : Tree), cs[j]? = some c → checkNode c (j :: p) o.top l = true) := by
  simp only [checkNode] at h
  cases hb : bodyLevel p l with
  | nil => simp
  | cons o rest =>
    rw [hb] at h
    simp only [Bool.and_eq_true, List.all_eq_true, decide_eq_true_eq, Bool.not_eq_true', Bool.and_eq_false_iff,
      decide_eq_false_iff_not] at h
    obtain ⟨⟨⟨hall, hreq⟩, hnd⟩, hkids⟩ := h
    have htop : ∀ o' ∈ o :: rest, o'.top = o.top ∧ o'.conv = o.conv := by
      intro o' ho'
      rcases List.mem_cons.mp ho' with rfl | ho'
      · exact ⟨rfl, rfl⟩
      · exact hall o' ho'
    refine ⟨fun o₁ h₁ o₂ h₂ => by rw [(htop o₁ h₁).1, (htop o₂ h₂).1, (htop o₁ h₁).2, (htop o₂ h₂).2]; exact ⟨rfl, rfl⟩, ?_, ?_, ?_⟩
    · intro st hst o' ho'
      rw [hst] at hreq
      rw [(htop o' ho').1]
      simpa using hreq
    · intro o' ho' hc
      rw [(htop o' ho').1]
      rw [(htop o' ho').2] at hc
      rcases hnd with hnd | hnd
      · rw [hc] at hnd; simp at hnd
      · exact hnd
    · intro o' ho' j c hc
      rw [(htop o' ho').1]
      have := checkKids_get cs p 0 o.top l hkids j c hc
      simpa using this


/-! ## Part 5 — converted code never runs under DISABLED -/

/-- A body in mode `m` may run in state `s`: if it is converted code, the current status is not DISABLED. -/
def Compat (m : Mode) (s : TState) : Prop :=
  m.isConverted = true → ∃ e, s.stack.head? = some e ∧ e.status ≠ .disabled

def ConvObsOK (o : Obs) : Prop := o.conv = true → ∃ e, o.top = some e ∧ e.status ≠ .disabled

theorem obsAt_convOK (p : Path) (pt : Point) (m : Mode) (s : TState) (h : Compat m s) : ConvObsOK (obsAt p pt m s) := h

theorem compat_of_stack_eq {m : Mode} {s s' : TState} (h : Compat m s) (hs : s'.stack = s.stack) : Compat m s' := by
  intro hc; rw [hs]; exact h hc

mutual
theorem runNode_convOK : ∀ (t : Tree) (p : Path) (m : Mode) (s : TState), s.stack ≠ [] →
    ∀ o ∈ (runNode t p m s).log, ConvObsOK o
  | .node k cs ra ca, p, m, s, hs => by
    intro o ho
    obtain ⟨s', m', hi, ho'⟩ := around_log (runNode_around k cs ra ca p m s) o ho
    obtain ⟨s'', m'', hi', hs'⟩ := inside_some k m s hs
    rw [hi] at hi'; cases hi'
    have hcompat : Compat m' s' := fun hc => inside_conv_status k m s s' m' hi hc
    have hk := runKids_convOK cs p 0 ra m' s' hs' hcompat
    have hb := runKids_bal cs p 0 ra m' s'
    have hc2 : Compat m' (runKids cs p 0 ra m' s').st := compat_of_stack_eq hcompat hb
    by_cases hm : m' = .refused
    · subst hm; simp only [bodyOf] at ho'; rw [bodyC_refused] at ho'; simp at ho'
    simp only [bodyOf] at ho'
    rw [bodyC_of_ne _ _ _ _ _ hm] at ho'
    simp only [bodyCore] at ho'
    split at ho'
    · simp only [List.mem_cons, List.mem_append, List.not_mem_nil, or_false] at ho'
      rcases ho' with rfl | ho' | rfl
      · exact obsAt_convOK _ _ _ _ hcompat
      · exact hk o ho'
      · exact obsAt_convOK _ _ _ _ hc2
    · split at ho'
      · simp only [List.mem_cons, List.mem_append, List.not_mem_nil, or_false] at ho'
        rcases ho' with rfl | ho' | rfl | rfl
        · exact obsAt_convOK _ _ _ _ hcompat
        · exact hk o ho'
        · exact obsAt_convOK _ _ _ _ hc2
        · exact obsAt_convOK _ _ _ _ hc2
      · simp only [List.mem_cons] at ho'
        rcases ho' with rfl | ho'
        · exact obsAt_convOK _ _ _ _ hcompat
        · exact hk o ho'
    · split at ho'
      · simp only [List.mem_cons, List.mem_append, List.not_mem_nil, or_false] at ho'
        rcases ho' with rfl | ho' | rfl | rfl
        · exact obsAt_convOK _ _ _ _ hcompat
        · exact hk o ho'
        · exact obsAt_convOK _ _ _ _ hc2
        · exact obsAt_convOK _ _ _ _ hc2
      · simp only [List.mem_cons] at ho'
        rcases ho' with rfl | ho'
        · exact obsAt_convOK _ _ _ _ hcompat
        · exact hk o ho'
    · simp only [List.mem_cons] at ho'
      rcases ho' with rfl | ho'
      · exact obsAt_convOK _ _ _ _ hcompat
      · exact hk o ho'
theorem runKids_convOK : ∀ (cs : List Tree) (p : Path) (i : Nat) (ra : Option Nat) (m : Mode) (s : TState),
    s.stack ≠ [] → Compat m s → ∀ o ∈ (runKids cs p i ra m s).log, ConvObsOK o
  | [], p, i, ra, m, s, _, _ => by
    intro o ho; simp only [runKids] at ho; split at ho <;> simp at ho
  | c :: cs, p, i, ra, m, s, hs, hcm => by
    intro o ho
    simp only [runKids] at ho
    split at ho
    · simp at ho
    · have h1 := runNode_convOK c (i :: p) m s hs
      have hb1 := runNode_bal c (i :: p) m s
      have hc1 : Compat m (runNode c (i :: p) m s).st := compat_of_stack_eq hcm hb1
      split at ho
      · have h2 := runKids_convOK cs p (i + 1) ra m (runNode c (i :: p) m s).st (by rw [hb1]; exact hs) hc1
        simp only [List.mem_cons, List.mem_append] at ho
        rcases ho with rfl | ho | rfl | ho
        · exact obsAt_convOK _ _ _ _ hcm
        · exact h1 o ho
        · exact obsAt_convOK _ _ _ _ hc1
        · exact h2 o ho
      · simp only [List.mem_cons] at ho
        rcases ho with rfl | ho
        · exact obsAt_convOK _ _ _ _ hcm
        · exact h1 o ho
end


/-! ## Part 6 — function scopes in general: where a refusing check may stand

`scopeWith init enter` for *arbitrary* construction / entry step lists (the code under test instantiates them
with `Gen.fsInitSteps` / `Gen.fsEnterSteps`).  A scope restores the context list on every path — also when it
refuses its options — provided `__enter__` enters at most one context and no refusing check can fire after
that context has been pushed (either all checks sit in `__init__`, or none follows the push in `__enter__`). -/

/-- No refusing check after the push, and no second push. -/
def enterOrdered : List Gen.FsStep → Bool
  | [] => true
  | .pushIfUr :: r => !r.contains .check && !r.contains .pushIfUr
  | _ :: r => enterOrdered r

/-- At most one push. -/
def enterOnePush : List Gen.FsStep → Bool
  | [] => true
  | .pushIfUr :: r => !r.contains .pushIfUr
  | _ :: r => enterOnePush r

def scopeSafe (init enter : List Gen.FsStep) : Bool :=
  enterOrdered enter || (init.contains .check && enterOnePush enter)

theorem runEnter_noPush (r : List Gen.FsStep) (ur feat : Bool) (s : TState) (pu : Option CtxId)
    (h : r.contains .pushIfUr = false) :
    runEnter r ur feat s pu = (s, pu, feat && r.contains .check) := by
  induction r with
  | nil => simp [runEnter]
  | cons x r ih =>
    cases x with
    | pushIfUr => simp at h
    | check =>
      have h' : r.contains .pushIfUr = false := by simpa using h
      cases feat
      · simp [runEnter, ih h']
      · simp [runEnter]
    | unknown =>
      have h' : r.contains .pushIfUr = false := by simpa using h
      simp [runEnter, ih h']

/-- The scope with the refusal branch of `__init__` already decided (`featE` = may a check in `__enter__` fire). -/
theorem scopeWith_enter_bal (enter : List Gen.FsStep) (ur featE : Bool) (body : Comp) (hb : Bal body) (s : TState)
    (h1 : enterOnePush enter = true) (h2 : featE = true → enterOrdered enter = true) :
    (match runEnter enter ur featE s none with
      | (s1, _, true) => (⟨s1, some .rejected, []⟩ : Res)
      | (s1, pu, false) =>
          let r := body s1
          match pu with
          | none => r
          | some id => let x := exitCtx id r.out r.st; ⟨x.1, x.2, r.log⟩).st.stack = s.stack := by
  induction enter with
  | nil => simp [runEnter, hb s]
  | cons x r ih =>
    cases x with
    | check =>
      cases featE
      · simpa [runEnter] using ih (by simpa [enterOnePush] using h1) (by simp)
      · simp [runEnter]
    | unknown =>
      simpa [runEnter] using ih (by simpa [enterOnePush] using h1) (fun h => by simpa [enterOrdered] using h2 h)
    | pushIfUr =>
      have hnp : r.contains .pushIfUr = false := by simpa [enterOnePush] using h1
      cases ur
      · -- nothing pushed: the rest cannot push either
        simp only [runEnter, Bool.false_eq_true, if_false]
        rw [runEnter_noPush r false featE s none hnp]
        cases hf : (featE && r.contains .check) <;> simp [hb s]
      · simp only [runEnter, if_true]
        rw [runEnter_noPush r true featE _ _ hnp]
        have hnc : (featE && r.contains .check) = false := by
          cases featE
          · rfl
          · have := h2 rfl
            simp only [enterOrdered, Bool.and_eq_true, Bool.not_eq_true'] at this
            rw [this.1]; rfl
        rw [hnc]
        simp only
        have hbody := hb (push ⟨.fresh s.next, .enabled⟩ { s with next := s.next + 1 })
        rw [exitCtx_top ⟨.fresh s.next, .enabled⟩ _ _ s.stack (by simpa [push] using hbody)]

/-- **A safe scope restores the list on every path**, refusal included. -/
theorem scopeWith_bal (init enter : List Gen.FsStep) (ur feat : Bool) (body : Comp) (hb : Bal body)
    (hsafe : scopeSafe init enter = true) : Bal (scopeWith init enter ur feat body) := by
  intro s
  simp only [scopeWith]
  by_cases hrej : (feat && init.contains .check) = true
  · rw [if_pos hrej]
  · rw [if_neg hrej]
    simp only [scopeSafe, Bool.or_eq_true, Bool.and_eq_true] at hsafe
    have hone : enterOnePush enter = true := by
      rcases hsafe with h | h
      · -- ordered implies one push
        clear hrej
        induction enter with
        | nil => rfl
        | cons x r ih =>
          cases x with
          | pushIfUr => simp only [enterOrdered, Bool.and_eq_true] at h; simpa [enterOnePush] using h.2
          | check => simpa [enterOnePush] using ih (by simpa [enterOrdered] using h)
          | unknown => simpa [enterOnePush] using ih (by simpa [enterOrdered] using h)
      · exact h.2
    have hord : feat = true → enterOrdered enter = true := by
      intro hf
      rcases hsafe with h | h
      · exact h
      · exfalso; apply hrej; rw [hf, h.1]; rfl
    exact scopeWith_enter_bal enter ur feat body hb s hone hord

end Malt.Ctx
