import Std.Data.String.ToNat
import MaltModel.Conv.SexpTotal
/- C17: `read (print t) = some t` for the total reader/printer of `Py.Ast` (tree level). -/
set_option linter.unusedSimpArgs false
set_option linter.unusedVariables false
namespace Malt.Conv.SexpTotal
open Malt Malt.Py

theorem nat_rt (i : Nat) : Sexp.nat? (.atom (toString i)) = some i := by
  simp [Sexp.nat?]

theorem nat_rt2 (i : Nat) : Sexp.nat? (.atom i.repr) = some i := by
  simp [Sexp.nat?]

theorem ctx_rt (c : Ctx) : rCtx (pCtx c) = some c := by
  cases c <;> simp [pCtx, rCtx]

theorem bool_rt (b : Bool) : Sexp.bool? (Sexp.ofBool b) = some b := by
  cases b <;> simp [Sexp.ofBool, Sexp.bool?]

theorem strsL_rt : ∀ (l : List String), rStrsL (l.map Sexp.atom) = some l
  | [] => by simp [rStrsL]
  | a :: l => by simp [rStrsL, strsL_rt l]

theorem strs_rt (l : List String) : rStrs (.list (l.map Sexp.atom)) = some l := by
  simp [rStrs, strsL_rt]

theorem pairsL_rt : ∀ (l : List (String × String)), rPairsL (l.map fun p => Sexp.list [.atom p.1, .atom p.2]) = some l
  | [] => by simp [rPairsL]
  | (a, b) :: l => by simp [rPairsL, pairsL_rt l]

theorem pairs_rt (l : List (String × String)) : rPairs (pPairs l) = some l := by
  simp [rPairs, pPairs, pairsL_rt]

mutual
theorem readE_printE : ∀ (e : Expr), printableE e = true → readE (printE e) = some e
  | .noneMarker, _ => by simp [printE, readE]
  | .keyword i arg has v, h => by
      simp only [printableE, Bool.and_eq_true, Bool.or_eq_true, beq_iff_eq] at h
      have ih := readE_printE v h.2
      cases has with
      | true => simp [printE, readE, nat_rt, nat_rt2, ih]
      | false =>
          have : arg = "" := by simpa using h.1
          subst this
          simp [printE, readE, nat_rt, nat_rt2, ih]
  | .boolop i isAnd vs, h => by
      simp only [printableE] at h
      have ih := readEs_printEs vs h
      cases isAnd <;> simp [printE, readE, nat_rt, nat_rt2, ih]
  | .seq i k es c, h => by
      simp only [printableE, Bool.and_eq_true, Bool.or_eq_true, bne_iff_ne, ne_eq, beq_iff_eq] at h
      have ih := readEs_printEs es h.2
      cases k with
      | tuple => simp [printE, readE, nat_rt, nat_rt2, ih, ctx_rt]
      | list => simp [printE, readE, nat_rt, nat_rt2, ih, ctx_rt]
      | set =>
          have : c = .load := by simpa using h.1
          subst this
          simp [printE, readE, nat_rt, nat_rt2, ih]
  | .comp i k es gs, h => by
      simp only [printableE, Bool.and_eq_true] at h
      have ih1 := readEs_printEs es h.1
      have ih2 := readEs_printEs gs h.2
      cases k <;> simp [printE, readE, nat_rt, nat_rt2, ih1, ih2]
  | .name i x0 x1, h => by
      simp [printE, readE, nat_rt, nat_rt2, ctx_rt, bool_rt, strs_rt, pairs_rt]
  | .const i x0 x1, h => by
      simp [printE, readE, nat_rt, nat_rt2, ctx_rt, bool_rt, strs_rt, pairs_rt]
  | .attr i x0 x1 x2, h => by
      simp only [printableE, Bool.and_eq_true] at h
      have ih0 := readE_printE x0 h
      simp [printE, readE, nat_rt, nat_rt2, ctx_rt, bool_rt, strs_rt, pairs_rt, ih0]
  | .subscript i x0 x1 x2, h => by
      simp only [printableE, Bool.and_eq_true] at h
      have ih0 := readE_printE x0 h.1
      have ih1 := readE_printE x1 h.2
      simp [printE, readE, nat_rt, nat_rt2, ctx_rt, bool_rt, strs_rt, pairs_rt, ih0, ih1]
  | .call i x0 x1 x2, h => by
      simp only [printableE, Bool.and_eq_true] at h
      have ih0 := readE_printE x0 h.1.1
      have ih1 := readEs_printEs x1 h.1.2
      have ih2 := readEs_printEs x2 h.2
      simp [printE, readE, nat_rt, nat_rt2, ctx_rt, bool_rt, strs_rt, pairs_rt, ih0, ih1, ih2]
  | .unary i x0 x1, h => by
      simp only [printableE, Bool.and_eq_true] at h
      have ih0 := readE_printE x1 h
      simp [printE, readE, nat_rt, nat_rt2, ctx_rt, bool_rt, strs_rt, pairs_rt, ih0]
  | .binop i x0 x1 x2, h => by
      simp only [printableE, Bool.and_eq_true] at h
      have ih0 := readE_printE x1 h.1
      have ih1 := readE_printE x2 h.2
      simp [printE, readE, nat_rt, nat_rt2, ctx_rt, bool_rt, strs_rt, pairs_rt, ih0, ih1]
  | .compare i x0 x1 x2, h => by
      simp only [printableE, Bool.and_eq_true] at h
      have ih0 := readE_printE x0 h.1
      have ih1 := readEs_printEs x2 h.2
      simp [printE, readE, nat_rt, nat_rt2, ctx_rt, bool_rt, strs_rt, pairs_rt, ih0, ih1]
  | .ifexp i x0 x1 x2, h => by
      simp only [printableE, Bool.and_eq_true] at h
      have ih0 := readE_printE x0 h.1.1
      have ih1 := readE_printE x1 h.1.2
      have ih2 := readE_printE x2 h.2
      simp [printE, readE, nat_rt, nat_rt2, ctx_rt, bool_rt, strs_rt, pairs_rt, ih0, ih1, ih2]
  | .lambda i x0 x1, h => by
      simp only [printableE, Bool.and_eq_true] at h
      have ih0 := readE_printE x0 h.1
      have ih1 := readE_printE x1 h.2
      simp [printE, readE, nat_rt, nat_rt2, ctx_rt, bool_rt, strs_rt, pairs_rt, ih0, ih1]
  | .starred i x0 x1, h => by
      simp only [printableE, Bool.and_eq_true] at h
      have ih0 := readE_printE x0 h
      simp [printE, readE, nat_rt, nat_rt2, ctx_rt, bool_rt, strs_rt, pairs_rt, ih0]
  | .namedexpr i x0 x1, h => by
      simp only [printableE, Bool.and_eq_true] at h
      have ih0 := readE_printE x0 h.1
      have ih1 := readE_printE x1 h.2
      simp [printE, readE, nat_rt, nat_rt2, ctx_rt, bool_rt, strs_rt, pairs_rt, ih0, ih1]
  | .comprehension i x0 x1 x2 x3, h => by
      simp only [printableE, Bool.and_eq_true] at h
      have ih0 := readE_printE x0 h.1.1
      have ih1 := readE_printE x1 h.1.2
      have ih2 := readEs_printEs x2 h.2
      simp [printE, readE, nat_rt, nat_rt2, ctx_rt, bool_rt, strs_rt, pairs_rt, ih0, ih1, ih2]
  | .arguments i x0 x1 x2 x3 x4 x5 x6, h => by
      simp only [printableE, Bool.and_eq_true] at h
      have ih0 := readEs_printEs x0 h.1.1.1.1.1.1
      have ih1 := readEs_printEs x1 h.1.1.1.1.1.2
      have ih2 := readEs_printEs x2 h.1.1.1.1.2
      have ih3 := readEs_printEs x3 h.1.1.1.2
      have ih4 := readEs_printEs x4 h.1.1.2
      have ih5 := readEs_printEs x5 h.1.2
      have ih6 := readEs_printEs x6 h.2
      simp [printE, readE, nat_rt, nat_rt2, ctx_rt, bool_rt, strs_rt, pairs_rt, ih0, ih1, ih2, ih3, ih4, ih5, ih6]
  | .arg i x0 x1, h => by
      simp only [printableE, Bool.and_eq_true] at h
      have ih0 := readEs_printEs x1 h
      simp [printE, readE, nat_rt, nat_rt2, ctx_rt, bool_rt, strs_rt, pairs_rt, ih0]
  | .withitem i x0 x1, h => by
      simp only [printableE, Bool.and_eq_true] at h
      have ih0 := readE_printE x0 h.1
      have ih1 := readEs_printEs x1 h.2
      simp [printE, readE, nat_rt, nat_rt2, ctx_rt, bool_rt, strs_rt, pairs_rt, ih0, ih1]
  | .other i x0 x1 x2, h => by
      simp only [printableE, Bool.and_eq_true] at h
      have ih0 := readEs_printEs x2 h
      simp [printE, readE, nat_rt, nat_rt2, ctx_rt, bool_rt, strs_rt, pairs_rt, ih0]
theorem readEs_printEs : ∀ (es : List Expr), printableEs es = true → readEs (printEs es) = some es
  | [], _ => by simp [printEs, readEs]
  | e :: es, h => by
      simp only [printableEs, Bool.and_eq_true] at h
      simp [printEs, readEs, readE_printE e h.1, readEs_printEs es h.2]
end

mutual
theorem readS_printS : ∀ (s : Stmt), printableS s = true → readS (printS s) = some s
  | .functionDef i x0 x1 x2 x3 x4 x5, h => by
      simp only [printableS, Bool.and_eq_true] at h
      have ih0 := readE_printE x1 h.1.1.1
      have ih1 := readSs_printSs x2 h.1.1.2
      have ih2 := readEs_printEs x3 h.1.2
      have ih3 := readEs_printEs x4 h.2
      simp [printS, readS, nat_rt, nat_rt2, ctx_rt, bool_rt, strs_rt, pairs_rt, ih0, ih1, ih2, ih3]
  | .classDef i x0 x1 x2 x3 x4, h => by
      simp only [printableS, Bool.and_eq_true] at h
      have ih0 := readEs_printEs x1 h.1.1.1
      have ih1 := readEs_printEs x2 h.1.1.2
      have ih2 := readSs_printSs x3 h.1.2
      have ih3 := readEs_printEs x4 h.2
      simp [printS, readS, nat_rt, nat_rt2, ctx_rt, bool_rt, strs_rt, pairs_rt, ih0, ih1, ih2, ih3]
  | .ret i x0, h => by
      simp only [printableS, Bool.and_eq_true] at h
      have ih0 := readEs_printEs x0 h
      simp [printS, readS, nat_rt, nat_rt2, ctx_rt, bool_rt, strs_rt, pairs_rt, ih0]
  | .delete i x0, h => by
      simp only [printableS, Bool.and_eq_true] at h
      have ih0 := readEs_printEs x0 h
      simp [printS, readS, nat_rt, nat_rt2, ctx_rt, bool_rt, strs_rt, pairs_rt, ih0]
  | .assign i x0 x1, h => by
      simp only [printableS, Bool.and_eq_true] at h
      have ih0 := readEs_printEs x0 h.1
      have ih1 := readE_printE x1 h.2
      simp [printS, readS, nat_rt, nat_rt2, ctx_rt, bool_rt, strs_rt, pairs_rt, ih0, ih1]
  | .augAssign i x0 x1 x2, h => by
      simp only [printableS, Bool.and_eq_true] at h
      have ih0 := readE_printE x0 h.1
      have ih1 := readE_printE x2 h.2
      simp [printS, readS, nat_rt, nat_rt2, ctx_rt, bool_rt, strs_rt, pairs_rt, ih0, ih1]
  | .annAssign i x0 x1 x2 x3, h => by
      simp only [printableS, Bool.and_eq_true] at h
      have ih0 := readE_printE x0 h.1.1
      have ih1 := readE_printE x1 h.1.2
      have ih2 := readEs_printEs x2 h.2
      simp [printS, readS, nat_rt, nat_rt2, ctx_rt, bool_rt, strs_rt, pairs_rt, ih0, ih1, ih2]
  | .for_ i x0 x1 x2 x3 x4 x5, h => by
      simp only [printableS, Bool.and_eq_true] at h
      have ih0 := readE_printE x0 h.1.1.1.1
      have ih1 := readE_printE x1 h.1.1.1.2
      have ih2 := readSs_printSs x2 h.1.1.2
      have ih3 := readSs_printSs x3 h.1.2
      have ih4 := readEs_printEs x4 h.2
      simp [printS, readS, nat_rt, nat_rt2, ctx_rt, bool_rt, strs_rt, pairs_rt, ih0, ih1, ih2, ih3, ih4]
  | .while_ i x0 x1 x2, h => by
      simp only [printableS, Bool.and_eq_true] at h
      have ih0 := readE_printE x0 h.1.1
      have ih1 := readSs_printSs x1 h.1.2
      have ih2 := readSs_printSs x2 h.2
      simp [printS, readS, nat_rt, nat_rt2, ctx_rt, bool_rt, strs_rt, pairs_rt, ih0, ih1, ih2]
  | .if_ i x0 x1 x2, h => by
      simp only [printableS, Bool.and_eq_true] at h
      have ih0 := readE_printE x0 h.1.1
      have ih1 := readSs_printSs x1 h.1.2
      have ih2 := readSs_printSs x2 h.2
      simp [printS, readS, nat_rt, nat_rt2, ctx_rt, bool_rt, strs_rt, pairs_rt, ih0, ih1, ih2]
  | .with_ i x0 x1 x2, h => by
      simp only [printableS, Bool.and_eq_true] at h
      have ih0 := readEs_printEs x0 h.1
      have ih1 := readSs_printSs x1 h.2
      simp [printS, readS, nat_rt, nat_rt2, ctx_rt, bool_rt, strs_rt, pairs_rt, ih0, ih1]
  | .raise i x0 x1, h => by
      simp only [printableS, Bool.and_eq_true] at h
      have ih0 := readEs_printEs x0 h.1
      have ih1 := readEs_printEs x1 h.2
      simp [printS, readS, nat_rt, nat_rt2, ctx_rt, bool_rt, strs_rt, pairs_rt, ih0, ih1]
  | .try_ i x0 x1 x2 x3, h => by
      simp only [printableS, Bool.and_eq_true] at h
      have ih0 := readSs_printSs x0 h.1.1.1
      have ih1 := readSs_printSs x1 h.1.1.2
      have ih2 := readSs_printSs x2 h.1.2
      have ih3 := readSs_printSs x3 h.2
      simp [printS, readS, nat_rt, nat_rt2, ctx_rt, bool_rt, strs_rt, pairs_rt, ih0, ih1, ih2, ih3]
  | .handler i x0 x1 x2, h => by
      simp only [printableS, Bool.and_eq_true] at h
      have ih0 := readEs_printEs x0 h.1
      have ih1 := readSs_printSs x2 h.2
      simp [printS, readS, nat_rt, nat_rt2, ctx_rt, bool_rt, strs_rt, pairs_rt, ih0, ih1]
  | .assert_ i x0 x1, h => by
      simp only [printableS, Bool.and_eq_true] at h
      have ih0 := readE_printE x0 h.1
      have ih1 := readEs_printEs x1 h.2
      simp [printS, readS, nat_rt, nat_rt2, ctx_rt, bool_rt, strs_rt, pairs_rt, ih0, ih1]
  | .import_ i x0, h => by
      simp [printS, readS, nat_rt, nat_rt2, ctx_rt, bool_rt, strs_rt, pairs_rt]
  | .importFrom i x0 x1 x2, h => by
      simp [printS, readS, nat_rt, nat_rt2, ctx_rt, bool_rt, strs_rt, pairs_rt]
  | .global i x0, h => by
      simp [printS, readS, nat_rt, nat_rt2, ctx_rt, bool_rt, strs_rt, pairs_rt]
  | .nonlocal i x0, h => by
      simp [printS, readS, nat_rt, nat_rt2, ctx_rt, bool_rt, strs_rt, pairs_rt]
  | .expr i x0, h => by
      simp only [printableS, Bool.and_eq_true] at h
      have ih0 := readE_printE x0 h
      simp [printS, readS, nat_rt, nat_rt2, ctx_rt, bool_rt, strs_rt, pairs_rt, ih0]
  | .pass i , h => by
      simp [printS, readS, nat_rt, nat_rt2, ctx_rt, bool_rt, strs_rt, pairs_rt]
  | .break_ i , h => by
      simp [printS, readS, nat_rt, nat_rt2, ctx_rt, bool_rt, strs_rt, pairs_rt]
  | .continue_ i , h => by
      simp [printS, readS, nat_rt, nat_rt2, ctx_rt, bool_rt, strs_rt, pairs_rt]
  | .other i x0 x1 x2, h => by
      simp only [printableS, Bool.and_eq_true] at h
      have ih0 := readEs_printEs x1 h.1
      have ih1 := readSs_printSs x2 h.2
      simp [printS, readS, nat_rt, nat_rt2, ctx_rt, bool_rt, strs_rt, pairs_rt, ih0, ih1]
theorem readSs_printSs : ∀ (ss : List Stmt), printableSs ss = true → readSs (printSs ss) = some ss
  | [], _ => by simp [printSs, readSs]
  | s :: ss, h => by
      simp only [printableSs, Bool.and_eq_true] at h
      simp [printSs, readSs, readS_printS s h.1, readSs_printSs ss h.2]
end

end Malt.Conv.SexpTotal
