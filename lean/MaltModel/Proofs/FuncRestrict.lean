import MaltModel.Func.Functionalise
/-! Restricting every live set of an annotation to a set `S ⊇ reads` keeps it consistent (for the continuation
restricted to `S`), and changes nothing else: same `Sem` program, same functionalised program, same `declared` /
`undefined` / definedness facts.  Used for the exceptional entry into a `finally` block. -/
namespace Malt.Func
open Malt.Sem

theorem mem_fl {S l : List Name} {x : Name} : x ∈ fl S l ↔ x ∈ l ∧ x ∈ S := by
  simp [fl, List.mem_filter]

theorem fl_append (S a b : List Name) : fl S (a ++ b) = fl S a ++ fl S b := by simp [fl]

theorem fl_sub {S l m : List Name} (h : l ⊆ m) : fl S l ⊆ fl S m :=
  fun _ hx => mem_fl.mpr ⟨h (mem_fl.mp hx).1, (mem_fl.mp hx).2⟩

theorem fl_self {S l : List Name} (h : ∀ x ∈ l, x ∈ S) : fl S l = l := by
  simp only [fl]
  exact List.filter_eq_self.mpr (fun x hx => by simpa using h x hx)

theorem fl_filter (S l : List Name) (p : Name → Bool) : fl S (l.filter p) = (fl S l).filter p := by
  simp only [fl, List.filter_filter]
  apply List.filter_congr
  intro x _; exact Bool.and_comm _ _

theorem sub_fl_of_sub {S l m : List Name} (h1 : l ⊆ m) (h2 : l ⊆ S) : l ⊆ fl S m :=
  fun _ hx => mem_fl.mpr ⟨h1 hx, h2 hx⟩

/-! ### what restriction leaves unchanged -/
theorem info_restrict (S : List Name) (s : AStmt) : (restrictS S s).info = s.info.restrict S := by
  cases s <;> rfl

mutual
theorem erase_restrictS (S : List Name) : ∀ (s : AStmt), eraseS (restrictS S s) = eraseS s
  | .assign .. => rfl | .expr .. => rfl | .pass .. => rfl | .ret .. => rfl | .raise .. => rfl
  | .ifS i c t e => by simp [restrictS, eraseS, erase_restrictB S t, erase_restrictB S e]
  | .whileS i c b => by simp [restrictS, eraseS, erase_restrictB S b]
  | .forS i x it ex b => by simp [restrictS, eraseS, erase_restrictB S b]
  | .withS i tag b => by simp [restrictS, eraseS, erase_restrictB S b]
  | .tryS i b hs f => by simp [restrictS, eraseS, erase_restrictB S b, erase_restrictH S hs, erase_restrictB S f]
theorem erase_restrictB (S : List Name) : ∀ (b : List AStmt), eraseB (restrictB S b) = eraseB b
  | [] => rfl
  | s :: r => by simp [restrictB, eraseB, erase_restrictS S s, erase_restrictB S r]
theorem erase_restrictH (S : List Name) : ∀ (hs : List (Nat × List AStmt)), eraseH (restrictH S hs) = eraseH hs
  | [] => rfl
  | (t, b) :: r => by simp [restrictH, eraseH, erase_restrictB S b, erase_restrictH S r]
end

mutual
theorem func_restrictS (S : List Name) : ∀ (s : AStmt), funcS (restrictS S s) = funcS s
  | .assign .. => rfl | .expr .. => rfl | .pass .. => rfl | .ret .. => rfl | .raise .. => rfl
  | .ifS i c t e => by simp [restrictS, funcS, Info.restrict, func_restrictB S t, func_restrictB S e]
  | .whileS i c b => by simp [restrictS, funcS, Info.restrict, func_restrictB S b]
  | .forS i x it ex b => by simp [restrictS, funcS, Info.restrict, func_restrictB S b]
  | .withS i tag b => by simp [restrictS, funcS, func_restrictB S b]
  | .tryS i b hs f => by simp [restrictS, funcS, func_restrictB S b, func_restrictH S hs, func_restrictB S f]
theorem func_restrictB (S : List Name) : ∀ (b : List AStmt), funcB (restrictB S b) = funcB b
  | [] => rfl
  | s :: r => by simp [restrictB, funcB, func_restrictS S s, func_restrictB S r]
theorem func_restrictH (S : List Name) : ∀ (hs : List (Nat × List AStmt)), funcH (restrictH S hs) = funcH hs
  | [] => rfl
  | (t, b) :: r => by simp [restrictH, funcH, func_restrictB S b, func_restrictH S r]
end

mutual
theorem asg_restrictS (S : List Name) : ∀ (s : AStmt), asgS (restrictS S s) = asgS s
  | .assign .. => rfl | .expr .. => rfl | .pass .. => rfl | .ret .. => rfl | .raise .. => rfl
  | .ifS i c t e => by simp [restrictS, asgS, asg_restrictB S t, asg_restrictB S e]
  | .whileS i c b => by simp [restrictS, asgS, asg_restrictB S b]
  | .forS i x it ex b => by simp [restrictS, asgS, asg_restrictB S b]
  | .withS i tag b => by simp [restrictS, asgS, asg_restrictB S b]
  | .tryS i b hs f => by simp [restrictS, asgS, asg_restrictB S b, asg_restrictH S hs, asg_restrictB S f]
theorem asg_restrictB (S : List Name) : ∀ (b : List AStmt), asgB (restrictB S b) = asgB b
  | [] => rfl
  | s :: r => by simp [restrictB, asgB, asg_restrictS S s, asg_restrictB S r]
theorem asg_restrictH (S : List Name) : ∀ (hs : List (Nat × List AStmt)), asgH (restrictH S hs) = asgH hs
  | [] => rfl
  | (t, b) :: r => by simp [restrictH, asgH, asg_restrictB S b, asg_restrictH S r]
end

mutual
theorem raises_restrictS (S : List Name) : ∀ (s : AStmt), raisesS (restrictS S s) = raisesS s
  | .assign .. => rfl | .expr .. => rfl | .pass .. => rfl | .ret .. => rfl | .raise .. => rfl
  | .ifS i c t e => by simp [restrictS, raisesS, raises_restrictB S t, raises_restrictB S e]
  | .whileS i c b => by simp [restrictS, raisesS, raises_restrictB S b]
  | .forS i x it ex b => by simp [restrictS, raisesS, raises_restrictB S b]
  | .withS i tag b => by simp [restrictS, raisesS, raises_restrictB S b]
  | .tryS i b hs f => by simp [restrictS, raisesS, raises_restrictB S b, raises_restrictH S hs, raises_restrictB S f]
theorem raises_restrictB (S : List Name) : ∀ (b : List AStmt), raisesB (restrictB S b) = raisesB b
  | [] => rfl
  | s :: r => by simp [restrictB, raisesB, raises_restrictS S s, raises_restrictB S r]
theorem raises_restrictH (S : List Name) : ∀ (hs : List (Nat × List AStmt)), raisesH (restrictH S hs) = raisesH hs
  | [] => rfl
  | (t, b) :: r => by simp [restrictH, raisesH, raises_restrictB S b, raises_restrictH S r]
end

mutual
theorem noRet_restrictS (S : List Name) : ∀ (s : AStmt), noRetS (restrictS S s) = noRetS s
  | .assign .. => rfl | .expr .. => rfl | .pass .. => rfl | .ret .. => rfl | .raise .. => rfl
  | .ifS i c t e => by simp [restrictS, noRetS, noRet_restrictB S t, noRet_restrictB S e]
  | .whileS i c b => by simp [restrictS, noRetS, noRet_restrictB S b]
  | .forS i x it ex b => by simp [restrictS, noRetS, noRet_restrictB S b]
  | .withS i tag b => by simp [restrictS, noRetS, noRet_restrictB S b]
  | .tryS i b hs f => by simp [restrictS, noRetS, noRet_restrictB S b, noRet_restrictH S hs, noRet_restrictB S f]
theorem noRet_restrictB (S : List Name) : ∀ (b : List AStmt), noRetB (restrictB S b) = noRetB b
  | [] => rfl
  | s :: r => by simp [restrictB, noRetB, noRet_restrictS S s, noRet_restrictB S r]
theorem noRet_restrictH (S : List Name) : ∀ (hs : List (Nat × List AStmt)), noRetH (restrictH S hs) = noRetH hs
  | [] => rfl
  | (t, b) :: r => by simp [restrictH, noRetH, noRet_restrictB S b, noRet_restrictH S r]
end

mutual
theorem reads_restrictS (S : List Name) : ∀ (s : AStmt), readsS (restrictS S s) = readsS s
  | .assign .. => rfl | .expr .. => rfl | .pass .. => rfl | .ret .. => rfl | .raise .. => rfl
  | .ifS i c t e => by simp [restrictS, readsS, reads_restrictB S t, reads_restrictB S e]
  | .whileS i c b => by simp [restrictS, readsS, reads_restrictB S b]
  | .forS i x it ex b => by simp [restrictS, readsS, reads_restrictB S b]
  | .withS i tag b => by simp [restrictS, readsS, reads_restrictB S b]
  | .tryS i b hs f => by simp [restrictS, readsS, reads_restrictB S b, reads_restrictH S hs, reads_restrictB S f]
theorem reads_restrictB (S : List Name) : ∀ (b : List AStmt), readsB (restrictB S b) = readsB b
  | [] => rfl
  | s :: r => by simp [restrictB, readsB, reads_restrictS S s, reads_restrictB S r]
theorem reads_restrictH (S : List Name) : ∀ (hs : List (Nat × List AStmt)), readsH (restrictH S hs) = readsH hs
  | [] => rfl
  | (t, b) :: r => by simp [restrictH, readsH, reads_restrictB S b, reads_restrictH S r]
end

theorem blockIn_restrict (S : List Name) (b : List AStmt) (O : List Name) :
    blockIn (restrictB S b) (fl S O) = fl S (blockIn b O) := by
  cases b with
  | nil => rfl
  | cons s r => simp [restrictB, blockIn, info_restrict, Info.restrict]

/-! ### exception contexts under restriction -/
theorem hsAll_map (S : List Name) : ∀ (hs : List (Nat × List Name)),
    hsAll (hs.map (fun h => (h.1, fl S h.2))) = fl S (hsAll hs)
  | [] => by simp [hsAll, fl]
  | (t, l) :: r => by simp [hsAll, hsAll_map S r, fl_append]

theorem all_filt (S : List Name) (K : ExcCtx) : (K.filt S).all = fl S K.all := by
  simp [ExcCtx.all, ExcCtx.filt, hsAll_map, fl_append]

theorem get_filt (S : List Name) (K : ExcCtx) (e : Exc) : (K.filt S).get e = fl S (K.get e) := by
  cases e with
  | user t =>
    simp only [ExcCtx.get, ExcCtx.filt, List.find?_map]
    cases h : K.hs.find? ((fun h => h.1 == t) ∘ fun h => (h.1, fl S h.2)) with
    | none =>
      have : K.hs.find? (fun h => h.1 == t) = none := by simpa [Function.comp_def] using h
      simp [this]
    | some hh =>
      have : K.hs.find? (fun h => h.1 == t) = some hh := by simpa [Function.comp_def] using h
      simp [this]
  | nameError y => rfl
  | typeError => rfl

theorem handlerIns_restrict (S Fi : List Name) : ∀ (hs : List (Nat × List AStmt)),
    handlerIns (fl S Fi) (restrictH S hs) = (handlerIns Fi hs).map (fun h => (h.1, fl S h.2))
  | [] => rfl
  | (t, b) :: r => by simp [restrictH, handlerIns, blockIn_restrict, handlerIns_restrict S Fi r]

theorem finExcIn_restrict (S : List Name) (K : ExcCtx) (f : List AStmt) (O : List Name) :
    finExcIn (K.filt S) (restrictB S f) (fl S O) = fl S (finExcIn K f O) := by
  simp only [finExcIn, reads_restrictB, all_filt, ← fl_append, blockIn_restrict]
  simp only [fl, List.filter_filter]
  apply List.filter_congr
  intro x _
  rw [Bool.eq_iff_iff]
  simp only [Bool.and_eq_true, List.contains_iff_mem, List.mem_append, List.mem_filter]
  constructor
  · rintro ⟨h1 | h1, h2⟩
    · exact ⟨h2, Or.inl h1⟩
    · exact ⟨h2, Or.inr h1.1⟩
  · rintro ⟨h1, h2 | h2⟩
    · exact ⟨Or.inl h2, h1⟩
    · exact ⟨Or.inr ⟨h2, h1⟩, h1⟩

/-! ### consistency is preserved -/
theorem raiseOK_restrict {S : List Name} {K : ExcCtx} {i : Info} {ts : List Nat} (h : raiseOK K i ts) :
    raiseOK (K.filt S) (i.restrict S) ts := by
  intro t ht
  rw [get_filt]
  simp only [Info.restrict, ← fl_append]
  exact fl_sub (h t ht)

theorem sub_of_append_left {a b S : List Name} (h : a ++ b ⊆ S) : a ⊆ S := fun _ hx => h (List.mem_append.mpr (Or.inl hx))
theorem sub_of_append_right {a b S : List Name} (h : a ++ b ⊆ S) : b ⊆ S := fun _ hx => h (List.mem_append.mpr (Or.inr hx))

mutual
theorem live_restrictS (S : List Name) : ∀ (K : ExcCtx) (s : AStmt), LiveS K s → readsS s ⊆ S →
    LiveS (K.filt S) (restrictS S s)
  | K, .assign i x e, h, hr => by
      simp only [LiveS] at h
      simp only [readsS] at hr
      simp only [restrictS, LiveS, Info.restrict, ExcCtx.filt]
      exact ⟨sub_fl_of_sub h.1 hr, by rw [← fl_filter]; exact fl_sub h.2.1, fl_sub h.2.2⟩
  | K, .expr i e, h, hr => by
      simp only [LiveS] at h
      simp only [readsS] at hr
      simp only [restrictS, LiveS, Info.restrict, ExcCtx.filt]
      exact ⟨sub_fl_of_sub h.1 hr, fl_sub h.2.1, fl_sub h.2.2⟩
  | K, .pass i, h, _ => by
      simp only [LiveS] at h
      simp only [restrictS, LiveS, Info.restrict]
      exact fl_sub h
  | K, .ret i e, h, hr => by
      simp only [LiveS] at h
      simp only [readsS] at hr
      simp only [restrictS, LiveS, Info.restrict, ExcCtx.filt]
      exact ⟨sub_fl_of_sub h.1 hr, fl_sub h.2⟩
  | K, .raise i t, h, _ => by
      simp only [LiveS] at h
      simp only [restrictS, LiveS, Info.restrict]
      rw [get_filt]; exact fl_sub h
  | K, .ifS i c t e, h, hr => by
      simp only [LiveS] at h
      simp only [readsS] at hr
      obtain ⟨h1, h2, h3, h4, h5, h6, h7⟩ := h
      have ht := live_restrictB S K t _ h4 (sub_of_append_left (sub_of_append_right hr))
      have he := live_restrictB S K e _ h5 (sub_of_append_right (sub_of_append_right hr))
      simp only [restrictS, LiveS]
      refine ⟨sub_fl_of_sub h1 (sub_of_append_left hr), ?_, ?_, ht, he, fl_sub h6, ?_⟩
      · simp only [Info.restrict]; rw [blockIn_restrict]; exact fl_sub h2
      · simp only [Info.restrict]; rw [blockIn_restrict]; exact fl_sub h3
      · rw [raises_restrictB, raises_restrictB]; exact raiseOK_restrict h7
  | K, .whileS i c b, h, hr => by
      simp only [LiveS] at h
      simp only [readsS] at hr
      obtain ⟨h1, h2, h3, h4, h5, h6⟩ := h
      have hb := live_restrictB S K b _ h4 (sub_of_append_right hr)
      simp only [restrictS, LiveS]
      refine ⟨sub_fl_of_sub h1 (sub_of_append_left hr), ?_, fl_sub h3, hb, fl_sub h5, ?_⟩
      · simp only [Info.restrict]; rw [blockIn_restrict]; exact fl_sub h2
      · rw [raises_restrictB]; exact raiseOK_restrict h6
  | K, .forS i x it extra b, h, hr => by
      simp only [LiveS] at h
      simp only [readsS] at hr
      obtain ⟨h1, h2, h3, h4, h5, h6, h7⟩ := h
      have hb := live_restrictB S K b _ h5 (sub_of_append_right (sub_of_append_right hr))
      simp only [restrictS, LiveS]
      refine ⟨sub_fl_of_sub h1 (sub_of_append_left hr), sub_fl_of_sub h2 (sub_of_append_left (sub_of_append_right hr)),
        fl_sub h3, ?_, hb, fl_sub h6, ?_⟩
      · simp only [Info.restrict]; rw [blockIn_restrict, ← fl_filter]; exact fl_sub h4
      · rw [raises_restrictB]; exact raiseOK_restrict h7
  | K, .withS i tag b, h, hr => by
      simp only [LiveS] at h
      simp only [readsS] at hr
      have hb := live_restrictB S K b _ h.2 hr
      simp only [restrictS, LiveS]
      refine ⟨?_, hb⟩
      simp only [Info.restrict]; rw [blockIn_restrict]; exact fl_sub h.1
  | K, .tryS i b hs f, h, hr => by
      simp only [LiveS] at h
      simp only [readsS] at hr
      obtain ⟨h1, h2, h3, h4⟩ := h
      have hf := live_restrictB S K f _ h1 (sub_of_append_right (sub_of_append_right hr))
      have hh := live_restrictH S _ hs _ h2 (sub_of_append_left (sub_of_append_right hr))
      have hb := live_restrictB S _ b _ h3 (sub_of_append_left hr)
      have eC : (i.restrict S).liveOut ++ (K.filt S).all = fl S (i.liveOut ++ K.all) := by
        simp [Info.restrict, all_filt, fl_append]
      have eFx : finExcIn (K.filt S) (restrictB S f) (i.restrict S).liveOut = fl S (finExcIn K f i.liveOut) := by
        simp only [Info.restrict]; exact finExcIn_restrict S K f i.liveOut
      simp only [restrictS, LiveS]
      rw [eC, eFx, blockIn_restrict, handlerIns_restrict]
      refine ⟨hf, ?_, ?_, ?_⟩
      · simpa [ExcCtx.filt, ExcCtx.toFin] using hh
      · simpa [ExcCtx.filt] using hb
      · rw [blockIn_restrict]; exact fl_sub h4
theorem live_restrictB (S : List Name) : ∀ (K : ExcCtx) (b : List AStmt) (O : List Name), LiveB K b O → readsB b ⊆ S →
    LiveB (K.filt S) (restrictB S b) (fl S O)
  | _, [], _, _, _ => by simp [restrictB, LiveB]
  | K, s :: r, O, h, hr => by
      simp only [LiveB] at h
      simp only [readsB] at hr
      simp only [restrictB, LiveB]
      refine ⟨live_restrictS S K s h.1 (sub_of_append_left hr), ?_, live_restrictB S K r O h.2.2 (sub_of_append_right hr)⟩
      rw [blockIn_restrict, info_restrict]
      exact fl_sub h.2.1
theorem live_restrictH (S : List Name) : ∀ (K : ExcCtx) (hs : List (Nat × List AStmt)) (O : List Name), LiveH K hs O →
    readsH hs ⊆ S → LiveH (K.filt S) (restrictH S hs) (fl S O)
  | _, [], _, _, _ => by simp [restrictH, LiveH]
  | K, (t, b) :: r, O, h, hr => by
      simp only [LiveH] at h
      simp only [readsH] at hr
      simp only [restrictH, LiveH]
      exact ⟨live_restrictB S K b O h.1 (sub_of_append_left hr), live_restrictH S K r O h.2 (sub_of_append_right hr)⟩
end

theorem liveEither_restrict {S : List Name} {i : Info} {v : Name} (h : liveEither (i.restrict S) v = true) :
    liveEither i v = true := by
  simp only [liveEither, Info.restrict, Bool.or_eq_true, List.contains_iff_mem] at h ⊢
  rcases h with h | h
  · exact Or.inl (mem_fl.mp h).1
  · exact Or.inr (mem_fl.mp h).1

theorem filter_liveEither_restrict {S : List Name} {i : Info} {m d : List Name}
    (h : m.filter (liveEither i) ⊆ d) : m.filter (liveEither (i.restrict S)) ⊆ d := by
  intro x hx
  have hx' := List.mem_filter.mp hx
  exact h (List.mem_filter.mpr ⟨hx'.1, liveEither_restrict hx'.2⟩)

mutual
theorem decl_restrictS (S : List Name) : ∀ (s : AStmt), DeclS s → DeclS (restrictS S s)
  | .assign .., _ => by simp [restrictS, DeclS]
  | .expr .., _ => by simp [restrictS, DeclS]
  | .pass .., _ => by simp [restrictS, DeclS]
  | .ret .., _ => by simp [restrictS, DeclS]
  | .raise .., _ => by simp [restrictS, DeclS]
  | .ifS i c t e, h => by
      simp only [DeclS] at h
      simp only [restrictS, DeclS, asg_restrictB]
      exact ⟨filter_liveEither_restrict h.1, h.2.1, decl_restrictB S t h.2.2.1, decl_restrictB S e h.2.2.2⟩
  | .whileS i c b, h => by
      simp only [DeclS] at h
      simp only [restrictS, DeclS, asg_restrictB]
      exact ⟨filter_liveEither_restrict h.1, h.2.1, decl_restrictB S b h.2.2⟩
  | .forS i x it ex b, h => by
      simp only [DeclS] at h
      simp only [restrictS, DeclS, asg_restrictB]
      exact ⟨filter_liveEither_restrict h.1, h.2.1, decl_restrictB S b h.2.2⟩
  | .withS i tag b, h => by
      simp only [DeclS] at h
      simp only [restrictS, DeclS]
      exact decl_restrictB S b h
  | .tryS i b hs f, h => by
      simp only [DeclS] at h
      simp only [restrictS, DeclS]
      exact ⟨decl_restrictB S b h.1, decl_restrictH S hs h.2.1, decl_restrictB S f h.2.2⟩
theorem decl_restrictB (S : List Name) : ∀ (b : List AStmt), DeclB b → DeclB (restrictB S b)
  | [], _ => by simp [restrictB, DeclB]
  | s :: r, h => by
      simp only [DeclB] at h
      simp only [restrictB, DeclB]
      exact ⟨decl_restrictS S s h.1, decl_restrictB S r h.2⟩
theorem decl_restrictH (S : List Name) : ∀ (hs : List (Nat × List AStmt)), DeclH hs → DeclH (restrictH S hs)
  | [], _ => by simp [restrictH, DeclH]
  | (t, b) :: r, h => by
      simp only [DeclH] at h
      simp only [restrictH, DeclH]
      exact ⟨decl_restrictB S b h.1, decl_restrictH S r h.2⟩
end

mutual
theorem def_restrictS (S : List Name) : ∀ (D : List Name) (s : AStmt), DefS D s → DefS D (restrictS S s)
  | _, .assign .., _ => by simp [restrictS, DefS]
  | _, .expr .., _ => by simp [restrictS, DefS]
  | _, .pass .., _ => by simp [restrictS, DefS]
  | _, .ret .., _ => by simp [restrictS, DefS]
  | _, .raise .., _ => by simp [restrictS, DefS]
  | D, .ifS i c t e, h => by
      simp only [DefS] at h
      simp only [restrictS, DefS]
      exact ⟨h.1, h.2.1, def_restrictB S D t h.2.2.1, def_restrictB S D e h.2.2.2⟩
  | D, .whileS i c b, h => by
      simp only [DefS] at h
      simp only [restrictS, DefS, asg_restrictB]
      exact ⟨h.1, h.2.1, def_restrictB S _ b h.2.2⟩
  | D, .forS i x it ex b, h => by
      simp only [DefS] at h
      simp only [restrictS, DefS, asg_restrictB]
      exact ⟨h.1, h.2.1, def_restrictB S _ b h.2.2⟩
  | D, .withS i tag b, h => by
      simp only [DefS] at h
      simp only [restrictS, DefS]
      exact def_restrictB S D b h
  | D, .tryS i b hs f, h => by
      simp only [DefS] at h
      simp only [restrictS, DefS, asg_restrictB, asg_restrictH]
      exact ⟨def_restrictB S D b h.1, def_restrictH S _ hs h.2.1, def_restrictB S _ f h.2.2⟩
theorem def_restrictB (S : List Name) : ∀ (D : List Name) (b : List AStmt), DefB D b → DefB D (restrictB S b)
  | _, [], _ => by simp [restrictB, DefB]
  | D, s :: r, h => by
      simp only [DefB] at h
      simp only [restrictB, DefB, asg_restrictS]
      exact ⟨def_restrictS S D s h.1, def_restrictB S _ r h.2⟩
theorem def_restrictH (S : List Name) : ∀ (D : List Name) (hs : List (Nat × List AStmt)), DefH D hs → DefH D (restrictH S hs)
  | _, [], _ => by simp [restrictH, DefH]
  | D, (t, b) :: r, h => by
      simp only [DefH] at h
      simp only [restrictH, DefH]
      exact ⟨def_restrictB S D b h.1, def_restrictH S D r h.2⟩
end

end Malt.Func
