import MaltModel.Conv.AnfSpec
/- Helper lemmas for C18: structural facts about the ANF model. -/
namespace Malt.Anf
open Malt.Py

theorem bind_ok {ε α β : Type} {x : Except ε α} {f : α → Except ε β} {b : β} :
    (x >>= f) = .ok b ↔ ∃ a, x = .ok a ∧ f a = .ok b := by
  cases x with
  | error e => simp [bind, Except.bind]
  | ok a => simp [bind, Except.bind]

theorem HoistsOk.nil (cfg : Config) (n : Nat) : HoistsOk cfg n [] n := rfl

theorem HoistsOk.append {cfg : Config} : ∀ {D1 : List Stmt} {n m n' : Nat} {D2 : List Stmt},
    HoistsOk cfg n D1 m → HoistsOk cfg m D2 n' → HoistsOk cfg n (D1 ++ D2) n'
  | [], n, m, n', D2, h1, h2 => by simp [HoistsOk] at h1; subst h1; simpa using h2
  | s :: D1, n, m, n', D2, h1, h2 => by
      simp only [HoistsOk, List.cons_append] at h1 ⊢
      exact ⟨h1.1, HoistsOk.append h1.2 h2⟩

theorem HoistsOk.le {cfg : Config} : ∀ {D : List Stmt} {n n' : Nat}, HoistsOk cfg n D n' → n ≤ n'
  | [], n, n', h => by simp [HoistsOk] at h; omega
  | _ :: D, n, n', h => by
      have := HoistsOk.le h.2
      omega

theorem tmpName_trivial (n : Nat) : isTrivial (.name 0 (tmpName n) .load) = true := by
  have h : ∀ s : String, tmpName n ≠ s → (tmpName n == s) = false := by
    intro s hs; simpa using hs
  have key : ∀ s : String, s.toList.head? ≠ some 't' → tmpName n ≠ s := by
    intro s hs heq
    apply hs
    rw [← heq]
    simp [tmpName, String.toList_append]
  simp only [isTrivial]
  rw [h _ (key "True" (by decide)), h _ (key "False" (by decide)), h _ (key "None" (by decide))]
  rfl

/-! ### `ensure` -/
theorem hoist_spec (cfg : Config) (pk fld : String) (x : Expr) (n : Nat) (hq : quiet cfg x = true) :
    HoistsOk cfg n (hoist x n).2.1 (hoist x n).2.2 ∧ quiet cfg (hoist x n).1 = true
      ∧ okChild cfg pk fld (hoist x n).1 = true := by
  refine ⟨⟨⟨x, rfl, hq⟩, rfl⟩, by simp [hoist, quiet], ?_⟩
  simp only [hoist, okChild, tmpName_trivial, Bool.true_or]

/-- `keyword` / `Starred` / `withitem` / absent: looked through by `_ensure_node_in_anf`. -/
def isWrapper : Expr → Bool
  | .noneMarker | .keyword .. | .starred .. | .withitem .. => true
  | _ => false

theorem ensure_plain (cfg : Config) (pk fld : String) (e : Expr) (n : Nat) (hw : isWrapper e = false) :
    ensure cfg pk fld e n =
      if isTrivial e then (e, [], n) else if shouldTransform cfg pk fld (kindOf e) then hoist e n else (e, [], n) := by
  cases e <;> first | (simp [isWrapper] at hw; done) | rfl

theorem okChild_plain (cfg : Config) (pk fld : String) (e : Expr) (hw : isWrapper e = false) :
    okChild cfg pk fld e = (isTrivial e || !shouldTransform cfg pk fld (kindOf e)) := by
  cases e <;> first | (simp [isWrapper] at hw; done) | rfl

theorem ensure_plain_spec (cfg : Config) (pk fld : String) (x : Expr) (n : Nat) (hw : isWrapper x = false)
    (hq : quiet cfg x = true) :
    HoistsOk cfg n (ensure cfg pk fld x n).2.1 (ensure cfg pk fld x n).2.2
      ∧ quiet cfg (ensure cfg pk fld x n).1 = true ∧ okChild cfg pk fld (ensure cfg pk fld x n).1 = true := by
  rw [ensure_plain cfg pk fld x n hw]
  split
  · next h => simp [HoistsOk, hq, okChild_plain cfg pk fld x hw, h]
  · split
    · exact hoist_spec cfg pk fld _ n hq
    · next h1 h2 => simp [HoistsOk, hq, okChild_plain cfg pk fld x hw, h2]

theorem ensure_plain_nil (cfg : Config) (pk fld : String) (x : Expr) (n : Nat) (hw : isWrapper x = false)
    (h : (ensure cfg pk fld x n).2.1 = []) : (ensure cfg pk fld x n).1 = x := by
  rw [ensure_plain cfg pk fld x n hw] at h ⊢
  split
  · rfl
  · split
    · next h2 => rw [if_neg (by assumption), if_pos h2] at h; simp [hoist] at h
    · rfl

mutual
theorem ensure_spec (cfg : Config) (pk fld : String) : ∀ (x : Expr) (n : Nat), quiet cfg x = true →
    HoistsOk cfg n (ensure cfg pk fld x n).2.1 (ensure cfg pk fld x n).2.2
      ∧ quiet cfg (ensure cfg pk fld x n).1 = true ∧ okChild cfg pk fld (ensure cfg pk fld x n).1 = true
  | .noneMarker, n, _ => by simp [ensure, HoistsOk, quiet, okChild]
  | .keyword i a h v, n, hq => by
      have := ensure_spec cfg pk fld v n (by simpa [quiet] using hq)
      simpa [ensure, quiet, okChild] using this
  | .starred i v c, n, hq => by
      have := ensure_spec cfg pk fld v n (by simpa [quiet] using hq)
      simpa [ensure, quiet, okChild] using this
  | .withitem i ce ov, n, hq => by
      simp only [quiet, Bool.and_eq_true] at hq
      have h1 := ensure_spec cfg pk fld ce n hq.1
      have h2 := ensureList_spec cfg pk fld ov (ensure cfg pk fld ce n).2.2 hq.2
      simp only [ensure, quiet, okChild, Bool.and_eq_true]
      exact ⟨HoistsOk.append h1.1 h2.1, ⟨h1.2.1, h2.2.1⟩, ⟨h1.2.2, h2.2.2⟩⟩
  | .name .., n, hq | .const .., n, hq | .attr .., n, hq | .subscript .., n, hq
  | .call .., n, hq | .boolop .., n, hq | .unary .., n, hq | .binop .., n, hq
  | .compare .., n, hq | .ifexp .., n, hq | .lambda .., n, hq | .seq .., n, hq
  | .namedexpr .., n, hq | .comp .., n, hq | .comprehension .., n, hq | .arguments .., n, hq
  | .arg .., n, hq | .other .., n, hq => ensure_plain_spec cfg pk fld _ n rfl hq
theorem ensureList_spec (cfg : Config) (pk fld : String) : ∀ (xs : List Expr) (n : Nat), quiets cfg xs = true →
    HoistsOk cfg n (ensureList cfg pk fld xs n).2.1 (ensureList cfg pk fld xs n).2.2
      ∧ quiets cfg (ensureList cfg pk fld xs n).1 = true ∧ okChildren cfg pk fld (ensureList cfg pk fld xs n).1 = true
  | [], n, _ => by simp [ensureList, HoistsOk, quiets, okChildren]
  | x :: xs, n, hq => by
      simp only [quiets, Bool.and_eq_true] at hq
      have h1 := ensure_spec cfg pk fld x n hq.1
      have h2 := ensureList_spec cfg pk fld xs (ensure cfg pk fld x n).2.2 hq.2
      simp only [ensureList, quiets, okChildren, Bool.and_eq_true]
      exact ⟨HoistsOk.append h1.1 h2.1, ⟨h1.2.1, h2.2.1⟩, ⟨h1.2.2, h2.2.2⟩⟩
end

/-! `ensure` that creates no statement returns its argument. -/
mutual
theorem ensure_nil (cfg : Config) (pk fld : String) : ∀ (x : Expr) (n : Nat),
    (ensure cfg pk fld x n).2.1 = [] → (ensure cfg pk fld x n).1 = x
  | .noneMarker, n, _ => by simp [ensure]
  | .keyword i a h v, n, hn => by
      have := ensure_nil cfg pk fld v n (by simpa [ensure] using hn)
      simp [ensure, this]
  | .starred i v c, n, hn => by
      have := ensure_nil cfg pk fld v n (by simpa [ensure] using hn)
      simp [ensure, this]
  | .withitem i ce ov, n, hn => by
      simp only [ensure, List.append_eq_nil_iff] at hn
      have h1 := ensure_nil cfg pk fld ce n hn.1
      have h2 := ensureList_nil cfg pk fld ov _ hn.2
      simp [ensure, h1, h2]
  | .name .., n, hn | .const .., n, hn | .attr .., n, hn | .subscript .., n, hn
  | .call .., n, hn | .boolop .., n, hn | .unary .., n, hn | .binop .., n, hn
  | .compare .., n, hn | .ifexp .., n, hn | .lambda .., n, hn | .seq .., n, hn
  | .namedexpr .., n, hn | .comp .., n, hn | .comprehension .., n, hn | .arguments .., n, hn
  | .arg .., n, hn | .other .., n, hn => ensure_plain_nil cfg pk fld _ n rfl hn
theorem ensureList_nil (cfg : Config) (pk fld : String) : ∀ (xs : List Expr) (n : Nat),
    (ensureList cfg pk fld xs n).2.1 = [] → (ensureList cfg pk fld xs n).1 = xs
  | [], n, _ => by simp [ensureList]
  | x :: xs, n, hn => by
      simp only [ensureList, List.append_eq_nil_iff] at hn
      have h1 := ensure_nil cfg pk fld x n hn.1
      have h2 := ensureList_nil cfg pk fld xs _ hn.2
      simp [ensureList, h1, h2]
end

theorem ensureList_length (cfg : Config) (pk fld : String) : ∀ (xs : List Expr) (n : Nat),
    (ensureList cfg pk fld xs n).1.length = xs.length
  | [], n => by simp [ensureList]
  | x :: xs, n => by simp [ensureList, ensureList_length cfg pk fld xs]

theorem quiets_append (cfg : Config) : ∀ (a b : List Expr), quiets cfg (a ++ b) = (quiets cfg a && quiets cfg b)
  | [], b => by simp [quiets]
  | x :: a, b => by simp [quiets, quiets_append cfg a b, Bool.and_assoc]

theorem quiets_take_drop (cfg : Config) (k : Nat) (l : List Expr) :
    quiets cfg l = (quiets cfg (l.take k) && quiets cfg (l.drop k)) := by
  rw [← quiets_append, List.take_append_drop]

theorem take_drop_rebuild {α : Type} (k : Nat) (l a b : List α) (ha : a.length = (l.take k).length)
    (hb : b.length = (l.drop k).length) : (a ++ b).take k = a ∧ (a ++ b).drop k = b := by
  simp only [List.length_take, List.length_drop] at ha hb
  by_cases hk : k ≤ l.length
  · have : a.length = k := by omega
    subst this
    simp
  · have hb0 : b = [] := List.eq_nil_of_length_eq_zero (by omega)
    subst hb0
    have : a.length ≤ k := by omega
    simp [List.take_of_length_le this, List.drop_of_length_le this]

theorem ensure_spec' {cfg : Config} {pk fld : String} {x : Expr} {n : Nat} {x' : Expr} {H : List Stmt} {n' : Nat}
    (hq : quiet cfg x = true) (h : ensure cfg pk fld x n = (x', H, n')) :
    HoistsOk cfg n H n' ∧ quiet cfg x' = true ∧ okChild cfg pk fld x' = true ∧ (H = [] → x' = x) := by
  have h1 := ensure_spec cfg pk fld x n hq
  have h2 := ensure_nil cfg pk fld x n
  rw [h] at h1 h2; exact ⟨h1.1, h1.2.1, h1.2.2, h2⟩

theorem ensureList_spec' {cfg : Config} {pk fld : String} {xs : List Expr} {n : Nat} {xs' : List Expr} {H : List Stmt}
    {n' : Nat} (hq : quiets cfg xs = true) (h : ensureList cfg pk fld xs n = (xs', H, n')) :
    HoistsOk cfg n H n' ∧ quiets cfg xs' = true ∧ okChildren cfg pk fld xs' = true ∧ (H = [] → xs' = xs) := by
  have h1 := ensureList_spec cfg pk fld xs n hq
  have h2 := ensureList_nil cfg pk fld xs n
  rw [h] at h1 h2; exact ⟨h1.1, h1.2.1, h1.2.2, h2⟩


/-! ### A quiet expression is left untouched -/
theorem ensure_plain_ok (cfg : Config) (pk fld : String) (x : Expr) (n : Nat) (hw : isWrapper x = false)
    (h : okChild cfg pk fld x = true) : ensure cfg pk fld x n = (x, [], n) := by
  rw [ensure_plain cfg pk fld x n hw]
  rw [okChild_plain cfg pk fld x hw] at h
  split
  · rfl
  · next ht =>
    simp only [ht, Bool.false_or, Bool.not_eq_true', Bool.false_eq_true] at h
    simp [h]

mutual
theorem ensure_ok (cfg : Config) (pk fld : String) : ∀ (x : Expr) (n : Nat), okChild cfg pk fld x = true →
    ensure cfg pk fld x n = (x, [], n)
  | .noneMarker, n, _ => by simp [ensure]
  | .keyword i a h v, n, hq => by
      have := ensure_ok cfg pk fld v n (by simpa [okChild] using hq)
      simp [ensure, this]
  | .starred i v c, n, hq => by
      have := ensure_ok cfg pk fld v n (by simpa [okChild] using hq)
      simp [ensure, this]
  | .withitem i ce ov, n, hq => by
      simp only [okChild, Bool.and_eq_true] at hq
      have h1 := ensure_ok cfg pk fld ce n hq.1
      have h2 := ensureList_ok cfg pk fld ov n hq.2
      simp [ensure, h1, h2]
  | .name .., n, hq | .const .., n, hq | .attr .., n, hq | .subscript .., n, hq
  | .call .., n, hq | .boolop .., n, hq | .unary .., n, hq | .binop .., n, hq
  | .compare .., n, hq | .ifexp .., n, hq | .lambda .., n, hq | .seq .., n, hq
  | .namedexpr .., n, hq | .comp .., n, hq | .comprehension .., n, hq | .arguments .., n, hq
  | .arg .., n, hq | .other .., n, hq => ensure_plain_ok cfg pk fld _ n rfl hq
theorem ensureList_ok (cfg : Config) (pk fld : String) : ∀ (xs : List Expr) (n : Nat), okChildren cfg pk fld xs = true →
    ensureList cfg pk fld xs n = (xs, [], n)
  | [], n, _ => by simp [ensureList]
  | x :: xs, n, hq => by
      simp only [okChildren, Bool.and_eq_true] at hq
      have h1 := ensure_ok cfg pk fld x n hq.1
      have h2 := ensureList_ok cfg pk fld xs n hq.2
      simp [ensureList, h1, h2]
end

end Malt.Anf
