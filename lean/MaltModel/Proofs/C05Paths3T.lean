import MaltModel.Proofs.C05Paths3B
/-!
# C05, Lemma B with `finally`: the `try` statement, given Lemma B for its blocks
-/
namespace Malt.Cfg
open Malt.Py

theorem ff_optSection (K : List Nat) (rep : Option Nat) (pre post : Nat → B → B) (visit : Nat → B → Acc → B × Acc) (r : B × Acc)
    (hpre : ∀ k b, rep = some k → FF K b (pre k b)) (hpost : ∀ k b, rep = some k → FF K b (post k b))
    (hvisit : ∀ k b a, rep = some k → FF K b (visit k b a).1) : FF K r.1 (optSection rep pre post visit r).1 :=
  ⟨frame_optSection K rep pre post visit r (fun k b h => (hpre k b h).f) (fun k b h => (hpost k b h).f) (fun k b a h => (hvisit k b a h).f),
   fx_optSection K rep pre post visit r (fun k b h => (hpre k b h).x) (fun k b h => (hpost k b h).x) (fun k b a h => (hvisit k b a h).x)⟩

theorem ff_visitHandlers (hs : List Stmt) (σ : List Scope) (rep : Nat) (K : List Nat) (b : B) (a : Acc) (il : Bool)
    (hH : frag3H il hs = true) (ho : OwnPre σ il) (hrep : ck rep ∈ K) (hk : ∀ k, k ∈ keysL3 hs → k ∈ K) :
    FF K b (visitHandlers σ rep hs b a).1 :=
  ⟨frame_visitHandlers hs σ rep K hrep (fun k h => hk k (keysL_sub hs k h)) b a, fxe_visitHandlers hs σ rep K b a il hH ho hk⟩

/-- state of the builder right after `new_cond_branch(rep)` in either mode -/
theorem newCondBranch_modes (b : B) (rep L0 : Nat) (splits : List Nat) (hcl : aget rep b.condLeaves = some splits)
    (hm : aget rep b.condEntry = some L0 ∨ (aget rep b.condEntry = none ∧ b.leaves = L0 ∧ splits = [])) :
    (b.newCondBranch rep).leaves = L0 ∧ (b.newCondBranch rep).heap = b.heap ∧
    aget rep (b.newCondBranch rep).condEntry = some L0 ∧
    (∃ splits', aget rep (b.newCondBranch rep).condLeaves = some splits' ∧ (∀ r, r ∈ splits → r ∈ splits') ∧
      (b.leaves = L0 ∨ b.leaves ∈ splits')) ∧
    (b.newCondBranch rep).finallySections = b.finallySections ∧ (b.newCondBranch rep).raises = b.raises := by
  rcases hm with hm | ⟨hm, hl, hs⟩
  · rw [newCondBranch_next b rep splits L0 hcl hm]
    refine ⟨rfl, rfl, hm, ⟨splits ++ [b.leaves], ?_, fun r hr => List.mem_append.mpr (Or.inl hr), Or.inr (by simp)⟩, rfl, rfl⟩
    show aget rep (aset rep _ _) = _
    rw [aget_aset]; simp
  · rw [newCondBranch_first b rep splits hcl hm]
    refine ⟨hl, rfl, ?_, ⟨splits, hcl, fun r hr => hr, Or.inl hl⟩, rfl, rfl⟩
    show aget rep (aset rep _ _) = _
    rw [aget_aset, hl]; simp

/-- One iteration of `for block in node.handlers: new_cond_branch(rep); self.visit(block)`. -/
theorem handler_step (σ : List Scope) (rep L0 hid : Nat) (ty : List Expr) (hb : List Stmt) (rs : List Nat)
    (b : B) (a : Acc) (splits : List Nat) (T : Nat)
    (hcl : aget rep b.condLeaves = some splits)
    (hm : aget rep b.condEntry = some L0 ∨ (aget rep b.condEntry = none ∧ b.leaves = L0 ∧ splits = []))
    (hrs : ∀ x, x ∈ rs → ∃ l, aget hid b.raises = some l ∧ x ∈ l)
    (hnd : (tnodes (lamsL ty) ++ keysL3 hb).Nodup)
    (hrep : ck rep ∉ keysL3 hb)
    (hpre : Pre σ (tnodes (lamsL ty) ++ keysL3 hb) b)
    (fbody : ∀ (b : B) (a : Acc), FF (keysL3 hb) b (visitStmts σ hb b a).1)
    (hbody : ∀ (b : B) (a : Acc) (cur : List Nat), Pre σ (keysL3 hb) b → InLeaves b cur →
      Post σ T [] (visitStmts σ hb b a).1 (flowBlock hb cur)) :
    aget rep (visitStmt σ (.handler hid ty [] hb) (b.newCondBranch rep) a).1.condEntry = some L0 ∧
    (∃ splits', aget rep (visitStmt σ (.handler hid ty [] hb) (b.newCondBranch rep) a).1.condLeaves = some splits' ∧
      (∀ r, r ∈ splits → r ∈ splits') ∧ (b.leaves = L0 ∨ b.leaves ∈ splits')) ∧
    Post σ T [] (visitStmt σ (.handler hid ty [] hb) (b.newCondBranch rep) a).1
      (if rs.isEmpty then {} else Flow.seq { req := (emit rs (lamsL ty)).1 } (flowBlock hb (emit rs (lamsL ty)).2)) ∧
    FF (ck rep :: sk hid :: (tnodes (lamsL ty) ++ keysL3 hb)) b (visitStmt σ (.handler hid ty [] hb) (b.newCondBranch rep) a).1 := by
  obtain ⟨_, ndb, dlb⟩ := List.nodup_append.mp hnd
  obtain ⟨m1, m2, m3, ⟨splits', m4, m5, m6⟩, m7, m8⟩ := newCondBranch_modes b rep L0 splits hcl hm
  -- the states inside visit_ExceptHandler
  let b1 := b.newCondBranch rep
  let be := (b1.beginStatement hid).enterExceptSection hid
  let bn := addOrdinaryNodes be (lamsL ty)
  have f01 : FF (ck rep :: tnodes (lamsL ty)) b b1 := ff_newCondBranch _ b rep (List.mem_cons_self ..)
  have f1e : FF (ck rep :: tnodes (lamsL ty)) b1 be := (ff_beginStatement _ b1 hid).trans (ff_enterExceptSection _ _ hid)
  have fen : FF (ck rep :: tnodes (lamsL ty)) be bn := ff_addOrdinaryNodes _ _ (fun n hn => List.mem_cons_of_mem _ (mem_tnodes hn)) be
  have f0n := (f01.trans f1e).trans fen
  have hv1 : Valid b1 := f01.f.valid hpre.valid
  have n0e : Neutral b be := ((neutral_newCondBranch b rep).trans (neutral_beginStatement b1 hid)).trans (neutral_enterExceptSection _ hid)
  have ldjn : ListsDisjoint bn := neutral_addOrdinaryNodes_ldj _ _ (n0e.ldj hpre.ldj)
  -- the raise nodes are leaves after enter_except_section
  have hce : InLeaves be rs := by
    intro x hx
    obtain ⟨l, hl, hxl⟩ := hrs x hx
    have hl' : aget hid (b1.beginStatement hid).raises = some l := by
      show aget hid b1.raises = some l
      rw [show b1.raises = b.raises from m8]; exact hl
    show x ∈ ((b1.beginStatement hid).enterExceptSection hid).leafSet
    simp only [B.enterExceptSection, hl']
    rw [B.mem_leafSet_leavesUnion _ _ (by simpa using hv1.leaves)]
    exact Or.inr hxl
  obtain ⟨e1, e2, _⟩ := emit_src T [] (lamsL ty) be rs (fun x hx => Or.inl (hce x hx))
  have e2' : InLeaves bn (emit rs (lamsL ty)).2 := fun x hx => src_nil (e2 x hx)
  have dB : ∀ k, k ∈ keysL3 hb → k ∉ ck rep :: tnodes (lamsL ty) := by
    intro k hk h
    rcases List.mem_cons.mp h with e | h
    · exact hrep (e ▸ hk)
    · exact dlb k h k hk rfl
  have pren : Pre σ (keysL3 hb) bn :=
    (hpre.sub (fun k hk => List.mem_append.mpr (Or.inr hk))).move f0n.f f0n.x
      (fun k hk h => by
        rcases List.mem_cons.mp h with e | h
        · exact ck_not_scopeKeys σ rep (e ▸ hk)
        · exact hpre.disj k hk (List.mem_append.mpr (Or.inl h))) dB ldjn
  have IH := hbody bn (lamGraphsL σ ty a) _ pren e2'
  have fb : FF (keysL3 hb) bn (visitStmts σ hb bn (lamGraphsL σ ty a)).1 := fbody bn _
  have hb2 : (visitStmt σ (.handler hid ty [] hb) (b.newCondBranch rep) a).1 =
      ((visitStmts σ hb bn (lamGraphsL σ ty a)).1).endStatement hid := by
    simp only [visitStmt, List.isEmpty_nil, if_true]
    rfl
  rw [hb2]
  have fnb2 : FF (keysL3 hb) bn ((visitStmts σ hb bn (lamGraphsL σ ty a)).1.endStatement hid) := fb.trans (ff_endStatement _ _ hid)
  have fall : FF (ck rep :: sk hid :: (tnodes (lamsL ty) ++ keysL3 hb)) b ((visitStmts σ hb bn (lamGraphsL σ ty a)).1.endStatement hid) :=
    (f0n.weaken (fun k hk => by
      rcases List.mem_cons.mp hk with e | hk
      · rw [e]; exact List.mem_cons_self ..
      · exact List.mem_cons_of_mem _ (List.mem_cons_of_mem _ (List.mem_append.mpr (Or.inl hk))))).trans
      (fnb2.weaken (fun k hk => List.mem_cons_of_mem _ (List.mem_cons_of_mem _ (List.mem_append.mpr (Or.inr hk)))))
  have f1n : Frame [] b1 bn :=
    Frame.trans (Frame.trans (B.frame_beginStatement _ b1 hid) (B.frame_enterExceptSection _ _ hid)) (frame_addOrdinaryNodes _ _ be)
  refine ⟨?_, ⟨splits', ?_, m5, m6⟩, ?_, fall⟩
  · rw [fnb2.f.condEntry rep hrep, f1n.condEntry rep (by simp)]; exact m3
  · rw [fnb2.f.condLeaves rep hrep, f1n.condLeaves rep (by simp)]; exact m4
  · have ldj2 : ListsDisjoint ((visitStmts σ hb bn (lamGraphsL σ ty a)).1.endStatement hid) := (neutral_endStatement _ hid).ldj IH.ldj
    by_cases hre : rs.isEmpty = true
    · simp only [hre, if_true]
      exact ⟨Pend.empty σ T [] _, fun _ h => (List.not_mem_nil h).elim, ldj2⟩
    · simp only [hre, if_false, Bool.false_eq_true]
      have Pn : Pend σ T [] bn { req := (emit rs (lamsL ty)).1, normal := [] } :=
        Pend.of_req σ T [] bn _ [] (fun p hp' => (e1 p hp').elim Or.inl (fun h => Or.inr (Or.inr h)))
      refine ⟨Pend.seq (keeps_tr pren.tr fnb2 (TOk.nil _ _) _ Pn) (keeps_endStatement _ hid _ IH.pend), ?_, ldj2⟩
      intro x hx
      rw [B.leafSet_endStatement]
      exact IH.norm x hx

/-- The conclusion of the handler loop followed by the closing `new_cond_branch(rep); exit_cond_section(rep)`. -/
def HandlersOk (σ : List Scope) (rep L0 : Nat) (rs : List Nat) (hs : List Stmt) (b : B) (a : Acc) (splits : List Nat) (T : Nat) : Prop :=
  Pend σ T [] (((visitHandlers σ rep hs b a).1.newCondBranch rep).exitCondSection rep) (flowHandlers hs rs) ∧
  ListsDisjoint (((visitHandlers σ rep hs b a).1.newCondBranch rep).exitCondSection rep) ∧
  (∀ x, (x ∈ b.deref L0 ∨ (∃ r, r ∈ splits ∧ x ∈ b.deref r) ∨ x ∈ b.leafSet ∨ x ∈ (flowHandlers hs rs).normal) →
    x ∈ (((visitHandlers σ rep hs b a).1.newCondBranch rep).exitCondSection rep).leafSet)

/-- base case of the handler loop -/
theorem handlers_nil (σ : List Scope) (rep L0 : Nat) (rs : List Nat) (b : B) (a : Acc) (splits : List Nat) (T : Nat)
    (hcl : aget rep b.condLeaves = some splits)
    (hm : aget rep b.condEntry = some L0 ∨ (aget rep b.condEntry = none ∧ b.leaves = L0 ∧ splits = []))
    (hv : Valid b) (hl : ListsDisjoint b) : HandlersOk σ rep L0 rs [] b a splits T := by
  obtain ⟨m1, m2, m3, ⟨splits', m4, m5, m6⟩, m7, m8⟩ := newCondBranch_modes b rep L0 splits hcl hm
  have hv1 : Valid (b.newCondBranch rep) := (B.frame_newCondBranch [ck rep] b rep (by simp)).valid hv
  obtain ⟨x1, x2, x3⟩ := exitCondSection_effect (b.newCondBranch rep) rep splits' m4 hv1
  have hd : ∀ r, (b.newCondBranch rep).deref r = b.deref r := fun r => deref_eq_of_heap m2 r
  have hl1 : (b.newCondBranch rep).leafSet = b.deref L0 := by
    show (b.newCondBranch rep).deref (b.newCondBranch rep).leaves = _
    rw [m1, hd]
  refine ⟨?_, ?_, ?_⟩
  · show Pend σ T [] _ {}
    exact Pend.empty σ T [] _
  · show ListsDisjoint ((b.newCondBranch rep).exitCondSection rep)
    exact (neutral_exitCondSection _ rep).ldj ((neutral_newCondBranch b rep).ldj hl)
  · intro x hx
    show x ∈ ((b.newCondBranch rep).exitCondSection rep).leafSet
    rcases hx with hx | ⟨r, hr, hx⟩ | hx | hx
    · exact x1 x (by rw [hl1]; exact hx)
    · exact x2 r (m5 r hr) x (by rw [hd]; exact hx)
    · rcases m6 with m6 | m6
      · exact x1 x (by rw [hl1, ← m6]; exact hx)
      · exact x2 _ m6 x (by rw [hd]; exact hx)
    · simp [flowHandlers] at hx

/-- The optional `else` block of a `try`: a conditional section with one real branch. -/
theorem orelse_section (i : Nat) (σ' : List Scope) (orelse : List Stmt) (b1 : B) (a1 : Acc) (R1n : List Nat) (T : Nat)
    (hnd : (elseKey i orelse ++ keysL3 orelse).Nodup)
    (hpre : Pre σ' (elseKey i orelse ++ keysL3 orelse) b1) (hc : InLeaves b1 R1n)
    (forelse : ∀ (b : B) (a : Acc), FF (keysL3 orelse) b (visitStmts σ' orelse b a).1)
    (horelse : ∀ (b : B) (a : Acc) (cur : List Nat), Pre σ' (keysL3 orelse) b → InLeaves b cur →
      Post σ' T [] (visitStmts σ' orelse b a).1 (flowBlock orelse cur)) :
    Post σ' T [] (optSection (elseRep i orelse) (fun k b => (b.enterCondSection k).newCondBranch k)
        (fun k b => (b.newCondBranch k).exitCondSection k) (fun _ => visitStmts σ' orelse) (b1, a1)).1
      (flowBlock orelse R1n) := by
  cases orelse with
  | nil =>
    simp only [elseRep, List.isEmpty_nil, if_true, optSection, flowBlock]
    exact ⟨Pend.of_req σ' T [] b1 [] R1n (fun _ h => (List.not_mem_nil h).elim), hc, hpre.ldj⟩
  | cons s0 rest =>
    simp only [elseRep, List.isEmpty_cons, Bool.false_eq_true, if_false, optSection]
    have hkeys : elseKey i (s0 :: rest) = [ck i] := rfl
    rw [hkeys] at hnd hpre
    obtain ⟨hro, hndo⟩ := List.nodup_cons.mp hnd
    -- enter + first branch
    obtain ⟨c1, c2, c3, c4, _, _⟩ := enterCondSection_effect b1 i
    have hce0 : aget i (b1.enterCondSection i).condEntry = none := by
      rw [c2]; exact hpre.fresh i (List.mem_cons_self ..)
    let bo1 := (b1.enterCondSection i).newCondBranch i
    have hbo1 : bo1 = (b1.enterCondSection i).putCondEntry i (b1.enterCondSection i).leaves :=
      newCondBranch_first _ i [] c1 hce0
    have hl1 : bo1.leafSet = b1.leafSet := by rw [hbo1]; exact c3
    have hce1 : aget i bo1.condEntry = some (b1.enterCondSection i).leaves := by
      rw [hbo1]; show aget i (aset i _ _) = _; rw [aget_aset]; simp
    have hcl1 : aget i bo1.condLeaves = some [] := by rw [hbo1]; exact c1
    have f01 : FF [ck i] b1 bo1 := (ff_enterCondSection _ b1 i (by simp)).trans (ff_newCondBranch _ _ i (by simp))
    have ldj1 : ListsDisjoint bo1 := ((neutral_enterCondSection b1 i).trans (neutral_newCondBranch _ i)).ldj hpre.ldj
    have hσ1 : ∀ k, k ∈ scopeKeys σ' → k ∉ [ck i] :=
      fun k hk h => hpre.disj k hk (by simp only [List.mem_singleton] at h; rw [h]; exact List.mem_cons_self ..)
    have pre1 : Pre σ' (keysL3 (s0 :: rest)) bo1 :=
      (hpre.sub (fun k hk => List.mem_cons_of_mem _ hk)).move f01.f f01.x hσ1
        (fun k hk h => hro (by simp only [List.mem_singleton] at h; rw [← h]; exact hk)) ldj1
    have IH := horelse bo1 a1 R1n pre1 (fun x hx => by rw [hl1]; exact hc x hx)
    let bo2 := (visitStmts σ' (s0 :: rest) bo1 a1).1
    have fo : FF (keysL3 (s0 :: rest)) bo1 bo2 := forelse bo1 a1
    have hce2 : aget i bo2.condEntry = some (b1.enterCondSection i).leaves := by rw [fo.f.condEntry _ hro]; exact hce1
    have hcl2 : aget i bo2.condLeaves = some [] := by rw [fo.f.condLeaves _ hro]; exact hcl1
    let bo3 := bo2.newCondBranch i
    have hbo3 : bo3 = (bo2.putCondLeaves i ([] ++ [bo2.leaves])).setLeavesRef (b1.enterCondSection i).leaves :=
      newCondBranch_next bo2 i [] _ hcl2 hce2
    have hcl3 : aget i bo3.condLeaves = some [bo2.leaves] := by
      rw [hbo3]; show aget i (aset i _ _) = _; rw [aget_aset]; simp
    have hv3 : Valid bo3 := (B.frame_newCondBranch [ck i] bo2 i (by simp)).valid (fo.f.valid pre1.valid)
    obtain ⟨x1, x2, x3⟩ := exitCondSection_effect bo3 i [bo2.leaves] hcl3 hv3
    have f23 : FF [ck i] bo2 (bo3.exitCondSection i) :=
      (ff_newCondBranch [ck i] bo2 i (by simp)).trans (ff_exitCondSection _ _ i (by simp))
    refine ⟨keeps_tr ((Tr.nil σ' (fo.x.lin pre1.lin)).cons_ck i) f23 (TOk.nil _ _) _ IH.pend, ?_, ?_⟩
    · intro x hx
      have h1 : x ∈ bo2.deref bo2.leaves := IH.norm x hx
      have h2 : x ∈ bo3.deref bo2.leaves := by rw [deref_eq_of_heap (b := bo2) (by rw [hbo3]; rfl)]; exact h1
      exact x2 _ (by simp) x h2
    · exact ((neutral_newCondBranch bo2 i).trans (neutral_exitCondSection _ i)).ldj IH.ldj

/-! ### `try`: body, `else` block and handlers -/

theorem nd6 {a b c d e f : List Nat} (h : (a ++ (b ++ (c ++ (d ++ (e ++ f))))).Nodup) :
    (a.Nodup ∧ b.Nodup ∧ c.Nodup ∧ d.Nodup ∧ e.Nodup ∧ f.Nodup) ∧
    (∀ k, k ∈ a → k ∉ b ∧ k ∉ c ∧ k ∉ d ∧ k ∉ e ∧ k ∉ f) ∧ (∀ k, k ∈ b → k ∉ c ∧ k ∉ d ∧ k ∉ e ∧ k ∉ f) ∧
    (∀ k, k ∈ c → k ∉ d ∧ k ∉ e ∧ k ∉ f) ∧ (∀ k, k ∈ d → k ∉ e ∧ k ∉ f) ∧ (∀ k, k ∈ e → k ∉ f) := by
  obtain ⟨na, h1, da⟩ := List.nodup_append.mp h
  obtain ⟨nb, h2, db⟩ := List.nodup_append.mp h1
  obtain ⟨nc, h3, dc⟩ := List.nodup_append.mp h2
  obtain ⟨nd, h4, dd⟩ := List.nodup_append.mp h3
  obtain ⟨ne, nf, de⟩ := List.nodup_append.mp h4
  refine ⟨⟨na, nb, nc, nd, ne, nf⟩, ?_, ?_, ?_, ?_, ?_⟩
  · intro k hk
    exact ⟨fun h => da k hk k (by simp [h]) rfl, fun h => da k hk k (by simp [h]) rfl, fun h => da k hk k (by simp [h]) rfl,
      fun h => da k hk k (by simp [h]) rfl, fun h => da k hk k (by simp [h]) rfl⟩
  · intro k hk
    exact ⟨fun h => db k hk k (by simp [h]) rfl, fun h => db k hk k (by simp [h]) rfl, fun h => db k hk k (by simp [h]) rfl,
      fun h => db k hk k (by simp [h]) rfl⟩
  · intro k hk
    exact ⟨fun h => dc k hk k (by simp [h]) rfl, fun h => dc k hk k (by simp [h]) rfl, fun h => dc k hk k (by simp [h]) rfl⟩
  · intro k hk
    exact ⟨fun h => dd k hk k (by simp [h]) rfl, fun h => dd k hk k (by simp [h]) rfl⟩
  · intro k hk
    exact fun h => de k hk k h rfl

/-- the `raises` key of every handler is among the keys of the handler list -/
theorem sk_handlerIds_mem3 (inLoop : Bool) : ∀ (hs : List Stmt), frag3H inLoop hs = true → ∀ hid, hid ∈ handlerIds hs → sk hid ∈ keysL3 hs := by
  intro hs
  induction hs with
  | nil => intro _ hid h; cases h
  | cons h0 hs ih =>
    intro hH hid hmem
    cases h0 with
    | handler i ty nm hb =>
      simp only [frag3H, Bool.and_eq_true] at hH
      simp only [handlerIds, List.mem_cons] at hmem
      simp only [keysL3, keys3, List.mem_append, List.mem_cons]
      rcases hmem with hmem | hmem
      · subst hmem; exact Or.inl (Or.inl rfl)
      · exact Or.inr (ih hH.2 hid hmem)
    | _ => simp [frag3H] at hH

theorem Pend.drop_handlers {σ : List Scope} {i : Nat} {fin : Bool} {hs : List Nat} {T : Nat} {curP : List Nat} {b : B} {R : Flow}
    (h : Pend (Scope.try_ i fin hs :: σ) T curP b R) : Pend (Scope.try_ i fin [] :: σ) T curP b R := by
  cases fin
  · exact ⟨h.req, h.brk, h.cont, h.ret,
      fun x hx => ⟨(h.raise x hx).1, fun hd hhd => (h.raise x hx).2 hd (List.mem_append.mpr (Or.inr hhd))⟩, h.exempt⟩
  · exact ⟨h.req, h.brk, h.cont, h.ret,
      fun x hx => ⟨(h.raise x hx).1, fun hd hhd => (h.raise x hx).2 hd (List.mem_append.mpr (Or.inr hhd))⟩, h.exempt⟩

def tryR2 (i : Nat) (σ' : List Scope) (orelse : List Stmt) (r1 : B × Acc) : B × Acc :=
  optSection (elseRep i orelse) (fun k b => (b.enterCondSection k).newCondBranch k)
    (fun k b => (b.newCondBranch k).exitCondSection k) (fun _ => visitStmts σ' orelse) r1
def tryR3 (σ : List Scope) (handlers : List Stmt) (r2 : B × Acc) : B × Acc :=
  optSection (handlers.head?.map Stmt.id) (fun k b => b.enterCondSection k) (fun k b => (b.newCondBranch k).exitCondSection k)
    (fun k => visitHandlers σ k handlers) r2

/-- `Tr` only looks at the scope keys, and the handler-less `try` scope has those of the enclosing scopes -/
theorem Tr.in_try {σ : List Scope} {K : List Nat} {b : B} (h : Tr σ K b) (i : Nat) (fin : Bool) : Tr (Scope.try_ i fin [] :: σ) K b :=
  ⟨fun k hk => h.disj k hk, h.old, h.lin⟩

theorem lemB_tryPre (σ : List Scope) (i : Nat) (body handlers orelse final : List Stmt) (b : B) (a : Acc) (cur : List Nat)
    (inLoop fin : Bool) (T : Nat) (curP : List Nat)
    (hH : frag3H inLoop handlers = true)
    (hnd : (sk i :: (elseKey i orelse ++ (repKey handlers ++ (keysL3 body ++ (keysL3 handlers ++ (keysL3 orelse ++ keysL3 final)))))).Nodup)
    (hp : Pre σ (sk i :: (elseKey i orelse ++ (repKey handlers ++ (keysL3 body ++ (keysL3 handlers ++ (keysL3 orelse ++ keysL3 final)))))) b)
    (hT : TOk curP T (sk i :: (elseKey i orelse ++ (repKey handlers ++ (keysL3 body ++ (keysL3 handlers ++ (keysL3 orelse ++ keysL3 final)))))))
    (hc : ∀ x, x ∈ cur → Src b T curP x)
    (fbody : ∀ (b : B) (a : Acc), FF (keysL3 body) b (visitStmts (Scope.try_ i fin (handlerIds handlers) :: σ) body b a).1)
    (forelse : ∀ (b : B) (a : Acc), FF (keysL3 orelse) b (visitStmts (Scope.try_ i fin (handlerIds handlers) :: σ) orelse b a).1)
    (fhand : ∀ (rep : Nat) (K : List Nat) (b : B) (a : Acc), ck rep ∈ K → (∀ k, k ∈ keysL3 handlers → k ∈ K) →
      FF K b (visitHandlers σ rep handlers b a).1)
    (hbody : ∀ (b : B) (a : Acc) (cur : List Nat), Pre (Scope.try_ i fin (handlerIds handlers) :: σ) (keysL3 body) b →
      (∀ x, x ∈ cur → Src b T curP x) →
      Post (Scope.try_ i fin (handlerIds handlers) :: σ) T curP (visitStmts (Scope.try_ i fin (handlerIds handlers) :: σ) body b a).1 (flowBlock body cur))
    (horelse : ∀ (b : B) (a : Acc) (cur : List Nat), Pre (Scope.try_ i fin (handlerIds handlers) :: σ) (keysL3 orelse) b → InLeaves b cur →
      Post (Scope.try_ i fin (handlerIds handlers) :: σ) T [] (visitStmts (Scope.try_ i fin (handlerIds handlers) :: σ) orelse b a).1 (flowBlock orelse cur))
    (hhand : ∀ (rep L0 : Nat) (rs : List Nat) (b : B) (a : Acc) (splits : List Nat),
      ck rep ∉ keysL3 handlers → Pre σ (keysL3 handlers) b →
      aget rep b.condLeaves = some splits →
      (aget rep b.condEntry = some L0 ∨ (aget rep b.condEntry = none ∧ b.leaves = L0 ∧ splits = [])) →
      (∀ hid, hid ∈ handlerIds handlers → ∀ x, x ∈ rs → ∃ l, aget hid b.raises = some l ∧ x ∈ l) →
      HandlersOk σ rep L0 rs handlers b a splits T) :
    Pend (Scope.try_ i fin [] :: σ) T curP
      (tryR3 σ handlers (tryR2 i (Scope.try_ i fin (handlerIds handlers) :: σ) orelse
        (visitStmts (Scope.try_ i fin (handlerIds handlers) :: σ) body (b.beginStatement i) a))).1 (flowBlock body cur) ∧
    Pend (Scope.try_ i fin [] :: σ) T []
      (tryR3 σ handlers (tryR2 i (Scope.try_ i fin (handlerIds handlers) :: σ) orelse
        (visitStmts (Scope.try_ i fin (handlerIds handlers) :: σ) body (b.beginStatement i) a))).1
      (flowBlock orelse (flowBlock body cur).normal) ∧
    Pend σ T []
      (tryR3 σ handlers (tryR2 i (Scope.try_ i fin (handlerIds handlers) :: σ) orelse
        (visitStmts (Scope.try_ i fin (handlerIds handlers) :: σ) body (b.beginStatement i) a))).1
      (flowHandlers handlers (flowBlock body cur).raise) ∧
    InLeaves
      (tryR3 σ handlers (tryR2 i (Scope.try_ i fin (handlerIds handlers) :: σ) orelse
        (visitStmts (Scope.try_ i fin (handlerIds handlers) :: σ) body (b.beginStatement i) a))).1
      ((flowBlock orelse (flowBlock body cur).normal).normal ++ (flowHandlers handlers (flowBlock body cur).raise).normal) ∧
    ListsDisjoint
      (tryR3 σ handlers (tryR2 i (Scope.try_ i fin (handlerIds handlers) :: σ) orelse
        (visitStmts (Scope.try_ i fin (handlerIds handlers) :: σ) body (b.beginStatement i) a))).1 ∧
    FF (elseKey i orelse ++ (repKey handlers ++ (keysL3 body ++ (keysL3 handlers ++ keysL3 orelse)))) b
      (tryR3 σ handlers (tryR2 i (Scope.try_ i fin (handlerIds handlers) :: σ) orelse
        (visitStmts (Scope.try_ i fin (handlerIds handlers) :: σ) body (b.beginStatement i) a))).1 := by
  -- abbreviations
  let σ' := Scope.try_ i fin (handlerIds handlers) :: σ
  -- key bookkeeping
  obtain ⟨hi_all, hnd0⟩ := List.nodup_cons.mp hnd
  obtain ⟨⟨nd_ro, nd_rh, nd_b, nd_h, nd_o, nd_f⟩, d_ro, d_rh, d_b, d_h, d_o⟩ := nd6 hnd0
  have kro : ∀ k, k ∈ elseKey i orelse → k ∈ sk i :: (elseKey i orelse ++ (repKey handlers ++ (keysL3 body ++ (keysL3 handlers ++ (keysL3 orelse ++ keysL3 final))))) :=
    fun k hk => List.mem_cons_of_mem _ (by simp [hk])
  have krh : ∀ k, k ∈ repKey handlers → k ∈ sk i :: (elseKey i orelse ++ (repKey handlers ++ (keysL3 body ++ (keysL3 handlers ++ (keysL3 orelse ++ keysL3 final))))) :=
    fun k hk => List.mem_cons_of_mem _ (by simp [hk])
  have kb : ∀ k, k ∈ keysL3 body → k ∈ sk i :: (elseKey i orelse ++ (repKey handlers ++ (keysL3 body ++ (keysL3 handlers ++ (keysL3 orelse ++ keysL3 final))))) :=
    fun k hk => List.mem_cons_of_mem _ (by simp [hk])
  have kh : ∀ k, k ∈ keysL3 handlers → k ∈ sk i :: (elseKey i orelse ++ (repKey handlers ++ (keysL3 body ++ (keysL3 handlers ++ (keysL3 orelse ++ keysL3 final))))) :=
    fun k hk => List.mem_cons_of_mem _ (by simp [hk])
  have ko : ∀ k, k ∈ keysL3 orelse → k ∈ sk i :: (elseKey i orelse ++ (repKey handlers ++ (keysL3 body ++ (keysL3 handlers ++ (keysL3 orelse ++ keysL3 final))))) :=
    fun k hk => List.mem_cons_of_mem _ (by simp [hk])
  have kroo : ∀ k, k ∈ elseKey i orelse ++ keysL3 orelse → k ∈ sk i :: (elseKey i orelse ++ (repKey handlers ++ (keysL3 body ++ (keysL3 handlers ++ (keysL3 orelse ++ keysL3 final))))) :=
    fun k hk => (List.mem_append.mp hk).elim (kro k) (ko k)
  have hskh : ∀ hid, hid ∈ handlerIds handlers → sk hid ∈ keysL3 handlers := sk_handlerIds_mem3 inLoop handlers hH
  -- scope keys of σ'
  have hσ' : ∀ k, k ∈ scopeKeys σ' → k ∈ scopeKeys σ ∨ ∃ hid, hid ∈ handlerIds handlers ∧ k = sk hid := by
    intro k hk
    simp only [σ', scopeKeys, List.mem_append, List.mem_map] at hk
    rcases hk with ⟨hid, h1, h2⟩ | hk
    · exact Or.inr ⟨hid, h1, h2.symm⟩
    · exact Or.inl hk
  -- a precondition in the try's scope list, for any part of the keys that avoids the handlers' `raises` keys
  have mkPre : ∀ (Ks : List Nat) (b' : B), (∀ hid, hid ∈ handlerIds handlers → sk hid ∉ Ks) → Pre σ Ks b' → Pre σ' Ks b' := by
    intro Ks b' hh hq
    refine ⟨?_, hq.old, hq.fresh, ?_, ?_, hq.valid, hq.lin, hq.ldj⟩
    · intro k hk
      rcases hσ' k hk with hk | ⟨hid, h1, h2⟩
      · exact hq.disj k hk
      · rw [h2]; exact hh hid h1
    · intro L hL
      have hL' : loopOf σ = some L := by cases fin <;> exact hL
      exact hq.loopOpen L hL'
    · obtain ⟨F, hF, l, hl⟩ := hq.fnOpen
      exact ⟨F, by cases fin <;> exact hF, l, hl⟩
  have hh_b : ∀ hid, hid ∈ handlerIds handlers → sk hid ∉ keysL3 body := fun hid h hk => (d_b _ hk).1 (hskh hid h)
  have hh_o : ∀ hid, hid ∈ handlerIds handlers → sk hid ∉ elseKey i orelse ++ keysL3 orelse := by
    intro hid h hk
    rcases List.mem_append.mp hk with hk | hk
    · exact (d_ro _ hk).2.2.1 (hskh hid h)
    · exact (d_h _ (hskh hid h)).1 hk
  -- 1. begin_statement and the body
  let b0 := b.beginStatement i
  have f00 : FF [] b b0 := ff_beginStatement _ b i
  have hp0 : Pre σ (sk i :: (elseKey i orelse ++ (repKey handlers ++ (keysL3 body ++ (keysL3 handlers ++ (keysL3 orelse ++ keysL3 final)))))) b0 :=
    hp.move f00.f f00.x (fun _ _ h => (List.not_mem_nil h).elim) (fun _ _ h => (List.not_mem_nil h).elim) ((neutral_beginStatement b i).ldj hp.ldj)
  have pre0 : Pre σ' (keysL3 body) b0 := mkPre _ b0 hh_b (hp0.sub kb)
  have hc0 : ∀ x, x ∈ cur → Src b0 T curP x := fun x hx => (neutral_beginStatement b i).src rfl (hc x hx)
  have IHb := hbody b0 a cur pre0 hc0
  let r1 := visitStmts σ' body b0 a
  have fb : FF (keysL3 body) b0 r1.1 := fbody b0 a
  -- 2. the else block
  have d_roo_b : ∀ k, k ∈ elseKey i orelse ++ keysL3 orelse → k ∉ keysL3 body := by
    intro k hk h
    rcases List.mem_append.mp hk with hk | hk
    · exact (d_ro _ hk).2.1 h
    · exact (d_b _ h).2.1 hk
  have pre1 : Pre σ' (elseKey i orelse ++ keysL3 orelse) r1.1 :=
    (mkPre _ b0 hh_o (hp0.sub kroo)).move fb.f fb.x pre0.disj d_roo_b IHb.ldj
  have nd_roo : (elseKey i orelse ++ keysL3 orelse).Nodup :=
    List.nodup_append.mpr ⟨nd_ro, nd_o, fun x hx y hy e => (d_ro x hx).2.2.2.1 (e ▸ hy)⟩
  have IHo := orelse_section i σ' orelse r1.1 r1.2 _ T nd_roo pre1 IHb.norm forelse horelse
  let r2 := tryR2 i σ' orelse r1
  have f12 : FF (elseKey i orelse ++ keysL3 orelse) r1.1 r2.1 := by
    refine ff_optSection _ _ _ _ _ r1 ?_ ?_ ?_
    · intro k b' hk
      have hk' : ck k ∈ elseKey i orelse ++ keysL3 orelse := List.mem_append.mpr (Or.inl (mem_elseKey i orelse k hk))
      exact (ff_enterCondSection _ _ k hk').trans (ff_newCondBranch _ _ k hk')
    · intro k b' hk
      have hk' : ck k ∈ elseKey i orelse ++ keysL3 orelse := List.mem_append.mpr (Or.inl (mem_elseKey i orelse k hk))
      exact (ff_newCondBranch _ _ k hk').trans (ff_exitCondSection _ _ k hk')
    · intro k b' a' _
      exact (forelse b' a').weaken (fun k hk => List.mem_append.mpr (Or.inr hk))
  -- the body's and the else block's facts at r2, read without the handlers
  have P1 : Pend (Scope.try_ i fin [] :: σ) T curP r2.1 (flowBlock body cur) :=
    (keeps_tr pre1.tr f12 (hT.sub kroo) _ IHb.pend).drop_handlers
  have P2 : Pend (Scope.try_ i fin [] :: σ) T [] r2.1 (flowBlock orelse (flowBlock body cur).normal) := IHo.pend.drop_handlers
  have f02 : FF (keysL3 body ++ (elseKey i orelse ++ keysL3 orelse)) b r2.1 :=
    ((f00.weaken (fun _ h => (List.not_mem_nil h).elim)).trans (fb.weaken (fun k hk => List.mem_append.mpr (Or.inl hk)))).trans
      (f12.weaken (fun k hk => List.mem_append.mpr (Or.inr hk)))
  have k5 : ∀ k, k ∈ keysL3 body ++ (elseKey i orelse ++ keysL3 orelse) →
      k ∈ elseKey i orelse ++ (repKey handlers ++ (keysL3 body ++ (keysL3 handlers ++ keysL3 orelse))) := by
    intro k hk
    rcases List.mem_append.mp hk with hk | hk
    · simp [hk]
    · rcases List.mem_append.mp hk with hk | hk
      · simp [hk]
      · simp [hk]
  -- 3. the handlers
  show Pend (Scope.try_ i fin [] :: σ) T curP (tryR3 σ handlers r2).1 _ ∧ Pend (Scope.try_ i fin [] :: σ) T [] (tryR3 σ handlers r2).1 _ ∧
    Pend σ T [] (tryR3 σ handlers r2).1 _ ∧ InLeaves (tryR3 σ handlers r2).1 _ ∧ ListsDisjoint (tryR3 σ handlers r2).1 ∧
    FF _ b (tryR3 σ handlers r2).1
  cases hhs : handlers with
  | nil =>
    simp only [tryR3, List.head?_nil, Option.map_none, optSection, flowHandlers]
    refine ⟨P1, P2, Pend.empty σ T [] _, ?_, IHo.ldj, f02.weaken (by rw [hhs] at k5; exact k5)⟩
    intro x hx
    simp only [List.append_nil] at hx
    exact IHo.norm x hx
  | cons h0 rest =>
    subst hhs
    simp only [tryR3, List.head?_cons, Option.map_some, optSection]
    have hrk : repKey (h0 :: rest) = [ck h0.id] := rfl
    have hrepK : ck h0.id ∈ repKey (h0 :: rest) := by rw [hrk]; simp
    have hrep_h : ck h0.id ∉ keysL3 (h0 :: rest) := (d_rh _ hrepK).2.1
    have hrep_b : ck h0.id ∉ keysL3 body := (d_rh _ hrepK).1
    have hrep_o : ck h0.id ∉ elseKey i orelse ++ keysL3 orelse := by
      intro h
      rcases List.mem_append.mp h with h | h
      · exact (d_ro _ h).1 hrepK
      · exact (d_rh _ hrepK).2.2.1 h
    let bh := r2.1.enterCondSection h0.id
    obtain ⟨c1, c2, c3, c4, _, _⟩ := enterCondSection_effect r2.1 h0.id
    -- the split key is still fresh
    have hfresh : aget h0.id bh.condEntry = none := by
      show aget h0.id (r2.1.enterCondSection h0.id).condEntry = none
      rw [c2, f12.f.condEntry _ hrep_o, fb.f.condEntry _ hrep_b]
      exact hp0.fresh h0.id (krh _ hrepK)
    have ldjh : ListsDisjoint bh := (neutral_enterCondSection r2.1 h0.id).ldj IHo.ldj
    have f0h : FF (ck h0.id :: (keysL3 body ++ (elseKey i orelse ++ keysL3 orelse))) b bh :=
      (f02.weaken (fun k hk => List.mem_cons_of_mem _ hk)).trans (ff_enterCondSection _ _ h0.id (List.mem_cons_self ..))
    have d_h_pre : ∀ k, k ∈ keysL3 (h0 :: rest) → k ∉ ck h0.id :: (keysL3 body ++ (elseKey i orelse ++ keysL3 orelse)) := by
      intro k hk h
      rcases List.mem_cons.mp h with h | h
      · exact hrep_h (h ▸ hk)
      · rcases List.mem_append.mp h with h | h
        · exact (d_b _ h).1 hk
        · rcases List.mem_append.mp h with h | h
          · exact (d_ro _ h).2.2.1 hk
          · exact (d_h _ hk).1 h
    have preh : Pre σ (keysL3 (h0 :: rest)) bh := by
      refine (hp.sub kh).move f0h.f f0h.x ?_ d_h_pre ldjh
      intro k hk h
      rcases List.mem_cons.mp h with h | h
      · exact ck_not_scopeKeys σ h0.id (h ▸ hk)
      · rcases List.mem_append.mp h with h | h
        · exact hp.disj k hk (kb k h)
        · exact hp.disj k hk (kroo k h)
    have hraises : ∀ hid, hid ∈ handlerIds (h0 :: rest) → ∀ x, x ∈ (flowBlock body cur).raise → ∃ l, aget hid bh.raises = some l ∧ x ∈ l := by
      intro hid hh x hx
      have hmem : hid ∈ enclosingExcept .fn σ' := by
        cases fin <;> exact List.mem_append.mpr (Or.inl hh)
      obtain ⟨l, hl, hxl⟩ := (IHb.pend.raise x hx).2 hid hmem
      obtain ⟨l', hl', hsub⟩ := f12.f.raises hid (hh_o hid hh) l hl
      exact ⟨l', by show aget hid (r2.1.enterCondSection h0.id).raises = _; simpa [B.enterCondSection] using hl', hsub x hxl⟩
    obtain ⟨HO1, HO2, HO3⟩ := hhand h0.id bh.leaves (flowBlock body cur).raise bh r2.2 [] hrep_h preh c1
      (Or.inr ⟨hfresh, rfl, rfl⟩) hraises
    -- frames to the final state
    have f2e : FF (ck h0.id :: keysL3 (h0 :: rest)) r2.1
        (((visitHandlers σ h0.id (h0 :: rest) bh r2.2).1.newCondBranch h0.id).exitCondSection h0.id) :=
      (((ff_enterCondSection _ r2.1 h0.id (List.mem_cons_self ..)).trans
        (fhand h0.id _ bh r2.2 (List.mem_cons_self ..) (fun k hk => List.mem_cons_of_mem _ hk))).trans
        (ff_newCondBranch _ _ h0.id (List.mem_cons_self ..))).trans (ff_exitCondSection _ _ h0.id (List.mem_cons_self ..))
    have d_h_02 : ∀ k, k ∈ keysL3 (h0 :: rest) → k ∉ keysL3 body ++ (elseKey i orelse ++ keysL3 orelse) :=
      fun k hk h => d_h_pre k hk (List.mem_cons_of_mem _ h)
    have tr2 : Tr σ (ck h0.id :: keysL3 (h0 :: rest)) r2.1 := ((hp.tr.sub kh).move f02.x d_h_02).cons_ck h0.id
    have hTe : ∀ cP, TOk cP T (sk i :: (elseKey i orelse ++ (repKey (h0 :: rest) ++ (keysL3 body ++ (keysL3 (h0 :: rest) ++ (keysL3 orelse ++ keysL3 final)))))) →
        TOk cP T (ck h0.id :: keysL3 (h0 :: rest)) := fun cP h => (h.sub kh).cons_ck h0.id
    refine ⟨keeps_tr (tr2.in_try i fin) f2e (hTe _ hT) _ P1, keeps_tr (tr2.in_try i fin) f2e (TOk.nil _ _) _ P2, HO1, ?_, HO2, ?_⟩
    · intro x hx
      rcases List.mem_append.mp hx with hx | hx
      · apply HO3 x
        refine Or.inr (Or.inr (Or.inl ?_))
        show x ∈ (r2.1.enterCondSection h0.id).leafSet
        rw [c3]; exact IHo.norm x hx
      · exact HO3 x (Or.inr (Or.inr (Or.inr hx)))
    · refine (f02.weaken k5).trans (f2e.weaken ?_)
      intro k hk
      rcases List.mem_cons.mp hk with e | hk
      · rw [e]; simp [hrk]
      · simp [hk]

/-! ### the `finally` block -/

/-- a step that keeps the dictionaries, the guard lists, the finished sections and what is started for `T` -/
theorem keeps_weak {σ : List Scope} {T : Nat} {curP : List Nat} {b b' : B} (W : WRel b b')
    (he : b'.exits = b.exits) (hc : b'.continues = b.continues) (hf : b'.finallySections = b.finallySections)
    (her : b'.errors = b.errors) (hr : b'.raises = b.raises)
    (hst : ∀ y, StartedAt b T y → StartedAt b' T y) : Keeps σ T curP b b' := by
  have hd : ∀ c, dictOf c b' = dictOf c b := fun c => by cases c <;> simp [dictOf, he, hc]
  have pj : ∀ c t G x, PJ c b t G x → PJ c b' t G x :=
    fun c t G x h => W.pj h (by rw [hd]) (fun _ _ _ _ => by rw [hf])
  intro R h
  refine ⟨?_, ?_, ?_, ?_, ?_, fun x hx => by rw [her]; exact h.exempt x hx⟩
  · intro p hp
    rcases h.req p hp with h1 | ⟨c, t, htg, h1⟩ | ⟨h1, h2⟩
    · exact Or.inl (W.edges p h1)
    · exact Or.inr (Or.inl ⟨c, t, htg, W.ppat h1 (by rw [hd]) (fun _ _ _ _ => by rw [hf])⟩)
    · exact Or.inr (Or.inr ⟨h1, hst _ h2⟩)
  · intro x hx; obtain ⟨L, hL, h1⟩ := h.brk x hx; exact ⟨L, hL, pj _ _ _ _ h1⟩
  · intro x hx; obtain ⟨L, hL, h1⟩ := h.cont x hx; exact ⟨L, hL, pj _ _ _ _ h1⟩
  · intro x hx; obtain ⟨F, hF, h1⟩ := h.ret x hx; exact ⟨F, hF, pj _ _ _ _ h1⟩
  · intro x hx
    obtain ⟨h1, h2⟩ := h.raise x hx
    exact ⟨by rw [her]; exact h1, fun hd' hhd => by rw [hr]; exact h2 hd' hhd⟩

/-- `exit_finally_section(i)` once the block has its first node -/
theorem exitFinally_spec (b : B) (i beg : Nat) (direct : Bool)
    (hs : aget i b.finallySub = some (some beg, none)) (hnp : i ∉ b.pendingFinally)
    (hd : aget i b.finallyDirect = some direct) :
    WRel b (b.exitFinallySection i) ∧
    ((b.exitFinallySection i).exits = b.exits ∧ (b.exitFinallySection i).continues = b.continues ∧
      (b.exitFinallySection i).finallySections = b.finallySections ∧ (b.exitFinallySection i).errors = b.errors ∧
      (b.exitFinallySection i).raises = b.raises) ∧
    (∃ ends, aget i (b.exitFinallySection i).finallySub = some (some beg, some ends) ∧
      ∀ x, x ∈ b.leafSet → x ∈ (b.exitFinallySection i).deref ends) ∧
    (∀ g, g ≠ i → aget g (b.exitFinallySection i).finallySub = aget g b.finallySub) ∧
    (direct = true → (b.exitFinallySection i).leafSet = b.leafSet) ∧
    (direct = false → (b.exitFinallySection i).leafSet = []) := by
  have hfs : ∀ (b1 : B), b1.finallySub = aset i (some beg, some b.leaves) b.finallySub →
      (∀ g, g ≠ i → aget g b1.finallySub = aget g b.finallySub) ∧
      (∀ g bg e, aget g b.finallySub = some (some bg, some e) → aget g b1.finallySub = some (some bg, some e)) ∧
      aget i b1.finallySub = some (some beg, some b.leaves) := by
    intro b1 h1
    refine ⟨fun g hg => by rw [h1, aget_aset, if_neg hg], ?_, by rw [h1, aget_aset]; simp⟩
    intro g bg e hg
    have hne : g ≠ i := by
      intro e'; rw [e', hs] at hg; cases hg
    rw [h1, aget_aset, if_neg hne]; exact hg
  cases direct with
  | true =>
    have hb : b.exitFinallySection i = (b.check (b.pendingFinally.contains i) "assert: Empty finally?").closeFinally i (some beg) := by
      simp [B.exitFinallySection, hs, hd]
    rw [hb]
    obtain ⟨f1, f2, f3⟩ := hfs ((b.check (b.pendingFinally.contains i) "assert: Empty finally?").closeFinally i (some beg))
      (by simp [B.closeFinally])
    refine ⟨⟨fun p h => by simpa [B.closeFinally] using h, fun r x h => by simpa [B.closeFinally, B.deref] using h, f2,
      by simp [B.closeFinally]⟩, ⟨by simp, by simp, by simp [B.closeFinally], by simp [B.closeFinally], by simp [B.closeFinally]⟩,
      ⟨b.leaves, f3, fun x hx => by simpa [B.closeFinally, B.deref, B.leafSet] using hx⟩, f1,
      (fun _ => by simp [B.closeFinally, B.leafSet, B.deref]), (fun h => by cases h)⟩
  | false =>
    have hb : b.exitFinallySection i =
        ((b.check (b.pendingFinally.contains i) "assert: Empty finally?").closeFinally i (some beg)).setLeavesFresh [] := by
      simp [B.exitFinallySection, hs, hd]
    rw [hb]
    obtain ⟨f1, f2, f3⟩ := hfs (((b.check (b.pendingFinally.contains i) "assert: Empty finally?").closeFinally i (some beg)).setLeavesFresh [])
      (by simp [B.closeFinally])
    have hder : ∀ r x, x ∈ b.deref r →
        x ∈ (((b.check (b.pendingFinally.contains i) "assert: Empty finally?").closeFinally i (some beg)).setLeavesFresh []).deref r := by
      intro r x h
      apply B.deref_setLeavesFresh
      simpa [B.closeFinally, B.deref] using h
    refine ⟨⟨fun p h => by simpa [B.closeFinally] using h, hder, f2, by simp [B.closeFinally]⟩,
      ⟨by simp, by simp, by simp [B.closeFinally], by simp [B.closeFinally], by simp [B.closeFinally]⟩,
      ⟨b.leaves, f3, fun x hx => hder _ x hx⟩, f1, (fun h => by cases h), fun _ => by simp⟩

theorem getLast?_split {pre : List Nat} {g : Nat} (h : pre.getLast? = some g) : ∃ pre', pre = pre' ++ [g] := by
  induction pre with
  | nil => simp at h
  | cons a t ih =>
    cases t with
    | nil =>
      simp only [List.getLast?_singleton, Option.some.injEq] at h
      exact ⟨[], by simp [h]⟩
    | cons c t' =>
      rw [List.getLast?_cons_cons] at h
      obtain ⟨pre', hp⟩ := ih h
      exact ⟨a :: pre', by rw [hp]; rfl⟩

/-- a node pending before the `finally` block `i` flows into the block's first node: a pending pair of its jump -/
theorem pp_of_started {b : B} {c : Bool} {t i : Nat} {G : List Nat} {x' y : Nat} (hpj : PJ c b t (i :: G) x')
    (hst : StartedAt b i y) (hC : Complete b i) : PPat b c t (x', y) := by
  obtain ⟨l, j, pre, h1, h2, h3, h4, h5⟩ := hpj
  have hbeg : BeginOf b i y := by
    obtain ⟨_, bg, ends, hc⟩ := hC
    obtain ⟨hn, e, he⟩ := hst
    rw [hc] at he
    simp only [Option.some.injEq, Prod.mk.injEq] at he
    obtain ⟨he1, _⟩ := he
    exact ⟨hn, ends, by rw [hc, he1]⟩
  refine ⟨l, j, pre ++ i :: G, h1, h2, h3, ?_⟩
  rcases h5 with ⟨hp, hx⟩ | ⟨g, bg, ends, hl, hg, hx⟩
  · subst hp
    exact Or.inl ⟨i, G, rfl, hx, hbeg⟩
  · obtain ⟨pre', hp⟩ := getLast?_split hl
    subst hp
    have hgc := h4 g (by simp)
    exact Or.inr ⟨pre', g, i, G, bg, ends, by simp, hgc.1, hg, hx, hbeg⟩

/-- … and the end nodes of the block are where that jump is after passing `i` -/
theorem pj_after {b : B} {c : Bool} {t i : Nat} {G : List Nat} {x' x : Nat} (hpj : PJ c b t (i :: G) x') (hC : Complete b i)
    {bg ends : Nat} (hi : aget i b.finallySub = some (some bg, some ends)) (hx : x ∈ b.deref ends) : PJ c b t G x := by
  obtain ⟨l, j, pre, h1, h2, h3, h4, _⟩ := hpj
  refine ⟨l, j, pre ++ [i], h1, h2, by rw [h3]; simp, ?_, Or.inr ⟨i, bg, ends, by simp, hi, hx⟩⟩
  intro g hg
  rcases List.mem_append.mp hg with hg | hg
  · exact h4 g hg
  · simp only [List.mem_singleton] at hg; rw [hg]; exact hC

/-- The `finally` block run with a pending outcome: its pairs from the pending nodes become pending pairs of their jumps,
its normal ends are that outcome, one guard further. -/
theorem fin_convert (σ : List Scope) (T : Nat) (curP : List Nat) (i : Nat) (b : B) (Pj : List Nat) (F0 : Flow) (c : Bool)
    (tgt : Option Nat) (G : List Nat) (hC : Complete b i)
    (hends : ∃ bg ends, aget i b.finallySub = some (some bg, some ends) ∧ ∀ x, x ∈ F0.normal → x ∈ b.deref ends)
    (hne : F0.normal ≠ [] → ∃ x', x' ∈ Pj)
    (hPJ : ∀ x', x' ∈ Pj → ∃ t, tgt = some t ∧ PJ c b t (i :: G) x')
    (htg : ∀ t, tgt = some t → Tgt σ c t)
    (h : Pend σ i Pj b F0) :
    Pend σ T curP b { F0 with normal := [] } ∧ (∀ x, x ∈ F0.normal → ∃ t, tgt = some t ∧ PJ c b t G x) := by
  refine ⟨⟨?_, h.brk, h.cont, h.ret, h.raise, h.exempt⟩, ?_⟩
  · intro p hp
    rcases h.req p hp with h1 | h1 | ⟨h1, h2⟩
    · exact Or.inl h1
    · exact Or.inr (Or.inl h1)
    · obtain ⟨t, ht, hpj⟩ := hPJ p.1 h1
      exact Or.inr (Or.inl ⟨c, t, htg t ht, pp_of_started hpj h2 hC⟩)
  · intro x hx
    obtain ⟨x', hx'⟩ := hne (fun e => by rw [e] at hx; cases hx)
    obtain ⟨t, ht, hpj⟩ := hPJ x' hx'
    obtain ⟨bg, ends, he, hsub⟩ := hends
    exact ⟨t, ht, pj_after hpj hC he (hsub x hx)⟩

theorem flowBlock_nil_cur (ss : List Stmt) (hne : ss ≠ []) : flowBlock ss [] = {} := by
  cases ss with
  | nil => exact (hne rfl).elim
  | cons s ss => simp [flowBlock]

theorem Pend.out_of_try0 {σ : List Scope} {i : Nat} {T : Nat} {curP : List Nat} {b : B} {R : Flow}
    (h : Pend (Scope.try_ i false [] :: σ) T curP b R) : Pend σ T curP b R :=
  ⟨h.req, h.brk, h.cont, h.ret, h.raise, h.exempt⟩

theorem Pend.three {σ : List Scope} {T : Nat} {curP : List Nat} {b : B} {R1 R2 H : Flow} (N : List Nat)
    (h1 : Pend σ T curP b R1) (h2 : Pend σ T curP b R2) (h3 : Pend σ T curP b H) :
    Pend σ T curP b
      { req := R1.req ++ (R2.req ++ H.req), normal := N, brk := R1.brk ++ (R2.brk ++ H.brk),
        cont := R1.cont ++ (R2.cont ++ H.cont), ret := R1.ret ++ (R2.ret ++ H.ret),
        raise := R1.raise ++ (R2.raise ++ H.raise), exempt := R1.exempt ++ (R2.exempt ++ H.exempt) } := by
  refine ⟨?_, ?_, ?_, ?_, ?_, ?_⟩
  · intro x hx; simp only [List.mem_append] at hx; exact hx.elim (h1.req x) (fun h => h.elim (h2.req x) (h3.req x))
  · intro x hx; simp only [List.mem_append] at hx; exact hx.elim (h1.brk x) (fun h => h.elim (h2.brk x) (h3.brk x))
  · intro x hx; simp only [List.mem_append] at hx; exact hx.elim (h1.cont x) (fun h => h.elim (h2.cont x) (h3.cont x))
  · intro x hx; simp only [List.mem_append] at hx; exact hx.elim (h1.ret x) (fun h => h.elim (h2.ret x) (h3.ret x))
  · intro x hx; simp only [List.mem_append] at hx; exact hx.elim (h1.raise x) (fun h => h.elim (h2.raise x) (h3.raise x))
  · intro x hx; simp only [List.mem_append] at hx; exact hx.elim (h1.exempt x) (fun h => h.elim (h2.exempt x) (h3.exempt x))

/-- `try: body except …: … else: orelse` without a `finally` block. -/
theorem lemB_try_nofin (σ : List Scope) (i : Nat) (body handlers orelse : List Stmt) (b : B) (a : Acc) (cur : List Nat)
    (inLoop : Bool) (T : Nat) (curP : List Nat)
    (hH : frag3H inLoop handlers = true)
    (hnd : (sk i :: (elseKey i orelse ++ (repKey handlers ++ (keysL3 body ++ (keysL3 handlers ++ (keysL3 orelse ++ keysL3 [])))))).Nodup)
    (hp : Pre σ (sk i :: (elseKey i orelse ++ (repKey handlers ++ (keysL3 body ++ (keysL3 handlers ++ (keysL3 orelse ++ keysL3 [])))))) b)
    (hT : TOk curP T (sk i :: (elseKey i orelse ++ (repKey handlers ++ (keysL3 body ++ (keysL3 handlers ++ (keysL3 orelse ++ keysL3 [])))))))
    (hc : ∀ x, x ∈ cur → Src b T curP x)
    (fbody : ∀ (b : B) (a : Acc), FF (keysL3 body) b (visitStmts (Scope.try_ i false (handlerIds handlers) :: σ) body b a).1)
    (forelse : ∀ (b : B) (a : Acc), FF (keysL3 orelse) b (visitStmts (Scope.try_ i false (handlerIds handlers) :: σ) orelse b a).1)
    (fhand : ∀ (rep : Nat) (K : List Nat) (b : B) (a : Acc), ck rep ∈ K → (∀ k, k ∈ keysL3 handlers → k ∈ K) →
      FF K b (visitHandlers σ rep handlers b a).1)
    (hbody : ∀ (b : B) (a : Acc) (cur : List Nat), Pre (Scope.try_ i false (handlerIds handlers) :: σ) (keysL3 body) b →
      (∀ x, x ∈ cur → Src b T curP x) →
      Post (Scope.try_ i false (handlerIds handlers) :: σ) T curP (visitStmts (Scope.try_ i false (handlerIds handlers) :: σ) body b a).1 (flowBlock body cur))
    (horelse : ∀ (b : B) (a : Acc) (cur : List Nat), Pre (Scope.try_ i false (handlerIds handlers) :: σ) (keysL3 orelse) b → InLeaves b cur →
      Post (Scope.try_ i false (handlerIds handlers) :: σ) T [] (visitStmts (Scope.try_ i false (handlerIds handlers) :: σ) orelse b a).1 (flowBlock orelse cur))
    (hhand : ∀ (rep L0 : Nat) (rs : List Nat) (b : B) (a : Acc) (splits : List Nat),
      ck rep ∉ keysL3 handlers → Pre σ (keysL3 handlers) b →
      aget rep b.condLeaves = some splits →
      (aget rep b.condEntry = some L0 ∨ (aget rep b.condEntry = none ∧ b.leaves = L0 ∧ splits = [])) →
      (∀ hid, hid ∈ handlerIds handlers → ∀ x, x ∈ rs → ∃ l, aget hid b.raises = some l ∧ x ∈ l) →
      HandlersOk σ rep L0 rs handlers b a splits T) :
    Post σ T curP (visitStmt σ (.try_ i body handlers orelse []) b a).1 (flowStmt (.try_ i body handlers orelse []) cur) := by
  obtain ⟨P1, P2, PH, hN, ldj3, _⟩ := lemB_tryPre σ i body handlers orelse [] b a cur inLoop false T curP hH hnd hp hT hc
    fbody forelse fhand hbody horelse hhand
  have hvis : (visitStmt σ (.try_ i body handlers orelse []) b a).1 =
      (tryR3 σ handlers (tryR2 i (Scope.try_ i false (handlerIds handlers) :: σ) orelse
        (visitStmts (Scope.try_ i false (handlerIds handlers) :: σ) body (b.beginStatement i) a))).1.endStatement i := rfl
  rw [hvis]
  simp only [flowStmt, List.isEmpty_nil, if_true]
  refine ⟨Pend.three _ (keeps_endStatement _ i _ P1.out_of_try0) (keeps_endStatement _ i _ P2.out_of_try0.weaken)
    (keeps_endStatement _ i _ PH.weaken), ?_, (neutral_endStatement _ i).ldj ldj3⟩
  intro x hx
  rw [B.leafSet_endStatement]
  exact hN x hx

theorem Pend.drop_normal {σ : List Scope} {T : Nat} {curP : List Nat} {b : B} {R : Flow} (h : Pend σ T curP b R) :
    Pend σ T curP b { R with normal := [] } := ⟨h.req, h.brk, h.cont, h.ret, h.raise, h.exempt⟩

/-- `try … finally: f0; frest` -/
theorem lemB_try_fin (σ : List Scope) (i : Nat) (body handlers orelse : List Stmt) (f0 : Stmt) (frest : List Stmt) (b : B) (a : Acc)
    (cur : List Nat) (inLoop : Bool) (T : Nat) (curP : List Nat)
    (hH : frag3H inLoop handlers = true)
    (hnd : (sk i :: (elseKey i orelse ++ (repKey handlers ++ (keysL3 body ++ (keysL3 handlers ++ (keysL3 orelse ++ keysL3 (f0 :: frest))))))).Nodup)
    (hp : Pre σ (sk i :: (elseKey i orelse ++ (repKey handlers ++ (keysL3 body ++ (keysL3 handlers ++ (keysL3 orelse ++ keysL3 (f0 :: frest))))))) b)
    (hT : TOk curP T (sk i :: (elseKey i orelse ++ (repKey handlers ++ (keysL3 body ++ (keysL3 handlers ++ (keysL3 orelse ++ keysL3 (f0 :: frest))))))))
    (hc : ∀ x, x ∈ cur → Src b T curP x)
    (fbody : ∀ (b : B) (a : Acc), FF (keysL3 body) b (visitStmts (Scope.try_ i true (handlerIds handlers) :: σ) body b a).1)
    (forelse : ∀ (b : B) (a : Acc), FF (keysL3 orelse) b (visitStmts (Scope.try_ i true (handlerIds handlers) :: σ) orelse b a).1)
    (fhand : ∀ (rep : Nat) (K : List Nat) (b : B) (a : Acc), ck rep ∈ K → (∀ k, k ∈ keysL3 handlers → k ∈ K) →
      FF K b (visitHandlers σ rep handlers b a).1)
    (ffinal : ∀ (b : B) (a : Acc), FF (keysL3 (f0 :: frest)) b (visitStmts σ (f0 :: frest) b a).1)
    (efinal : ∀ (b : B) (a : Acc), EmitsOk (keysL3 (f0 :: frest)) b (visitStmts σ (f0 :: frest) b a).1)
    (hbody : ∀ (b : B) (a : Acc) (cur : List Nat), Pre (Scope.try_ i true (handlerIds handlers) :: σ) (keysL3 body) b →
      (∀ x, x ∈ cur → Src b T curP x) →
      Post (Scope.try_ i true (handlerIds handlers) :: σ) T curP (visitStmts (Scope.try_ i true (handlerIds handlers) :: σ) body b a).1 (flowBlock body cur))
    (horelse : ∀ (b : B) (a : Acc) (cur : List Nat), Pre (Scope.try_ i true (handlerIds handlers) :: σ) (keysL3 orelse) b → InLeaves b cur →
      Post (Scope.try_ i true (handlerIds handlers) :: σ) T [] (visitStmts (Scope.try_ i true (handlerIds handlers) :: σ) orelse b a).1 (flowBlock orelse cur))
    (hhand : ∀ (rep L0 : Nat) (rs : List Nat) (b : B) (a : Acc) (splits : List Nat),
      ck rep ∉ keysL3 handlers → Pre σ (keysL3 handlers) b →
      aget rep b.condLeaves = some splits →
      (aget rep b.condEntry = some L0 ∨ (aget rep b.condEntry = none ∧ b.leaves = L0 ∧ splits = [])) →
      (∀ hid, hid ∈ handlerIds handlers → ∀ x, x ∈ rs → ∃ l, aget hid b.raises = some l ∧ x ∈ l) →
      HandlersOk σ rep L0 rs handlers b a splits T)
    (hfinal : ∀ (b : B) (a : Acc) (cur cP : List Nat), Pre σ (keysL3 (f0 :: frest)) b → (∀ x, x ∈ cur → Src b i cP x) →
      Post σ i cP (visitStmts σ (f0 :: frest) b a).1 (flowBlock (f0 :: frest) cur))
    (hnoesc : ∀ rs, (flowHandlers handlers rs).brk = [] ∧ (flowHandlers handlers rs).cont = [] ∧ (flowHandlers handlers rs).ret = []) :
    Post σ T curP (visitStmt σ (.try_ i body handlers orelse (f0 :: frest)) b a).1
      (flowStmt (.try_ i body handlers orelse (f0 :: frest)) cur) := by
  obtain ⟨P1, P2, PH, hN, ldj3, f03⟩ := lemB_tryPre σ i body handlers orelse (f0 :: frest) b a cur inLoop true T curP hH hnd hp hT hc
    fbody forelse fhand hbody horelse hhand
  -- keys
  obtain ⟨hi_all, hnd0⟩ := List.nodup_cons.mp hnd
  obtain ⟨_, d_ro, d_rh, d_b, d_h, d_o⟩ := nd6 hnd0
  have hi_f : sk i ∉ keysL3 (f0 :: frest) := fun h => hi_all (by simp [h])
  have kf : ∀ k, k ∈ keysL3 (f0 :: frest) → k ∈ sk i :: (elseKey i orelse ++ (repKey handlers ++ (keysL3 body ++ (keysL3 handlers ++ (keysL3 orelse ++ keysL3 (f0 :: frest)))))) :=
    fun k hk => List.mem_cons_of_mem _ (by simp [hk])
  have k5 : ∀ k, k ∈ elseKey i orelse ++ (repKey handlers ++ (keysL3 body ++ (keysL3 handlers ++ keysL3 orelse))) →
      k ∈ sk i :: (elseKey i orelse ++ (repKey handlers ++ (keysL3 body ++ (keysL3 handlers ++ (keysL3 orelse ++ keysL3 (f0 :: frest)))))) := by
    intro k hk
    simp only [List.mem_append] at hk
    rcases hk with hk | hk | hk | hk | hk <;> exact List.mem_cons_of_mem _ (by simp [hk])
  have ki5 : ∀ k, k ∈ sk i :: (elseKey i orelse ++ (repKey handlers ++ (keysL3 body ++ (keysL3 handlers ++ keysL3 orelse)))) →
      k ∈ sk i :: (elseKey i orelse ++ (repKey handlers ++ (keysL3 body ++ (keysL3 handlers ++ (keysL3 orelse ++ keysL3 (f0 :: frest)))))) := by
    intro k hk
    rcases List.mem_cons.mp hk with e | hk
    · rw [e]; exact List.mem_cons_self ..
    · exact k5 k hk
  have hi_5 : sk i ∉ elseKey i orelse ++ (repKey handlers ++ (keysL3 body ++ (keysL3 handlers ++ keysL3 orelse))) := by
    intro h
    have := k5 _ h
    rcases List.mem_cons.mp this with e | h'
    · exact hi_all (by
        simp only [List.mem_append] at h
        rcases h with h | h | h | h | h <;> simp [h])
    · exact hi_all h'
  have d_f5 : ∀ k, k ∈ keysL3 (f0 :: frest) → k ∉ sk i :: (elseKey i orelse ++ (repKey handlers ++ (keysL3 body ++ (keysL3 handlers ++ keysL3 orelse)))) := by
    intro k hk h
    rcases List.mem_cons.mp h with e | h
    · exact hi_f (e ▸ hk)
    · simp only [List.mem_append] at h
      rcases h with h | h | h | h | h
      · exact (d_ro _ h).2.2.2.2 hk
      · exact (d_rh _ h).2.2.2 hk
      · exact (d_b _ h).2.2 hk
      · exact (d_h _ h).2 hk
      · exact d_o _ h hk
  -- states
  let R3 := tryR3 σ handlers (tryR2 i (Scope.try_ i true (handlerIds handlers) :: σ) orelse
        (visitStmts (Scope.try_ i true (handlerIds handlers) :: σ) body (b.beginStatement i) a))
  let b5 := R3.1.enterFinallySection i
  let r6 := visitStmts σ (f0 :: frest) b5 R3.2
  let b7 := r6.1.exitFinallySection i
  have hvis : (visitStmt σ (.try_ i body handlers orelse (f0 :: frest)) b a).1 = b7.endStatement i := rfl
  rw [hvis]
  have f05 : FF (sk i :: (elseKey i orelse ++ (repKey handlers ++ (keysL3 body ++ (keysL3 handlers ++ keysL3 orelse))))) b b5 :=
    (f03.weaken (fun k hk => List.mem_cons_of_mem _ hk)).trans (ff_enterFinallySection _ _ i (List.mem_cons_self ..))
  have ldj5 : ListsDisjoint b5 := ldj_of_eq (b := R3.1) rfl rfl ldj3
  have pre5 : Pre σ (keysL3 (f0 :: frest)) b5 := (hp.sub kf).move f05.f f05.x (fun k hk h => hp.disj k hk (ki5 k h)) d_f5 ldj5
  have hsub5 : aget i b5.finallySub = some (none, none) := by
    show aget i (aset i _ _) = _
    rw [aget_aset]; simp
  have wait5 : Wait b5 i := by
    refine ⟨?_, none, none, hsub5⟩
    show i ∈ (if R3.1.pendingFinally.contains i then R3.1.pendingFinally else R3.1.pendingFinally ++ [i])
    split
    · rename_i h; simpa using h
    · simp
  have hdir5 : aget i b5.finallyDirect = some (!R3.1.leafSet.isEmpty) := by
    show aget i (aset i _ _) = _
    rw [aget_aset]; simp
  have ff := ffinal b5 R3.2
  obtain ⟨hnp6, beg, e, hs6⟩ := efinal b5 R3.2 i hi_f wait5
  have he : e = none := by
    have := ff.x.fends i hi_f
    rw [hs6, hsub5] at this
    simpa using this
  subst he
  have hdir6 : aget i r6.1.finallyDirect = some (!R3.1.leafSet.isEmpty) := by rw [ff.x.fdir i hi_f]; exact hdir5
  obtain ⟨W, ⟨xe, xc, xf, xer, xr⟩, ⟨ends, hends, hsubE⟩, hoth, hdT, hdF⟩ := exitFinally_spec r6.1 i beg _ hs6 hnp6 hdir6
  have hC7 : Complete b7 i := ⟨by rw [W.pendingFinally]; exact hnp6, beg, ends, hends⟩
  have hst67 : ∀ T' y, StartedAt r6.1 T' y → StartedAt b7 T' y := by
    intro T' y hst
    obtain ⟨h1, e', h2⟩ := hst
    by_cases hTi : T' = i
    · subst hTi
      rw [hs6] at h2
      simp only [Option.some.injEq, Prod.mk.injEq] at h2
      exact ⟨by rw [W.pendingFinally]; exact h1, some ends, by rw [← h2.1]; exact hends⟩
    · exact ⟨by rw [W.pendingFinally]; exact h1, e', by rw [hoth T' hTi]; exact h2⟩
  -- what is kept up to the end of the `finally` block
  have tr3 : Tr σ [sk i] R3.1 :=
    (hp.tr.sub (fun k hk => by simp only [List.mem_singleton] at hk; rw [hk]; exact List.mem_cons_self ..)).move f03.x
      (fun k hk h => hi_5 (by simp only [List.mem_singleton] at hk; rw [← hk]; exact h))
  have k37 : ∀ (σ0 : List Scope), (∀ K' b', Tr σ K' b' → Tr σ0 K' b') → ∀ T' cP,
      TOk cP T' (sk i :: (elseKey i orelse ++ (repKey handlers ++ (keysL3 body ++ (keysL3 handlers ++ (keysL3 orelse ++ keysL3 (f0 :: frest))))))) →
      Keeps σ0 T' cP R3.1 b7 := by
    intro σ0 hσ0 T' cP ht
    exact ((keeps_tr (hσ0 _ _ tr3) (ff_enterFinallySection [sk i] R3.1 i (by simp))
        (ht.sub (fun k hk => by simp only [List.mem_singleton] at hk; rw [hk]; exact List.mem_cons_self ..))).trans
      (keeps_tr (hσ0 _ _ pre5.tr) ff (ht.sub kf))).trans (keeps_weak W xe xc xf xer xr (hst67 T'))
  have inTry : ∀ K' b', Tr σ K' b' → Tr (Scope.try_ i true [] :: σ) K' b' := fun _ _ h => h.in_try i true
  have P1_7 := k37 _ inTry T curP hT _ P1
  have P2_7 := k37 _ inTry T [] (TOk.nil _ _) _ P2
  have PH_7 := k37 σ (fun _ _ h => h) T [] (TOk.nil _ _) _ PH
  obtain ⟨hHb, hHc, hHr⟩ := hnoesc (flowBlock body cur).raise
  -- the four runs of the `finally` block
  have srcP : ∀ (l : List Nat) x, x ∈ l → Src b5 i l x := fun l x hx => Or.inr ⟨hx, wait5⟩
  have In := hfinal b5 R3.2 _ [] pre5 (fun x hx => Or.inl (hN x hx))
  have Ib := hfinal b5 R3.2 _ _ pre5 (srcP ((flowBlock body cur).brk ++ ((flowBlock orelse (flowBlock body cur).normal).brk ++
    (flowHandlers handlers (flowBlock body cur).raise).brk)))
  have Ic := hfinal b5 R3.2 _ _ pre5 (srcP ((flowBlock body cur).cont ++ ((flowBlock orelse (flowBlock body cur).normal).cont ++
    (flowHandlers handlers (flowBlock body cur).raise).cont)))
  have Ir := hfinal b5 R3.2 _ _ pre5 (srcP ((flowBlock body cur).ret ++ ((flowBlock orelse (flowBlock body cur).normal).ret ++
    (flowHandlers handlers (flowBlock body cur).raise).ret)))
  have k67 : ∀ T' cP, Keeps σ T' cP r6.1 b7 := fun T' _ => keeps_weak W xe xc xf xer xr (hst67 T')
  have In_7 := k67 i [] _ In.pend
  have Ib_7 := k67 i _ _ Ib.pend
  have Ic_7 := k67 i _ _ Ic.pend
  have Ir_7 := k67 i _ _ Ir.pend
  -- the pending jumps, at the end of the block
  have hPJb : ∀ x', x' ∈ (flowBlock body cur).brk ++ ((flowBlock orelse (flowBlock body cur).normal).brk ++
      (flowHandlers handlers (flowBlock body cur).raise).brk) →
      ∃ t, loopOf σ = some t ∧ PJ false b7 t (i :: guardsOf .loop σ) x' := by
    intro x' hx'
    rcases List.mem_append.mp hx' with h | h
    · exact P1_7.brk x' h
    · rcases List.mem_append.mp h with h | h
      · exact P2_7.brk x' h
      · rw [hHb] at h; cases h
  have hPJc : ∀ x', x' ∈ (flowBlock body cur).cont ++ ((flowBlock orelse (flowBlock body cur).normal).cont ++
      (flowHandlers handlers (flowBlock body cur).raise).cont) →
      ∃ t, loopOf σ = some t ∧ PJ true b7 t (i :: guardsOf .loop σ) x' := by
    intro x' hx'
    rcases List.mem_append.mp hx' with h | h
    · exact P1_7.cont x' h
    · rcases List.mem_append.mp h with h | h
      · exact P2_7.cont x' h
      · rw [hHc] at h; cases h
  have hPJr : ∀ x', x' ∈ (flowBlock body cur).ret ++ ((flowBlock orelse (flowBlock body cur).normal).ret ++
      (flowHandlers handlers (flowBlock body cur).raise).ret) →
      ∃ t, fnOf σ = some t ∧ PJ false b7 t (i :: guardsOf .fn σ) x' := by
    intro x' hx'
    rcases List.mem_append.mp hx' with h | h
    · exact P1_7.ret x' h
    · rcases List.mem_append.mp h with h | h
      · exact P2_7.ret x' h
      · rw [hHr] at h; cases h
  have hne : ∀ (l : List Nat), (flowBlock (f0 :: frest) l).normal ≠ [] → ∃ x', x' ∈ l := by
    intro l h
    cases l with
    | nil => rw [flowBlock_nil_cur _ (by simp)] at h; exact (h rfl).elim
    | cons x' _ => exact ⟨x', List.mem_cons_self ..⟩
  have hendsN : ∀ (F0 : Flow), InLeaves r6.1 F0.normal →
      ∃ bg ends', aget i b7.finallySub = some (some bg, some ends') ∧ ∀ x, x ∈ F0.normal → x ∈ b7.deref ends' :=
    fun F0 h => ⟨beg, ends, hends, fun x hx => hsubE x (h x hx)⟩
  obtain ⟨Cb, Nb⟩ := fin_convert σ T curP i b7 _ _ false (loopOf σ) (guardsOf .loop σ) hC7 (hendsN _ Ib.norm) (hne _) hPJb (fun t ht => Or.inl ht) Ib_7
  obtain ⟨Cc, Nc⟩ := fin_convert σ T curP i b7 _ _ true (loopOf σ) (guardsOf .loop σ) hC7 (hendsN _ Ic.norm) (hne _) hPJc (fun t ht => Or.inl ht) Ic_7
  obtain ⟨Cr, Nr⟩ := fin_convert σ T curP i b7 _ _ false (fnOf σ) (guardsOf .fn σ) hC7 (hendsN _ Ir.norm) (hne _) hPJr (fun t ht => Or.inr ⟨rfl, ht⟩) Ir_7
  -- assemble
  have nomem : ∀ (x : Nat), x ∈ ([] : List Nat) → False := fun _ h => (List.not_mem_nil h).elim
  have A7 : Pend σ T curP b7
      { req := (flowBlock body cur).req ++ ((flowBlock orelse (flowBlock body cur).normal).req ++ (flowHandlers handlers (flowBlock body cur).raise).req),
        exempt := ((flowBlock body cur).raise ++ ((flowBlock orelse (flowBlock body cur).normal).raise ++ (flowHandlers handlers (flowBlock body cur).raise).raise)) ++
          ((flowBlock body cur).exempt ++ ((flowBlock orelse (flowBlock body cur).normal).exempt ++ (flowHandlers handlers (flowBlock body cur).raise).exempt)) } := by
    refine ⟨?_, fun x h => (nomem x h).elim, fun x h => (nomem x h).elim, fun x h => (nomem x h).elim, fun x h => (nomem x h).elim, ?_⟩
    · intro p hp'
      simp only [List.mem_append] at hp'
      rcases hp' with h | h | h
      · exact P1_7.req p h
      · exact (P2_7.req p h).weaken
      · exact (PH_7.req p h).weaken
    · intro x hx
      simp only [List.mem_append] at hx
      rcases hx with (h | h | h) | (h | h | h)
      · exact (P1_7.raise x h).1
      · exact (P2_7.raise x h).1
      · exact (PH_7.raise x h).1
      · exact P1_7.exempt x h
      · exact P2_7.exempt x h
      · exact PH_7.exempt x h
  have PFn : Pend σ T curP b7 ((flowBlock (f0 :: frest) ((flowBlock orelse (flowBlock body cur).normal).normal ++
      (flowHandlers handlers (flowBlock body cur).raise).normal)).resumeInto (fun l => { normal := l })) :=
    Pend.alt (Pend.of_req σ T curP b7 [] _ (fun p h => (List.not_mem_nil h).elim)) In_7.retarget.drop_normal
  have PFb : Pend σ T curP b7 ((flowBlock (f0 :: frest) ((flowBlock body cur).brk ++ ((flowBlock orelse (flowBlock body cur).normal).brk ++
      (flowHandlers handlers (flowBlock body cur).raise).brk))).resumeInto (fun l => { brk := l })) :=
    Pend.alt ⟨fun p h => (List.not_mem_nil h).elim, Nb, fun x h => (nomem x h).elim, fun x h => (nomem x h).elim,
      fun x h => (nomem x h).elim, fun x h => (nomem x h).elim⟩ Cb
  have PFc : Pend σ T curP b7 ((flowBlock (f0 :: frest) ((flowBlock body cur).cont ++ ((flowBlock orelse (flowBlock body cur).normal).cont ++
      (flowHandlers handlers (flowBlock body cur).raise).cont))).resumeInto (fun l => { cont := l })) :=
    Pend.alt ⟨fun p h => (List.not_mem_nil h).elim, fun x h => (nomem x h).elim, Nc, fun x h => (nomem x h).elim,
      fun x h => (nomem x h).elim, fun x h => (nomem x h).elim⟩ Cc
  have PFr : Pend σ T curP b7 ((flowBlock (f0 :: frest) ((flowBlock body cur).ret ++ ((flowBlock orelse (flowBlock body cur).normal).ret ++
      (flowHandlers handlers (flowBlock body cur).raise).ret))).resumeInto (fun l => { ret := l })) :=
    Pend.alt ⟨fun p h => (List.not_mem_nil h).elim, fun x h => (nomem x h).elim, fun x h => (nomem x h).elim, Nr,
      fun x h => (nomem x h).elim, fun x h => (nomem x h).elim⟩ Cr
  have total := Pend.alt A7 (Pend.alt PFn (Pend.alt PFb (Pend.alt PFc PFr)))
  simp only [flowStmt, List.isEmpty_cons, Bool.false_eq_true, if_false]
  refine ⟨keeps_endStatement b7 i _ total, ?_, (neutral_endStatement _ i).ldj (ldj_of_eq xe xc In.ldj)⟩
  intro x hx
  simp only [Flow.alt, Flow.resumeInto, List.nil_append, List.append_nil] at hx
  rw [B.leafSet_endStatement]
  by_cases hd : (!R3.1.leafSet.isEmpty) = true
  · rw [hdT hd]; exact In.norm x hx
  · have hd' : (!R3.1.leafSet.isEmpty) = false := by simpa using hd
    have hem : R3.1.leafSet = [] := by simpa using hd'
    have hPn : (flowBlock orelse (flowBlock body cur).normal).normal ++ (flowHandlers handlers (flowBlock body cur).raise).normal = [] := by
      apply List.eq_nil_iff_forall_not_mem.mpr
      intro y hy
      have := hN y hy
      rw [hem] at this
      cases this
    rw [hPn, flowBlock_nil_cur _ (by simp)] at hx
    cases hx

end Malt.Cfg
